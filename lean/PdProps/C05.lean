/-
C05 — inheritance is computed as Python computes it.

Theorems over `PdModel.Mro` (pydoctor's `mro.py` / `model.py`) and `PyMro` (CPython's
`typeobject.c`).  All statements quantify over every hierarchy `bases : Nat → List Nat`; the
hypothesis `Acyclic bases` says that bases are defined before the class (numbered lower), which
Python itself enforces.
-/
import PdModel.Mro

namespace Mro

/-! ## 1. `_merge` (popping lists) and `pmerge` (index vector) are the same function -/

/-- the lists CPython still has to merge: `to_merge[i][remain[i]:]` -/
def view (ps : List (List Nat × Nat)) : List (List Nat) := ps.map fun p => p.1.drop p.2

theorem getElem?_eq_head_drop (l : List Nat) (r : Nat) : l[r]? = (l.drop r).head? := by
  simp [List.head?_drop]

theorem drop_succ_eq_tail_drop (l : List Nat) (r : Nat) : l.drop (r + 1) = (l.drop r).tail := by
  simp [List.tail_drop]

theorem tailContains_eq (l : List Nat) (r c : Nat) :
    PyMro.tailContains l r c = inTail c (l.drop r) := by
  simp [PyMro.tailContains, inTail, List.tail_drop]

theorem any_tailContains (ps : List (List Nat × Nat)) (c : Nat) :
    ps.any (fun q => PyMro.tailContains q.1 q.2 c) = inTails c (view ps) := by
  simp [inTails, view, List.any_map, tailContains_eq, Function.comp_def]

theorem view_bump (c : Nat) (ps : List (List Nat × Nat)) :
    view (PyMro.bump c ps) = remove c (view ps) := by
  simp only [view, PyMro.bump, remove, List.map_map]
  apply List.map_congr_left
  intro p _
  simp only [Function.comp]
  rw [getElem?_eq_head_drop]
  by_cases h : (p.1.drop p.2).head? = some c
  · simp only [h, if_true, drop_succ_eq_tail_drop]
    cases hd : p.1.drop p.2 with
    | nil => simp [hd] at h
    | cons x t => simp [hd] at h; simp [pop, h]
  · simp only [h, if_false]
    cases hd : p.1.drop p.2 with
    | nil => simp [pop]
    | cons x t =>
      have : x ≠ c := by intro e; apply h; simp [hd, e]
      simp [pop, this]

/-- number of exhausted lists among `ps` (`empty_cnt`) -/
def emptyCnt (ps : List (List Nat × Nat)) : Nat := (view ps).countP List.isEmpty

theorem scan_eq (all : List (List Nat × Nat)) :
    ∀ (rest : List (List Nat × Nat)) (e : Nat),
      PyMro.scan all rest e =
        match pick (view all) ((view rest).map head) with
        | some h => .found h
        | none => .notFound (e + emptyCnt rest)
  | [], e => by simp [PyMro.scan, view, pick, emptyCnt]
  | (l, r) :: rest, e => by
    have ih := scan_eq all rest
    simp only [PyMro.scan, view, List.map_cons, head, emptyCnt, List.countP_cons]
    rw [getElem?_eq_head_drop]
    cases hd : (l.drop r) with
    | nil =>
      simp only [List.head?_nil, pick, List.isEmpty_nil, if_true]
      rw [ih]
      simp only [view, emptyCnt]
      split <;> simp_all <;> omega
    | cons x t =>
      simp only [List.head?_cons, pick, any_tailContains]
      have hv : view all = List.map (fun p => List.drop p.2 p.1) all := rfl
      rw [← hv]
      by_cases hin : inTails x (view all) = true
      · simp only [hin, if_true]
        rw [ih]
        simp [view, emptyCnt]
      · simp [hin]

theorem exhausted_iff_emptyCnt (ps : List (List Nat × Nat)) :
    exhausted (view ps) = true ↔ emptyCnt ps = ps.length := by
  have : ps.length = (view ps).length := by simp [view]
  rw [emptyCnt, this, List.countP_eq_length]
  simp [exhausted, List.all_eq_true]

theorem pick_none_of_heads_none (ls : List (List Nat)) :
    ∀ hs : List (Option Nat), (∀ h ∈ hs, h = none) → pick ls hs = none
  | [], _ => rfl
  | none :: hs, hh => by
    simp only [pick]
    exact pick_none_of_heads_none ls hs (fun h hm => hh h (List.mem_cons_of_mem _ hm))
  | some x :: hs, hh => by
    have := hh (some x) (List.mem_cons_self ..)
    simp at this

theorem pick_exhausted (ls : List (List Nat)) (h : exhausted ls = true) :
    pick ls (ls.map head) = none := by
  apply pick_none_of_heads_none
  intro o ho
  simp only [List.mem_map] at ho
  obtain ⟨l, hl, rfl⟩ := ho
  simp only [exhausted, List.all_eq_true] at h
  have := h l hl
  cases l <;> simp_all [head]

/-- the simulation: with the same number of rounds, `pmerge` on `(lists, remain)` does what
`_merge` does on the lists `lists[i][remain[i]:]`. -/
theorem pmergeFuel_eq (f : Nat) : ∀ ps : List (List Nat × Nat),
    PyMro.pmergeFuel f ps = mergeFuel f (view ps) := by
  induction f with
  | zero => intro ps; rfl
  | succ f ih =>
    intro ps
    simp only [PyMro.pmergeFuel, mergeFuel]
    rw [scan_eq ps ps 0]
    by_cases hex : exhausted (view ps) = true
    · have hp := pick_exhausted _ hex
      simp only [hex, if_true, hp]
      simp [(exhausted_iff_emptyCnt ps).1 hex]
    · simp only [hex]
      cases hp : pick (view ps) ((view ps).map head) with
      | none =>
        have : ¬ (emptyCnt ps = ps.length) := fun h => hex ((exhausted_iff_emptyCnt ps).2 h)
        simp [this]
      | some h =>
        simp only [ih, view_bump]
        rfl

theorem view_init (ls : List (List Nat)) : view (ls.map fun l => (l, 0)) = ls := by
  simp [view, List.map_map, Function.comp_def]

/-- **merge_eq_pmerge**: on *every* list of lists (whether or not it comes from a hierarchy),
pydoctor's `_merge` and CPython's `pmerge` return the same linearisation or both fail. -/
theorem merge_eq_pmerge (ls : List (List Nat)) : merge ls = PyMro.pmerge ls := by
  simp [merge, PyMro.pmerge, pmergeFuel_eq, view_init]

/-! ## 2. Facts about `_merge` that hold for every input and any number of rounds -/

theorem pick_some (ls : List (List Nat)) (h : Nat) :
    ∀ hs : List (Option Nat), pick ls hs = some h → some h ∈ hs ∧ inTails h ls = false
  | [], hp => by simp [pick] at hp
  | none :: hs, hp => by
    simp only [pick] at hp
    have := pick_some ls h hs hp
    exact ⟨List.mem_cons_of_mem _ this.1, this.2⟩
  | some x :: hs, hp => by
    simp only [pick] at hp
    by_cases hin : inTails x ls = true
    · simp only [hin, if_true] at hp
      have := pick_some ls h hs hp
      exact ⟨List.mem_cons_of_mem _ this.1, this.2⟩
    · simp only [hin] at hp
      simp at hp
      subst hp
      simp at hin
      exact ⟨List.mem_cons_self .., hin⟩

/-- the chosen candidate is the head of one of the lists and occurs in no tail -/
theorem pick_heads (ls : List (List Nat)) (h : Nat) (hp : pick ls (ls.map head) = some h) :
    (∃ l ∈ ls, ∃ t, l = h :: t) ∧ ∀ l ∈ ls, h ∉ l.tail := by
  obtain ⟨hm, hin⟩ := pick_some ls h _ hp
  constructor
  · simp only [List.mem_map] at hm
    obtain ⟨l, hl, hh⟩ := hm
    refine ⟨l, hl, ?_⟩
    cases l with
    | nil => simp [head] at hh
    | cons x t => simp [head] at hh; exact ⟨t, by rw [hh]⟩
  · intro l hl hmem
    have : inTails h ls = true := by
      simp only [inTails, List.any_eq_true]
      exact ⟨l, hl, by simp [inTail, hmem]⟩
    rw [hin] at this
    cases this

theorem pop_sublist (x : Nat) (l : List Nat) : (pop x l).Sublist l := by
  cases l with
  | nil => simp [pop]
  | cons h t =>
    simp only [pop]
    split
    · exact List.sublist_cons_self h t
    · exact List.Sublist.refl _

/-- once a candidate was taken it is gone from every list -/
theorem not_mem_pop (h : Nat) (l : List Nat) (hn : h ∉ l.tail) : h ∉ pop h l := by
  cases l with
  | nil => simp [pop]
  | cons x t =>
    simp only [pop]
    split
    · simpa using hn
    · rename_i hx
      simp only [List.tail_cons] at hn
      simp only [List.mem_cons, not_or]
      exact ⟨fun e => hx e.symm, hn⟩

theorem mergeFuel_succ (f : Nat) (ls : List (List Nat)) :
    mergeFuel (f + 1) ls =
      if exhausted ls then some []
      else match pick ls (ls.map head) with
        | none => none
        | some h => (mergeFuel f (remove h ls)).map (h :: ·) := rfl

/-- what a successful run of the loop looks like -/
theorem mergeFuel_some (f : Nat) (ls : List (List Nat)) (out : List Nat)
    (h : mergeFuel (f + 1) ls = some out) :
    (exhausted ls = true ∧ out = []) ∨
    (exhausted ls = false ∧ ∃ c out', pick ls (ls.map head) = some c ∧
      mergeFuel f (remove c ls) = some out' ∧ out = c :: out') := by
  rw [mergeFuel_succ] at h
  by_cases hex : exhausted ls = true
  · rw [if_pos hex] at h
    left; exact ⟨hex, by simpa using h.symm⟩
  · right
    rw [if_neg hex] at h
    refine ⟨by simpa using hex, ?_⟩
    cases hp : pick ls (ls.map head) with
    | none => rw [hp] at h; simp at h
    | some c =>
      rw [hp] at h
      cases hm : mergeFuel f (remove c ls) with
      | none => simp [hm] at h
      | some out' =>
        simp [hm] at h
        exact ⟨c, out', rfl, hm, h.symm⟩

/-- every input list is a subsequence of the result (local precedence + monotonicity in one) -/
theorem mergeFuel_sublist : ∀ (f : Nat) (ls : List (List Nat)) (out : List Nat),
    mergeFuel f ls = some out → ∀ l ∈ ls, l.Sublist out := by
  intro f
  induction f with
  | zero => intro ls out h; simp [mergeFuel] at h
  | succ f ih =>
    intro ls out h l hl
    rcases mergeFuel_some f ls out h with ⟨hex, rfl⟩ | ⟨_, c, out', hp, hm, rfl⟩
    · simp only [exhausted, List.all_eq_true] at hex
      have := hex l hl
      cases l with
      | nil => exact List.nil_sublist _
      | cons => simp at this
    · have hsub := ih (remove c ls) out' hm (pop c l) (by simp only [remove]; exact List.mem_map_of_mem hl)
      cases l with
      | nil => exact List.nil_sublist _
      | cons x t =>
        simp only [pop] at hsub
        by_cases hx : x = c
        · subst hx
          simp only [if_true] at hsub
          exact List.Sublist.cons_cons _ hsub
        · simp only [hx, if_false] at hsub
          exact List.Sublist.cons _ hsub

/-- every element of the result comes from one of the lists -/
theorem mergeFuel_mem : ∀ (f : Nat) (ls : List (List Nat)) (out : List Nat),
    mergeFuel f ls = some out → ∀ x ∈ out, ∃ l ∈ ls, x ∈ l := by
  intro f
  induction f with
  | zero => intro ls out h; simp [mergeFuel] at h
  | succ f ih =>
    intro ls out h x hx
    rcases mergeFuel_some f ls out h with ⟨_, rfl⟩ | ⟨_, c, out', hp, hm, rfl⟩
    · simp at hx
    · rcases List.mem_cons.1 hx with rfl | hx'
      · obtain ⟨⟨l, hl, t, rfl⟩, _⟩ := pick_heads ls _ hp
        exact ⟨_, hl, List.mem_cons_self ..⟩
      · obtain ⟨l', hl', hxl⟩ := ih _ _ hm x hx'
        simp only [remove, List.mem_map] at hl'
        obtain ⟨l, hl, rfl⟩ := hl'
        exact ⟨l, hl, (pop_sublist c l).subset hxl⟩

theorem mergeFuel_nodup : ∀ (f : Nat) (ls : List (List Nat)) (out : List Nat),
    mergeFuel f ls = some out → out.Nodup := by
  intro f
  induction f with
  | zero => intro ls out h; simp [mergeFuel] at h
  | succ f ih =>
    intro ls out h
    rcases mergeFuel_some f ls out h with ⟨_, rfl⟩ | ⟨_, c, out', hp, hm, rfl⟩
    · simp
    · refine List.nodup_cons.2 ⟨?_, ih _ _ hm⟩
      intro hc
      obtain ⟨l', hl', hcl⟩ := mergeFuel_mem _ _ _ hm c hc
      simp only [remove, List.mem_map] at hl'
      obtain ⟨l, hl, rfl⟩ := hl'
      exact not_mem_pop c l ((pick_heads ls c hp).2 l hl) hcl

/-- a list with a repeated element can never be merged -/
theorem mergeFuel_dup (f : Nat) (ls : List (List Nat)) (l : List Nat) (hl : l ∈ ls)
    (hd : ¬ l.Nodup) : mergeFuel f ls = none := by
  cases h : mergeFuel f ls with
  | none => rfl
  | some out =>
    exact absurd ((mergeFuel_sublist f ls out h l hl).nodup (mergeFuel_nodup f ls out h)) hd

/-! ### the number of rounds: `size + 1` is enough, more changes nothing -/

theorem size_cons (l : List Nat) (ls : List (List Nat)) : size (l :: ls) = l.length + size ls := by
  simp [size]

theorem size_remove_le (c : Nat) : ∀ ls : List (List Nat), size (remove c ls) ≤ size ls
  | [] => by simp [remove, size]
  | l :: ls => by
    have ih := size_remove_le c ls
    have h1 : (pop c l).length ≤ l.length := (pop_sublist c l).length_le
    simp only [remove, List.map_cons, size_cons] at ih ⊢
    omega

theorem size_remove_lt (c : Nat) : ∀ ls : List (List Nat), (∃ l ∈ ls, ∃ t, l = c :: t) →
    size (remove c ls) < size ls
  | [], h => by simp at h
  | l :: ls, h => by
    obtain ⟨l', hl', t, rfl⟩ := h
    simp only [remove, List.map_cons, size_cons]
    rcases List.mem_cons.1 hl' with e | hm
    · subst e
      have := size_remove_le c ls
      simp only [remove] at this
      simp [pop]; omega
    · have ih := size_remove_lt c ls ⟨_, hm, t, rfl⟩
      have h1 : (pop c l).length ≤ l.length := (pop_sublist c l).length_le
      simp only [remove] at ih
      omega

/-- **mergeFuel_stable**: with more than `size ls` rounds the result does not depend on the number
of rounds — `none` from `merge` is the `ValueError`, never exhaustion of the fuel. -/
theorem mergeFuel_stable : ∀ (f g : Nat) (ls : List (List Nat)), size ls < f → size ls < g →
    mergeFuel f ls = mergeFuel g ls := by
  intro f
  induction f with
  | zero => intro g ls h; omega
  | succ f ih =>
    intro g ls hf hg
    cases g with
    | zero => omega
    | succ g =>
      rw [mergeFuel_succ, mergeFuel_succ]
      by_cases hex : exhausted ls = true
      · simp [hex]
      · simp only [hex]
        cases hp : pick ls (ls.map head) with
        | none => rfl
        | some c =>
          have := size_remove_lt c ls (pick_heads ls c hp).1
          simp only []
          rw [ih g (remove c ls) (by omega) (by omega)]

theorem merge_eq_mergeFuel (f : Nat) (ls : List (List Nat)) (h : size ls < f) :
    merge ls = mergeFuel f ls :=
  mergeFuel_stable _ _ _ (by omega) h

/-- the loop of `_merge`, without any fuel: the recurrence the Python code runs -/
theorem merge_unfold (ls : List (List Nat)) :
    merge ls =
      if exhausted ls then some []
      else match pick ls (ls.map head) with
        | none => none
        | some h => (merge (remove h ls)).map (h :: ·) := by
  rw [merge, mergeFuel_succ]
  by_cases hex : exhausted ls = true
  · simp [hex]
  · simp only [hex]
    cases hp : pick ls (ls.map head) with
    | none => rfl
    | some c =>
      have := size_remove_lt c ls (pick_heads ls c hp).1
      simp only []
      rw [merge_eq_mergeFuel (size ls) (remove c ls) this]

/-! ## 3. The linearisation of a hierarchy -/

/-- bases are defined before the class -/
def Acyclic (bases : Nat → List Nat) : Prop := ∀ c, ∀ b ∈ bases c, b < c

/-- `Anc bases x c`: `x` is `c` or a (transitive) base of `c` -/
inductive Anc (bases : Nat → List Nat) : Nat → Nat → Prop
  | refl (c : Nat) : Anc bases c c
  | step {x b c : Nat} : b ∈ bases c → Anc bases x b → Anc bases x c

section mapOpt
variable {α β : Type}

theorem mapOpt_cons_some (f : α → Option β) (x : α) (xs : List α) (ys : List β) :
    mapOpt f (x :: xs) = some ys ↔
      ∃ y ys', f x = some y ∧ mapOpt f xs = some ys' ∧ ys = y :: ys' := by
  simp only [mapOpt]
  cases hx : f x with
  | none => simp
  | some y =>
    cases hxs : mapOpt f xs with
    | none => simp
    | some ys' =>
      simp only [Option.some.injEq]
      constructor
      · intro h; exact ⟨y, ys', rfl, rfl, h.symm⟩
      · rintro ⟨y', ys'', rfl, rfl, rfl⟩; rfl

theorem mapOpt_congr (f g : α → Option β) : ∀ xs : List α, (∀ x ∈ xs, f x = g x) →
    mapOpt f xs = mapOpt g xs
  | [], _ => rfl
  | x :: xs, h => by
    have ih := mapOpt_congr f g xs (fun a ha => h a (List.mem_cons_of_mem _ ha))
    simp only [mapOpt, h x (List.mem_cons_self ..), ih]

theorem mapOpt_some_left (f : α → Option β) : ∀ (xs : List α) (ys : List β),
    mapOpt f xs = some ys → ∀ x ∈ xs, ∃ y ∈ ys, f x = some y
  | [], _, _, x, hx => by simp at hx
  | a :: xs, ys, h, x, hx => by
    obtain ⟨y, ys', hy, hys, rfl⟩ := (mapOpt_cons_some f a xs ys).1 h
    rcases List.mem_cons.1 hx with rfl | hx'
    · exact ⟨y, List.mem_cons_self .., hy⟩
    · obtain ⟨y', hy', hf⟩ := mapOpt_some_left f xs ys' hys x hx'
      exact ⟨y', List.mem_cons_of_mem _ hy', hf⟩

theorem mapOpt_some_right (f : α → Option β) : ∀ (xs : List α) (ys : List β),
    mapOpt f xs = some ys → ∀ y ∈ ys, ∃ x ∈ xs, f x = some y
  | [], ys, h, y, hy => by simp [mapOpt] at h; subst h; simp at hy
  | a :: xs, ys, h, y, hy => by
    obtain ⟨y0, ys', hy0, hys, rfl⟩ := (mapOpt_cons_some f a xs ys).1 h
    rcases List.mem_cons.1 hy with rfl | hy'
    · exact ⟨a, List.mem_cons_self .., hy0⟩
    · obtain ⟨x, hx, hf⟩ := mapOpt_some_right f xs ys' hys y hy'
      exact ⟨x, List.mem_cons_of_mem _ hx, hf⟩

theorem mapOpt_length (f : α → Option β) : ∀ (xs : List α) (ys : List β),
    mapOpt f xs = some ys → ys.length = xs.length
  | [], ys, h => by simp [mapOpt] at h; subst h; rfl
  | a :: xs, ys, h => by
    obtain ⟨y0, ys', _, hys, rfl⟩ := (mapOpt_cons_some f a xs ys).1 h
    simp [mapOpt_length f xs ys' hys]

theorem mapOpt_map {γ : Type} (f : α → Option β) (g : α → Option γ) (φ : β → γ) :
    ∀ xs : List α, (∀ x ∈ xs, g x = (f x).map φ) → mapOpt g xs = (mapOpt f xs).map (List.map φ)
  | [], _ => rfl
  | x :: xs, h => by
    have ih := mapOpt_map f g φ xs (fun a ha => h a (List.mem_cons_of_mem _ ha))
    simp only [mapOpt, h x (List.mem_cons_self ..), ih]
    cases f x with
    | none => rfl
    | some y => cases mapOpt f xs <;> rfl

end mapOpt

theorem mroFuel_succ (bases : Nat → List Nat) (f c : Nat) :
    mroFuel bases (f + 1) c =
      if (bases c).isEmpty then some [c]
      else match mapOpt (mroFuel bases f) (bases c) with
        | none => none
        | some lins => (merge (lins ++ [bases c])).map (c :: ·) := rfl

/-- what a successful call of `mro(cls, getbases)` looks like -/
theorem mroFuel_some (bases : Nat → List Nat) (f c : Nat) (l : List Nat)
    (h : mroFuel bases (f + 1) c = some l) :
    (bases c = [] ∧ l = [c]) ∨
    (bases c ≠ [] ∧ ∃ lins out, mapOpt (mroFuel bases f) (bases c) = some lins ∧
      merge (lins ++ [bases c]) = some out ∧ l = c :: out) := by
  rw [mroFuel_succ] at h
  by_cases he : (bases c).isEmpty = true
  · rw [if_pos he] at h
    left; exact ⟨by simpa using he, by simpa using h.symm⟩
  · rw [if_neg he] at h
    right
    refine ⟨by simpa using he, ?_⟩
    cases hm : mapOpt (mroFuel bases f) (bases c) with
    | none => simp [hm] at h
    | some lins =>
      simp only [hm] at h
      cases ho : merge (lins ++ [bases c]) with
      | none => simp [ho] at h
      | some out =>
        simp [ho] at h
        exact ⟨lins, out, rfl, ho, h.symm⟩

/-- the linearisation starts with the class, everything after it is numbered lower -/
theorem mroFuel_head_tail (bases : Nat → List Nat) (hA : Acyclic bases) :
    ∀ (f c : Nat) (l : List Nat), mroFuel bases f c = some l → ∃ t, l = c :: t ∧ ∀ x ∈ t, x < c := by
  intro f
  induction f with
  | zero => intro c l h; simp [mroFuel] at h
  | succ f ih =>
    intro c l h
    rcases mroFuel_some bases f c l h with ⟨_, rfl⟩ | ⟨_, lins, out, hm, ho, rfl⟩
    · exact ⟨[], rfl, by simp⟩
    · refine ⟨out, rfl, ?_⟩
      intro x hx
      obtain ⟨l', hl', hxl⟩ := mergeFuel_mem _ _ _ ho x hx
      rcases List.mem_append.1 hl' with hl' | hl'
      · obtain ⟨b, hb, hfb⟩ := mapOpt_some_right _ _ _ hm l' hl'
        obtain ⟨t, rfl, ht⟩ := ih b l' hfb
        have hbc := hA c b hb
        rcases List.mem_cons.1 hxl with rfl | hxt
        · exact hbc
        · exact Nat.lt_trans (ht x hxt) hbc
      · simp at hl'; subst hl'
        exact hA c x hxl

theorem mroFuel_nodup (bases : Nat → List Nat) (hA : Acyclic bases) (f c : Nat) (l : List Nat)
    (h : mroFuel bases f c = some l) : l.Nodup := by
  obtain ⟨t, rfl, ht⟩ := mroFuel_head_tail bases hA f c l h
  cases f with
  | zero => simp [mroFuel] at h
  | succ f =>
    rcases mroFuel_some bases f c _ h with ⟨_, hl⟩ | ⟨_, lins, out, _, ho, hl⟩
    · rw [hl]; simp
    · refine List.nodup_cons.2 ⟨fun hc => Nat.lt_irrefl c (ht c hc), ?_⟩
      simp only [List.cons.injEq, true_and] at hl
      subst hl
      exact mergeFuel_nodup _ _ _ ho

theorem mroFuel_mem_iff (bases : Nat → List Nat) :
    ∀ (f c : Nat) (l : List Nat), mroFuel bases f c = some l → ∀ x, x ∈ l ↔ Anc bases x c := by
  intro f
  induction f with
  | zero => intro c l h; simp [mroFuel] at h
  | succ f ih =>
    intro c l h x
    rcases mroFuel_some bases f c l h with ⟨hb, rfl⟩ | ⟨_, lins, out, hm, ho, rfl⟩
    · constructor
      · intro hx; simp at hx; subst hx; exact Anc.refl _
      · intro ha
        cases ha with
        | refl => simp
        | step hb' _ => rw [hb] at hb'; simp at hb'
    · constructor
      · intro hx
        rcases List.mem_cons.1 hx with rfl | hx
        · exact Anc.refl _
        · obtain ⟨l', hl', hxl⟩ := mergeFuel_mem _ _ _ ho x hx
          rcases List.mem_append.1 hl' with hl' | hl'
          · obtain ⟨b, hb, hfb⟩ := mapOpt_some_right _ _ _ hm l' hl'
            exact Anc.step hb ((ih b l' hfb x).1 hxl)
          · simp at hl'; subst hl'
            exact Anc.step hxl (Anc.refl _)
      · intro ha
        cases ha with
        | refl => exact List.mem_cons_self ..
        | step hb hxb =>
          rename_i b
          obtain ⟨lb, hlb, hfb⟩ := mapOpt_some_left _ _ _ hm b hb
          have hx : x ∈ lb := (ih b lb hfb x).2 hxb
          have hsub := mergeFuel_sublist _ _ _ ho lb (List.mem_append_left _ hlb)
          exact List.mem_cons_of_mem _ (hsub.subset hx)

/-- **mroFuel_stable**: on an acyclic hierarchy any recursion depth above the class number gives
the same answer: `none` from `mro` is the `ValueError`, never exhaustion of the fuel. -/
theorem mroFuel_stable (bases : Nat → List Nat) (hA : Acyclic bases) :
    ∀ (f g c : Nat), c < f → c < g → mroFuel bases f c = mroFuel bases g c := by
  intro f
  induction f with
  | zero => intro g c h; omega
  | succ f ih =>
    intro g c hf hg
    cases g with
    | zero => omega
    | succ g =>
      rw [mroFuel_succ, mroFuel_succ]
      have : mapOpt (mroFuel bases f) (bases c) = mapOpt (mroFuel bases g) (bases c) := by
        apply mapOpt_congr
        intro b hb
        have := hA c b hb
        exact ih g b (by omega) (by omega)
      rw [this]

/-! ### the C3 facts, stated for `mro` -/

/-- **mro_head**: the linearisation starts with the class itself. -/
theorem mro_head (bases : Nat → List Nat) (hA : Acyclic bases) (c : Nat) (l : List Nat)
    (h : mro bases c = some l) : l.head? = some c := by
  obtain ⟨t, rfl, _⟩ := mroFuel_head_tail bases hA _ c l h
  rfl

/-- **mro_nodup**: no class occurs twice. -/
theorem mro_nodup (bases : Nat → List Nat) (hA : Acyclic bases) (c : Nat) (l : List Nat)
    (h : mro bases c = some l) : l.Nodup :=
  mroFuel_nodup bases hA _ c l h

/-- **mro_mem_iff_ancestor**: the linearisation contains exactly the class and its ancestors. -/
theorem mro_mem_iff_ancestor (bases : Nat → List Nat) (c : Nat) (l : List Nat)
    (h : mro bases c = some l) (x : Nat) : x ∈ l ↔ Anc bases x c :=
  mroFuel_mem_iff bases _ c l h x

/-- **mro_local_precedence**: the direct bases appear in the order in which they are written. -/
theorem mro_local_precedence (bases : Nat → List Nat) (c : Nat) (l : List Nat)
    (h : mro bases c = some l) : (bases c).Sublist l.tail := by
  rcases mroFuel_some bases c c l h with ⟨hb, rfl⟩ | ⟨_, lins, out, _, ho, rfl⟩
  · simp [hb]
  · exact mergeFuel_sublist _ _ _ ho (bases c) (by simp)

/-- **mro_monotone**: the linearisation of every direct base is a subsequence. -/
theorem mro_monotone (bases : Nat → List Nat) (hA : Acyclic bases) (c b : Nat) (l : List Nat)
    (h : mro bases c = some l) (hb : b ∈ bases c) :
    ∃ lb, mro bases b = some lb ∧ lb.Sublist l := by
  rcases mroFuel_some bases c c l h with ⟨he, _⟩ | ⟨_, lins, out, hm, ho, rfl⟩
  · rw [he] at hb; simp at hb
  · obtain ⟨lb, hlb, hfb⟩ := mapOpt_some_left _ _ _ hm b hb
    have hbc := hA c b hb
    refine ⟨lb, ?_, ?_⟩
    · rw [mro, mroFuel_stable bases hA (b + 1) c b (by omega) hbc]; exact hfb
    · exact List.Sublist.cons _ (mergeFuel_sublist _ _ _ ho lb (List.mem_append_left _ hlb))

/-! ## 4. pydoctor's `mro` and CPython's `mro_implementation` on the same hierarchy -/

theorem mergeFuel_single : ∀ (t : List Nat), t.Nodup → ∀ f, t.length < f →
    mergeFuel f [t, []] = some t
  | [], _, f, hf => by
    cases f with
    | zero => omega
    | succ f => simp [mergeFuel_succ, exhausted]
  | x :: t, hn, f, hf => by
    cases f with
    | zero => omega
    | succ f =>
      have hx : x ∉ t := (List.nodup_cons.1 hn).1
      have hex : exhausted [x :: t, []] = false := by simp [exhausted]
      have hp : pick [x :: t, []] ([x :: t, []].map head) = some x := by
        simp [pick, head, inTails, inTail, hx]
      have hr : remove x [x :: t, []] = [t, []] := by simp [remove, pop]
      rw [mergeFuel_succ, hex, hp]
      simp only [hr]
      rw [mergeFuel_single t (List.nodup_cons.1 hn).2 f (by simpa using hf)]
      rfl

/-- CPython's single-base fast path is what the merge computes anyway -/
theorem merge_fast (b : Nat) (t : List Nat) (hn : (b :: t).Nodup) :
    merge [b :: t, [b]] = some (b :: t) := by
  have hb : b ∉ t := (List.nodup_cons.1 hn).1
  have hex : exhausted [b :: t, [b]] = false := by simp [exhausted]
  have hp : pick [b :: t, [b]] ([b :: t, [b]].map head) = some b := by
    simp [pick, head, inTails, inTail, hb]
  have hr : remove b [b :: t, [b]] = [t, []] := by simp [remove, pop]
  rw [merge, mergeFuel_succ, hex, hp]
  simp only [hr]
  rw [mergeFuel_single t (List.nodup_cons.1 hn).2 _ (by simp [size]; omega)]
  rfl

theorem hasDup_iff : ∀ l : List Nat, PyMro.hasDup l = true ↔ ¬ l.Nodup
  | [] => by simp [PyMro.hasDup]
  | x :: xs => by
    have ih := hasDup_iff xs
    simp only [PyMro.hasDup, Bool.or_eq_true, List.nodup_cons, ih]
    simp only [List.contains_iff_mem]
    by_cases hx : x ∈ xs <;> simp [hx]

theorem pyMroFuel_succ (bases : Nat → List Nat) (f c : Nat) :
    PyMro.mroFuel bases (f + 1) c =
      match mapOpt (PyMro.mroFuel bases f) (bases c) with
      | none => none
      | some lins =>
        match lins with
        | [l] => some (c :: l)
        | _ =>
          if PyMro.hasDup (bases c) then none
          else (PyMro.pmerge (lins ++ [bases c])).map (c :: ·) := rfl

/-- **pd_eq_cpython_same**: on one and the same acyclic hierarchy, `pydoctor.mro.mro` and
CPython's `mro_implementation` (fast path, duplicate check, `pmerge`) agree: the same
linearisation, or both reject. -/
theorem pd_eq_cpython_same (bases : Nat → List Nat) (hA : Acyclic bases) :
    ∀ f c : Nat, mroFuel bases f c = PyMro.mroFuel bases f c := by
  intro f
  induction f with
  | zero => intro c; rfl
  | succ f ih =>
    intro c
    have hfun : PyMro.mroFuel bases f = mroFuel bases f := funext fun b => (ih b).symm
    rw [mroFuel_succ, pyMroFuel_succ, hfun]
    cases hm : mapOpt (mroFuel bases f) (bases c) with
    | none =>
      by_cases he : (bases c).isEmpty = true
      · have : bases c = [] := by simpa using he
        rw [this] at hm; simp [mapOpt] at hm
      · simp [he]
    | some lins =>
      have hlen := mapOpt_length _ _ _ hm
      cases hb : bases c with
      | nil =>
        rw [hb] at hm; simp [mapOpt] at hm; subst hm
        simp [PyMro.hasDup, ← merge_eq_pmerge, merge, mergeFuel, exhausted]
      | cons b rest =>
        simp only [List.isEmpty_cons, Bool.false_eq_true, if_false]
        cases rest with
        | nil =>
          rw [hb] at hm
          obtain ⟨l, ys, hl, hys, rfl⟩ := (mapOpt_cons_some _ _ _ _).1 hm
          simp [mapOpt] at hys; subst hys
          obtain ⟨t, rfl, _⟩ := mroFuel_head_tail bases hA f b l hl
          have hn := mroFuel_nodup bases hA f b _ hl
          simp [merge_fast b t hn]
        | cons b2 rest =>
          rw [hb] at hlen
          match lins, hlen with
          | l1 :: l2 :: ls, _ =>
            simp only []
            by_cases hd : PyMro.hasDup (b :: b2 :: rest) = true
            · simp only [hd, if_true]
              have := mergeFuel_dup (size ((l1 :: l2 :: ls) ++ [b :: b2 :: rest]) + 1)
                ((l1 :: l2 :: ls) ++ [b :: b2 :: rest]) (b :: b2 :: rest) (by simp)
                ((hasDup_iff _).1 hd)
              rw [merge, this]; rfl
            · simp only [hd]
              rw [merge_eq_pmerge]
              rfl

/-! ## 5. The implicit root `object`

CPython gives every class statement without bases the base `object`; pydoctor does not.  Appending
a common root `x` to every linearisation (but not to the list of direct bases) only appends `x`
to the merged result. -/

/-- lists with a flag: does the CPython version of this list end with the root? -/
def plain (ps : List (List Nat × Bool)) : List (List Nat) := ps.map (·.1)

def root (x : Nat) (p : List Nat × Bool) : List Nat := if p.2 then p.1 ++ [x] else p.1

def rooted (x : Nat) (ps : List (List Nat × Bool)) : List (List Nat) := ps.map (root x)

def popP (h : Nat) (ps : List (List Nat × Bool)) : List (List Nat × Bool) :=
  ps.map fun p => (pop h p.1, p.2)

structure RootInv (x : Nat) (ps : List (List Nat × Bool)) : Prop where
  fresh : ∀ p ∈ ps, x ∉ p.1
  covered : ∀ p ∈ ps, p.2 = false → ∀ a ∈ p.1, ∃ q ∈ ps, q.2 = true ∧ a ∈ q.1
  flagged : ∃ q ∈ ps, q.2 = true

theorem plain_popP (h : Nat) (ps : List (List Nat × Bool)) : plain (popP h ps) = remove h (plain ps) := by
  simp [plain, popP, remove, List.map_map, Function.comp_def]

theorem rooted_popP (x h : Nat) (hx : h ≠ x) (ps : List (List Nat × Bool)) :
    rooted x (popP h ps) = remove h (rooted x ps) := by
  simp only [rooted, popP, remove, List.map_map]
  apply List.map_congr_left
  intro p _
  obtain ⟨l, b⟩ := p
  cases b with
  | false => simp [root]
  | true =>
    cases l with
    | nil => simp [root, pop, Ne.symm hx]
    | cons a t =>
      simp only [root, Function.comp, pop, if_true, List.cons_append]
      split <;> rfl

theorem mem_pop_of_ne (h a : Nat) (l : List Nat) (ha : a ∈ l) (hne : a ≠ h) : a ∈ pop h l := by
  cases l with
  | nil => simp at ha
  | cons y t =>
    simp only [pop]
    split
    · rename_i hy
      rcases List.mem_cons.1 ha with rfl | h'
      · exact absurd hy hne
      · exact h'
    · exact ha

theorem pick_first (x : Nat) (ls : List (List Nat)) (hin : inTails x ls = false) :
    ∀ hs : List (Option Nat), (∀ o ∈ hs, o = none ∨ o = some x) → some x ∈ hs → pick ls hs = some x
  | [], _, hm => by simp at hm
  | none :: hs, hall, hm => by
    simp only [pick]
    apply pick_first x ls hin hs (fun o ho => hall o (List.mem_cons_of_mem _ ho))
    simpa using hm
  | some y :: hs, hall, _ => by
    have : some y = none ∨ some y = some x := hall _ (List.mem_cons_self ..)
    have hy : y = x := by simpa using this
    subst hy
    simp [pick, hin]

/-- when only the root is left, it is taken and the merge ends -/
theorem merge_only_root (x : Nat) (ls : List (List Nat)) (hall : ∀ l ∈ ls, l = [x] ∨ l = [])
    (hx : [x] ∈ ls) : merge ls = some [x] := by
  have hex : exhausted ls = false := by
    cases h : exhausted ls with
    | false => rfl
    | true =>
      simp only [exhausted, List.all_eq_true] at h
      have := h _ hx
      simp at this
  have hin : inTails x ls = false := by
    cases h : inTails x ls with
    | false => rfl
    | true =>
      simp only [inTails, List.any_eq_true] at h
      obtain ⟨l, hl, ht⟩ := h
      rcases hall l hl with rfl | rfl <;> simp [inTail] at ht
  have hp : pick ls (ls.map head) = some x := by
    apply pick_first x ls hin
    · intro o ho
      simp only [List.mem_map] at ho
      obtain ⟨l, hl, rfl⟩ := ho
      rcases hall l hl with rfl | rfl <;> simp [head]
    · exact List.mem_map.2 ⟨[x], hx, by simp [head]⟩
  have hrem : exhausted (remove x ls) = true := by
    simp only [exhausted, remove, List.all_eq_true, List.mem_map]
    rintro _ ⟨l, hl, rfl⟩
    rcases hall l hl with rfl | rfl <;> simp [pop]
  rw [merge_unfold, hex, hp]
  simp only [Bool.false_eq_true, if_false]
  rw [merge_unfold, hrem]
  rfl

theorem inTail_root_ne (x c : Nat) (hc : c ≠ x) (p : List Nat × Bool) :
    inTail c (root x p) = inTail c p.1 := by
  obtain ⟨l, b⟩ := p
  cases b with
  | false => simp [root]
  | true =>
    cases l with
    | nil => simp [root, inTail]
    | cons a t => simp [root, inTail, hc]

theorem inTails_rooted_ne (x c : Nat) (hc : c ≠ x) (ps : List (List Nat × Bool)) :
    inTails c (rooted x ps) = inTails c (plain ps) := by
  simp [inTails, rooted, plain, List.any_map, Function.comp_def, inTail_root_ne x c hc]

/-- as long as anything but the root is left, the root sits in some tail -/
theorem inTails_root (x : Nat) (ps : List (List Nat × Bool)) (hI : RootInv x ps)
    (hex : exhausted (plain ps) = false) : inTails x (rooted x ps) = true := by
  have key : ∀ q ∈ ps, q.2 = true → q.1 ≠ [] → inTails x (rooted x ps) = true := by
    intro q hq hq2 hne
    simp only [inTails, rooted, List.any_map, List.any_eq_true]
    refine ⟨q, hq, ?_⟩
    obtain ⟨l, b⟩ := q
    simp only at hq2 hne
    subst hq2
    cases l with
    | nil => exact absurd rfl hne
    | cons a t => simp [root, inTail]
  have : ∃ p ∈ ps, p.1 ≠ [] := by
    apply Classical.byContradiction
    intro hcon
    have : exhausted (plain ps) = true := by
      simp only [exhausted, plain, List.all_eq_true, List.mem_map]
      rintro _ ⟨p, hp, rfl⟩
      have : p.1 = [] := Classical.byContradiction fun h => hcon ⟨p, hp, h⟩
      simp [this]
    rw [hex] at this; cases this
  obtain ⟨p, hp, hne⟩ := this
  cases hb : p.2 with
  | true => exact key p hp hb hne
  | false =>
    cases hl : p.1 with
    | nil => exact absurd hl hne
    | cons a t =>
      obtain ⟨q, hq, hq2, haq⟩ := hI.covered p hp hb a (by simp [hl])
      exact key q hq hq2 (by intro h; rw [h] at haq; simp at haq)

theorem pick_rooted (x : Nat) (ps : List (List Nat × Bool))
    (hroot : inTails x (rooted x ps) = true) :
    ∀ rest : List (List Nat × Bool), (∀ p ∈ rest, x ∉ p.1) →
      pick (rooted x ps) ((rooted x rest).map head) = pick (plain ps) ((plain rest).map head)
  | [], _ => rfl
  | (l, b) :: rest, hf => by
    have ih := pick_rooted x ps hroot rest (fun p hp => hf p (List.mem_cons_of_mem _ hp))
    have hxl : x ∉ l := hf (l, b) (List.mem_cons_self ..)
    simp only [rooted, plain, List.map_cons] at ih ⊢
    cases l with
    | nil =>
      cases b with
      | false => simpa [root, head, pick] using ih
      | true =>
        have hr : inTails x (List.map (root x) ps) = true := hroot
        simpa [root, head, pick, hr] using ih
    | cons a t =>
      have hax : a ≠ x := by intro e; apply hxl; simp [e]
      have h1 : head (root x (a :: t, b)) = some a := by cases b <;> simp [root, head]
      have h2 := inTails_rooted_ne x a hax ps
      simp only [rooted, plain] at h2
      rw [h1]
      simp only [head, List.head?_cons, pick, h2]
      split
      · exact ih
      · rfl

theorem rootInv_popP (x h : Nat) (ps : List (List Nat × Bool)) (hI : RootInv x ps)
    (hnt : ∀ l ∈ plain ps, h ∉ l.tail) : RootInv x (popP h ps) := by
  constructor
  · intro p hp
    simp only [popP, List.mem_map] at hp
    obtain ⟨p0, hp0, rfl⟩ := hp
    exact fun hx => hI.fresh p0 hp0 ((pop_sublist h p0.1).subset hx)
  · intro p hp hp2 a ha
    simp only [popP, List.mem_map] at hp
    obtain ⟨p0, hp0, rfl⟩ := hp
    have hah : a ≠ h := by
      intro e; subst e
      exact not_mem_pop a p0.1 (hnt p0.1 (List.mem_map.2 ⟨p0, hp0, rfl⟩)) ha
    obtain ⟨q, hq, hq2, haq⟩ := hI.covered p0 hp0 hp2 a ((pop_sublist h p0.1).subset ha)
    exact ⟨(pop h q.1, q.2), List.mem_map.2 ⟨q, hq, rfl⟩, hq2, mem_pop_of_ne h a q.1 haq hah⟩
  · obtain ⟨q, hq, hq2⟩ := hI.flagged
    exact ⟨(pop h q.1, q.2), List.mem_map.2 ⟨q, hq, rfl⟩, hq2⟩

/-- the merge with the root appended to the flagged lists is the merge without it, plus the root -/
theorem merge_rooted (x : Nat) : ∀ (k : Nat) (ps : List (List Nat × Bool)),
    size (plain ps) < k → RootInv x ps →
      merge (rooted x ps) = (merge (plain ps)).map (· ++ [x]) := by
  intro k
  induction k with
  | zero => intro ps h; omega
  | succ k ih =>
    intro ps hk hI
    cases hex : exhausted (plain ps) with
    | true =>
      rw [merge_unfold (plain ps), hex]
      have hnil : ∀ p ∈ ps, p.1 = [] := by
        intro p hp
        simp only [exhausted, plain, List.all_eq_true, List.mem_map] at hex
        have := hex p.1 ⟨p, hp, rfl⟩
        simpa using this
      simp only [if_true, Option.map_some, List.nil_append]
      apply merge_only_root
      · intro l hl
        simp only [rooted, List.mem_map] at hl
        obtain ⟨p, hp, rfl⟩ := hl
        obtain ⟨l, b⟩ := p
        have : l = [] := hnil _ hp
        subst this
        cases b <;> simp [root]
      · obtain ⟨q, hq, hq2⟩ := hI.flagged
        refine List.mem_map.2 ⟨q, hq, ?_⟩
        obtain ⟨l, b⟩ := q
        have : l = [] := hnil _ hq
        subst this
        simp only at hq2
        subst hq2
        simp [root]
    | false =>
      have hroot := inTails_root x ps hI hex
      have hpick := pick_rooted x ps hroot ps hI.fresh
      have hexr : exhausted (rooted x ps) = false := by
        cases h : exhausted (rooted x ps) with
        | false => rfl
        | true =>
          have : exhausted (plain ps) = true := by
            simp only [exhausted, rooted, plain, List.all_eq_true, List.mem_map] at h ⊢
            rintro _ ⟨p, hp, rfl⟩
            have := h _ ⟨p, hp, rfl⟩
            obtain ⟨l, b⟩ := p
            cases b <;> cases l <;> simp [root] at this ⊢
          rw [hex] at this; cases this
      rw [merge_unfold (rooted x ps), merge_unfold (plain ps), hex, hexr, hpick]
      simp only [Bool.false_eq_true, if_false]
      cases hp : pick (plain ps) ((plain ps).map head) with
      | none => rfl
      | some h =>
        obtain ⟨⟨l, hl, t, rfl⟩, hnt⟩ := pick_heads (plain ps) h hp
        have hhx : h ≠ x := by
          intro e
          simp only [plain, List.mem_map] at hl
          obtain ⟨p, hp', hpl⟩ := hl
          apply hI.fresh p hp'
          rw [hpl, e]; simp
        have hlt := size_remove_lt h (plain ps) ⟨_, hl, t, rfl⟩
        have := ih (popP h ps) (by rw [plain_popP]; omega) (rootInv_popP x h ps hI hnt)
        rw [rooted_popP x h hhx, plain_popP] at this
        simp only [this, Option.map_map]
        rfl

/-! ## 6. The main result -/

/-- The hierarchy of the documented classes 1, 2, …: bases are earlier classes.  Class 0 is
`object`; no class statement names it (a class statement that does name `object` is covered by
`pd_eq_cpython_same`, where it is a class like any other). -/
def Acyclic1 (bases : Nat → List Nat) : Prop := ∀ c, ∀ b ∈ bases c, 0 < b ∧ b < c

theorem Acyclic1.acyclic {bases : Nat → List Nat} (hA : Acyclic1 bases) : Acyclic bases :=
  fun c b hb => (hA c b hb).2

theorem acyclic_withObject {bases : Nat → List Nat} (hA : Acyclic1 bases) :
    Acyclic (PyMro.withObject bases) := by
  intro c b hb
  simp only [PyMro.withObject] at hb
  split at hb
  · simp at hb
  · split at hb
    · simp at hb; omega
    · exact (hA c b hb).2

theorem anc_pos {bases : Nat → List Nat} (hA : Acyclic1 bases) {x c : Nat} (h : Anc bases x c) :
    0 < c → 0 < x := by
  induction h with
  | refl => exact id
  | step hb _ ih => intro _; exact ih (hA _ _ hb).1

/-- **mro_withObject**: computing the linearisation in the hierarchy where every class without
bases derives from `object` (what `type_new` does) gives the linearisation without `object`,
followed by `object`. -/
theorem mro_withObject (bases : Nat → List Nat) (hA : Acyclic1 bases) :
    ∀ f c : Nat, 0 < c →
      mroFuel (PyMro.withObject bases) (f + 1) c = (mroFuel bases f c).map (· ++ [0]) := by
  intro f
  induction f with
  | zero =>
    intro c hc
    rw [mroFuel_succ]
    have hne : (PyMro.withObject bases c).isEmpty = false := by
      simp only [PyMro.withObject, Nat.ne_of_gt hc, if_false]
      split <;> simp_all
    rw [hne]
    cases hw : PyMro.withObject bases c with
    | nil => simp [hw] at hne
    | cons b rest => simp [mapOpt, mroFuel]
  | succ f ih =>
    intro c hc
    rw [mroFuel_succ (PyMro.withObject bases) (f + 1) c, mroFuel_succ bases f c]
    by_cases he : (bases c).isEmpty = true
    · have hwo : PyMro.withObject bases c = [0] := by
        simp [PyMro.withObject, he, Nat.ne_of_gt hc]
      have h0 : mroFuel (PyMro.withObject bases) (f + 1) 0 = some [0] := by
        simp [mroFuel_succ, PyMro.withObject]
      have hm : merge [[0], [0]] = some [0] := merge_fast 0 [] (by simp)
      simp [hwo, he, mapOpt, h0, hm]
    · have hwo : PyMro.withObject bases c = bases c := by
        simp [PyMro.withObject, he, Nat.ne_of_gt hc]
      rw [hwo]
      have he' : (bases c).isEmpty = false := by simpa using he
      simp only [he', Bool.false_eq_true, if_false]
      have hmap := mapOpt_map (mroFuel bases f) (mroFuel (PyMro.withObject bases) (f + 1))
        (· ++ [0]) (bases c) (fun b hb => ih b (hA c b hb).1)
      rw [hmap]
      cases hm : mapOpt (mroFuel bases f) (bases c) with
      | none => rfl
      | some lins =>
        simp only [Option.map_some]
        have hfresh : ∀ l ∈ lins, (0 : Nat) ∉ l := by
          intro l hl h0
          obtain ⟨b, hb, hfb⟩ := mapOpt_some_right _ _ _ hm l hl
          have := anc_pos hA ((mroFuel_mem_iff bases f b l hfb 0).1 h0) (hA c b hb).1
          omega
        have hI : RootInv 0 (lins.map (·, true) ++ [(bases c, false)]) := by
          constructor
          · intro p hp
            rcases List.mem_append.1 hp with hp | hp
            · obtain ⟨l, hl, rfl⟩ := List.mem_map.1 hp
              exact hfresh l hl
            · simp at hp; subst hp
              intro h0; have := (hA c 0 h0).1; omega
          · intro p hp hp2 a ha
            rcases List.mem_append.1 hp with hp | hp
            · obtain ⟨l, hl, rfl⟩ := List.mem_map.1 hp
              simp at hp2
            · simp at hp; subst hp
              obtain ⟨la, hla, hfa⟩ := mapOpt_some_left _ _ _ hm a ha
              obtain ⟨t, rfl, _⟩ := mroFuel_head_tail bases hA.acyclic f a la hfa
              exact ⟨(a :: t, true), List.mem_append_left _ (List.mem_map.2 ⟨_, hla, rfl⟩), rfl,
                List.mem_cons_self ..⟩
          · cases hb : bases c with
            | nil => simp [hb] at he
            | cons b rest =>
              obtain ⟨lb, hlb, _⟩ := mapOpt_some_left _ _ _ hm b (by simp [hb])
              exact ⟨(lb, true), List.mem_append_left _ (List.mem_map.2 ⟨_, hlb, rfl⟩), rfl⟩
        have hr : rooted 0 (lins.map (·, true) ++ [(bases c, false)])
            = lins.map (· ++ [0]) ++ [bases c] := by
          simp [rooted, root, List.map_map, Function.comp_def]
        have hpl : plain (lins.map (·, true) ++ [(bases c, false)]) = lins ++ [bases c] := by
          simp [plain, List.map_map, Function.comp_def]
        have := merge_rooted 0 _ _ (Nat.lt_succ_self _) hI
        rw [hr, hpl] at this
        rw [this]
        cases merge (lins ++ [bases c]) <;> simp

/-- **pd_eq_cpython**: for every acyclic hierarchy of classes and every class `c` of it, CPython's
`mro_implementation` (with `type_new`'s implicit `object`, the single-base fast path, the
duplicate-base check and the index-based `pmerge`) yields pydoctor's linearisation followed by
`object`, and rejects the class exactly when `pydoctor.mro.mro` raises. -/
theorem pd_eq_cpython (bases : Nat → List Nat) (hA : Acyclic1 bases) (c : Nat) (hc : 0 < c) :
    PyMro.mro (PyMro.withObject bases) c = (mro bases c).map (· ++ [0]) := by
  have hAw := acyclic_withObject hA
  rw [PyMro.mro, ← pd_eq_cpython_same _ hAw,
    mroFuel_stable _ hAw (c + 1) (c + 2) c (by omega) (by omega),
    mro_withObject bases hA (c + 1) c hc]
  rfl

/-- both sides reject the same classes -/
theorem pd_rejects_iff_cpython_rejects (bases : Nat → List Nat) (hA : Acyclic1 bases) (c : Nat)
    (hc : 0 < c) : mro bases c = none ↔ PyMro.mro (PyMro.withObject bases) c = none := by
  rw [pd_eq_cpython bases hA c hc]; simp

/-- **duplicate_bases_reject**: a repeated base (CPython: `TypeError: duplicate base class`) makes
pydoctor's merge fail as well. -/
theorem duplicate_bases_reject (bases : Nat → List Nat) (c : Nat)
    (hd : PyMro.hasDup (bases c) = true) : mro bases c = none := by
  rw [mro, mroFuel_succ]
  have hne : (bases c).isEmpty = false := by
    cases hb : bases c with
    | nil => simp [hb, PyMro.hasDup] at hd
    | cons => rfl
  rw [hne]
  simp only [Bool.false_eq_true, if_false]
  cases hm : mapOpt (mroFuel bases c) (bases c) with
  | none => rfl
  | some lins =>
    simp only []
    rw [merge, mergeFuel_dup _ _ (bases c) (by simp) ((hasDup_iff _).1 hd)]
    rfl

/-! ## 7. `_init_mro`, `Class.find`, `docsources` / `get_docstring` -/

/-- **reject_reports**: when the linearisation cannot be computed, `_init_mro` makes exactly one
report (section `mro`, for that class) and still gives the class a non-empty `_mro` that starts
with the class itself (`allbases(True)`). -/
theorem reject_reports (bases : Nat → List Nat) (ext : Nat → Bool) (c : Nat)
    (h : mro bases c = none) :
    (initMro bases ext c).2 = [c] ∧ (initMro bases ext c).1.head? = some c := by
  simp [initMro, h, allbases, allbasesFuel]

/-- **accept_no_report**: otherwise nothing is reported and `_mro` is the linearisation. -/
theorem accept_no_report (bases : Nat → List Nat) (ext : Nat → Bool) (c : Nat) (l : List Nat)
    (h : mro bases c = some l) : initMro bases ext c = (l, []) := by
  simp [initMro, h]

/-- the inconsistency is reported exactly for the classes Python refuses to create -/
theorem report_iff_python_rejects (bases : Nat → List Nat) (hA : Acyclic1 bases) (ext : Nat → Bool)
    (c : Nat) (hc : 0 < c) :
    (initMro bases ext c).2 = [c] ↔ PyMro.mro (PyMro.withObject bases) c = none := by
  rw [← pd_rejects_iff_cpython_rejects bases hA c hc]
  cases h : mro bases c with
  | none => simp [initMro, h]
  | some l => simp [initMro, h]

theorem find?_congr_mem {α : Type} (p q : α → Bool) : ∀ l : List α, (∀ x ∈ l, p x = q x) →
    l.find? p = l.find? q
  | [], _ => rfl
  | a :: l, h => by
    have ih := find?_congr_mem p q l (fun x hx => h x (List.mem_cons_of_mem _ hx))
    simp only [List.find?_cons, h a (List.mem_cons_self ..), ih]

/-- **find_eq_lookup**: for a class Python accepts, `Class.find(name)` returns the member of the
class that attribute lookup (`_PyType_Lookup` along `__mro__`) finds at run time. -/
theorem find_eq_lookup (bases : Nat → List Nat) (hA : Acyclic1 bases) (ext : Nat → Bool)
    (owns : Nat → Nat → Bool) (c name : Nat) (hc : 0 < c) (l : List Nat)
    (hacc : mro bases c = some l)
    (hext : ∀ x, ext x = true → owns x name = false) (hobj : owns 0 name = false) :
    find bases ext owns c name = PyMro.lookup (PyMro.withObject bases) owns c name := by
  simp only [find, classMro, PyMro.lookup, pd_eq_cpython bases hA c hc, hacc, initMro,
    Option.map_some, Bool.false_eq_true, if_false, if_true]
  rw [List.find?_filter, List.find?_append]
  simp only [List.find?_cons, hobj, List.find?_nil, Option.or_none]
  apply find?_congr_mem
  intro x _
  cases he : ext x with
  | false => simp
  | true => simp [hext x he]

/-- **docsource_eq_getdoc**: for a member `name` of an accepted, documented class `c`, the
docstring source `get_docstring` picks (own docstring, else the first inherited definition along
`mro()` that has one) is the one attribute lookup along Python's `__mro__` yields. -/
theorem docsource_same_owns (bases : Nat → List Nat) (hA : Acyclic1 bases) (ext : Nat → Bool)
    (owns hasDoc : Nat → Nat → Bool) (c name : Nat) (hc : 0 < c) (l : List Nat)
    (hacc : mro bases c = some l) (hcext : ext c = false)
    (hext : ∀ x, ext x = true → owns x name = false) (hobj : owns 0 name = false) :
    getDocstringOld bases ext owns hasDoc c name
      = PyMro.docSource (PyMro.withObject bases) owns hasDoc c name := by
  obtain ⟨t, rfl, _⟩ := mroFuel_head_tail bases hA.acyclic _ c l hacc
  simp only [getDocstringOld, docsourcesOld, classMro, PyMro.docSource, pd_eq_cpython bases hA c hc,
    hacc, initMro, Option.map_some, Bool.false_eq_true, if_false, List.filter_cons, hcext,
    Bool.not_false, if_true, List.drop_succ_cons, List.drop_zero, List.cons_append,
    List.find?_cons]
  cases hd : hasDoc c name with
  | true => simp
  | false =>
    simp only [Bool.false_eq_true, if_false]
    rw [List.find?_filter, List.find?_filter, List.find?_append]
    simp only [List.find?_cons, hobj, Bool.false_and, List.find?_nil, Option.or_none]
    apply find?_congr_mem
    intro x _
    cases he : ext x with
    | false => simp
    | true => simp [hext x he]

/-! ## 8. Non-vacuity: a concrete hierarchy with a diamond and an inconsistent class -/

/-- 1; 2(1); 3(1); 4(2,3); 5(3,2); 6(4,5) — class 6 is the classic inconsistent hierarchy;
7(1,1) repeats a base. -/
def exBases : Nat → List Nat
  | 2 => [1] | 3 => [1] | 4 => [2, 3] | 5 => [3, 2] | 6 => [4, 5] | _ => []

def exDup : Nat → List Nat
  | 2 => [1, 1] | _ => []

example : Acyclic1 exBases := by
  intro c b hb
  unfold exBases at hb
  split at hb <;> simp at hb <;> omega

example : mro exBases 4 = some [4, 2, 3, 1] := by decide
example : mro exBases 5 = some [5, 3, 2, 1] := by decide
example : mro exBases 6 = none := by decide
example : PyMro.mro (PyMro.withObject exBases) 4 = some [4, 2, 3, 1, 0] := by decide
example : PyMro.mro (PyMro.withObject exBases) 6 = none := by decide
example : merge [[1, 2], [2, 1]] = none ∧ PyMro.pmerge [[1, 2], [2, 1]] = none := by decide
example : initMro exBases (fun _ => false) 6 = ([6, 4, 2, 1, 3, 1, 5, 3, 1, 2, 1], [6]) := by decide
example : PyMro.hasDup (exDup 2) = true ∧ mro exDup 2 = none ∧ PyMro.mro (PyMro.withObject exDup) 2 = none := by
  decide
example : Anc exBases 1 4 := Anc.step (b := 2) (by decide) (Anc.step (b := 1) (by decide) (Anc.refl 1))
-- member 0 defined in 1 (with docstring), 3 (without) and 4 (without): 4.find = 4, docstring from 1
example : find exBases (fun _ => false) (fun c _ => c == 1 || c == 3 || c == 4) 4 0 = some 4
    ∧ getDocstring exBases (fun _ => false) (fun _ => false) (fun c _ => c == 1 || c == 3 || c == 4) (fun c _ => c == 1) 4 0 = some 1
    ∧ PyMro.docSource (PyMro.withObject exBases) (fun c _ => c == 1 || c == 3 || c == 4) (fun c _ => c == 1) 4 0 = some 1 := by
  decide

/-- `inspect.getdoc` is *not* "the docstring attribute lookup along the MRO yields": with
1 (doc), 2(1), 3(1) (doc), 4(2,3) (no doc) the MRO of 4 is 4,2,3,1 and the next definition after
4 is 3's, but `inspect.getdoc` asks `getattr(2, name)` first, which is 1's.  pydoctor follows the
MRO (3).  The harness therefore takes the MRO walk as the run-time reference and only counts how
often `inspect.getdoc` differs. -/
theorem getdoc_is_not_the_mro_walk :
    let owns := fun (c _ : Nat) => c == 1 || c == 3 || c == 4
    let hasDoc := fun (c _ : Nat) => c == 1 || c == 3
    PyMro.docSource (PyMro.withObject exBases) owns hasDoc 4 0 = some 3
    ∧ getDocstring exBases (fun _ => false) (fun _ => false) owns hasDoc 4 0 = some 3
    ∧ PyMro.inspectGetdoc (PyMro.withObject exBases) owns hasDoc 4 0 = some 1 := by
  decide

/-! ## 9. The second pass of base resolution (`compute_mro.init_finalbaseobjects`)

Whichever class's MRO is computed first, a class's `_finalbaseobjects` are its unresolved base
names looked up in the scope of the class that *declares* them. -/

/-- every cached `_finalbaseobjects` is the one computed in the declaring class's own scope -/
def Canonical (d : Decls) (c : Cache) : Prop :=
  ∀ o fb, c.get o = some fb → fb = finalOf d (d.scope o) o

theorem cache_get_cons (o o' : Nat) (fb : List (Option Nat)) (c : Cache) :
    Cache.get ((o, fb) :: c) o' = if o = o' then some fb else c.get o' := by
  by_cases h : o = o' <;> simp [Cache.get, List.find?_cons, h]

theorem initFinal_canonical (d : Decls) (cls : Nat) :
    ∀ (f o : Nat) (c : Cache), Canonical d c →
      Canonical d (initFinal d (fun _ o => d.scope o) cls f o c) := by
  intro f
  induction f with
  | zero => intro o c h; exact h
  | succ f ih =>
    intro o c hc
    simp only [initFinal]
    cases hg : c.get o with
    | some _ => exact hc
    | none =>
      simp only []
      split
      · exact hc
      · have hfold : ∀ (l : List (Option Nat)) (c : Cache), Canonical d c →
            Canonical d (l.foldl (fun c b => match b with
              | some b => initFinal d (fun _ o => d.scope o) cls f b c | none => c) c) := by
          intro l
          induction l with
          | nil => intro c h; exact h
          | cons b l ihl =>
            intro c h
            simp only [List.foldl_cons]
            apply ihl
            cases b with
            | none => exact h
            | some b => exact ih b c h
        intro o' fb' hget
        rw [cache_get_cons] at hget
        by_cases ho : o = o'
        · subst ho
          simp at hget
          exact hget.symm
        · simp only [ho, if_false] at hget
          exact hfold _ c hc o' fb' hget

/-- **second_pass_canonical**: after `_init_mro` has run for any sequence of classes, every
`_finalbaseobjects` that is set is the declaring-scope resolution. -/
theorem second_pass_canonical (d : Decls) (fuel : Nat) (triggers : List Nat) :
    Canonical d (secondPass d (fun _ o => d.scope o) fuel triggers) := by
  have : ∀ (ts : List Nat) (c : Cache), Canonical d c →
      Canonical d (ts.foldl (fun c cls => initFinal d (fun _ o => d.scope o) cls fuel cls c) c) := by
    intro ts
    induction ts with
    | nil => intro c h; exact h
    | cons t ts ih => intro c h; exact ih _ (initFinal_canonical d t fuel t c h)
  exact this triggers [] (by intro o fb h; simp [Cache.get] at h)

/-- **second_pass_trigger_independent**: the resolved bases of a class do not depend on which
subclasses' MROs were computed before, nor in which order. -/
theorem second_pass_trigger_independent (d : Decls) (f1 f2 : Nat) (t1 t2 : List Nat) (o : Nat)
    (fb1 fb2 : List (Option Nat))
    (h1 : (secondPass d (fun _ o => d.scope o) f1 t1).get o = some fb1)
    (h2 : (secondPass d (fun _ o => d.scope o) f2 t2).get o = some fb2) : fb1 = fb2 := by
  rw [second_pass_canonical d f1 t1 o fb1 h1, second_pass_canonical d f2 t2 o fb2 h2]

/-- three modules: A (class 0, scope 0), `class B(A)` (class 1, scope 1, name 10 = "A" bound in
scope 1 only), `class C(B)` (class 2, scope 2, name 11 = "B"); nothing resolved in the AST pass. -/
def exDecls : Decls where
  scope := id
  raw := fun o => if o = 1 then [10] else if o = 2 then [11] else []
  initial := fun o => if o = 1 then [none] else if o = 2 then [none] else []
  expanded := fun o => if o = 1 then [none] else if o = 2 then [none] else []
  resolve := fun sc n => if sc = 1 ∧ n = 10 then some 0 else if sc = 2 ∧ n = 11 then some 1 else none

example : (secondPass exDecls (fun _ o => exDecls.scope o) 3 [2, 1, 0]).get 1 = some [some 0]
    ∧ (secondPass exDecls (fun _ o => exDecls.scope o) 3 [1, 2, 0]).get 1 = some [some 0] := by decide

/-- Looking the name up in the scope of the class whose MRO is being computed (instead of the
declaring class) is *not* trigger independent: reached first through C, B loses its base A. -/
theorem second_pass_wrong_scope_counterexample :
    (secondPass exDecls (fun cls _ => exDecls.scope cls) 3 [2, 1, 0]).get 1 = some [none]
    ∧ (secondPass exDecls (fun cls _ => exDecls.scope cls) 3 [1, 2, 0]).get 1 = some [some 0] := by
  decide

/-- the second pass with its two lookups swapped: the raw name in the final state of the scope
first, the name as expanded at the class statement only as a fallback -/
def finalOfSwapped (d : Decls) (sc o : Nat) : List (Option Nat) :=
  List.zipWith (fun n (ie : Option Nat × Option Nat) =>
      match ie.1 with
      | some b => some b
      | none =>
        match d.resolve sc n with
        | some b => some b
        | none => ie.2)
    (d.raw o) (List.zip (d.initial o) (d.expanded o))

/-- `from pkg.a import Root; class Mid(Root): …; class Root: …` with `Root` unresolved when `Mid` is
visited: class 1 = Mid (scope 1, base name 10), the expanded name leads to class 0 (`pkg.a.Root`),
the final state of scope 1 binds name 10 to class 5 (the local `Root`). -/
def exRebound : Decls where
  scope := id
  raw := fun o => if o = 1 then [10] else []
  initial := fun o => if o = 1 then [none] else []
  expanded := fun o => if o = 1 then [some 0] else []
  resolve := fun sc n => if sc = 1 ∧ n = 10 then some 5 else none

/-- The order of the two lookups matters: the code (expanded name first) keeps the class the name
denoted at the class statement, as Python does; the swapped order picks the class the name is
rebound to further down. -/
theorem second_pass_swapped_order_counterexample :
    finalOf exRebound 1 1 = [some 0] ∧ finalOfSwapped exRebound 1 1 = [some 5]
    ∧ (secondPass exRebound (fun _ o => exRebound.scope o) 2 [1]).get 1 = some [some 0] := by
  decide

/-! ## 10. `Generic[T]` among the bases (`compute_mro.localbases` since commit 749fc3a)

`typing`'s `__mro_entries__` removes a `Generic[...]` base when a later base is a subscripted
generic; pydoctor's `getbases` now skips the unresolved `typing.Generic` base in the same
situation.  The two filters are the same function, so the main theorem carries over to
hierarchies written with such bases. -/

theorem mroEntries_eq_localBases (gen : Nat → Bool) :
    ∀ raw : List (Nat × Bool), PyMro.mroEntries gen raw = localBases gen raw
  | [] => rfl
  | (b, f) :: rest => by
    simp only [PyMro.mroEntries, localBases, mroEntries_eq_localBases gen rest]

theorem localBases_subset (gen : Nat → Bool) :
    ∀ (raw : List (Nat × Bool)) (b : Nat), b ∈ localBases gen raw → ∃ p ∈ raw, p.1 = b
  | [], b, h => by simp [localBases] at h
  | (a, f) :: rest, b, h => by
    simp only [localBases] at h
    split at h
    · obtain ⟨p, hp, e⟩ := localBases_subset gen rest b h
      exact ⟨p, List.mem_cons_of_mem _ hp, e⟩
    · rcases List.mem_cons.1 h with rfl | h
      · exact ⟨(b, f), List.mem_cons_self .., rfl⟩
      · obtain ⟨p, hp, e⟩ := localBases_subset gen rest b h
        exact ⟨p, List.mem_cons_of_mem _ hp, e⟩

/-- the fallback `allbases()` skips unresolved bases anyway: it sees the same classes with or
without the `Generic` filter -/
theorem filter_localBases (gen : Nat → Bool) :
    ∀ raw : List (Nat × Bool),
      (localBases gen raw).filter (fun b => !gen b) = (raw.map (·.1)).filter (fun b => !gen b)
  | [] => rfl
  | (a, f) :: rest => by
    have ih := filter_localBases gen rest
    simp only [localBases, List.map_cons]
    split
    · rename_i h
      have : gen a = true := by simp at h; exact h.1
      simp [List.filter_cons, this, ih]
    · simp [List.filter_cons, ih]

/-- raw bases name earlier classes; 0 (`object`) is never written -/
def AcyclicRaw (raw : Nat → List (Nat × Bool)) : Prop := ∀ c, ∀ p ∈ raw c, 0 < p.1 ∧ p.1 < c

/-- **pd_eq_cpython_generic**: for every acyclic hierarchy written with plain, subscripted and
`Generic[...]` bases, CPython's MRO over the bases `__mro_entries__` leaves is pydoctor's
linearisation over `getbases`, followed by `object`; both reject the same classes. -/
theorem pd_eq_cpython_generic (gen : Nat → Bool) (raw : Nat → List (Nat × Bool))
    (hA : AcyclicRaw raw) (c : Nat) (hc : 0 < c) :
    PyMro.mro (PyMro.withObject fun c => PyMro.mroEntries gen (raw c)) c
      = (mro (fun c => localBases gen (raw c)) c).map (· ++ [0]) := by
  have hfun : (fun c => PyMro.mroEntries gen (raw c)) = fun c => localBases gen (raw c) :=
    funext fun c => mroEntries_eq_localBases gen (raw c)
  rw [hfun]
  apply pd_eq_cpython _ _ c hc
  intro c b hb
  obtain ⟨p, hp, rfl⟩ := localBases_subset gen (raw c) b hb
  exact hA c p hp

/-- 1 = `typing.Generic`; `class 2(Generic[T])`; `class 3(Generic[T], 2[T])` -/
def exRaw : Nat → List (Nat × Bool)
  | 2 => [(1, true)] | 3 => [(1, true), (2, true)] | _ => []

example : AcyclicRaw exRaw := by
  intro c p hp
  unfold exRaw at hp
  split at hp <;> simp at hp <;> (try rcases hp with rfl | rfl) <;> (try subst hp) <;> simp

/-- With the bases as pydoctor took them before commit 749fc3a (`Generic` kept), class 3 was
rejected although Python creates it; with the current `getbases` both agree. -/
theorem pd_eq_cpython_genericOld_counterexample :
    mro (fun c => localBasesOld (exRaw c)) 3 = none
    ∧ PyMro.mro (PyMro.withObject fun c => PyMro.mroEntries (· == 1) (exRaw c)) 3 = some [3, 2, 1, 0]
    ∧ mro (fun c => localBases (· == 1) (exRaw c)) 3 = some [3, 2, 1] := by
  decide

/-! ## 11. Consumers of the linearisation: `mro()` flags, `is_exception`, constructors,
"overrides" / "overridden in", inherited-member tables -/

/-- `Class.mro()` (no externals) of an accepted class: the linearisation without the unresolved bases -/
theorem classMro_accept (bases : Nat → List Nat) (ext : Nat → Bool) (c : Nat) (l : List Nat)
    (h : mro bases c = some l) (ie is_ : Bool) :
    classMro bases ext c ie is_ =
      (if is_ then id else List.drop 1) (if ie then l else l.filter fun o => !ext o) := by
  cases ie <;> cases is_ <;> simp [classMro, initMro, h]

theorem classMro_no_external (bases : Nat → List Nat) (ext : Nat → Bool) (c : Nat) (is_ : Bool) :
    ∀ x ∈ classMro bases ext c false is_, ext x = false := by
  intro x hx
  simp only [classMro, Bool.false_eq_true, if_false] at hx
  have : x ∈ (initMro bases ext c).1.filter fun o => !ext o := by
    cases is_
    · exact List.mem_of_mem_drop hx
    · simpa using hx
  simpa using (List.mem_filter.1 this).2

/-- **isException_iff**: for a class Python accepts, `is_exception` holds exactly when a *proper*
ancestor is an unresolved base named in `_STD_LIB_EXCEPTIONS` — the walk covers the whole
ancestry (`mro_mem_iff_ancestor`) and never the class itself. -/
theorem isException_iff (bases : Nat → List Nat) (hA : Acyclic bases) (ext std : Nat → Bool)
    (c : Nat) (l : List Nat) (h : mro bases c = some l) :
    isException bases ext std c = true ↔
      ∃ x, x ≠ c ∧ Anc bases x c ∧ ext x = true ∧ std x = true := by
  obtain ⟨t, rfl, ht⟩ := mroFuel_head_tail bases hA _ c l h
  have hmem := mro_mem_iff_ancestor bases c _ h
  simp only [isException, classMro_accept bases ext c _ h, if_true, Bool.false_eq_true, if_false,
    List.drop_succ_cons, List.drop_zero, List.any_eq_true, Bool.and_eq_true]
  constructor
  · rintro ⟨x, hx, he, hs⟩
    refine ⟨x, ?_, (hmem x).1 (List.mem_cons_of_mem _ hx), he, hs⟩
    intro e; subst e; exact Nat.lt_irrefl _ (ht _ hx)
  · rintro ⟨x, hne, ha, he, hs⟩
    have := (hmem x).2 ha
    rcases List.mem_cons.1 this with rfl | hx
    · exact absurd rfl hne
    · exact ⟨x, hx, he, hs⟩

/-- **findDunderConstructor_eq_lookup**: the constructor pydoctor documents for an accepted class is
the user-defined `__new__` / `__init__` Python's lookup along `__mro__` reaches. -/
theorem findDunderConstructor_eq_lookup (bases : Nat → List Nat) (hA : Acyclic1 bases)
    (ext : Nat → Bool) (owns isFunc : Nat → Nat → Bool) (c newN initN : Nat) (hc : 0 < c)
    (l : List Nat) (hacc : mro bases c = some l)
    (hext : ∀ x n, ext x = true → owns x n = false) (hobj : ∀ n, owns 0 n = false) :
    findDunderConstructor bases ext owns isFunc c newN initN
      = PyMro.constructorLookup (PyMro.withObject bases) owns isFunc c newN initN := by
  simp only [findDunderConstructor, PyMro.constructorLookup,
    find_eq_lookup bases hA ext owns c newN hc l hacc (fun x => hext x newN) (hobj newN),
    find_eq_lookup bases hA ext owns c initN hc l hacc (fun x => hext x initN) (hobj initN)]

/-- **overrides_eq_super**: the member shown as "overrides …" is the one `super()` reaches. -/
theorem overrides_same_owns (bases : Nat → List Nat) (hA : Acyclic1 bases) (ext : Nat → Bool)
    (owns : Nat → Nat → Bool) (c name : Nat) (hc : 0 < c) (l : List Nat)
    (hacc : mro bases c = some l) (hcext : ext c = false)
    (hext : ∀ x, ext x = true → owns x name = false) (hobj : owns 0 name = false) :
    overridesOld bases ext owns c name = PyMro.superLookup (PyMro.withObject bases) owns c name := by
  obtain ⟨t, rfl, _⟩ := mroFuel_head_tail bases hA.acyclic _ c l hacc
  simp only [overridesOld, PyMro.superLookup, classMro_accept bases ext c _ hacc,
    pd_eq_cpython bases hA c hc, hacc, Option.map_some, Bool.false_eq_true, if_false,
    List.filter_cons, hcext, Bool.not_false, if_true, List.drop_succ_cons, List.drop_zero,
    List.cons_append]
  rw [List.find?_filter, List.find?_append]
  simp only [List.find?_cons, hobj, List.find?_nil, Option.or_none]
  apply find?_congr_mem
  intro x _
  cases he : ext x with
  | false => simp
  | true => simp [hext x he]

theorem mem_subclassesOf (bases : Nat → List Nat) (order : List Nat) (c s : Nat)
    (h : s ∈ subclassesOf bases order c) : c ∈ bases s := by
  simp only [subclassesOf, List.mem_flatMap, List.mem_map, List.mem_filter] at h
  obtain ⟨d, _, w, ⟨hm, he⟩, rfl⟩ := h
  have : w = c := by simpa using he
  rw [← this]; exact hm

theorem anc_trans {bases : Nat → List Nat} {x y z : Nat} (h1 : Anc bases x y) (h2 : Anc bases y z) :
    Anc bases x z := by
  induction h2 with
  | refl => exact h1
  | step hb _ ih => exact Anc.step hb ih

theorem anc_le {bases : Nat → List Nat} (hA : Acyclic bases) {x y : Nat} (h : Anc bases x y) :
    x ≤ y := by
  induction h with
  | refl => exact Nat.le_refl _
  | step hb _ ih => exact Nat.le_trans ih (Nat.le_of_lt (hA _ _ hb))

/-- the `for subclass in classobj.subclasses` loop, for any body `g` (subclass, `_seen`) ↦ (yielded, `_seen'`) -/
def loopSeen (g : Nat → List Nat → List Nat × List Nat) (l : List Nat) (acc : List Nat × List Nat) :
    List Nat × List Nat :=
  l.foldl (fun acc s => ((acc.1 ++ (g s acc.2).1), (g s acc.2).2)) acc

theorem overridingFuel_succ (bases : Nat → List Nat) (order : List Nat) (owns : Nat → Nat → Bool)
    (visible : Nat → Bool) (name f c : Nat) (first : Bool) (seen : List Nat) :
    overridingFuel bases order owns visible name (f + 1) c first seen =
      if !first && owns c name then (if seen.contains c then ([], seen) else ([c], c :: seen))
      else loopSeen (fun s sn => overridingFuel bases order owns visible name f s false sn)
        ((subclassesOf bases order c).filter visible) ([], seen) := rfl

/-- what one call yields is duplicate free, new with respect to `_seen`, and ends up in `_seen` -/
def GoodSeen (g : Nat → List Nat → List Nat × List Nat) : Prop :=
  ∀ s seen, (g s seen).1.Nodup ∧ (∀ d ∈ (g s seen).1, d ∉ seen) ∧
    ∀ x, x ∈ (g s seen).2 ↔ x ∈ seen ∨ x ∈ (g s seen).1

theorem loopSeen_good (g : Nat → List Nat → List Nat × List Nat) (hg : GoodSeen g) (seen0 : List Nat) :
    ∀ (l : List Nat) (acc : List Nat × List Nat),
      (acc.1.Nodup ∧ (∀ d ∈ acc.1, d ∉ seen0) ∧ ∀ x, x ∈ acc.2 ↔ x ∈ seen0 ∨ x ∈ acc.1) →
      ((loopSeen g l acc).1.Nodup ∧ (∀ d ∈ (loopSeen g l acc).1, d ∉ seen0) ∧
        ∀ x, x ∈ (loopSeen g l acc).2 ↔ x ∈ seen0 ∨ x ∈ (loopSeen g l acc).1) := by
  intro l
  induction l with
  | nil => intro acc h; exact h
  | cons s l ih =>
    intro acc ⟨hn, hd, hm⟩
    simp only [loopSeen, List.foldl_cons]
    apply ih
    obtain ⟨gn, gd, gm⟩ := hg s acc.2
    refine ⟨?_, ?_, ?_⟩
    · refine List.nodup_append.2 ⟨hn, gn, ?_⟩
      intro a ha b hb e
      subst e
      exact gd a hb ((hm a).2 (Or.inr ha))
    · intro d hd'
      rcases List.mem_append.1 hd' with h | h
      · exact hd d h
      · exact fun hs => gd d h ((hm d).2 (Or.inl hs))
    · intro x
      rw [gm x, hm x, List.mem_append]
      constructor
      · rintro ((h | h) | h)
        · exact Or.inl h
        · exact Or.inr (Or.inl h)
        · exact Or.inr (Or.inr h)
      · rintro (h | h | h)
        · exact Or.inl (Or.inl h)
        · exact Or.inl (Or.inr h)
        · exact Or.inr h

theorem overridingFuel_good (bases : Nat → List Nat) (order : List Nat) (owns : Nat → Nat → Bool)
    (visible : Nat → Bool) (name : Nat) : ∀ (f : Nat) (first : Bool),
      GoodSeen (fun c seen => overridingFuel bases order owns visible name f c first seen) := by
  intro f
  induction f with
  | zero => intro first c seen; simp [overridingFuel]
  | succ f ih =>
    intro first c seen
    simp only [overridingFuel_succ]
    split
    · by_cases hc : c ∈ seen
      · simp [hc]
      · simp only [List.contains_iff_mem, hc, if_false]
        refine ⟨by simp, by simpa using hc, fun x => by simp [or_comm]⟩
    · have := loopSeen_good _ (ih false) seen ((subclassesOf bases order c).filter visible) ([], seen)
        ⟨by simp, by simp, fun x => by simp⟩
      exact this

/-- **overriding_nodup**: for *every* hierarchy (multiple inheritance included) no class is listed
twice under "overridden in" (since commit 7da14b7; before: `overriding_duplicate_counterexample`). -/
theorem overriding_nodup (bases : Nat → List Nat) (order : List Nat) (owns : Nat → Nat → Bool)
    (visible : Nat → Bool) (c name : Nat) :
    (overridingSubclasses bases order owns visible c name).Nodup :=
  (overridingFuel_good bases order owns visible name _ true c []).1

theorem loopSeen_mem (g : Nat → List Nat → List Nat × List Nat) (d : Nat) :
    ∀ (l : List Nat) (acc : List Nat × List Nat), d ∈ (loopSeen g l acc).1 →
      d ∈ acc.1 ∨ ∃ s ∈ l, ∃ seen, d ∈ (g s seen).1 := by
  intro l
  induction l with
  | nil => intro acc h; exact Or.inl h
  | cons s l ih =>
    intro acc h
    simp only [loopSeen, List.foldl_cons] at h
    rcases ih _ h with h | ⟨s', hs', seen, hd⟩
    · rcases List.mem_append.1 h with h | h
      · exact Or.inl h
      · exact Or.inr ⟨s, List.mem_cons_self .., acc.2, h⟩
    · exact Or.inr ⟨s', List.mem_cons_of_mem _ hs', seen, hd⟩

theorem overriding_inner (bases : Nat → List Nat) (order : List Nat) (owns : Nat → Nat → Bool)
    (visible : Nat → Bool) (name : Nat) : ∀ (f s d : Nat) (seen : List Nat),
      d ∈ (overridingFuel bases order owns visible name f s false seen).1 → visible s = true →
        owns d name = true ∧ Anc bases s d ∧ visible d = true := by
  intro f
  induction f with
  | zero => intro s d seen h; simp [overridingFuel] at h
  | succ f ih =>
    intro s d seen h hv
    simp only [overridingFuel_succ, Bool.not_false, Bool.true_and] at h
    split at h
    · rename_i ho
      split at h
      · simp at h
      · simp at h; subst h; exact ⟨ho, Anc.refl _, hv⟩
    · rcases loopSeen_mem _ d _ _ h with h | ⟨s2, hs2, seen2, hd2⟩
      · simp at h
      · obtain ⟨hs2, hv2⟩ := List.mem_filter.1 hs2
        obtain ⟨ho, ha, hvd⟩ := ih s2 d seen2 hd2 hv2
        exact ⟨ho, anc_trans (Anc.step (mem_subclassesOf bases order s s2 hs2) (Anc.refl _)) ha, hvd⟩

/-- **overriding_sound**: every class listed as "overridden in" for member `name` of `c` is a
visible proper descendant of `c` that defines `name` itself. -/
theorem overriding_sound (bases : Nat → List Nat) (hA : Acyclic bases) (order : List Nat)
    (owns : Nat → Nat → Bool) (visible : Nat → Bool) (c name d : Nat)
    (h : d ∈ overridingSubclasses bases order owns visible c name) :
    owns d name = true ∧ Anc bases c d ∧ c < d ∧ visible d = true := by
  simp only [overridingSubclasses, overridingFuel_succ, Bool.not_true, Bool.false_and,
    Bool.false_eq_true, if_false] at h
  rcases loopSeen_mem _ d _ _ h with h | ⟨s, hs, seen, hd⟩
  · simp at h
  · obtain ⟨hs, hv⟩ := List.mem_filter.1 hs
    obtain ⟨ho, ha, hvd⟩ := overriding_inner bases order owns visible name _ s d seen hd hv
    have hcs := mem_subclassesOf bases order c s hs
    exact ⟨ho, anc_trans (Anc.step hcs (Anc.refl _)) ha,
      Nat.lt_of_lt_of_le (hA s c hcs) (anc_le hA ha), hvd⟩

/-- Historical (code before commit 7da14b7): in a diamond 1; 2(1); 3(1); 4(2,3) where only 1 and 4
define the member, `overriding_subclasses(1, m)` yielded 4 twice and the page said "overridden in
4, 4"; the current code yields it once. -/
theorem overriding_duplicate_counterexample :
    overridingSubclassesOld exBases [1, 2, 3, 4] (fun c _ => c == 1 || c == 4) (fun _ => true) 1 0 = [4, 4]
    ∧ overridingSubclasses exBases [1, 2, 3, 4] (fun c _ => c == 1 || c == 4) (fun _ => true) 1 0 = [4] := by
  decide

/-! ### lookups made while the modules are visited (`_mro` still `None`) -/

theorem filter_true_eq {α : Type} : ∀ l : List α, l.filter (fun _ => true) = l
  | [] => rfl
  | a :: l => by simp

/-- **early_eq_mro**: in a hierarchy whose bases are all resolved classes, the order `Class.mro()`
has while the modules are visited is the order it has after post-processing — for accepted classes
(the C3 linearisation) and for rejected ones (the `allbases` fallback) alike, with or without the
class itself.  No hypothesis on the shape of the hierarchy (since commit 7c3f474; before, only under
single inheritance). -/
theorem early_eq_mro (bases : Nat → List Nat) (c : Nat) (is_ : Bool) :
    classMroEarly bases (fun _ => false) c is_ = classMro bases (fun _ => false) c false is_ := by
  have hb : (fun k => (bases k).filter fun b => !(fun _ => false) b) = bases := by
    funext k; simp [filter_true_eq]
  simp only [classMroEarly, hb, classMro, initMro]
  cases h : mro bases c with
  | some l => cases is_ <;> simp [filter_true_eq]
  | none =>
    cases is_
    · simp [classMroEarlyOld, allbases, allbasesFuel, filter_true_eq]
    · simp [classMroEarlyOld, filter_true_eq]

/-- **findEarly_eq_find**: every lookup made through a class during the visit (`expandName` on
`D.Inner`, aliases, `_maybeAttribute`) finds what `Class.find` finds after post-processing, hence
(`find_eq_lookup`) what Python's attribute lookup finds. -/
theorem findEarly_eq_find (bases : Nat → List Nat) (owns : Nat → Nat → Bool) (c name : Nat) :
    findEarly bases (fun _ => false) owns c name = find bases (fun _ => false) owns c name := by
  simp only [findEarly, find, early_eq_mro bases c true]

/-- Historical (code before commit 7c3f474): in the diamond 1; 2(1); 3(1); 4(2,3) with the name
defined in 1 and 3, the lookup made during the visit followed the depth-first `allbases` order
(4,2,1,3,1) and found 1's definition where the final linearisation and Python (4,2,3,1) find 3's:
`class X(D.Inner)` got the wrong base.  The current code finds 3's. -/
theorem findEarly_diamond_counterexample :
    findEarlyOld exBases (fun _ => false) (fun c _ => c == 1 || c == 3) 4 0 = some 1
    ∧ findEarly exBases (fun _ => false) (fun c _ => c == 1 || c == 3) 4 0 = some 3
    ∧ PyMro.lookup (PyMro.withObject exBases) (fun c _ => c == 1 || c == 3) 4 0 = some 3 := by
  decide

/-! ### the "inherited from" tables of a class page -/

/-- class `r` masks name `n`: it has `n` among its contents and `n` is not class-private -/
def Masks (contents : Nat → List Nat) (priv : Nat → Bool) (n r : Nat) : Prop :=
  n ∈ contents r ∧ priv n = false

theorem mem_unmaskedAttrs (contents : Nat → List Nat) (visible : Nat → Nat → Bool) (priv : Nat → Bool)
    (b : Nat) (rest : List Nat) (b' n : Nat) :
    (b', n) ∈ unmaskedAttrs contents visible priv b rest ↔
      b' = b ∧ n ∈ contents b ∧ visible b n = true ∧ ∀ r ∈ rest, ¬ Masks contents priv n r := by
  simp only [unmaskedAttrs, List.mem_map, List.mem_filter, Bool.and_eq_true, Bool.not_eq_true',
    List.any_eq_false, List.contains_iff_mem, Prod.mk.injEq, Masks]
  constructor
  · rintro ⟨a, ⟨ha, hv, hr⟩, rfl, rfl⟩
    exact ⟨rfl, ha, hv, fun r hr' => by simpa using hr r hr'⟩
  · rintro ⟨rfl, ha, hv, hr⟩
    exact ⟨n, ⟨ha, hv, fun r hr' => by simpa using hr r hr'⟩, rfl, rfl⟩

theorem mem_chains_unmasked (contents : Nat → List Nat) (visible : Nat → Nat → Bool) (priv : Nat → Bool)
    (b n : Nat) :
    ∀ (xs acc : List Nat),
      (∃ p ∈ chains acc xs, p.2 ≠ [] ∧ (b, n) ∈ unmaskedAttrs contents visible priv p.1 p.2) ↔
      ∃ as bs, xs = as ++ b :: bs ∧ n ∈ contents b ∧ visible b n = true ∧
        (∀ r ∈ acc, ¬ Masks contents priv n r) ∧ (∀ r ∈ as, ¬ Masks contents priv n r) ∧
        (acc ≠ [] ∨ as ≠ []) := by
  intro xs
  induction xs with
  | nil => intro acc; simp [chains]
  | cons x xs ih =>
    intro acc
    constructor
    · rintro ⟨p, hp, hne, hmem⟩
      simp only [chains, List.mem_cons] at hp
      rcases hp with rfl | hp
      · obtain ⟨rfl, hc, hv, hr⟩ := (mem_unmaskedAttrs _ _ _ _ _ _ _).1 hmem
        exact ⟨[], xs, rfl, hc, hv, hr, by simp, Or.inl hne⟩
      · obtain ⟨as, bs, rfl, hc, hv, hacc, has, _⟩ := (ih (x :: acc)).1 ⟨p, hp, hne, hmem⟩
        refine ⟨x :: as, bs, rfl, hc, hv, fun r hr => hacc r (List.mem_cons_of_mem _ hr), ?_, Or.inr (by simp)⟩
        intro r hr
        rcases List.mem_cons.1 hr with rfl | hr
        · exact hacc _ (List.mem_cons_self ..)
        · exact has r hr
    · rintro ⟨as, bs, hxs, hc, hv, hacc, has, hne⟩
      cases as with
      | nil =>
        simp only [List.nil_append, List.cons.injEq] at hxs
        obtain ⟨rfl, rfl⟩ := hxs
        have hacc' : acc ≠ [] := by rcases hne with h | h; exact h; exact absurd rfl h
        exact ⟨(x, acc), by simp [chains], hacc', (mem_unmaskedAttrs _ _ _ _ _ _ _).2 ⟨rfl, hc, hv, hacc⟩⟩
      | cons a as =>
        simp only [List.cons_append, List.cons.injEq] at hxs
        obtain ⟨rfl, rfl⟩ := hxs
        have := (ih (x :: acc)).2 ⟨as, bs, rfl, hc, hv, ?_, fun r hr => has r (List.mem_cons_of_mem _ hr), Or.inl (by simp)⟩
        · obtain ⟨p, hp, h1, h2⟩ := this
          exact ⟨p, by simp [chains, hp], h1, h2⟩
        · intro r hr
          rcases List.mem_cons.1 hr with rfl | hr
          · exact has _ (List.mem_cons_self ..)
          · exact hacc r hr

theorem mem_inheritedMembers (contents : Nat → List Nat) (visible : Nat → Nat → Bool) (priv : Nat → Bool)
    (m : List Nat) (b n : Nat) :
    (b, n) ∈ inheritedMembers contents visible priv m ↔
      ∃ p ∈ chains [] m, p.2 ≠ [] ∧ (b, n) ∈ unmaskedAttrs contents visible priv p.1 p.2 := by
  simp only [inheritedMembers, classMembers, nestedBases, List.mem_flatMap, List.mem_filter,
    List.mem_map]
  constructor
  · rintro ⟨q, ⟨⟨⟨p, hp, rfl⟩, _⟩, hlen⟩, hmem⟩
    refine ⟨p, hp, ?_, hmem⟩
    intro h; simp [h] at hlen
  · rintro ⟨p, hp, hne, hmem⟩
    refine ⟨(p, unmaskedAttrs contents visible priv p.1 p.2), ⟨⟨⟨p, hp, rfl⟩, ?_⟩, ?_⟩, hmem⟩
    · cases h : unmaskedAttrs contents visible priv p.1 p.2 with
      | nil => rw [h] at hmem; simp at hmem
      | cons => simp
    · cases h : p.2 with
      | nil => exact absurd h hne
      | cons => simp

/-- **inherited_members_iff**: over a duplicate-free linearisation `m`, a member `n` that is not
class-private is listed as inherited from `b` exactly when `b` is the first class of `m` that has
`n` among its contents, `b` is not the class itself (the head of `m`) and the member is visible:
when several bases define the name, the first one in MRO order is shown, as attribute lookup would
find it. -/
theorem inherited_members_iff (contents : Nat → List Nat) (visible : Nat → Nat → Bool) (priv : Nat → Bool)
    (m : List Nat) (hn : m.Nodup) (b n : Nat) (hpub : priv n = false) :
    (b, n) ∈ inheritedMembers contents visible priv m ↔
      m.find? (fun x => (contents x).contains n) = some b ∧ visible b n = true ∧ m.head? ≠ some b := by
  rw [mem_inheritedMembers, mem_chains_unmasked, List.find?_eq_some_iff_append]
  have hM : ∀ r, ¬ Masks contents priv n r ↔ n ∉ contents r := by
    intro r; simp [Masks, hpub]
  constructor
  · rintro ⟨as, bs, rfl, hc, hv, _, has, hne⟩
    refine ⟨⟨by simpa using hc, as, bs, rfl, fun a ha => by simpa using (hM a).1 (has a ha)⟩, hv, ?_⟩
    cases as with
    | nil => simp at hne
    | cons a as =>
      simp only [List.cons_append, List.head?_cons, ne_eq, Option.some.injEq]
      intro e; subst e
      have := List.nodup_cons.1 hn
      exact this.1 (by simp)
  · rintro ⟨⟨hc, as, bs, rfl, has⟩, hv, hh⟩
    refine ⟨as, bs, rfl, by simpa using hc, hv, by simp,
      fun a ha => (hM a).2 (by simpa using has a ha), Or.inr ?_⟩
    intro e; subst e; simp at hh

/-- **inherited_private_iff**: a class-private member `n` (`__x`) of *every* class after the head of
`m` that has it is listed as inherited — nothing masks it, because `_b__x` is an attribute of its
own in every class `b`. -/
theorem inherited_private_iff (contents : Nat → List Nat) (visible : Nat → Nat → Bool) (priv : Nat → Bool)
    (m : List Nat) (b n : Nat) (hpriv : priv n = true) :
    (b, n) ∈ inheritedMembers contents visible priv m ↔
      b ∈ m.drop 1 ∧ n ∈ contents b ∧ visible b n = true := by
  rw [mem_inheritedMembers, mem_chains_unmasked]
  have hM : ∀ r, ¬ Masks contents priv n r := by intro r; simp [Masks, hpriv]
  constructor
  · rintro ⟨as, bs, rfl, hc, hv, _, _, hne⟩
    refine ⟨?_, hc, hv⟩
    cases as with
    | nil => simp at hne
    | cons a as => simp
  · rintro ⟨hb, hc, hv⟩
    cases m with
    | nil => simp at hb
    | cons h t =>
      simp only [List.drop_succ_cons, List.drop_zero] at hb
      obtain ⟨as, bs, rfl⟩ := List.append_of_mem hb
      exact ⟨h :: as, bs, by simp, hc, hv, fun r _ => hM r, fun r _ => hM r, Or.inr (by simp)⟩

/-- **inherited_attribution**: for a class Python accepts, the class page lists a member `n` that is
not class-private as inherited from `b` iff `Class.find(n)` (= attribute lookup, `find_eq_lookup`)
yields `b`'s member, `b` is not the class itself and the member is visible. -/
theorem inherited_attribution (bases : Nat → List Nat) (hA : Acyclic bases) (ext : Nat → Bool)
    (contents : Nat → List Nat) (visible : Nat → Nat → Bool) (priv : Nat → Bool) (c : Nat) (l : List Nat)
    (hacc : mro bases c = some l) (hcext : ext c = false) (b n : Nat) (hpub : priv n = false) :
    (b, n) ∈ inheritedMembers contents visible priv (classMro bases ext c) ↔
      find bases ext (fun x k => (contents x).contains k) c n = some b ∧ visible b n = true ∧ b ≠ c := by
  have hnd : (classMro bases ext c).Nodup := by
    rw [classMro_accept bases ext c l hacc]
    exact (mro_nodup bases hA c l hacc).filter _
  rw [inherited_members_iff contents visible priv _ hnd b n hpub, find]
  obtain ⟨t, rfl, _⟩ := mroFuel_head_tail bases hA _ c l hacc
  have hh : (classMro bases ext c).head? = some c := by
    simp [classMro_accept bases ext c _ hacc, List.filter_cons, hcext]
  rw [hh]
  constructor
  · rintro ⟨h1, h2, h3⟩; exact ⟨h1, h2, fun e => h3 (by rw [e])⟩
  · rintro ⟨h1, h2, h3⟩; exact ⟨h1, h2, fun e => h3 (by simpa using e.symm)⟩

/-! ## 12. Class-private names (`__name`)

Python mangles an identifier `__x` used in the body of class `c` to `_c__x`: seen from `c`, only `c`
itself can define that attribute.  Since commit d869973 pydoctor no longer relates such members
across classes, and the two statements below hold for every name. -/

/-- which classes define the attribute that the spelling `n` denotes in the body of class `c` -/
def mangledOwns (priv : Nat → Bool) (owns : Nat → Nat → Bool) (c : Nat) : Nat → Nat → Bool :=
  fun b n => if priv n then (b == c && owns b n) else owns b n

theorem mangledOwns_public (priv : Nat → Bool) (owns : Nat → Nat → Bool) (c name : Nat)
    (h : priv name = false) : (fun b => mangledOwns priv owns c b name) = fun b => owns b name := by
  funext b; simp [mangledOwns, h]

theorem find?_tail_private (priv : Nat → Bool) (owns : Nat → Nat → Bool) (c name : Nat)
    (hp : priv name = true) (q : Nat → Bool) (t : List Nat) (ht : ∀ x ∈ t, x < c) :
    t.find? (fun b => mangledOwns priv owns c b name && q b) = none := by
  apply List.find?_eq_none.2
  intro x hx
  have : x ≠ c := Nat.ne_of_lt (ht x hx)
  simp [mangledOwns, hp, this]

/-- **docsource_eq_getdoc**: for a member `name` of an accepted, documented class `c` — class-private
names included, Python's mangling taken into account — the docstring source `get_docstring` picks is
the one attribute lookup along Python's `__mro__` yields. -/
theorem docsource_eq_getdoc (bases : Nat → List Nat) (hA : Acyclic1 bases) (ext priv : Nat → Bool)
    (owns hasDoc : Nat → Nat → Bool) (c name : Nat) (hc : 0 < c) (l : List Nat)
    (hacc : mro bases c = some l) (hcext : ext c = false)
    (hext : ∀ x, ext x = true → owns x name = false) (hobj : owns 0 name = false) :
    getDocstring bases ext priv owns hasDoc c name
      = PyMro.docSource (PyMro.withObject bases) (mangledOwns priv owns c) hasDoc c name := by
  cases hp : priv name with
  | false =>
    have hm := mangledOwns_public priv owns c name hp
    have hold := docsource_same_owns bases hA ext owns hasDoc c name hc l hacc hcext hext hobj
    simp only [getDocstring, docsources, hp, Bool.false_eq_true, if_false]
    have h1 : getDocstringOld bases ext owns hasDoc c name
        = (docsourcesOld bases ext owns c name).find? (fun b => hasDoc b name) := rfl
    rw [← h1, hold]
    simp only [PyMro.docSource]
    have : (fun b => mangledOwns priv owns c b name && hasDoc b name) = fun b => owns b name && hasDoc b name := by
      funext b; rw [congrFun hm b]
    simp only [this]
  | true =>
    obtain ⟨t, rfl, ht⟩ := mroFuel_head_tail bases hA.acyclic _ c l hacc
    simp only [getDocstring, docsources, hp, if_true, List.find?_cons, List.find?_nil, PyMro.docSource,
      pd_eq_cpython bases hA c hc, hacc, Option.map_some, List.cons_append, List.drop_succ_cons, List.drop_zero]
    cases hd : hasDoc c name with
    | true => simp
    | false =>
      simp only [Bool.false_eq_true, if_false]
      rw [List.find?_append, find?_tail_private priv owns c name hp _ t ht]
      simp [mangledOwns, hp]
      intro e; omega

/-- **overrides_eq_super**: the member shown as "overrides …" is the one `super()` reaches — for a
class-private name nothing, as `_c__x` exists in no other class. -/
theorem overrides_eq_super (bases : Nat → List Nat) (hA : Acyclic1 bases) (ext priv : Nat → Bool)
    (owns : Nat → Nat → Bool) (c name : Nat) (hc : 0 < c) (l : List Nat)
    (hacc : mro bases c = some l) (hcext : ext c = false)
    (hext : ∀ x, ext x = true → owns x name = false) (hobj : owns 0 name = false) :
    overrides bases ext priv owns c name
      = PyMro.superLookup (PyMro.withObject bases) (mangledOwns priv owns c) c name := by
  cases hp : priv name with
  | false =>
    have hm := mangledOwns_public priv owns c name hp
    simp only [overrides, hp, Bool.false_eq_true, if_false]
    rw [overrides_same_owns bases hA ext owns c name hc l hacc hcext hext hobj]
    simp only [PyMro.superLookup, hm]
  | true =>
    obtain ⟨t, rfl, ht⟩ := mroFuel_head_tail bases hA.acyclic _ c l hacc
    simp only [overrides, hp, if_true, PyMro.superLookup, pd_eq_cpython bases hA c hc, hacc,
      Option.map_some, List.cons_append, List.drop_succ_cons, List.drop_zero]
    rw [List.find?_append]
    have := find?_tail_private priv owns c name hp (fun _ => true) t ht
    simp only [Bool.and_true] at this
    rw [this]
    simp [mangledOwns, hp]
    intro e; omega

/-- Historical (code before commit d869973): 1 defines `__x` (name 7) with a docstring, 2(1) defines
`__x` without: pydoctor let 2's member inherit 1's docstring and said it overrides 1's; for Python
`_2__x` has no docstring to inherit and overrides nothing.  The current code agrees with Python. -/
theorem docsource_private_name_counterexample :
    let owns := fun (c n : Nat) => n == 7 && (c == 1 || c == 2)
    let hasDoc := fun (c n : Nat) => n == 7 && c == 1
    let priv := fun (n : Nat) => n == 7
    getDocstringOld exBases (fun _ => false) owns hasDoc 2 7 = some 1
    ∧ overridesOld exBases (fun _ => false) owns 2 7 = some 1
    ∧ getDocstring exBases (fun _ => false) priv owns hasDoc 2 7 = none
    ∧ overrides exBases (fun _ => false) priv owns 2 7 = none
    ∧ PyMro.docSource (PyMro.withObject exBases) (mangledOwns priv owns 2) hasDoc 2 7 = none
    ∧ PyMro.superLookup (PyMro.withObject exBases) (mangledOwns priv owns 2) 2 7 = none := by
  decide

end Mro
