/-
C08 — any docstring in any format is rendered; markup errors degrade to plain text.

Theorems over `PdModel.Docstring`, the model of the wrapper logic of epydoc2stan.py /
markup/__init__.py / templatewriter around the markup parsers.  Every statement quantifies over ALL
behaviours of the parameters (`Env`: parser, processtypes step, to_stan, to_node, summary walk, toc
builder, colorizer results, signature formatter), all states and all objects, unless a hypothesis
says otherwise.
-/
import PdModel.Docstring

namespace Docstring

/-! ## basic facts about the state primitives -/

@[simp] theorem setParsed_errors (st : St) (o : Obj) (pd : PD) : (setParsed st o pd).errors = st.errors := rfl
@[simp] theorem setParsed_reports (st : St) (o : Obj) (pd : PD) : (setParsed st o pd).reports = st.reports := rfl
@[simp] theorem setSummary_errors (st : St) (o : Obj) (pd : PD) : (setSummary st o pd).errors = st.errors := rfl
@[simp] theorem setSummary_reports (st : St) (o : Obj) (pd : PD) : (setSummary st o pd).reports = st.reports := rfl
@[simp] theorem setPType_errors (st : St) (o : Obj) (b : Body) : (setPType st o b).errors = st.errors := rfl
@[simp] theorem setPType_reports (st : St) (o : Obj) (b : Body) : (setPType st o b).reports = st.reports := rfl
@[simp] theorem setParsed_reported (st : St) (o : Obj) (pd : PD) : (setParsed st o pd).reported = st.reported := rfl
@[simp] theorem setSummary_reported (st : St) (o : Obj) (pd : PD) : (setSummary st o pd).reported = st.reported := rfl
@[simp] theorem setPType_reported (st : St) (o : Obj) (b : Body) : (setPType st o b).reported = st.reported := rfl

@[simp] theorem setParsed_self (st : St) (o : Obj) (pd : PD) :
    ((setParsed st o pd).objs o).parsed = some pd := by simp [setParsed]
@[simp] theorem setParsed_docstring (st : St) (o x : Obj) (pd : PD) :
    ((setParsed st o pd).objs x).docstring = (st.objs x).docstring := by
  simp only [setParsed]; split <;> simp_all
@[simp] theorem setParsed_summary (st : St) (o x : Obj) (pd : PD) :
    ((setParsed st o pd).objs x).parsedSummary = (st.objs x).parsedSummary := by
  simp only [setParsed]; split <;> simp_all
@[simp] theorem setParsed_ptype (st : St) (o x : Obj) (pd : PD) :
    ((setParsed st o pd).objs x).ptype = (st.objs x).ptype := by
  simp only [setParsed]; split <;> simp_all
theorem setParsed_ne (st : St) (o x : Obj) (pd : PD) (h : x ≠ o) :
    (setParsed st o pd).objs x = st.objs x := by simp [setParsed, h]

@[simp] theorem setSummary_self (st : St) (o : Obj) (pd : PD) :
    ((setSummary st o pd).objs o).parsedSummary = some pd := by simp [setSummary]
@[simp] theorem setSummary_docstring (st : St) (o x : Obj) (pd : PD) :
    ((setSummary st o pd).objs x).docstring = (st.objs x).docstring := by
  simp only [setSummary]; split <;> simp_all
@[simp] theorem setSummary_parsed (st : St) (o x : Obj) (pd : PD) :
    ((setSummary st o pd).objs x).parsed = (st.objs x).parsed := by
  simp only [setSummary]; split <;> simp_all
@[simp] theorem setSummary_ptype (st : St) (o x : Obj) (pd : PD) :
    ((setSummary st o pd).objs x).ptype = (st.objs x).ptype := by
  simp only [setSummary]; split <;> simp_all
theorem setSummary_ne (st : St) (o x : Obj) (pd : PD) (h : x ≠ o) :
    (setSummary st o pd).objs x = st.objs x := by simp [setSummary, h]

@[simp] theorem setPType_self (st : St) (o : Obj) (b : Body) :
    ((setPType st o b).objs o).ptype = some b := by simp [setPType]
@[simp] theorem setPType_docstring (st : St) (o x : Obj) (b : Body) :
    ((setPType st o b).objs x).docstring = (st.objs x).docstring := by
  simp only [setPType]; split <;> simp_all
@[simp] theorem setPType_parsed (st : St) (o x : Obj) (b : Body) :
    ((setPType st o b).objs x).parsed = (st.objs x).parsed := by
  simp only [setPType]; split <;> simp_all
@[simp] theorem setPType_summary (st : St) (o x : Obj) (b : Body) :
    ((setPType st o b).objs x).parsedSummary = (st.objs x).parsedSummary := by
  simp only [setPType]; split <;> simp_all
theorem setPType_ne (st : St) (o x : Obj) (b : Body) (h : x ≠ o) :
    (setPType st o b).objs x = st.objs x := by simp [setPType, h]

@[simp] theorem reportErrors_objs (st : St) (o : Obj) (errs : List Err) (sec : Sec) (ph : Phase) :
    (reportErrors st o errs sec ph).objs = st.objs := by
  unfold reportErrors; split
  · rfl
  · split <;> rfl

theorem reportErrors_noop (st : St) (o : Obj) (errs : List Err) (sec : Sec) (ph : Phase)
    (h : (sec, o, ph) ∈ st.reported) : reportErrors st o errs sec ph = st := by
  simp [reportErrors, h]

theorem reportErrors_nil (st : St) (o : Obj) (sec : Sec) (ph : Phase) : reportErrors st o [] sec ph = st := by
  simp [reportErrors]

/-- what a fresh report group looks like -/
theorem reportErrors_fresh (st : St) (o : Obj) (errs : List Err) (sec : Sec) (ph : Phase) (h : errs ≠ [])
    (hn : (sec, o, ph) ∉ st.reported) :
    (reportErrors st o errs sec ph).reported = st.reported ++ [(sec, o, ph)] ∧
    (reportErrors st o errs sec ph).errors = (if st.errors.contains (sec, o) then st.errors else st.errors ++ [(sec, o)]) ∧
    (reportErrors st o errs sec ph).reports = st.reports ++ errs.map fun e => ⟨o, sec, e.descr, e.offset⟩ := by
  simp [reportErrors, h, hn]

theorem reportErrors_errors_mono (st : St) (o : Obj) (errs : List Err) (sec : Sec) (ph : Phase) :
    ∀ p ∈ st.errors, p ∈ (reportErrors st o errs sec ph).errors := by
  intro p hp
  unfold reportErrors
  split
  · exact hp
  · split
    · exact hp
    · simp only []; split
      · exact hp
      · exact List.mem_append_left _ hp

/-- after a non-empty report attempt the key is recorded; and if it was recorded by THIS call or an
earlier one the object counts as having errors whenever it was added then (see `Inv`) -/
theorem reportErrors_key (st : St) (o : Obj) (errs : List Err) (sec : Sec) (ph : Phase) (h : errs ≠ []) :
    (sec, o, ph) ∈ (reportErrors st o errs sec ph).reported := by
  by_cases hc : (sec, o, ph) ∈ st.reported
  · rw [reportErrors_noop _ _ _ _ _ hc]; exact hc
  · rw [(reportErrors_fresh st o errs sec ph h hc).1]; simp

theorem reportErrors_fresh_mem (st : St) (o : Obj) (errs : List Err) (sec : Sec) (ph : Phase) (h : errs ≠ [])
    (hn : (sec, o, ph) ∉ st.reported) : (sec, o) ∈ (reportErrors st o errs sec ph).errors := by
  rw [(reportErrors_fresh st o errs sec ph h hn).2.1]
  split
  · rename_i hc; simpa using hc
  · simp

/-! ## the frame invariant: what one call may change

`T` = the objects whose cached forms (`parsed_docstring`, `parsed_summary`, `parsed_type`) the call
may write; `src`/`sec` = the one (object, section) pair the call may report against. -/

structure Frame (T : Obj → Prop) (src : Obj) (sec : Sec) (st st' : St) : Prop where
  docstring : ∀ x, (st'.objs x).docstring = (st.objs x).docstring
  parsed : ∀ x, ¬ T x → (st'.objs x).parsed = (st.objs x).parsed
  summary : ∀ x, ¬ T x → (st'.objs x).parsedSummary = (st.objs x).parsedSummary
  ptype : ∀ x, ¬ T x → (st'.objs x).ptype = (st.objs x).ptype
  errors_mono : ∀ p ∈ st.errors, p ∈ st'.errors
  errors_new : ∀ p ∈ st'.errors, p ∈ st.errors ∨ p = (sec, src)
  reported_mono : ∀ k ∈ st.reported, k ∈ st'.reported
  reported_new : ∀ k ∈ st'.reported, k ∈ st.reported ∨ (k.1 = sec ∧ k.2.1 = src)
  reports : ∃ new, st'.reports = st.reports ++ new ∧
      ∀ r ∈ new, r.obj = src ∧ r.sec = sec ∧ (sec, src) ∈ st'.errors ∧
        ∃ ph, (sec, src, ph) ∉ st.reported ∧ (sec, src, ph) ∈ st'.reported

theorem Frame.refl (T : Obj → Prop) (src : Obj) (sec : Sec) (st : St) : Frame T src sec st st :=
  ⟨fun _ => rfl, fun _ _ => rfl, fun _ _ => rfl, fun _ _ => rfl, fun _ h => h, fun _ h => .inl h,
   fun _ h => h, fun _ h => .inl h, ⟨[], by simp⟩⟩

theorem Frame.trans {T : Obj → Prop} {src : Obj} {sec : Sec} {a b c : St}
    (h1 : Frame T src sec a b) (h2 : Frame T src sec b c) : Frame T src sec a c := by
  refine ⟨fun x => (h2.docstring x).trans (h1.docstring x),
          fun x hx => (h2.parsed x hx).trans (h1.parsed x hx),
          fun x hx => (h2.summary x hx).trans (h1.summary x hx),
          fun x hx => (h2.ptype x hx).trans (h1.ptype x hx),
          fun p hp => h2.errors_mono p (h1.errors_mono p hp), ?_,
          fun k hk => h2.reported_mono k (h1.reported_mono k hk), ?_, ?_⟩
  · intro p hp
    rcases h2.errors_new p hp with h | h
    · exact h1.errors_new p h
    · exact .inr h
  · intro k hk
    rcases h2.reported_new k hk with h | h
    · exact h1.reported_new k h
    · exact .inr h
  · obtain ⟨n1, e1, p1⟩ := h1.reports
    obtain ⟨n2, e2, p2⟩ := h2.reports
    refine ⟨n1 ++ n2, by rw [e2, e1, List.append_assoc], ?_⟩
    intro r hr
    rcases List.mem_append.mp hr with h | h
    · obtain ⟨x1, x2, x3, ph, x4, x5⟩ := p1 r h
      exact ⟨x1, x2, h2.errors_mono _ x3, ph, x4, h2.reported_mono _ x5⟩
    · obtain ⟨x1, x2, x3, ph, x4, x5⟩ := p2 r h
      exact ⟨x1, x2, x3, ph, fun hc => x4 (h1.reported_mono _ hc), x5⟩

theorem Frame.mono {T T' : Obj → Prop} {src : Obj} {sec : Sec} {a b : St} (h : Frame T src sec a b)
    (hT : ∀ x, T x → T' x) : Frame T' src sec a b :=
  ⟨h.docstring, fun x hx => h.parsed x (fun c => hx (hT x c)), fun x hx => h.summary x (fun c => hx (hT x c)),
   fun x hx => h.ptype x (fun c => hx (hT x c)), h.errors_mono, h.errors_new, h.reported_mono, h.reported_new, h.reports⟩

theorem frame_reportErrors (T : Obj → Prop) (src : Obj) (sec : Sec) (st : St) (errs : List Err) (ph : Phase) :
    Frame T src sec st (reportErrors st src errs sec ph) := by
  by_cases he : errs = []
  · subst he; rw [reportErrors_nil]; exact Frame.refl _ _ _ _
  by_cases hm : (sec, src, ph) ∈ st.reported
  · rw [reportErrors_noop _ _ _ _ _ hm]; exact Frame.refl _ _ _ _
  obtain ⟨e0, e1, e2⟩ := reportErrors_fresh st src errs sec ph he hm
  refine ⟨by simp, by simp, by simp, by simp, reportErrors_errors_mono _ _ _ _ _, ?_, ?_, ?_, ?_⟩
  · intro p hp; rw [e1] at hp
    split at hp
    · exact .inl hp
    · rcases List.mem_append.mp hp with h | h
      · exact .inl h
      · exact .inr (by simpa using h)
  · intro k hk; rw [e0]; exact List.mem_append_left _ hk
  · intro k hk; rw [e0] at hk
    rcases List.mem_append.mp hk with h | h
    · exact .inl h
    · right; simp at h; subst h; exact ⟨rfl, rfl⟩
  · refine ⟨_, e2, ?_⟩
    intro r hr
    obtain ⟨e, _, rfl⟩ := List.mem_map.mp hr
    exact ⟨rfl, rfl, reportErrors_fresh_mem _ _ _ _ _ he hm, ph, hm, by rw [e0]; simp⟩

theorem frame_setParsed (T : Obj → Prop) (src : Obj) (sec : Sec) (st : St) (o : Obj) (pd : PD) (hT : T o) :
    Frame T src sec st (setParsed st o pd) :=
  ⟨by simp, fun x hx => by rw [setParsed_ne _ _ _ _ (fun c => by subst c; exact hx hT)], by simp, by simp,
   fun _ h => h, fun _ h => .inl h, fun _ h => h, fun _ h => .inl h, ⟨[], by simp⟩⟩

theorem frame_setPType (T : Obj → Prop) (src : Obj) (sec : Sec) (st : St) (o : Obj) (b : Body) (hT : T o) :
    Frame T src sec st (setPType st o b) :=
  ⟨by simp, by simp, by simp, fun x hx => by rw [setPType_ne _ _ _ _ (fun c => by subst c; exact hx hT)],
   fun _ h => h, fun _ h => .inl h, fun _ h => h, fun _ h => .inl h, ⟨[], by simp⟩⟩

theorem frame_setSummary (T : Obj → Prop) (src : Obj) (sec : Sec) (st : St) (o : Obj) (pd : PD)
    (hT : T o) : Frame T src sec st (setSummary st o pd) :=
  ⟨by simp, by simp,
   fun x hx => by rw [setSummary_ne _ _ _ _ (fun c => by subst c; exact hx hT)],
   by simp, fun _ h => h, fun _ h => .inl h, fun _ h => h, fun _ h => .inl h, ⟨[], by simp⟩⟩

theorem Frame.of_eq {T : Obj → Prop} {src : Obj} {sec : Sec} {st st' : St} (h1 : st'.objs = st.objs)
    (h2 : st'.errors = st.errors) (h3 : st'.reports = st.reports) (h4 : st'.reported = st.reported) :
    Frame T src sec st st' :=
  ⟨fun x => by rw [h1], fun x _ => by rw [h1], fun x _ => by rw [h1], fun x _ => by rw [h1],
   fun p hp => by rw [h2]; exact hp, fun p hp => .inl (by rw [h2] at hp; exact hp),
   fun k hk => by rw [h4]; exact hk, fun k hk => .inl (by rw [h4] at hk; exact hk), ⟨[], by simp [h3]⟩⟩

theorem frame_parseDocstring (T : Obj → Prop) (env : Env) (obj src : Obj) (st : St) (doc : Text) :
    Frame T src 0 st (parseDocstring env st obj doc src).2 := by
  unfold parseDocstring
  refine Frame.trans (b := if getDocformat env src = Docformat.unknown then { st with importMsg := true } else st)
    ?_ (frame_reportErrors _ _ _ _ _ _)
  split <;> exact Frame.of_eq rfl rfl rfl rfl

@[simp] theorem parseDocstring_objs (env : Env) (obj src : Obj) (st : St) (doc : Text) :
    (parseDocstring env st obj doc src).2.objs = st.objs := by
  unfold parseDocstring; simp only [reportErrors_objs]; split <;> rfl

/-- `ensure_parsed_docstring`: a returned source means `parsed_docstring` is set (the two `assert`s
of format_docstring / _get_parsed_summary cannot fire), and it is the object the model calls `sourceOf` -/
theorem ensureParsed_some (env : Env) (st : St) (obj src : Obj)
    (h : (ensureParsed env st obj).1 = some src) :
    (((ensureParsed env st obj).2.objs obj).parsed).isSome = true ∧ src = sourceOf env st obj := by
  cases hg : getDocstring st (obj :: env.inherited obj) <;> cases hp : (st.objs obj).parsed <;>
    simp_all [ensureParsed, sourceOf]

/-- the objects a call on `obj` may write: `obj` itself -/
def Only (obj : Obj) : Obj → Prop := fun x => x = obj

theorem frame_ensureParsed (env : Env) (st : St) (obj : Obj) :
    Frame (Only obj) (sourceOf env st obj) 0 st (ensureParsed env st obj).2 := by
  cases hg : getDocstring st (obj :: env.inherited obj) <;> cases hp : (st.objs obj).parsed <;>
    simp only [ensureParsed, sourceOf, hg, hp]
  case found.none =>
    exact Frame.trans (frame_parseDocstring _ env obj _ st _) (frame_setParsed _ _ _ _ _ _ rfl)
  all_goals exact Frame.refl _ _ _ _

theorem frame_safeToStanOut (T : Obj → Prop) (src ctx : Obj) (sec0 : Sec) (st : St) (out : StanOut) (fb : Fallback)
    (report : Bool) (sec : Sec) (hctx : fb = .summary → T ctx) (hrep : report = true → ctx = src ∧ sec = sec0) :
    Frame T src sec0 st (safeToStanOut st out ctx fb report sec).2 := by
  unfold safeToStanOut
  cases out with
  | returns s => exact Frame.refl _ _ _ _
  | raises e =>
    simp only []
    have hfb : Frame T src sec0 st (applyFallback st fb ctx).2 := by
      unfold applyFallback
      cases fb with
      | docstring => simp only []; split <;> exact Frame.refl _ _ _ _
      | broken => exact Frame.refl _ _ _ _
      | summary => exact frame_setSummary _ _ _ _ _ _ (hctx rfl)
    cases report with
    | false => simpa using hfb
    | true =>
      obtain ⟨h1, h2⟩ := hrep rfl
      subst h1; subst h2
      simpa using Frame.trans hfb (frame_reportErrors _ _ _ _ _ .rendering)

theorem frame_fieldToStan (T : Obj → Prop) (env : Env) (st : St) (b : Body) (src : Obj) :
    Frame T src 0 st (fieldToStan env st b src).2 := by
  unfold fieldToStan
  split
  · exact Frame.refl _ _ _ _
  · rename_i e _
    exact frame_reportErrors T src 0 st [toStanError e] .rendering

theorem frame_formatFields (env : Env) (obj src : Obj) :
    ∀ (fs : List Field) (st : St), Frame (Only obj) src 0 st (formatFields env st obj src fs).2
  | [], st => Frame.refl _ _ _ _
  | f :: fs, st => by
    have hfmt : ∀ st0 : St, Frame (Only obj) src 0 st0
        (formatFields env (fieldToStan env st0 f.body src).2 obj src fs).2 :=
      fun st0 => Frame.trans (frame_fieldToStan _ env st0 f.body src) (frame_formatFields env obj src fs _)
    unfold formatFields
    split
    · exact frame_formatFields env obj src fs _
    · split
      · exact Frame.trans (frame_setPType _ _ _ _ _ _ rfl) (frame_formatFields env obj src fs _)
      · split
        · exact hfmt st
        · exact frame_formatFields env obj src fs _
    · exact hfmt st

/-! ## every entry point satisfies the frame; totality -/

theorem doc_spec (env : Env) (st : St) (obj : Obj) :
    Frame (Only obj) (sourceOf env st obj) 0 st (formatDocstring env st obj).2 ∧
    (formatDocstring env st obj).1.isOk = true := by
  have hf := frame_ensureParsed env st obj
  have hs := ensureParsed_some env st obj
  simp only [formatDocstring]
  split
  · exact ⟨hf, rfl⟩
  · rename_i src hsrc
    obtain ⟨hp, rfl⟩ := hs src hsrc
    split
    · rename_i hnone; simp [hnone] at hp
    · exact ⟨Frame.trans hf (Frame.trans
        (frame_safeToStanOut _ _ _ 0 _ _ .docstring true 0 (fun h => by cases h) (fun _ => ⟨rfl, rfl⟩))
        (frame_formatFields env obj _ _ _)), rfl⟩

/-- `ParsedDocstring.get_summary` (base class) never raises, whatever `to_node` and the walk do -/
theorem base_get_summary_total (env : Env) (pd : PD) : (getSummary env pd).isOk = true := by
  unfold getSummary
  split
  · rfl
  · split <;> rfl

theorem getParsedSummary_spec (env : Env) (st : St) (obj : Obj) :
    Frame (Only obj) (sourceOf env st obj) 0 st (getParsedSummary env st obj).2 ∧
    ∃ source pd, (getParsedSummary env st obj).1 = .ok (source, pd) ∧
      (∀ s, source = some s → s = sourceOf env st obj) := by
  have hf := frame_ensureParsed env st obj
  have hs := ensureParsed_some env st obj
  simp only [getParsedSummary]
  split
  · exact ⟨hf, _, _, rfl, fun s h => (hs s h).2⟩
  · split
    · exact ⟨Frame.trans hf (frame_setSummary _ _ _ _ _ _ rfl), _, _, rfl, fun s h => by simp at h⟩
    · rename_i src hsrc
      obtain ⟨hp, rfl⟩ := hs src hsrc
      split
      · rename_i hnone; simp [hnone] at hp
      · rename_i pd hpd
        have := base_get_summary_total env pd
        split
        · rename_i e he; simp [he, Res.isOk] at this
        · exact ⟨Frame.trans hf (frame_setSummary _ _ _ _ _ _ rfl), _, _, rfl, fun s h => by simpa using h.symm⟩

theorem summary_spec (env : Env) (st : St) (obj : Obj) :
    Frame (Only obj) (sourceOf env st obj) 0 st (formatSummary env st obj).2 ∧
    (formatSummary env st obj).1.isOk = true := by
  obtain ⟨hf, source, pd, he, hsrc⟩ := getParsedSummary_spec env st obj
  unfold formatSummary
  split
  · rename_i e st' heq; rw [heq] at he; simp at he
  · rename_i source' pd' st' heq
    rw [heq] at he hf
    simp only [Res.ok.injEq, Prod.mk.injEq] at he
    obtain ⟨rfl, rfl⟩ := he
    split
    · exact ⟨hf, rfl⟩
    · exact ⟨Frame.trans hf (frame_setSummary _ _ _ _ _ _ rfl), rfl⟩

/-- `format_toc` returns whatever `get_toc` does (c422501: `try … except Exception: toc = None`) -/
theorem toc_spec (env : Env) (st : St) (obj : Obj) :
    Frame (Only obj) (sourceOf env st obj) 0 st (formatToc env st obj).2 ∧
    (formatToc env st obj).1.isOk = true := by
  have hf := frame_ensureParsed env st obj
  simp only [formatToc]
  split
  · exact ⟨hf, rfl⟩
  · split
    · split
      · exact ⟨hf, rfl⟩
      · exact ⟨hf, rfl⟩
      · split
        · exact ⟨hf, rfl⟩
        · refine ⟨Frame.trans hf ?_, rfl⟩
          unfold safeToStan
          exact frame_safeToStanOut _ _ _ _ _ _ _ _ _ (fun h => by cases h) (fun h => by cases h)
    · exact ⟨hf, rfl⟩

/-- e05762e: a docstring that is shown as plain text because its own renderer fails has no table of contents -/
theorem toc_none_when_render_fails (env : Env) (st : St) (obj : Obj) (pd : PD) (e : Exc)
    (hpd : ((ensureParsed env st obj).2.objs obj).parsed = some pd) (hraise : pdToStan env pd = .raises e) :
    (formatToc env st obj).1.isOk = true ∧
    (match (formatToc env st obj).1 with | .ok none => True | _ => False) := by
  simp only [formatToc, hpd]
  split
  · split <;> simp [Res.isOk, hraise]
  · simp [Res.isOk]

/-- HISTORICAL (before c422501): the old `format_toc` raised exactly when `get_toc` did -/
theorem toc_old_spec (env : Env) (st : St) (obj : Obj) :
    ((formatTocOld env st obj).1.isOk = false ↔
      ∃ pd, ((ensureParsed env st obj).2.objs obj).parsed = some pd ∧ env.tocDepth > 0 ∧
        (getToc env pd env.tocDepth).isOk = false) := by
  simp only [formatTocOld]
  split
  · rename_i hnone; simp [Res.isOk, hnone]
  · rename_i pd hpd
    split
    · rename_i hd
      split
      · rename_i e he; simp [Res.isOk, hpd, hd, he]
      · rename_i he; simp [Res.isOk, hpd, he]
      · rename_i toc he; simp [Res.isOk, hpd, he]
    · rename_i hd; simp [Res.isOk, hpd]; omega

/-- the attributes `extract_fields` writes to: the arguments of the `ivar/cvar/var/type` fields -/
def splitTargets : List Field → List Obj
  | [] => []
  | f :: fs =>
    match f.tag, f.arg with
    | .typ, some a => a :: splitTargets fs
    | .ivar, some a => a :: splitTargets fs
    | _, _ => splitTargets fs

theorem frame_splitFields (T : Obj → Prop) (src : Obj) (sec : Sec) :
    ∀ (fs : List Field) (st : St), (∀ a ∈ splitTargets fs, T a) → Frame T src sec st (splitFields st fs)
  | [], st, _ => Frame.refl _ _ _ _
  | f :: fs, st, h => by
    cases ht : f.tag <;> cases ha : f.arg <;> simp only [splitFields, splitTargets, ht, ha] at h ⊢
    all_goals first
      | exact frame_splitFields T src sec fs _ h
      | exact Frame.trans (frame_setPType _ _ _ _ _ _ (h _ (by simp)))
          (frame_splitFields T src sec fs _ (fun a ha' => h a (by simp [ha'])))
      | exact Frame.trans (frame_setParsed _ _ _ _ _ _ (h _ (by simp)))
          (frame_splitFields T src sec fs _ (fun a ha' => h a (by simp [ha'])))

/-- what `extract_fields` on `obj` may write: `obj` and the attributes its docstring's variable fields name -/
def extractTouched (env : Env) (st : St) (obj : Obj) : Obj → Prop := fun x =>
  x = obj ∨ ∃ d, (st.objs obj).docstring = some d ∧ x ∈ splitTargets (pdFields (parseDocstring env st obj d obj).1)

theorem extract_spec (env : Env) (st : St) (obj : Obj) :
    Frame (extractTouched env st obj) obj 0 st (extractFields env st obj).2 ∧
    ((st.objs obj).docstring ≠ none → (extractFields env st obj).1.isOk = true) := by
  unfold extractFields
  split
  · rename_i h; exact ⟨Frame.refl _ _ _ _, fun hc => absurd h hc⟩
  · rename_i d hd
    refine ⟨?_, fun _ => rfl⟩
    refine Frame.trans (frame_parseDocstring _ env obj obj st _)
      (Frame.trans (frame_setParsed _ _ _ _ _ _ (.inl rfl)) (frame_splitFields _ _ _ _ _ ?_))
    intro a ha
    exact .inr ⟨d, hd, ha⟩

/-! ## C08 theorems: totality -/

/-- the object the reports of one call are filed against -/
def srcOfOp (env : Env) (st : St) (op : Op) (obj : Obj) : Obj :=
  if op = .extract then obj else sourceOf env st obj

/-- the objects one call may write (only `extract_fields` writes to anything but `obj`) -/
def touchedOf (env : Env) (st : St) (op : Op) (obj : Obj) : Obj → Prop :=
  if op = .extract then extractTouched env st obj else Only obj

theorem frame_step (env : Env) (st : St) (op : Op) (obj : Obj) :
    Frame (touchedOf env st op obj) (srcOfOp env st op obj) 0 st (step env st op obj).2 := by
  cases op <;> simp only [step, srcOfOp, touchedOf] <;> simp
  · exact frame_ensureParsed env st obj
  · exact (doc_spec env st obj).1
  · exact (summary_spec env st obj).1
  · exact (toc_spec env st obj).1
  · exact (extract_spec env st obj).1

theorem ensure_total (env : Env) (st : St) (obj : Obj) : (step env st .ensure obj).1.isOk = true := rfl

theorem doc_total (env : Env) (st : St) (obj : Obj) : (formatDocstring env st obj).1.isOk = true :=
  (doc_spec env st obj).2

theorem summary_total (env : Env) (st : St) (obj : Obj) : (formatSummary env st obj).1.isOk = true :=
  (summary_spec env st obj).2

theorem extract_total (env : Env) (st : St) (obj : Obj) (h : (st.objs obj).docstring ≠ none) :
    (extractFields env st obj).1.isOk = true :=
  (extract_spec env st obj).2 h

theorem toc_total (env : Env) (st : St) (obj : Obj) : (formatToc env st obj).1.isOk = true :=
  (toc_spec env st obj).2

/-- `Docstring.total`: every entry point returns — for EVERY behaviour of the parser, the
processtypes step, `to_stan`, `to_node`, the summary walk and the toc builder, every state, every
object and every docstring (`extract_fields` under its documented precondition that the object
has a docstring).  No hypothesis on the parameters. -/
theorem total (env : Env) (st : St) (op : Op) (obj : Obj)
    (hx : op = .extract → (st.objs obj).docstring ≠ none) : (step env st op obj).1.isOk = true := by
  cases op <;> simp only [step, Out.isOk]
  · exact doc_total env st obj
  · exact summary_total env st obj
  · exact toc_total env st obj
  · exact extract_total env st obj (hx rfl)

/-- witness environment: an epytext-like parser that succeeds, and a `to_node` that raises ValueError -/
def envCx : Env where
  processtypes := false
  tocDepth := 1
  systemDocformat := .epytext
  moduleDocformat := fun _ => none
  parent := fun _ => none
  inherited := fun _ => []
  parser := fun _ _ _ => .returns (.user 1 []) []
  toStan := fun k => .returns (.opaque k)
  typedToStan := fun k => .returns (.opaque k)
  toNode := fun _ => .raises (.other 0)
  plainToNode := fun _ => .returns
  mkTyped := fun _ _ => .returns []
  walk := fun _ => .nothing
  buildToc := fun _ _ => .empty
  nodeText := fun _ => []
  isAttribute := fun _ => false
  annotation := fun _ => none
  constPd := fun _ => 5
  sigOut := fun _ => none
  bases := fun _ => []
  decorators := fun _ => []

def stCx : St := ⟨fun _ => ⟨some ['x'], none, none, none⟩, [], [], false, []⟩

/-- the situation that used to abort (`to_node` raises ValueError) now yields "no table of contents" -/
example : (formatToc envCx stCx 0).1.isOk = true ∧ (formatDocstring envCx stCx 0).1.isOk = true := by
  refine ⟨by decide, by decide⟩

/-- HISTORICAL counterexample (code before c422501, `formatTocOld`): `get_toc` was called outside
`safe_to_stan` and handles only `NotImplementedError`, so the `ValueError` of `to_node` came out of
`format_toc` while the other entry points on the same object returned.  This is why `total` was
only provable under a `TocSafe` hypothesis before the fix. -/
theorem total_old_counterexample :
    (formatTocOld envCx stCx 0).1.isOk = false ∧ (formatToc envCx stCx 0).1.isOk = true := by
  refine ⟨by decide, by decide⟩

/-! ## C08 theorems: fallback shows the full text, and the object is reported -/

def bodyOf : Res DocOut → Option Stan
  | .ok out => some out.body
  | .raises _ => none


theorem reportErrors_importMsg (st : St) (b : Bool) (o : Obj) (errs : List Err) (sec : Sec) (ph : Phase) :
    reportErrors { st with importMsg := b } o errs sec ph = { reportErrors st o errs sec ph with importMsg := b } := by
  unfold reportErrors
  split
  · rfl
  · split <;> rfl

theorem parseDocstring_snd (env : Env) (st : St) (obj src : Obj) (doc : Text) :
    (parseDocstring env st obj doc src).2.errors =
      (reportErrors st src (parseResult doc (runParser env (getDocformat env src) obj doc)).2 0).errors ∧
    (parseDocstring env st obj doc src).2.reports =
      (reportErrors st src (parseResult doc (runParser env (getDocformat env src) obj doc)).2 0).reports ∧
    (parseDocstring env st obj doc src).2.reported =
      (reportErrors st src (parseResult doc (runParser env (getDocformat env src) obj doc)).2 0).reported := by
  unfold parseDocstring
  simp only []
  split
  · rw [reportErrors_importMsg]; exact ⟨rfl, rfl, rfl⟩
  · exact ⟨rfl, rfl, rfl⟩

/-- `Docstring.fallback_full_text`, parser half: when the parser (or the processtypes step) raises —
a `ParseError` or anything else — the parsed form is the plaintext of the ENTIRE input; and if the
parser stored an error before raising `ParseError` and the object was not reported before, exactly
one report group is opened, all of it against the source object. -/
theorem parse_fallback_full_text (env : Env) (st : St) (obj src : Obj) (doc : Text) (errs : List Err) (e : Exc)
    (h : runParser env (getDocformat env src) obj doc = .raises errs e) :
    (parseDocstring env st obj doc src).1 = .plain doc ∧
    ((e.isParseError = true → errs ≠ []) → (0, src, Phase.parsing) ∉ st.reported →
      (0, src) ∈ (parseDocstring env st obj doc src).2.errors ∧
      ∃ new, new ≠ [] ∧ (parseDocstring env st obj doc src).2.reports = st.reports ++ new ∧
        ∀ r ∈ new, r.obj = src ∧ r.sec = 0) := by
  obtain ⟨he, hr, _⟩ := parseDocstring_snd env st obj src doc
  refine ⟨?_, ?_⟩
  · simp only [parseDocstring, h, parseResult]; split <;> rfl
  · intro hc hn
    rw [he, hr, h]
    have hne : (parseResult doc (ParseOut.raises errs e)).2 ≠ [] := by
      simp only [parseResult]
      split
      · rename_i hp; exact hc hp
      · simp
    obtain ⟨_, _, e2⟩ := reportErrors_fresh st src _ 0 .parsing hne hn
    refine ⟨reportErrors_fresh_mem _ _ _ _ _ hne hn, _, ?_, e2, ?_⟩
    · simpa using hne
    · intro r hr'
      obtain ⟨_, _, rfl⟩ := List.mem_map.mp hr'
      exact ⟨rfl, rfl⟩

example : ∃ env st, runParser env (getDocformat env 0) 0 ['a'] = .raises [⟨.msg 1, some 0, true⟩] (.parseError 1) ∧
    (parseDocstring env st 0 ['a'] 0).1 = .plain ['a'] :=
  ⟨{ envCx with parser := fun _ _ _ => .raises [⟨.msg 1, some 0, true⟩] (.parseError 1) }, stCx, by decide, by decide⟩

/-- the hypothesis "the error is already stored in the errs list" (a comment in `parse_docstring`)
is needed: a parser that raises `ParseError` without storing anything degrades silently -/
theorem unreported_parse_error_counterexample :
    let env := { envCx with parser := fun _ _ _ => .raises [] (.parseError 1) }
    (ensureParsed env stCx 0).2.reports = [] ∧ (ensureParsed env stCx 0).2.errors = [] ∧
    ((ensureParsed env stCx 0).2.objs 0).parsed = some (.plain ['x']) := by
  decide

/-- same at the entry point: the object's `parsed_docstring` becomes the plaintext of its whole docstring -/
theorem ensure_fallback_full_text (env : Env) (st : St) (obj src : Obj) (d : Text) (errs : List Err) (e : Exc)
    (hg : getDocstring st (obj :: env.inherited obj) = .found d src)
    (hp : (st.objs obj).parsed = none)
    (h : runParser env (getDocformat env src) obj d = .raises errs e) :
    (ensureParsed env st obj).1 = some src ∧
    ((ensureParsed env st obj).2.objs obj).parsed = some (.plain d) := by
  simp [ensureParsed, hg, hp, (parse_fallback_full_text env st obj src d errs e h).1]

theorem ensureParsed_docstring (env : Env) (st : St) (obj x : Obj) :
    ((ensureParsed env st obj).2.objs x).docstring = (st.objs x).docstring :=
  (frame_ensureParsed env st obj).docstring x

/-- `Docstring.fallback_full_text`, renderer half: when `to_stan` of the parsed docstring raises,
the body shown is the plaintext of the ENTIRE original docstring of the source object -/
theorem render_fallback_full_text (env : Env) (st : St) (obj src : Obj) (pd : PD) (e : Exc) (d : Text)
    (hsrc : (ensureParsed env st obj).1 = some src)
    (hpd : ((ensureParsed env st obj).2.objs obj).parsed = some pd)
    (hraise : pdToStan env pd = .raises e)
    (hdoc : (st.objs src).docstring = some d) :
    ∃ out, (formatDocstring env st obj).1 = .ok out ∧ out.body = .pre d := by
  have hd := ensureParsed_docstring env st obj src
  rw [hdoc] at hd
  simp [formatDocstring, hsrc, hpd, safeToStan, safeToStanOut, hraise, applyFallback, hd]

example : ∃ env st, (ensureParsed env st 0).1 = some 0 ∧ pdToStan env (.user 1 []) = .raises (.other 3) ∧
    (formatDocstring env st 0).1.isOk = true :=
  ⟨{ envCx with toStan := fun _ => .raises (.other 3) }, stCx, by decide, by decide, by decide⟩

theorem formatFields_reports_prefix (env : Env) (obj src : Obj) (fs : List Field) (st : St) :
    (∀ p ∈ st.errors, p ∈ (formatFields env st obj src fs).2.errors) ∧
    ∀ r ∈ st.reports, r ∈ (formatFields env st obj src fs).2.reports := by
  have hf := frame_formatFields env obj src fs st
  refine ⟨hf.errors_mono, ?_⟩
  obtain ⟨new, e, _⟩ := hf.reports
  intro r hr; rw [e]; exact List.mem_append_left _ hr

/-- `Docstring.fallback_full_text` (both halves in one statement): whichever way a parser gives up,
the parsed form is the plaintext of the whole input; whenever the renderer gives up, the body
shown is the whole original docstring of the source object -/
theorem fallback_full_text (env : Env) (st : St) (obj src : Obj) :
    (∀ d errs e, getDocstring st (obj :: env.inherited obj) = .found d src → (st.objs obj).parsed = none →
      runParser env (getDocformat env src) obj d = .raises errs e →
      ((ensureParsed env st obj).2.objs obj).parsed = some (.plain d)) ∧
    (∀ pd e d, (ensureParsed env st obj).1 = some src →
      ((ensureParsed env st obj).2.objs obj).parsed = some pd → pdToStan env pd = .raises e →
      (st.objs src).docstring = some d → bodyOf (formatDocstring env st obj).1 = some (.pre d)) := by
  refine ⟨fun d errs e hg hp h => (ensure_fallback_full_text env st obj src d errs e hg hp h).2, ?_⟩
  intro pd e d h1 h2 h3 h4
  obtain ⟨out, ho, hb⟩ := render_fallback_full_text env st obj src pd e d h1 h2 h3 h4
  simp [ho, bodyOf, hb]

theorem getDocstring_found (st : St) (d : Text) (src : Obj) :
    ∀ l, getDocstring st l = .found d src → (st.objs src).docstring = some d ∧ src ∈ l
  | [], h => by simp [getDocstring] at h
  | s :: rest, h => by
    unfold getDocstring at h
    split at h
    · rename_i d' hd
      split at h
      · simp only [DocLookup.found.injEq] at h
        obtain ⟨rfl, rfl⟩ := h
        exact ⟨hd, by simp⟩
      · simp at h
    · obtain ⟨a, b⟩ := getDocstring_found st d src rest h
      exact ⟨a, by simp [b]⟩

/-- `Docstring.fallback_uses_source_text`: an object that INHERITS its docstring (`get_docstring`
finds the text `d` on `src`, possibly another object in another module) and whose rendering fails
shows the entire text `d` of `src` — `format_docstring` hands `source`, not `obj`, to
`safe_to_stan` — and whatever this call reports is reported against `src`. -/
theorem fallback_uses_source_text (env : Env) (st : St) (obj src : Obj) (d : Text) (pd : PD) (e : Exc)
    (hg : getDocstring st (obj :: env.inherited obj) = .found d src)
    (hpd : ((ensureParsed env st obj).2.objs obj).parsed = some pd)
    (hraise : pdToStan env pd = .raises e) :
    bodyOf (formatDocstring env st obj).1 = some (.pre d) ∧
    ∃ new, (formatDocstring env st obj).2.reports = st.reports ++ new ∧ ∀ r ∈ new, r.obj = src := by
  have hsrc : (ensureParsed env st obj).1 = some src := by
    cases hp : (st.objs obj).parsed <;> simp [ensureParsed, hg, hp]
  have hso : sourceOf env st obj = src := by simp [sourceOf, hg]
  refine ⟨?_, ?_⟩
  · obtain ⟨out, ho, hb⟩ := render_fallback_full_text env st obj src pd e d hsrc hpd hraise
      (getDocstring_found st d src _ hg).1
    simp [ho, bodyOf, hb]
  · obtain ⟨new, hn, hp⟩ := (doc_spec env st obj).1.reports
    exact ⟨new, hn, fun r hr => by rw [← hso]; exact (hp r hr).1⟩

/-- the inherited case concretely: object 1 has no docstring and inherits object 0's; `to_stan` fails;
the body of object 1 is object 0's text and the report names object 0 -/
example :
    bodyOf (formatDocstring { envCx with inherited := fun o => if o = 1 then [0] else [],
                                         toStan := fun _ => .raises (.other 3) }
              ⟨fun o => if o = 0 then ⟨some ['x', 'y'], none, none, none⟩ else ⟨none, none, none, none⟩, [], [], false, []⟩ 1).1
      = some (.pre ['x', 'y']) := by decide

/-- … and that failure is reported against the source object (4690c0c: also when parsing the same
docstring already produced a warning), provided no RENDERING failure of the object was reported before
(`reportErrors` files at most one group per object, section and phase) -/
theorem render_failure_reported (env : Env) (st : St) (obj src : Obj) (pd : PD) (e : Exc)
    (hsrc : (ensureParsed env st obj).1 = some src)
    (hpd : ((ensureParsed env st obj).2.objs obj).parsed = some pd)
    (hraise : pdToStan env pd = .raises e)
    (hn : (0, src, Phase.rendering) ∉ (ensureParsed env st obj).2.reported) :
    (0, src) ∈ (formatDocstring env st obj).2.errors ∧
    ⟨src, 0, .exc e, 0⟩ ∈ (formatDocstring env st obj).2.reports := by
  simp only [formatDocstring, hsrc, hpd, safeToStan, safeToStanOut, hraise]
  have hfb : ∀ st0 : St, (applyFallback st0 .docstring src).2 = st0 := by
    intro st0; unfold applyFallback; simp only []; split <;> rfl
  rw [hfb]
  obtain ⟨_, _, e2⟩ := reportErrors_fresh _ src [toStanError e] 0 .rendering (by simp) hn
  obtain ⟨m1, m2⟩ := formatFields_reports_prefix env obj src (pdFields pd)
    (reportErrors (ensureParsed env st obj).2 src [toStanError e] 0 .rendering)
  refine ⟨m1 _ (reportErrors_fresh_mem _ _ _ _ _ (by simp) hn), m2 _ ?_⟩
  rw [e2]; simp [toStanError, Err.offset, Err.linenum]

/-- the parser recovers with one warning, then `to_stan` raises -/
def envMasked : Env :=
  { envCx with parser := fun _ _ _ => .returns (.user 1 []) [⟨.msg 7, some 2, false⟩],
               toStan := fun _ => .raises (.other 3) }

/-- since 4690c0c the renderer failure is logged after the parser's warning, and the whole text is shown -/
theorem render_failure_after_warning_reported :
    (formatDocstring envMasked stCx 0).2.reports = [⟨0, 0, .msg 7, 2⟩, ⟨0, 0, .exc (.other 3), 0⟩] ∧
    bodyOf (formatDocstring envMasked stCx 0).1 = some (.pre ['x']) ∧
    (formatDocstring envMasked stCx 0).2.errors = [(0, 0)] := by
  decide

/-- HISTORICAL (before 4690c0c, `reportErrorsOld`): one report group per (section, object) — after the
parser's warning had been reported, the renderer's failure on the same object found the object
already in `parse_errors` and was dropped from the log; the phase-keyed `reportErrors` keeps it -/
theorem render_failure_masked_old_counterexample :
    let warn : Err := ⟨.msg 7, some 2, false⟩
    (reportErrorsOld (reportErrorsOld stCx 0 [warn] 0) 0 [toStanError (.other 3)] 0).reports = [⟨0, 0, .msg 7, 2⟩] ∧
    (reportErrors (reportErrors stCx 0 [warn] 0 .parsing) 0 [toStanError (.other 3)] 0 .rendering).reports
      = [⟨0, 0, .msg 7, 2⟩, ⟨0, 0, .exc (.other 3), 0⟩] := by
  decide

def fieldsOf : Res DocOut → List Stan
  | .ok out => out.fields
  | .raises _ => []

/-- since 46bdc37: the body of the docstring renders, the body of its one field does not — the field shows the
text of its node tree as plain text, and the failure is reported -/
theorem field_failure_shows_text :
    let env := { envCx with parser := fun _ _ _ => .returns (.user 1 [⟨.plain, none, .user 7, 3⟩]) [],
                            toNode := fun _ => .returns, nodeText := fun _ => ['s', 'e', 'p'],
                            toStan := fun k => if k = 7 then .raises (.other 3) else .returns (.opaque k) }
    bodyOf (formatDocstring env stCx 0).1 = some (.opaque 1) ∧
    fieldsOf (formatDocstring env stCx 0).1 = [.pre ['s', 'e', 'p']] ∧
    (formatDocstring env stCx 0).2.reports = [⟨0, 0, .exc (.other 3), 0⟩] := by
  decide

/-- in general: a field whose `to_stan` raises shows the text of its node tree whenever it has one with a
visible character — never the BROKEN placeholder then — and the failure is recorded against the source -/
theorem field_fallback_shows_text (env : Env) (st : St) (k : Nat) (src : Obj) (e : Exc)
    (hs : env.toStan k = .raises e) (hn : env.toNode k = .returns)
    (hv : (env.nodeText k).any (fun c => !pyIsSpace c) = true) :
    (fieldToStan env st (.user k) src).1 = .pre (env.nodeText k) ∧
    (0, src, Phase.rendering) ∈ (fieldToStan env st (.user k) src).2.reported := by
  simp only [fieldToStan, bodyToStan, hs, fieldFallback, bodyToNode, hn, hv, if_true]
  exact ⟨trivial, reportErrors_key _ _ _ _ _ (by simp)⟩

/-- HISTORICAL witness (before 46bdc37, `fieldToStanOld`) for the finding `field:render-failure-text-lost`: the
field was shown as the BROKEN placeholder, its text nowhere -/
theorem field_failure_text_lost_old_counterexample :
    let env := { envCx with toNode := fun _ => .returns, nodeText := fun _ => ['s', 'e', 'p'],
                            toStan := fun _ => .raises (.other 3) }
    (fieldToStanOld env stCx (.user 7) 0).1 = .broken ∧ (fieldToStan env stCx (.user 7) 0).1 = .pre ['s', 'e', 'p'] := by
  decide

/-! ### the reST role registry is restored after every parse (2732bb2) — abstract, tied by the oracle only -/

theorem registry_restored {R α : Type} (reg : R) (parse : R → α × R) : (parseRestoring reg parse).2 = reg := rfl

/-- whatever docstring A does to docutils' registry — also when its parse fails half-way — docstring B is read
exactly as if it had been parsed alone -/
theorem parse_independent_of_previous {R α β : Type} (reg : R) (pA : R → α × R) (pB : R → β × R) :
    (parseRestoring (parseRestoring reg pA).2 pB).1 = (parseRestoring reg pB).1 := rfl

/-- HISTORICAL (before 2732bb2, `parseLeaking`): a parse that leaves `default-role = literal` behind (registry 1)
makes the next docstring read `name` as a literal (outcome 1) instead of a cross-reference (outcome 0) -/
theorem registry_leak_old_counterexample :
    let pA : Nat → Unit × Nat := fun _ => ((), 1)
    let pB : Nat → Nat × Nat := fun r => (r, r)
    (parseLeaking (parseLeaking 0 pA).2 pB).1 = 1 ∧ (parseLeaking 0 pB).1 = 0 ∧
    (parseRestoring (parseRestoring 0 pA).2 pB).1 = 0 := by
  decide

/-- the summary of a plain-text docstring whose `to_stan` raises (an XML-invalid character) -/
def envSummaryFails : Env :=
  { envCx with parser := fun _ _ d => .returns (.plain d) [], plainToNode := fun _ => .returns,
               walk := fun _ => .summary 2, toStan := fun _ => .raises (.other 3) }

def sumOf : Res Stan → Option Stan
  | .ok s => some s
  | .raises _ => none

/-- witness for the open finding `summary:render-failure-unreported`: the body renders, the summary
shows the BROKEN placeholder, and NOTHING is reported (`format_summary` passes `report=False`) -/
theorem summary_failure_unreported_counterexample :
    sumOf (formatSummary envSummaryFails stCx 0).1 = some .broken ∧
    (formatSummary envSummaryFails stCx 0).2.reports = [] ∧
    bodyOf (formatDocstring envSummaryFails (formatSummary envSummaryFails stCx 0).2 0).1 = some (.pre ['x']) ∧
    (formatDocstring envSummaryFails (formatSummary envSummaryFails stCx 0).2 0).2.reports = [] := by
  decide

/-- witness for the open finding `property:return-only-docstring:fallback-text-lost`, as far as the
wrappers are concerned: an object whose `docstring` has been blanked to `''` while its
`parsed_docstring` was set by hand (what `_handlePropertyDef` does for a `@return:`-only docstring)
falls back to the EMPTY text when rendering fails — `format_docstring_fallback` can only show
`ctx.docstring`.  The failure itself is reported. -/
theorem blanked_docstring_fallback_counterexample :
    let st : St := ⟨fun _ => ⟨some [], some (.user 1 []), none, none⟩, [], [], false, []⟩
    let env := { envCx with toStan := fun _ => .raises (.other 3) }
    bodyOf (formatDocstring env st 0).1 = some (.pre []) ∧
    (formatDocstring env st 0).2.reports = [⟨0, 0, .exc (.other 3), 0⟩] := by
  decide

/-- markup problems the parser recovers from (it returns, having stored errors) are all reported
against the source object -/
theorem recovered_errors_reported (env : Env) (st : St) (obj src : Obj) (doc : Text) (pd : PD) (errs : List Err)
    (h : runParser env (getDocformat env src) obj doc = .returns pd errs)
    (he : errs ≠ []) (hn : (0, src, Phase.parsing) ∉ st.reported) :
    (parseDocstring env st obj doc src).1 = pd ∧
    (0, src) ∈ (parseDocstring env st obj doc src).2.errors ∧
    (parseDocstring env st obj doc src).2.reports =
      st.reports ++ errs.map fun e => ⟨src, 0, e.descr, e.offset⟩ := by
  obtain ⟨h1, h2, _⟩ := parseDocstring_snd env st obj src doc
  rw [h1, h2, h]
  obtain ⟨_, _, e2⟩ := reportErrors_fresh st src errs 0 .parsing he hn
  exact ⟨by simp [parseDocstring, h, parseResult], reportErrors_fresh_mem _ _ _ _ _ he hn, e2⟩

example : ∃ env, ∃ st : St, runParser env (getDocformat env 0) 0 ['a'] = .returns (.user 1 []) [⟨.msg 7, some 2, false⟩] ∧
    (0, 0, Phase.parsing) ∉ st.reported :=
  ⟨envMasked, stCx, by decide, by decide⟩

/-! ## C08 theorems: reported once; no other object is affected -/

/-- `Docstring.reported_once`: an object whose parsing AND rendering problems have been reported in a
section is never reported again there, whatever is called on whatever object afterwards; what has been
recorded (`parse_errors`, `reported_errors`) only grows -/
theorem reported_once (env : Env) (st : St) (op : Op) (obj : Obj) (sec : Sec) (o : Obj)
    (h : ∀ ph, (sec, o, ph) ∈ st.reported) :
    reportsOf (step env st op obj).2 sec o = reportsOf st sec o ∧
    (∀ p ∈ st.errors, p ∈ (step env st op obj).2.errors) ∧
    (∀ k ∈ st.reported, k ∈ (step env st op obj).2.reported) := by
  have hf := frame_step env st op obj
  refine ⟨?_, hf.errors_mono, hf.reported_mono⟩
  obtain ⟨new, e, p⟩ := hf.reports
  unfold reportsOf
  rw [e, List.filter_append]
  have : new.filter (fun r => decide (r.sec = sec ∧ r.obj = o)) = [] := by
    rw [List.filter_eq_nil_iff]
    intro r hr hc
    obtain ⟨h1, h2, _, ph, h3, _⟩ := p r hr
    simp only [decide_eq_true_eq] at hc
    rw [h1, h2] at hc
    exact h3 (by rw [hc.1, hc.2]; exact h ph)
  rw [this, List.append_nil]

/-- each phase on its own: once `(sec, o, ph)` is recorded, no later call files a report under that key
(each new report group is opened under a key that was not recorded before) -/
theorem reported_once_phase (env : Env) (st : St) (op : Op) (obj : Obj) :
    ∃ new, (step env st op obj).2.reports = st.reports ++ new ∧
      ∀ r ∈ new, ∃ ph, (r.sec, r.obj, ph) ∉ st.reported ∧ (r.sec, r.obj, ph) ∈ (step env st op obj).2.reported := by
  obtain ⟨new, e, p⟩ := (frame_step env st op obj).reports
  refine ⟨new, e, fun r hr => ?_⟩
  obtain ⟨h1, h2, _, ph, h3, h4⟩ := p r hr
  exact ⟨ph, by rw [h1, h2]; exact h3, by rw [h1, h2]; exact h4⟩

/-- `Docstring.isolation`: one call on `obj` (whose docstring comes from `src`) changes nothing about
any other object `B`: not its docstring, parsed form, summary or parsed type, not its reports, not
whether it counts as reported.  "Other" = not `obj` (`touchedOf`; for `extract_fields` also not one of
the attributes named by the variable fields of `obj`'s docstring, whose documentation it IS) and not
the source.  (For `B = src ≠ obj` see `isolation_source`.) -/
theorem isolation (env : Env) (st : St) (op : Op) (obj B : Obj)
    (hB : ¬ touchedOf env st op obj B) (hS : B ≠ srcOfOp env st op obj) :
    (step env st op obj).2.objs B = st.objs B ∧
    (∀ sec, reportsOf (step env st op obj).2 sec B = reportsOf st sec B) ∧
    (∀ sec, (sec, B) ∈ (step env st op obj).2.errors ↔ (sec, B) ∈ st.errors) := by
  have hf := frame_step env st op obj
  refine ⟨?_, ?_, ?_⟩
  · have h1 := hf.docstring B
    have h2 := hf.parsed B hB
    have h3 := hf.summary B hB
    have h4 := hf.ptype B hB
    cases hx : (step env st op obj).2.objs B
    cases hy : st.objs B
    simp_all
  · intro sec
    obtain ⟨new, e, p⟩ := hf.reports
    unfold reportsOf
    rw [e, List.filter_append]
    have : new.filter (fun r => decide (r.sec = sec ∧ r.obj = B)) = [] := by
      rw [List.filter_eq_nil_iff]
      intro r hr hc
      obtain ⟨h1, _, _, _⟩ := p r hr
      simp only [decide_eq_true_eq] at hc
      exact hS (hc.2.symm.trans h1)
    rw [this, List.append_nil]
  · intro sec
    refine ⟨fun h => ?_, hf.errors_mono _⟩
    rcases hf.errors_new _ h with h' | h'
    · exact h'
    · exact absurd (by simpa using (congrArg Prod.snd h')) hS

/-- for every entry point but `extract_fields`, "touched" is just `obj` -/
theorem touchedOf_ne (env : Env) (st : St) (op : Op) (obj B : Obj) (hop : op ≠ .extract) (hB : B ≠ obj) :
    ¬ touchedOf env st op obj B := by
  simp [touchedOf, hop, Only, hB]

/-- the object the docstring was inherited from keeps its docstring and parsed form; it receives the
reports (it is its docstring); since c070c47 nothing cached on it is overwritten -/
theorem isolation_source (env : Env) (st : St) (op : Op) (obj B : Obj) (hB : ¬ touchedOf env st op obj B) :
    ((step env st op obj).2.objs B).docstring = (st.objs B).docstring ∧
    ((step env st op obj).2.objs B).parsed = (st.objs B).parsed ∧
    ((step env st op obj).2.objs B).parsedSummary = (st.objs B).parsedSummary ∧
    ((step env st op obj).2.objs B).ptype = (st.objs B).ptype :=
  ⟨(frame_step env st op obj).docstring B, (frame_step env st op obj).parsed B hB,
   (frame_step env st op obj).summary B hB, (frame_step env st op obj).ptype B hB⟩

/-- since c070c47: whatever happens while the summary of `obj` is produced — its renderer may fail —
the cached summary (and everything else cached) of EVERY other object is left as it was, the object the
docstring was inherited from or is a field of included -/
theorem summary_failure_stays_local (env : Env) (st : St) (obj B : Obj) (hB : B ≠ obj) :
    (formatSummary env st obj).2.objs B = st.objs B := by
  have hf := (summary_spec env st obj).1
  have hn : ¬ Only obj B := hB
  have h1 := hf.docstring B
  have h2 := hf.parsed B hn
  have h3 := hf.summary B hn
  have h4 := hf.ptype B hn
  cases hx : (formatSummary env st obj).2.objs B
  cases hy : st.objs B
  simp_all

/-- object 1 inherits object 0's docstring; the summary's `to_stan` raises -/
def envInherit : Env :=
  { envCx with inherited := fun o => if o = 1 then [0] else [],
               toNode := fun _ => .returns,
               walk := fun _ => .summary 2,
               toStan := fun k => if k = 2 then .raises (.other 3) else .returns (.opaque k) }

def stInherit : St := ⟨fun o => if o = 0 then ⟨some ['x'], none, none, none⟩ else ⟨none, none, none, none⟩, [], [], false, []⟩

/-- HISTORICAL (before c070c47, `formatSummaryOld`): a failing summary of an INHERITED docstring marked the
summary of the object it was inherited from as broken (`format_summary_fallback` wrote to `ctx`, the
source), while the inheriting object kept its own cached summary; now the inheriting object is marked
and the source is left alone -/
theorem summary_fallback_touches_source :
    ((formatSummaryOld envInherit stInherit 1).2.objs 0).parsedSummary = some (.stanOnly .broken) ∧
    ((formatSummaryOld envInherit stInherit 1).2.objs 1).parsedSummary = some (.user 2 []) ∧
    ((formatSummary envInherit stInherit 1).2.objs 0).parsedSummary = none ∧
    ((formatSummary envInherit stInherit 1).2.objs 1).parsedSummary = some (.stanOnly .broken) := by
  decide

/-- object 1 is a variable documented by an `@ivar` field of class 0's docstring (split field: no docstring of
its own, `parsed_docstring` preset, parent 0); its summary's `to_stan` raises -/
def envSplit : Env :=
  { envCx with parent := fun o => if o = 1 then some 0 else none,
               parser := fun _ _ d => .returns (.plain d) [], plainToNode := fun _ => .returns,
               toNode := fun _ => .returns,
               walk := fun pd => match pd with | .user 5 _ => .summary 6 | _ => .summary 2,
               toStan := fun k => if k = 6 then .raises (.other 3) else .returns (.opaque k) }

def stSplit : St :=
  ⟨fun o => if o = 0 then ⟨some ['x'], none, none, none⟩ else ⟨none, some (.user 5 []), none, none⟩, [], [], false, []⟩

/-- HISTORICAL witness (before c070c47, `formatSummaryOld`) for the finding `summary:fallback-overwrites-source-summary`,
next to what the code does now: the class's summary renders (`o2`); then the summary of the variable it
documents by a field fails.  Old: the CLASS's cached summary was overwritten with BROKEN, the class showed
'Broken description' too.  Now: the class keeps `o2`. -/
theorem summary_fallback_overwrites_class_summary :
    let s1 := (formatSummary envSplit stSplit 0).2
    let o2 := (formatSummaryOld envSplit s1 1).2
    let n2 := (formatSummary envSplit s1 1).2
    sumOf (formatSummary envSplit stSplit 0).1 = some (.opaque 2) ∧
    sumOf (formatSummaryOld envSplit s1 1).1 = some .broken ∧
    sumOf (formatSummaryOld envSplit o2 0).1 = some .broken ∧
    sumOf (formatSummary envSplit s1 1).1 = some .broken ∧
    sumOf (formatSummary envSplit n2 0).1 = some (.opaque 2) := by
  decide

/-! ### a second call on the same object reports nothing new -/

theorem getDocstring_congr (st st2 : St) (h : ∀ x, (st2.objs x).docstring = (st.objs x).docstring) :
    ∀ l, getDocstring st2 l = getDocstring st l
  | [] => rfl
  | s :: rest => by simp only [getDocstring, h s, getDocstring_congr st st2 h rest]

/-- `ensure_parsed_docstring` caches: in any later state with the same docstrings and the same
`parsed_docstring` for `obj`, it returns the same source and does nothing -/
theorem ensureParsed_stable (env : Env) (st st2 : St) (obj : Obj)
    (hd : ∀ x, (st2.objs x).docstring = (st.objs x).docstring)
    (hp : (st2.objs obj).parsed = ((ensureParsed env st obj).2.objs obj).parsed) :
    ensureParsed env st2 obj = ((ensureParsed env st obj).1, st2) := by
  have hg := getDocstring_congr st st2 hd (obj :: env.inherited obj)
  revert hp
  cases hgd : getDocstring st (obj :: env.inherited obj) <;> cases hpp : (st.objs obj).parsed <;>
    simp only [ensureParsed, hg, hgd, hpp] <;> intro hp <;> simp_all

/-- two states with the same log (reported objects, report list, reported keys) -/
def RE (a b : St) : Prop := a.errors = b.errors ∧ a.reports = b.reports ∧ a.reported = b.reported

theorem RE.rfl' (a : St) : RE a a := ⟨rfl, rfl, rfl⟩
theorem RE.trans' {a b c : St} (h1 : RE a b) (h2 : RE b c) : RE a c :=
  ⟨h1.1.trans h2.1, h1.2.1.trans h2.2.1, h1.2.2.trans h2.2.2⟩

theorem reportErrors_congr (a b : St) (o : Obj) (errs : List Err) (sec : Sec) (ph : Phase) (h : RE a b) :
    RE (reportErrors a o errs sec ph) (reportErrors b o errs sec ph) := by
  obtain ⟨he, hr, hk⟩ := h
  unfold reportErrors RE
  rw [hk]
  split
  · exact ⟨he, hr, hk⟩
  · split
    · exact ⟨he, hr, hk⟩
    · simp [he, hr]

/-- a state transformer that files reports only under the key `(0, src, ph)` through `reportErrors`,
never touches docstrings or parsed docstrings, and whose effect on the log depends on the log only -/
structure Rep (src : Obj) (ph : Phase) (f : St → St) : Prop where
  fresh : ∀ st, RE (f st) st ∨ (0, src, ph) ∈ (f st).reported
  noop : ∀ st, (0, src, ph) ∈ st.reported → RE (f st) st
  congr : ∀ a b, RE a b → RE (f a) (f b)
  keeps : ∀ st x, ((f st).objs x).docstring = (st.objs x).docstring ∧ ((f st).objs x).parsed = (st.objs x).parsed

theorem Rep.idem {src : Obj} {ph : Phase} {f : St → St} (h : Rep src ph f) (st : St) : RE (f (f st)) (f st) := by
  rcases h.fresh st with h1 | h1
  · exact h.congr _ _ h1
  · exact h.noop _ h1

theorem Rep.comp {src : Obj} {ph : Phase} {f g : St → St} (hf : Rep src ph f) (hg : Rep src ph g) :
    Rep src ph (fun st => g (f st)) := by
  refine ⟨fun st => ?_, fun st h => ?_, fun a b h => hg.congr _ _ (hf.congr _ _ h), fun st x => ?_⟩
  · rcases hf.fresh st with h1 | h1
    · have h2 := hg.congr _ _ h1
      rcases hg.fresh st with h3 | h3
      · exact .inl (h2.trans' h3)
      · right; show (0, src, ph) ∈ (g (f st)).reported; rw [h2.2.2]; exact h3
    · right; show (0, src, ph) ∈ (g (f st)).reported; rw [(hg.noop _ h1).2.2]; exact h1
  · have h1 := hf.noop _ h
    have h2 : (0, src, ph) ∈ (f st).reported := by rw [h1.2.2]; exact h
    exact (hg.noop _ h2).trans' h1
  · exact ⟨((hg.keeps _ x).1).trans ((hf.keeps _ x).1), ((hg.keeps _ x).2).trans ((hf.keeps _ x).2)⟩

theorem rep_id (src : Obj) (ph : Phase) : Rep src ph (fun st => st) :=
  ⟨fun st => .inl (RE.rfl' _), fun st _ => RE.rfl' _, fun _ _ h => h, fun _ _ => ⟨rfl, rfl⟩⟩

theorem rep_reportErrors (src : Obj) (errs : List Err) (ph : Phase) :
    Rep src ph (fun st => reportErrors st src errs 0 ph) := by
  refine ⟨fun st => ?_, fun st h => by rw [reportErrors_noop _ _ _ _ _ h]; exact RE.rfl' _,
          fun a b h => reportErrors_congr a b src errs 0 ph h, fun st x => by simp⟩
  by_cases he : errs = []
  · left; rw [he, reportErrors_nil]; exact RE.rfl' _
  · right; exact reportErrors_key _ _ _ _ _ he

theorem rep_setPType (src o : Obj) (ph : Phase) (b : Body) : Rep src ph (fun st => setPType st o b) :=
  ⟨fun st => .inl ⟨rfl, rfl, rfl⟩, fun st _ => ⟨rfl, rfl, rfl⟩, fun _ _ h => h, fun st x => by simp⟩

theorem rep_safeToStanOut (src : Obj) (out : StanOut) (fb : Fallback) (hfb : fb ≠ .summary) :
    Rep src .rendering (fun st => (safeToStanOut st out src fb true 0).2) := by
  have hfb' : ∀ st0 : St, (applyFallback st0 fb src).2 = st0 := by
    intro st0; unfold applyFallback
    cases fb with
    | docstring => simp only []; split <;> rfl
    | broken => rfl
    | summary => exact absurd rfl hfb
  cases out with
  | returns s => exact rep_id src _
  | raises e =>
    simp only [safeToStanOut, hfb', if_true]
    exact rep_reportErrors src _ _

theorem rep_formatFields (env : Env) (obj src : Obj) :
    ∀ fs : List Field, Rep src .rendering (fun st => (formatFields env st obj src fs).2)
  | [] => rep_id src _
  | f :: fs => by
    have ih := rep_formatFields env obj src fs
    have hfield : Rep src .rendering (fun st => (fieldToStan env st f.body src).2) := by
      cases hb : bodyToStan env f.body with
      | returns s => simpa [fieldToStan, hb] using rep_id src .rendering
      | raises e => simpa [fieldToStan, hb] using rep_reportErrors src [toStanError e] .rendering
    have hfmt := Rep.comp hfield ih
    have hset := Rep.comp (rep_setPType src obj .rendering f.body) ih
    cases ht : f.tag
    · simpa [formatFields, ht] using hfmt
    · simpa [formatFields, ht] using hfmt
    · by_cases ha : env.isAttribute obj = true
      · simpa [formatFields, ht, ha] using hset
      · by_cases hg : f.arg.isSome = true
        · simpa [formatFields, ht, ha, hg] using hfmt
        · simpa [formatFields, ht, ha, hg] using ih
    · simpa [formatFields, ht] using ih

theorem safeToStanOut_noreport (st : St) (out : StanOut) (ctx : Obj) (fb : Fallback) (sec : Sec) :
    (safeToStanOut st out ctx fb false sec).2.reports = st.reports ∧
    (safeToStanOut st out ctx fb false sec).2.errors = st.errors ∧
    (∀ x, ((safeToStanOut st out ctx fb false sec).2.objs x).docstring = (st.objs x).docstring) ∧
    (∀ x, ((safeToStanOut st out ctx fb false sec).2.objs x).parsed = (st.objs x).parsed) := by
  cases out with
  | returns s => exact ⟨rfl, rfl, fun _ => rfl, fun _ => rfl⟩
  | raises e =>
    cases fb with
    | docstring =>
      simp only [safeToStanOut, applyFallback]
      cases (st.objs ctx).docstring <;> exact ⟨rfl, rfl, fun _ => rfl, fun _ => rfl⟩
    | broken => exact ⟨rfl, rfl, fun _ => rfl, fun _ => rfl⟩
    | summary =>
      simp only [safeToStanOut, applyFallback]
      exact ⟨rfl, rfl, fun _ => by simp, fun _ => by simp⟩

/-- body-then-fields part of `format_docstring` as a state transformer -/
def docTail (env : Env) (pd : PD) (obj src : Obj) (st : St) : St :=
  (formatFields env (safeToStanOut st (pdToStan env pd) src .docstring true 0).2 obj src (pdFields pd)).2

theorem rep_docTail (env : Env) (pd : PD) (obj src : Obj) : Rep src .rendering (docTail env pd obj src) := by
  have h := Rep.comp (rep_safeToStanOut src (pdToStan env pd) .docstring (by decide))
    (rep_formatFields env obj src (pdFields pd))
  exact h

theorem formatDocstring_of (env : Env) (st st1 : St) (obj src : Obj) (pd : PD)
    (h : ensureParsed env st obj = (some src, st1)) (hpd : (st1.objs obj).parsed = some pd) :
    (formatDocstring env st obj).2 = docTail env pd obj src st1 := by
  simp only [formatDocstring, h, hpd, docTail, safeToStan]

/-- a second `format_docstring` on the same object leaves the log as the first one left it -/
theorem doc_second_call (env : Env) (st : St) (obj : Obj) :
    RE (formatDocstring env (formatDocstring env st obj).2 obj).2 (formatDocstring env st obj).2 := by
  have hd := (doc_spec env st obj).1.docstring
  cases hsrc : (ensureParsed env st obj).1 with
  | none =>
    have h1 : (formatDocstring env st obj).2 = (ensureParsed env st obj).2 := by
      simp only [formatDocstring, hsrc]
    have h2 := ensureParsed_stable env st (ensureParsed env st obj).2 obj
      (fun x => ensureParsed_docstring env st obj x) rfl
    rw [h1]
    simp only [formatDocstring, h2, hsrc]
    exact RE.rfl' _
  | some src =>
    obtain ⟨hp, _⟩ := ensureParsed_some env st obj src hsrc
    cases hpd : ((ensureParsed env st obj).2.objs obj).parsed with
    | none => simp [hpd] at hp
    | some pd =>
      have h1 := formatDocstring_of env st (ensureParsed env st obj).2 obj src pd (by rw [← hsrc]) hpd
      have hk := (rep_docTail env pd obj src).keeps (ensureParsed env st obj).2
      have h2 := ensureParsed_stable env st (formatDocstring env st obj).2 obj hd (by rw [h1, (hk obj).2])
      rw [hsrc] at h2
      have h3 := formatDocstring_of env (formatDocstring env st obj).2 (formatDocstring env st obj).2 obj src pd h2
        (by rw [h1, (hk obj).2]; exact hpd)
      rw [h3, h1]
      exact (rep_docTail env pd obj src).idem _

theorem getParsedSummary_state (env : Env) (st : St) (obj : Obj) :
    (getParsedSummary env st obj).2 = (ensureParsed env st obj).2 ∨
    ∃ s, (getParsedSummary env st obj).2 = setSummary (ensureParsed env st obj).2 obj s := by
  simp only [getParsedSummary]
  split
  · exact .inl rfl
  · split
    · exact .inr ⟨_, rfl⟩
    · split
      · exact .inl rfl
      · split
        · exact .inl rfl
        · exact .inr ⟨_, rfl⟩

/-- `format_summary` / `format_toc` never report by themselves (`report=False`): whatever is
reported during such a call comes from the parse inside `ensure_parsed_docstring` -/
theorem formatSummary_tail (env : Env) (st : St) (obj : Obj) :
    (formatSummary env st obj).2.reports = (ensureParsed env st obj).2.reports ∧
    (formatSummary env st obj).2.errors = (ensureParsed env st obj).2.errors ∧
    (∀ x, ((formatSummary env st obj).2.objs x).parsed = ((ensureParsed env st obj).2.objs x).parsed) := by
  have hs := getParsedSummary_state env st obj
  unfold formatSummary
  split
  · rename_i e st' heq
    rw [heq] at hs
    rcases hs with h | ⟨s, h⟩ <;> simp only [] at h <;> subst h <;> simp
  · rename_i source pd st' heq
    rw [heq] at hs
    rcases hs with h | ⟨s, h⟩ <;> simp only [] at h <;> subst h <;> (split <;> simp)

theorem formatToc_tail (env : Env) (st : St) (obj : Obj) :
    (formatToc env st obj).2.reports = (ensureParsed env st obj).2.reports ∧
    (formatToc env st obj).2.errors = (ensureParsed env st obj).2.errors ∧
    (∀ x, ((formatToc env st obj).2.objs x).parsed = ((ensureParsed env st obj).2.objs x).parsed) := by
  simp only [formatToc]
  split
  · exact ⟨rfl, rfl, fun _ => rfl⟩
  · split
    · split
      · exact ⟨rfl, rfl, fun _ => rfl⟩
      · exact ⟨rfl, rfl, fun _ => rfl⟩
      · rename_i toc _
        split
        · exact ⟨rfl, rfl, fun _ => rfl⟩
        · obtain ⟨a, b, _, d⟩ := safeToStanOut_noreport (ensureParsed env st obj).2 (pdToStan env toc) obj .broken 0
          exact ⟨a, b, d⟩
    · exact ⟨rfl, rfl, fun _ => rfl⟩

theorem splitFields_log : ∀ (fs : List Field) (st : St),
    RE (splitFields st fs) st ∧ ∀ x, ((splitFields st fs).objs x).docstring = (st.objs x).docstring
  | [], st => ⟨RE.rfl' _, fun _ => rfl⟩
  | f :: fs, st => by
    cases ht : f.tag <;> cases ha : f.arg <;> simp only [splitFields, ht, ha]
    all_goals first
      | exact splitFields_log fs st
      | (obtain ⟨a, c⟩ := splitFields_log fs (setPType st _ f.body); exact ⟨a, fun x => by rw [c]; simp⟩)
      | (obtain ⟨a, c⟩ := splitFields_log fs (setParsed st _ (bodyPd f.body)); exact ⟨a, fun x => by rw [c]; simp⟩)

theorem parseDocstring_RE (env : Env) (st : St) (obj src : Obj) (doc : Text) :
    RE (parseDocstring env st obj doc src).2
       (reportErrors st src (parseResult doc (runParser env (getDocformat env src) obj doc)).2 0 .parsing) := by
  obtain ⟨a, b, c⟩ := parseDocstring_snd env st obj src doc
  exact ⟨a, b, c⟩

theorem extractFields_of (env : Env) (s : St) (obj : Obj) (d : Text) (hd : (s.objs obj).docstring = some d) :
    RE (extractFields env s obj).2 (parseDocstring env s obj d obj).2 ∧
    ((extractFields env s obj).2.objs obj).docstring = some d := by
  simp only [extractFields, hd]
  obtain ⟨a, c⟩ := splitFields_log (pdFields (parseDocstring env s obj d obj).1)
    (setParsed (parseDocstring env s obj d obj).2 obj (parseDocstring env s obj d obj).1)
  exact ⟨a, by rw [c]; simp [hd]⟩

/-- `Docstring.reported_once`, second-call form: calling the same entry point again on the same
object adds no report and no reported object (parse results are cached; a renderer that fails
again finds the object already in `parse_errors`) -/
theorem second_call_silent (env : Env) (st : St) (op : Op) (obj : Obj) :
    (step env (step env st op obj).2 op obj).2.reports = (step env st op obj).2.reports ∧
    (step env (step env st op obj).2 op obj).2.errors = (step env st op obj).2.errors := by
  cases op <;> simp only [step]
  · -- ensure
    have h := ensureParsed_stable env st (ensureParsed env st obj).2 obj
      (fun x => ensureParsed_docstring env st obj x) rfl
    rw [h]; exact ⟨rfl, rfl⟩
  · -- doc
    exact ⟨(doc_second_call env st obj).2.1, (doc_second_call env st obj).1⟩
  · -- summary
    obtain ⟨a, b, c⟩ := formatSummary_tail env st obj
    obtain ⟨a2, b2, _⟩ := formatSummary_tail env (formatSummary env st obj).2 obj
    have h := ensureParsed_stable env st (formatSummary env st obj).2 obj
      ((summary_spec env st obj).1.docstring) (c obj)
    rw [a2, b2, h]; exact ⟨rfl, rfl⟩
  · -- toc
    obtain ⟨a, b, c⟩ := formatToc_tail env st obj
    obtain ⟨a2, b2, _⟩ := formatToc_tail env (formatToc env st obj).2 obj
    have h := ensureParsed_stable env st (formatToc env st obj).2 obj
      ((toc_spec env st obj).1.docstring) (c obj)
    rw [a2, b2, h]; exact ⟨rfl, rfl⟩
  · -- extract
    cases hd : (st.objs obj).docstring with
    | none => simp [extractFields, hd]
    | some d =>
      obtain ⟨h1, hd2⟩ := extractFields_of env st obj d hd
      obtain ⟨h2, _⟩ := extractFields_of env (extractFields env st obj).2 obj d hd2
      have hA := h1.trans' (parseDocstring_RE env st obj obj d)
      have hB := h2.trans' (parseDocstring_RE env (extractFields env st obj).2 obj obj d)
      have hC := reportErrors_congr _ _ obj (parseResult d (runParser env (getDocformat env obj) obj d)).2 0 .parsing hA
      have hid := (rep_reportErrors obj (parseResult d (runParser env (getDocformat env obj) obj d)).2 .parsing).idem st
      have hfin := (hB.trans' hC).trans' hid
      exact ⟨hfin.2.1.trans hA.2.1.symm, hfin.1.trans hA.1.symm⟩

/-! ## the other rendering wrappers: type2stan, constants, signatures, decorators, the search index -/

/-- `safe_to_stan(…, fallback=colorized_pyval_fallback)` always returns (4caea46) -/
theorem pyval_total (env : Env) (st : St) (b : Body) (ctx : Obj) (sec : Sec) :
    (safeToStanPyval env st b ctx sec).1.isOk = true := by
  unfold safeToStanPyval
  cases bodyToStan env b <;> cases bodyToNode env b <;> rfl

/-- HISTORICAL (before 4caea46): it raised exactly when BOTH `to_stan` and the `to_node` of the
fallback raised — and then it was `to_node`'s exception that escaped, unreported -/
theorem pyval_old_raises_iff (env : Env) (st : St) (b : Body) (ctx : Obj) (sec : Sec) (e' : Exc) :
    (safeToStanPyvalOld env st b ctx sec).1 = .raises e' ↔
      (∃ e, bodyToStan env b = .raises e) ∧ bodyToNode env b = .raises e' := by
  unfold safeToStanPyvalOld
  cases hs : bodyToStan env b <;> cases hn : bodyToNode env b <;> simp

theorem pyval_state (env : Env) (st : St) (b : Body) (ctx : Obj) (sec : Sec) :
    (safeToStanPyval env st b ctx sec).2 = st ∨
    ∃ e, bodyToStan env b = .raises e ∧
      (safeToStanPyval env st b ctx sec).2 = reportErrors st ctx [toStanError e] sec .rendering := by
  unfold safeToStanPyval
  cases hs : bodyToStan env b with
  | returns s => exact .inl rfl
  | raises e => cases hn : bodyToNode env b <;> simp

theorem frame_pyval (T : Obj → Prop) (env : Env) (st : St) (b : Body) (ctx : Obj) (sec : Sec) :
    Frame T ctx sec st (safeToStanPyval env st b ctx sec).2 := by
  rcases pyval_state env st b ctx sec with h | ⟨e, _, h⟩ <;> rw [h]
  · exact Frame.refl _ _ _ _
  · exact frame_reportErrors _ _ _ _ _ _

/-- a renderer failure inside the colorized value / the type is reported against the object, in the
wrapper's own section — whether or not the plain-text fallback could be built (then BROKEN is shown) -/
theorem pyval_failure_reported (env : Env) (st : St) (b : Body) (ctx : Obj) (sec : Sec) (e : Exc)
    (hs : bodyToStan env b = .raises e) :
    ((safeToStanPyval env st b ctx sec).1 = .ok .code ∨ (safeToStanPyval env st b ctx sec).1 = .ok .broken) ∧
    (sec, ctx, Phase.rendering) ∈ (safeToStanPyval env st b ctx sec).2.reported := by
  simp only [safeToStanPyval, hs]
  cases bodyToNode env b
  · exact ⟨.inl rfl, reportErrors_key _ _ _ _ _ (by simp)⟩
  · exact ⟨.inr rfl, reportErrors_key _ _ _ _ _ (by simp)⟩

/-- `format_signature` always returns: `(...)` and a report in section 'signature' on failure -/
theorem signature_total (env : Env) (st : St) (obj : Obj) :
    (formatSignature env st obj).1.isOk = true ∧ Frame (Only obj) obj secSignature st (formatSignature env st obj).2 := by
  unfold formatSignature
  split
  · exact ⟨rfl, Frame.refl _ _ _ _⟩
  · exact ⟨rfl, Frame.refl _ _ _ _⟩
  · rename_i e _
    exact ⟨rfl, frame_reportErrors (Only obj) obj secSignature st [toStanError e] .parsing⟩

theorem signature_failure_reported (env : Env) (st : St) (obj : Obj) (e : Exc) (h : env.sigOut obj = some (.raises e)) :
    (formatSignature env st obj).1 = .ok .sigBroken ∧
    (secSignature, obj, Phase.parsing) ∈ (formatSignature env st obj).2.reported := by
  simp only [formatSignature, h]
  exact ⟨trivial, reportErrors_key _ _ _ _ _ (by simp)⟩

theorem pyvalList_total (env : Env) (obj : Obj) (sec : Sec) :
    ∀ (ks : List Nat) (st : St), (pyvalList env obj sec st ks).1.isOk = true
  | [], _ => rfl
  | k :: ks, st => by
    have h1 := pyval_total env st (.user k) obj sec
    unfold pyvalList
    split
    · rename_i e st' heq; rw [heq] at h1; cases h1
    · rename_i s st' heq
      have h2 := pyvalList_total env obj sec ks st'
      split
      · rename_i e st'' heq2; rw [heq2] at h2; cases h2
      · rfl

/-- `type2stan` always returns (full statement; before 4caea46 only under a hypothesis on the fallback) -/
theorem type_total (env : Env) (st : St) (obj : Obj) : (type2stan env st obj).1.isOk = true := by
  simp only [type2stan]
  split
  · rfl
  · rename_i b _
    have h1 := pyval_total env (getParsedType env st obj).2 b obj secAnnotation
    split
    · rfl
    · rename_i e st' heq; rw [heq] at h1; cases h1

theorem constant_total (env : Env) (st : St) (obj : Obj) : (formatConstant env st obj).1.isOk = true :=
  pyval_total env st _ obj secConstant

theorem class_signature_total (env : Env) (st : St) (obj : Obj) : (formatClassSignature env st obj).1.isOk = true :=
  pyvalList_total env obj _ _ st

theorem decorators_total (env : Env) (st : St) (obj : Obj) : (formatDecorators env st obj).1.isOk = true :=
  pyvalList_total env obj _ _ st

/-- HISTORICAL (before 4caea46): whenever the type shown for an object was a ParsedTypeDocstring
(`Body.typed`) and its `to_stan` raised, `type2stan` let NotImplementedError out -/
theorem typed_failure_escaped_old (env : Env) (st : St) (obj : Obj) (k : Nat) (e : Exc)
    (hb : (getParsedType env st obj).1 = some (.typed k)) (hs : env.typedToStan k = .raises e) :
    (type2stanOld env st obj).1 = .raises .notImplemented := by
  simp [type2stanOld, hb, safeToStanPyvalOld, bodyToStan, bodyToNode, hs]

/-- an Attribute whose docstring has a `type` field, with --process-types on, whose type renderer fails -/
def envType : Env :=
  { envCx with processtypes := true, isAttribute := fun _ => true, toNode := fun _ => .returns,
               parser := fun _ _ _ => .returns (.user 1 [⟨.typ, none, .user 7, 0⟩]) [],
               typedToStan := fun _ => .raises (.other 3) }

/-- the exception a result carries -/
def excOf {α : Type} : Res α → Option Exc
  | .ok _ => none
  | .raises e => some e

def typOf : Res (Option Stan) → Option Stan
  | .ok s => s
  | .raises _ => none

/-- HISTORICAL counterexample (code before 4caea46, `type2stanOld`) next to what the code does now:
the BROKEN placeholder, and the failure reported in section 'annotation' -/
theorem type_old_counterexample :
    excOf (type2stanOld envType stCx 0).1 = some .notImplemented ∧ (type2stanOld envType stCx 0).2.reports = [] ∧
    typOf (type2stan envType stCx 0).1 = some .broken ∧
    (type2stan envType stCx 0).2.reports = [⟨0, secAnnotation, .exc (.other 3), 0⟩] := by
  decide

/-- `get_parsed_type` on an Attribute reads the LAST `type` field of the attribute's own docstring and
caches it; a second call returns the cached value without touching anything -/
theorem getParsedType_cached (env : Env) (st : St) (obj : Obj) (b : Body)
    (hp : ((getParsedType env st obj).2.objs obj).ptype = some b) :
    getParsedType env (getParsedType env st obj).2 obj = (some b, (getParsedType env st obj).2) := by
  generalize (getParsedType env st obj).2 = S at hp ⊢
  simp [getParsedType, hp]

/-- the search-index text of an object is always produced (e1378c4) -/
theorem search_total (env : Env) (st : St) (obj : Obj) : (searchDocstring env st obj).1.isOk = true := by
  have hs := ensureParsed_some env st obj
  cases hsrc : (ensureParsed env st obj).1 with
  | none => simp [searchDocstring, hsrc, Res.isOk]
  | some src =>
    obtain ⟨hp, _⟩ := hs src hsrc
    cases hpd : ((ensureParsed env st obj).2.objs obj).parsed with
    | none => simp [hpd] at hp
    | some pd => cases hn : pdToNode env pd <;> simp [searchDocstring, hsrc, hpd, hn, Res.isOk]

/-- HISTORICAL (before e1378c4): the old code raised exactly when `to_node` raised something else than
NotImplementedError — the whole run aborted while building the index -/
theorem search_old_raises_iff (env : Env) (st : St) (obj : Obj) :
    (searchDocstringOld env st obj).1.isOk = false ↔
      ∃ src pd e, (ensureParsed env st obj).1 = some src ∧
        ((ensureParsed env st obj).2.objs obj).parsed = some pd ∧ pdToNode env pd = .raises e ∧ e ≠ .notImplemented := by
  have hs := ensureParsed_some env st obj
  cases hsrc : (ensureParsed env st obj).1 with
  | none => simp [searchDocstringOld, hsrc, Res.isOk]
  | some src =>
    obtain ⟨hp, _⟩ := hs src hsrc
    cases hpd : ((ensureParsed env st obj).2.objs obj).parsed with
    | none => simp [hpd] at hp
    | some pd =>
      cases hn : pdToNode env pd with
      | returns => simp [searchDocstringOld, hsrc, hpd, hn, Res.isOk]
      | raises e => by_cases he : e = .notImplemented <;> simp [searchDocstringOld, hsrc, hpd, hn, he, Res.isOk]

/-- HISTORICAL counterexample (`searchDocstringOld`): the parser succeeds, `to_node` raises ValueError -/
theorem search_old_counterexample :
    (searchDocstringOld envCx stCx 0).1.isOk = false ∧ (searchDocstring envCx stCx 0).1.isOk = true := by
  decide

/-- what ANY of the rendering calls may change, loosely: only `obj`, the object its docstring comes
from, and (for `extract_fields`) the attributes its variable fields name -/
structure Loose (T : Obj → Prop) (st st' : St) : Prop where
  docstring : ∀ x, (st'.objs x).docstring = (st.objs x).docstring
  objs : ∀ x, ¬ T x → st'.objs x = st.objs x
  errors_mono : ∀ p ∈ st.errors, p ∈ st'.errors
  errors_new : ∀ p ∈ st'.errors, p ∈ st.errors ∨ T p.2
  reported_mono : ∀ k ∈ st.reported, k ∈ st'.reported
  reports : ∃ new, st'.reports = st.reports ++ new ∧
      ∀ r ∈ new, T r.obj ∧ (r.sec, r.obj) ∈ st'.errors ∧
        ∃ ph, (r.sec, r.obj, ph) ∉ st.reported ∧ (r.sec, r.obj, ph) ∈ st'.reported

theorem Frame.loose {T : Obj → Prop} {src : Obj} {sec : Sec} {a b : St} (h : Frame T src sec a b)
    (T' : Obj → Prop) (hT : ∀ x, T x → T' x) (hs : T' src) : Loose T' a b := by
  refine ⟨h.docstring, ?_, h.errors_mono, ?_, h.reported_mono, ?_⟩
  · intro x hx
    have h0 : ¬ T x := fun c => hx (hT x c)
    have hne : x ≠ src := fun c => hx (c ▸ hs)
    have e1 := h.docstring x
    have e2 := h.parsed x h0
    have e3 := h.summary x h0
    have e4 := h.ptype x h0
    cases hb : b.objs x
    cases ha : a.objs x
    simp_all
  · intro p hp
    rcases h.errors_new p hp with h' | h'
    · exact .inl h'
    · exact .inr (by rw [h']; exact hs)
  · obtain ⟨new, e, p⟩ := h.reports
    refine ⟨new, e, fun r hr => ?_⟩
    obtain ⟨x1, x2, x3, ph, x4, x5⟩ := p r hr
    exact ⟨by rw [x1]; exact hs, by rw [x1, x2]; exact x3, ph, by rw [x1, x2]; exact x4, by rw [x1, x2]; exact x5⟩

theorem Loose.trans {T : Obj → Prop} {a b c : St} (h1 : Loose T a b) (h2 : Loose T b c) : Loose T a c := by
  refine ⟨fun x => (h2.docstring x).trans (h1.docstring x), fun x hx => (h2.objs x hx).trans (h1.objs x hx),
          fun p hp => h2.errors_mono p (h1.errors_mono p hp), ?_,
          fun k hk => h2.reported_mono k (h1.reported_mono k hk), ?_⟩
  · intro p hp
    rcases h2.errors_new p hp with h | h
    · exact h1.errors_new p h
    · exact .inr h
  · obtain ⟨n1, e1, p1⟩ := h1.reports
    obtain ⟨n2, e2, p2⟩ := h2.reports
    refine ⟨n1 ++ n2, by rw [e2, e1, List.append_assoc], fun r hr => ?_⟩
    rcases List.mem_append.mp hr with h | h
    · obtain ⟨x1, x2, ph, x3, x4⟩ := p1 r h
      exact ⟨x1, h2.errors_mono _ x2, ph, x3, h2.reported_mono _ x4⟩
    · obtain ⟨x1, x2, ph, x3, x4⟩ := p2 r h
      exact ⟨x1, x2, ph, fun hc => x3 (h1.reported_mono _ hc), x4⟩

/-- the objects a call of entry point `op` on `obj` may write or report against -/
def xTouched (env : Env) (st : St) (op : XOp) (obj : Obj) : Obj → Prop := fun x =>
  x = obj ∨ x = sourceOf env st obj ∨
    (op = .core .extract ∧ ∃ d, (st.objs obj).docstring = some d ∧
      x ∈ splitTargets (pdFields (parseDocstring env st obj d obj).1))

theorem loose_pyvalList (T : Obj → Prop) (env : Env) (obj : Obj) (sec : Sec) (hT : T obj) :
    ∀ (ks : List Nat) (st : St), Loose T st (pyvalList env obj sec st ks).2
  | [], st => (Frame.refl T obj sec st).loose T (fun _ h => h) hT
  | k :: ks, st => by
    have h1 := (frame_pyval T env st (.user k) obj sec).loose T (fun _ h => h) hT
    unfold pyvalList
    split
    · rename_i e st' heq; rw [heq] at h1; exact h1
    · rename_i s st' heq
      rw [heq] at h1
      have h2 := loose_pyvalList T env obj sec hT ks st'
      split
      · rename_i e st'' heq2; rw [heq2] at h2; exact h1.trans h2
      · rename_i ss st'' heq2; rw [heq2] at h2; exact h1.trans h2

theorem frame_getParsedType (env : Env) (st : St) (obj : Obj) :
    Frame (Only obj) (sourceOf env st obj) 0 st (getParsedType env st obj).2 := by
  have hf := frame_ensureParsed env st obj
  simp only [getParsedType]
  split
  · exact Frame.refl _ _ _ _
  · split
    · split
      · exact hf
      · split
        · exact Frame.trans hf (frame_setPType _ _ _ _ _ _ rfl)
        · exact hf
    · exact Frame.refl _ _ _ _

/-- `Docstring.x_isolation`: every rendering call — the five of `step` and type2stan, constant value,
signature, class signature, decorators, search text — leaves every object other than `obj`, its
docstring source and (extract_fields) the named attributes completely unchanged, files reports only
against those, and never un-reports anything -/
theorem loose_xstep (env : Env) (st : St) (op : XOp) (obj : Obj) :
    Loose (xTouched env st op obj) st (xstep env st op obj).2 := by
  cases op with
  | core o =>
    have hf := frame_step env st o obj
    refine hf.loose _ ?_ ?_
    · intro x hx
      cases o <;> simp only [touchedOf, Only] at hx <;> simp at hx
      all_goals first
        | exact .inl hx
        | (rcases hx with h | h
           · exact .inl h
           · exact .inr (.inr ⟨rfl, h⟩))
    · cases o <;> simp [srcOfOp, xTouched]
  | typ =>
    simp only [xstep, type2stan]
    have h1 := (frame_getParsedType env st obj).loose (xTouched env st .typ obj)
      (fun x hx => .inl hx) (.inr (.inl rfl))
    split
    · exact h1
    · rename_i b _
      have h2 := (frame_pyval (Only obj) env (getParsedType env st obj).2 b obj secAnnotation).loose
        (xTouched env st .typ obj) (fun x hx => .inl hx) (.inl rfl)
      split
      · rename_i s st' heq; rw [heq] at h2; exact h1.trans h2
      · rename_i e st' heq; rw [heq] at h2; exact h1.trans h2
  | const =>
    exact (frame_pyval (Only obj) env st _ obj secConstant).loose _ (fun x hx => .inl hx) (.inl rfl)
  | sig =>
    exact (signature_total env st obj).2.loose _ (fun x hx => .inl hx) (.inl rfl)
  | classSig => exact loose_pyvalList _ env obj _ (.inl rfl) _ st
  | decorators => exact loose_pyvalList _ env obj _ (.inl rfl) _ st
  | search =>
    have hf := (frame_ensureParsed env st obj).loose (xTouched env st .search obj)
      (fun x hx => .inl hx) (.inr (.inl rfl))
    simp only [xstep, searchDocstring]
    split
    · exact hf
    · split
      · exact hf
      · split <;> exact hf

/-- `Docstring.xtotal`: EVERY rendering entry point returns — the five of `total` and type2stan, the
constant value, the signature, the class signature, the decorators and the search text — for every
behaviour of every parameter (parsers, renderers, colorizers, signature formatter), every state and
object (`extract_fields` under its precondition) -/
theorem xtotal (env : Env) (st : St) (op : XOp) (obj : Obj)
    (hx : op = .core .extract → (st.objs obj).docstring ≠ none) : (xstep env st op obj).1.isOk = true := by
  cases op with
  | core o => exact total env st o obj (fun h => hx (by rw [h]))
  | typ => exact type_total env st obj
  | const => exact constant_total env st obj
  | sig => exact (signature_total env st obj).1
  | classSig => exact class_signature_total env st obj
  | decorators => exact decorators_total env st obj
  | search => exact search_total env st obj

/-- a whole run of such calls returns from every one of them -/
theorem xrun_total (env : Env) : ∀ (ops : List (XOp × Obj)) (st : St),
    (∀ p ∈ ops, p.1 = .core .extract → (st.objs p.2).docstring ≠ none) →
    ∀ o ∈ (xrun env st ops).1, o.isOk = true
  | [], st, _ => by simp [xrun]
  | (op, obj) :: rest, st, hx => by
    intro o ho
    simp only [xrun, List.mem_cons] at ho
    rcases ho with rfl | ho
    · exact xtotal env st op obj (fun h => hx (op, obj) (by simp) h)
    · refine xrun_total env rest (xstep env st op obj).2 ?_ o ho
      intro p hp hpe
      rw [(loose_xstep env st op obj).docstring p.2]
      exact hx p (List.mem_cons_of_mem _ hp) hpe

/-- … in particular: a failure while rendering anything about `obj` never changes what is shown or
reported for an unrelated object `B` -/
theorem x_isolation (env : Env) (st : St) (op : XOp) (obj B : Obj) (hB : ¬ xTouched env st op obj B) :
    (xstep env st op obj).2.objs B = st.objs B ∧
    (∀ sec, reportsOf (xstep env st op obj).2 sec B = reportsOf st sec B) ∧
    (∀ sec, (sec, B) ∈ (xstep env st op obj).2.errors ↔ (sec, B) ∈ st.errors) := by
  have h := loose_xstep env st op obj
  refine ⟨h.objs B hB, fun sec => ?_, fun sec => ⟨fun hm => ?_, h.errors_mono _⟩⟩
  · obtain ⟨new, e, p⟩ := h.reports
    unfold reportsOf
    rw [e, List.filter_append]
    have : new.filter (fun r => decide (r.sec = sec ∧ r.obj = B)) = [] := by
      rw [List.filter_eq_nil_iff]
      intro r hr hc
      simp only [decide_eq_true_eq] at hc
      exact hB (hc.2 ▸ (p r hr).1)
    rw [this, List.append_nil]
  · rcases h.errors_new _ hm with h' | h'
    · exact h'
    · exact absurd h' hB

/-- … and an (object, section) pair whose parsing and rendering problems have both been reported is never
reported again, by any of the calls -/
theorem x_reported_once (env : Env) (st : St) (op : XOp) (obj : Obj) (sec : Sec) (o : Obj)
    (hm : ∀ ph, (sec, o, ph) ∈ st.reported) :
    reportsOf (xstep env st op obj).2 sec o = reportsOf st sec o := by
  obtain ⟨new, e, p⟩ := (loose_xstep env st op obj).reports
  unfold reportsOf
  rw [e, List.filter_append]
  have : new.filter (fun r => decide (r.sec = sec ∧ r.obj = o)) = [] := by
    rw [List.filter_eq_nil_iff]
    intro r hr hc
    simp only [decide_eq_true_eq] at hc
    obtain ⟨_, _, ph, h3, _⟩ := p r hr
    exact h3 (by rw [hc.1, hc.2]; exact hm ph)
  rw [this, List.append_nil]

/-! ## epytext: the anchor-uniquifying loop of `_slugify` terminates — given distinct candidates -/

/-- pigeonhole: `m` consecutive pairwise distinct candidates that all lie in `l` need `m ≤ l.length` -/
theorem cands_in_list_le (cand : Nat → Slug) (hinj : ∀ i j, cand i = cand j → i = j) :
    ∀ (m : Nat) (l : List Slug) (i : Nat), (∀ k, i ≤ k → k < i + m → cand k ∈ l) → m ≤ l.length
  | 0, _, _, _ => Nat.zero_le _
  | m + 1, l, i, h => by
    have hi : cand i ∈ l := h i (Nat.le_refl _) (by omega)
    have ih := cands_in_list_le cand hinj m (l.erase (cand i)) (i + 1) (fun k hk1 hk2 => by
      have hk : cand k ∈ l := h k (by omega) (by omega)
      have hne : cand k ≠ cand i := fun hc => by have := hinj k i hc; omega
      exact (List.mem_erase_of_ne hne).mpr hk)
    rw [List.length_erase_of_mem hi] at ih
    have : 0 < l.length := List.length_pos_of_mem hi
    omega

theorem slugLoop_none (cand : Nat → Slug) (used : List Slug) :
    ∀ (fuel i : Nat), slugLoop cand used fuel i = none → ∀ k, i ≤ k → k < i + fuel → cand k ∈ used
  | 0, _, _, k, h1, h2 => by omega
  | fuel + 1, i, h, k, h1, h2 => by
    unfold slugLoop at h
    split at h
    · rename_i hc
      by_cases hk : k = i
      · subst hk; simpa using hc
      · exact slugLoop_none cand used fuel (i + 1) h k (by omega) (by omega)
    · simp at h

theorem slugLoop_some (cand : Nat → Slug) (used : List Slug) :
    ∀ (fuel i : Nat) (s : Slug), slugLoop cand used fuel i = some s →
      s ∉ used ∧ ∃ j, i ≤ j ∧ s = cand j ∧ ∀ k, i ≤ k → k < j → cand k ∈ used
  | 0, _, _, h => by simp [slugLoop] at h
  | fuel + 1, i, s, h => by
    unfold slugLoop at h
    split at h
    · rename_i hc
      obtain ⟨a, j, hj, hs, hall⟩ := slugLoop_some cand used fuel (i + 1) s h
      refine ⟨a, j, by omega, hs, fun k hk1 hk2 => ?_⟩
      by_cases hk : k = i
      · subst hk; simpa using hc
      · exact hall k (by omega) hk2
    · rename_i hc
      simp only [Option.some.injEq] at h
      subst h
      exact ⟨by simpa using hc, i, Nat.le_refl _, rfl, fun k hk1 hk2 => by omega⟩

/-- `Docstring.slugify_terminates`: if the candidates `slugify(text), slugify(text-1), slugify(text-2), …`
are pairwise distinct (ASSUMPTION on `slugify`, checked on the real function by the harness), the
`while s in self._section_slugs` loop ends within `len(_section_slugs) + 1` iterations, with the
first candidate that is not used yet. -/
theorem slugify_terminates (cand : Nat → Slug) (hinj : ∀ i j, cand i = cand j → i = j) (used : List Slug) :
    ∃ s, slugLoop cand used (used.length + 1) 0 = some s ∧ s ∉ used ∧
      ∃ j, s = cand j ∧ ∀ k, k < j → cand k ∈ used := by
  cases h : slugLoop cand used (used.length + 1) 0 with
  | none =>
    have := cands_in_list_le cand hinj (used.length + 1) used 0
      (fun k h1 h2 => slugLoop_none cand used _ 0 h k h1 h2)
    omega
  | some s =>
    obtain ⟨a, j, _, hs, hall⟩ := slugLoop_some cand used _ 0 s h
    exact ⟨s, rfl, a, j, hs, fun k hk => hall k (Nat.zero_le _) hk⟩

/-- the assumption is needed: when appending `-i` does not change the slug (a slugify that cuts
its result to a fixed length does that to long headings) and the slug is already used, the loop
never ends, whatever the fuel -/
theorem slugify_loops_without_distinct_candidates (c : Slug) (used : List Slug) (h : c ∈ used) :
    ∀ fuel i, slugLoop (fun _ => c) used fuel i = none
  | 0, _ => rfl
  | fuel + 1, i => by
    have hc : used.contains c = true := by simpa using h
    simp only [slugLoop, hc, if_true]
    exact slugify_loops_without_distinct_candidates c used h fuel (i + 1)

example : slugLoop (fun i => if i = 0 then ['a'] else 'a' :: '-' :: (toString i).toList) [['a'], ['a', '-', '1']] 3 0
    = some ['a', '-', '2'] := by decide

/-! ## epytext: `parse` raises exactly when a fatal error was stored -/

theorem epytext_raises_iff_fatal (errs : List Err) :
    ((epytextSignal errs).isSome = true ↔ ∃ e ∈ errs, e.fatal = true) ∧
    (∀ e, epytextSignal errs = some e → e ∈ errs ∧ e.fatal = true) := by
  induction errs with
  | nil => simp [epytextSignal]
  | cons x xs ih =>
    by_cases hx : x.fatal = true
    · simp only [epytextSignal, hx, if_true]
      exact ⟨⟨fun _ => ⟨x, by simp, hx⟩, fun _ => rfl⟩, fun e he => by simp at he; subst he; exact ⟨by simp, hx⟩⟩
    · simp only [epytextSignal, hx]
      refine ⟨⟨fun h => ?_, fun ⟨e, he, hf⟩ => ?_⟩, fun e he => ?_⟩
      · obtain ⟨e, he, hf⟩ := ih.1.mp h; exact ⟨e, by simp [he], hf⟩
      · rcases List.mem_cons.mp he with h | h
        · subst h; exact absurd hf hx
        · exact ih.1.mpr ⟨e, h, hf⟩
      · obtain ⟨a, b⟩ := ih.2 e he; exact ⟨by simp [a], b⟩

example : epytextSignal [⟨.msg 1, some 0, false⟩, ⟨.msg 2, none, true⟩] = some ⟨.msg 2, none, true⟩ := by decide

end Docstring
