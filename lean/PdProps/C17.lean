/-
C17 — Written inventories read back faithfully; malformed remote ones are survivable.

Property theorems over `PdModel.Inventory` (the model of pydoctor/sphinx.py).
-/
import PdModel.Inventory

set_option linter.unusedSimpArgs false

namespace Inventory

/-! ## the line parser: which exceptions can leave `_parseInventoryLine` -/

theorem scanPrio_raised (toInt : Str → Option Int) :
    ∀ (l : List Str) (i : Nat) (e : PyErr), scanPrio toInt l i = .raised e → e = .valueError
  | [], i, e, h => by simp [scanPrio] at h; exact h.symm
  | p :: rest, i, e, h => by
    simp only [scanPrio] at h
    split at h
    · cases h
    · exact scanPrio_raised toInt rest (i+1) e h

theorem scanPrio_ok (toInt : Str → Option Int) :
    ∀ (l : List Str) (i j : Nat) (v : Int), scanPrio toInt l i = .ok (j, v) →
      i ≤ j ∧ j < i + l.length ∧ ∃ p, l[j - i]? = some p ∧ toInt p = some v ∧
        ∀ k, k < j - i → ∃ q, l[k]? = some q ∧ toInt q = none
  | [], i, j, v, h => by simp [scanPrio] at h
  | p :: rest, i, j, v, h => by
    simp only [scanPrio] at h
    split at h
    · rename_i v' hv
      simp only [Outcome.ok.injEq, Prod.mk.injEq] at h
      obtain ⟨rfl, rfl⟩ := h
      refine ⟨Nat.le_refl _, by simp, p, by simp, hv, ?_⟩
      intro k hk; omega
    · rename_i hnone
      obtain ⟨h1, h2, q, hq, hv, hbefore⟩ := scanPrio_ok toInt rest (i+1) j v h
      refine ⟨by omega, by simp; omega, q, ?_, hv, ?_⟩
      · have : j - i = (j - (i+1)) + 1 := by omega
        rw [this]; simpa using hq
      · intro k hk
        cases k with
        | zero => exact ⟨p, by simp, hnone⟩
        | succ k =>
          obtain ⟨q', hq', hn'⟩ := hbefore k (by omega)
          exact ⟨q', by simpa using hq', hn'⟩

/-- **parse_total** (full statement): for every `int` behaviour and every token list,
`_parseInventoryLine` returns an entry or raises `ValueError` — nothing else. -/
theorem parse_total (toInt : Str → Option Int) (parts : List Str) :
    (∃ e, parseParts toInt parts = .ok e) ∨ parseParts toInt parts = .raised .valueError := by
  unfold parseParts
  cases hs : scanPrio toInt (parts.drop 2) 2 with
  | raised e =>
    have := scanPrio_raised toInt _ _ _ hs
    subst this
    exact Or.inr rfl
  | ok r =>
    obtain ⟨i, v⟩ := r
    obtain ⟨h1, h2, -⟩ := scanPrio_ok toInt _ _ _ _ hs
    simp only [List.length_drop] at h2
    have hi : i - 1 < parts.length := by omega
    simp only [getIdx, List.getElem?_eq_getElem hi]
    by_cases hl : i + 1 ≥ parts.length
    · simp [hl]
    · have hl' : i + 1 < parts.length := by omega
      simp only [if_neg hl, List.getElem?_eq_getElem hl']
      split
      · exact Or.inr rfl
      · exact Or.inl ⟨_, rfl⟩

/-- the same for lines: `parseLine` is `parseParts` after `split(' ')` -/
theorem parseLine_total (toInt : Str → Option Int) (line : Str) :
    (∃ e, parseLine toInt line = .ok e) ∨ parseLine toInt line = .raised .valueError :=
  parse_total toInt (pySplitWs line)

/-- a line whose priority is the last column is rejected with `ValueError` (and therefore logged
and skipped by `_parseInventory`) -/
theorem prioLast_rejected (toInt : Str → Option Int) (parts : List Str)
    (h : prioIsLast toInt parts = true) : parseParts toInt parts = .raised .valueError := by
  unfold parseParts
  unfold prioIsLast at h
  cases hs : scanPrio toInt (parts.drop 2) 2 with
  | raised e => rw [hs] at h; cases h
  | ok r =>
    obtain ⟨i, v⟩ := r
    rw [hs] at h
    obtain ⟨h1, h2, -⟩ := scanPrio_ok toInt _ _ _ _ hs
    simp only [List.length_drop] at h2
    have hi : i - 1 < parts.length := by omega
    have hl : i + 1 ≥ parts.length := by simp at h; omega
    simp [getIdx, List.getElem?_eq_getElem hi, hl]

example : parseLine pyInt "a py:x 1".toList = .raised .valueError := by decide
example : parseLine pyInt "a py:x 1 l -".toList = .ok ⟨['a'], "py:x".toList, 1, ['l'], ['-']⟩ := by decide

/-! ### historical: the parser before /repo commit f721ca9 (`parsePartsOld`, PRE-FIX code) -/

/-- PRE-FIX: `IndexError` left `_parseInventoryLine` exactly when the priority column was last. -/
theorem old_indexError_iff (toInt : Str → Option Int) (parts : List Str) :
    parsePartsOld toInt parts = .raised .indexError ↔ prioIsLast toInt parts = true := by
  unfold parsePartsOld prioIsLast
  cases h : scanPrio toInt (parts.drop 2) 2 with
  | raised e =>
    have := scanPrio_raised toInt _ _ _ h
    subst this
    simp
  | ok r =>
    obtain ⟨i, v⟩ := r
    obtain ⟨h1, h2, -⟩ := scanPrio_ok toInt _ _ _ _ h
    simp only [List.length_drop] at h2
    have hi : i - 1 < parts.length := by omega
    simp only [getIdx, List.getElem?_eq_getElem hi]
    by_cases hl : i + 1 < parts.length
    · simp only [List.getElem?_eq_getElem hl]
      have : ¬ (parts.length = i + 1) := by omega
      split <;> simp [this]
    · have : parts.length = i + 1 := by omega
      simp [this]

/-- PRE-FIX counterexample to `parse_total`: `_parseInventoryLine("a py:x 1")` raised `IndexError`. -/
theorem old_parse_total_counterexample :
    parseLineOld pyInt ['a',' ','p','y',':','x',' ','1'] = .raised .indexError := by decide

/-- the fix changed nothing on the inputs the old code handled -/
theorem old_agrees (toInt : Str → Option Int) (parts : List Str)
    (h : prioIsLast toInt parts = false) : parseParts toInt parts = parsePartsOld toInt parts := by
  unfold parsePartsOld parseParts
  unfold prioIsLast at h
  cases hs : scanPrio toInt (parts.drop 2) 2 with
  | raised e => rfl
  | ok r =>
    obtain ⟨i, v⟩ := r
    rw [hs] at h
    obtain ⟨h1, h2, -⟩ := scanPrio_ok toInt _ _ _ _ hs
    simp only [List.length_drop] at h2
    have hl : ¬ i + 1 ≥ parts.length := by
      simp at h; omega
    have hi : i - 1 < parts.length := by omega
    simp only [getIdx, List.getElem?_eq_getElem hi, if_neg hl]

/-! ## `_getPayload`: the comment-stripping loop terminates -/

theorem splitFirstNL_some : ∀ (data f r : Bytes), splitFirstNL data = some (f, r) →
    data = f ++ 10 :: r ∧ 10 ∉ f
  | [], f, r, h => by simp [splitFirstNL] at h
  | b :: bs, f, r, h => by
    simp only [splitFirstNL] at h
    split at h
    · rename_i hb
      simp only [Option.some.injEq, Prod.mk.injEq] at h
      obtain ⟨rfl, rfl⟩ := h
      simp [hb]
    · rename_i hb
      split at h
      · cases h
      · rename_i f' r' hs
        simp only [Option.some.injEq, Prod.mk.injEq] at h
        obtain ⟨rfl, rfl⟩ := h
        obtain ⟨h1, h2⟩ := splitFirstNL_some bs f' r' hs
        refine ⟨by simp [h1], ?_⟩
        simp only [List.mem_cons, not_or]
        exact ⟨fun hc => hb hc.symm, h2⟩

theorem splitFirstNL_none : ∀ (data : Bytes), splitFirstNL data = none ↔ 10 ∉ data
  | [] => by simp [splitFirstNL]
  | b :: bs => by
    simp only [splitFirstNL]
    split
    · rename_i hb; simp [hb]
    · rename_i hb
      have ih := splitFirstNL_none bs
      cases hs : splitFirstNL bs with
      | none => simp only [true_iff]; rw [hs] at ih; simp only [true_iff] at ih
                simp only [List.mem_cons, not_or]; exact ⟨fun hc => hb hc.symm, ih⟩
      | some p =>
        rw [hs] at ih
        simp only [reduceCtorEq, false_iff, Classical.not_not] at ih
        simp [ih]

/-- a byte string on which the loop stops: no newline, or a first line that is not a comment -/
def stopsHere (p : Bytes) : Prop :=
  splitFirstNL p = none ∨ ∃ f r, splitFirstNL p = some (f, r) ∧ f.head? ≠ some 35

/-- **payload_terminates**: with fuel `len(data) + 1` the `while True` loop of `_getPayload`
always leaves through one of its `break`s; what it leaves with is `data` minus a prefix made of
complete `#…\n` lines, and is itself not such a line. -/
theorem stripComments_terminates : ∀ (fuel : Nat) (data : Bytes), data.length < fuel →
    ∃ p, stripComments fuel data = some p ∧ stopsHere p ∧
      ∃ cs : List Bytes, data = cs.flatMap (fun c => 35 :: c ++ [10]) ++ p ∧ ∀ c ∈ cs, 10 ∉ c
  | 0, data, h => by omega
  | fuel + 1, data, h => by
    simp only [stripComments]
    cases hs : splitFirstNL data with
    | none => exact ⟨data, rfl, Or.inl hs, [], by simp, by simp⟩
    | some fr =>
      obtain ⟨f, r⟩ := fr
      obtain ⟨hd, hf⟩ := splitFirstNL_some data f r hs
      by_cases hc : f.head? = some 35
      · simp only [hc, if_true]
        have hlen : r.length < fuel := by
          have : data.length = f.length + 1 + r.length := by rw [hd]; simp; omega
          omega
        obtain ⟨p, hp, hstop, cs, hcs, hno⟩ := stripComments_terminates fuel r hlen
        cases f with
        | nil => simp at hc
        | cons b f' =>
          simp only [List.head?_cons, Option.some.injEq] at hc
          subst hc
          refine ⟨p, hp, hstop, f' :: cs, ?_, ?_⟩
          · rw [hd, hcs]; simp
          · intro c hcmem
            simp only [List.mem_cons] at hcmem
            rcases hcmem with rfl | hm
            · intro h10; exact hf (List.mem_cons_of_mem _ h10)
            · exact hno c hm
      · simp only [hc, if_false]
        exact ⟨data, rfl, Or.inr ⟨f, r, hs, hc⟩, [], by simp, by simp⟩

theorem payload_terminates (data : Bytes) :
    ∃ p, stripComments (data.length + 1) data = some p ∧ strippedPayload data = p ∧ stopsHere p ∧
      ∃ cs : List Bytes, data = cs.flatMap (fun c => 35 :: c ++ [10]) ++ p ∧ ∀ c ∈ cs, 10 ∉ c := by
  obtain ⟨p, hp, hstop, hcs⟩ := stripComments_terminates (data.length + 1) data (Nat.lt_succ_self _)
  exact ⟨p, hp, by simp [strippedPayload, hp], hstop, hcs⟩

/-- more fuel never changes the answer -/
theorem stripComments_fuel_irrelevant (data : Bytes) (fuel : Nat) (h : data.length < fuel) :
    stripComments fuel data = some (strippedPayload data) := by
  obtain ⟨p, -, hsp, -, cs, hcs, hno⟩ := payload_terminates data
  obtain ⟨q, hq, -, cs', hcs', hno'⟩ := stripComments_terminates fuel data h
  rw [hq, hsp]
  -- both are obtained by removing complete comment lines; compare through a second run
  have key : ∀ (f1 f2 : Nat) (d : Bytes), d.length < f1 → d.length < f2 →
      stripComments f1 d = stripComments f2 d := by
    intro f1
    induction f1 with
    | zero => intro f2 d h1; omega
    | succ n ih =>
      intro f2 d h1 h2
      cases f2 with
      | zero => omega
      | succ m =>
        simp only [stripComments]
        cases hs : splitFirstNL d with
        | none => rfl
        | some fr =>
          obtain ⟨f, r⟩ := fr
          obtain ⟨hd, -⟩ := splitFirstNL_some d f r hs
          have : d.length = f.length + 1 + r.length := by rw [hd]; simp; omega
          by_cases hc : f.head? = some 35
          · simp only [hc, if_true]; exact ih m r (by omega) (by omega)
          · simp only [hc, if_false]
  have := key fuel (data.length + 1) data h (Nat.lt_succ_self _)
  obtain ⟨p', hp', hsp', -⟩ := payload_terminates data
  rw [hq, hp'] at this
  rw [← hsp, hsp']
  exact this

/-! ## `_parseInventory`: what survives a malformed line -/

theorem Dict.get_set_self : ∀ (d : Dict) (k : Str) (v : Link), (d.set k v).get k = some v
  | [], k, v => by simp [Dict.set, Dict.get, List.lookup]
  | (k', v') :: d, k, v => by
    have ih := Dict.get_set_self d k v
    simp only [Dict.get] at ih
    simp only [Dict.set]
    by_cases hk : k' = k
    · subst hk; simp [Dict.get, List.lookup]
    · have : (k == k') = false := by simpa using fun h => hk h.symm
      simp [hk, Dict.get, List.lookup, this, ih]

theorem Dict.get_set_other : ∀ (d : Dict) (k k2 : Str) (v : Link), k2 ≠ k →
    (d.set k v).get k2 = d.get k2
  | [], k, k2, v, h => by
    have : (k2 == k) = false := by simpa using h
    simp [Dict.set, Dict.get, List.lookup, this]
  | (k', v') :: d, k, k2, v, h => by
    have ih := Dict.get_set_other d k k2 v h
    simp only [Dict.get] at ih
    simp only [Dict.set]
    by_cases hk : k' = k
    · subst hk
      have : (k2 == k') = false := by simpa using h
      simp [Dict.get, List.lookup, this]
    · simp only [hk, if_false, Dict.get, List.lookup]
      cases hb : (k2 == k') <;> simp [ih]

theorem Dict.update_append (d : Dict) (a b : List (Str × Link)) :
    d.update (a ++ b) = (d.update a).update b := by
  simp [Dict.update, List.foldl_append]

theorem Dict.get_update_not_mem : ∀ (kvs : List (Str × Link)) (d : Dict) (k : Str),
    (∀ kv ∈ kvs, kv.1 ≠ k) → (d.update kvs).get k = d.get k
  | [], d, k, _ => rfl
  | kv :: kvs, d, k, h => by
    have h1 : kv.1 ≠ k := h kv (by simp)
    have ih := Dict.get_update_not_mem kvs (d.set kv.1 kv.2) k (fun x hx => h x (by simp [hx]))
    simp only [Dict.update, List.foldl_cons] at ih ⊢
    rw [ih, Dict.get_set_other _ _ _ _ (fun hc => h1 hc.symm)]

/-- the last assignment to a key is the one that is read back -/
theorem Dict.get_update_last (d : Dict) (pre post : List (Str × Link)) (k : Str) (v : Link)
    (h : ∀ kv ∈ post, kv.1 ≠ k) : (d.update (pre ++ (k, v) :: post)).get k = some v := by
  rw [Dict.update_append]
  have : (d.update pre).update ((k, v) :: post) = (((d.update pre).set k v).update post) := rfl
  rw [this, Dict.get_update_not_mem post _ k h, Dict.get_set_self]

/-- the entries the well-formed Python lines of a file contribute, in file order -/
def goodEntries (toInt : Str → Option Int) (base : Str) : List Str → List (Str × Link)
  | [] => []
  | l :: ls =>
    match parseLine toInt l with
    | .ok e =>
      if startsWith pyPrefix e.typ then (e.name, (base, e.location)) :: goodEntries toInt base ls
      else goodEntries toInt base ls
    | .raised _ => goodEntries toInt base ls

/-- a well-formed line of the `py:` domain -/
def isGood (toInt : Str → Option Int) (l : Str) : Bool :=
  match parseLine toInt l with
  | .ok e => startsWith pyPrefix e.typ
  | .raised _ => false

/-- the lines `_parseInventoryLine` rejects with `ValueError` (these are logged) -/
def rejected (toInt : Str → Option Int) (ls : List Str) : List Str :=
  ls.filter fun l => parseLine toInt l == .raised .valueError

/-- complete description of `_parseInventory`'s loop, for EVERY file: it never raises; the result
is the dict built from the good entries (last one wins, first one fixes the position), and
exactly the rejected lines are logged. -/
theorem parseLines_spec (toInt : Str → Option Int) (base : Str) :
    ∀ (ls : List Str) (d : Dict) (log : List LogMsg),
      parseLines toInt base ls d log =
        (log ++ (rejected toInt ls).map (fun l => LogMsg.badLine l base),
         .ok (d.update (goodEntries toInt base ls)))
  | [], d, log => by simp [parseLines, rejected, goodEntries, Dict.update]
  | l :: ls, d, log => by
    rcases parseLine_total toInt l with ⟨e, he'⟩ | hv'
    · have hrej : rejected toInt (l :: ls) = rejected toInt ls := by
        simp [rejected, List.filter_cons, he']
      by_cases hp : startsWith pyPrefix e.typ = true
      · simp only [parseLines, he', hp, if_true, goodEntries, hrej]
        rw [parseLines_spec toInt base ls _ _]
        rfl
      · have hp' : startsWith pyPrefix e.typ = false := by simpa using hp
        simp [parseLines, he', hp', goodEntries, hrej, parseLines_spec toInt base ls _ _]
    · have hrej : rejected toInt (l :: ls) = l :: rejected toInt ls := by
        simp [rejected, List.filter_cons, hv']
      simp only [parseLines, hv', goodEntries, hrej]
      rw [parseLines_spec toInt base ls _ _]
      simp

theorem goodEntries_filter (toInt : Str → Option Int) (base : Str) :
    ∀ ls : List Str, goodEntries toInt base (ls.filter (isGood toInt)) = goodEntries toInt base ls
  | [] => rfl
  | l :: ls => by
    have ih := goodEntries_filter toInt base ls
    cases hp : parseLine toInt l with
    | raised e =>
      have hg : isGood toInt l = false := by simp [isGood, hp]
      simp [List.filter_cons, hg, goodEntries, hp, ih]
    | ok e =>
      cases hs : startsWith pyPrefix e.typ with
      | true =>
        have hg : isGood toInt l = true := by simp [isGood, hp, hs]
        simp [List.filter_cons, hg, goodEntries, hp, hs, ih]
      | false =>
        have hg : isGood toInt l = false := by simp [isGood, hp, hs]
        simp [List.filter_cons, hg, goodEntries, hp, hs, ih]

theorem rejected_filter (toInt : Str → Option Int) :
    ∀ ls : List Str, rejected toInt (ls.filter (isGood toInt)) = []
  | [] => rfl
  | l :: ls => by
    have ih := rejected_filter toInt ls
    simp only [rejected] at ih ⊢
    cases hp : parseLine toInt l with
    | raised e =>
      have hg : isGood toInt l = false := by simp [isGood, hp]
      simpa [List.filter_cons, hg] using ih
    | ok e =>
      cases hs : startsWith pyPrefix e.typ with
      | true =>
        have hg : isGood toInt l = true := by simp [isGood, hp, hs]
        simp [List.filter_cons, hg, hp, ih]
      | false =>
        have hg : isGood toInt l = false := by simp [isGood, hp, hs]
        simpa [List.filter_cons, hg] using ih

/-- **good_lines_survive** (full statement, every file): the dict read from a file is the dict
read from its well-formed `py:` lines alone — malformed and foreign lines remove nothing, add
nothing, never abort the loop, and the rejected ones cost exactly one log message each. -/
theorem good_lines_survive (toInt : Str → Option Int) (base : Str) (ls : List Str) :
    parseLines toInt base ls [] [] =
      ((rejected toInt ls).map (fun l => LogMsg.badLine l base),
       .ok (Dict.update [] (goodEntries toInt base ls))) ∧
    parseLines toInt base (ls.filter (isGood toInt)) [] [] =
      ([], .ok (Dict.update [] (goodEntries toInt base ls))) := by
  constructor
  · simpa using parseLines_spec toInt base ls [] []
  · have := parseLines_spec toInt base (ls.filter (isGood toInt)) [] []
    rw [this, goodEntries_filter, rejected_filter]; rfl

/-- … and every well-formed line resolves: the entry of the last good line for a name is what
`_links` holds for it, whatever else is in the file. -/
theorem good_line_resolves (toInt : Str → Option Int) (base : Str) (ls : List Str)
    (name loc : Str) (pre post : List (Str × Link))
    (hsplit : goodEntries toInt base ls = pre ++ (name, (base, loc)) :: post)
    (hlast : ∀ kv ∈ post, kv.1 ≠ name) :
    ∃ d, (parseLines toInt base ls [] []).2 = .ok d ∧ d.get name = some (base, loc) := by
  refine ⟨_, by rw [(good_lines_survive toInt base ls).1], ?_⟩
  rw [hsplit]
  exact Dict.get_update_last [] pre post name (base, loc) hlast

def exGood : Str := "a py:x 1 l -".toList
def exBad : Str := "junk".toList
def exAbort : Str := "b py:x 1".toList

-- a file with a malformed line and with the formerly fatal priority-last line: the good line is
-- kept and both others are reported
example : parseLines pyInt ['B'] [exBad, exGood, exAbort] [] [] =
    ([.badLine exBad ['B'], .badLine exAbort ['B']], .ok [(['a'], (['B'], ['l']))]) := by decide

/-- PRE-FIX `_parseInventory` loop (over `parseLineOld`), kept only for the historical theorem below -/
def parseLinesOld (toInt : Str → Option Int) (base : Str) :
    List Str → Dict → List LogMsg → List LogMsg × Outcome Dict
  | [], d, log => (log, .ok d)
  | l :: ls, d, log =>
    match parseLineOld toInt l with
    | .raised .valueError => parseLinesOld toInt base ls d (log ++ [.badLine l base])
    | .raised e => (log, .raised e)
    | .ok e =>
      if startsWith pyPrefix e.typ then parseLinesOld toInt base ls (d.set e.name (base, e.location)) log
      else parseLinesOld toInt base ls d log

/-- PRE-FIX counterexample to `good_lines_survive`: one priority-last line lost the whole file —
the good line's entry was gone and the exception left `_parseInventory` (hence `update`). -/
theorem old_good_lines_survive_counterexample :
    (parseLinesOld pyInt ['B'] [exGood, exAbort] [] []).2 = .raised .indexError ∧
    (parseLinesOld pyInt ['B'] [exGood] [] []).2 = .ok [(['a'], (['B'], ['l']))] := by decide

/-! ## `update` -/

/-- **update_total** (full statement): whatever the URL, the bytes, and whatever zlib and the
UTF-8 decoder do, `SphinxInventory.update` returns. -/
theorem update_total (unzip : Bytes → Inflate) (decode : Bytes → Option Str)
    (toInt : Str → Option Int) (st : State) (url : Str) (data : Option Bytes) :
    (update unzip decode toInt st url data).2 = .ok () := by
  unfold update
  cases hb : rsplitSlash url with
  | none => rfl
  | some base =>
    cases data with
    | none => rfl
    | some bytes =>
      cases bytes with
      | nil => rfl
      | cons b bs =>
        simp only []
        cases hg : getPayload unzip decode base (b :: bs) with
        | mk log1 text =>
          simp only [parseInventory]
          rw [parseLines_spec toInt base _ [] []]

/-- … and what it leaves in `_links` is the old links updated with the good entries of the
decoded text; the log grows by the payload errors and one message per rejected line. -/
theorem update_spec (unzip : Bytes → Inflate) (decode : Bytes → Option Str)
    (toInt : Str → Option Int) (st : State) (url base : Str) (b : Nat) (bs : Bytes)
    (hb : rsplitSlash url = some base) :
    update unzip decode toInt st url (some (b :: bs)) =
      (let p := getPayload unzip decode base (b :: bs)
       let ls := splitlines p.2
       ({ links := st.links.update (Dict.update [] (goodEntries toInt base ls)),
          log := st.log ++ p.1 ++ (rejected toInt ls).map (fun l => LogMsg.badLine l base) }, .ok ())) := by
  unfold update
  simp only [hb]
  cases hg : getPayload unzip decode base (b :: bs) with
  | mk log1 text =>
    simp only [parseInventory]
    rw [parseLines_spec toInt base _ [] []]
    simp

/-- **update_unusable_reported** (full strength for what IS unusable now): a stream zlib rejects
(bad header, invalid data, failed checksum) is reported once and skipped — `update` returns,
`_links` is untouched, exactly one error is logged, whatever the decoder would do. -/
theorem update_unusable_reported (unzip : Bytes → Inflate) (decode : Bytes → Option Str)
    (toInt : Str → Option Int) (st : State) (url base : Str) (b : Nat) (bs : Bytes)
    (hb : rsplitSlash url = some base)
    (hfail : unzip (strippedPayload (b :: bs)) = .rejected) :
    update unzip decode toInt st url (some (b :: bs)) =
      ({ links := st.links, log := st.log ++ [.uncompress base] }, .ok ()) := by
  simp [update, hb, getPayload, hfail, parseInventory, splitlines, parseLines, Dict.update]

-- the formerly aborting inventory `a py:x 1 l -\nb py:x 1` now loads: `a` resolves, `b …` is reported
example :
    update (fun _ => .done [] true) (fun _ => some (exGood ++ '\n' :: exAbort)) pyInt ⟨[], []⟩
      "h/objects.inv".toList (some [120]) =
    (⟨[(['a'], (['h'], ['l']))], [.badLine exAbort ['h']]⟩, .ok ()) := by decide

/-! ## round trip: `parse (generate tree)` -/

/-- no whitespace character (`str.isspace`): the exact condition under which a column survives
`splitlines` and `split()` -/
def OkStr (s : Str) : Prop := ∀ c ∈ s, isReSpace c = false

/-- a usable name: not empty (`split()` drops empty columns) and free of whitespace -/
def OkName (s : Str) : Prop := s ≠ [] ∧ OkStr s

instance (s : Str) : Decidable (OkStr s) := by unfold OkStr; exact inferInstance

theorem OkStr_append {a b : Str} : OkStr (a ++ b) ↔ OkStr a ∧ OkStr b := by
  simp only [OkStr, List.mem_append]
  constructor
  · intro h; exact ⟨fun c hc => h c (Or.inl hc), fun c hc => h c (Or.inr hc)⟩
  · rintro ⟨h1, h2⟩ c (hc | hc)
    · exact h1 c hc
    · exact h2 c hc

instance (s : Str) : Decidable (OkName s) := by unfold OkName; exact inferInstance

theorem OkStr_cons {c : Char} {s : Str} : OkStr (c :: s) ↔ isReSpace c = false ∧ OkStr s := by
  simp [OkStr]

def lineBreaks : List Char :=
  ['\n', '\r', Char.ofNat 0x0b, Char.ofNat 0x0c, Char.ofNat 0x1c, Char.ofNat 0x1d, Char.ofNat 0x1e,
   Char.ofNat 0x85, Char.ofNat 0x2028, Char.ofNat 0x2029]

theorem isLineBreak_iff (c : Char) : isLineBreak c = true ↔ c ∈ lineBreaks := by
  simp [isLineBreak, lineBreaks, or_assoc]

def wsChars : List Char :=
  [' ', '\t', '\n', '\r', Char.ofNat 0x0b, Char.ofNat 0x0c, Char.ofNat 0x1c, Char.ofNat 0x1d, Char.ofNat 0x1e,
   Char.ofNat 0x1f, Char.ofNat 0x85, Char.ofNat 0xa0, Char.ofNat 0x1680, Char.ofNat 0x2000, Char.ofNat 0x2001,
   Char.ofNat 0x2002, Char.ofNat 0x2003, Char.ofNat 0x2004, Char.ofNat 0x2005, Char.ofNat 0x2006, Char.ofNat 0x2007,
   Char.ofNat 0x2008, Char.ofNat 0x2009, Char.ofNat 0x200a, Char.ofNat 0x2028, Char.ofNat 0x2029, Char.ofNat 0x202f,
   Char.ofNat 0x205f, Char.ofNat 0x3000]

theorem isReSpace_iff (c : Char) : isReSpace c = true ↔ c ∈ wsChars := by
  simp [isReSpace, wsChars]

theorem lineBreaks_are_space : ∀ b ∈ lineBreaks, isReSpace b = true := by decide

/-- a character that is not whitespace is neither the space nor a `splitlines` separator -/
theorem notWs_facts {c : Char} (h : isReSpace c = false) : c ≠ ' ' ∧ isLineBreak c = false := by
  constructor
  · intro hc; subst hc; revert h; decide
  · cases hb : isLineBreak c with
    | false => rfl
    | true =>
      have := lineBreaks_are_space c ((isLineBreak_iff c).mp hb)
      rw [this] at h; cases h

/-- characters that must not appear in a written column (`$` matters at the end of a location) -/
def badChar (c : Char) : Bool := isReSpace c || c = '$'

theorem bad_not_safe : ∀ b ∈ '$' :: wsChars, isSafeChar b = false := by decide

theorem safe_not_bad (c : Char) (h : isSafeChar c = true) : badChar c = false := by
  cases hb : badChar c with
  | false => rfl
  | true =>
    exfalso
    have hmem : c ∈ '$' :: wsChars := by
      simp only [badChar, Bool.or_eq_true, decide_eq_true_eq] at hb
      rcases hb with h1 | h3
      · have := (isReSpace_iff c).mp h1; simp [this]
      · simp [h3]
    rw [bad_not_safe c hmem] at h
    cases h

theorem hexDigit_not_bad : ∀ n, n < 16 → badChar (hexDigit n) = false := by decide

theorem quote_not_bad (s : Str) : ∀ c ∈ quote s, badChar c = false := by
  intro c hc
  simp only [quote, List.mem_flatMap] at hc
  obtain ⟨c0, -, hc0⟩ := hc
  by_cases hs : isSafeChar c0 = true
  · simp only [hs, if_true, List.mem_singleton] at hc0
    subst hc0; exact safe_not_bad _ hs
  · rw [if_neg hs] at hc0
    simp only [List.mem_flatMap] at hc0
    obtain ⟨b, -, hb⟩ := hc0
    simp only [pct, List.mem_cons, List.not_mem_nil, or_false] at hb
    rcases hb with rfl | rfl | rfl
    · decide
    · exact hexDigit_not_bad _ (Nat.mod_lt _ (by decide))
    · exact hexDigit_not_bad _ (Nat.mod_lt _ (by decide))

theorem OkStr_of_not_bad {s : Str} (h : ∀ c ∈ s, badChar c = false) : OkStr s := by
  intro c hc
  have := h c hc
  simp only [badChar, Bool.or_eq_false_iff, decide_eq_false_iff_not] at this
  exact this.1

theorem quote_ok (s : Str) : OkStr (quote s) := OkStr_of_not_bad (quote_not_bad s)

theorem quote_no_dollar (s : Str) : '$' ∉ quote s := by
  intro h
  have := quote_not_bad s _ h
  simp [badChar] at this

theorem pageUrl_ok (rn : List Str) (full : Str) : OkStr (pageUrl rn full) := by
  unfold pageUrl
  split
  · unfold indexHtml; decide
  · exact OkStr_append.mpr ⟨quote_ok _, by unfold dotHtml; decide⟩

theorem urlPure_ok (rn : List Str) (parent : Option Str) (name : Str) (kind : Kind) :
    OkStr (urlPure rn parent name kind) := by
  unfold urlPure
  split
  · exact pageUrl_ok _ _
  · exact OkStr_append.mpr ⟨pageUrl_ok _ _, OkStr_cons.mpr ⟨by decide, quote_ok _⟩⟩

theorem domain_ok (kind : Kind) : OkStr (pyPrefix ++ kind.domain) := by
  cases kind <;> decide

/-- a written location is never empty and never ends in `$` (so `getLink` returns it unchanged) -/
theorem urlPure_last (rn : List Str) (parent : Option Str) (name : Str) (kind : Kind) :
    urlPure rn parent name kind ≠ [] ∧ (urlPure rn parent name kind).getLast? ≠ some '$' := by
  have hpage : ∀ full, pageUrl rn full ≠ [] ∧ (pageUrl rn full).getLast? ≠ some '$' := by
    intro full
    unfold pageUrl
    split
    · unfold indexHtml; decide
    · constructor
      · simp [dotHtml]
      · simp [dotHtml, List.getLast?_append]
  unfold urlPure
  split
  · exact hpage _
  · constructor
    · simp
    · rw [List.getLast?_append]
      cases hq : (quote name).getLast? with
      | none => simp [List.getLast?_cons, hq]
      | some c =>
        have hc : c ∈ quote name := List.mem_of_getLast? hq
        have := quote_no_dollar name
        simp only [List.getLast?_cons, hq, Option.getD_some, Option.some_or]
        intro heq
        simp only [Option.some.injEq] at heq
        subst heq
        exact this hc

/-- the five columns of a written line -/
def columns (full : Str) (kind : Kind) (url : Str) : List Str :=
  [full, pyPrefix ++ kind.domain, ['-', '1'], url, ['-']]

theorem lineText_eq_join (full : Str) (kind : Kind) (url : Str) :
    lineText full kind url = pyJoin (columns full kind url) := by
  simp [lineText, pyJoin, columns, List.intercalate_cons_cons, List.intercalate_singleton]

theorem pyInt_minus_one : pyInt ['-', '1'] = some (-1) := by decide

/-- `split()` reads a whitespace-free run into the current token -/
theorem splitWsAux_token : ∀ (t rest cur : Str), OkStr t →
    splitWsAux (t ++ rest) cur = splitWsAux rest (t.reverse ++ cur)
  | [], rest, cur, _ => by simp
  | c :: t, rest, cur, h => by
    have hc : isReSpace c = false := h c (by simp)
    have ih := splitWsAux_token t rest (c :: cur) (fun x hx => h x (by simp [hx]))
    simp [splitWsAux, hc, ih]

/-- `split()` is the left inverse of `' '.join` on non-empty whitespace-free tokens -/
theorem pySplitWs_join : ∀ (toks : List Str), (∀ t ∈ toks, OkName t) → pySplitWs (pyJoin toks) = toks
  | [], _ => by simp [pySplitWs, pyJoin, splitWsAux]
  | [t], h => by
    obtain ⟨hne, hok⟩ := h t (by simp)
    have := splitWsAux_token t [] [] hok
    simp only [List.append_nil] at this
    simp [pySplitWs, pyJoin, List.intercalate_singleton, this, splitWsAux, hne]
  | t :: t' :: ts, h => by
    obtain ⟨hne, hok⟩ := h t (by simp)
    have ih := pySplitWs_join (t' :: ts) (fun x hx => h x (by simp [hx]))
    have hj : pyJoin (t :: t' :: ts) = t ++ ' ' :: pyJoin (t' :: ts) := by
      simp [pyJoin, List.intercalate_cons_cons]
    have hsp : isReSpace ' ' = true := by decide
    simp only [pySplitWs] at ih ⊢
    rw [hj, splitWsAux_token t _ [] hok]
    simp [splitWsAux, hsp, hne, ih]

/-- a written line parses back to its columns -/
theorem parseLine_lineText (full : Str) (kind : Kind) (url : Str) (hf : OkName full) (hu : OkName url) :
    parseLine pyInt (lineText full kind url) =
      .ok ⟨full, pyPrefix ++ kind.domain, -1, url, ['-']⟩ := by
  have hx : ∀ l ∈ columns full kind url, OkName l := by
    intro l hl
    simp only [columns, List.mem_cons, List.not_mem_nil, or_false] at hl
    rcases hl with rfl | rfl | rfl | rfl | rfl
    · exact hf
    · exact ⟨by simp [pyPrefix], domain_ok kind⟩
    · decide
    · exact hu
    · decide
  have hsplit : pySplitWs (lineText full kind url) = columns full kind url := by
    rw [lineText_eq_join]
    exact pySplitWs_join _ hx
  unfold parseLine
  rw [hsplit]
  simp [parseParts, columns, scanPrio, pyInt_minus_one, getIdx, pyJoin, List.intercalate_singleton]

theorem splitlines_append_nl : ∀ (l rest : Str), (∀ c ∈ l, isLineBreak c = false) →
    splitlines (l ++ '\n' :: rest) = l :: splitlines rest
  | [], rest, _ => by
    have h1 : ('\n' == '\r') = false := by decide
    have h2 : isLineBreak '\n' = true := by decide
    simp [splitlines, h2]
  | c :: l, rest, h => by
    have hc : isLineBreak c = false := h c (by simp)
    have hcr : c ≠ '\r' := by
      intro heq; subst heq
      have : isLineBreak '\r' = true := by decide
      rw [this] at hc; cases hc
    have ih := splitlines_append_nl l rest (fun x hx => h x (by simp [hx]))
    simp [splitlines, hcr, hc, ih]

theorem lineText_nobreak (full : Str) (kind : Kind) (url : Str) (hf : OkStr full) (hu : OkStr url) :
    ∀ c ∈ lineText full kind url, isLineBreak c = false := by
  intro c hc
  have hd := domain_ok kind
  simp only [lineText, List.mem_append, List.mem_cons, List.not_mem_nil, or_false, or_assoc] at hc
  rcases hc with hc | rfl | hc | hc | rfl | rfl | rfl | rfl | hc | rfl | rfl
  · exact (notWs_facts (hf c hc)).2
  · decide
  · exact (notWs_facts (hd c (by simp [hc]))).2
  · exact (notWs_facts (hd c (by simp [hc]))).2
  all_goals first | decide | exact (notWs_facts (hu c hc)).2

/-- the text `_generateContent` produces for a list of objects -/
def render (objs : List Obj) : Str :=
  objs.flatMap fun o => lineText o.full o.kind o.url ++ ['\n']

def ObjOk (o : Obj) : Prop := OkName o.full ∧ OkName o.url

theorem splitlines_render : ∀ (objs : List Obj), (∀ o ∈ objs, ObjOk o) →
    splitlines (render objs) = objs.map fun o => lineText o.full o.kind o.url
  | [], _ => by simp [render, splitlines]
  | o :: objs, h => by
    have ho := h o (by simp)
    have ih := splitlines_render objs (fun x hx => h x (by simp [hx]))
    simp only [render, List.flatMap_cons, List.append_assoc, List.singleton_append, List.map_cons] at ih ⊢
    rw [splitlines_append_nl _ _ (lineText_nobreak _ _ _ ho.1.2 ho.2.2), ih]

def entryOf (base : Str) (o : Obj) : Str × Link := (o.full, (base, o.url))

theorem startsWith_prefix (s : Str) : startsWith pyPrefix (pyPrefix ++ s) = true := by
  simp [startsWith, pyPrefix]

theorem parseLines_render (base : Str) : ∀ (objs : List Obj) (d : Dict) (log : List LogMsg),
    (∀ o ∈ objs, ObjOk o) →
    parseLines pyInt base (objs.map fun o => lineText o.full o.kind o.url) d log =
      (log, .ok (d.update (objs.map (entryOf base))))
  | [], d, log, _ => by simp [parseLines, Dict.update]
  | o :: objs, d, log, h => by
    have ho := h o (by simp)
    have ih := parseLines_render base objs (d.set o.full (base, o.url)) log
      (fun x hx => h x (by simp [hx]))
    simp only [List.map_cons, parseLines, parseLine_lineText _ _ _ ho.1 ho.2, startsWith_prefix, if_true]
    rw [ih]
    rfl

/-- reading back rendered objects gives exactly their entries, nothing logged -/
theorem parseInventory_render (base : Str) (objs : List Obj) (h : ∀ o ∈ objs, ObjOk o) :
    parseInventory pyInt base (render objs) = ([], .ok (Dict.update [] (objs.map (entryOf base)))) := by
  unfold parseInventory
  rw [splitlines_render objs h, parseLines_render base objs [] [] h]

/-! ### the writer produces `render (visible objects)` -/

theorem urlOf_some (rn : List Str) (p name : Str) (kind : Kind) :
    urlOf rn (some p) name kind = .ok (urlPure rn (some p) name kind) := by
  unfold urlOf urlPure
  split <;> simp

theorem urlOf_ownPage (rn : List Str) (parent : Option Str) (name : Str) (kind : Kind)
    (h : kind.ownPage = true) : urlOf rn parent name kind = .ok (urlPure rn parent name kind) := by
  simp [urlOf, urlPure, h]

mutual
theorem genTree_some (rn : List Str) (p : Str) :
    (t : Tree) → genTree rn (some p) t = .ok (render (visTree rn (some p) t))
  | .node name kind hidden cs => by
    cases hidden with
    | true => simp [genTree, visTree, render]
    | false =>
      simp [genTree, visTree, render, genLine, urlOf_some, genList_some rn (fullNameOf (some p) name) cs]
theorem genList_some (rn : List Str) (p : Str) :
    (ts : List Tree) → genList rn (some p) ts = .ok (render (visList rn (some p) ts))
  | [] => by simp [genList, visList, render]
  | t :: ts => by
    simp [genList, visList, genTree_some rn p t, genList_some rn p ts, render]
end

/-- every visible root has a page of its own (`System.addObject` only accepts modules as roots) -/
def rootsOk : List Tree → Prop
  | [] => True
  | (.node _ kind hidden _) :: ts => (hidden = true ∨ kind.ownPage = true) ∧ rootsOk ts

theorem genList_roots (rn : List Str) : (ts : List Tree) → rootsOk ts →
    genList rn none ts = .ok (render (visList rn none ts))
  | [], _ => by simp [genList, visList, render]
  | (.node name kind hidden cs) :: ts, h => by
    obtain ⟨h1, h2⟩ := h
    have ih := genList_roots rn ts h2
    cases hidden with
    | true => simp [genList, genTree, visList, visTree, ih]
    | false =>
      have hk : kind.ownPage = true := by simpa using h1
      simp [genList, genTree, visList, visTree, ih, genLine, urlOf_ownPage _ _ _ _ hk,
        genList_some rn (fullNameOf none name) cs, render]

mutual
theorem visTree_url_ok (rn : List Str) (parent : Option Str) :
    (t : Tree) → ∀ o ∈ visTree rn parent t, OkStr o.url
  | .node name kind hidden cs => by
    intro o ho
    cases hidden with
    | true => simp [visTree] at ho
    | false =>
      simp only [visTree, Bool.false_eq_true, if_false, List.mem_cons] at ho
      rcases ho with rfl | ho
      · exact urlPure_ok _ _ _ _
      · exact visList_url_ok rn _ cs o ho
theorem visList_url_ok (rn : List Str) (parent : Option Str) :
    (ts : List Tree) → ∀ o ∈ visList rn parent ts, OkStr o.url
  | [] => by simp [visList]
  | t :: ts => by
    intro o ho
    simp only [visList, List.mem_append] at ho
    rcases ho with ho | ho
    · exact visTree_url_ok rn parent t o ho
    · exact visList_url_ok rn parent ts o ho
end

mutual
theorem visTree_url_last (rn : List Str) (parent : Option Str) :
    (t : Tree) → ∀ o ∈ visTree rn parent t, o.url ≠ [] ∧ o.url.getLast? ≠ some '$'
  | .node name kind hidden cs => by
    intro o ho
    cases hidden with
    | true => simp [visTree] at ho
    | false =>
      simp only [visTree, Bool.false_eq_true, if_false, List.mem_cons] at ho
      rcases ho with rfl | ho
      · exact urlPure_last _ _ _ _
      · exact visList_url_last rn _ cs o ho
theorem visList_url_last (rn : List Str) (parent : Option Str) :
    (ts : List Tree) → ∀ o ∈ visList rn parent ts, o.url ≠ [] ∧ o.url.getLast? ≠ some '$'
  | [] => by simp [visList]
  | t :: ts => by
    intro o ho
    simp only [visList, List.mem_append] at ho
    rcases ho with ho | ho
    · exact visTree_url_last rn parent t o ho
    · exact visList_url_last rn parent ts o ho
end

/-- **roundtrip**.  For every forest whose visible roots are page objects and whose visible
objects' full names contain no space and no line-break character: the writer succeeds, and
pydoctor's reader maps its output to exactly the dict built, in document order, from the visible
reachable objects — name ↦ (base, url) — with nothing logged.

Hypothesis `hnames` (full names are non-empty and free of whitespace) is needed (see `roundtrip_needs_names`) and is what pydoctor's builder
guarantees for reachable objects (names are Python identifiers). -/
theorem roundtrip (roots : List Tree) (base : Str) (hroots : rootsOk roots)
    (hnames : ∀ o ∈ visibleObjects roots, OkName o.full) :
    ∃ content, generateContent roots = .ok content ∧
      parseInventory pyInt base content =
        ([], .ok (Dict.update [] ((visibleObjects roots).map (entryOf base)))) := by
  refine ⟨render (visibleObjects roots), genList_roots _ roots hroots, ?_⟩
  apply parseInventory_render
  intro o ho
  exact ⟨hnames o ho, (visList_url_last _ none roots o ho).1, visList_url_ok _ none roots o ho⟩

theorem Dict.set_not_mem : ∀ (d : Dict) (k : Str) (v : Link), k ∉ d.map (·.1) → d.set k v = d ++ [(k, v)]
  | [], k, v, _ => rfl
  | (k', v') :: d, k, v, h => by
    simp only [List.map_cons, List.mem_cons, not_or] at h
    have hk : ¬ k' = k := fun hc => h.1 hc.symm
    simp [Dict.set, hk, Dict.set_not_mem d k v h.2]

theorem Dict.update_nodup : ∀ (l : List (Str × Link)) (d : Dict), ((d ++ l).map (·.1)).Nodup →
    d.update l = d ++ l
  | [], d, _ => by simp [Dict.update]
  | kv :: l, d, h => by
    have hk : kv.1 ∉ d.map (·.1) := by
      intro hc
      simp only [List.map_append, List.map_cons, List.nodup_append, List.nodup_cons] at h
      exact h.2.2 _ hc _ (by simp) rfl
    have : d.update (kv :: l) = (d.set kv.1 kv.2).update l := rfl
    rw [this, Dict.set_not_mem d kv.1 kv.2 hk]
    have h' : (((d ++ [(kv.1, kv.2)]) ++ l).map (·.1)).Nodup := by simpa using h
    rw [Dict.update_nodup l _ h']
    simp

theorem Dict.get_of_mem_nodup : ∀ (d : Dict) (k : Str) (v : Link), (d.map (·.1)).Nodup → (k, v) ∈ d →
    d.get k = some v
  | [], _, _, _, h => by simp at h
  | (k', v') :: d, k, v, hn, h => by
    simp only [List.map_cons, List.nodup_cons] at hn
    simp only [List.mem_cons, Prod.mk.injEq] at h
    rcases h with ⟨rfl, rfl⟩ | h
    · simp [Dict.get, List.lookup]
    · have hne : (k == k') = false := by
        simp only [beq_eq_false_iff_ne, ne_eq]
        intro hc; subst hc
        exact hn.1 (List.mem_map.mpr ⟨(k, v), h, rfl⟩)
      have := Dict.get_of_mem_nodup d k v hn.2 h
      simp only [Dict.get] at this
      simp [Dict.get, List.lookup, hne, this]

theorem Dict.get_none_of_not_mem : ∀ (d : Dict) (k : Str), k ∉ d.map (·.1) → d.get k = none
  | [], _, _ => rfl
  | (k', v') :: d, k, h => by
    simp only [List.map_cons, List.mem_cons, not_or] at h
    have hne : (k == k') = false := by simpa using h.1
    have := Dict.get_none_of_not_mem d k h.2
    simp only [Dict.get] at this
    simp [Dict.get, List.lookup, hne, this]

theorem Dict.keys_set : ∀ (d : Dict) (k : Str) (v : Link),
    (d.set k v).map (·.1) = if k ∈ d.map (·.1) then d.map (·.1) else d.map (·.1) ++ [k]
  | [], k, v => by simp [Dict.set]
  | (k', v') :: d, k, v => by
    have ih := Dict.keys_set d k v
    by_cases hk : k' = k
    · subst hk; simp [Dict.set]
    · have hk' : ¬ k = k' := fun hc => hk hc.symm
      simp only [Dict.set, hk, if_false, List.map_cons, ih, List.mem_cons, hk', false_or]
      split <;> simp

theorem Dict.nodup_set (d : Dict) (k : Str) (v : Link) (h : (d.map (·.1)).Nodup) :
    ((d.set k v).map (·.1)).Nodup := by
  rw [Dict.keys_set]
  split
  · exact h
  · rename_i hk
    rw [List.nodup_append]
    exact ⟨h, by simp, by intro a ha b hb; simp at hb; subst hb; exact fun hc => hk (hc ▸ ha)⟩

theorem Dict.nodup_update : ∀ (l : List (Str × Link)) (d : Dict), (d.map (·.1)).Nodup →
    ((d.update l).map (·.1)).Nodup
  | [], d, h => h
  | kv :: l, d, h => Dict.nodup_update l (d.set kv.1 kv.2) (Dict.nodup_set d kv.1 kv.2 h)

/-- loading a parsed dict into an empty `_links` gives that dict -/
theorem Dict.update_empty_self (l : List (Str × Link)) :
    Dict.update [] (Dict.update [] l) = Dict.update [] l :=
  Dict.update_nodup _ [] (by simpa using Dict.nodup_update l [] (by simp))

/-- **roundtrip_exact** ("exactly one entry per visible documented object"): if moreover the
visible objects have pairwise distinct full names, the dict read back is literally the list of
visible reachable objects, each once, in document order, name ↦ (base, url). -/
theorem roundtrip_exact (roots : List Tree) (base : Str) (hroots : rootsOk roots)
    (hnames : ∀ o ∈ visibleObjects roots, OkName o.full)
    (hdistinct : ((visibleObjects roots).map (·.full)).Nodup) :
    ∃ content, generateContent roots = .ok content ∧
      parseInventory pyInt base content = ([], .ok ((visibleObjects roots).map (entryOf base))) := by
  obtain ⟨content, h1, h2⟩ := roundtrip roots base hroots hnames
  refine ⟨content, h1, ?_⟩
  rw [h2, Dict.update_nodup _ [] (by simpa [entryOf, Function.comp_def] using hdistinct)]
  simp

/-- **getLink_roundtrip**: through `getLink`, every visible object resolves to
`base/url` (its page and anchor), and a name that is not a visible object's does not resolve. -/
theorem getLink_roundtrip (roots : List Tree) (base : Str)
    (hdistinct : ((visibleObjects roots).map (·.full)).Nodup) :
    let d : Dict := (visibleObjects roots).map (entryOf base)
    (∀ o ∈ visibleObjects roots, getLink d o.full = some (base ++ '/' :: o.url)) ∧
    (∀ n, n ∉ (visibleObjects roots).map (·.full) → getLink d n = none) := by
  intro d
  have hkeys : d.map (·.1) = (visibleObjects roots).map (·.full) := by
    simp [d, entryOf, Function.comp_def]
  constructor
  · intro o ho
    have hmem : (o.full, (base, o.url)) ∈ d := List.mem_map.mpr ⟨o, ho, rfl⟩
    have hget := Dict.get_of_mem_nodup d _ _ (by rw [hkeys]; exact hdistinct) hmem
    obtain ⟨hne, hlast⟩ := visList_url_last _ none roots o ho
    simp [getLink, hget, hne, hlast]
  · intro n hn
    have := Dict.get_none_of_not_mem d n (by rw [hkeys]; exact hn)
    simp [getLink, this]

/-! ### non-vacuity and necessity of the hypotheses -/

/-- package `pk` (single root, so its page is index.html) with module `m` holding a class `C`
with nested class `N` and method `f`, a hidden class `H` with a method, and a function -/
def exForest : List Tree :=
  [.node ['p','k'] .package false
    [.node ['m'] .module false
      [.node ['C'] .klass false [.node ['N'] .klass false [], .node ['f'] .method false []],
       .node ['H'] .klass true [.node ['g'] .method false []],
       .node ['f','n'] .function false []]]]

example : rootsOk exForest ∧ (∀ o ∈ visibleObjects exForest, OkName o.full) ∧
    ((visibleObjects exForest).map (·.full)).Nodup := by
  refine ⟨by simp [rootsOk, exForest, Kind.ownPage], by decide, by decide⟩

example : (visibleObjects exForest).map (fun o => (String.ofList o.full, String.ofList o.url)) =
    [("pk", "index.html"), ("pk.m", "pk.m.html"), ("pk.m.C", "pk.m.C.html"), ("pk.m.C.N", "pk.m.C.N.html"),
     ("pk.m.C.f", "pk.m.C.html#f"), ("pk.m.fn", "pk.m.html#fn")] := by decide

/-- without `hnames` the statement fails: the line written for a (superseded-style) name
`x 0 1` is read back as name `m.x`, type `0`, priority 1, location `py:class` — a non-Python
reference, silently dropped: the visible class has no entry. -/
theorem roundtrip_needs_names :
    (match generateContent [.node ['m'] .module false [.node ['x',' ','0',' ','1'] .klass false []]] with
     | .ok c => (parseInventory pyInt ['B'] c) == ([], .ok [(['m'], (['B'], "index.html".toList))])
     | .raised _ => false) = true := by decide

/-- without `rootsOk` the writer itself fails (`assert parent is not None` in `page_object`) -/
theorem generate_needs_rootsOk :
    generateContent [.node ['f'] .function false []] = .raised .assertionError := by decide

/-! ## one reader over time: lookups depend on the current `_links` only -/

theorem runSteps_append (toInt : Str → Option Int) : ∀ (a b : List Step) (st : State),
    runSteps toInt st (a ++ b) =
      ((runSteps toInt (runSteps toInt st a).1 b).1,
       (runSteps toInt st a).2 ++ (runSteps toInt (runSteps toInt st a).1 b).2)
  | [], b, st => by simp [runSteps]
  | s :: a, b, st => by
    simp only [List.cons_append, runSteps, runSteps_append toInt a b]

/-- lookups do not change the reader: the state after any history is the state after its
`update` calls alone -/
theorem runSteps_state_ignores_asks (toInt : Str → Option Int) : ∀ (steps : List Step) (st : State),
    (runSteps toInt st steps).1 = (runSteps toInt st (steps.filter Step.isUpd)).1
  | [], st => rfl
  | .ask n :: ss, st => by
    simp only [runSteps, step, List.filter_cons, Step.isUpd]
    exact runSteps_state_ignores_asks toInt ss st
  | .upd z d u b :: ss, st => by
    simp only [runSteps, step, List.filter_cons, Step.isUpd, if_true]
    exact runSteps_state_ignores_asks toInt ss _

/-- **getLink_after_update** (history independence): whatever was loaded, failed to load, or
was looked up before — including earlier lookups of the same name that found nothing — the answer
of `getLink(name)` is the lookup in the links map produced by the `update` calls so far. -/
theorem getLink_after_update (toInt : Str → Option Int) (st : State) (steps : List Step) (name : Str) :
    (runSteps toInt st (steps ++ [.ask name])).2.getLast? =
      some (.inr (getLink (runSteps toInt st (steps.filter Step.isUpd)).1.links name)) := by
  rw [runSteps_append]
  simp only [runSteps, step, List.getLast?_append, List.getLast?_singleton, Option.some_or]
  rw [runSteps_state_ignores_asks]

theorem Dict.get_update_of_get : ∀ (d : Dict) (links : Dict) (k : Str) (v : Link),
    (d.map (·.1)).Nodup → Dict.get d k = some v → Dict.get (Dict.update links d) k = some v
  | [], _, _, _, _, h => by simp [Dict.get, List.lookup] at h
  | (k', v') :: d, links, k, v, hn, h => by
    simp only [List.map_cons, List.nodup_cons] at hn
    have hstep : Dict.update links ((k', v') :: d) = Dict.update (Dict.set links k' v') d := rfl
    rw [hstep]
    by_cases hk : k = k'
    · subst hk
      have hv : v' = v := by simpa [Dict.get, List.lookup] using h
      subst hv
      rw [Dict.get_update_not_mem d _ k, Dict.get_set_self]
      intro kv hkv heq
      exact hn.1 (List.mem_map.mpr ⟨kv, hkv, heq⟩)
    · have hb : (k == k') = false := by simpa using hk
      have h' : Dict.get d k = some v := by simpa [Dict.get, List.lookup, hb] using h
      exact Dict.get_update_of_get d _ k v hn.2 h'

/-- **update_latest_wins**: what the most recent successful load says about a name is what the
reader holds for it afterwards, whatever `_links` held before (and hence, by
`getLink_after_update`, what every later `getLink` answers until another load redefines it). -/
theorem update_latest_wins (unzip : Bytes → Inflate) (decode : Bytes → Option Str)
    (toInt : Str → Option Int) (st : State) (url base : Str) (b : Nat) (bs : Bytes)
    (hb : rsplitSlash url = some base) (name : Str) (v : Link)
    (hdef : (Dict.update [] (goodEntries toInt base
      (splitlines (getPayload unzip decode base (b :: bs)).2))).get name = some v) :
    (update unzip decode toInt st url (some (b :: bs))).1.links.get name = some v := by
  rw [update_spec unzip decode toInt st url base b bs hb]
  exact Dict.get_update_of_get _ _ _ _ (by simpa using Dict.nodup_update _ [] (by simp)) hdef

/-- a load that fails as a whole leaves every earlier answer in place -/
theorem failed_update_keeps_links (unzip : Bytes → Inflate) (decode : Bytes → Option Str)
    (toInt : Str → Option Int) (st : State) (url base : Str) (b : Nat) (bs : Bytes)
    (hb : rsplitSlash url = some base)
    (hfail : unzip (strippedPayload (b :: bs)) = .rejected) :
    (update unzip decode toInt st url (some (b :: bs))).1.links = st.links := by
  rw [update_unusable_reported unzip decode toInt st url base b bs hb hfail]

-- non-vacuity (the seeded memoisation scenario): ask `a` (nothing loaded: None), a load that
-- fails, ask again, the load that defines `a`, ask again → the last answer is the link
example :
    (runSteps pyInt ⟨[], []⟩
      [.ask ['a'],
       .upd (fun _ => .rejected) (fun _ => none) "h/objects.inv".toList (some [120]),
       .ask ['a'],
       .upd (fun _ => .done [] true) (fun _ => some exGood) "h/objects.inv".toList (some [120]),
       .ask ['a']]).2 =
    [.inr none, .inl (.ok ()), .inr none, .inl (.ok ()), .inr (some "h/l".toList)] := by decide


/-! ### discharging the name hypotheses from the shape of the object tree

`contents` is a dict keyed by name (sibling names are distinct) and the builder only creates
objects named by Python identifiers (no space, no line break, no dot).  From exactly that the two
hypotheses of `roundtrip_exact` follow. -/

def namesOf (ts : List Tree) : List Str := ts.map Tree.name

mutual
/-- every name is a plain identifier-like string and sibling names are pairwise distinct -/
def WellNamed : Tree → Prop
  | .node n _ _ cs => OkName n ∧ '.' ∉ n ∧ WellNamedList cs ∧ (namesOf cs).Nodup
def WellNamedList : List Tree → Prop
  | [] => True
  | t :: ts => WellNamed t ∧ WellNamedList ts
end

theorem WellNamedList_mem : ∀ (ts : List Tree), WellNamedList ts → ∀ t ∈ ts, WellNamed t
  | [], _, _, h => by simp at h
  | t :: ts, hw, t', h => by
    simp only [WellNamedList] at hw
    simp only [List.mem_cons] at h
    rcases h with rfl | h
    · exact hw.1
    · exact WellNamedList_mem ts hw.2 t' h

theorem WellNamed_name : (t : Tree) → WellNamed t → OkName t.name ∧ '.' ∉ t.name
  | .node n _ _ _, h => by simp only [WellNamed] at h; exact ⟨h.1, h.2.1⟩

theorem fullNameOf_ok (parent : Option Str) (n : Str) (hp : ∀ p, parent = some p → OkName p)
    (hn : OkName n) : OkName (fullNameOf parent n) := by
  cases parent with
  | none => exact hn
  | some p => exact ⟨by simp [fullNameOf], OkStr_append.mpr ⟨(hp p rfl).2, OkStr_cons.mpr ⟨by decide, hn.2⟩⟩⟩

mutual
theorem visTree_full_ok (rn : List Str) (parent : Option Str) (hp : ∀ p, parent = some p → OkName p) :
    (t : Tree) → WellNamed t → ∀ o ∈ visTree rn parent t, OkName o.full
  | .node name kind hidden cs => by
    intro hw o ho
    simp only [WellNamed] at hw
    cases hidden with
    | true => simp [visTree] at ho
    | false =>
      have hF := fullNameOf_ok parent name hp hw.1
      simp only [visTree, Bool.false_eq_true, if_false, List.mem_cons] at ho
      rcases ho with rfl | ho
      · exact hF
      · exact visList_full_ok rn (some (fullNameOf parent name))
          (fun p h => by simp only [Option.some.injEq] at h; subst h; exact hF) cs hw.2.2.1 o ho
theorem visList_full_ok (rn : List Str) (parent : Option Str) (hp : ∀ p, parent = some p → OkName p) :
    (ts : List Tree) → WellNamedList ts → ∀ o ∈ visList rn parent ts, OkName o.full
  | [] => by simp [visList]
  | t :: ts => by
    intro hw o ho
    simp only [WellNamedList] at hw
    simp only [visList, List.mem_append] at ho
    rcases ho with ho | ho
    · exact visTree_full_ok rn parent hp t hw.1 o ho
    · exact visList_full_ok rn parent hp ts hw.2 o ho
end

/-- `s` is `F` or `F` followed by a dotted path -/
def Under (F s : Str) : Prop := ∃ x, (x = [] ∨ ∃ r, x = '.' :: r) ∧ s = F ++ x

mutual
theorem visTree_under (rn : List Str) (parent : Option Str) :
    (t : Tree) → ∀ o ∈ visTree rn parent t, Under (fullNameOf parent t.name) o.full
  | .node name kind hidden cs => by
    intro o ho
    cases hidden with
    | true => simp [visTree] at ho
    | false =>
      simp only [visTree, Bool.false_eq_true, if_false, List.mem_cons] at ho
      rcases ho with rfl | ho
      · exact ⟨[], Or.inl rfl, by simp [Tree.name]⟩
      · obtain ⟨t, -, x, hx, hs⟩ := visList_under rn (some (fullNameOf parent name)) cs o ho
        refine ⟨'.' :: (t.name ++ x), Or.inr ⟨_, rfl⟩, ?_⟩
        rw [hs]; simp [fullNameOf, Tree.name]
theorem visList_under (rn : List Str) (parent : Option Str) :
    (ts : List Tree) → ∀ o ∈ visList rn parent ts, ∃ t ∈ ts, Under (fullNameOf parent t.name) o.full
  | [] => by simp [visList]
  | t :: ts => by
    intro o ho
    simp only [visList, List.mem_append] at ho
    rcases ho with ho | ho
    · exact ⟨t, by simp, visTree_under rn parent t o ho⟩
    · obtain ⟨t', ht', hu⟩ := visList_under rn parent ts o ho
      exact ⟨t', by simp [ht'], hu⟩
end

/-- two dot-free names followed by nothing or by a dotted path are equal as strings only if the
names are equal -/
theorem sep_inj : ∀ (a b x y : Str), '.' ∉ a → '.' ∉ b → (x = [] ∨ ∃ r, x = '.' :: r) →
    (y = [] ∨ ∃ r, y = '.' :: r) → a ++ x = b ++ y → a = b
  | [], [], _, _, _, _, _, _, _ => rfl
  | [], d :: b, x, y, _, hb, hx, _, h => by
    exfalso
    simp only [List.nil_append, List.cons_append] at h
    rcases hx with rfl | ⟨r, rfl⟩
    · cases h
    · simp only [List.cons.injEq] at h
      exact hb (by simp [← h.1])
  | c :: a, [], x, y, ha, _, _, hy, h => by
    exfalso
    simp only [List.nil_append, List.cons_append] at h
    rcases hy with rfl | ⟨r, rfl⟩
    · cases h
    · simp only [List.cons.injEq] at h
      exact ha (by simp [h.1])
  | c :: a, d :: b, x, y, ha, hb, hx, hy, h => by
    simp only [List.cons_append, List.cons.injEq] at h
    simp only [List.mem_cons, not_or] at ha hb
    rw [h.1, sep_inj a b x y ha.2 hb.2 hx hy h.2]

/-- `fullNameOf parent n = prefix ++ n` with the same prefix for all siblings -/
theorem fullNameOf_prefix (parent : Option Str) : ∃ pre : Str, ∀ n, fullNameOf parent n = pre ++ n := by
  cases parent with
  | none => exact ⟨[], fun n => rfl⟩
  | some p => exact ⟨p ++ ['.'], fun n => by simp [fullNameOf]⟩

theorem under_distinct (parent : Option Str) (n n' s : Str) (hn : '.' ∉ n) (hn' : '.' ∉ n')
    (hne : n ≠ n') (h1 : Under (fullNameOf parent n) s) (h2 : Under (fullNameOf parent n') s) : False := by
  obtain ⟨pre, hpre⟩ := fullNameOf_prefix parent
  obtain ⟨x, hx, hs⟩ := h1
  obtain ⟨y, hy, hs'⟩ := h2
  rw [hpre] at hs hs'
  rw [hs, List.append_assoc, List.append_assoc] at hs'
  exact hne (sep_inj n n' x y hn hn' hx hy (List.append_cancel_left hs'))

mutual
theorem visTree_nodup (rn : List Str) (parent : Option Str) :
    (t : Tree) → WellNamed t → ((visTree rn parent t).map (·.full)).Nodup
  | .node name kind hidden cs => by
    intro hw
    simp only [WellNamed] at hw
    cases hidden with
    | true => simp [visTree]
    | false =>
      simp only [visTree, Bool.false_eq_true, if_false, List.map_cons, List.nodup_cons]
      refine ⟨?_, visList_nodup rn _ cs hw.2.2.1 hw.2.2.2⟩
      intro hmem
      obtain ⟨o, ho, hfull⟩ := List.mem_map.mp hmem
      obtain ⟨t, -, x, -, hs⟩ := visList_under rn (some (fullNameOf parent name)) cs o ho
      have hlen := congrArg List.length (hfull.symm.trans hs)
      simp [fullNameOf] at hlen
theorem visList_nodup (rn : List Str) (parent : Option Str) :
    (ts : List Tree) → WellNamedList ts → (namesOf ts).Nodup → ((visList rn parent ts).map (·.full)).Nodup
  | [] => by simp [visList]
  | t :: ts => by
    intro hw hn
    simp only [WellNamedList] at hw
    simp only [namesOf, List.map_cons, List.nodup_cons] at hn
    simp only [visList, List.map_append, List.nodup_append]
    refine ⟨visTree_nodup rn parent t hw.1, visList_nodup rn parent ts hw.2 hn.2, ?_⟩
    intro a ha b hb hab
    subst hab
    obtain ⟨o1, ho1, h1⟩ := List.mem_map.mp ha
    obtain ⟨o2, ho2, h2⟩ := List.mem_map.mp hb
    have u1 := visTree_under rn parent t o1 ho1
    obtain ⟨t', ht', u2⟩ := visList_under rn parent ts o2 ho2
    rw [h1] at u1; rw [h2] at u2
    have hne : t.name ≠ t'.name := fun hc => hn.1 (List.mem_map.mpr ⟨t', ht', hc.symm⟩)
    exact under_distinct parent t.name t'.name a (WellNamed_name t hw.1).2
      (WellNamed_name t' (WellNamedList_mem ts hw.2 t' ht')).2 hne u1 u2
end

/-- **roundtrip_wellNamed**: the round trip with its hypotheses discharged from the shape of the
tree — names non-empty and without whitespace or dot, sibling names distinct, visible roots are page objects:
the writer succeeds and the reader returns exactly the visible reachable objects, each once, in
document order, name ↦ (base, url), and every one of them resolves through `getLink`. -/
theorem roundtrip_wellNamed (roots : List Tree) (base : Str) (hroots : rootsOk roots)
    (hw : WellNamedList roots) (hn : (namesOf roots).Nodup) :
    (∃ content, generateContent roots = .ok content ∧
      parseInventory pyInt base content = ([], .ok ((visibleObjects roots).map (entryOf base)))) ∧
    (∀ o ∈ visibleObjects roots,
      getLink ((visibleObjects roots).map (entryOf base)) o.full = some (base ++ '/' :: o.url)) := by
  have hnames : ∀ o ∈ visibleObjects roots, OkName o.full :=
    visList_full_ok _ none (fun p h => by cases h) roots hw
  have hdistinct : ((visibleObjects roots).map (·.full)).Nodup := visList_nodup _ none roots hw hn
  exact ⟨roundtrip_exact roots base hroots hnames hdistinct, (getLink_roundtrip roots base hdistinct).1⟩

example : rootsOk exForest ∧ WellNamedList exForest ∧ (namesOf exForest).Nodup := by
  refine ⟨by simp [rootsOk, exForest, Kind.ownPage], ?_, by decide⟩
  simp only [exForest, WellNamedList, WellNamed, namesOf, List.map_cons, List.map_nil, Tree.name, and_true]
  decide

/-! ## the cache in front of the reader: `parseMaxAge`, `prepareCache`, `IntersphinxCache.get`, fetch loop -/

/-- `parseMaxAge` with its try/except blocks resolved -/
theorem parseMaxAge_eq (toInt : Str → Option Int) (s : Str) :
    parseMaxAge toInt s =
      match toInt s.dropLast, s.getLast? with
      | none, _ => .raised .invalidMaxAge
      | some _, none => .raised .invalidMaxAge
      | some v, some c =>
        match maxAgeUnit c with
        | none => .raised .invalidMaxAge
        | some (name, lo, hi) => if lo ≤ v ∧ v < hi then .ok (name, v) else .raised .invalidMaxAge := by
  unfold parseMaxAge
  cases h1 : toInt s.dropLast with
  | none => simp [tryExcept]
  | some v =>
    cases h2 : s.getLast? with
    | none => simp [tryExcept]
    | some c =>
      cases h3 : maxAgeUnit c with
      | none => simp [tryExcept, h3]
      | some u =>
        obtain ⟨name, lo, hi⟩ := u
        by_cases hr : lo ≤ v ∧ v < hi
        · simp [tryExcept, h3, hr]
        · simp [tryExcept, h3, hr]

/-- **parseMaxAge_raises_only_invalid**: for every string (and every `int` behaviour) `parseMaxAge`
returns or raises `InvalidMaxAge`; the `ValueError` of `int`, the `IndexError` of `maxAge[-1]` on the
empty string and the `KeyError` of the unit table never escape. -/
theorem parseMaxAge_raises_only_invalid (toInt : Str → Option Int) (s : Str) :
    (∃ r, parseMaxAge toInt s = .ok r) ∨ parseMaxAge toInt s = .raised .invalidMaxAge := by
  rw [parseMaxAge_eq]
  cases toInt s.dropLast with
  | none => exact Or.inr rfl
  | some v =>
    cases s.getLast? with
    | none => exact Or.inr rfl
    | some c =>
      simp only []
      cases maxAgeUnit c with
      | none => exact Or.inr rfl
      | some u =>
        obtain ⟨name, lo, hi⟩ := u
        simp only []
        split
        · exact Or.inl ⟨_, rfl⟩
        · exact Or.inr rfl

/-- **parseMaxAge_ok_iff**: it accepts exactly `<int><unit>` with the amount inside the unit's range -/
theorem parseMaxAge_ok_iff (toInt : Str → Option Int) (s u : Str) (n : Int) :
    parseMaxAge toInt s = .ok (u, n) ↔
      ∃ c lo hi, s.getLast? = some c ∧ maxAgeUnit c = some (u, lo, hi) ∧
        toInt s.dropLast = some n ∧ lo ≤ n ∧ n < hi := by
  rw [parseMaxAge_eq]
  cases h1 : toInt s.dropLast with
  | none => simp
  | some v =>
    cases h2 : s.getLast? with
    | none => simp
    | some c =>
      simp only []
      cases h3 : maxAgeUnit c with
      | none => simp [h3]
      | some unit =>
        obtain ⟨name, lo, hi⟩ := unit
        simp only []
        constructor
        · intro h
          split at h
          · rename_i hr
            simp only [Outcome.ok.injEq, Prod.mk.injEq] at h
            obtain ⟨rfl, rfl⟩ := h
            exact ⟨c, lo, hi, rfl, h3, rfl, hr.1, hr.2⟩
          · cases h
        · rintro ⟨c', lo', hi', hc, hu, hn, h4, h5⟩
          simp only [Option.some.injEq] at hc hn
          subst hc; subst hn
          rw [h3] at hu
          simp only [Option.some.injEq, Prod.mk.injEq] at hu
          obtain ⟨rfl, rfl, rfl⟩ := hu
          simp [h4, h5]

example : parseMaxAge pyInt "1w".toList = .ok ("weeks".toList, 1) := by decide
example : parseMaxAge pyInt "4294967294s".toList = .ok ("seconds".toList, 4294967294) := by decide
example : parseMaxAge pyInt "4294967295s".toList = .raised .invalidMaxAge := by decide
example : parseMaxAge pyInt "0d".toList = .raised .invalidMaxAge := by decide
example : parseMaxAge pyInt "142857141w".toList = .ok ("weeks".toList, 142857141) := by decide
example : parseMaxAge pyInt "142857142w".toList = .raised .invalidMaxAge := by decide
example : parseMaxAge pyInt [] = .raised .invalidMaxAge ∧ parseMaxAge pyInt ['w'] = .raised .invalidMaxAge ∧
    parseMaxAge pyInt "5x".toList = .raised .invalidMaxAge := by decide

/-- exact description of when `prepareCache` raises: `rmtree` fails with something other than
"no such directory" while clearing, or the cache is enabled with an unparsable max age -/
theorem prepareCache_raises_iff (toInt : Str → Option Int) (clear enable : Bool) (rm : RmResult) (maxAge : Str) :
    (∃ e, prepareCache toInt clear enable rm maxAge = .raised e) ↔
      (clear = true ∧ rm = .otherError) ∨ (enable = true ∧ ∃ e, parseMaxAge toInt maxAge = .raised e) := by
  unfold prepareCache
  cases clear <;> cases rm <;> cases enable <;> simp <;>
    (cases parseMaxAge toInt maxAge <;> simp)

/-- **prepareCache_missing_dir**: clearing a cache directory that does not exist is a no-op — the
result is what it would be without `--clear-intersphinx-cache` (the case fixed by f96af79) -/
theorem prepareCache_missing_dir (toInt : Str → Option Int) (enable : Bool) (maxAge : Str) :
    prepareCache toInt true enable .missing maxAge = prepareCache toInt false enable .missing maxAge := by
  simp [prepareCache]

/-- `prepareCache` returns for every option combination and every state of the cache directory,
existing or not, provided `rmtree` does not fail for another reason (permissions …) and the
max-age option is well-formed when the cache is enabled.  The statement without these two
hypotheses is false by `prepareCache_raises_iff`; both failures happen before any inventory is
loaded. -/
theorem prepareCache_total_partial (toInt : Str → Option Int) (clear enable : Bool) (rm : RmResult) (maxAge : Str)
    (h1 : clear = false ∨ rm ≠ .otherError)
    (h2 : enable = false ∨ ∃ r, parseMaxAge toInt maxAge = .ok r) :
    ∃ c, prepareCache toInt clear enable rm maxAge = .ok c := by
  cases hp : prepareCache toInt clear enable rm maxAge with
  | ok c => exact ⟨c, rfl⟩
  | raised e =>
    exfalso
    rcases (prepareCache_raises_iff toInt clear enable rm maxAge).mp ⟨e, hp⟩ with ⟨hc, hr⟩ | ⟨he, e', hm⟩
    · rcases h1 with h | h
      · rw [h] at hc; cases hc
      · exact h hr
    · rcases h2 with h | ⟨r, h⟩
      · rw [h] at he; cases he
      · rw [h] at hm; cases hm

example : (true = false ∨ RmResult.missing ≠ .otherError) ∧
    (true = false ∨ ∃ r, parseMaxAge pyInt "1w".toList = .ok r) :=
  ⟨Or.inr (by decide), Or.inr ⟨("weeks".toList, 1), by decide⟩⟩

example : prepareCache pyInt true true .missing "1w".toList = .ok (.caching "weeks".toList 1) := by decide

/-- HISTORICAL (code before f96af79, `prepareCacheOld`): clearing a cache directory that does not
exist aborted the run (FileNotFoundError reached `main`) -/
theorem prepareCache_counterexample :
    prepareCacheOld pyInt true true .missing "1w".toList = .raised .osError := by decide

/-- the fix changed nothing else -/
theorem prepareCacheOld_agrees (toInt : Str → Option Int) (clear enable : Bool) (rm : RmResult) (maxAge : Str)
    (h : clear = false ∨ rm ≠ .missing) :
    prepareCache toInt clear enable rm maxAge = prepareCacheOld toInt clear enable rm maxAge := by
  unfold prepareCache prepareCacheOld
  cases clear <;> cases rm <;> simp_all

/-- **fetch_total**: whatever each download does — body, or any `Exception` — and whatever the bytes
are, `fetchIntersphinxInventories` returns (only a `BaseException` such as KeyboardInterrupt passes
through `IntersphinxCache.get`). -/
theorem fetch_total (toInt : Str → Option Int) : ∀ (fs : List Fetch) (st : State),
    (∀ f ∈ fs, f.session ≠ .baseException) → (fetchAll toInt st fs).2 = .ok ()
  | [], _, _ => rfl
  | f :: fs, st, h => by
    have hf : f.session ≠ .baseException := h f (by simp)
    have hrest := fun st' => fetch_total toInt fs st' (fun x hx => h x (by simp [hx]))
    have hu : ∀ data, (update f.unzip f.decode toInt st f.url data).2 = .ok () :=
      fun data => update_total f.unzip f.decode toInt st f.url data
    unfold fetchAll
    cases hs : f.session with
    | baseException => exact absurd hs hf
    | exception =>
      simp only [cacheGet]
      cases hup : update f.unzip f.decode toInt st f.url none with
      | mk st' r =>
        have := hu none; rw [hup] at this; simp only at this; subst this
        exact hrest st'
    | content b =>
      simp only [cacheGet]
      cases hup : update f.unzip f.decode toInt st f.url (some b) with
      | mk st' r =>
        have := hu (some b); rw [hup] at this; simp only at this; subst this
        exact hrest st'

/-- a download that fails is reported once and changes nothing else -/
theorem failed_download_reported (unzip : Bytes → Inflate) (decode : Bytes → Option Str)
    (toInt : Str → Option Int) (st : State) (url base : Str) (hb : rsplitSlash url = some base) :
    update unzip decode toInt st url none = ({ st with log := st.log ++ [.noData url] }, .ok ()) := by
  simp [update, hb]

/-! ## from `_links` to the page: `getLink` and the linker's lookup order -/

/-- **getLink_spec**: every answer is `base + '/' + location` of the entry stored under exactly that
name, `$` replaced by the name; an entry with an empty location, or no entry, gives None -/
theorem getLink_spec (links : Dict) (name u : Str) :
    getLink links name = some u ↔
      ∃ base rel, links.get name = some (base, rel) ∧ rel ≠ [] ∧
        u = base ++ '/' :: (if rel.getLast? = some '$' then rel.dropLast ++ name else rel) := by
  unfold getLink
  cases h : links.get name with
  | none => simp
  | some v =>
    obtain ⟨base, rel⟩ := v
    by_cases hr : rel = []
    · simp [hr]
    · simp only [hr, if_false, Option.some.injEq, Prod.mk.injEq, ne_eq]
      constructor
      · intro hu; exact ⟨base, rel, ⟨rfl, rfl⟩, hr, hu.symm⟩
      · rintro ⟨b, r, ⟨rfl, rfl⟩, -, hu⟩; exact hu.symm

/-- an answer is never the empty string, so Python's `if not target_url` only tests for None -/
theorem getLink_truthy (links : Dict) (name : Str) : truthy (getLink links name) = (getLink links name).isSome := by
  cases h : getLink links name with
  | none => rfl
  | some u =>
    obtain ⟨base, rel, -, -, hu⟩ := (getLink_spec links name u).mp h
    subst hu
    simp [truthy]

/-- **xref_internal_first**: a name that is the full name of an object of this system links to that
object; no inventory entry can redirect it -/
theorem xref_internal_first (objFor : Str → Option Str) (expand : Str → Str) (links : Dict)
    (context : Option Str) (identifier o : Str) (h : objFor identifier = some o) :
    resolveXref objFor expand links context identifier = .internal o := by
  simp [resolveXref, h]

/-- **xref_external_order**: otherwise the inventory is asked for the expanded name first, then for
the name as written, and only then the context search decides -/
theorem xref_external_order (objFor : Str → Option Str) (expand : Str → Str) (links : Dict)
    (context : Option Str) (identifier : Str) (h : objFor identifier = none) :
    resolveXref objFor expand links context identifier =
      match getLink links (expand identifier), getLink links identifier, context with
      | some u, _, _ => .external u
      | none, some u, _ => .external u
      | none, none, some o => .internal o
      | none, none, none => .unresolved := by
  unfold resolveXref
  simp only [h]
  cases h1 : getLink links (expand identifier) with
  | some u =>
    have ht : truthy (some u) = true := by
      have := getLink_truthy links (expand identifier); rw [h1] at this; simpa using this
    simp [ht]
  | none =>
    cases h2 : getLink links identifier with
    | some u =>
      have ht : truthy (some u) = true := by
        have := getLink_truthy links identifier; rw [h2] at this; simpa using this
      have hn : truthy (none : Option Str) = false := rfl
      simp [hn, ht]
    | none => cases context <;> simp [truthy]

/-- every external link the linker produces is an answer of `getLink` (so, by `getLink_spec`, the
base URL and location of a line of a loaded inventory) -/
theorem xref_external_is_getLink (objFor : Str → Option Str) (expand : Str → Str) (links : Dict)
    (context : Option Str) (identifier u : Str)
    (h : resolveXref objFor expand links context identifier = .external u) :
    getLink links (expand identifier) = some u ∨ getLink links identifier = some u := by
  cases ho : objFor identifier with
  | some o => rw [xref_internal_first objFor expand links context identifier o ho] at h; cases h
  | none =>
    rw [xref_external_order objFor expand links context identifier ho] at h
    cases h1 : getLink links (expand identifier) with
    | some u1 => rw [h1] at h; simp only [XrefTarget.external.injEq] at h; exact Or.inl (by rw [h])
    | none =>
      rw [h1] at h
      cases h2 : getLink links identifier with
      | some u2 => rw [h2] at h; simp only [XrefTarget.external.injEq] at h; exact Or.inr (by rw [h])
      | none => rw [h2] at h; cases context <;> simp at h

theorem linkTo_order (resolved : Option Str) (expand : Str → Str) (links : Dict) (identifier : Str) :
    linkTo resolved expand links identifier =
      match resolved, getLink links (expand identifier) with
      | some o, _ => .internal o
      | none, some u => .external u
      | none, none => .unresolved := by
  unfold linkTo
  cases resolved <;> simp
  cases getLink links (expand identifier) <;> simp

/-- **xref_roundtrip**: end to end — a project documented by pydoctor, its `objects.inv` loaded into
another project's reader: a reference whose expanded name is one of its visible objects (and is not
an object of the referring system) becomes a link to `base/` + the page and anchor where that
object is documented. -/
theorem xref_roundtrip (roots : List Tree) (base : Str)
    (hdistinct : ((visibleObjects roots).map (·.full)).Nodup)
    (objFor : Str → Option Str) (expand : Str → Str) (context : Option Str) (identifier : Str)
    (hnot : objFor identifier = none) (o : Obj) (ho : o ∈ visibleObjects roots)
    (hexp : expand identifier = o.full) :
    resolveXref objFor expand ((visibleObjects roots).map (entryOf base)) context identifier =
      .external (base ++ '/' :: o.url) := by
  rw [xref_external_order objFor expand _ context identifier hnot, hexp,
    (getLink_roundtrip roots base hdistinct).1 o ho]

example : resolveXref (fun _ => none) (fun _ => "pk.m.C.f".toList)
    ((visibleObjects exForest).map (entryOf "http://h".toList)) none ['f'] =
    .external "http://h/pk.m.C.html#f".toList := by decide

/-! ## which role each `DocumentableKind` is written with -/

theorem DocKind.all_complete (k : DocKind) : k ∈ DocKind.all := by cases k <;> decide

/-- the table, kind by kind -/
theorem role_table :
    DocKind.all.map (fun k => String.ofList k.role) =
      ["py:module", "py:module", "py:class", "py:class", "py:class", "py:method", "py:method", "py:method",
       "py:function", "py:attribute", "py:attribute", "py:attribute", "py:attribute", "py:attribute",
       "py:attribute", "py:attribute", "py:attribute", "py:attribute"] := by decide

/-- the object types of Sphinx's Python domain (sphinx.domains.python.PythonDomain.object_types) -/
def sphinxPyObjectTypes : List String :=
  ["function", "data", "class", "exception", "method", "classmethod", "staticmethod", "attribute",
   "property", "type", "module"]

/-- every kind of documented object is written with a type Sphinx's Python domain knows -/
theorem role_is_sphinx_type (k : DocKind) : String.ofList k.cls.domain ∈ sphinxPyObjectTypes := by
  cases k <;> decide

/-- `obj` (the "Unknown type" branch) is never used for a DocumentableKind -/
theorem role_never_obj (k : DocKind) : k.cls ≠ .other := by cases k <;> decide

/-- **written_lines**: the file has exactly one line per visible reachable object, in document order -/
theorem written_lines (roots : List Tree) (hroots : rootsOk roots)
    (hnames : ∀ o ∈ visibleObjects roots, OkName o.full) :
    ∃ content, generateContent roots = .ok content ∧
      splitlines content = (visibleObjects roots).map fun o => lineText o.full o.kind o.url :=
  ⟨render (visibleObjects roots), genList_roots _ roots hroots,
   splitlines_render _ (fun o ho => ⟨hnames o ho, (visList_url_last _ none roots o ho).1, visList_url_ok _ none roots o ho⟩)⟩

/-! ## the whole file: `update` on the bytes `generate` wrote -/

theorem splitFirstNL_append : ∀ (f r : Bytes), 10 ∉ f → splitFirstNL (f ++ 10 :: r) = some (f, r)
  | [], r, _ => by simp [splitFirstNL]
  | b :: f, r, h => by
    simp only [List.mem_cons, not_or] at h
    have hb : ¬ b = 10 := fun hc => h.1 hc.symm
    simp [splitFirstNL, hb, splitFirstNL_append f r h.2]

theorem stripComments_stop (z : Bytes) (hz : z.head? ≠ some 35) (fuel : Nat) :
    stripComments (fuel + 1) z = some z := by
  simp only [stripComments]
  cases hs : splitFirstNL z with
  | none => rfl
  | some fr =>
    obtain ⟨f, r⟩ := fr
    obtain ⟨hd, -⟩ := splitFirstNL_some z f r hs
    have : f.head? ≠ some 35 := by
      cases f with
      | nil => simp
      | cons b f' => rw [hd] at hz; simpa using hz
    simp [this]

/-- converse of `payload_terminates`: complete comment lines in front of something that is not a
comment line are all removed, and nothing else -/
theorem stripComments_lines (z : Bytes) (hz : z.head? ≠ some 35) :
    ∀ (cs : List Bytes) (fuel : Nat), (∀ c ∈ cs, 10 ∉ c) →
      (cs.flatMap (fun c => 35 :: c ++ [10]) ++ z).length < fuel →
      stripComments fuel (cs.flatMap (fun c => 35 :: c ++ [10]) ++ z) = some z
  | [], fuel, _, hl => by
    cases fuel with
    | zero => omega
    | succ n => simpa using stripComments_stop z hz n
  | c :: cs, fuel, hc, hl => by
    cases fuel with
    | zero => omega
    | succ n =>
      have hc0 : 10 ∉ (35 :: c) := by
        simp only [List.mem_cons, not_or]; exact ⟨by decide, hc c (by simp)⟩
      have hdata : (c :: cs).flatMap (fun c => 35 :: c ++ [10]) ++ z =
          (35 :: c) ++ 10 :: (cs.flatMap (fun c => 35 :: c ++ [10]) ++ z) := by simp
      rw [hdata] at hl ⊢
      simp only [stripComments, splitFirstNL_append _ _ hc0, List.head?_cons, if_true]
      apply stripComments_lines z hz cs n (fun x hx => hc x (by simp [hx]))
      simp only [List.length_append, List.length_cons] at hl ⊢
      omega

theorem strippedPayload_lines (z : Bytes) (hz : z.head? ≠ some 35) (cs : List Bytes)
    (hc : ∀ c ∈ cs, 10 ∉ c) : strippedPayload (cs.flatMap (fun c => 35 :: c ++ [10]) ++ z) = z := by
  unfold strippedPayload
  rw [stripComments_lines z hz cs _ hc (Nat.lt_succ_self _)]

theorem Char.eq_of_toNat_eq {c d : Char} (h : c.toNat = d.toNat) : c = d := by
  apply Char.ext
  apply UInt32.toNat_inj.mp
  exact h

theorem utf8_no_nl (c : Char) (h : c ≠ '\n') : 10 ∉ utf8 c := by
  have hv : c.toNat ≠ 10 := fun hc => h (Char.eq_of_toNat_eq (by simpa using hc))
  unfold utf8
  simp only []
  split
  · simpa using fun hc => hv hc.symm
  · split
    · simp; omega
    · split
      · simp; omega
      · simp; omega

theorem encodeUtf8_no_nl (s : Str) (h : '\n' ∉ s) : 10 ∉ encodeUtf8 s := by
  simp only [encodeUtf8, List.mem_flatMap, not_exists, not_and]
  intro c hc
  exact utf8_no_nl c (fun heq => h (heq ▸ hc))

theorem encodeUtf8_append (a b : Str) : encodeUtf8 (a ++ b) = encodeUtf8 a ++ encodeUtf8 b := by
  simp [encodeUtf8]

theorem encodeUtf8_lines : ∀ ls : List Str,
    encodeUtf8 (ls.flatMap fun l => '#' :: l ++ ['\n']) =
      (ls.map encodeUtf8).flatMap (fun c => 35 :: c ++ [10])
  | [] => rfl
  | l :: ls => by
    have ih := encodeUtf8_lines ls
    have h1 : utf8 '#' = [35] := by decide
    have h2 : utf8 '\n' = [10] := by decide
    have he : encodeUtf8 = fun s : Str => s.flatMap utf8 := rfl
    simp only [he] at ih ⊢
    simp only [List.flatMap_cons, List.flatMap_append, List.map_cons, List.flatMap_nil, h1, h2, ih]
    simp

theorem collapseAux_no_nl : ∀ (s : Str) (prev : Bool), '\n' ∉ collapseAux prev s
  | [], _ => by simp [collapseAux]
  | c :: cs, prev => by
    have ih1 := collapseAux_no_nl cs true
    have ih2 := collapseAux_no_nl cs false
    simp only [collapseAux]
    by_cases hc : isReSpace c = true
    · simp only [hc, if_true]
      cases prev
      · simp only [Bool.false_eq_true, if_false, List.mem_cons, not_or]
        exact ⟨by decide, ih1⟩
      · simpa using ih1
    · simp only [hc, Bool.false_eq_true, if_false, List.mem_cons, not_or]
      refine ⟨?_, ih2⟩
      intro heq
      apply hc
      rw [← heq]
      decide

/-- **file_roundtrip**: `SphinxInventory.update` applied to the bytes `generate` writes
(header + compressed content) puts exactly the visible reachable objects into `_links` and
logs nothing — for every compressor/decoder pair honouring their contracts and for EVERY project
name and version (whitespace in them is collapsed by `_generateHeader` since 2626e70; before that a
newline broke the header: `old_header_newline_counterexample`). -/
theorem file_roundtrip (zip : Bytes → Bytes) (unzip : Bytes → Inflate) (decode : Bytes → Option Str)
    (project version url base : Str) (roots : List Tree)
    (hzip : ∀ c, generateContent roots = .ok c → unzip (zip (encodeUtf8 c)) = .done (encodeUtf8 c) true)
    (hdec : ∀ c, generateContent roots = .ok c → decode (encodeUtf8 c) = some c)
    (hz0 : ∀ c, generateContent roots = .ok c → (zip (encodeUtf8 c)).head? ≠ some 35)
    (hurl : rsplitSlash url = some base)
    (hroots : rootsOk roots) (hnames : ∀ o ∈ visibleObjects roots, OkName o.full) :
    ∃ file, generateFile zip project version roots = .ok file ∧
      update unzip decode pyInt ⟨[], []⟩ url (some file) =
        (⟨Dict.update [] ((visibleObjects roots).map (entryOf base)), []⟩, .ok ()) := by
  obtain ⟨content, hgen, hparse⟩ := roundtrip roots base hroots hnames
  refine ⟨encodeUtf8 (headerText project version) ++ zip (encodeUtf8 content), by simp [generateFile, hgen], ?_⟩
  have hlines : ∀ c ∈ (headerLines project version).map encodeUtf8, 10 ∉ c := by
    intro c hc
    simp only [headerLines, List.map_cons, List.map_nil, List.mem_cons, List.not_mem_nil, or_false] at hc
    rcases hc with rfl | rfl | rfl | rfl
    · decide
    · rw [encodeUtf8_append]; simp only [List.mem_append, not_or]
      exact ⟨by decide, encodeUtf8_no_nl _ (collapseAux_no_nl project false)⟩
    · rw [encodeUtf8_append]; simp only [List.mem_append, not_or]
      exact ⟨by decide, encodeUtf8_no_nl _ (collapseAux_no_nl version false)⟩
    · decide
  have hfile : encodeUtf8 (headerText project version) ++ zip (encodeUtf8 content) =
      ((headerLines project version).map encodeUtf8).flatMap (fun c => 35 :: c ++ [10]) ++ zip (encodeUtf8 content) := by
    rw [headerText, encodeUtf8_lines]
  have hgen' : generateContent roots = .ok content := hgen
  have hstrip := strippedPayload_lines (zip (encodeUtf8 content)) (hz0 _ hgen') _ hlines
  rw [← hfile] at hstrip
  -- the file is not empty: it starts with '#'
  have hne : ∃ b bs, encodeUtf8 (headerText project version) ++ zip (encodeUtf8 content) = b :: bs := by
    rw [hfile]; simp [headerLines]
  obtain ⟨b, bs, hbs⟩ := hne
  rw [hbs] at hstrip ⊢
  simp [update, hurl, getPayload, hstrip, hzip _ hgen', hdec _ hgen', hparse, Dict.update_empty_self]

-- non-vacuity of the contracts (zlib round trip, UTF-8 round trip, a compressed stream does not
-- start with '#'): for every forest there are functions satisfying them
example (roots : List Tree) : ∃ (zip : Bytes → Bytes) (unzip : Bytes → Inflate) (decode : Bytes → Option Str),
    (∀ c, generateContent roots = .ok c → unzip (zip (encodeUtf8 c)) = .done (encodeUtf8 c) true) ∧
    (∀ c, generateContent roots = .ok c → decode (encodeUtf8 c) = some c) ∧
    (∀ c, generateContent roots = .ok c → (zip (encodeUtf8 c)).head? ≠ some 35) :=
  ⟨fun y => 120 :: y, fun y => .done y.tail true,
   fun _ => match generateContent roots with | .ok c => some c | .raised _ => none,
   by intro c _; simp, by intro c h; simp [h], by intro c _; simp⟩

example : rsplitSlash "http://h/doc/objects.inv".toList = some "http://h/doc".toList := by decide

/-! ## round-3 review items: the four fixed defects (historical statements over the old defs) and
what the code does at the edges -/

/-- HISTORICAL (before 2626e70, `generateFileOld`): with the project name `a\nb` the second header
line was `b`, the comment-stripping loop stopped there and the reader reported "Failed to
uncompress" for the file pydoctor itself wrote. -/
theorem old_header_newline_counterexample :
    (match generateFileOld (fun y => 120 :: y) ['a', '\n', 'b'] ['1'] [] with
     | .ok file =>
       (update (fun y => match y with | 120 :: r => .done r true | _ => .rejected) (fun _ => some []) pyInt ⟨[], []⟩
          "h/objects.inv".toList (some file)).1 == ⟨[], [.uncompress ['h']]⟩
     | .raised _ => false) = true := by decide +kernel

/-- the same project name now: the file reads back (nothing logged) -/
example :
    (match generateFile (fun y => 120 :: y) ['a', '\n', 'b'] ['1'] [] with
     | .ok file =>
       (update (fun y => match y with | 120 :: r => .done r true | _ => .rejected) (fun _ => some []) pyInt ⟨[], []⟩
          "h/objects.inv".toList (some file)).1 == ⟨[], []⟩
     | .raised _ => false) = true := by decide +kernel

/-- name kept for the manifest: `file_roundtrip` itself is now the statement without the newline
hypothesis (the header fields are whitespace-collapsed by the code) -/
theorem file_roundtrip_collapsed (zip : Bytes → Bytes) (unzip : Bytes → Inflate) (decode : Bytes → Option Str)
    (project version url base : Str) (roots : List Tree)
    (hzip : ∀ c, generateContent roots = .ok c → unzip (zip (encodeUtf8 c)) = .done (encodeUtf8 c) true)
    (hdec : ∀ c, generateContent roots = .ok c → decode (encodeUtf8 c) = some c)
    (hz0 : ∀ c, generateContent roots = .ok c → (zip (encodeUtf8 c)).head? ≠ some 35)
    (hurl : rsplitSlash url = some base)
    (hroots : rootsOk roots) (hnames : ∀ o ∈ visibleObjects roots, OkName o.full) :
    ∃ file, generateFile zip project version roots = .ok file ∧
      update unzip decode pyInt ⟨[], []⟩ url (some file) =
        (⟨Dict.update [] ((visibleObjects roots).map (entryOf base)), []⟩, .ok ()) :=
  file_roundtrip zip unzip decode project version url base roots hzip hdec hz0 hurl hroots hnames

example : String.ofList (collapseWs "My\nProject  x\t".toList) = "My Project x " := by decide

/-- HISTORICAL (before 96f18c4, `parseLineSp` = split at single spaces): a line with two spaces
between columns was ACCEPTED under a key with a trailing space — not reported, and the intended
name did not resolve -/
theorem old_double_space_wrong_key :
    parseLineSp pyInt "a.good  py:function 1 a.html#good -".toList =
      .ok ⟨"a.good ".toList, "py:function".toList, 1, "a.html#good".toList, ['-']⟩ := by decide

/-- HISTORICAL: a tab-separated line was one token: rejected (and reported) -/
theorem old_tab_separated_rejected :
    parseLineSp pyInt "a.good\tpy:function\t1\ta.html#good\t-".toList = .raised .valueError := by decide

/-- now (`line.split()`): both spellings read like the single-space line, as Sphinx reads them;
totality (`parseLine_total`) is `parse_total`, which holds for every token list -/
theorem split_ws_reads_like_sphinx :
    parseLine pyInt "a.good  py:function 1 a.html#good -".toList =
      .ok ⟨"a.good".toList, "py:function".toList, 1, "a.html#good".toList, ['-']⟩ ∧
    parseLine pyInt "a.good\tpy:function\t1\ta.html#good\t-".toList =
      .ok ⟨"a.good".toList, "py:function".toList, 1, "a.html#good".toList, ['-']⟩ := by decide

/-- the two splitters agree on lines whose columns are separated by single spaces and are not empty -/
theorem splitters_agree (toks : List Str) (h : ∀ t ∈ toks, OkName t) (hne : toks ≠ []) :
    pySplitWs (pyJoin toks) = pySplit (pyJoin toks) := by
  rw [pySplitWs_join toks h]
  symm
  apply List.splitOn_intercalate ' ' _ hne
  intro l hl hmem
  have := (h l hl).2 ' ' hmem
  revert this; decide

/-! ## hunter round: what the code does on damaged-but-partly-usable files, and names the format cannot carry -/

/-- the hunter's project: a module named after the file `utils copy 2.py`.  The written line
`pkg.utils copy 2 py:module -1 …` is read back with the stand-alone `2` as priority: name
`pkg.utils`, type `copy` — not a Python entry, dropped.  The visible module `pkg.utils copy 2` has
no entry although its sibling `pkg.utils copy` and its member `pkg.utils copy 2.helper` round-trip
(open finding `roundtrip:name-with-numeric-token`; `roundtrip` needs `OkName`). -/
theorem roundtrip_numeric_token_counterexample :
    (match generateContent [.node "pkg".toList .package false
        [.node "utils copy 2".toList .module false [.node "helper".toList .function false []],
         .node "utils copy".toList .module false []]] with
     | .ok c =>
       match (parseInventory pyInt ['B'] c).2 with
       | .ok d => (d.map (·.1)) == ["pkg".toList, "pkg.utils copy 2.helper".toList, "pkg.utils copy".toList]
       | .raised _ => false
     | .raised _ => false) = true := by decide +kernel

/-- HISTORICAL (before df39b19, `getPayloadOld`): zlib's or the decoder's failure discarded the whole
file — whatever usable lines a more careful reader could recover -/
theorem old_damaged_file_all_or_nothing (unzip : Bytes → Option Bytes) (decode : Bytes → Option Str)
    (base : Str) (data : Bytes)
    (hfail : unzip (strippedPayload data) = none ∨
      ∃ raw, unzip (strippedPayload data) = some raw ∧ decode raw = none) :
    (getPayloadOld unzip decode base data).2 = [] := by
  rcases hfail with hz | ⟨raw, hz, hd⟩
  · simp [getPayloadOld, hz]
  · simp [getPayloadOld, hz, hd]

/-! ### after df39b19: the usable lines of a damaged-but-trustworthy file are kept -/

theorem dropWhile_append_all {α : Type} (p : α → Bool) : ∀ (l rest : List α), (∀ x ∈ l, p x = true) →
    (l ++ rest).dropWhile p = rest.dropWhile p
  | [], _, _ => rfl
  | x :: l, rest, h => by
    have hx : p x = true := h x (by simp)
    simp [List.dropWhile, hx, dropWhile_append_all p l rest (fun y hy => h y (by simp [hy]))]

/-- `cutLastLine` keeps every complete line and drops the cut one -/
theorem cutLastLine_append (pre tail : Bytes) (h : 10 ∉ tail) :
    cutLastLine (pre ++ 10 :: tail) = pre ++ [10] := by
  unfold cutLastLine
  have hrev : (pre ++ 10 :: tail).reverse = tail.reverse ++ 10 :: pre.reverse := by simp
  rw [hrev, dropWhile_append_all _ tail.reverse _ (by
    intro x hx
    have : x ≠ 10 := fun hc => h (by rw [← hc]; exact List.mem_reverse.mp hx)
    simpa using this)]
  simp [List.dropWhile]

/-- … and nothing is left of a payload without a single complete line -/
theorem cutLastLine_no_newline (b : Bytes) (h : 10 ∉ b) : cutLastLine b = [] := by
  unfold cutLastLine
  have := dropWhile_append_all (fun x : Nat => decide (x ≠ 10)) b.reverse [] (by
    intro x hx
    have : x ≠ 10 := fun hc => h (by rw [← hc]; exact List.mem_reverse.mp hx)
    simpa using this)
  simp only [List.append_nil] at this
  rw [this]; rfl

theorem getPayload_intact (inflate : Bytes → Inflate) (decode : Bytes → Option Str) (base : Str) (data out : Bytes)
    (text : Str) (hi : inflate (strippedPayload data) = .done out true) (hd : decode out = some text) :
    getPayload inflate decode base data = ([], text) := by
  simp [getPayload, hi, hd]

/-- a stream that ends early: one error, and the text is that of its complete lines -/
theorem getPayload_truncated (inflate : Bytes → Inflate) (decode : Bytes → Option Str) (base : Str) (data out : Bytes)
    (text : Str) (hi : inflate (strippedPayload data) = .done out false) (hd : decode (cutLastLine out) = some text) :
    getPayload inflate decode base data = ([.uncompress base], text) := by
  simp [getPayload, hi, hd]

/-- a complete stream that is not UTF-8 as a whole: one error, and the lines that decode are kept -/
theorem getPayload_undecodable (inflate : Bytes → Inflate) (decode : Bytes → Option Str) (base : Str) (data out : Bytes)
    (hi : inflate (strippedPayload data) = .done out true) (hd : decode out = none) :
    getPayload inflate decode base data = ([.decode base], joinNL ((splitNL out).filterMap decode)) := by
  simp [getPayload, hi, hd]

theorem splitlines_nobreak : ∀ (l : Str), (∀ c ∈ l, isLineBreak c = false) →
    splitlines l = if l = [] then [] else [l]
  | [], _ => rfl
  | c :: l, h => by
    have hc : isLineBreak c = false := h c (by simp)
    have hcr : c ≠ '\r' := by
      intro heq; subst heq
      have : isLineBreak '\r' = true := by decide
      rw [this] at hc; cases hc
    have ih := splitlines_nobreak l (fun x hx => h x (by simp [hx]))
    by_cases hl : l = []
    · subst hl; simp [splitlines, hcr, hc]
    · simp [splitlines, hcr, hc, ih, hl]

/-- what `splitlines` makes of `'\n'.join(ls)`: the lines themselves, minus an empty last one -/
def dropEmptyLast : List Str → List Str
  | [] => []
  | [l] => if l = [] then [] else [l]
  | l :: l' :: ls => l :: dropEmptyLast (l' :: ls)

theorem splitlines_joinNL : ∀ (ls : List Str), (∀ l ∈ ls, ∀ c ∈ l, isLineBreak c = false) →
    splitlines (joinNL ls) = dropEmptyLast ls
  | [], _ => by simp [joinNL, splitlines, dropEmptyLast]
  | [l], h => by
    simp only [joinNL, List.intercalate_singleton, dropEmptyLast]
    exact splitlines_nobreak l (h l (by simp))
  | l :: l' :: ls, h => by
    have ih := splitlines_joinNL (l' :: ls) (fun x hx => h x (by simp [hx]))
    have hj : joinNL (l :: l' :: ls) = l ++ '\n' :: joinNL (l' :: ls) := by
      simp [joinNL, List.intercalate_cons_cons]
    rw [hj, splitlines_append_nl l _ (h l (by simp)), ih]
    rfl

theorem parseLine_empty (toInt : Str → Option Int) : parseLine toInt [] = .raised .valueError := by
  simp [parseLine, pySplitWs, splitWsAux, parseParts, scanPrio]

theorem goodEntries_dropEmptyLast (toInt : Str → Option Int) (base : Str) :
    ∀ ls : List Str, goodEntries toInt base (dropEmptyLast ls) = goodEntries toInt base ls
  | [] => rfl
  | [l] => by
    by_cases hl : l = []
    · subst hl; simp [dropEmptyLast, goodEntries, parseLine_empty]
    · simp [dropEmptyLast, hl]
  | l :: l' :: ls => by
    have ih := goodEntries_dropEmptyLast toInt base (l' :: ls)
    simp only [dropEmptyLast, goodEntries, ih]

/-- **truncated_lines_resolve**: an interrupted download (the stream ends before its end marker) is
reported, and `_links` receives exactly the good entries of its complete lines — last one wins,
earlier links kept (`update_latest_wins` then gives: every complete well-formed line resolves) -/
theorem truncated_lines_resolve (inflate : Bytes → Inflate) (decode : Bytes → Option Str)
    (toInt : Str → Option Int) (st : State) (url base : Str) (b : Nat) (bs out : Bytes) (text : Str)
    (hb : rsplitSlash url = some base)
    (hi : inflate (strippedPayload (b :: bs)) = .done out false)
    (hd : decode (cutLastLine out) = some text) :
    update inflate decode toInt st url (some (b :: bs)) =
      ({ links := st.links.update (Dict.update [] (goodEntries toInt base (splitlines text))),
         log := st.log ++ [.uncompress base] ++
           (rejected toInt (splitlines text)).map (fun l => LogMsg.badLine l base) }, .ok ()) := by
  rw [update_spec inflate decode toInt st url base b bs hb,
    getPayload_truncated inflate decode base (b :: bs) out text hi hd]

/-- **undecodable_lines_dropped**: a file with lines that are not UTF-8 is reported, the lines that
decode are kept: `_links` receives exactly the good entries among them (hypothesis: the decoded
lines hold no other `splitlines` separator, so that they are the lines `_parseInventory` sees) -/
theorem undecodable_lines_dropped (inflate : Bytes → Inflate) (decode : Bytes → Option Str)
    (toInt : Str → Option Int) (st : State) (url base : Str) (b : Nat) (bs out : Bytes)
    (hb : rsplitSlash url = some base)
    (hi : inflate (strippedPayload (b :: bs)) = .done out true) (hd : decode out = none)
    (hnb : ∀ l ∈ (splitNL out).filterMap decode, ∀ c ∈ l, isLineBreak c = false) :
    (update inflate decode toInt st url (some (b :: bs))).1.links =
      st.links.update (Dict.update [] (goodEntries toInt base ((splitNL out).filterMap decode))) ∧
    (update inflate decode toInt st url (some (b :: bs))).2 = .ok () := by
  rw [update_spec inflate decode toInt st url base b bs hb,
    getPayload_undecodable inflate decode base (b :: bs) out hi hd]
  simp only [splitlines_joinNL _ hnb, goodEntries_dropEmptyLast, and_self]

-- the hunter's shapes on the concrete decoder: a Latin-1 byte in the middle line, then an interrupted download
example :
    update (fun _ => .done (encodeUtf8 "a py:x 1 l -\n".toList ++ [0x50, 0xE9, 10] ++ encodeUtf8 "b py:x 1 m -\n".toList) true)
      utf8Decode pyInt ⟨[], []⟩ "h/objects.inv".toList (some [120]) =
    (⟨[(['a'], (['h'], ['l'])), (['b'], (['h'], ['m']))], [.decode ['h']]⟩, .ok ()) := by decide +kernel

example :
    update (fun _ => .done (encodeUtf8 "a py:x 1 l -\nb py:x 1 m".toList) false)
      utf8Decode pyInt ⟨[], []⟩ "h/objects.inv".toList (some [120]) =
    (⟨[(['a'], (['h'], ['l']))], [.uncompress ['h']]⟩, .ok ()) := by decide +kernel

example : utf8Decode (encodeUtf8 "aé名😀".toList) = some "aé名😀".toList ∧ utf8Decode [0xC0, 0x80] = none ∧
    utf8Decode [0xED, 0xA0, 0x80] = none ∧ utf8Decode [0xE9] = none ∧ utf8Decode [0xF4, 0x90, 0x80, 0x80] = none := by
  decide +kernel

/-! ## what the run lists is what the run wrote (`driver.make`) -/

/-- **inventory_lists_what_is_written**: whenever HTML is made, the inventory writer is handed
exactly the subjects the page writer was handed — both recurse over `contents` skipping invisible
objects (`_writeDocsFor` / `_generateContent`), so the run lists the objects whose pages it writes:
nothing for a summary-pages-only run, the named subtrees for `--html-subject`. -/
theorem inventory_lists_what_is_written (makeintersphinx : Bool) (htmlsubjects : List Str) (summary : Bool) :
    inventorySubjects true makeintersphinx htmlsubjects summary = some (htmlSubjects htmlsubjects summary) := by
  simp [inventorySubjects]

theorem summary_only_lists_nothing (makeintersphinx : Bool) :
    inventorySubjects true makeintersphinx [] true = some .nothing := by
  simp [inventorySubjects, htmlSubjects]

/-- only without `--make-html` does the inventory fall back to everything -/
theorem inventory_only_lists_roots (htmlsubjects : List Str) (summary : Bool) :
    inventorySubjects false true htmlsubjects summary = some .roots := by
  simp [inventorySubjects]

end Inventory
