/-
C12 — hidden objects leave no trace; private objects are always marked private.

Over the `Output` model (lean/PdModel/Output.lean: the producer table of DESIGN.md §7 C12 as a function
from the object table to the list of mentions, each row with the guard the code has) and the `Privacy`
model (lean/PdModel/Privacy.lean).  Lemmas about the traversal and the one-pass characterisation
`Output.origin` ("every emitted mention comes from its row's code path") are in PdProps/C11.lean.

* `Privacy.hidden_inherits` / `Output.hidden_inherits` / `Output.hidden_inside`: a hidden container makes
  everything inside it invisible.
* `Output.no_trace`: rows whose code tests `isVisible` never mention a hidden object (or anything
  inside one); `Output.no_trace_files`: no page file, anchor, search document or inventory line.
* `Output.private_marked`: every listing entry of a PRIVATE object carries the marker.
* The full statement over *all* rows is false of the current code (class-signature links, `overrides`
  notes, via-bases, cross-references and annotation links, copied summaries, hidden roots):
  `Output.no_trace_partial` under the decidable hypothesis `noHiddenRefs`, `Output.no_trace_counterexample`.
-/
import PdProps.C11

namespace Privacy

/-- every object of the chain `[ob, ob.parent, …]` is, when asked in turn, classified and not HIDDEN -/
def allShown (rules : List Rule) : Cache → List Obj → Prop
  | _, [] => True
  | c, ob :: ps =>
    ∃ l, (privacyClass rules c ob).1 = .ok l ∧ l ≠ .hidden ∧ allShown rules (privacyClass rules c ob).2 ps

/-- **C12** `Documentable.isVisible` answers `True` exactly when the object and every one of its
containers is classified as something else than HIDDEN: a hidden module, package or class hides
everything inside it. -/
theorem hidden_inherits (rules : List Rule) : ∀ (obs : List Obj) (c : Cache),
    (isVisible rules c obs).1 = .ok true ↔ allShown rules c obs := by
  intro obs
  induction obs with
  | nil => intro c; simp [isVisible, allShown]
  | cons ob ps ih =>
    intro c
    rw [isVisible, allShown]
    cases hp : privacyClass rules c ob with
    | mk r c1 =>
      cases r with
      | err e => simp
      | ok l =>
        simp only
        by_cases hl : l = .hidden
        · subst hl; simp
        · simp only [ne_eq, hl, not_false_eq_true, if_true]
          rw [ih c1]
          constructor
          · intro h; exact ⟨l, rfl, hl, h⟩
          · rintro ⟨l', h1, _, h3⟩; exact h3

/-- non-vacuity: a public module with a public class is visible; hide the module and the class is not -/
example : (isVisible [] [] [⟨['m', '.', 'K'], ['K'], false, false⟩, ⟨['m'], ['m'], true, false⟩]).1 = .ok true := by decide
example : (isVisible [⟨.hidden, ['m']⟩] [] [⟨['m', '.', 'K'], ['K'], false, false⟩, ⟨['m'], ['m'], true, false⟩]).1
    = .ok false := by decide

end Privacy

namespace Output

theorem chain_visible {s : Sys} : ∀ f p a, a ∈ chainAux s f p → visible s p = true → visible s a = true := by
  intro f
  induction f with
  | zero => intro p a h; simp [chainAux] at h
  | succ f ih =>
    intro p a h hv
    rw [chainAux] at h
    rcases List.mem_cons.mp h with rfl | h
    · exact hv
    · split at h
      · simp at h
      · rename_i q hq
        exact ih q a h (visible_parent hq hv)

/-- **C12** a visible object has no hidden container -/
theorem hidden_inherits {s : Sys} {i a : Nat} (hv : visible s i = true) (ha : a ∈ chain s i) :
    (s.ob a).privacy ≠ .hidden :=
  visible_not_hidden (chain_visible _ _ _ ha hv)

/-- **C12** nothing inside a hidden object (through `contents`, at any depth) is visible -/
theorem hidden_inside {s : Sys} (w : WF s) {a i : Nat} (hd : Desc s a i) (hh : (s.ob a).privacy = .hidden) :
    visible s i = false := by
  cases hv : visible s i with
  | false => rfl
  | true => exact absurd hh (visible_not_hidden (visible_of_desc w hd hv))

/-- **C12, rows with a visibility guard.** For every producer row whose code path tests `isVisible`
(member tables, package tables, inherited-member tables, member details, sidebar, heading, known
subclasses, "overridden in", the source base of "Inherited from", module index below the roots, class
index, name index, undocumented summary, all-documents) no mention of an object that is hidden — or
inside a hidden one — is produced. -/
theorem no_trace {s : Sys} (w : WF s) {e : Emit} (h : e ∈ emits s) (hg : e.row.guardVisible = true) :
    visible s e.target = true := by
  have ho := origin h
  have pagesV : ∀ p, p ∈ pages s → visible s p = true := fun p hp => visible_of_mem_pages hp
  cases hrow : e.row <;> rw [hrow] at hg <;> (first | exact absurd hg (by decide) | skip) <;>
    simp only [Origin, hrow] at ho
  case table => exact ho.2.2.1
  case initTable => exact ho.2.2.1
  case baseTable => exact ho.2.2
  case detail => exact ho.2.1
  case sidebarTitle =>
    obtain ⟨_, p, hp, _, ht⟩ := ho
    rcases ht with ht | ht | ht
    · exact ht ▸ pagesV p hp
    · exact visible_parent ht (pagesV p hp)
    · exact chain_visible _ _ _ (module_in_chain w (visible_lt (pagesV p hp)) ht).1 (pagesV p hp)
  case sidebarItem => exact ho.2.2.1
  case sidebarInherited => exact ho.2.2
  case heading =>
    obtain ⟨_, _, p, hp, _, ht⟩ := ho
    exact chain_visible _ _ _ ht (pagesV p hp)
  case knownSub => exact ho.2
  case overriddenIn => exact ho.2
  case baseName =>
    obtain ⟨_, a, ha, hv⟩ := ho
    exact visible_parent (w.contents_parent _ a ha) hv
  case modIndex => exact ho.2.2.1
  case classIndex => exact ho.2
  case nameIndex => exact ho.2
  case undoc => exact ho.2
  case allDocs => exact ho.2.2

/-- **C12** a hidden object (or anything inside one) has no page file, no anchor, no search document
and no inventory line -/
theorem no_trace_files {s : Sys} (w : WF s) {i : Nat} (hi : i < s.n) (hv : visible s i = false) :
    pageFile s i ∉ written s ∧ (∀ p, i ∉ methods s p) ∧ i ∉ searchDocs s ∧ i ∉ inventory s := by
  refine ⟨?_, ?_, ?_, ?_⟩
  · intro h
    have := visible_of_mem_pages (pageFile_written w hi h)
    rw [hv] at this; cases this
  · intro p h
    have := (mem_methods.mp h).2.2
    rw [hv] at this; cases this
  · intro h
    have := mem_visibleAll h
    rw [hv] at this; cases this
  · intro h
    have := ((mem_reached_iff w i).mp h).2
    rw [hv] at this; cases this

/-- **C12** every listing entry (member tables incl. inherited and package tables, member details,
sidebar, module index, all-documents / search documents) of a PRIVATE object carries the `private`
marker -/
theorem private_marked {s : Sys} {e : Emit} (h : e ∈ emits s) (hl : e.row.listing = true)
    (hp : (s.ob e.target).privacy = .priv) : e.marked = some true := by
  have ho := origin h
  cases hrow : e.row <;> rw [hrow] at hl <;> (first | exact absurd hl (by decide) | skip) <;>
    simp only [Origin, hrow] at ho
  case table => rw [ho.2.1]; simp [cssPrivate, hp]
  case initTable => rw [ho.2.1]; simp [cssPrivate, hp]
  case baseTable => rw [ho.2.1]; simp [cssPrivate, hp]
  case detail => rw [ho.1]; simp [cssPrivate, hp]
  case sidebarItem => rw [ho.2.1]; simp [isPrivate, hp]
  case sidebarInherited => rw [ho.2.1]; simp [isPrivate, hp]
  case modIndexRoot => rw [ho.2.1]; simp [isPrivate, hp]
  case modIndex => rw [ho.2.1]; simp [isPrivate, hp]
  case allDocs => rw [ho.2.1]; simp [hp]

/-- and a PUBLIC object is never marked in those listings -/
theorem public_unmarked {s : Sys} {e : Emit} (h : e ∈ emits s) (hl : e.row.listing = true)
    (hp : (s.ob e.target).privacy = .pub) : e.marked = some false := by
  have ho := origin h
  cases hrow : e.row <;> rw [hrow] at hl <;> (first | exact absurd hl (by decide) | skip) <;>
    simp only [Origin, hrow] at ho
  case table => rw [ho.2.1]; simp [cssPrivate, hp]
  case initTable => rw [ho.2.1]; simp [cssPrivate, hp]
  case baseTable => rw [ho.2.1]; simp [cssPrivate, hp]
  case detail => rw [ho.1]; simp [cssPrivate, hp]
  case sidebarItem => rw [ho.2.1]; simp [isPrivate, hp]
  case sidebarInherited => rw [ho.2.1]; simp [isPrivate, hp]
  case modIndexRoot => rw [ho.2.1]; simp [isPrivate, hp]
  case modIndex => rw [ho.2.1]; simp [isPrivate, hp]
  case allDocs => rw [ho.2.1]; simp [hp]

/-! ### the rows without a guard -/

/-- no root is hidden, and no visible object refers to a hidden one through the unguarded constructs:
cross-references of its displayed docstring, annotation / signature links, class-signature
expressions, constructors, classes of its MRO (via-bases), members it overrides -/
def noHiddenRefs (s : Sys) : Bool :=
  s.roots.all (visible s)
  && (List.range s.n).all fun o =>
      !visible s o ||
        ((s.ob o).xrefs.all (visible s) && (s.ob o).annrefs.all (visible s) && (s.ob o).ctors.all (visible s)
          && (s.ob o).sigrefs.all (fun t => match t with | none => true | some t => visible s t)
          && (s.ob o).mro.all (visible s)
          && ((s.ob o).mro.drop 1).all fun b =>
              ((s.ob o).name :: (methods s o).map fun c => (s.ob c).name).all fun nm =>
                match member s b nm with
                | none => true
                | some t => visible s t)

/-- **C12, all producer rows, under an explicit hypothesis.**
The full statement is FALSE of the current code (DESIGN §8-11, `no_trace_counterexample`):
-- theorem no_trace_all (w : WF s) : ∀ e ∈ emits s, visible s e.target = true
`taglink` only logs "don't link to …" for a target that is not visible; rows 7, 9, 5 (via), 13 (roots),
16, 20, 22 of the producer table call it without a guard of their own. -/
theorem no_trace_partial {s : Sys} (w : WF s) (hn : noHiddenRefs s = true) {e : Emit} (h : e ∈ emits s) :
    visible s e.target = true := by
  cases hg : e.row.guardVisible with
  | true => exact no_trace w h hg
  | false =>
    have ho := origin h
    simp only [noHiddenRefs, Bool.and_eq_true, List.all_eq_true, List.mem_range, Bool.or_eq_true,
      Bool.not_eq_true'] at hn
    obtain ⟨hroots, hobj⟩ := hn
    have refs : ∀ o, visible s o = true →
        (∀ t ∈ (s.ob o).xrefs, visible s t = true) ∧ (∀ t ∈ (s.ob o).annrefs, visible s t = true) ∧
        (∀ t ∈ (s.ob o).ctors, visible s t = true) ∧
        (∀ t ∈ (s.ob o).sigrefs, (match t with | none => true | some t => visible s t) = true) ∧
        (∀ t ∈ (s.ob o).mro, visible s t = true) ∧
        (∀ b ∈ (s.ob o).mro.drop 1, ∀ nm ∈ ((s.ob o).name :: (methods s o).map fun c => (s.ob c).name),
            (match member s b nm with | none => true | some t => visible s t) = true) := by
      intro o hv
      rcases hobj o (visible_lt hv) with h | h
      · rw [hv] at h; cases h
      · obtain ⟨⟨⟨⟨⟨h1, h2⟩, h3⟩, h4⟩, h5⟩, h6⟩ := h
        exact ⟨h1, h2, h3, h4, h5, h6⟩
    have shownV : ∀ pg o, Shown s pg o → visible s o = true := by
      rintro pg o ⟨p, hp, _, ho | ho⟩
      · exact ho ▸ visible_of_mem_pages hp
      · exact (mem_methods.mp ho).2.2
    cases hrow : e.row <;> rw [hrow] at hg <;> (first | exact absurd hg (by decide) | skip) <;>
      simp only [Origin, hrow] at ho
    case classSig =>
      obtain ⟨_, p, hp, ht⟩ := ho
      exact (refs p (visible_of_mem_pages hp)).2.2.2.1 _ ht
    case overrides =>
      obtain ⟨_, p, hp, b, nm, hb, hm, hnm⟩ := ho
      have := (refs p (visible_of_mem_pages hp)).2.2.2.2.2 b hb nm (by
        rcases hnm with rfl | ⟨c, hc, rfl⟩
        · exact List.mem_cons_self
        · exact List.mem_cons_of_mem _ (List.mem_map.mpr ⟨c, hc, rfl⟩))
      rw [hm] at this
      exact this
    case baseVia =>
      obtain ⟨_, p, hp, ht⟩ := ho
      exact (refs p (visible_of_mem_pages hp)).2.2.2.2.1 _ ht
    case docXref =>
      obtain ⟨o, hs, ht, _⟩ := ho
      exact (refs o (shownV _ _ hs)).1 _ ht
    case annXref =>
      obtain ⟨o, _, hs, ht, _⟩ := ho
      exact (refs o (shownV _ _ hs)).2.1 _ ht
    case extraInfo =>
      obtain ⟨_, p, hp, ht⟩ := ho
      exact (refs p (visible_of_mem_pages hp)).2.2.1 _ ht
    case sumCopy =>
      obtain ⟨_, o, hv, ht⟩ := ho
      exact (refs o hv).1 _ ht
    case classIndexSum =>
      obtain ⟨_, o, hv, ht⟩ := ho
      exact (refs o hv).1 _ ht
    case allDocsSum =>
      obtain ⟨_, o, hv, ht⟩ := ho
      exact (refs o hv).1 _ ht
    case modIndexSum =>
      obtain ⟨_, o, hv, ht⟩ := ho
      have hvo : visible s o = true := by
        rcases hv with hv | hv
        · exact hv
        · exact hroots o hv
      exact (refs o hvo).1 _ ht
    case modIndexRoot => exact hroots _ ho.2.2
    case indexRoots => exact hroots _ ho.2

/-- DESIGN §8-11 on the model: `class V(_H)` with `_H` hidden — the class signature of the visible `V`
links the hidden class; the hypothesis of `no_trace_partial` is what fails. -/
theorem no_trace_counterexample :
    wf sHidden = true ∧ noHiddenRefs sHidden = false ∧
    ((emits sHidden).any fun e => e.row == .classSig && e.target == 1 && !visible sHidden e.target) = true := by
  decide

/-- two roots, one hidden: index.html and moduleIndex.html link it (rows 13 and 16 have no guard at
the root) -/
def sHiddenRoot : Sys :=
  { objs := [ mkObj ['a'] .module none .hidden [], { mkObj ['b'] .module none .pub [] with modul := some 1 } ],
    all := [0, 1], roots := [0, 1], depth := 1, nosidebar := false }

theorem no_trace_counterexample_root :
    wf sHiddenRoot = true ∧ visible sHiddenRoot 0 = false ∧
    ([Row.indexRoots, Row.modIndexRoot].all fun r =>
      (emits sHiddenRoot).any fun e => e.row == r && e.target == 0) = true := by
  decide

/-! ### non-vacuity -/

/-- a private class in a public module: listed (and marked) in the module's table, the sidebar, the
search documents; `noHiddenRefs` holds -/
example : wf sPlain = true ∧ noHiddenRefs sPlain = true ∧
    ((emits sPlain).filter fun e => e.row.listing && e.target == 1).length = 4 ∧
    ((emits sPlain).filter fun e => e.row.listing && e.target == 1).all (fun e => e.marked == some true) = true ∧
    ((emits sPlain).filter fun e => e.row.guardVisible).length = 24 := by
  decide
example : visible sHidden 1 = false ∧ pageFile sHidden 1 ∉ written sHidden ∧ (1 : Nat) ∉ searchDocs sHidden := by decide

end Output
