/-
C12 — hidden objects leave no trace; private objects are always marked private.

Over the `Output` model (the producer table of DESIGN.md §7 C12 as a function from the object table to the
`taglink` requests and listing entries, then the visibility guard inside `taglink`, aaed9bd; root rows
guarded since 4b6324b) and the `Privacy` model.  Traversal lemmas, `origin` and `mem_emits` are in
PdProps/C11.lean.

* `Privacy.hidden_inherits` / `Output.hidden_inherits` / `Output.hidden_inside`: a hidden container makes
  everything inside it invisible.
* `Output.no_trace` (all 30 rows, full strength, no hypothesis): every emitted mention — hyperlink or
  listing element — is for a visible object; `Output.no_trace_files`: no page file, anchor, search document
  or inventory line.
* `Output.private_marked` / `public_unmarked`: the marker on the 9 listing rows; `private_marked_classIndex` (row or node marker, 2972983), `private_marked_undocumentedSummary`.
* `no_trace_named_file` (full since a3977d7), `private_marked_undocumentedSummary` (since fb55ab8).
* Still false of the current code (open finding): the unlinked base nodes of classIndex.html
  (`no_trace_texts_partial` under `noHiddenBaseNames`, `no_trace_texts_counterexample`).
* historical: `no_trace_counterexample_old` (DESIGN §8-11, before aaed9bd), `no_trace_counterexample_root_old`
  (root rows, before 4b6324b).
-/
import PdProps.C11

namespace Privacy

/-- every object of the chain `[ob, ob.parent, …]` is, when asked in turn, classified and not HIDDEN, and
every object but the outermost is the entry of its parent's `contents` -/
def allShown (rules : List Rule) : Cache → List Obj → Prop
  | _, [] => True
  | c, ob :: ps =>
    ∃ l, (privacyClass rules c ob).1 = .ok l ∧ l ≠ .hidden ∧ (ps ≠ [] → ob.inContents = true) ∧
      allShown rules (privacyClass rules c ob).2 ps

/-- **C12** `Documentable.isVisible` answers `True` exactly when the object and every one of its
containers is classified as something else than HIDDEN (and none of them is a superseded definition): a
hidden module, package or class hides everything inside it. -/
theorem hidden_inherits (rules : List Rule) : ∀ (obs : List Obj) (c : Cache),
    (isVisible rules c obs).1 = .ok true ↔ allShown rules c obs := by
  intro obs
  induction obs with
  | nil => intro c; simp [isVisible, allShown]
  | cons ob ps ih =>
    intro c
    rw [isVisible, allShown]
    cases hp : privacyClass rules c ob with
    | mk r c1 =>
      cases r with
      | err e => simp
      | ok l =>
        simp only
        by_cases hl : l = .hidden
        · subst hl; simp
        · simp only [ne_eq, hl, not_false_eq_true, if_true]
          cases ps with
          | nil => simp [allShown, hl]
          | cons p ps' =>
            by_cases hc : ob.inContents = true
            · simp only [hc, if_true]
              rw [ih c1]
              constructor
              · intro h; exact ⟨l, rfl, hl, fun _ => trivial, h⟩
              · rintro ⟨l', _, _, _, h4⟩; exact h4
            · simp only [hc]
              constructor
              · intro h; simp at h
              · rintro ⟨l', _, _, h3, _⟩; exact absurd (h3 (by simp)) (by simp)

/-- non-vacuity: a public module with a public class is visible; hide the module and the class is not -/
example : (isVisible [] [] [⟨['m', '.', 'K'], ['K'], false, false, true⟩, ⟨['m'], ['m'], true, false, true⟩]).1 = .ok true := by decide
example : (isVisible [⟨.hidden, ['m']⟩] [] [⟨['m', '.', 'K'], ['K'], false, false, true⟩, ⟨['m'], ['m'], true, false, true⟩]).1
    = .ok false := by decide

end Privacy

namespace Output

theorem chain_visible {s : Sys} : ∀ f p a, a ∈ chainAux s f p → visible s p = true → visible s a = true := by
  intro f
  induction f with
  | zero => intro p a h; simp [chainAux] at h
  | succ f ih =>
    intro p a h hv
    rw [chainAux] at h
    rcases List.mem_cons.mp h with rfl | h
    · exact hv
    · split at h
      · simp at h
      · rename_i q hq
        exact ih q a h (visible_parent hq hv)

/-- **C12** a visible object has no hidden container -/
theorem hidden_inherits {s : Sys} {i a : Nat} (hv : visible s i = true) (ha : a ∈ chain s i) :
    (s.ob a).privacy ≠ .hidden :=
  visible_not_hidden (chain_visible _ _ _ ha hv)

/-- **C12** nothing inside a hidden object (through `contents`, at any depth) is visible -/
theorem hidden_inside {s : Sys} (w : WF s) {a i : Nat} (hd : Desc s a i) (hh : (s.ob a).privacy = .hidden) :
    visible s i = false := by
  cases hv : visible s i with
  | false => rfl
  | true => exact absurd hh (visible_not_hidden (visible_of_desc w hd hv))

/-- what the code path of every entry row establishes about its target: it is visible (since 4b6324b
also for the root rows of moduleIndex.html and index.html) -/
theorem entry_visible {s : Sys} {r : Emit} (h : r ∈ requests s) (he : r.row.isEntry = true) :
    visible s r.target = true := by
  have ho := origin h
  cases hrow : r.row <;> rw [hrow] at he <;> (first | exact absurd he (by decide) | skip) <;>
    simp only [Origin, hrow] at ho
  case table => exact ho.2.2.1
  case initTable => exact ho.2.2.1
  case baseTable => exact ho.2.2
  case detail => exact ho.2.1
  case sidebarItem => exact ho.2.2.1
  case sidebarInherited => exact ho.2.2
  case modIndexRoot => exact ho.2.2.2
  case modIndex => exact ho.2.2.1
  case classIndex => exact ho.2.1
  case nameIndex => exact ho.2.1
  case undoc => exact ho.2.1
  case indexRoots => exact ho.2.2
  case allDocs => exact ho.2.2

/-- **C12, every producer row, full strength.** Every hyperlink and every listing element (table row,
member details, sidebar item, index entry, search document) the run emits is for a visible object: since
aaed9bd `taglink` builds no hyperlink to an object that is not visible, whoever calls it, and every row
that writes an element of its own tests `isVisible` itself (since 4b6324b the root rows of
moduleIndex.html and index.html too). An object that is hidden, or inside a hidden one, is not mentioned. -/
theorem no_trace {s : Sys} {e : Emit} (h : e ∈ emits s) : visible s e.target = true := by
  rcases mem_emits h with ⟨_, hv⟩ | ⟨_, hv, r, hr, he, _, ht, _⟩
  · exact hv
  · have := entry_visible hr he
    rw [ht, hv] at this
    cases this

/-- in particular no hyperlink anywhere targets an object that is not visible -/
theorem no_trace_links {s : Sys} {e : Emit} (h : e ∈ emits s) (_ : e.linked = true) : visible s e.target = true :=
  no_trace h

/-- **C12** a hidden object (or anything inside one) has no page, no anchor, no search document and no
inventory line. A file at its address exists in one case only: the address is index.html (it is the only
root) and the project's `IndexPage` is written there (a09aa28) — a page that does not mention it. -/
theorem no_trace_files {s : Sys} (w : WF s) {i : Nat} (hi : i < s.n) (hv : visible s i = false) :
    i ∉ pages s ∧ (pageFile s i ∈ written s → pageFile s i = .index ∧ hasIndexPage s = true) ∧
      (∀ p, i ∉ methods s p) ∧ i ∉ searchDocs s ∧ i ∉ inventory s := by
  have hnp : i ∉ pages s := by
    intro h
    have := visible_of_mem_pages h
    rw [hv] at this; cases this
  refine ⟨hnp, ?_, ?_, ?_, ?_⟩
  · intro h
    rcases pageFile_written w hi h with h | h
    · exact absurd h hnp
    · exact h
  · intro p h
    have := (mem_methods.mp h).2.2
    rw [hv] at this; cases this
  · intro h
    have := mem_visibleAll h
    rw [hv] at this; cases this
  · intro h
    have := ((mem_reached_iff w i).mp h).2
    rw [hv] at this; cases this

/-- the marker of an emitted listing entry is the one its row's code path computes -/
theorem marker_of {s : Sys} {e : Emit} (h : e ∈ emits s) (hl : e.row.listing = true) :
    e.marked = some (if e.row = .sidebarItem ∨ e.row = .sidebarInherited ∨ e.row = .modIndexRoot ∨ e.row = .modIndex
                     then isPrivate s e.target else cssPrivate s e.target) := by
  have key : ∀ r : Emit, r ∈ requests s → r.row.listing = true →
      r.marked = some (if r.row = .sidebarItem ∨ r.row = .sidebarInherited ∨ r.row = .modIndexRoot ∨ r.row = .modIndex
                     then isPrivate s r.target else cssPrivate s r.target) := by
    intro r hr hlr
    have ho := origin hr
    cases hrow : r.row <;> rw [hrow] at hlr <;> (first | exact absurd hlr (by decide) | skip) <;>
      simp only [Origin, hrow] at ho
    case table => rw [ho.2.1]; simp
    case initTable => rw [ho.2.1]; simp
    case baseTable => rw [ho.2.1]; simp
    case detail => rw [ho.1]; simp
    case sidebarItem => rw [ho.2.1]; simp
    case sidebarInherited => rw [ho.2.1]; simp
    case modIndexRoot => rw [ho.2.1]; simp
    case modIndex => rw [ho.2.1]; simp
    case allDocs => rw [ho.2.1]; simp [cssPrivate]
  rcases mem_emits h with ⟨hr, _⟩ | ⟨_, _, r, hr, _, hrow, ht, hm⟩
  · exact key e hr hl
  · have := key r hr (hrow ▸ hl)
    rw [← hm, ← hrow, ← ht]
    exact this

/-- **C12** every listing entry (member tables incl. inherited and package tables, member details,
sidebar, module index, all-documents / search documents) of a PRIVATE object carries the `private`
marker -/
theorem private_marked {s : Sys} {e : Emit} (h : e ∈ emits s) (hl : e.row.listing = true)
    (hp : (s.ob e.target).privacy = .priv) : e.marked = some true := by
  rw [marker_of h hl]
  split <;> simp [isPrivate, cssPrivate, hp]

/-- and a PUBLIC object is never marked in those listings -/
theorem public_unmarked {s : Sys} {e : Emit} (h : e ∈ emits s) (hl : e.row.listing = true)
    (hp : (s.ob e.target).privacy = .pub) : e.marked = some false := by
  rw [marker_of h hl]
  split <;> simp [isPrivate, cssPrivate, hp]

/-! ### per producer: what each function of the page writers and summary pages lets through

One statement per producer of pages, anchors, rows and index entries (`no_trace_<producer>`), about the
producer's own model function, and one per listing row about its marker (`private_marked_<producer>`). -/

/-- `TemplateWriter._writeDocsFor`: the recursion visits visible objects only -/
theorem no_trace_writeDocsFor (s : Sys) {f r i : Nat} (h : i ∈ docsFor s f r) : visible s i = true :=
  (docsFor_sound s f r i h).2

/-- the pages that are written -/
theorem no_trace_pages {s : Sys} {p : Nat} (h : p ∈ pages s) : visible s p = true := visible_of_mem_pages h

/-- `linker.taglink`: a hyperlink is built for a visible target only -/
theorem no_trace_taglink {s : Sys} {e e' : Emit} (h : taglinkGuard s e = some e') (hl : e'.linked = true) :
    visible s e'.target = true := by
  unfold taglinkGuard at h
  split at h
  · rename_i hv; injection h with h; exact h ▸ hv
  · split at h
    · injection h with h; rw [← h] at hl; cases hl
    · cases h

/-- `CommonPage.children` / `PackagePage.children` + `ChildTable.rows` -/
theorem no_trace_ChildTable {s : Sys} {p c : Nat} (h : c ∈ tableChildren s p) : visible s c = true := by
  unfold tableChildren at h
  split at h
  · unfold submodules at h
    have := (List.mem_filter.mp h).2
    simp only [Bool.and_eq_true] at this
    exact this.2
  · exact (List.mem_filter.mp h).2

/-- `PackagePage.packageInitTable` -/
theorem no_trace_packageInitTable {s : Sys} {p c : Nat} (h : c ∈ initChildren s p) : visible s c = true := by
  unfold initChildren at h
  split at h
  · have := (List.mem_filter.mp h).2
    simp only [Bool.and_eq_true] at this
    exact this.2
  · simp at h

/-- `CommonPage.methods` (member details, anchors) -/
theorem no_trace_methods {s : Sys} {p c : Nat} (h : c ∈ methods s p) : visible s c = true := (mem_methods.mp h).2.2

/-- `Module.submodules` -/
theorem no_trace_submodules {s : Sys} {p c : Nat} (h : c ∈ submodules s p) : visible s c = true := by
  unfold submodules at h
  have := (List.mem_filter.mp h).2
  simp only [Bool.and_eq_true] at this
  exact this.2

/-- `util.unmasked_attrs` -/
theorem no_trace_unmasked_attrs {s : Sys} {bl : List Nat} {a : Nat} (h : a ∈ unmaskedAttrs s bl) : visible s a = true :=
  (mem_unmaskedAttrs h).1

/-- `util.class_members` / `ClassPage.baseTables`: every inherited member shown -/
theorem no_trace_baseTables {s : Sys} {c : Nat} {bl attrs : List Nat} (h : (bl, attrs) ∈ baseLists s c) {a : Nat}
    (ha : a ∈ attrs) : visible s a = true := by
  obtain ⟨hattrs, _, _⟩ := mem_classMembers (mem_baseLists h)
  exact (mem_unmaskedAttrs (hattrs ▸ ha)).1

/-- `util.inherited_members` (sidebar) -/
theorem no_trace_inherited_members {s : Sys} {c a : Nat} (h : a ∈ inheritedMembers s c) : visible s a = true := by
  unfold inheritedMembers at h
  obtain ⟨⟨bl, attrs⟩, hx, ha⟩ := List.mem_flatMap.mp h
  simp only at ha
  split at ha
  · obtain ⟨hattrs, _, _⟩ := mem_classMembers hx
    exact (mem_unmaskedAttrs (hattrs ▸ ha)).1
  · simp at ha

/-- `assembleList` ("Known subclasses", "overridden in") -/
theorem no_trace_assembleList {s : Sys} {l : List Nat} {i : Nat} (h : i ∈ assemble s l) : visible s i = true :=
  mem_assemble h

/-- `util.overriding_subclasses`: only visible subclasses are yielded -/
theorem no_trace_overriding_subclasses (s : Sys) : ∀ f c nm x, x ∈ overridingSubs s f true c nm → visible s x = true := by
  have key : ∀ f first c nm x, x ∈ overridingSubs s f first c nm → (first = false ∧ x = c) ∨ visible s x = true := by
    intro f
    induction f with
    | zero => intro first c nm x h; simp [overridingSubs] at h
    | succ f ih =>
      intro first c nm x h
      rw [overridingSubs] at h
      split at h
      · rename_i hc
        simp only [Bool.and_eq_true, Bool.not_eq_true'] at hc
        simp only [List.mem_singleton] at h
        exact .inl ⟨hc.1, h⟩
      · obtain ⟨sc, _, hx⟩ := List.mem_flatMap.mp h
        split at hx
        · rename_i hv
          rcases ih false sc nm x hx with ⟨_, rfl⟩ | hvx
          · exact .inr hv
          · exact .inr hvx
        · simp at hx
  intro f c nm x h
  rcases key f true c nm x h with ⟨hf, _⟩ | hv
  · cases hf
  · exact hv

/-- `sidebar.ObjContent`: every item, at every expand depth, direct or inherited -/
theorem no_trace_sidebar (s : Sys) (pf : File) (k ob : Nat) {e : Emit} (h : e ∈ sideContent s pf k ob) :
    visible s e.target = true := (mem_sideContent s pf k ob e h).2.2.2.1

/-- `summary.moduleSummary` / `ModuleIndexPage.stuff`: every row of moduleIndex.html -/
theorem no_trace_moduleIndex {s : Sys} {e : Emit} (h : e ∈ emits s) (hr : e.row = .modIndexRoot ∨ e.row = .modIndex) :
    visible s e.target = true := no_trace h

/-- `summary.findRootClasses`: every class kept in the dict -/
theorem no_trace_findRootClasses (s : Sys) {kv : List Char × RootVal} (h : kv ∈ findRootClasses s) {c : Nat}
    (hc : c ∈ kv.2.classes) : visible s c = true := findRootClasses_visible s kv h c hc

/-- `summary.subclassesFrom` below a visible class -/
theorem no_trace_subclassesFrom (s : Sys) {f c x : Nat} (hc : visible s c = true) (h : x ∈ subclassesFrom s f c) :
    visible s x = true := by
  rcases mem_subclassesFrom s f c x h with rfl | hv
  · exact hc
  · exact hv

/-- `ClassIndexPage`: every linked entry of classIndex.html -/
theorem no_trace_classIndex {s : Sys} {c : Nat} (h : c ∈ classIndexListed s) : visible s c = true := mem_classIndexListed h

/-- `NameIndexPage`, `UndocumentedSummaryPage`, `get_all_documents_flattenable`, `LunrIndexWriter.get_corpus` -/
theorem no_trace_nameIndex {s : Sys} {o : Nat} (h : o ∈ visibleAll s) : visible s o = true := mem_visibleAll h

theorem no_trace_search {s : Sys} {o : Nat} (h : o ∈ searchDocs s) : visible s o = true := mem_visibleAll h

/-- `SphinxInventoryWriter._generateContent` -/
theorem no_trace_inventory {s : Sys} (w : WF s) {o : Nat} (h : o ∈ inventory s) : visible s o = true :=
  ((mem_reached_iff w o).mp h).2

/-- `IndexPage.roots` (since 4b6324b) -/
theorem no_trace_indexRoots {s : Sys} {e : Emit} (h : e ∈ emits s) (_ : e.row = .indexRoots) : visible s e.target = true :=
  no_trace h

/-- the private marker, row by row -/
theorem private_marked_ChildTable {s : Sys} {e : Emit} (h : e ∈ emits s) (hr : e.row = .table)
    (hp : (s.ob e.target).privacy = .priv) : e.marked = some true := private_marked h (by rw [hr]; rfl) hp

theorem private_marked_packageInitTable {s : Sys} {e : Emit} (h : e ∈ emits s) (hr : e.row = .initTable)
    (hp : (s.ob e.target).privacy = .priv) : e.marked = some true := private_marked h (by rw [hr]; rfl) hp

theorem private_marked_baseTables {s : Sys} {e : Emit} (h : e ∈ emits s) (hr : e.row = .baseTable)
    (hp : (s.ob e.target).privacy = .priv) : e.marked = some true := private_marked h (by rw [hr]; rfl) hp

theorem private_marked_childlist {s : Sys} {e : Emit} (h : e ∈ emits s) (hr : e.row = .detail)
    (hp : (s.ob e.target).privacy = .priv) : e.marked = some true := private_marked h (by rw [hr]; rfl) hp

theorem private_marked_sidebar {s : Sys} {e : Emit} (h : e ∈ emits s) (hr : e.row = .sidebarItem ∨ e.row = .sidebarInherited)
    (hp : (s.ob e.target).privacy = .priv) : e.marked = some true := by
  rcases hr with hr | hr <;> exact private_marked h (by rw [hr]; rfl) hp

theorem private_marked_moduleIndex {s : Sys} {e : Emit} (h : e ∈ emits s) (hr : e.row = .modIndexRoot ∨ e.row = .modIndex)
    (hp : (s.ob e.target).privacy = .priv) : e.marked = some true := by
  rcases hr with hr | hr <;> exact private_marked h (by rw [hr]; rfl) hp

theorem private_marked_allDocuments {s : Sys} {e : Emit} (h : e ∈ emits s) (hr : e.row = .allDocs)
    (hp : (s.ob e.target).privacy = .priv) : e.marked = some true := private_marked h (by rw [hr]; rfl) hp

/-- `summary.isPrivate` covers `Documentable.isPrivate`: in nameIndex.html a PRIVATE object's entry is marked
(and so is every object inside something private) -/
theorem ctxPrivate_of_private (s : Sys) (i : Nat) (h : isPrivate s i = true) : ctxPrivate s i = true := by
  unfold ctxPrivate
  rw [ctxPrivateAux]
  simp [h]

theorem private_marked_nameIndex {s : Sys} {e : Emit} (h : e ∈ emits s) (hr : e.row = .nameIndex)
    (hp : (s.ob e.target).privacy = .priv) : e.marked = some true := by
  have key : ∀ r : Emit, r ∈ requests s → r.row = .nameIndex → r.marked = some (ctxPrivate s r.target) := by
    intro r hr' hrow
    have ho := origin hr'
    simp only [Origin, hrow] at ho
    exact ho.2.2
  have hm : e.marked = some (ctxPrivate s e.target) := by
    rcases mem_emits h with ⟨hr', _⟩ | ⟨_, _, r, hr', _, hrow, ht, hm⟩
    · exact key e hr' hr
    · rw [← hm, ← ht]; exact key r hr' (hrow ▸ hr)
  rw [hm, ctxPrivate_of_private s _ (by simp [isPrivate, hp])]

/-- classIndex.html: the marker of an entry is on the node (`isClassNodePrivate`) or, since 2972983, on the row -/
theorem classIndex_marker {s : Sys} {e : Emit} (h : e ∈ emits s) (hr : e.row = .classIndex) :
    e.marked = some (classRowPrivate s e.target) := by
  rcases mem_emits h with ⟨hr', _⟩ | ⟨_, _, r, hr', _, hrow, ht, hm⟩
  · have ho := origin hr'
    simp only [Origin, hr] at ho
    exact ho.2.2
  · have ho := origin hr'
    simp only [Origin, hrow ▸ hr] at ho
    rw [← hm, ← ht]; exact ho.2.2

/-- the entry of a class in a private context is marked, one way or the other -/
theorem classRowPrivate_of_ctxPrivate (s : Sys) (c : Nat) (h : ctxPrivate s c = true) : classRowPrivate s c = true := by
  unfold classRowPrivate
  rw [h]
  cases classNodePrivate s s.n c <;> rfl

/-- `summary.isClassNodePrivate`: a class-index node is marked only for a class in a private context all of
whose subclasses (visible or not) are marked as well -/
theorem classNodePrivate_sound (s : Sys) : ∀ f c, classNodePrivate s f c = true →
    ctxPrivate s c = true ∧ ∀ sc, sc ∈ (s.ob c).subclasses → ∃ f', classNodePrivate s f' sc = true := by
  intro f
  cases f with
  | zero => intro c h; simp [classNodePrivate] at h
  | succ f =>
    intro c h
    rw [classNodePrivate] at h
    simp only [Bool.and_eq_true, List.all_eq_true] at h
    exact ⟨h.1, fun sc hsc => ⟨f, h.2 sc hsc⟩⟩

/-- **classIndex.html, full strength since 2972983**: the entry of a PRIVATE class carries the marker, whatever its
subclasses are (before: only when all of them were private, see `private_marked_classIndex_counterexample_old`) -/
theorem private_marked_classIndex {s : Sys} {e : Emit} (h : e ∈ emits s) (hr : e.row = .classIndex)
    (hp : (s.ob e.target).privacy = .priv) : e.marked = some true := by
  rw [classIndex_marker h hr,
    classRowPrivate_of_ctxPrivate s _ (ctxPrivate_of_private s e.target (by simp [isPrivate, hp]))]

/-- `m.py`: `class _B` (PRIVATE by its name) and `class S(_B)` (public) -/
def sPrivateBase : Sys :=
  { objs := #[ mkObj ['m'] .module none .pub [1, 2],
              { mkObj ['_', 'B'] .cls (some 0) .priv [] with mro := [1], subclasses := [2] },
              { mkObj ['S'] .cls (some 0) .pub [] with
                  bases := [some 1], baseNames := [['m', '.', '_', 'B']], mro := [2, 1], sigrefs := [some 1] } ],
    all := [0, 1, 2], roots := [0], depth := 1, nosidebar := false }

/-- before 2972983 the statement was false for classIndex.html: `summary.isClassNodePrivate` marks the `<li>` of a class
only when all its subclasses are private too (the `<li>` also holds their entries); the PRIVATE `m._B` with the public
subclass `m.S` was listed without any marker. Now its row carries it. -/
theorem private_marked_classIndex_counterexample_old :
    wf sPrivateBase = true ∧ (sPrivateBase.ob 1).privacy = .priv ∧
    classNodePrivate sPrivateBase sPrivateBase.n 1 = false ∧
    -- fixed code
    ((emits sPrivateBase).any fun e => e.row == .classIndex && e.target == 1 && e.marked == some true) = true ∧
    ((emits sPrivateBase).all fun e => !(e.row == .classIndex && e.target == 2) || e.marked == some false) = true := by
  decide

/-! ### what is still false of the current code: the unlinked base nodes of classIndex.html -/

/-- two roots, one hidden -/
def sHiddenRoot : Sys :=
  { objs := #[ mkObj ['a'] .module none .hidden [], { mkObj ['b'] .module none .pub [] with modul := some 1 } ],
    all := [0, 1], roots := [0, 1], depth := 1, nosidebar := false }

/-- historical (between aaed9bd and 4b6324b): `ModuleIndexPage.stuff` and `IndexPage.roots` iterated
`rootobjects` without a visibility test; `taglink` refused the link but the row of the hidden root was written
all the same, with its name as plain text. Now no emitted mention targets it. -/
theorem no_trace_counterexample_root_old :
    wf sHiddenRoot = true ∧ visible sHiddenRoot 0 = false ∧
    ([Row.indexRoots, Row.modIndexRoot].all fun r =>
      (rootRowsOld sHiddenRoot).any fun e => e.row == r && e.target == 0 && !e.linked) = true ∧
    -- fixed code
    (emits sHiddenRoot).all (fun e => e.target != 0) = true := by
  decide

/-- the unlinked root nodes of classIndex.html name no object that is not visible, *provided* no listed
class has a base that is not visible, or an unresolved base expression that expands to the qualified name
of an object that is not visible -/
def noHiddenBaseNames (s : Sys) : Bool :=
  (classes s).all fun c =>
    hasSpace (s.ob c).name || !visible s c ||
      ((s.ob c).baseNames.zip (s.ob c).bases).all fun nb =>
        match nb.2 with
        | some b => visible s b
        | none => (List.range s.n).all fun i => fullName s i != nb.1 || visible s i

/-- every key of the `roots` dict that holds a list names visible objects only -/
def RootsNamed (s : Sys) (r : Roots) : Prop :=
  ∀ kv, kv ∈ r → ∀ l, kv.2 = .many l → ∀ i, i < s.n → fullName s i = kv.1 → visible s i = true

theorem rset_named {s : Sys} {r : Roots} {k : List Char} {v : RootVal} (hr : RootsNamed s r)
    (hv : ∀ l, v = .many l → ∀ i, i < s.n → fullName s i = k → visible s i = true) : RootsNamed s (rset r k v) := by
  induction r with
  | nil =>
    intro kv hkv l hl i hi hf
    simp only [rset, List.mem_singleton] at hkv
    subst hkv
    exact hv l hl i hi hf
  | cons x r ih =>
    obtain ⟨k', v'⟩ := x
    intro kv hkv l hl i hi hf
    simp only [rset] at hkv
    split at hkv
    · rename_i hk
      rcases List.mem_cons.mp hkv with h | h
      · subst h; exact hv l hl i hi (hk ▸ hf)
      · exact hr kv (List.mem_cons_of_mem _ h) l hl i hi hf
    · rcases List.mem_cons.mp hkv with h | h
      · exact hr kv (h ▸ List.mem_cons_self) l hl i hi hf
      · exact ih (fun kv hkv => hr kv (List.mem_cons_of_mem _ hkv)) kv h l hl i hi hf

theorem addBase_named {s : Sys} {r : Roots} {nm : List Char} {c : Nat} (hr : RootsNamed s r)
    (hnm : ∀ i, i < s.n → fullName s i = nm → visible s i = true) : RootsNamed s (addBase r nm c) := by
  unfold addBase
  split <;> exact rset_named hr (fun _ _ => hnm)

theorem rootStep_named {s : Sys} (w : WF s) (hn : noHiddenBaseNames s = true) {r : Roots} {c : Nat}
    (hc : c ∈ classes s) (hr : RootsNamed s r) : RootsNamed s (rootStep s r c) := by
  unfold rootStep
  split
  · exact hr
  · rename_i hcv
    simp only [Bool.or_eq_true, Bool.not_eq_true', not_or, Bool.not_eq_true, Bool.not_eq_false] at hcv
    have hv : visible s c = true := hcv.2
    have hself : ∀ i, i < s.n → fullName s i = fullName s c → visible s i = true := by
      intro i hi hf
      rw [w.names i c hi (visible_lt hv) hf]; exact hv
    split
    · split
      · exact rset_named hr (fun _ _ => hself)
      · exact rset_named hr (fun _ _ => hself)
    · have hall : ∀ nb, nb ∈ (s.ob c).baseNames.zip (s.ob c).bases →
          (match nb.2 with
            | some b => visible s b
            | none => (List.range s.n).all fun i => fullName s i != nb.1 || visible s i) = true := by
        have := List.all_eq_true.mp hn c hc
        simp only [Bool.or_eq_true, Bool.not_eq_true'] at this
        rcases this with (h | h) | h
        · rw [hcv.1] at h; cases h
        · rw [hv] at h; cases h
        · exact List.all_eq_true.mp h
      revert hall
      generalize ((s.ob c).baseNames.zip (s.ob c).bases) = l
      intro hall
      induction l generalizing r with
      | nil => exact hr
      | cons nb l ih =>
        simp only [List.foldl_cons]
        apply ih
        · have h1 := hall nb List.mem_cons_self
          cases hb : nb.2 with
          | none =>
            simp only [hb] at h1 ⊢
            apply addBase_named hr
            intro i hi hf
            have := List.all_eq_true.mp h1 i (List.mem_range.mpr hi)
            simp only [Bool.or_eq_true, bne_iff_ne, ne_eq] at this
            rcases this with h | h
            · exact absurd hf h
            · exact h
          | some b =>
            simp only [hb] at h1 ⊢
            simp [h1, hr]
        · intro nb' hnb'; exact hall nb' (List.mem_cons_of_mem _ hnb')

theorem foldl_rootStep_named {s : Sys} (w : WF s) (hn : noHiddenBaseNames s = true) :
    ∀ (l : List Nat) (r : Roots), (∀ c, c ∈ l → c ∈ classes s) → RootsNamed s r →
      RootsNamed s (l.foldl (rootStep s) r) := by
  intro l
  induction l with
  | nil => intro r _ h; exact h
  | cons c l ih =>
    intro r hsub h
    simp only [List.foldl_cons]
    exact ih _ (fun c hc => hsub c (List.mem_cons_of_mem _ hc))
      (rootStep_named w hn (hsub c List.mem_cons_self) h)

theorem findRootClasses_named {s : Sys} (w : WF s) (hn : noHiddenBaseNames s = true) :
    RootsNamed s (findRootClasses s) := by
  unfold findRootClasses
  exact foldl_rootStep_named w hn _ _ (fun _ h => h) (by intro kv h; simp at h)

/-- **C12, class index root names, under an explicit hypothesis.** The full statement is FALSE of the
current code (`no_trace_texts_counterexample`, known finding `hidden-trace:classindex-root-name`):
`findRootClasses` groups the subclasses of a base that is not visible under an unlinked node showing the
base's qualified name. -/
theorem no_trace_texts_partial {s : Sys} (w : WF s) (hn : noHiddenBaseNames s = true) {nm : Name} {m : Bool}
    (h : (nm, m) ∈ classIndexTexts s) {i : Nat} (hi : i < s.n) (hf : fullName s i = nm) : visible s i = true := by
  unfold classIndexTexts at h
  obtain ⟨kv, hkv, hh⟩ := List.mem_filterMap.mp h
  cases hv : kv.2 with
  | one c => simp [hv] at hh
  | many l =>
    simp only [hv, Option.some.injEq, Prod.mk.injEq] at hh
    exact findRootClasses_named w hn kv hkv l hv i hi (hh.1 ▸ hf)

/-- `class V(_H)` with `_H` hidden: classIndex.html has the unlinked root node `m._H` -/
theorem no_trace_texts_counterexample :
    wf sHidden = true ∧ visible sHidden 1 = false ∧ fullName sHidden 1 = ['m', '.', '_', 'H'] ∧
    (classIndexTexts sHidden).any (fun x => x.1 == ['m', '.', '_', 'H']) = true ∧
    noHiddenBaseNames sHidden = false := by
  decide

/-- historical (DESIGN §8-11, before aaed9bd): the class signature of the visible `V` linked the hidden
`_H`; now no hyperlink targets it -/
theorem no_trace_counterexample_old :
    wf sHidden = true ∧ visible sHidden 1 = false ∧
    ((requests sHidden).any fun e => e.row == .classSig && e.target == 1) = true ∧
    (emits sHidden).all (fun e => e.target != 1) = true := by
  decide

/-! ### files named after an object; the undocumented summary -/

theorem fullName_of_orphan {s : Sys} {r : Nat} (h : (s.ob r).parent = none) : fullName s r = (s.ob r).name := by
  unfold fullName
  rw [pathAux]
  simp [h, List.intercalate]

/-- **C12** a file named after an object (`<qualified name>.html`) exists for a visible object only: it is
its page, or the single-root alias symlink, which since a3977d7 is not created for a hidden root -/
theorem no_trace_named_file {s : Sys} (w : WF s) {i : Nat} (hi : i < s.n)
    (h : File.page (fullName s i) ∈ written s) : visible s i = true := by
  rcases (mem_written_iff s _).mp h with h | ⟨p, hp, he⟩ | h
  · rcases mem_summaryFiles_cases h with ⟨x, hx⟩ | ⟨hx, _⟩
    · cases hx
    · cases hx
  · have hpv := visible_of_mem_pages hp
    unfold pageFile at he
    split at he
    · cases he
    · injection he with he
      exact (w.names p i (visible_lt hpv) hi he) ▸ hpv
  · unfold aliasFiles at h
    split at h
    · rename_i r hr
      split at h
      · simp at h
      · rename_i hcond
        simp only [Bool.or_eq_true, Bool.not_eq_true', not_or, Bool.not_eq_false] at hcond
        obtain ⟨ρ, hρ, hρv⟩ := List.any_eq_true.mp hcond.2
        split at h
        · simp only [List.mem_singleton] at h
          injection h with h
          -- every root is named r; the visible root ρ therefore has the qualified name of i
          have hname : (s.ob ρ).name = r := by
            have : (s.ob ρ).name ∈ rootNames s := by
              unfold rootNames
              exact List.mem_eraseDups.mpr (List.mem_map.mpr ⟨ρ, hρ, rfl⟩)
            rw [hr] at this
            simpa using this
          have hfull : fullName s ρ = fullName s i := by
            rw [fullName_of_orphan (w.roots_parent ρ hρ), hname, h]
          exact (w.names ρ i (w.roots_lt ρ hρ) hi hfull) ▸ hρv
        · simp at h
    · simp at h

/-- historical (between a09aa28 and a3977d7): `writeSummaryPages` created the alias `<root>.html -> index.html`
for a hidden single root too; index.html existed (the IndexPage), so a file named after the hidden root led
somewhere. Now no such file exists. -/
theorem no_trace_alias_counterexample_old :
    wf sSoloHidden = true ∧ visible sSoloHidden 0 = false ∧ fullName sSoloHidden 0 = ['s'] ∧
    (aliasFilesOld sSoloHidden).contains (.page ['s']) = true ∧
    -- fixed code
    (written sSoloHidden).contains (.page ['s']) = false := by
  decide

/-- `UndocumentedSummaryPage.stuff` (since fb55ab8): the entry of a PRIVATE object — and of anything inside
something private — carries the marker -/
theorem private_marked_undocumentedSummary {s : Sys} {e : Emit} (h : e ∈ emits s) (hr : e.row = .undoc)
    (hp : (s.ob e.target).privacy = .priv) : e.marked = some true := by
  have key : ∀ r : Emit, r ∈ requests s → r.row = .undoc → r.marked = some (ctxPrivate s r.target) := by
    intro r hr' hrow
    have ho := origin hr'
    simp only [Origin, hrow] at ho
    exact ho.2.2
  have hm : e.marked = some (ctxPrivate s e.target) := by
    rcases mem_emits h with ⟨hr', _⟩ | ⟨_, _, r, hr', _, hrow, ht, hm⟩
    · exact key e hr' hr
    · rw [← hm, ← ht]; exact key r hr' (hrow ▸ hr)
  rw [hm, ctxPrivate_of_private s _ (by simp [isPrivate, hp])]

/-- historical (before fb55ab8): undoccedSummary.html had the "Toggle Private API" button but its entries
carried no marker (`sPlain`: the PRIVATE, undocumented class `m.K`); now the entry is marked. -/
theorem private_marked_undoc_counterexample_old :
    (sPlain.ob 1).privacy = .priv ∧
    ((undocRowsOld sPlain).any fun e => e.target == 1 && e.marked == none) = true ∧
    -- fixed code
    ((emits sPlain).filter fun e => e.row == .undoc && e.target == 1).all (fun e => e.marked == some true) = true := by
  decide

/-! ### non-vacuity -/

/-- a private class in a public module: listed (and marked) in the module's table, the sidebar, the
search documents -/
example : wf sPlain = true ∧ noHiddenBaseNames sPlain = true ∧ (emits sPlain).all (fun e => visible sPlain e.target) = true ∧
    ((emits sPlain).filter fun e => e.row.listing && e.target == 1).length = 4 ∧
    ((emits sPlain).filter fun e => e.row.listing && e.target == 1).all (fun e => e.marked == some true) = true := by
  decide
example : visible sHidden 1 = false ∧ pageFile sHidden 1 ∉ written sHidden ∧ (1 : Nat) ∉ searchDocs sHidden := by decide

end Output
