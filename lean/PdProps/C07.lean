/-
C07 — a re-exported object is documented once, where exported, and stays reachable.
Theorems over `PdModel.Names` / `PdModel.Registry`.
-/
import PdModel.Names

namespace Names
open Registry

/-- **relative_level**: for every importing module (package or not) and every level ≥ 1, the
package pydoctor resolves a relative import against is the one importlib computes — or both
refuse ("relative import level too high" / ImportError). -/
theorem relative_level (mp : Path) (isPkg : Bool) (level : Nat) (h : 1 ≤ level) :
    relativeBase mp isPkg level = pythonRelativeBase mp isPkg level := by
  unfold relativeBase pythonRelativeBase
  have hl : ¬ level = 0 := by omega
  cases isPkg
  · -- plain module: package = parent
    simp only [Bool.false_eq_true, if_false, hl]
    by_cases he : mp.dropLast = []
    · have : mp.length ≤ 1 := by
        have := congrArg List.length he
        simp at this; omega
      have h2 : ¬ level < mp.length := by omega
      simp [he, h2]
    · have hlen : mp.dropLast.length = mp.length - 1 := by simp
      have hpos : 0 < mp.dropLast.length := List.length_pos_iff.mpr he
      simp only [he, if_false, hlen]
      by_cases hc : level < mp.length
      · have hc' : level - 1 < mp.length - 1 := by omega
        simp only [hc, hc', if_true]
        congr 1
        rw [List.dropLast_eq_take, List.take_take]
        congr 1
        omega
      · have hc' : ¬ level - 1 < mp.length - 1 := by omega
        simp [hc, hc']
  · simp only [if_true, hl, if_false]
    by_cases he : mp = []
    · subst he; simp
    · simp [he]

example : relativeBase [['a'], ['b'], ['c']] false 2 = some [['a']] := by decide
example : pythonRelativeBase [['a'], ['b']] true 1 = some [['a'], ['b']] := by decide

/-- a one-component name expands to what `_localNameToFullName` says -/
theorem expand_single_local (e : Env) (obj : Nat) (p : Name) :
    expandName e obj [p] = localName e (fuelOf e) obj p := by
  unfold expandName expandLoop
  cases h : localName e (fuelOf e) obj p with
  | none => simp
  | some fn =>
    simp only [Bool.not_true, Bool.and_false, Bool.false_eq_true, if_false]
    cases objFor e fn <;> simp

/-- whatever `find_object` returns is a registered object -/
theorem findObject_registered (e : Env) (full : Path) (i : Nat) (h : findObject e full = .obj i) :
    ∃ p, dget e.st.all p = some i := by
  unfold findObject at h
  cases h1 : objFor e full with
  | some o =>
    simp only [h1] at h
    injection h with h; subst h
    exact ⟨full, h1⟩
  | none =>
    simp only [h1] at h
    cases full with
    | nil => simp at h
    | cons r rest =>
      simp only at h
      split at h
      · simp at h
      · split at h
        · simp at h
        · split at h
          · simp at h
          · rename_i p hp
            cases h2 : objFor e p with
            | none => simp [h2] at h
            | some o =>
              simp only [h2] at h
              injection h with h; subst h
              exact ⟨p, h2⟩

end Names
