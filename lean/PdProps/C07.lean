/-
C07 — a re-exported object is documented once, where exported, and stays reachable.
Theorems over `PdModel.Names` / `PdModel.Registry`.
-/
import PdModel.Names
import PdProps.C02

namespace Names
open Registry

/-- **relative_level**: for every importing module (package or not) and every level ≥ 1, the
package pydoctor resolves a relative import against is the one importlib computes — or both
refuse ("relative import level too high" / ImportError). -/
theorem relative_level (mp : Path) (isPkg : Bool) (level : Nat) (h : 1 ≤ level) :
    relativeBase mp isPkg level = pythonRelativeBase mp isPkg level := by
  unfold relativeBase pythonRelativeBase
  have hl : ¬ level = 0 := by omega
  cases isPkg
  · -- plain module: package = parent
    simp only [Bool.false_eq_true, if_false, hl]
    by_cases he : mp.dropLast = []
    · have : mp.length ≤ 1 := by
        have := congrArg List.length he
        simp at this; omega
      have h2 : ¬ level < mp.length := by omega
      simp [he, h2]
    · have hlen : mp.dropLast.length = mp.length - 1 := by simp
      have hpos : 0 < mp.dropLast.length := List.length_pos_iff.mpr he
      simp only [he, if_false, hlen]
      by_cases hc : level < mp.length
      · have hc' : level - 1 < mp.length - 1 := by omega
        simp only [hc, hc', if_true]
        congr 1
        rw [List.dropLast_eq_take, List.take_take]
        congr 1
        omega
      · have hc' : ¬ level - 1 < mp.length - 1 := by omega
        simp [hc, hc']
  · simp only [if_true, hl, if_false]
    by_cases he : mp = []
    · subst he; simp
    · simp [he]

example : relativeBase [['a'], ['b'], ['c']] false 2 = some [['a']] := by decide
example : pythonRelativeBase [['a'], ['b']] true 1 = some [['a'], ['b']] := by decide

/-- a one-component name expands to what `_localNameToFullName` says -/
theorem expand_single_local (e : Env) (obj : Nat) (p : Name) :
    expandName e obj [p] = localName e (fuelOf e) obj p := by
  have hc : componentName e obj true p = localName e (fuelOf e) obj p := by
    unfold componentName; cases getObj e.st obj <;> simp
  unfold expandName expandLoop
  rw [hc]
  cases h : localName e (fuelOf e) obj p with
  | none => simp
  | some fn =>
    simp only [Bool.not_true, Bool.and_false, Bool.false_eq_true, if_false]
    cases objFor e fn <;> simp

/-- whatever `find_object` returns is a registered object -/
theorem findObject_registered (e : Env) (full : Path) (i : Nat) (h : findObject e full = .obj i) :
    ∃ p, dget e.st.all p = some i := by
  unfold findObject at h
  cases h1 : objFor e full with
  | some o =>
    simp only [h1] at h
    injection h with h; subst h
    exact ⟨full, h1⟩
  | none =>
    simp only [h1] at h
    cases full with
    | nil => simp at h
    | cons r rest =>
      simp only at h
      split at h
      · simp at h
      · split at h
        · simp at h
        · split at h
          · simp at h
          · split at h
            · simp at h
            · rename_i p hp
              cases h2 : objFor e p with
              | none => simp [h2] at h
              | some o =>
                simp only [h2] at h
                injection h with h; subst h
                exact ⟨p, h2⟩

/-- what the guard of fix 996ac8b changes: `find_object` answers as before, or — when the root does not bind the first
component of the rest of the name — with `LookupError` -/
theorem findObject_old_or (e : Env) (full : Path) :
    findObject e full = findObjectOld e full ∨
    (findObject e full = .lookupError ∧
      ∃ r first tl ro, full = r :: first :: tl ∧ objFor e full = none ∧
        e.st.roots.find? (fun ro => match getObj e.st ro with | some o => o.name = r | none => false) = some ro ∧
        rootBinds e ro first = false) := by
  unfold findObject findObjectOld
  cases h1 : objFor e full with
  | some o => exact Or.inl rfl
  | none =>
    cases full with
    | nil => exact Or.inl rfl
    | cons r rest =>
      simp only
      cases hf : e.st.roots.find? (fun ro => match getObj e.st ro with | some o => o.name = r | none => false) with
      | none => exact Or.inl rfl
      | some ro =>
        cases rest with
        | nil => exact Or.inl (by simp)
        | cons first tl =>
          simp only
          cases hb : rootBinds e ro first with
          | true => exact Or.inl (by simp)
          | false => exact Or.inr ⟨by simp, r, first, tl, ro, rfl, trivial, hf, hb⟩

theorem findObject_old_of_obj {e : Env} {full : Path} {i : Nat} (h : findObject e full = .obj i) :
    findObjectOld e full = .obj i := by
  rcases findObject_old_or e full with h1 | ⟨h1, _⟩
  · exact h1 ▸ h
  · rw [h1] at h; cases h

theorem findObject_ne_of_old {e : Env} {full : Path} {F : Found} (hF : F ≠ .lookupError)
    (h : findObjectOld e full ≠ F) : findObject e full ≠ F := by
  rcases findObject_old_or e full with h1 | ⟨h1, _⟩
  · rw [h1]; exact h
  · rw [h1]; exact fun e => hF e.symm

/-! ## stepping through `expandLoop` -/

theorem canContain_cases {c : Cls} (h : canContainImports c = true) :
    c = .module ∨ c = .package ∨ c = .cls := by
  cases c <;> simp [canContainImports] at h ⊢

/-- in a module, package or class a `contents` hit answers with the qualified name of the entry -/
theorem localName_contents {e : Env} {y c : Nat} {yo : Obj} {p : Name} (f : Nat)
    (hy : getObj e.st y = some yo) (hc : canContainImports yo.cls = true)
    (hd : dget yo.contents p = some c) : localName e (f+1) y p = path e.st c := by
  unfold localName
  rcases canContain_cases hc with h | h | h <;> simp [hy, h, hd]

/-- … and, failing that, an alias hit answers with the alias target -/
theorem localName_alias {e : Env} {y : Nat} {yo : Obj} {p : Name} {t : Path} (f : Nat)
    (hy : getObj e.st y = some yo) (hc : canContainImports yo.cls = true)
    (hd : dget yo.contents p = none) (ha : dget yo.aliases p = some t) :
    localName e (f+1) y p = some t := by
  unfold localName
  rcases canContain_cases hc with h | h | h <;> simp [hy, h, hd, ha]

/-- how the `expandName` loop goes on after a component resolved to the registered object `nxt`
(called `fn`): done if nothing is left, otherwise continue inside `nxt` -/
def afterStep (e : Env) (fn : Path) (nxt : Nat) (rest : List Name) : Option Path :=
  match rest with
  | [] => some fn
  | _ :: _ => expandLoop e nxt false rest

@[simp] theorem afterStep_nil (e : Env) (fn : Path) (nxt : Nat) : afterStep e fn nxt [] = some fn := rfl
@[simp] theorem afterStep_cons (e : Env) (fn : Path) (nxt : Nat) (a : Name) (l : List Name) :
    afterStep e fn nxt (a :: l) = expandLoop e nxt false (a :: l) := rfl

/-- a component that the object itself defines is looked up by `_localNameToFullName` -/
theorem componentName_contents {e : Env} {y : Nat} {yo : Obj} {p : Name} {c : Nat} (first : Bool)
    (hy : getObj e.st y = some yo) (hd : dget yo.contents p = some c) :
    componentName e y first p = localName e (fuelOf e) y p := by
  unfold componentName; simp [hy, hd]

/-- … and so is one that it imports -/
theorem componentName_alias {e : Env} {y : Nat} {yo : Obj} {p : Name} {t : Path} (first : Bool)
    (hy : getObj e.st y = some yo) (ha : dget yo.aliases p = some t) :
    componentName e y first p = localName e (fuelOf e) y p := by
  unfold componentName; simp [hy, ha]

/-- one round of the `expandName` loop when the component resolves to a registered object -/
theorem expandLoop_step {e : Env} {y : Nat} {first : Bool} {p : Name} {rest : List Name} {fn : Path}
    {nxt : Nat} (hg : componentName e y first p = localName e (fuelOf e) y p)
    (hl : localName e (fuelOf e) y p = some fn) (hne : fn ≠ [p])
    (ho : objFor e fn = some nxt) :
    expandLoop e y first (p :: rest) = afterStep e fn nxt rest := by
  rw [expandLoop, hg]
  simp only [hl, hne, decide_false, Bool.false_and, Bool.false_eq_true, if_false, ho]
  cases rest <;> rfl


end Names

namespace Registry

/-! ## consequences of `Registry.Inv` used below -/

theorem mem_of_path {s : State} (hI : Inv s) {i : Nat} {k : Path} (h : path s i = some k) : (k, i) ∈ s.all := by
  obtain ⟨k', hk'⟩ := hI.full i (path_sound h).lt
  have := hI.reg.keys k' i hk'
  rw [h] at this; injection this with this
  exact this ▸ hk'

theorem dget_of_path {s : State} (hI : Inv s) {i : Nat} {k : Path} (h : path s i = some k) :
    dget s.all k = some i := dget_of_mem hI.reg.uniq (mem_of_path hI h)

/-- every non-empty prefix of a registered name is registered, for an ancestor -/
theorem prefix_registered {s : State} (hI : Inv s) {p q : Path} {v : Nat} (h : (p ++ q, v) ∈ s.all)
    (hp : p ≠ []) : ∃ z, (p, z) ∈ s.all ∧ Below s.objs z v := by
  obtain ⟨z, hz, hb⟩ := (hI.reg.hasPath h).walk p q rfl hp
  obtain ⟨kz, hkz⟩ := hI.reg.reg_up hb ⟨_, h⟩
  have := (hI.reg.hasPath hkz).func hz
  subst this
  exact ⟨z, hkz, hb⟩

theorem below_of_prefix {s : State} (hI : Inv s) {A q : Path} {obj v : Nat} (hA : (A, obj) ∈ s.all)
    (h : (A ++ q, v) ∈ s.all) : Below s.objs obj v := by
  obtain ⟨z, hz, hb⟩ := prefix_registered hI h (hI.reg.hasPath hA).ne_nil
  exact uniq_val hI.reg.uniq hz hA ▸ hb

/-- `find_object`'s search for the root module finds the object called `[r]` -/
theorem find_root {s : State} (hI : Inv s) {r : Name} {t : Path} {v : Nat} (h : (r :: t, v) ∈ s.all) :
    ∃ ro, s.roots.find? (fun ro => match getObj s ro with | some o => o.name = r | none => false) = some ro ∧
      ([r], ro) ∈ s.all := by
  obtain ⟨z0, hz0, _⟩ := prefix_registered hI (p := [r]) (q := t) h (by simp)
  have hz0P := hI.reg.hasPath hz0
  obtain ⟨zo, hzo⟩ : ∃ zo, s.objs[z0]? = some zo := ⟨s.objs[z0]'hz0P.lt, by simp [hz0P.lt]⟩
  have hzpar : zo.parent = none := by
    cases hp : zo.parent with
    | none => rfl
    | some q =>
      obtain ⟨pq, hpq, e⟩ := hz0P.child_inv hzo hp
      have h1 := congrArg List.length e
      have h2 := hpq.length_pos
      simp only [List.length_append, List.length_cons, List.length_nil] at h1; omega
  have hzname : zo.name = r := by
    have := hz0P.root_inv hzo hzpar
    simpa using this.symm
  have hzroot : z0 ∈ s.roots := (hI.tree.listed z0 zo hzo).1 hzpar
  cases hf : s.roots.find? (fun ro => match getObj s ro with | some o => o.name = r | none => false) with
  | none =>
    rw [List.find?_eq_none] at hf
    have := hf z0 hzroot
    have hg : getObj s z0 = some zo := hzo
    simp [hg, hzname] at this
  | some ro =>
    refine ⟨ro, rfl, ?_⟩
    have hmem := List.mem_of_find?_eq_some hf
    have hpred := List.find?_some hf
    obtain ⟨roo, hroo, hrpar⟩ := hI.tree.rootsOk ro hmem
    have hg : getObj s ro = some roo := hroo
    simp only [hg, decide_eq_true_eq] at hpred
    have hP : HasPath s.objs ro [r] := hpred ▸ HasPath.root hroo hrpar
    obtain ⟨k, hk⟩ := hI.full ro hP.lt
    have := (hI.reg.hasPath hk).func hP
    exact this ▸ hk

end Registry

namespace Names
open Registry

/-- the object named `py` lists, under `n1`, the child on the way to a registered `py ++ n1 :: rest'` -/
theorem child_in_contents {s : State} (hI : Inv s) {py rest' : Path} {n1 : Name} {y x : Nat}
    (hy : (py, y) ∈ s.all) (hx : (py ++ n1 :: rest', x) ∈ s.all) (hsup : isSupersededName n1 = false) :
    ∃ yo y1, s.objs[y]? = some yo ∧ dget yo.contents n1 = some y1 := by
  have hpyne : py ≠ [] := (hI.reg.hasPath hy).ne_nil
  have hx' : ((py ++ [n1]) ++ rest', x) ∈ s.all := by simpa using hx
  obtain ⟨y1, hy1, _⟩ := prefix_registered hI hx' (by simp)
  have hy1P := hI.reg.hasPath hy1
  obtain ⟨y1o, hy1o⟩ : ∃ o, s.objs[y1]? = some o := ⟨s.objs[y1]'hy1P.lt, by simp [hy1P.lt]⟩
  obtain ⟨q, hq⟩ : ∃ q, y1o.parent = some q := by
    cases hp : y1o.parent with
    | some q => exact ⟨q, rfl⟩
    | none =>
      have h1 := congrArg List.length (hy1P.root_inv hy1o hp)
      have h2 := List.length_pos_iff.2 hpyne
      simp only [List.length_append, List.length_cons, List.length_nil] at h1; omega
  obtain ⟨pq, hpq, e1⟩ := hy1P.child_inv hy1o hq
  obtain ⟨e2, e3⟩ := List.append_inj' e1 rfl
  simp only [List.cons.injEq, and_true] at e3
  subst e2
  have hqy : q = y := hI.reg.inj hy (hI.full q hpq.lt) hpq
  subst hqy
  obtain ⟨yo, hyo, hlist⟩ := (hI.tree.listed y1 y1o hy1o).2 q hq
  refine ⟨yo, y1, hyo, ?_⟩
  rcases hlist with h | h
  · rw [e3]; exact h
  · rw [← e3, hsup] at h; cases h

/-- **descending along `contents`**: from `y` (named `py`) to a descendant `x` (named `py ++ rest`),
when every object on the way is a module/package/class and no component is a superseded name,
the `expandName` loop consumes `rest` and arrives at `x`. -/
theorem expandLoop_descend (e : Env) (hI : Inv e.st) :
    ∀ (rest : List Name) (y x : Nat) (py : Path) (first : Bool) (more : List Name), rest ≠ [] →
      (py, y) ∈ e.st.all → (py ++ rest, x) ∈ e.st.all →
      (∀ w wo t u, e.st.objs[w]? = some wo → (py ++ t, w) ∈ e.st.all → rest = t ++ u → u ≠ [] →
        canContainImports wo.cls = true) →
      (∀ n ∈ rest, isSupersededName n = false) →
      expandLoop e y first (rest ++ more) = afterStep e (py ++ rest) x more
  | [], _, _, _, _, _, h, _, _, _, _ => absurd rfl h
  | n1 :: rest', y, x, py, first, more, _, hy, hx, hcont, hnames => by
    have hpyne : py ≠ [] := (hI.reg.hasPath hy).ne_nil
    -- the child of y on the way to x
    have hx' : ((py ++ [n1]) ++ rest', x) ∈ e.st.all := by simpa using hx
    obtain ⟨y1, hy1, hb1⟩ := prefix_registered hI hx' (by simp)
    have hy1P := hI.reg.hasPath hy1
    obtain ⟨y1o, hy1o⟩ : ∃ o, e.st.objs[y1]? = some o := ⟨e.st.objs[y1]'hy1P.lt, by simp [hy1P.lt]⟩
    obtain ⟨q, hq⟩ : ∃ q, y1o.parent = some q := by
      cases hp : y1o.parent with
      | some q => exact ⟨q, rfl⟩
      | none =>
        have h1 := congrArg List.length (hy1P.root_inv hy1o hp)
        have h2 := List.length_pos_iff.2 hpyne
        simp only [List.length_append, List.length_cons, List.length_nil] at h1; omega
    obtain ⟨pq, hpq, e1⟩ := hy1P.child_inv hy1o hq
    obtain ⟨e2, e3⟩ := List.append_inj' e1 rfl
    simp only [List.cons.injEq, and_true] at e3
    subst e2
    have hqy : q = y := hI.reg.inj hy (hI.full q hpq.lt) hpq
    subst hqy
    obtain ⟨yo, hyo, hlist⟩ := (hI.tree.listed y1 y1o hy1o).2 q hq
    have hsup : isSupersededName y1o.name = false := by rw [← e3]; exact hnames n1 List.mem_cons_self
    have hd : dget yo.contents n1 = some y1 := by
      rcases hlist with h | h
      · rw [e3]; exact h
      · rw [hsup] at h; cases h
    have hcy : canContainImports yo.cls = true :=
      hcont q yo [] (n1 :: rest') hyo (by simpa using hy) rfl (by simp)
    have hl : localName e (fuelOf e) q n1 = some (py ++ [n1]) := by
      show localName e (e.st.objs.length + 1) q n1 = _
      rw [localName_contents _ hyo hcy hd]
      exact hI.reg.keys _ _ hy1
    have hne : py ++ [n1] ≠ [n1] := by
      intro h
      have h1 := congrArg List.length h
      have h2 := List.length_pos_iff.2 hpyne
      simp only [List.length_append, List.length_cons, List.length_nil] at h1; omega
    have ho : objFor e (py ++ [n1]) = some y1 := dget_of_mem hI.reg.uniq hy1
    rw [List.cons_append, expandLoop_step (componentName_contents first hyo hd) hl hne ho]
    cases rest' with
    | nil =>
      have hxy : x = y1 := uniq_val hI.reg.uniq (by simpa using hx) hy1
      subst hxy
      simp
    | cons n2 r =>
      have ih := expandLoop_descend e hI (n2 :: r) y1 x (py ++ [n1]) false more (by simp) hy1 hx'
        (fun w wo t u hw hwk hr hu =>
          hcont w wo (n1 :: t) u hw (by simpa using hwk) (by rw [hr]; rfl) hu)
        (fun n hn => hnames n (List.mem_cons_of_mem _ hn))
      simp only [List.cons_append] at ih ⊢
      rw [afterStep_cons, ih]
      simp

end Names

/-! ## C07: what `reparent` (a re-export move) leaves behind -/

namespace Registry

theorem moveObjs_get {objs : List Obj} {obj op np : Nat} {newName oldName : Name} {oc : List (Name × Nat)}
    {newPath : Path} {w : Nat} {wo' : Obj}
    (h : (moveObjs objs obj op np newName oc oldName newPath)[w]? = some wo') :
    ∃ wo, objs[w]? = some wo ∧ wo'.cls = wo.cls ∧
      wo'.contents = (if w = np then dset (if w = op then oc else wo.contents) newName obj
                        else (if w = op then oc else wo.contents)) ∧
      wo'.aliases = (if w = op then dset wo.aliases oldName newPath else wo.aliases) := by
  obtain ⟨F, h1, h2⟩ := modify3_get objs obj op np newName oc oldName newPath w
  rw [h1] at h
  cases hw : objs[w]? with
  | none => rw [hw] at h; cases h
  | some wo =>
    rw [hw] at h; simp only [Option.map_some, Option.some.injEq] at h; subst h
    exact ⟨wo, rfl, (h2 wo).2.2.2.1, (h2 wo).2.2.1, (h2 wo).2.2.2.2⟩

/-- `reparent` onto a free name: the facts of `reparent_spec` with the names identified -/
theorem reparent_free {s s' : State} {obj newParent : Nat} {newName : Name} {A pnp : Path}
    (hI : Inv s) (h : reparent s obj newParent newName = .ok s')
    (hA : path s obj = some A) (hpnp : path s newParent = some pnp)
    (hfree : dget s.all (pnp ++ [newName]) = none) :
    Inv s' ∧ ∃ o op opo oc, ReparentFacts s s' obj newParent newName o op opo oc A pnp ∧
      s'.objs = moveObjs s.objs obj op newParent newName oc o.name (pnp ++ [newName]) ∧
      (∀ k v, (k, v) ∈ s.all → ¬Below s.objs obj v → (k, v) ∈ s'.all) ∧
      (∀ k v, (k, v) ∈ s'.all → (((k, v) ∈ s.all ∧ ¬Below s.objs obj v) ∨ Below s.objs obj v)) := by
  obtain ⟨hI', o, op, opo, oc, A', pnp', F⟩ := reparent_spec hI h
  have eA : A' = A := by
    have := hI.reg.keys _ _ F.hA; rw [hA] at this; injection this with this; exact this.symm
  have eP : pnp' = pnp := by
    have := hI.reg.keys _ _ F.hpnp; rw [hpnp] at this; injection this with this; exact this.symm
  subst eA; subst eP
  refine ⟨hI', o, op, opo, oc, F, ?_⟩
  rcases F.branch with ⟨_, b2, b3, b4⟩ | ⟨prev, _, hprev, _⟩
  · exact ⟨b2, b3, b4⟩
  · rw [dget_of_mem hI.reg.uniq hprev] at hfree; cases hfree

/-- **no longer documented under the defining module**: after a move onto a free name, no
registered name starts with the old qualified name of the moved object -/
theorem no_key_under_old_name {s s' : State} {obj newParent : Nat} {newName : Name} {A pnp : Path}
    (hI : Inv s) (h : reparent s obj newParent newName = .ok s')
    (hA : path s obj = some A) (hpnp : path s newParent = some pnp)
    (hfree : dget s.all (pnp ++ [newName]) = none) :
    ∀ k v t, (k, v) ∈ s'.all → k ≠ A ++ t := by
  obtain ⟨hI', o, op, opo, oc, F, _, _, hsplit⟩ := reparent_free hI h hA hpnp hfree
  intro k v t hk hkA
  subst hkA
  have hfreeB : ∀ z, (pnp ++ [newName], z) ∉ s.all := dget_none_iff.1 hfree
  rcases hsplit _ v hk with ⟨a, b⟩ | hb
  · exact b (below_of_prefix hI F.hA a)
  · have hvlt : v < s.objs.length := by
      cases hb with
      | refl => exact (hI.reg.hasPath F.hA).lt
      | step hv _ _ => exact (List.getElem?_eq_some_iff.1 hv).1
    obtain ⟨kv, hkv⟩ := hI.full v hvlt
    obtain ⟨rw_, _, hv'⟩ := F.moved v kv hkv hb
    have := hI'.reg.keys _ _ hk
    rw [hv'] at this; injection this with this
    rcases List.append_eq_append_iff.1 this with ⟨a', e1, _⟩ | ⟨c', e1, _⟩
    · -- A = B ++ a' : the destination would be a registered prefix of the old name
      obtain ⟨z, hz, _⟩ := prefix_registered hI (e1 ▸ F.hA) (by simp)
      exact hfreeB z hz
    · -- B = A ++ c'
      rcases List.eq_nil_or_concat c' with rfl | ⟨c'', l, rfl⟩
      · simp only [List.append_nil] at e1
        exact hfreeB obj (e1 ▸ F.hA)
      · rw [List.concat_eq_append, ← List.append_assoc] at e1
        obtain ⟨e2, _⟩ := List.append_inj' e1 rfl
        exact F.hnb (below_of_prefix hI F.hA (e2 ▸ F.hpnp))

/-- **reparent_once** (C07, "documented once, where exported"): after a successful move of `obj`
onto a free name of `newParent`, every object is registered exactly once; `obj` and everything
that was below it is registered under `path newParent ++ [newName] ++ (its name relative to obj)`;
no registered name starts with the old name of `obj`; everything else keeps its key. -/
theorem reparent_once {s s' : State} {obj newParent : Nat} {newName : Name} {A pnp : Path}
    (hI : Inv s) (h : reparent s obj newParent newName = .ok s')
    (hA : path s obj = some A) (hpnp : path s newParent = some pnp)
    (hfree : dget s.all (pnp ++ [newName]) = none) :
    (∀ x, x < s'.objs.length → (s'.all.filter (fun e => e.2 = x)).length = 1) ∧
    path s' newParent = some pnp ∧
    (∀ x, x < s.objs.length → isBelow s obj x = true →
      ∃ rest, path s x = some (A ++ rest) ∧ path s' x = some (pnp ++ [newName] ++ rest) ∧
        dget s'.all (pnp ++ [newName] ++ rest) = some x) ∧
    (∀ k v t, (k, v) ∈ s'.all → k ≠ A ++ t) ∧
    (∀ k v, (k, v) ∈ s.all → isBelow s obj v = false → (k, v) ∈ s'.all) := by
  obtain ⟨hI', o, op, opo, oc, F, _, hkeep, _⟩ := reparent_free hI h hA hpnp hfree
  refine ⟨?_, ?_, ?_, no_key_under_old_name hI h hA hpnp hfree, ?_⟩
  · intro x hx
    have hb := hI'.invB
    simp only [Registry.invB, Bool.and_eq_true, allRegistered, List.all_eq_true, beq_iff_eq, List.mem_range] at hb
    exact hb.1.1.2 x hx
  · exact hI'.reg.keys _ _ (hkeep _ _ F.hpnp F.hnb)
  · intro x hx hb
    obtain ⟨kx, hkx⟩ := hI.full x hx
    have hpx := hI.reg.keys kx x hkx
    have hbx : Below s.objs obj x := (isBelow_iff hpx).1 hb
    obtain ⟨rest, e, hx'⟩ := F.moved x kx hkx hbx
    exact ⟨rest, e ▸ hpx, hx', dget_of_path hI' hx'⟩
  · intro k v hk hb
    refine hkeep k v hk (fun hbv => ?_)
    rw [(isBelow_iff (hI.reg.keys k v hk)).2 hbv] at hb; cases hb

/-- **reparent_leaves_alias**: the old parent (a module, package or class) keeps an alias from the
old name to the new qualified name, and no longer lists the old name in its `contents` (unless the
move was onto the very same place). Holds on both branches (free or taken destination). -/
theorem reparent_leaves_alias {s s' : State} {obj newParent : Nat} {newName : Name} {o : Obj} {op : Nat}
    {pnp : Path} (hI : Inv s) (h : reparent s obj newParent newName = .ok s')
    (ho : s.objs[obj]? = some o) (hop : o.parent = some op) (hpnp : path s newParent = some pnp) :
    ∃ opo opo' : Obj, s.objs[op]? = some opo ∧ s'.objs[op]? = some opo' ∧ opo'.cls = opo.cls ∧
      canContainImports opo.cls = true ∧
      dget opo'.aliases o.name = some (pnp ++ [newName]) ∧
      ((newParent ≠ op ∨ newName ≠ o.name) → dget opo'.contents o.name = none) := by
  obtain ⟨hI', o1, op1, opo, oc, A, pnp', F⟩ := reparent_spec hI h
  have eo : o1 = o := by have := F.ho; rw [ho] at this; injection this with this; exact this.symm
  subst eo
  have eop : op1 = op := by have := F.hop; rw [hop] at this; injection this with this; exact this.symm
  subst eop
  have eP : pnp' = pnp := by
    have := hI.reg.keys _ _ F.hpnp; rw [hpnp] at this; injection this with this; exact this.symm
  subst eP
  -- the old parent in `moveObjs`
  obtain ⟨Fm, hF1, hF2⟩ := modify3_get s.objs obj op1 newParent newName oc o1.name (pnp' ++ [newName]) op1
  rw [F.hopo] at hF1
  obtain ⟨_, _, hFc, hFcls, hFa⟩ := hF2 opo
  rw [if_pos rfl] at hFa
  have hcu := hI.tree.cuniq op1 opo F.hopo
  obtain ⟨_, hocm⟩ := ddel_spec hcu F.hdd
  have hocnone : dget oc o1.name = none := dget_none_iff.2 (fun v hv => ((hocm _ _).1 hv).1 rfl)
  have halias : dget (Fm opo).aliases o1.name = some (pnp' ++ [newName]) := by
    rw [hFa]; exact dset_get_same _ _ _
  have hcont : (newParent ≠ op1 ∨ newName ≠ o1.name) → dget (Fm opo).contents o1.name = none := by
    intro hne
    rw [hFc]
    simp only [if_true]
    by_cases hnp : op1 = newParent
    · rw [if_pos hnp]
      have : o1.name ≠ newName := by
        rcases hne with a | a
        · exact absurd hnp.symm a
        · exact fun e => a e.symm
      rw [dset_get_other _ _ _ _ this]; exact hocnone
    · rw [if_neg hnp]; exact hocnone
  rcases F.branch with ⟨_, b2, _, _⟩ | ⟨prev, nm', _, _, _, b⟩
  · exact ⟨opo, Fm opo, F.hopo, by rw [b2, hF1]; rfl, hFcls, F.hcc, halias, hcont⟩
  · by_cases hp : op1 = prev
    · refine ⟨opo, { Fm opo with name := nm' }, F.hopo, ?_, hFcls, F.hcc, halias, hcont⟩
      rw [b, ← hp, getElem?_modify_eq, hF1]; rfl
    · exact ⟨opo, Fm opo, F.hopo, by rw [b, getElem?_modify_ne _ hp, hF1]; rfl, hFcls, F.hcc, halias, hcont⟩

end Registry

namespace Names
open Registry

/-- `old_member_name_finds`, with the class hypothesis as a quantified statement (C07, "references by the old qualified name still lead to it"):
after `obj` (old name `A`) was moved onto a free name, `System.find_object(A ++ rest)` returns the
object `x` that used to be called `A ++ rest` — the moved object itself for `rest = []`, a member
below it otherwise — for every class-linearisation table.  Hypotheses the code needs: every object
whose name is a proper prefix of the queried name is a module, package or class (so that
`_localNameToFullName` looks into its `contents`), and no component is a superseded `name i`. -/
theorem old_member_name_finds_of_forall {s s' : State} {obj newParent : Nat} {newName : Name}
    (m : List (Nat × List Nat)) (hI : Inv s) (h : reparent s obj newParent newName = .ok s')
    {A pnp : Path} (hA : path s obj = some A) (hpnp : path s newParent = some pnp)
    (hfree : dget s.all (pnp ++ [newName]) = none)
    (x : Nat) (rest : List Name) (hx : path s x = some (A ++ rest))
    (hcont : ∀ (w : Nat) (wo : Obj) (t u : Path), s.objs[w]? = some wo → path s w = some t →
      A ++ rest = t ++ u → u ≠ [] → canContainImports wo.cls = true)
    (hnames : ∀ n ∈ A ++ rest, isSupersededName n = false) :
    findObject ⟨s', m⟩ (A ++ rest) = .obj x := by
  obtain ⟨hI', o, op, opo, oc, F, hobjs, hkeep, hsplit⟩ := reparent_free hI h hA hpnp hfree
  have hfreeB : ∀ z, (pnp ++ [newName], z) ∉ s.all := dget_none_iff.1 hfree
  have hxm : (A ++ rest, x) ∈ s.all := mem_of_path hI hx
  have hxb : Below s.objs obj x := below_of_prefix hI F.hA hxm
  -- x after the move
  have hx' : path s' x = some (pnp ++ [newName] ++ rest) := by
    obtain ⟨rx, erx, hx'⟩ := F.moved x _ hxm hxb
    rw [← List.append_cancel_left erx] at hx'; exact hx'
  -- the old parent
  obtain ⟨pop, hpopP, hAeq⟩ := (hI.reg.hasPath F.hA).child_inv F.ho F.hop
  have hopm : (pop, op) ∈ s.all := by
    obtain ⟨k, hk⟩ := hI.full op hpopP.lt
    exact (hI.reg.hasPath hk).func hpopP ▸ hk
  have hopnb : ¬Below s.objs obj op := not_below_parent (hI.reg.hasPath F.hA) F.ho F.hop
  have hopm' : (pop, op) ∈ s'.all := hkeep _ _ hopm hopnb
  obtain ⟨opo0, opo', hopo0, hopo', hcls', hcc, halias, hcontents⟩ :=
    reparent_leaves_alias hI h F.ho F.hop hpnp
  have hmoved_ne : newParent ≠ op ∨ newName ≠ o.name := by
    by_cases h1 : newParent = op
    · right
      intro h2
      have : pnp = pop := by
        have a := hI.reg.keys _ _ F.hpnp
        have b := hI.reg.keys _ _ hopm
        rw [h1, b] at a; injection a with a; exact a.symm
      exact hfreeB obj (by rw [this, h2, ← hAeq]; exact F.hA)
    · exact Or.inl h1
  have hcnone := hcontents hmoved_ne
  -- class of any object is unchanged
  have hclsw : ∀ (w : Nat) (wo' : Obj), s'.objs[w]? = some wo' → ∃ wo, s.objs[w]? = some wo ∧ wo'.cls = wo.cls := by
    intro w wo' hw
    rw [hobjs] at hw
    obtain ⟨wo, a, b, _⟩ := moveObjs_get hw
    exact ⟨wo, a, b⟩
  -- shape of the name
  obtain ⟨r, mid, hpop⟩ : ∃ r mid, pop = r :: mid := by
    cases hp : pop with
    | nil => exact absurd hp hpopP.ne_nil
    | cons r mid => exact ⟨r, mid, rfl⟩
  subst hpop
  have hfull : A ++ rest = r :: (mid ++ (o.name :: rest)) := by rw [hAeq]; simp
  have hnone : objFor ⟨s', m⟩ (r :: (mid ++ (o.name :: rest))) = none := by
    rw [← hfull]
    exact dget_none_iff.2 (fun v hv => no_key_under_old_name hI h hA hpnp hfree _ v rest hv rfl)
  obtain ⟨ro, hfind, hro⟩ := find_root hI' hopm'
  -- the alias step at the old parent
  have hBobj : (pnp ++ [newName], obj) ∈ s'.all := mem_of_path hI' F.newPath
  have hstepAlias : ∀ fst, expandLoop ⟨s', m⟩ op fst (o.name :: rest) =
      afterStep ⟨s', m⟩ (pnp ++ [newName]) obj rest := by
    intro fst
    have hl : localName ⟨s', m⟩ (fuelOf ⟨s', m⟩) op o.name = some (pnp ++ [newName]) :=
      localName_alias (e := ⟨s', m⟩) _ hopo' (hcls' ▸ hcc) hcnone halias
    have hne : pnp ++ [newName] ≠ [o.name] := by
      intro e
      have h1 := congrArg List.length e
      have h2 := (hI.reg.hasPath F.hpnp).length_pos
      simp only [List.length_append, List.length_cons, List.length_nil] at h1; omega
    exact expandLoop_step (componentName_alias fst hopo' halias) hl hne (dget_of_mem hI'.reg.uniq hBobj)
  -- from the root down to the old parent
  have hstage1 : ∃ fst, expandLoop ⟨s', m⟩ ro true (mid ++ (o.name :: rest)) =
      expandLoop ⟨s', m⟩ op fst (o.name :: rest) := by
    cases hmid : mid with
    | nil =>
      subst hmid
      have : ro = op := uniq_val hI'.reg.uniq hro hopm'
      subst this
      exact ⟨true, rfl⟩
    | cons n1 mid' =>
      refine ⟨false, ?_⟩
      rw [← hmid]
      have := expandLoop_descend ⟨s', m⟩ hI' mid ro op [r] true (o.name :: rest) (by rw [hmid]; simp)
        hro (by simpa using hopm') ?_ ?_
      · simpa using this
      · intro w wo' t u hw hwk hmidtu hu
        obtain ⟨wo, hwo, hc⟩ := hclsw w wo' hw
        rw [hc]
        rcases hsplit _ w hwk with ⟨a, _⟩ | hb
        · refine hcont w wo ([r] ++ t) (u ++ (o.name :: rest)) hwo (hI.reg.keys _ _ a) ?_ (by simp [hu])
          rw [hfull, hmidtu]; simp
        · exfalso
          obtain ⟨kw, hkw⟩ := hI.full w (List.getElem?_eq_some_iff.1 hwo).1
          obtain ⟨rw_, _, hw'⟩ := F.moved w kw hkw hb
          have e1 := hI'.reg.keys _ _ hwk
          rw [hw'] at e1; injection e1 with e1
          -- A = B ++ rw ++ u ++ [o.name]
          have hAB : A = (pnp ++ [newName]) ++ (rw_ ++ u ++ [o.name]) := by
            rw [hAeq, hmidtu]
            have : r :: (t ++ u) = ([r] ++ t) ++ u := by simp
            rw [this, ← e1]; simp
          obtain ⟨z, hz, _⟩ := prefix_registered hI (hAB ▸ F.hA) (by simp)
          exact hfreeB z hz
      · intro n hn
        exact hnames n (by rw [hfull]; simp [hn])
  -- below the moved object
  have hstage2 : afterStep ⟨s', m⟩ (pnp ++ [newName]) obj rest = some (pnp ++ [newName] ++ rest) := by
    cases hrest : rest with
    | nil => simp
    | cons n1 rest' =>
      rw [afterStep_cons, ← hrest]
      have := expandLoop_descend ⟨s', m⟩ hI' rest obj x (pnp ++ [newName]) false [] (by rw [hrest]; simp)
        hBobj (mem_of_path hI' hx') ?_ ?_
      · simpa using this
      · intro w wo' t u hw hwk hresttu hu
        obtain ⟨wo, hwo, hc⟩ := hclsw w wo' hw
        rw [hc]
        rcases hsplit _ w hwk with ⟨a, _⟩ | hb
        · exfalso
          obtain ⟨z, hz, _⟩ := prefix_registered hI a (by simp)
          exact hfreeB z hz
        · obtain ⟨kw, hkw⟩ := hI.full w (List.getElem?_eq_some_iff.1 hwo).1
          obtain ⟨rw_, ekw, hw'⟩ := F.moved w kw hkw hb
          have e1 := hI'.reg.keys _ _ hwk
          rw [hw'] at e1; injection e1 with e1
          have : rw_ = t := List.append_cancel_left e1
          subst this
          refine hcont w wo (A ++ rw_) u hwo (ekw ▸ hI.reg.keys _ _ hkw) ?_ hu
          rw [hresttu]; simp
      · intro n hn
        exact hnames n (List.mem_append_right _ hn)
  -- assemble
  obtain ⟨fst, hs1⟩ := hstage1
  have hexp : expandName ⟨s', m⟩ ro (mid ++ (o.name :: rest)) = some (pnp ++ [newName] ++ rest) := by
    unfold expandName
    rw [hs1, hstepAlias, hstage2]
  -- the guard of `find_object`: the root holds the first component below it in `contents`, or — when the
  -- moved object sat directly in the root — as the alias `reparent` left
  have hguard : ∃ f1 tl, mid ++ (o.name :: rest) = f1 :: tl ∧ rootBinds ⟨s', m⟩ ro f1 = true := by
    cases hmid : mid with
    | nil =>
      subst hmid
      have : ro = op := uniq_val hI'.reg.uniq hro hopm'
      subst this
      refine ⟨o.name, rest, rfl, ?_⟩
      have hg : getObj s' ro = some opo' := hopo'
      simp [rootBinds, hg, halias, hcls' ▸ hcc]
    | cons n1 mid' =>
      subst hmid
      refine ⟨n1, mid' ++ (o.name :: rest), rfl, ?_⟩
      obtain ⟨yo, y1, hyo, hd⟩ := child_in_contents hI' (py := [r]) (n1 := n1) (rest' := mid') hro
        (by simpa using hopm') (hnames n1 (by rw [hfull]; simp))
      have hg : getObj s' ro = some yo := hyo
      simp [rootBinds, hg, hd]
  obtain ⟨f1, tl, hftl, hbinds⟩ := hguard
  rw [hfull]
  unfold findObject
  simp only [hnone]
  have hobjx : objFor ⟨s', m⟩ (pnp ++ [newName] ++ rest) = some x := dget_of_path hI' hx'
  split
  · rename_i heq
    exact absurd (hfind.symm.trans heq) (by simp)
  · rename_i ro' heq
    have : ro' = ro := Option.some.inj (heq.symm.trans hfind)
    subst this
    rw [hftl] at hexp ⊢
    simp only [hbinds, Bool.not_true, Bool.false_eq_true, if_false, hexp, hobjx]

/-- `old_name_finds`, with the class hypothesis as a quantified statement -/
theorem old_name_finds_of_forall {s s' : State} {obj newParent : Nat} {newName : Name}
    (m : List (Nat × List Nat)) (hI : Inv s) (h : reparent s obj newParent newName = .ok s')
    {A pnp : Path} (hA : path s obj = some A) (hpnp : path s newParent = some pnp)
    (hfree : dget s.all (pnp ++ [newName]) = none)
    (hcont : ∀ (w : Nat) (wo : Obj) (t u : Path), s.objs[w]? = some wo → path s w = some t →
      A = t ++ u → u ≠ [] → canContainImports wo.cls = true)
    (hnames : ∀ n ∈ A, isSupersededName n = false) :
    findObject ⟨s', m⟩ A = .obj obj := by
  have := old_member_name_finds_of_forall m hI h hA hpnp hfree obj [] (by simpa using hA)
    (by simpa using hcont) (by simpa using hnames)
  simpa using this


/-- decidable form of "every object whose qualified name is a proper prefix of `q` is a module,
package or class" -/
def prefixesAreContainers (s : State) (q : Path) : Bool :=
  (List.range s.objs.length).all fun w =>
    match s.objs[w]?, path s w with
    | some wo, some t => !(t.isPrefixOf q && t != q) || canContainImports wo.cls
    | _, _ => true

theorem prefixesAreContainers_spec {s : State} {q : Path} (h : prefixesAreContainers s q = true) :
    ∀ (w : Nat) (wo : Obj) (t u : Path), s.objs[w]? = some wo → path s w = some t →
      q = t ++ u → u ≠ [] → canContainImports wo.cls = true := by
  intro w wo t u hw hp hq hu
  simp only [prefixesAreContainers, List.all_eq_true, List.mem_range] at h
  have := h w (List.getElem?_eq_some_iff.1 hw).1
  simp only [hw, hp] at this
  subst hq
  have h1 : t.isPrefixOf (t ++ u) = true := by
    rw [List.isPrefixOf_iff_prefix]; exact List.prefix_append t u
  have h2 : (t != t ++ u) = true := by
    simp only [bne_iff_ne, ne_eq]
    intro e
    have := congrArg List.length e
    simp only [List.length_append] at this
    exact hu (List.eq_nil_of_length_eq_zero (by omega))
  simpa [h1, h2] using this

/-- **old_member_name_finds** (C07, "references by the old qualified name still lead to it"):
after `obj` (old name `A`) was moved onto a free name, `System.find_object(A ++ rest)` returns the
object `x` that used to be called `A ++ rest` (a member below the moved object), for every
class-linearisation table `m`. -/
theorem old_member_name_finds {s s' : State} {obj newParent : Nat} {newName : Name}
    (m : List (Nat × List Nat)) (hI : Inv s) (h : reparent s obj newParent newName = .ok s')
    {A pnp : Path} (hA : path s obj = some A) (hpnp : path s newParent = some pnp)
    (hfree : dget s.all (pnp ++ [newName]) = none)
    (x : Nat) (rest : List Name) (hx : path s x = some (A ++ rest))
    (hcont : prefixesAreContainers s (A ++ rest) = true)
    (hnames : ∀ n ∈ A ++ rest, isSupersededName n = false) :
    findObject ⟨s', m⟩ (A ++ rest) = .obj x :=
  old_member_name_finds_of_forall m hI h hA hpnp hfree x rest hx (prefixesAreContainers_spec hcont) hnames

/-- **old_name_finds**: after the move, `System.find_object(old qualified name)` returns the moved
object: the walk goes from the root module along `contents` to the old parent, where the alias
left by `reparent` redirects it to the new name. -/
theorem old_name_finds {s s' : State} {obj newParent : Nat} {newName : Name}
    (m : List (Nat × List Nat)) (hI : Inv s) (h : reparent s obj newParent newName = .ok s')
    {A pnp : Path} (hA : path s obj = some A) (hpnp : path s newParent = some pnp)
    (hfree : dget s.all (pnp ++ [newName]) = none)
    (hcont : prefixesAreContainers s A = true)
    (hnames : ∀ n ∈ A, isSupersededName n = false) :
    findObject ⟨s', m⟩ A = .obj obj :=
  old_name_finds_of_forall m hI h hA hpnp hfree (prefixesAreContainers_spec hcont) hnames

/-- **new_name_resolves**: the new qualified name is registered for the moved object (free or taken
destination alike), and a module that imported it *from the re-exporting module* (alias table maps
a local name to the new qualified name) resolves that local name to it. -/
theorem new_name_resolves {s s' : State} {obj newParent : Nat} {newName : Name}
    (m : List (Nat × List Nat)) (hI : Inv s) (h : reparent s obj newParent newName = .ok s')
    {pnp : Path} (hpnp : path s newParent = some pnp) :
    objFor ⟨s', m⟩ (pnp ++ [newName]) = some obj ∧
    ∀ (scope : Nat) (so : Obj) (y : Name), getObj s' scope = some so →
      (so.cls = .module ∨ so.cls = .package) → dget so.contents y = none →
      dget so.aliases y = some (pnp ++ [newName]) → resolveName ⟨s', m⟩ scope [y] = some obj := by
  obtain ⟨hI', o, op, opo, oc, A, pnp', F⟩ := reparent_spec hI h
  have eP : pnp' = pnp := by
    have := hI.reg.keys _ _ F.hpnp; rw [hpnp] at this; injection this with this; exact this.symm
  subst eP
  have hobj : objFor ⟨s', m⟩ (pnp' ++ [newName]) = some obj := dget_of_path hI' F.newPath
  refine ⟨hobj, ?_⟩
  intro scope so y hs hm hc ha
  have hcc : canContainImports so.cls = true := by
    rcases hm with e | e <;> simp [canContainImports, e]
  have hl : localName ⟨s', m⟩ (fuelOf ⟨s', m⟩) scope y = some (pnp' ++ [newName]) :=
    localName_alias (e := ⟨s', m⟩) _ hs hcc hc ha
  unfold resolveName
  rw [expand_single_local, hl]
  simp only [hobj]

/-- **old_import_resolves** (true of the code since the `resolveName` repair): a module that imported
the object *from the module that defines it* — its alias table maps a local name to the OLD
qualified name — resolves that local name to the moved object: nothing is registered under the old
name any more, and `resolveName` then follows the alias `reparent` left there (`find_object`). -/
theorem old_import_resolves {s s' : State} {obj newParent : Nat} {newName : Name}
    (m : List (Nat × List Nat)) (hI : Inv s) (h : reparent s obj newParent newName = .ok s')
    {A pnp : Path} (hA : path s obj = some A) (hpnp : path s newParent = some pnp)
    (hfree : dget s.all (pnp ++ [newName]) = none)
    (hcont : prefixesAreContainers s A = true)
    (hnames : ∀ n ∈ A, isSupersededName n = false) :
    ∀ (scope : Nat) (so : Obj) (y : Name), getObj s' scope = some so →
      (so.cls = .module ∨ so.cls = .package) → dget so.contents y = none →
      dget so.aliases y = some A → resolveName ⟨s', m⟩ scope [y] = some obj := by
  intro scope so y hs hm hc ha
  have hf := old_name_finds m hI h hA hpnp hfree hcont hnames
  have hcc : canContainImports so.cls = true := by
    rcases hm with e | e <;> simp [canContainImports, e]
  have hl : localName ⟨s', m⟩ (fuelOf ⟨s', m⟩) scope y = some A :=
    localName_alias (e := ⟨s', m⟩) _ hs hcc hc ha
  unfold resolveName
  rw [expand_single_local, hl]
  cases hO : objFor ⟨s', m⟩ A with
  | some o =>
    have h2 : findObject ⟨s', m⟩ A = .obj o := by unfold findObject; rw [hO]
    rw [hf] at h2
    injection h2 with h2
    simp only [hO, h2]
  | none => simp only [hO, hf]

/-!
### The last clause of C07: WAS false at full strength; the cases the property names now hold

Full statement (kept visible; proved for the reference shapes the property lists — a local name
imported from the re-exporting module: `new_name_resolves`; a local name imported from the defining
module: `old_import_resolves`; the old and new qualified names: `old_name_finds`,
`old_member_name_finds`, `new_name_resolves` — not for arbitrary dotted `name`):

    theorem reference_reaches (m) (hI : Inv s) (h : reparent s obj newParent newName = .ok s')
        (scope : Nat) (name : Path)
        -- `name`, looked up from `scope`, named the object before the move …
        (hbefore : resolveName ⟨s, m⟩ scope name = some obj) :
        -- … and still does afterwards
        resolveName ⟨s', m⟩ scope name = some obj

HISTORY: before the `resolveName` repair (`resolveNameOld` below) it failed for a consumer module that
imported the object *from its defining module*: the consumer's alias table maps the local name to the
OLD qualified name; after the move `objForFullName(old)` is `None`, and `expandName` stops there
(`break`), returning the old dotted name without consulting the alias that `reparent` left in the old
parent.  `System.find_object(old name)` does follow that alias (`old_name_finds`); since the repair
`Documentable.resolveName` falls back to it (`old_import_resolves`).
-/

/-! ### a concrete re-export: package `pkg`, module `pkg._b` with class `X` with method `m`,
consumer module `pkg.c`; `X` is moved into `pkg` -/

def exHist : List Op :=
  [.add .package ['p','k','g'] none, .add .module ['_','b'] (some 0), .add .cls ['X'] (some 1),
   .add .function ['m'] (some 2), .add .module ['c'] (some 0)]

def exS : State := (run init exHist).1

def exS' : State :=
  match reparent exS 2 0 ['X'] with
  | .ok t => t
  | .error _ => exS

theorem exS_inv : Registry.Inv exS := inv_run exHist

theorem exS_reparent : reparent exS 2 0 ['X'] = .ok exS' := by
  have hok : (match reparent exS 2 0 ['X'] with | .ok _ => true | .error _ => false) = true := by decide
  unfold exS'
  cases h : reparent exS 2 0 ['X'] with
  | ok t => rfl
  | error e => rw [h] at hok; cases hok

def exOld : Path := [['p','k','g'], ['_','b'], ['X']]

/-- non-vacuity of `old_name_finds`: all hypotheses hold in the example, and the conclusion is the
expected object -/
example (m : List (Nat × List Nat)) : findObject ⟨exS', m⟩ exOld = .obj 2 :=
  old_name_finds m exS_inv exS_reparent (A := exOld) (pnp := [['p','k','g']])
    (by decide) (by decide) (by decide) (by decide) (by decide)

/-- non-vacuity of `old_member_name_finds`: `pkg._b.X.m` leads to the method now called `pkg.X.m` -/
example (m : List (Nat × List Nat)) : findObject ⟨exS', m⟩ (exOld ++ [['m']]) = .obj 3 :=
  old_member_name_finds m exS_inv exS_reparent (A := exOld) (pnp := [['p','k','g']])
    (by decide) (by decide) (by decide) 3 [['m']] (by decide) (by decide) (by decide)

example : path exS' 3 = some [['p','k','g'], ['X'], ['m']] ∧
    dget exS'.all exOld = none ∧ dget exS'.all (exOld ++ [['m']]) = none := by decide

/-- non-vacuity of `reparent_once` / `reparent_leaves_alias` / `new_name_resolves` -/
example : path exS' 0 = some [['p','k','g']] ∧ ∀ k v t, (k, v) ∈ exS'.all → k ≠ exOld ++ t :=
  let h := Registry.reparent_once exS_inv exS_reparent (A := exOld) (pnp := [['p','k','g']])
    (by decide) (by decide) (by decide)
  ⟨h.2.1, h.2.2.2.1⟩

example : (match exS'.objs[1]? with
    | some b => dget b.aliases ['X'] == some [['p','k','g'], ['X']] && dget b.contents ['X'] == none
    | none => false) = true := by decide

example (m : List (Nat × List Nat)) : objFor ⟨exS', m⟩ [['p','k','g'], ['X']] = some 2 :=
  (new_name_resolves m exS_inv exS_reparent (pnp := [['p','k','g']]) (by decide)).1

/-- the consumer `pkg.c` did `from pkg._b import X` -/
def exC : State :=
  modifyObj exS' 4 (fun o => { o with aliases := [(['X'], exOld)] })

/-- `Documentable.resolveName` as it was before the repair: the expanded name is looked up, nothing else -/
def resolveNameOld (e : Env) (obj : Nat) (name : Path) : Option Nat :=
  match expandName e obj name with
  | some p => objFor e p
  | none => none

/-- **consumer_of_definer_counterexample** (HISTORICAL: the code before the `resolveName` repair,
`resolveNameOld`): in the example, after the move, the consumer's local name `X` (imported from the
defining module) expands to the old dotted name and resolved to nothing, although `find_object` of
that same old name returns the moved class.  With today's `resolveName` the reference resolves. -/
theorem consumer_of_definer_counterexample :
    expandName ⟨exC, []⟩ 4 [['X']] = some exOld ∧
    resolveNameOld ⟨exC, []⟩ 4 [['X']] = none ∧
    findObject ⟨exC, []⟩ exOld = .obj 2 ∧
    -- before the move the same reference did resolve
    resolveNameOld ⟨modifyObj exS 4 (fun o => { o with aliases := [(['X'], exOld)] }), []⟩ 4 [['X']] = some 2 ∧
    -- and today's code resolves it after the move as well
    resolveName ⟨exC, []⟩ 4 [['X']] = some 2 := by
  decide

/-- non-vacuity of `old_import_resolves`: the consumer of the example -/
example (m : List (Nat × List Nat)) : findObject ⟨exS', m⟩ exOld = .obj 2 ∧ resolveName ⟨exC, []⟩ 4 [['X']] = some 2 :=
  ⟨old_name_finds m exS_inv exS_reparent (A := exOld) (pnp := [['p','k','g']])
    (by decide) (by decide) (by decide) (by decide) (by decide), by decide⟩

/-! ### hunter round: two layouts in which a reference through the DEFINING module is lost -/

/-- package `pkg`, module `pkg._b` with `class _X` (method `m`) and the second name `X = _X`, consumer `pkg.c` -/
def ex2Hist : List Op :=
  [.add .package ['p','k','g'] none, .add .module ['_','b'] (some 0), .add .cls ['_','X'] (some 1),
   .add .function ['m'] (some 2), .add .module ['c'] (some 0)]

def ex2Old : Path := [['p','k','g'], ['_','b'], ['_','X']]
def ex2Second : Path := [['p','k','g'], ['_','b'], ['X']]

/-- before the move: `X = _X` in the defining module, `from pkg._b import X` in the consumer -/
def ex2S : State :=
  modifyObj (modifyObj (run init ex2Hist).1 1 (fun o => { o with aliases := [(['X'], ex2Old)] }))
    4 (fun o => { o with aliases := [(['X'], ex2Second)] })

/-- the package re-exports `X`: the class `_X` is moved to `pkg.X` -/
def ex2S' : State :=
  match reparent ex2S 2 0 ['X'] with
  | .ok t => t
  | .error _ => ex2S

/-- **second_name_in_definer_counterexample** (hunt/C07/4, open finding): `old_import_resolves` needs the consumer's
alias to be the object's OWN old name.  When the defining module binds the object under a second name and the
consumer imports that one, the reference resolved before the move and resolves to nothing after it: outdated names
are followed for one hop (`find_object` expands once from the root), here two are needed. -/
theorem second_name_in_definer_counterexample :
    -- before the move the consumer's reference resolves, by both names
    resolveName ⟨ex2S, []⟩ 4 [['X']] = some 2 ∧ findObject ⟨ex2S, []⟩ ex2Second = .obj 2 ∧
    -- the move happens, the class is `pkg.X`, and its own old name still finds it (one stale name: one hop)
    (match reparent ex2S 2 0 ['X'] with | .ok _ => true | .error _ => false) = true ∧
    objFor ⟨ex2S', []⟩ [['p','k','g'], ['X']] = some 2 ∧
    findObject ⟨ex2S', []⟩ ex2Old = .obj 2 ∧
    -- the second name is an alias of the old name, which is an alias of the new one: not followed
    expandName ⟨ex2S', []⟩ 4 [['X']] = some ex2Second ∧
    findObject ⟨ex2S', []⟩ ex2Second = .lookupError ∧
    resolveName ⟨ex2S', []⟩ 4 [['X']] = none := by
  decide


/-- package `pkg` with the module `pkg.X` that defines `class X` (method `m`), consumer `pkg.c` with
`from pkg.X import X` -/
def ex3Hist : List Op :=
  [.add .package ['p','k','g'] none, .add .module ['X'] (some 0), .add .cls ['X'] (some 1),
   .add .function ['m'] (some 2), .add .module ['c'] (some 0)]

def ex3Old : Path := [['p','k','g'], ['X'], ['X']]

def ex3S : State :=
  modifyObj (run init ex3Hist).1 4 (fun o => { o with aliases := [(['X'], ex3Old)] })

def ex3S' : State :=
  match reparent ex3S 2 0 ['X'] with
  | .ok t => t
  | .error _ => ex3S


/-- **same_name_submodule_counterexample** (hunt/C07/2, open finding): the hypothesis "destination name free" of
`old_name_finds` cannot be dropped.  `from .X import X` in the package moves the class onto the full name of its own
defining module: the module is superseded and the old name of the class finds nothing. -/
theorem same_name_submodule_counterexample :
    -- before the move the consumer's reference resolves
    resolveName ⟨ex3S, []⟩ 4 [['X']] = some 2 ∧
    -- the move happens onto the name of the defining module itself: the class is `pkg.X`, its method `pkg.X.m`,
    -- the module is superseded (`pkg.X 0`)
    (match reparent ex3S 2 0 ['X'] with | .ok _ => true | .error _ => false) = true ∧
    objFor ⟨ex3S', []⟩ [['p','k','g'], ['X']] = some 2 ∧
    path ex3S' 3 = some [['p','k','g'], ['X'], ['m']] ∧
    path ex3S' 1 = some [['p','k','g'], ['X', ' ', '0']] ∧
    -- the old name is now read as "member `X` of the class `pkg.X`": the alias left in the module is out of reach
    expandName ⟨ex3S', []⟩ 4 [['X']] = some ex3Old ∧
    findObject ⟨ex3S', []⟩ ex3Old = .lookupError ∧
    resolveName ⟨ex3S', []⟩ 4 [['X']] = none := by
  decide

end Names
