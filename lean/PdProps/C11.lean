/-
C11 — every internal link leads to a page and anchor that exist.

Over the `Output` model (lean/PdModel/Output.lean): `Documentable.url/page_object/isVisible`,
`linker.taglink` with its visibility guard, `TemplateWriter._writeDocsFor/writeSummaryPages`, and every
producer of links / listing entries — the code as fixed by cb98646, aaed9bd, 1da744b, 97be2c0, 07382d3.
`WF s` is what C02 establishes about a real registry (parents before children, `contents` and `parent`
agree, parentless objects are roots, qualified names pairwise different, `parentMod` = innermost module);
the driver evaluates `wf` on every table it is sent.

* `url_resolves_iff`, `url_resolves_iff_visible`   `url o` leads to a written file (+ anchor) ⇔ `o` is visible
                          (⇔ visible and reached through `contents`: `visible_reachable`); never for a
                          superseded duplicate `'x 0'` or anything inside one (`superseded_invisible`)
* `own_page_exists`, `member_anchor_exists`   the second sentence of the property
* `shorten_resolves`, `ctx_ok`   same-page shortening is harmless on the page it was computed for, and every
                          `taglink` call is made with the address of the page being written
* `links_resolve`         FULL STRENGTH, ALL 30 PRODUCER ROWS: every hyperlink the run emits resolves (row `fieldXref`
                          = links in `@see` / `@note` / `@author` / `@since` fields, formatted by `FieldHandler.format()`,
                          under `switch_context(obj)` since 0ff33e4; historical `links_resolve_counterexample_field_old`)
* `origin`, `mem_emits`   one pass over the producer table / what the guard in `taglink` leaves of it
* historical counterexamples (pre-fix `…Old` definitions): `links_resolve_counterexample_superseded_old`
  (DESIGN §8-4, before cb98646), `…_hidden_old` (§8-11, before aaed9bd), `…_context_old` (before 1da744b),
  `inhierarchy_counterexample_old` (before cb98646), `inhierarchy_counterexample_collision_old` (before
  97be2c0); each also states that the fixed model no longer exhibits it.
* not proved: that the "View In Hierarchy" link of every class page has its anchor in classIndex.html
  (correspondence streams `inhierarchy` / `classanchors` and the direct oracle only).
-/
import PdModel.Output
namespace Output

/-- contents-descendant (reflexive, transitive) -/
inductive Desc (s : Sys) : Nat → Nat → Prop
  | refl (i : Nat) : Desc s i i
  | head {a c i : Nat} : c ∈ (s.ob a).contents → Desc s c i → Desc s a i

theorem Desc.tail {s : Sys} {a p c : Nat} (h : Desc s a p) (hc : c ∈ (s.ob p).contents) : Desc s a c := by
  induction h with
  | refl i => exact .head hc (.refl c)
  | head hm _ ih => exact .head hm (ih hc)

theorem Desc.tail_cases {s : Sys} {a i : Nat} (h : Desc s a i) :
    i = a ∨ ∃ p, Desc s a p ∧ i ∈ (s.ob p).contents := by
  induction h with
  | refl i => exact .inl rfl
  | @head a c i hm hd ih =>
    right
    rcases ih with rfl | ⟨p, hp, hi⟩
    · exact ⟨a, .refl a, hm⟩
    · exact ⟨p, .head hm hp, hi⟩

/-- reached through `contents` from a root -/
def reachable (s : Sys) (i : Nat) : Prop := ∃ r, r ∈ s.roots ∧ Desc s r i

theorem visibleAux_step (s : Sys) (f i : Nat) :
    visibleAux s (f+1) i = ((s.ob i).privacy != .hidden &&
      match (s.ob i).parent with
      | none => true
      | some p => member s p (s.ob i).name == some i && visibleAux s f p) := by
  rfl

theorem visibleAux_mono (s : Sys) : ∀ f i, visibleAux s f i = true → visibleAux s (f+1) i = true := by
  intro f
  induction f with
  | zero => intro i h; simp [visibleAux] at h
  | succ f ih =>
    intro i h
    rw [visibleAux_step] at h ⊢
    cases hp : (s.ob i).parent with
    | none => simpa [hp] using h
    | some p =>
      simp only [hp, Bool.and_eq_true] at h ⊢
      exact ⟨h.1, h.2.1, ih p h.2.2⟩

/-- a visible object with a parent is that parent's `contents` entry of its name, and the parent is visible -/
theorem visible_parent' {s : Sys} {c p : Nat} (hp : (s.ob c).parent = some p) (hv : visible s c = true) :
    member s p (s.ob c).name = some c ∧ visible s p = true := by
  unfold visible at hv ⊢
  rw [visibleAux_step] at hv
  simp only [hp, Bool.and_eq_true, beq_iff_eq] at hv
  exact ⟨hv.2.1, visibleAux_mono s _ _ hv.2.2⟩

theorem visible_parent {s : Sys} {c p : Nat} (hp : (s.ob c).parent = some p) (hv : visible s c = true) :
    visible s p = true := (visible_parent' hp hv).2

theorem visible_in_contents {s : Sys} {c p : Nat} (hp : (s.ob c).parent = some p) (hv : visible s c = true) :
    c ∈ (s.ob p).contents := by
  have := (visible_parent' hp hv).1
  unfold member at this
  exact List.mem_of_find?_eq_some this

theorem visible_not_hidden {s : Sys} {c : Nat} (hv : visible s c = true) : (s.ob c).privacy ≠ .hidden := by
  unfold visible at hv
  rw [visibleAux_step] at hv
  simp only [Bool.and_eq_true, bne_iff_ne, ne_eq] at hv
  exact hv.1

/-! ### what `wf` gives -/

theorem ob_default {s : Sys} {i : Nat} (h : s.n ≤ i) : s.ob i = default := by
  unfold Sys.ob Sys.n at *
  simp [Array.getD, Nat.not_lt.mpr h]

theorem contents_nil_of_ge {s : Sys} {i : Nat} (h : s.n ≤ i) : (s.ob i).contents = [] := by
  rw [ob_default h]; rfl

theorem lt_of_contents_ne {s : Sys} {i c : Nat} (h : c ∈ (s.ob i).contents) : i < s.n := by
  rcases Nat.lt_or_ge i s.n with h' | h'
  · exact h'
  · rw [contents_nil_of_ge h'] at h; simp at h

theorem visible_lt {s : Sys} {i : Nat} (h : visible s i = true) : i < s.n := by
  rcases Nat.lt_or_ge i s.n with h' | h'
  · exact h'
  · have := visible_not_hidden h
    rw [ob_default h'] at this
    exact absurd rfl this

structure WF (s : Sys) : Prop where
  parent_lt : ∀ i p, i < s.n → (s.ob i).parent = some p → p < i
  parent_page : ∀ i p, i < s.n → (s.ob i).parent = some p → (s.ob p).kind.ownPage = true
  orphan_module : ∀ i, i < s.n → (s.ob i).parent = none → (s.ob i).kind.isModule = true
  orphan_root : ∀ i, i < s.n → (s.ob i).parent = none → i ∈ s.roots
  contents_lt : ∀ i c, c ∈ (s.ob i).contents → c < s.n
  contents_parent : ∀ i c, c ∈ (s.ob i).contents → (s.ob c).parent = some i
  contents_names : ∀ i c d, c ∈ (s.ob i).contents → d ∈ (s.ob i).contents → (s.ob c).name = (s.ob d).name → c = d
  roots_lt : ∀ r, r ∈ s.roots → r < s.n
  roots_parent : ∀ r, r ∈ s.roots → (s.ob r).parent = none
  names : ∀ i j, i < s.n → j < s.n → fullName s i = fullName s j → i = j
  spellings : ∀ i j, i < s.n → j < s.n → (s.ob j).parent ≠ none → (s.ob i).name ≠ fullName s j
  modules : ∀ i, i < s.n → (s.ob i).modul = moduleByChain s i

theorem wf_iff (s : Sys) (h : wf s = true) : WF s := by
  simp only [wf, Bool.and_eq_true, List.all_eq_true, List.mem_range, decide_eq_true_eq, beq_iff_eq] at h
  obtain ⟨⟨⟨⟨⟨hobj, hmod⟩, hroots⟩, _hall⟩, hnames⟩, hsp⟩ := h
  have hobj' : ∀ i, i < s.n → wfObj s i = true := hobj
  have hc : ∀ i c, c ∈ (s.ob i).contents → c < s.n ∧ (s.ob c).parent = some i := by
    intro i c hc
    have hi := lt_of_contents_ne hc
    have := hobj' i hi
    simp only [wfObj, Bool.and_eq_true, List.all_eq_true, decide_eq_true_eq, beq_iff_eq] at this
    exact this.1.2 c hc
  refine ⟨?_, ?_, ?_, ?_, fun i c h => (hc i c h).1, fun i c h => (hc i c h).2, ?_, fun r hr => (hroots r hr).1,
    fun r hr => (hroots r hr).2, ?_, ?_, ?_⟩
  · intro i p hi hp
    have := hobj' i hi
    simp only [wfObj, hp, Bool.and_eq_true, decide_eq_true_eq] at this
    exact this.1.1.1
  · intro i p hi hp
    have := hobj' i hi
    simp only [wfObj, hp, Bool.and_eq_true] at this
    exact this.1.1.2
  · intro i hi hp
    have := hobj' i hi
    simp only [wfObj, hp, Bool.and_eq_true] at this
    exact this.1.1.1
  · intro i hi hp
    have := hobj' i hi
    simp only [wfObj, hp, Bool.and_eq_true, List.contains_iff_mem] at this
    exact this.1.1.2
  · intro i c d hc' hd hn
    have hi := lt_of_contents_ne hc'
    have := hobj' i hi
    simp only [wfObj, Bool.and_eq_true, List.all_eq_true, Bool.or_eq_true, beq_iff_eq, bne_iff_ne, ne_eq] at this
    rcases this.2 c hc' d hd with h | h
    · exact h
    · exact absurd hn h
  · intro i j hi hj hn
    have := hnames
    simp only [namesDistinct, List.all_eq_true, List.mem_range, Bool.or_eq_true, beq_iff_eq, bne_iff_ne, ne_eq] at this
    rcases this i hi j hj with h | h
    · exact h
    · exact absurd hn h
  · intro i j hi hj hp
    have := hsp
    simp only [spellingsApart, List.all_eq_true, List.mem_range, Bool.or_eq_true, beq_iff_eq, bne_iff_ne, ne_eq] at this
    rcases this i hi j hj with h | h
    · exact absurd h hp
    · exact h
  · intro i hi
    have := hmod
    simp only [modulesCoherent, List.all_eq_true, List.mem_range, beq_iff_eq] at this
    exact this i hi

/-! ### `_writeDocsFor` visits exactly the visible objects reached through `contents` -/

theorem docsFor_sound (s : Sys) : ∀ f r i, i ∈ docsFor s f r → Desc s r i ∧ visible s i = true := by
  intro f
  induction f with
  | zero => intro r i h; simp [docsFor] at h
  | succ f ih =>
    intro r i h
    rw [docsFor] at h
    split at h
    · rename_i hv
      rcases List.mem_cons.mp h with rfl | h
      · exact ⟨.refl _, hv⟩
      · obtain ⟨c, hc, hi⟩ := List.mem_flatMap.mp h
        obtain ⟨hd, hvi⟩ := ih c i hi
        exact ⟨.head hc hd, hvi⟩
    · simp at h

theorem visible_of_desc {s : Sys} (w : WF s) {a i : Nat} (h : Desc s a i) (hv : visible s i = true) :
    visible s a = true := by
  induction h with
  | refl i => exact hv
  | @head a c i hm _ ih => exact visible_parent (w.contents_parent a c hm) (ih hv)

theorem docsFor_complete {s : Sys} (w : WF s) {r i : Nat} (h : Desc s r i) (hv : visible s i = true) :
    ∀ f, r < s.n → s.n ≤ f + r → i ∈ docsFor s f r := by
  induction h with
  | refl i =>
    intro f hr hf
    cases f with
    | zero => omega
    | succ f => rw [docsFor]; simp [hv]
  | @head a c i hm hd ih =>
    intro f hr hf
    cases f with
    | zero => omega
    | succ f =>
      rw [docsFor]
      have hva := visible_of_desc w (.head hm hd) hv
      simp only [hva, if_true]
      refine List.mem_cons_of_mem _ (List.mem_flatMap.mpr ⟨c, hm, ?_⟩)
      have hlt : a < c := w.parent_lt c a (w.contents_lt a c hm) (w.contents_parent a c hm)
      exact ih hv f (w.contents_lt a c hm) (by omega)

theorem mem_reached_iff {s : Sys} (w : WF s) (i : Nat) :
    i ∈ reached s ↔ reachable s i ∧ visible s i = true := by
  unfold reached reachable
  constructor
  · intro h
    obtain ⟨r, hr, hi⟩ := List.mem_flatMap.mp h
    obtain ⟨hd, hv⟩ := docsFor_sound s _ _ _ hi
    exact ⟨⟨r, hr, hd⟩, hv⟩
  · rintro ⟨⟨r, hr, hd⟩, hv⟩
    exact List.mem_flatMap.mpr ⟨r, hr, docsFor_complete w hd hv s.n (w.roots_lt r hr) (by omega)⟩

theorem mem_pages_iff {s : Sys} (w : WF s) (i : Nat) :
    i ∈ pages s ↔ reachable s i ∧ visible s i = true ∧ (s.ob i).kind.ownPage = true := by
  unfold pages
  rw [List.mem_filter, mem_reached_iff w]
  constructor
  · rintro ⟨⟨a, b⟩, c⟩; exact ⟨a, b, c⟩
  · rintro ⟨a, b, c⟩; exact ⟨⟨a, b⟩, c⟩

theorem visible_of_mem_pages {s : Sys} {i : Nat} (h : i ∈ pages s) : visible s i = true := by
  unfold pages reached at h
  obtain ⟨h, _⟩ := List.mem_filter.mp h
  obtain ⟨r, _, hi⟩ := List.mem_flatMap.mp h
  exact (docsFor_sound s _ _ _ hi).2

theorem reachable_child {s : Sys} {p c : Nat} (h : reachable s p) (hc : c ∈ (s.ob p).contents) : reachable s c := by
  obtain ⟨r, hr, hd⟩ := h
  exact ⟨r, hr, hd.tail hc⟩

theorem reachable_parent {s : Sys} (w : WF s) {i q : Nat} (h : reachable s i) (hp : (s.ob i).parent = some q) :
    reachable s q := by
  obtain ⟨r, hr, hd⟩ := h
  rcases hd.tail_cases with rfl | ⟨p, hdp, hi⟩
  · rw [w.roots_parent _ hr] at hp; cases hp
  · have := w.contents_parent p i hi
    rw [hp] at this
    cases this
    exact ⟨r, hr, hdp⟩

theorem reachable_cases {s : Sys} (w : WF s) {i : Nat} (h : reachable s i) :
    (i ∈ s.roots ∧ (s.ob i).parent = none) ∨ ∃ p, (s.ob i).parent = some p ∧ reachable s p ∧ i ∈ (s.ob p).contents := by
  obtain ⟨r, hr, hd⟩ := h
  rcases hd.tail_cases with rfl | ⟨p, hdp, hi⟩
  · exact .inl ⟨hr, w.roots_parent _ hr⟩
  · exact .inr ⟨p, w.contents_parent p i hi, ⟨r, hr, hdp⟩, hi⟩

/-! ### addresses -/

theorem Kind.ownPage_of_isModule {k : Kind} (h : k.isModule = true) : k.ownPage = true := by
  cases k <;> simp_all [Kind.isModule, Kind.ownPage]

theorem pageFile_inj {s : Sys} (w : WF s) {p q : Nat} (hp : p < s.n) (hq : q < s.n)
    (h : pageFile s p = pageFile s q) : p = q := by
  unfold pageFile at h
  split at h <;> split at h
  · rename_i h1 h2
    rw [h1] at h2
    exact w.names p q hp hq (by simpa using h2)
  · cases h
  · cases h
  · injection h with h
    exact w.names p q hp hq h

theorem pageFile_ne_summary (s : Sys) (p : Nat) (x : SPage) : pageFile s p ≠ .summary x := by
  unfold pageFile; split <;> simp

theorem url_own {s : Sys} {i : Nat} (h : (s.ob i).kind.ownPage = true) : url s i = some ⟨pageFile s i, none⟩ := by
  simp [url, pageObject, h]

theorem url_member {s : Sys} (w : WF s) {i p : Nat} (hi : i < s.n) (h : (s.ob i).kind.ownPage = false)
    (hp : (s.ob i).parent = some p) : url s i = some ⟨pageFile s p, some (s.ob i).name⟩ := by
  have : p ≠ i := Nat.ne_of_lt (w.parent_lt i p hi hp)
  simp [url, pageObject, h, hp, this]

theorem mem_written_iff (s : Sys) (f : File) :
    f ∈ written s ↔ f ∈ summaryFiles s ∨ (∃ p, p ∈ pages s ∧ pageFile s p = f) ∨ f ∈ aliasFiles s := by
  simp [written, pageFiles]

theorem mem_summaryFiles_cases {s : Sys} {f : File} (h : f ∈ summaryFiles s) :
    (∃ x, f = .summary x) ∨ (f = .index ∧ hasIndexPage s = true) := by
  unfold summaryFiles at h
  by_cases hl : hasIndexPage s = true
  · simp only [hl, if_true, List.mem_append, List.mem_cons, List.not_mem_nil, or_false] at h
    rcases h with ((h | h | h | h) | h) | h
    · exact .inl ⟨_, h⟩
    · exact .inl ⟨_, h⟩
    · exact .inl ⟨_, h⟩
    · exact .inl ⟨_, h⟩
    · exact .inr ⟨h, hl⟩
    · exact .inl ⟨_, h⟩
  · simp [hl] at h
    rcases h with h | h | h | h | h <;> exact .inl ⟨_, h⟩

/-- a page file is among the written files only as the page of that very object — or it is index.html,
written as the project's `IndexPage` (several roots; since a09aa28 also when the only root is hidden) -/
theorem pageFile_written {s : Sys} (w : WF s) {i : Nat} (hi : i < s.n) (h : pageFile s i ∈ written s) :
    i ∈ pages s ∨ (pageFile s i = .index ∧ hasIndexPage s = true) := by
  rcases (mem_written_iff s _).mp h with h | ⟨p, hp, he⟩ | h
  · rcases mem_summaryFiles_cases h with ⟨x, hx⟩ | ⟨hx, hl⟩
    · exact absurd hx (pageFile_ne_summary s i x)
    · exact .inr ⟨hx, hl⟩
  · have hpn : p < s.n := visible_lt (visible_of_mem_pages hp)
    have := pageFile_inj w hpn hi he
    exact .inl (this ▸ hp)
  · unfold aliasFiles at h
    split at h
    · rename_i r hr
      split at h
      · simp at h
      · split at h
        · simp only [List.mem_singleton] at h
          unfold pageFile at h
          split at h
          · cases h
          · rename_i hne
            injection h with h
            exact absurd (by rw [hr, h]) hne
        · simp at h
    · simp at h

theorem mem_anchorsOf_page {s : Sys} (w : WF s) {p : Nat} (hp : p < s.n) (a : Name) :
    a ∈ anchorsOf s (pageFile s p) ↔
      p ∈ pages s ∧ ∃ c, c ∈ methods s p ∧ (a = (s.ob c).name ∨ a = fullName s c) := by
  unfold anchorsOf
  have hne : ¬ (pageFile s p = .summary .classIndex) := pageFile_ne_summary s p _
  have hne2 : ¬ (pageFile s p = .summary .nameIndex) := pageFile_ne_summary s p _
  simp only [hne, hne2, if_false, List.append_nil, List.mem_flatMap, List.mem_filter, decide_eq_true_eq,
    List.mem_cons, List.not_mem_nil, or_false]
  constructor
  · rintro ⟨q, ⟨hq, he⟩, c, hc, ha⟩
    have hqn : q < s.n := visible_lt (visible_of_mem_pages hq)
    have := pageFile_inj w hqn hp he
    subst this
    exact ⟨hq, c, hc, ha⟩
  · rintro ⟨hq, c, hc, ha⟩
    exact ⟨p, ⟨hq, rfl⟩, c, hc, ha⟩

theorem mem_methods {s : Sys} {p c : Nat} :
    c ∈ methods s p ↔ c ∈ (s.ob p).contents ∧ (s.ob c).kind.ownPage = false ∧ visible s c = true := by
  simp [methods, List.mem_filter]

theorem resolvesHref_full (s : Sys) (pg f : File) (fr : Option Name) :
    resolvesHref s pg ⟨some f, fr⟩ = true ↔ f ∈ written s ∧ (∀ a, fr = some a → a ∈ anchorsOf s f) := by
  unfold resolvesHref resolvesHrefIn
  cases fr <;> simp

/-- **C11** every visible module, package and class reached through `contents` has its own page at the
address links use for it -/
theorem own_page_exists {s : Sys} (w : WF s) {i : Nat} (hr : reachable s i) (hv : visible s i = true)
    (ho : (s.ob i).kind.ownPage = true) : urlResolves s i = true := by
  have hp : i ∈ pages s := (mem_pages_iff w i).mpr ⟨hr, hv, ho⟩
  unfold urlResolves
  rw [url_own ho]
  simp only
  rw [resolvesHref_full]
  refine ⟨(mem_written_iff s _).mpr (.inr (.inl ⟨i, hp, rfl⟩)), ?_⟩
  intro a h; cases h

/-- **C11** every visible function and variable reached through `contents` has an anchor on its
parent's page, at the address links use for it -/
theorem member_anchor_exists {s : Sys} (w : WF s) {i : Nat} (hr : reachable s i) (hv : visible s i = true)
    (ho : (s.ob i).kind.ownPage = false) : urlResolves s i = true := by
  have hi := visible_lt hv
  rcases reachable_cases w hr with ⟨_, hnone⟩ | ⟨p, hp, hrp, hc⟩
  · have := Kind.ownPage_of_isModule (w.orphan_module i hi hnone)
    rw [ho] at this; cases this
  · have hvp := visible_parent hp hv
    have hop : (s.ob p).kind.ownPage = true := w.parent_page i p hi hp
    have hpp : p ∈ pages s := (mem_pages_iff w p).mpr ⟨hrp, hvp, hop⟩
    unfold urlResolves
    rw [url_member w hi ho hp]
    simp only
    rw [resolvesHref_full]
    refine ⟨(mem_written_iff s _).mpr (.inr (.inl ⟨p, hpp, rfl⟩)), ?_⟩
    intro a ha
    cases ha
    exact (mem_anchorsOf_page w (visible_lt hvp) _).mpr ⟨hpp, i, mem_methods.mpr ⟨hc, ho, hv⟩, .inl rfl⟩

theorem fullName_of_parent {s : Sys} {i p : Nat} (hp : (s.ob i).parent = some p) :
    fullName s i = List.intercalate ['.'] (pathAux s s.n p ++ [(s.ob i).name]) := by
  unfold fullName
  rw [pathAux]
  simp [hp]

/-- **C11** `url o` leads to a written file (and anchor) **iff** `o` is visible and reached through
`contents` from a root — in particular not for a superseded duplicate `'x 0'`, nor for anything inside one.
One address is shared: with a single root, index.html is the root's page; when that root is hidden the
project's `IndexPage` is written there instead (a09aa28), so the address of the hidden root leads to a
file that is not its page (`pages` does not contain it). -/
theorem url_resolves_iff {s : Sys} (w : WF s) {i : Nat} (hi : i < s.n) :
    urlResolves s i = true ↔
      (visible s i = true ∧ reachable s i) ∨
        ((s.ob i).kind.ownPage = true ∧ pageFile s i = .index ∧ hasIndexPage s = true) := by
  constructor
  · intro h
    cases ho : (s.ob i).kind.ownPage with
    | true =>
      unfold urlResolves at h
      rw [url_own ho] at h
      simp only at h
      rw [resolvesHref_full] at h
      rcases pageFile_written w hi h.1 with hp | hx
      · have := (mem_pages_iff w i).mp hp
        exact .inl ⟨this.2.1, this.1⟩
      · exact .inr ⟨rfl, hx⟩
    | false =>
      left
      cases hp : (s.ob i).parent with
      | none =>
        have := Kind.ownPage_of_isModule (w.orphan_module i hi hp)
        rw [ho] at this; cases this
      | some p =>
        have hpn : p < s.n := Nat.lt_trans (w.parent_lt i p hi hp) hi
        unfold urlResolves at h
        rw [url_member w hi ho hp] at h
        simp only at h
        rw [resolvesHref_full] at h
        obtain ⟨hpp, c, hc, ha⟩ := (mem_anchorsOf_page w hpn _).mp (h.2 _ rfl)
        obtain ⟨hcc, hco, hcv⟩ := mem_methods.mp hc
        have hcp := w.contents_parent p c hcc
        have hcn := w.contents_lt p c hcc
        rcases ha with ha | ha
        · -- same name, same parent: same qualified name, hence the same object
          have : i = c := w.names i c hi hcn (by rw [fullName_of_parent hp, fullName_of_parent hcp, ha])
          subst this
          exact ⟨hcv, reachable_child ((mem_pages_iff w p).mp hpp).1 hcc⟩
        · exact absurd ha (w.spellings i c hi hcn (by rw [hcp]; simp))
  · rintro (⟨hv, hr⟩ | ⟨ho, hx, hl⟩)
    · cases ho : (s.ob i).kind.ownPage with
      | true => exact own_page_exists w hr hv ho
      | false => exact member_anchor_exists w hr hv ho
    · unfold urlResolves
      rw [url_own ho]
      simp only
      rw [resolvesHref_full]
      refine ⟨?_, fun a h => by cases h⟩
      rw [hx]
      refine (mem_written_iff s _).mpr (.inl ?_)
      unfold summaryFiles
      simp [hl]

/-! ### where every emitted mention comes from (one pass over the producer table) -/

/-- the link's shortening context is the page it is written into (or there is none) -/
def ctxSelf (e : Emit) : Prop := e.ctx = none ∨ e.ctx = some e.page

/-- `o` is displayed on the written page `pf`: the page's object or one of its members -/
def Shown (s : Sys) (pf : File) (o : Nat) : Prop :=
  ∃ p, p ∈ pages s ∧ pf = pageFile s p ∧ (o = p ∨ o ∈ methods s p)

/-- what the code path of each row establishes about an emitted mention -/
def Origin (s : Sys) (e : Emit) : Prop :=
  match e.row with
  | .table | .initTable =>
      e.ctx = some e.page ∧ e.marked = some (cssPrivate s e.target) ∧ visible s e.target = true ∧
      ∃ p, p ∈ pages s ∧ e.page = pageFile s p ∧ e.target ∈ (s.ob p).contents
  | .baseTable => e.ctx = some e.page ∧ e.marked = some (cssPrivate s e.target) ∧ visible s e.target = true
  | .detail =>
      e.marked = some (cssPrivate s e.target) ∧ visible s e.target = true ∧
      ∃ p, p ∈ pages s ∧ e.page = pageFile s p ∧ e.target ∈ methods s p
  | .sidebarTitle =>
      e.ctx = some (pageFile s e.target) ∧
      ∃ p, p ∈ pages s ∧ e.page = pageFile s p ∧
        (e.target = p ∨ (s.ob p).parent = some e.target ∨ (s.ob p).modul = some e.target)
  | .sidebarItem =>
      e.ctx = some e.page ∧ e.marked = some (isPrivate s e.target) ∧ visible s e.target = true ∧
      ∃ p, p ∈ pages s ∧ e.page = pageFile s p ∧
        ∃ a, (a = p ∨ (s.ob p).parent = some a ∨ (s.ob p).modul = some a) ∧ Desc s a e.target
  | .sidebarInherited => e.ctx = some e.page ∧ e.marked = some (isPrivate s e.target) ∧ visible s e.target = true
  | .heading =>
      e.ctx = some e.page ∧ (s.ob e.target).kind.ownPage = true ∧
      ∃ p, p ∈ pages s ∧ e.page = pageFile s p ∧ e.target ∈ chain s p
  | .classSig => e.ctx = some e.page ∧ ∃ p, p ∈ pages s ∧ some e.target ∈ (s.ob p).sigrefs
  | .knownSub | .overriddenIn => e.ctx = some e.page ∧ visible s e.target = true
  | .overrides =>
      e.ctx = some e.page ∧ ∃ p, p ∈ pages s ∧ ∃ b nm, b ∈ (s.ob p).mro.drop 1 ∧ member s b nm = some e.target ∧
        (nm = (s.ob p).name ∨ ∃ c, c ∈ methods s p ∧ nm = (s.ob c).name)
  | .baseName => e.ctx = some e.page ∧ ∃ a, a ∈ (s.ob e.target).contents ∧ visible s a = true
  | .baseVia => e.ctx = some e.page ∧ ∃ p, p ∈ pages s ∧ e.target ∈ (s.ob p).mro
  | .docXref =>
      ∃ o op, Shown s e.page o ∧ e.target ∈ (s.ob o).xrefs ∧ pageObject s o = some op ∧ e.ctx = some (pageFile s op)
  | .fieldXref =>
      ∃ o op, Shown s e.page o ∧ e.target ∈ (s.ob o).laterefs ∧ pageObject s o = some op ∧ e.ctx = some (pageFile s op)
  | .annXref =>
      ∃ o op, Shown s e.page o ∧ e.target ∈ (s.ob o).annrefs ∧ pageObject s o = some op ∧ e.ctx = some (pageFile s op)
  | .valXref =>
      ∃ o op, Shown s e.page o ∧ e.target ∈ (s.ob o).valrefs ∧ pageObject s o = some op ∧ e.ctx = some (pageFile s op)
  | .extraInfo => e.ctx = some e.page ∧ ∃ p, p ∈ pages s ∧ e.target ∈ (s.ob p).ctors
  | .sumCopy | .classIndexSum | .allDocsSum =>
      e.ctx = none ∧ ∃ o, visible s o = true ∧ e.target ∈ (s.ob o).xrefs
  | .modIndexSum => e.ctx = none ∧ ∃ o, (visible s o = true ∨ o ∈ s.roots) ∧ e.target ∈ (s.ob o).xrefs
  | .modIndexRoot => e.ctx = some e.page ∧ e.marked = some (isPrivate s e.target) ∧ e.target ∈ s.roots ∧ visible s e.target = true
  | .modIndex =>
      e.ctx = some e.page ∧ e.marked = some (isPrivate s e.target) ∧ visible s e.target = true ∧
      ∃ r, r ∈ s.roots ∧ Desc s r e.target
  | .classIndex => e.ctx = some e.page ∧ visible s e.target = true ∧ e.marked = some (classRowPrivate s e.target)
  | .nameIndex => e.ctx = some e.page ∧ visible s e.target = true ∧ e.marked = some (ctxPrivate s e.target)
  | .undoc => e.ctx = some e.page ∧ visible s e.target = true ∧ e.marked = some (ctxPrivate s e.target)
  | .allDocs => e.ctx = none ∧ e.marked = some ((s.ob e.target).privacy == .priv) ∧ visible s e.target = true
  | .indexRoots => e.ctx = some e.page ∧ e.target ∈ s.roots ∧ visible s e.target = true

theorem mem_sumLinks {s : Sys} {row : Row} {pg : File} {o : Nat} {e : Emit} (h : e ∈ sumLinks s row pg o) :
    e.row = row ∧ e.page = pg ∧ e.ctx = none ∧ e.target ∈ (s.ob o).xrefs := by
  unfold sumLinks at h
  split at h
  · simp at h
  · obtain ⟨t, ht, rfl⟩ := List.mem_map.mp h
    exact ⟨rfl, rfl, rfl, ht⟩

theorem mem_docLinks {s : Sys} {pg : File} {o : Nat} {e : Emit} (h : e ∈ docLinks s pg o) :
    e.row = .docXref ∧ e.page = pg ∧ e.target ∈ (s.ob o).xrefs ∧
      ∃ op, pageObject s o = some op ∧ e.ctx = some (pageFile s op) := by
  unfold docLinks at h
  split at h
  · simp at h
  · split at h
    · simp at h
    · rename_i op hop
      obtain ⟨t, ht, rfl⟩ := List.mem_map.mp h
      exact ⟨rfl, rfl, ht, op, hop, rfl⟩

theorem mem_lateLinks {s : Sys} {pg : File} {o : Nat} {e : Emit} (h : e ∈ lateLinks s pg o) :
    e.row = .fieldXref ∧ e.page = pg ∧ e.target ∈ (s.ob o).laterefs ∧
      ∃ op, pageObject s o = some op ∧ e.ctx = some (pageFile s op) := by
  unfold lateLinks at h
  split at h
  · simp at h
  · split at h
    · simp at h
    · rename_i op hop
      obtain ⟨t, ht, rfl⟩ := List.mem_map.mp h
      exact ⟨rfl, rfl, ht, op, hop, rfl⟩

theorem mem_annLinks {s : Sys} {pg : File} {o : Nat} {e : Emit} (h : e ∈ annLinks s pg o) :
    e.row = .annXref ∧ e.page = pg ∧ e.target ∈ (s.ob o).annrefs ∧
      ∃ op, pageObject s o = some op ∧ e.ctx = some (pageFile s op) := by
  unfold annLinks at h
  split at h
  · simp at h
  · rename_i op hop
    obtain ⟨t, ht, rfl⟩ := List.mem_map.mp h
    exact ⟨rfl, rfl, ht, op, hop, rfl⟩

theorem mem_valLinks {s : Sys} {pg : File} {o : Nat} {e : Emit} (h : e ∈ valLinks s pg o) :
    e.row = .valXref ∧ e.page = pg ∧ e.target ∈ (s.ob o).valrefs ∧
      ∃ op, pageObject s o = some op ∧ e.ctx = some (pageFile s op) := by
  unfold valLinks at h
  split at h
  · simp at h
  · rename_i op hop
    obtain ⟨t, ht, rfl⟩ := List.mem_map.mp h
    exact ⟨rfl, rfl, ht, op, hop, rfl⟩

theorem mem_assemble {s : Sys} {l : List Nat} {i : Nat} (h : i ∈ assemble s l) : visible s i = true := by
  unfold assemble at h
  have := (List.mem_filter.mp h).2
  simp only [Bool.and_eq_true] at this
  exact this.2

theorem mem_overrideInfo {s : Sys} {pf : File} {c : Nat} {nm : Name} {e : Emit} (h : e ∈ overrideInfo s pf c nm) :
    e.page = pf ∧ e.ctx = some pf ∧
      ((e.row = .overrides ∧ ∃ b, b ∈ (s.ob c).mro.drop 1 ∧ member s b nm = some e.target)
       ∨ (e.row = .overriddenIn ∧ visible s e.target = true)) := by
  unfold overrideInfo at h
  split at h
  · simp at h
  rcases List.mem_append.mp h with h | h
  · split at h
    · simp at h
    · rename_i b hb
      split at h
      · simp at h
      · rename_i t ht
        simp only [List.mem_singleton] at h
        subst h
        exact ⟨rfl, rfl, .inl ⟨rfl, b, List.mem_of_find?_eq_some hb, ht⟩⟩
  · obtain ⟨t, ht, rfl⟩ := List.mem_map.mp h
    exact ⟨rfl, rfl, .inr ⟨rfl, mem_assemble ht⟩⟩

theorem mem_sideContent (s : Sys) (pf : File) : ∀ k ob e, e ∈ sideContent s pf k ob →
    e.page = pf ∧ e.ctx = some pf ∧ e.marked = some (isPrivate s e.target) ∧ visible s e.target = true ∧
      ((e.row = .sidebarItem ∧ Desc s ob e.target) ∨ e.row = .sidebarInherited) := by
  intro k
  induction k with
  | zero =>
    intro ob e h
    rw [sideContent] at h
    rcases List.mem_append.mp h with h | h
    · obtain ⟨c, hc, rfl⟩ := List.mem_map.mp h
      obtain ⟨hcc, hcv⟩ := List.mem_filter.mp hc
      exact ⟨rfl, rfl, rfl, hcv, .inl ⟨rfl, .head hcc (.refl _)⟩⟩
    · split at h
      · obtain ⟨c, hc, rfl⟩ := List.mem_map.mp h
        have := (List.mem_filter.mp hc).2
        simp only [Bool.and_eq_true] at this
        exact ⟨rfl, rfl, rfl, this.1, .inr rfl⟩
      · simp at h
  | succ k ih =>
    intro ob e h
    rw [sideContent] at h
    rcases List.mem_append.mp h with h | h
    · obtain ⟨c, hc, he⟩ := List.mem_flatMap.mp h
      obtain ⟨hcc, hcv⟩ := List.mem_filter.mp hc
      rcases List.mem_cons.mp he with rfl | he
      · exact ⟨rfl, rfl, rfl, hcv, .inl ⟨rfl, .head hcc (.refl _)⟩⟩
      · split at he
        · obtain ⟨h1, h2, h3, h4, h5⟩ := ih c e he
          refine ⟨h1, h2, h3, h4, ?_⟩
          rcases h5 with ⟨hr, hd⟩ | hr
          · exact .inl ⟨hr, .head hcc hd⟩
          · exact .inr hr
        · simp at he
    · split at h
      · obtain ⟨c, hc, rfl⟩ := List.mem_map.mp h
        have := (List.mem_filter.mp hc).2
        simp only [Bool.and_eq_true] at this
        exact ⟨rfl, rfl, rfl, this.1, .inr rfl⟩
      · simp at h

theorem mem_moduleSummary (s : Sys) : ∀ f isRoot m e, (isRoot = false → visible s m = true) →
    e ∈ moduleSummary s f isRoot m →
    e.page = .summary .moduleIndex ∧
    ((e.row = .modIndexRoot ∧ isRoot = true ∧ e.target = m ∧ e.ctx = some e.page ∧ e.marked = some (isPrivate s m))
     ∨ (e.row = .modIndex ∧ e.ctx = some e.page ∧ e.marked = some (isPrivate s e.target) ∧ visible s e.target = true
          ∧ Desc s m e.target)
     ∨ (e.row = .modIndexSum ∧ e.ctx = none ∧ ∃ o, (visible s o = true ∨ (isRoot = true ∧ o = m)) ∧ e.target ∈ (s.ob o).xrefs)) := by
  intro f
  induction f with
  | zero => intro isRoot m e _ h; simp [moduleSummary] at h
  | succ f ih =>
    intro isRoot m e hm h
    rw [moduleSummary] at h
    rcases List.mem_cons.mp h with rfl | h
    · cases isRoot with
      | true => exact ⟨rfl, .inl ⟨rfl, rfl, rfl, rfl, rfl⟩⟩
      | false => exact ⟨rfl, .inr (.inl ⟨rfl, rfl, rfl, hm rfl, .refl _⟩)⟩
    · rcases List.mem_append.mp h with h | h
      · obtain ⟨h1, h2, h3, h4⟩ := mem_sumLinks h
        refine ⟨h2, .inr (.inr ⟨h1, h3, m, ?_, h4⟩)⟩
        cases isRoot with
        | true => exact .inr ⟨rfl, rfl⟩
        | false => exact .inl (hm rfl)
      · split at h
        · obtain ⟨c, hc, he⟩ := List.mem_flatMap.mp h
          unfold submodules at hc
          obtain ⟨hcc, hcv⟩ := List.mem_filter.mp hc
          simp only [Bool.and_eq_true] at hcv
          obtain ⟨h1, h2⟩ := ih false c e (fun _ => hcv.2) he
          refine ⟨h1, ?_⟩
          rcases h2 with ⟨_, hf, _⟩ | ⟨hr, hx, hk, hv, hd⟩ | ⟨hr, hx, o, ho, ht⟩
          · cases hf
          · exact .inr (.inl ⟨hr, hx, hk, hv, .head hcc hd⟩)
          · refine .inr (.inr ⟨hr, hx, o, ?_, ht⟩)
            rcases ho with ho | ⟨hf, _⟩
            · exact .inl ho
            · cases hf
        · simp at h

theorem mem_subclassesFrom (s : Sys) : ∀ f c x, x ∈ subclassesFrom s f c → x = c ∨ visible s x = true := by
  intro f
  induction f with
  | zero => intro c x h; simp [subclassesFrom] at h
  | succ f ih =>
    intro c x h
    rw [subclassesFrom] at h
    rcases List.mem_cons.mp h with rfl | h
    · exact .inl rfl
    · obtain ⟨sc, hsc, hx⟩ := List.mem_flatMap.mp h
      have := (List.mem_filter.mp hsc).2
      simp only [Bool.and_eq_true] at this
      rcases ih sc x hx with rfl | hv
      · exact .inr this.2
      · exact .inr hv

theorem mem_rset {r : Roots} {k : List Char} {v : RootVal} {kv : List Char × RootVal} (h : kv ∈ rset r k v) :
    kv ∈ r ∨ kv.2 = v := by
  induction r with
  | nil => simp [rset] at h; exact .inr (by rw [h])
  | cons x r ih =>
    obtain ⟨k', v'⟩ := x
    simp only [rset] at h
    split at h
    · rcases List.mem_cons.mp h with h | h
      · exact .inr (by rw [h])
      · exact .inl (List.mem_cons_of_mem _ h)
    · rcases List.mem_cons.mp h with h | h
      · exact .inl (by rw [h]; exact List.mem_cons_self)
      · rcases ih h with h | h
        · exact .inl (List.mem_cons_of_mem _ h)
        · exact .inr h

theorem rget_mem {r : Roots} {k : List Char} {v : RootVal} (h : rget r k = some v) : ∃ k', (k', v) ∈ r := by
  induction r with
  | nil => simp [rget] at h
  | cons x r ih =>
    obtain ⟨k', v'⟩ := x
    simp only [rget] at h
    split at h
    · injection h with h; subst h; exact ⟨k', List.mem_cons_self⟩
    · obtain ⟨k'', hk⟩ := ih h
      exact ⟨k'', List.mem_cons_of_mem _ hk⟩

/-- every class kept in the `roots` dict is visible -/
def RootsVisible (s : Sys) (r : Roots) : Prop := ∀ kv, kv ∈ r → ∀ c, c ∈ kv.2.classes → visible s c = true

theorem addBase_visible {s : Sys} {r : Roots} {nm : List Char} {c : Nat} (hr : RootsVisible s r)
    (hc : visible s c = true) : RootsVisible s (addBase r nm c) := by
  intro kv hkv x hx
  unfold addBase at hkv
  split at hkv
  · rename_i k hk
    rcases mem_rset hkv with h | h
    · exact hr kv h x hx
    · rw [h] at hx
      obtain ⟨k', hk'⟩ := rget_mem hk
      simp only [RootVal.classes, List.mem_cons, List.not_mem_nil, or_false] at hx
      rcases hx with rfl | rfl
      · exact hr _ hk' _ (by simp [RootVal.classes])
      · exact hc
  · rename_i l hl
    rcases mem_rset hkv with h | h
    · exact hr kv h x hx
    · rw [h] at hx
      obtain ⟨k', hk'⟩ := rget_mem hl
      simp only [RootVal.classes, List.mem_append, List.mem_singleton] at hx
      rcases hx with hx | rfl
      · exact hr _ hk' _ (by simpa [RootVal.classes] using hx)
      · exact hc
  · rcases mem_rset hkv with h | h
    · exact hr kv h x hx
    · rw [h] at hx
      simp only [RootVal.classes, List.mem_singleton] at hx
      exact hx ▸ hc

theorem rootStep_visible {s : Sys} {r : Roots} {c : Nat} (hr : RootsVisible s r) : RootsVisible s (rootStep s r c) := by
  unfold rootStep
  split
  · exact hr
  · rename_i hc
    simp only [Bool.or_eq_true, Bool.not_eq_true', not_or, Bool.not_eq_true, Bool.not_eq_false] at hc
    have hv : visible s c = true := hc.2
    split
    · split
      · rename_i l hl
        intro kv hkv x hx
        rcases mem_rset hkv with h | h
        · exact hr kv h x hx
        · rw [h] at hx
          obtain ⟨k', hk'⟩ := rget_mem hl
          simp only [RootVal.classes, List.mem_append, List.mem_singleton] at hx
          rcases hx with hx | rfl
          · exact hr _ hk' _ (by simpa [RootVal.classes] using hx)
          · exact hv
      · intro kv hkv x hx
        rcases mem_rset hkv with h | h
        · exact hr kv h x hx
        · rw [h] at hx
          simp only [RootVal.classes, List.mem_singleton] at hx
          exact hx ▸ hv
    · generalize ((s.ob c).baseNames.zip (s.ob c).bases) = l
      induction l generalizing r with
      | nil => exact hr
      | cons nb l ih =>
        simp only [List.foldl_cons]
        apply ih
        cases nb.2 with
        | none => exact addBase_visible hr hv
        | some b =>
          simp only
          split
          · exact hr
          · exact addBase_visible hr hv

theorem findRootClasses_visible (s : Sys) : RootsVisible s (findRootClasses s) := by
  unfold findRootClasses
  generalize classes s = l
  have : RootsVisible s [] := by intro kv h; simp at h
  revert this
  generalize ([] : Roots) = r
  induction l generalizing r with
  | nil => intro h; exact h
  | cons c l ih => intro h; exact ih _ (rootStep_visible h)

theorem mem_classIndexListed {s : Sys} {c : Nat} (h : c ∈ classIndexListed s) : visible s c = true := by
  unfold classIndexListed at h
  obtain ⟨kv, hkv, hc⟩ := List.mem_flatMap.mp h
  obtain ⟨r, hr, hc⟩ := List.mem_flatMap.mp hc
  rcases mem_subclassesFrom s _ _ _ hc with rfl | hv
  · exact findRootClasses_visible s kv hkv _ hr
  · exact hv

theorem mem_visibleAll {s : Sys} {o : Nat} (h : o ∈ visibleAll s) : visible s o = true :=
  (List.mem_filter.mp h).2

theorem origin_of_sum {s : Sys} {row : Row} {pg : File} {o : Nat} {e : Emit}
    (hrow : row = .sumCopy ∨ row = .classIndexSum ∨ row = .allDocsSum) (hv : visible s o = true)
    (h : e ∈ sumLinks s row pg o) : Origin s e := by
  obtain ⟨h1, _, h3, h4⟩ := mem_sumLinks h
  rcases hrow with rfl | rfl | rfl <;> (simp only [Origin, h1]; exact ⟨h3, o, hv, h4⟩)

theorem origin_override {s : Sys} {p : Nat} {nm : Name} {e : Emit} (hp : p ∈ pages s)
    (hnm : nm = (s.ob p).name ∨ ∃ c, c ∈ methods s p ∧ nm = (s.ob c).name)
    (h : e ∈ overrideInfo s (pageFile s p) p nm) : Origin s e := by
  obtain ⟨h1, h2, h3⟩ := mem_overrideInfo h
  rcases h3 with ⟨hr, b, hb, ht⟩ | ⟨hr, hv⟩
  · simp only [Origin, hr]; exact ⟨by rw [h2, h1], p, hp, b, nm, hb, ht, hnm⟩
  · simp only [Origin, hr]; exact ⟨by rw [h2, h1], hv⟩

theorem origin_doc {s : Sys} {p o : Nat} {e : Emit} (hp : p ∈ pages s) (ho : o = p ∨ o ∈ methods s p)
    (h : e ∈ docLinks s (pageFile s p) o) : Origin s e := by
  obtain ⟨h1, h2, h3, op, h4, h5⟩ := mem_docLinks h
  simp only [Origin, h1]
  exact ⟨o, op, ⟨p, hp, h2, ho⟩, h3, h4, h5⟩

theorem origin_late {s : Sys} {p o : Nat} {e : Emit} (hp : p ∈ pages s) (ho : o = p ∨ o ∈ methods s p)
    (h : e ∈ lateLinks s (pageFile s p) o) : Origin s e := by
  obtain ⟨h1, h2, h3, op, h4, h5⟩ := mem_lateLinks h
  simp only [Origin, h1]
  exact ⟨o, op, ⟨p, hp, h2, ho⟩, h3, h4, h5⟩

theorem origin_ann {s : Sys} {p o : Nat} {e : Emit} (hp : p ∈ pages s) (ho : o = p ∨ o ∈ methods s p)
    (h : e ∈ annLinks s (pageFile s p) o) : Origin s e := by
  obtain ⟨h1, h2, h3, op, h4, h5⟩ := mem_annLinks h
  simp only [Origin, h1]
  exact ⟨o, op, ⟨p, hp, h2, ho⟩, h3, h4, h5⟩

theorem origin_val {s : Sys} {p o : Nat} {e : Emit} (hp : p ∈ pages s) (ho : o = p ∨ o ∈ methods s p)
    (h : e ∈ valLinks s (pageFile s p) o) : Origin s e := by
  obtain ⟨h1, h2, h3, op, h4, h5⟩ := mem_valLinks h
  simp only [Origin, h1]
  exact ⟨o, op, ⟨p, hp, h2, ho⟩, h3, h4, h5⟩

theorem mem_unmaskedAttrs {s : Sys} {bl : List Nat} {a : Nat} (h : a ∈ unmaskedAttrs s bl) :
    visible s a = true ∧ ∃ b0 rest, bl = b0 :: rest ∧ a ∈ (s.ob b0).contents := by
  cases bl with
  | nil => simp [unmaskedAttrs] at h
  | cons b0 rest =>
    simp only [unmaskedAttrs] at h
    obtain ⟨hc, hv⟩ := List.mem_filter.mp h
    simp only [Bool.and_eq_true] at hv
    exact ⟨hv.1, b0, rest, rfl, hc⟩

theorem mem_classMembers {s : Sys} {c : Nat} {bl attrs : List Nat} (h : (bl, attrs) ∈ classMembers s c) :
    attrs = unmaskedAttrs s bl ∧ attrs ≠ [] ∧ ∃ i, bl = ((s.ob c).mro.take (i+1)).reverse := by
  unfold classMembers at h
  obtain ⟨bl', hbl, hh⟩ := List.mem_filterMap.mp h
  simp only at hh
  split at hh
  · cases hh
  · rename_i hne
    injection hh with hh
    injection hh with h1 h2
    subst h1 h2
    unfold nestedBases at hbl
    obtain ⟨i, _, hi⟩ := List.mem_map.mp hbl
    exact ⟨rfl, by simpa using hne, i, hi.symm⟩

theorem mem_baseLists {s : Sys} {c : Nat} {x : List Nat × List Nat} (h : x ∈ baseLists s c) : x ∈ classMembers s c := by
  unfold baseLists at h
  split at h
  · simp at h
  · rename_i bl a rest heq
    rw [heq]
    split at h
    · exact List.mem_cons_of_mem _ h
    · exact h

theorem mem_take_reverse_dropLast {l : List Nat} {i : Nat} {b0 : Nat} {rest : List Nat} {x : Nat}
    (h : (l.take (i+1)).reverse = b0 :: rest) (hx : x ∈ rest.dropLast.reverse) : x ∈ l := by
  have h1 : x ∈ rest := List.dropLast_subset _ (List.mem_reverse.mp hx)
  have h2 : x ∈ (l.take (i+1)).reverse := by rw [h]; exact List.mem_cons_of_mem _ h1
  exact List.mem_of_mem_take (List.mem_reverse.mp h2)

theorem origin_page {s : Sys} {p : Nat} {e : Emit} (hp : p ∈ pages s) (h : e ∈ pageEmits s p) : Origin s e := by
  unfold pageEmits at h
  simp only [List.mem_append] at h
  rcases h with (((((((h | h) | h) | h) | h) | h) | h) | h) | h
  · -- heading
    unfold headingLinks at h
    obtain ⟨a, ha, rfl⟩ := List.mem_map.mp h
    obtain ⟨hc, ho⟩ := List.mem_filter.mp ha
    simp only [Origin, link]
    exact ⟨trivial, ho, p, hp, rfl, hc⟩
  · -- class extras
    split at h
    · simp only [List.mem_append] at h
      rcases h with ((h | h) | h) | h
      · obtain ⟨t, ht, he⟩ := List.mem_filterMap.mp h
        cases t with
        | none => simp at he
        | some t =>
          simp only [Option.map_some, Option.some.injEq] at he
          subst he
          simp only [Origin, link]
          exact ⟨trivial, p, hp, ht⟩
      · obtain ⟨t, ht, rfl⟩ := List.mem_map.mp h
        simp only [Origin, link]
        exact ⟨trivial, mem_assemble ht⟩
      · exact origin_override hp (.inl rfl) h
      · obtain ⟨t, ht, rfl⟩ := List.mem_map.mp h
        simp only [Origin, link]
        exact ⟨trivial, p, hp, ht⟩
    · simp at h
  · exact origin_doc hp (.inl rfl) h
  · exact origin_late hp (.inl rfl) h
  · -- main table
    obtain ⟨c, hc, he⟩ := List.mem_flatMap.mp h
    have hcv : c ∈ (s.ob p).contents ∧ visible s c = true := by
      unfold tableChildren at hc
      split at hc
      · unfold submodules at hc
        obtain ⟨h1, h2⟩ := List.mem_filter.mp hc
        simp only [Bool.and_eq_true] at h2
        exact ⟨h1, h2.2⟩
      · exact List.mem_filter.mp hc
    rcases List.mem_cons.mp he with rfl | he
    · simp only [Origin, entry]
      exact ⟨trivial, trivial, hcv.2, p, hp, rfl, hcv.1⟩
    · exact origin_of_sum (.inl rfl) hcv.2 he
  · -- inherited-member tables
    split at h
    · obtain ⟨⟨bl, attrs⟩, hx, he⟩ := List.mem_flatMap.mp h
      obtain ⟨hattrs, hne, i, hbl⟩ := mem_classMembers (mem_baseLists hx)
      simp only [List.mem_append] at he
      rcases he with he | he
      · cases bl with
        | nil => simp at he
        | cons b0 rest =>
          simp only at he
          rcases List.mem_cons.mp he with rfl | he
          · -- the source base has a visible member
            simp only [Origin, link]
            refine ⟨trivial, ?_⟩
            cases hat : attrs with
            | nil => exact absurd hat hne
            | cons a as =>
              have ha : a ∈ unmaskedAttrs s (b0 :: rest) := by rw [← hattrs, hat]; exact List.mem_cons_self
              obtain ⟨hv, b0', rest', hb, hc⟩ := mem_unmaskedAttrs ha
              injection hb with hb1 _
              subst hb1
              exact ⟨a, hc, hv⟩
          · obtain ⟨x, hx', rfl⟩ := List.mem_map.mp he
            simp only [Origin, link]
            exact ⟨trivial, p, hp, mem_take_reverse_dropLast hbl.symm hx'⟩
      · obtain ⟨c, hc, he⟩ := List.mem_flatMap.mp he
        have hv : visible s c = true := (mem_unmaskedAttrs (hattrs ▸ hc)).1
        rcases List.mem_cons.mp he with rfl | he
        · simp only [Origin, entry]
          exact ⟨trivial, trivial, hv⟩
        · exact origin_of_sum (.inl rfl) hv he
    · simp at h
  · -- package __init__ table
    obtain ⟨c, hc, he⟩ := List.mem_flatMap.mp h
    have hcv : c ∈ (s.ob p).contents ∧ visible s c = true := by
      unfold initChildren at hc
      split at hc
      · obtain ⟨h1, h2⟩ := List.mem_filter.mp hc
        simp only [Bool.and_eq_true] at h2
        exact ⟨h1, h2.2⟩
      · simp at hc
    rcases List.mem_cons.mp he with rfl | he
    · simp only [Origin, entry]
      exact ⟨trivial, trivial, hcv.2, p, hp, rfl, hcv.1⟩
    · exact origin_of_sum (.inl rfl) hcv.2 he
  · -- member details
    obtain ⟨c, hc, he⟩ := List.mem_flatMap.mp h
    have hcv := (mem_methods.mp hc).2.2
    rcases List.mem_cons.mp he with rfl | he
    · simp only [Origin, entry]
      exact ⟨trivial, hcv, p, hp, rfl, hc⟩
    · simp only [List.mem_append] at he
      rcases he with (((he | he) | he) | he) | he
      · split at he
        · exact origin_override hp (.inr ⟨c, hc, rfl⟩) he
        · simp at he
      · exact origin_doc hp (.inr hc) he
      · exact origin_late hp (.inr hc) he
      · exact origin_ann hp (.inr hc) he
      · exact origin_val hp (.inr hc) he
  · -- sidebar
    unfold sidebarEmits at h
    split at h
    · simp at h
    · obtain ⟨sec, hsec, he⟩ := List.mem_flatMap.mp h
      have hsec' : sec = p ∨ (s.ob p).parent = some sec ∨ (s.ob p).modul = some sec := by
        unfold sideSections at hsec
        rcases List.mem_cons.mp hsec with rfl | hsec
        · exact .inl rfl
        · split at hsec
          · split at hsec
            · simp at hsec
            · rename_i q hq
              simp only [List.mem_singleton] at hsec
              subst hsec
              exact .inr (.inl hq)
          · split at hsec
            · simp at hsec
            · rename_i m hm
              simp only [List.mem_singleton] at hsec
              subst hsec
              exact .inr (.inr hm)
      rcases List.mem_cons.mp he with rfl | he
      · simp only [Origin, link]
        exact ⟨trivial, p, hp, rfl, hsec'⟩
      · obtain ⟨h1, h2, h3, h4, h5⟩ := mem_sideContent s _ _ _ _ he
        rcases h5 with ⟨hr, hd⟩ | hr
        · simp only [Origin, hr]
          refine ⟨by rw [h2, h1], h3, h4, p, hp, h1, sec, ?_, hd⟩
          exact hsec'
        · simp only [Origin, hr]
          exact ⟨by rw [h2, h1], h3, h4⟩

theorem origin_summary {s : Sys} {e : Emit} (h : e ∈ summaryEmits s) : Origin s e := by
  unfold summaryEmits at h
  simp only [List.mem_append] at h
  rcases h with ((((h | h) | h) | h) | h) | h
  · -- module index
    obtain ⟨r, hr', he⟩ := List.mem_flatMap.mp h
    obtain ⟨hr, hrv⟩ := List.mem_filter.mp hr'
    obtain ⟨h1, h2⟩ := mem_moduleSummary s _ true r e (by simp) he
    rcases h2 with ⟨hrow, _, ht, hc, hm⟩ | ⟨hrow, hc, hm, hv, hd⟩ | ⟨hrow, hc, o, ho, ht⟩
    · simp only [Origin, hrow]
      exact ⟨hc, by rw [hm, ht], by rw [ht]; exact hr, by rw [ht]; exact hrv⟩
    · simp only [Origin, hrow]
      exact ⟨hc, hm, hv, r, hr, hd⟩
    · simp only [Origin, hrow]
      refine ⟨hc, o, ?_, ht⟩
      rcases ho with ho | ⟨_, rfl⟩
      · exact .inl ho
      · exact .inr hr
  · -- class index
    unfold classIndexEmits at h
    obtain ⟨c, hc, he⟩ := List.mem_flatMap.mp h
    have hv := mem_classIndexListed hc
    rcases List.mem_cons.mp he with rfl | he
    · simp only [Origin, entry]; exact ⟨trivial, hv, trivial⟩
    · exact origin_of_sum (.inr (.inl rfl)) hv he
  · obtain ⟨o, ho, rfl⟩ := List.mem_map.mp h
    simp only [Origin, entry]; exact ⟨trivial, mem_visibleAll ho, trivial⟩
  · obtain ⟨o, ho, rfl⟩ := List.mem_map.mp h
    simp only [Origin, entry]; exact ⟨trivial, mem_visibleAll (List.mem_filter.mp ho).1, trivial⟩
  · split at h
    · obtain ⟨o, ho, rfl⟩ := List.mem_map.mp h
      obtain ⟨ho1, ho2⟩ := List.mem_filter.mp ho
      simp only [Origin, link]; exact ⟨trivial, ho1, ho2⟩
    · simp at h
  · obtain ⟨o, ho, he⟩ := List.mem_flatMap.mp h
    have hv := mem_visibleAll ho
    rcases List.mem_cons.mp he with rfl | he
    · simp only [Origin, entry]; exact ⟨trivial, trivial, hv⟩
    · exact origin_of_sum (.inr (.inr rfl)) hv he

/-- every `taglink` call / listing entry is made by its row's code path -/
theorem origin {s : Sys} {e : Emit} (h : e ∈ requests s) : Origin s e := by
  unfold requests at h
  rcases List.mem_append.mp h with h | h
  · obtain ⟨p, hp, he⟩ := List.mem_flatMap.mp h
    exact origin_page hp he
  · exact origin_summary h
/-! ### C11: links resolve -/

theorem Desc.trans {s : Sys} {a b c : Nat} (h1 : Desc s a b) (h2 : Desc s b c) : Desc s a c := by
  induction h1 with
  | refl i => exact h2
  | head hm _ ih => exact .head hm (ih h2)

theorem reachable_desc {s : Sys} {a t : Nat} (h : reachable s a) (hd : Desc s a t) : reachable s t := by
  obtain ⟨r, hr, hra⟩ := h
  exact ⟨r, hr, hra.trans hd⟩

theorem lt_of_not_hidden {s : Sys} {i : Nat} (h : (s.ob i).privacy ≠ .hidden) : i < s.n := by
  rcases Nat.lt_or_ge i s.n with h' | h'
  · exact h'
  · rw [ob_default h'] at h; exact absurd rfl h

/-- since cb98646 a visible object is its parent's `contents` entry, all the way up to a root: visible
objects are reached through `contents` (a superseded duplicate `'x 0'`, and everything inside it, is not
visible any more) -/
theorem visible_reachable {s : Sys} (w : WF s) : ∀ f i, visibleAux s f i = true → reachable s i := by
  intro f
  induction f with
  | zero => intro i h; simp [visibleAux] at h
  | succ f ih =>
    intro i h
    rw [visibleAux_step] at h
    simp only [Bool.and_eq_true, bne_iff_ne, ne_eq] at h
    have hi := lt_of_not_hidden h.1
    cases hp : (s.ob i).parent with
    | none => exact ⟨i, w.orphan_root i hi hp, .refl i⟩
    | some p =>
      have h2 := h.2
      simp only [hp, Bool.and_eq_true, beq_iff_eq] at h2
      have hc : i ∈ (s.ob p).contents := by
        have := h2.1
        unfold member at this
        exact List.mem_of_find?_eq_some this
      exact reachable_child (ih p h2.2) hc

theorem reachable_of_visible {s : Sys} (w : WF s) {i : Nat} (h : visible s i = true) : reachable s i :=
  visible_reachable w _ i h

/-- a superseded duplicate (`'x 0'`: registered, but not in its parent's `contents`) is not reached -/
theorem superseded_not_reachable {s : Sys} (w : WF s) {i : Nat} (h : superseded s i = true) : ¬ reachable s i := by
  intro hr
  unfold superseded at h
  rcases reachable_cases w hr with ⟨hroot, hp⟩ | ⟨p, hp, _, hc⟩
  · simp [hp, hroot] at h
  · simp [hp, hc] at h

/-- an ancestor (through `contents`) of a reached object is reached -/
theorem reachable_of_desc {s : Sys} (w : WF s) {a i : Nat} (hd : Desc s a i) (hr : reachable s i) : reachable s a := by
  induction hd with
  | refl i => exact hr
  | @head a c i hm _ ih => exact reachable_parent w (ih hr) (w.contents_parent a c hm)

/-- nor is anything inside one -/
theorem inside_superseded_not_reachable {s : Sys} (w : WF s) {a i : Nat} (h : superseded s a = true)
    (hd : Desc s a i) : ¬ reachable s i :=
  fun hr => superseded_not_reachable w h (reachable_of_desc w hd hr)

/-- **C11 (fixed in cb98646)** a superseded duplicate, and everything inside it, is not visible: nothing
lists it or links it any more -/
theorem superseded_invisible {s : Sys} (w : WF s) {a i : Nat} (h : superseded s a = true) (hd : Desc s a i) :
    visible s i = false := by
  cases hv : visible s i with
  | false => rfl
  | true => exact absurd (reachable_of_visible w hv) (inside_superseded_not_reachable w h hd)

/-- **C11** `url o` leads to a written file (and anchor) exactly for the visible objects -/
theorem url_resolves_iff_visible {s : Sys} (w : WF s) {i : Nat} (hi : i < s.n)
    (hx : ¬ (pageFile s i = .index ∧ hasIndexPage s = true)) :
    urlResolves s i = true ↔ visible s i = true := by
  rw [url_resolves_iff w hi]
  constructor
  · rintro (h | ⟨_, h⟩)
    · exact h.1
    · exact absurd h hx
  · exact fun h => .inl ⟨h, reachable_of_visible w h⟩

/-- under `WF`, `parentMod` is one of the object's containers (or the object), and a module -/
theorem module_in_chain {s : Sys} (w : WF s) {p m : Nat} (hp : p < s.n) (h : (s.ob p).modul = some m) :
    m ∈ chain s p ∧ (s.ob m).kind.isModule = true := by
  rw [w.modules p hp] at h
  unfold moduleByChain at h
  exact ⟨List.mem_of_find?_eq_some h, by simpa using List.find?_some h⟩

/-- same-page shortening does not change where a link leads, as long as the link is written into the
page the shortening was computed for (`fragment_consistent`: `#name` against `<a name=name>`) -/
theorem shorten_resolves (s : Sys) (pg : File) (u : Url) (ctx : Option File)
    (h : ctx = none ∨ ctx = some pg ∨ u.frag = none) :
    resolvesHref s pg (shorten u ctx) = resolvesHref s pg ⟨some u.file, u.frag⟩ := by
  unfold shorten
  cases ctx with
  | none => rfl
  | some c =>
    cases hf : u.frag with
    | none => rfl
    | some fr =>
      rcases h with h | h | h
      · cases h
      · injection h with h
        subst h
        simp only
        split
        · rename_i he
          simp [resolvesHref, resolvesHrefIn, he]
        · rfl
      · rw [hf] at h; cases h

/-- the link's shortening context fits the page it is written into -/
def ctxOk (s : Sys) (e : Emit) : Prop :=
  e.ctx = none ∨ e.ctx = some e.page ∨ (s.ob e.target).kind.ownPage = true

/-- a link to a visible object, shortened for the page it is written into, resolves -/
theorem resolves_of_visible {s : Sys} (w : WF s) (e : Emit) (hv : visible s e.target = true)
    (hc : ctxOk s e) : resolves s e = true := by
  have hi := visible_lt hv
  have hu := (url_resolves_iff w hi).mpr (.inl ⟨hv, reachable_of_visible w hv⟩)
  unfold resolves resolvesIn href
  unfold urlResolves at hu
  cases hurl : url s e.target with
  | none => rw [hurl] at hu; cases hu
  | some u =>
    rw [hurl] at hu
    simp only [Option.map_some, Bool.or_eq_true, Bool.not_eq_true']
    right
    show resolvesHref s e.page (shorten u e.ctx) = true
    rw [shorten_resolves]
    · rw [resolvesHref_full] at hu ⊢; exact hu
    · rcases hc with h | h | h
      · exact .inl h
      · exact .inr (.inl h)
      · rw [url_own h] at hurl
        injection hurl with hurl
        subst hurl
        exact .inr (.inr rfl)

/-- the page of an object displayed on a written page is that page -/
theorem shown_page {s : Sys} (w : WF s) {pg : File} {o op : Nat} (h : Shown s pg o) (hp : pageObject s o = some op) :
    pageFile s op = pg := by
  obtain ⟨p, hpp, rfl, ho | ho⟩ := h
  · subst ho
    have hown := ((mem_pages_iff w o).mp hpp).2.2
    simp [pageObject, hown] at hp
    rw [hp]
  · obtain ⟨hc, hk, _⟩ := mem_methods.mp ho
    simp [pageObject, hk, w.contents_parent p o hc] at hp
    rw [hp]

/-- every `taglink` call is made with the address of the page the link is written into (or none), or for
a target that has its own page (since 1da744b also for docstrings that are inherited or whose object was
re-exported) -/
theorem ctx_ok {s : Sys} (w : WF s) {e : Emit} (h : e ∈ requests s) (hl : e.row.isLink = true) : ctxOk s e := by
  have ho := origin h
  cases hrow : e.row <;> simp only [Origin, hrow] at ho <;>
    (first | exact .inr (.inl ho.1) | exact .inl ho.1 | skip)
  case detail => rw [hrow] at hl; cases hl
  case valXref =>
    obtain ⟨o, op, hs, _, hpo, hc⟩ := ho
    exact .inr (.inl (by rw [hc, shown_page w hs hpo]))
  case sidebarTitle =>
    obtain ⟨_, p, hp, _, ht⟩ := ho
    have hpp := (mem_pages_iff w p).mp hp
    rcases ht with ht | ht | ht
    · exact .inr (.inr (ht ▸ hpp.2.2))
    · exact .inr (.inr (w.parent_page p _ (visible_lt hpp.2.1) ht))
    · exact .inr (.inr (Kind.ownPage_of_isModule (module_in_chain w (visible_lt hpp.2.1) ht).2))
  case docXref =>
    obtain ⟨o, op, hs, _, hpo, hc⟩ := ho
    exact .inr (.inl (by rw [hc, shown_page w hs hpo]))
  case fieldXref =>
    obtain ⟨o, op, hs, _, hpo, hc⟩ := ho
    exact .inr (.inl (by rw [hc, shown_page w hs hpo]))
  case annXref =>
    obtain ⟨o, op, hs, _, hpo, hc⟩ := ho
    exact .inr (.inl (by rw [hc, shown_page w hs hpo]))

/-- what `taglink`'s guard leaves of the requests: a request for a visible target unchanged, or a listing
element written without its link -/
theorem mem_emits {s : Sys} {e : Emit} (h : e ∈ emits s) :
    (e ∈ requests s ∧ visible s e.target = true) ∨
      (e.linked = false ∧ visible s e.target = false ∧
        ∃ r, r ∈ requests s ∧ r.row.isEntry = true ∧ r.row = e.row ∧ r.target = e.target ∧ r.marked = e.marked) := by
  unfold emits at h
  obtain ⟨r, hr, hg⟩ := List.mem_filterMap.mp h
  unfold taglinkGuard at hg
  split at hg
  · injection hg with hg; subst hg; rename_i hv; exact .inl ⟨hr, hv⟩
  · rename_i hv
    split at hg
    · rename_i hrow
      injection hg with hg
      subst hg
      exact .inr ⟨rfl, by simpa using hv, r, hr, hrow, rfl, rfl, rfl⟩
    · cases hg

/-- **C11, every producer row (30), full strength.** Every hyperlink the run emits leads to a file that
was written and, if it has a fragment, to an anchor of that file.
(Before cb98646 / aaed9bd / 1da744b / f972163 / 0ff33e4 this was false in five ways: see the `…_old` counterexamples.) -/
theorem links_resolve {s : Sys} (w : WF s) {e : Emit} (h : e ∈ emits s) : resolves s e = true := by
  rcases mem_emits h with ⟨hr, hv⟩ | ⟨hl, _⟩
  · cases hlink : e.row.isLink with
    | false => simp [resolves, resolvesIn, hlink]
    | true => exact resolves_of_visible w e hv (ctx_ok w hr hlink)
  · simp [resolves, resolvesIn, hl]


/-! ### "View In Hierarchy": every class page's anchor is in classIndex.html -/

/-- the class is kept in the `roots` dict of `findRootClasses` -/
def Stored (r : Roots) (x : Nat) : Prop := ∃ kv, kv ∈ r ∧ x ∈ kv.2.classes

def KeysNodup (r : Roots) : Prop := (r.map (·.1)).Nodup

/-- a class stored on its own is stored under its qualified name -/
def OnesKeyed (s : Sys) (r : Roots) : Prop := ∀ k x, (k, RootVal.one x) ∈ r → k = fullName s x ∧ x < s.n

theorem rget_of_mem {r : Roots} (hn : KeysNodup r) {k : List Char} {v : RootVal} (h : (k, v) ∈ r) : rget r k = some v := by
  induction r with
  | nil => simp at h
  | cons x r ih =>
    obtain ⟨k', v'⟩ := x
    unfold KeysNodup at hn
    simp only [List.map_cons, List.nodup_cons] at hn
    simp only [rget]
    rcases List.mem_cons.mp h with h | h
    · injection h with h1 h2; subst h1 h2; simp
    · have hne : k' ≠ k := by
        intro he; subst he
        exact hn.1 (List.mem_map.mpr ⟨(k', v), h, rfl⟩)
      simp only [hne, if_false]
      exact ih hn.2 h

theorem mem_rset' {r : Roots} {k : List Char} {v : RootVal} {kv : List Char × RootVal} (h : kv ∈ rset r k v) :
    kv ∈ r ∨ kv = (k, v) := by
  induction r with
  | nil => simp [rset] at h; exact .inr h
  | cons x r ih =>
    obtain ⟨k', v'⟩ := x
    simp only [rset] at h
    split at h
    · rename_i hk
      rcases List.mem_cons.mp h with h | h
      · exact .inr (by rw [h, hk])
      · exact .inl (List.mem_cons_of_mem _ h)
    · rcases List.mem_cons.mp h with h | h
      · exact .inl (by rw [h]; exact List.mem_cons_self)
      · rcases ih h with h | h
        · exact .inl (List.mem_cons_of_mem _ h)
        · exact .inr h

theorem rset_keeps {r : Roots} {k : List Char} {v : RootVal} {kv : List Char × RootVal} (h : kv ∈ r) (hne : kv.1 ≠ k) :
    kv ∈ rset r k v := by
  induction r with
  | nil => simp at h
  | cons x r ih =>
    obtain ⟨k', v'⟩ := x
    simp only [rset]
    split
    · rename_i hk
      rcases List.mem_cons.mp h with h | h
      · subst h; exact absurd hk hne
      · exact List.mem_cons_of_mem _ h
    · rcases List.mem_cons.mp h with h | h
      · subst h; exact List.mem_cons_self
      · exact List.mem_cons_of_mem _ (ih h)

theorem rset_has (r : Roots) (k : List Char) (v : RootVal) : (k, v) ∈ rset r k v := by
  induction r with
  | nil => simp [rset]
  | cons x r ih =>
    obtain ⟨k', v'⟩ := x
    simp only [rset]
    split
    · rename_i hk; rw [hk]; exact List.mem_cons_self
    · exact List.mem_cons_of_mem _ ih

theorem rset_keys (r : Roots) (k : List Char) (v : RootVal) :
    (rset r k v).map (·.1) = if k ∈ r.map (·.1) then r.map (·.1) else r.map (·.1) ++ [k] := by
  induction r with
  | nil => simp [rset]
  | cons x r ih =>
    obtain ⟨k', v'⟩ := x
    simp only [rset]
    by_cases hk : k' = k
    · simp [hk]
    · simp only [hk, if_false, List.map_cons, ih, List.mem_cons]
      have : ¬ k = k' := fun h => hk h.symm
      by_cases hm : k ∈ r.map (·.1)
      · simp [hm]
      · simp [hm, this]

theorem rset_nodup {r : Roots} (hn : KeysNodup r) (k : List Char) (v : RootVal) : KeysNodup (rset r k v) := by
  unfold KeysNodup at *
  rw [rset_keys]
  split
  · exact hn
  · rename_i hk
    exact List.nodup_append.mpr ⟨hn, by simp, by
      intro a ha b hb
      simp only [List.mem_singleton] at hb
      subst hb
      intro he; subst he; exact hk ha⟩

theorem stored_rset {r : Roots} (hn : KeysNodup r) {k : List Char} {v : RootVal} {x : Nat} (h : Stored r x)
    (hsup : ∀ v0, rget r k = some v0 → ∀ y, y ∈ v0.classes → y ∈ v.classes) : Stored (rset r k v) x := by
  obtain ⟨kv, hkv, hx⟩ := h
  by_cases hk : kv.1 = k
  · have : rget r k = some kv.2 := by
      apply rget_of_mem hn
      rw [← hk]
      exact hkv
    exact ⟨(k, v), rset_has r k v, hsup _ this _ hx⟩
  · exact ⟨kv, rset_keeps hkv hk, hx⟩

theorem stored_rset_new (r : Roots) (k : List Char) {v : RootVal} {x : Nat} (hx : x ∈ v.classes) : Stored (rset r k v) x :=
  ⟨(k, v), rset_has r k v, hx⟩

/-- the invariant of the `roots` dict -/
structure RootsInv (s : Sys) (r : Roots) : Prop where
  nodup : KeysNodup r
  ones : OnesKeyed s r

theorem onesKeyed_rset_many {s : Sys} {r : Roots} (h : OnesKeyed s r) (k : List Char) (l : List Nat) :
    OnesKeyed s (rset r k (.many l)) := by
  intro k' x hm
  rcases mem_rset' hm with hm | hm
  · exact h k' x hm
  · injection hm with _ h2; cases h2

theorem addBase_inv {s : Sys} {r : Roots} (h : RootsInv s r) (nm : List Char) (c : Nat) : RootsInv s (addBase r nm c) := by
  unfold addBase
  split <;> exact ⟨rset_nodup h.nodup _ _, onesKeyed_rset_many h.ones _ _⟩

theorem addBase_stored_keep {s : Sys} {r : Roots} (h : RootsInv s r) (nm : List Char) (c : Nat) {x : Nat}
    (hx : Stored r x) : Stored (addBase r nm c) x := by
  unfold addBase
  split
  · rename_i k hk
    exact stored_rset h.nodup hx (by
      intro v0 hv0 y hy
      rw [hk] at hv0; injection hv0 with hv0; subst hv0
      simp only [RootVal.classes, List.mem_singleton] at hy
      simp [RootVal.classes, hy])
  · rename_i l hl
    exact stored_rset h.nodup hx (by
      intro v0 hv0 y hy
      rw [hl] at hv0; injection hv0 with hv0; subst hv0
      simp only [RootVal.classes] at hy ⊢
      exact List.mem_append_left _ hy)
  · rename_i hnone
    exact stored_rset h.nodup hx (by
      intro v0 hv0
      rw [hnone] at hv0; cases hv0)

theorem addBase_stored_new (r : Roots) (nm : List Char) (c : Nat) : Stored (addBase r nm c) c := by
  unfold addBase
  split <;> exact stored_rset_new _ _ (by simp [RootVal.classes])


theorem rget_mem' {r : Roots} {k : List Char} {v : RootVal} (h : rget r k = some v) : (k, v) ∈ r := by
  induction r with
  | nil => simp [rget] at h
  | cons x r ih =>
    obtain ⟨k', v'⟩ := x
    simp only [rget] at h
    split at h
    · rename_i hk; injection h with h; subst h; rw [hk]; exact List.mem_cons_self
    · exact List.mem_cons_of_mem _ (ih h)

/-- the body of the loop over `zip(cls.bases, cls.baseobjects)` -/
def baseStep (s : Sys) (c : Nat) (r : Roots) (nb : Name × Option Nat) : Roots :=
  match nb.2 with
  | none => addBase r nb.1 c
  | some b => if visible s b then r else addBase r nb.1 c

theorem baseStep_inv {s : Sys} {c : Nat} {r : Roots} (h : RootsInv s r) (nb : Name × Option Nat) :
    RootsInv s (baseStep s c r nb) := by
  unfold baseStep
  split
  · exact addBase_inv h _ _
  · split
    · exact h
    · exact addBase_inv h _ _

theorem baseStep_keep {s : Sys} {c : Nat} {r : Roots} (h : RootsInv s r) (nb : Name × Option Nat) {x : Nat}
    (hx : Stored r x) : Stored (baseStep s c r nb) x := by
  unfold baseStep
  split
  · exact addBase_stored_keep h _ _ hx
  · split
    · exact hx
    · exact addBase_stored_keep h _ _ hx

theorem foldl_baseStep {s : Sys} {c : Nat} : ∀ (l : List (Name × Option Nat)) (r : Roots), RootsInv s r →
    RootsInv s (l.foldl (baseStep s c) r) ∧ ∀ x, Stored r x → Stored (l.foldl (baseStep s c) r) x := by
  intro l
  induction l with
  | nil => intro r h; exact ⟨h, fun _ hx => hx⟩
  | cons nb l ih =>
    intro r h
    simp only [List.foldl_cons]
    obtain ⟨h1, h2⟩ := ih _ (baseStep_inv h nb)
    exact ⟨h1, fun x hx => h2 x (baseStep_keep h nb hx)⟩

theorem rootStep_eq (s : Sys) (r : Roots) (c : Nat) :
    rootStep s r c =
      if hasSpace (s.ob c).name || !visible s c then r
      else if (s.ob c).baseNames.isEmpty then
        match rget r (fullName s c) with
        | some (.many l) => rset r (fullName s c) (.many (l ++ [c]))
        | _ => rset r (fullName s c) (.one c)
      else ((s.ob c).baseNames.zip (s.ob c).bases).foldl (baseStep s c) r := by
  rfl

theorem rootStep_inv {s : Sys} {r : Roots} (h : RootsInv s r) (c : Nat) : RootsInv s (rootStep s r c) := by
  rw [rootStep_eq]
  split
  · exact h
  · rename_i hc
    simp only [Bool.or_eq_true, Bool.not_eq_true', not_or, Bool.not_eq_true, Bool.not_eq_false] at hc
    split
    · split
      · exact ⟨rset_nodup h.nodup _ _, onesKeyed_rset_many h.ones _ _⟩
      · refine ⟨rset_nodup h.nodup _ _, ?_⟩
        intro k x hm
        rcases mem_rset' hm with hm | hm
        · exact h.ones k x hm
        · injection hm with h1 h2
          injection h2 with h2
          subst h1 h2
          exact ⟨rfl, visible_lt hc.2⟩
    · exact (foldl_baseStep _ _ h).1

theorem rootStep_keep {s : Sys} (w : WF s) {r : Roots} (h : RootsInv s r) (c : Nat) {x : Nat} (hx : Stored r x) :
    Stored (rootStep s r c) x := by
  rw [rootStep_eq]
  split
  · exact hx
  · rename_i hc
    simp only [Bool.or_eq_true, Bool.not_eq_true', not_or, Bool.not_eq_true, Bool.not_eq_false] at hc
    split
    · split
      · rename_i l hl
        exact stored_rset h.nodup hx (by
          intro v0 hv0 y hy
          rw [hl] at hv0; injection hv0 with hv0; subst hv0
          simp only [RootVal.classes] at hy ⊢
          exact List.mem_append_left _ hy)
      · rename_i hnot
        exact stored_rset h.nodup hx (by
          intro v0 hv0 y hy
          cases v0 with
          | many l => exact absurd hv0 (hnot l)
          | one k' =>
            simp only [RootVal.classes, List.mem_singleton] at hy ⊢
            obtain ⟨hk, hlt⟩ := h.ones _ _ (rget_mem' hv0)
            rw [hy]
            exact w.names k' c hlt (visible_lt hc.2) hk.symm)
    · exact (foldl_baseStep _ _ h).2 x hx

theorem visBases_nil {s : Sys} {c : Nat} (h : visBases s c = []) {b : Nat} (hb : some b ∈ (s.ob c).bases) :
    visible s b = false := by
  unfold visBases at h
  have := List.filterMap_eq_nil_iff.mp h (some b) hb
  simp only at this
  cases hv : visible s b with
  | false => rfl
  | true => simp [hv] at this

/-- a listed class without a visible resolved base is put into the dict by its own loop iteration -/
theorem rootStep_adds {s : Sys} {r : Roots} (h : RootsInv s r) {c : Nat} (hv : visible s c = true)
    (hns : hasSpace (s.ob c).name = false) (hlen : (s.ob c).bases.length = (s.ob c).baseNames.length)
    (hvb : visBases s c = []) : Stored (rootStep s r c) c := by
  rw [rootStep_eq]
  simp only [hns, hv, Bool.not_true, Bool.or_self, Bool.false_eq_true, if_false]
  split
  · split
    · exact stored_rset_new _ _ (by simp [RootVal.classes])
    · exact stored_rset_new _ _ (by simp [RootVal.classes])
  · rename_i hne
    cases hz : (s.ob c).baseNames.zip (s.ob c).bases with
    | nil =>
      exfalso
      have hl := congrArg List.length hz
      simp only [List.length_zip, List.length_nil] at hl
      rw [hlen, Nat.min_self] at hl
      exact hne (by simpa using List.eq_nil_of_length_eq_zero hl)
    | cons nb l =>
      simp only [List.foldl_cons]
      have hnb : nb ∈ (s.ob c).baseNames.zip (s.ob c).bases := by rw [hz]; exact List.mem_cons_self
      have hfirst : Stored (baseStep s c r nb) c := by
        unfold baseStep
        split
        · exact addBase_stored_new _ _ _
        · rename_i b hb
          have hmem : some b ∈ (s.ob c).bases := by
            have := (List.of_mem_zip (show (nb.1, nb.2) ∈ _ from hnb)).2
            rw [hb] at this; exact this
          rw [visBases_nil hvb hmem]
          simp only [Bool.false_eq_true, if_false]
          exact addBase_stored_new _ _ _
      exact (foldl_baseStep l _ (baseStep_inv h nb)).2 c hfirst

theorem foldl_rootStep {s : Sys} (w : WF s) : ∀ (l : List Nat) (r : Roots), RootsInv s r →
    RootsInv s (l.foldl (rootStep s) r) ∧ ∀ x, Stored r x → Stored (l.foldl (rootStep s) r) x := by
  intro l
  induction l with
  | nil => intro r h; exact ⟨h, fun _ hx => hx⟩
  | cons c l ih =>
    intro r h
    simp only [List.foldl_cons]
    obtain ⟨h1, h2⟩ := ih _ (rootStep_inv h c)
    exact ⟨h1, fun x hx => h2 x (rootStep_keep w h c hx)⟩

theorem stored_of_no_visBase {s : Sys} (w : WF s) {c : Nat} (hc : c ∈ classes s) (hv : visible s c = true)
    (hns : hasSpace (s.ob c).name = false) (hlen : (s.ob c).bases.length = (s.ob c).baseNames.length)
    (hvb : visBases s c = []) : Stored (findRootClasses s) c := by
  unfold findRootClasses
  obtain ⟨pre, post, hsplit⟩ := List.append_of_mem hc
  rw [hsplit, List.foldl_append, List.foldl_cons]
  have h0 : RootsInv s [] := ⟨by simp [KeysNodup], by intro k x h; simp at h⟩
  have h1 := (foldl_rootStep w pre [] h0).1
  exact (foldl_rootStep w post _ (rootStep_inv h1 c)).2 c (rootStep_adds h1 hv hns hlen hvb)

/-! `subclassesFrom` -/

theorem sf_self (s : Sys) (f c : Nat) : c ∈ subclassesFrom s (f+1) c := by
  rw [subclassesFrom]; exact List.mem_cons_self

theorem sf_mono (s : Sys) : ∀ f c x, x ∈ subclassesFrom s f c → x ∈ subclassesFrom s (f+1) c := by
  intro f
  induction f with
  | zero => intro c x h; simp [subclassesFrom] at h
  | succ f ih =>
    intro c x h
    rw [subclassesFrom] at h ⊢
    rcases List.mem_cons.mp h with h | h
    · exact h ▸ List.mem_cons_self
    · obtain ⟨sc, hsc, hx⟩ := List.mem_flatMap.mp h
      exact List.mem_cons_of_mem _ (List.mem_flatMap.mpr ⟨sc, hsc, ih sc x hx⟩)

theorem sf_mono_le (s : Sys) {f g c x : Nat} (hle : f ≤ g) (h : x ∈ subclassesFrom s f c) : x ∈ subclassesFrom s g c := by
  induction hle with
  | refl => exact h
  | step _ ih => exact sf_mono s _ c x ih

theorem sf_step (s : Sys) : ∀ f r x y, x ∈ subclassesFrom s f r →
    y ∈ ((s.ob x).subclasses.filter fun sc => !hasSpace (fullName s sc) && visible s sc) →
    y ∈ subclassesFrom s (f+1) r := by
  intro f
  induction f with
  | zero => intro r x y h; simp [subclassesFrom] at h
  | succ f ih =>
    intro r x y hx hy
    rw [subclassesFrom] at hx
    rw [subclassesFrom]
    rcases List.mem_cons.mp hx with hx | hx
    · subst hx
      exact List.mem_cons_of_mem _ (List.mem_flatMap.mpr ⟨y, hy, sf_self s f y⟩)
    · obtain ⟨sc, hsc, hxs⟩ := List.mem_flatMap.mp hx
      exact List.mem_cons_of_mem _ (List.mem_flatMap.mpr ⟨sc, hsc, ih sc x y hxs hy⟩)

/-- what `hierWf` says about one visible class -/
structure GoodClass (s : Sys) (c : Nat) : Prop where
  reg : c ∈ classes s
  vis : visible s c = true
  noSpace : hasSpace (s.ob c).name = false
  noSpaceFull : hasSpace (fullName s c) = false
  len : (s.ob c).bases.length = (s.ob c).baseNames.length
  depth : (baseDepth s s.n c).isSome = true
  bases : ∀ b, b ∈ visBases s c → (s.ob b).kind = .cls ∧ c ∈ (s.ob b).subclasses

theorem visBases_visible {s : Sys} {c b : Nat} (h : b ∈ visBases s c) : visible s b = true := by
  unfold visBases at h
  obtain ⟨ob, _, hb⟩ := List.mem_filterMap.mp h
  cases ob with
  | none => simp at hb
  | some b' =>
    simp only at hb
    split at hb
    · rename_i hv; injection hb with hb; exact hb ▸ hv
    · cases hb

theorem goodClass_of_hierWf {s : Sys} (hw : hierWf s = true) {c : Nat} (hk : (s.ob c).kind = .cls)
    (hv : visible s c = true) : GoodClass s c := by
  unfold hierWf at hw
  have := List.all_eq_true.mp hw c (List.mem_range.mpr (visible_lt hv))
  simp only [hk, hv, beq_self_eq_true, Bool.and_self, Bool.not_true, Bool.false_or, Bool.and_eq_true,
    List.contains_iff_mem, Bool.not_eq_true', beq_iff_eq, List.all_eq_true, decide_eq_true_eq] at this
  obtain ⟨⟨⟨⟨⟨h1, h2⟩, h3⟩, h4⟩, h5⟩, h6⟩ := this
  refine ⟨?_, hv, h2, h3, h4, h5, ?_⟩
  · exact List.mem_filter.mpr ⟨h1, by simp [hk]⟩
  · intro b hb
    have := h6 b hb
    exact ⟨this.1, this.2⟩

theorem baseDepth_lt (s : Sys) : ∀ f c d, baseDepth s f c = some d → d < f := by
  intro f
  induction f with
  | zero => intro c d h; simp [baseDepth] at h
  | succ f ih =>
    intro c d h
    rw [baseDepth] at h
    split at h
    · injection h with h; omega
    · rename_i b _ _
      cases hb : baseDepth s f b with
      | none => rw [hb] at h; cases h
      | some db =>
        rw [hb] at h
        simp only [Option.map_some, Option.some.injEq] at h
        have := ih b db hb
        omega

/-- every visible class is listed: below a class stored in the dict, at the depth of its chain of first
visible bases -/
theorem listed_of_depth {s : Sys} (w : WF s) (hw : hierWf s = true) : ∀ f c d, (s.ob c).kind = .cls →
    visible s c = true → baseDepth s f c = some d →
    ∃ r, Stored (findRootClasses s) r ∧ c ∈ subclassesFrom s (d+1) r := by
  intro f
  induction f with
  | zero => intro c d _ _ h; simp [baseDepth] at h
  | succ f ih =>
    intro c d hk hv h
    have g := goodClass_of_hierWf hw hk hv
    rw [baseDepth] at h
    split at h
    · rename_i hvb
      injection h with h
      subst h
      exact ⟨c, stored_of_no_visBase w g.reg hv g.noSpace g.len hvb, sf_self s 0 c⟩
    · rename_i b rest hvb
      cases hb : baseDepth s f b with
      | none => rw [hb] at h; cases h
      | some db =>
        rw [hb] at h
        simp only [Option.map_some, Option.some.injEq] at h
        subst h
        have hbm : b ∈ visBases s c := by rw [hvb]; exact List.mem_cons_self
        obtain ⟨hbk, hsub⟩ := g.bases b hbm
        obtain ⟨r, hr, hbr⟩ := ih b db hbk (visBases_visible hbm) hb
        refine ⟨r, hr, sf_step s (db+1) r b c hbr ?_⟩
        exact List.mem_filter.mpr ⟨hsub, by simp [g.noSpaceFull, hv]⟩

/-- **C11** the "View In Hierarchy" link of every class page (`classIndex.html#<qualified name>`) leads to an
anchor of classIndex.html: every visible class is listed there. -/
theorem inhierarchy_resolves {s : Sys} (w : WF s) (hw : hierWf s = true) {x : File × Name} (h : x ∈ inHierarchy s) :
    x.2 ∈ anchorsOf s (.summary .classIndex) := by
  unfold inHierarchy at h
  obtain ⟨p, hp, rfl⟩ := List.mem_map.mp h
  obtain ⟨hpp, hk⟩ := List.mem_filter.mp hp
  have hk' : (s.ob p).kind = .cls := by simpa using hk
  have hv := visible_of_mem_pages hpp
  have g := goodClass_of_hierWf hw hk' hv
  cases hd : baseDepth s s.n p with
  | none => have := g.depth; rw [hd] at this; cases this
  | some d =>
    obtain ⟨r, ⟨kv, hkv, hr⟩, hpr⟩ := listed_of_depth w hw s.n p d hk' hv hd
    have hlt := baseDepth_lt s _ _ _ hd
    have hpn : p ∈ subclassesFrom s s.n r := sf_mono_le s (by omega) hpr
    unfold anchorsOf
    simp only [if_true, List.mem_append]
    left; right
    refine List.mem_map.mpr ⟨p, ?_, rfl⟩
    unfold classIndexListed
    exact List.mem_flatMap.mpr ⟨kv, hkv, List.mem_flatMap.mpr ⟨r, hr, hpn⟩⟩

/-- **C11** the letter links of nameIndex.html (`#X` under every other letter) lead to a letter heading -/
theorem letter_links_resolve {s : Sys} {x : Char × Char} (h : x ∈ letterLinks s) :
    [x.2] ∈ anchorsOf s (.summary .nameIndex) := by
  unfold letterLinks at h
  obtain ⟨l, _, hx⟩ := List.mem_flatMap.mp h
  obtain ⟨o, ho, rfl⟩ := List.mem_map.mp hx
  unfold anchorsOf
  simp only [if_true, List.mem_append]
  right
  exact List.mem_map.mpr ⟨o, (List.mem_filter.mp ho).1, rfl⟩

/-- every visible object (with a non-empty name) is filed under a letter that has a heading -/
theorem letter_of_visible {s : Sys} {o : Nat} {c : Char} (h : o ∈ visibleAll s) (hc : initialOf s o = some c) :
    c ∈ letters s := by
  unfold letters
  exact List.mem_eraseDups.mpr (List.mem_filterMap.mpr ⟨o, h, hc⟩)

/-! ### historical counterexamples: how the statement failed before the fixes -/

/-- an object of module 0 (the examples below have one module, object 0) -/
def mkObj (name : Name) (kind : Kind) (parent : Option Nat) (privacy : Level) (contents : List Nat) : Obj :=
  { (default : Obj) with name := name, kind := kind, parent := parent, privacy := privacy, contents := contents,
                         modul := some 0 }

/-- `m.py`: `class C: pass` twice. Object 1 is the superseded first definition `'C 0'`: registered in
`allobjects`, not in `m.contents`. -/
def sSuperseded : Sys :=
  { objs := #[ mkObj ['m'] .module none .pub [2],
              mkObj ['C', ' ', '0'] .cls (some 0) .pub [],
              mkObj ['C'] .cls (some 0) .pub [] ],
    all := [0, 1, 2], roots := [0], depth := 1, nosidebar := false }

/-- DESIGN §8-4, before cb98646: the old `isVisible` called `'C 0'` visible, so nameIndex.html,
undoccedSummary.html, all-documents.html and the search index (which iterate the visible objects of
`allobjects`) linked `m.C%200.html`, which is never written. Now it is invisible and nothing mentions it. -/
theorem links_resolve_counterexample_superseded_old :
    wf sSuperseded = true ∧ superseded sSuperseded 1 = true ∧
    visibleOld sSuperseded 1 = true ∧ (visibleAllOld sSuperseded).contains 1 = true ∧
    url sSuperseded 1 = some ⟨.page ['m', '.', 'C', ' ', '0'], none⟩ ∧ urlResolves sSuperseded 1 = false ∧
    -- fixed code
    visible sSuperseded 1 = false ∧ (emits sSuperseded).all (fun e => e.target != 1 && resolves sSuperseded e) = true := by
  decide

/-- `class _H` is HIDDEN, `class V(_H)` is visible. -/
def sHidden : Sys :=
  { objs := #[ mkObj ['m'] .module none .pub [1, 2],
              mkObj ['_', 'H'] .cls (some 0) .hidden [],
              { mkObj ['V'] .cls (some 0) .pub [] with
                  bases := [some 1], baseNames := [['m', '.', '_', 'H']], mro := [2, 1], sigrefs := [some 1] } ],
    all := [0, 1, 2], roots := [0], depth := 1, nosidebar := false }

/-- DESIGN §8-11, before aaed9bd: every request was rendered as a link, also the class-signature request
for the hidden base (`format_class_signature` has no guard of its own). Now `taglink` refuses it. -/
theorem links_resolve_counterexample_hidden_old :
    wf sHidden = true ∧ visible sHidden 1 = false ∧ urlResolves sHidden 1 = false ∧
    ((requests sHidden).any fun e => e.row == .classSig && e.target == 1) = true ∧
    -- fixed code
    (emits sHidden).all (fun e => e.target != 1 && resolves sHidden e) = true := by
  decide

/-- `class B` with `meth` and `o` (docstring: see `L{meth}`); `class S(B)` redefines `o` without docstring.
`S.o` (5) shows the docstring of `B.o` (3), whose linker remembers the page of `B` (`docCtx = 1`). -/
def sContext : Sys :=
  { objs := #[ mkObj ['m'] .module none .pub [1, 4],
              { mkObj ['B'] .cls (some 0) .pub [2, 3] with mro := [1] },
              mkObj ['m', 'e', 't', 'h'] .function (some 1) .pub [],
              { mkObj ['o'] .function (some 1) .pub [] with docSource := some 3, docCtx := some 1, xrefs := [2], hasDoc := true },
              { mkObj ['S'] .cls (some 0) .pub [5] with
                  bases := [some 1], baseNames := [['m', '.', 'B']], mro := [4, 1], sigrefs := [some 1] },
              { mkObj ['o'] .function (some 4) .pub [] with docSource := some 3, docCtx := some 1, xrefs := [2], hasDoc := true } ],
    all := [0, 1, 2, 3, 4, 5], roots := [0], depth := 1, nosidebar := false }

/-- before 1da744b: the link to the visible, reached `B.meth` was shortened to `#meth` relative to
`m.B.html` and written into `m.S.html`, which has no such anchor. Now the context is `m.S.html`. -/
theorem links_resolve_counterexample_context_old :
    wf sContext = true ∧ visible sContext 2 = true ∧ urlResolves sContext 2 = true ∧
    ((docLinksOld sContext (.page ['m', '.', 'S']) 5).any fun e =>
        e.ctx == some (.page ['m', '.', 'B']) && !resolves sContext e) = true ∧
    -- fixed code
    ((docLinks sContext (.page ['m', '.', 'S']) 5).all fun e =>
        e.ctx == some (.page ['m', '.', 'S']) && resolves sContext e) = true ∧
    (emits sContext).all (resolves sContext) = true := by
  decide

/-- `class B` with `meth` and `o` (docstring: `@see: L{meth}`); `class S(B)` redefines `o` without docstring.
`S.o` (5) shows the docstring of `B.o` (3); the `@see` field is formatted by `FieldHandler.format()`; the
linker of `B.o` remembers the page of `B` (`docCtx = 1`). -/
def sLateField : Sys :=
  { objs := #[ mkObj ['m'] .module none .pub [1, 4],
              { mkObj ['B'] .cls (some 0) .pub [2, 3] with mro := [1] },
              mkObj ['m', 'e', 't', 'h'] .function (some 1) .pub [],
              { mkObj ['o'] .function (some 1) .pub [] with docSource := some 3, docCtx := some 1, laterefs := [2], hasDoc := true },
              { mkObj ['S'] .cls (some 0) .pub [5] with
                  bases := [some 1], baseNames := [['m', '.', 'B']], mro := [4, 1], sigrefs := [some 1] },
              { mkObj ['o'] .function (some 4) .pub [] with docSource := some 3, docCtx := some 1, laterefs := [2], hasDoc := true } ],
    all := [0, 1, 2, 3, 4, 5], roots := [0], depth := 1, nosidebar := false }

/-- before 0ff33e4: the link to the visible, reached `B.meth` in the `@see` field of the inherited docstring was
shortened to `#meth` relative to `m.B.html` (the page the linker of `B.o` remembers) and written into `m.S.html`,
which has no such anchor. Now the field is formatted under `switch_context(obj)`: the context is `m.S.html`. -/
theorem links_resolve_counterexample_field_old :
    wf sLateField = true ∧ visible sLateField 2 = true ∧ urlResolves sLateField 2 = true ∧
    ((lateLinksOld sLateField (.page ['m', '.', 'S']) 5).any fun e =>
        e.row == .fieldXref && e.ctx == some (.page ['m', '.', 'B']) && !resolves sLateField e) = true ∧
    -- fixed code
    ((lateLinks sLateField (.page ['m', '.', 'S']) 5).all fun e =>
        e.row == .fieldXref && e.ctx == some (.page ['m', '.', 'S']) && resolves sLateField e) = true ∧
    ((emits sLateField).any fun e => e.row == .fieldXref && e.page == .page ['m', '.', 'S']) = true ∧
    (emits sLateField).all (resolves sLateField) = true := by
  decide

/-- `pk/_impl.py`: `DEFAULT = 1`, `def f(x=DEFAULT)`; `pk/__init__.py` re-exports `f` (`__all__ = ['f']`).
Object 3 is `pk.f` (moved), its linker still remembers the page of `pk._impl` (`ownCtx = 1`). -/
def sValue : Sys :=
  { objs := #[ { mkObj ['p', 'k'] .package none .pub [1, 3] with modul := some 0 },
              { mkObj ['_', 'i'] .module (some 0) .priv [2] with modul := some 1 },
              { mkObj ['D'] .attribute (some 1) .pub [] with modul := some 1 },
              { mkObj ['f'] .function (some 0) .pub [] with modul := some 0, valrefs := [2], ownCtx := some 1 } ],
    all := [0, 1, 2, 3], roots := [0], depth := 1, nosidebar := false }

/-- before f972163: the default value of the re-exported `pk.f` linked `pk._i.D` as `#D` on index.html,
where no such anchor exists (the linker kept the page of `pk._i`); the target itself is visible and its
address resolves. Now the linker's page is refreshed by `reparent`. -/
theorem links_resolve_counterexample_value_old :
    wf sValue = true ∧ visible sValue 2 = true ∧ urlResolves sValue 2 = true ∧
    ((valLinksOld sValue .index 3).any fun e =>
        e.target == 2 && e.ctx == some (.page ['p', 'k', '.', '_', 'i']) && !resolves sValue e) = true ∧
    -- fixed code
    (emits sValue).all (resolves sValue) = true ∧
    ((emits sValue).any fun e => e.row == .valXref && e.target == 2 && e.ctx == some .index) = true := by
  decide

/-- `solo` is the only root and HIDDEN: before a09aa28 no index.html was written although every summary page
links to it; now the project's `IndexPage` is. The address of the hidden root (index.html) leads to that page,
which is not a page *for* it. -/
def sSoloHidden : Sys :=
  { objs := #[ mkObj ['s'] .module none .hidden [1], mkObj ['A'] .cls (some 0) .pub [] ],
    all := [0, 1], roots := [0], depth := 1, nosidebar := false }

theorem index_page_counterexample_old :
    wf sSoloHidden = true ∧ hasIndexPageOld sSoloHidden = false ∧ (pageFiles sSoloHidden).contains .index = false ∧
    -- fixed code
    (written sSoloHidden).contains .index = true ∧ pages sSoloHidden = [] ∧ urlResolves sSoloHidden 0 = true := by
  decide

/-- `class C` twice, `class D(C)` in between: D's base is the superseded `'C 0'`. -/
def sHierarchy : Sys :=
  { objs := #[ mkObj ['m'] .module none .pub [2, 3],
              mkObj ['C', ' ', '0'] .cls (some 0) .pub [],
              mkObj ['C'] .cls (some 0) .pub [],
              { mkObj ['D'] .cls (some 0) .pub [] with
                  bases := [some 1], baseNames := [['m', '.', 'C', ' ', '0']], mro := [3, 1], sigrefs := [some 1] } ],
    all := [0, 1, 2, 3], roots := [0], depth := 1, nosidebar := false }

/-- "View In Hierarchy" (`classIndex.html#m.D`), before cb98646: the base was visible, so `D` was neither a
root nor grouped under a name, and `findRootClasses` skips `'C 0'` (`' ' in cls.name`): `D` was not listed.
Now the base is invisible and `D` is listed under its name. -/
theorem inhierarchy_counterexample_old :
    wf sHierarchy = true ∧ (classIndexListedOld sHierarchy).contains 3 = false ∧
    -- fixed code
    ((inHierarchy sHierarchy).all fun (_, a) => (anchorsOf sHierarchy (.summary .classIndex)).contains a) = true := by
  decide

/-- `class K` (no bases, object 2) and `C_r` (object 1) whose base `m.K` could not be resolved; `C_r` is
registered first. -/
def sCollision : Sys :=
  { objs := #[ mkObj ['m'] .module none .pub [1, 2],
              { mkObj ['C', '_', 'r'] .cls (some 0) .pub [] with
                  bases := [none], baseNames := [['m', '.', 'K']], mro := [1], sigrefs := [none] },
              { mkObj ['K'] .cls (some 0) .pub [] with mro := [2] } ],
    all := [0, 1, 2], roots := [0], depth := 1, nosidebar := false }

/-- before 97be2c0: `roots['m.K'] = [C_r]` was overwritten by `roots['m.K'] = K`; `C_r` vanished from
classIndex.html and its "View In Hierarchy" link had no anchor. -/
theorem inhierarchy_counterexample_collision_old :
    wf sCollision = true ∧ (classIndexListedOld sCollision).contains 1 = false ∧
    -- fixed code
    (classIndexListed sCollision).contains 1 = true ∧
    ((inHierarchy sCollision).all fun (_, a) => (anchorsOf sCollision (.summary .classIndex)).contains a) = true := by
  decide

/-! ### non-vacuity: the hypotheses of the theorems above are met by systems with output -/

/-- `m.py`: `class K: def f(self): …`, everything visible -/
def sPlain : Sys :=
  { objs := #[ mkObj ['m'] .module none .pub [1],
              { mkObj ['K'] .cls (some 0) .priv [2] with mro := [1] },
              mkObj ['f'] .function (some 1) .pub [] ],
    all := [0, 1, 2], roots := [0], depth := 2, nosidebar := false }

example : wf sPlain = true ∧ (emits sPlain).length = 25 ∧
    ((emits sPlain).filter fun e => e.row.isLink && e.linked).length = 24 ∧
    (emits sPlain).all (resolves sPlain) = true := by decide
example : urlResolves sPlain 1 = true ∧ urlResolves sPlain 2 = true ∧
    url sPlain 2 = some ⟨.page ['m', '.', 'K'], some ['f']⟩ ∧ url sPlain 0 = some ⟨.index, none⟩ := by decide
example : urlResolves sSuperseded 1 = false ∧ urlResolves sSuperseded 2 = true := by decide
example : superseded sSuperseded 1 = true ∧ visible sSuperseded 1 = false := by decide

end Output
