import PdModel.Output
namespace Output

/-- contents-descendant (reflexive, transitive) -/
inductive Desc (s : Sys) : Nat → Nat → Prop
  | refl (i : Nat) : Desc s i i
  | head {a c i : Nat} : c ∈ (s.ob a).contents → Desc s c i → Desc s a i

theorem Desc.tail {s : Sys} {a p c : Nat} (h : Desc s a p) (hc : c ∈ (s.ob p).contents) : Desc s a c := by
  induction h with
  | refl i => exact .head hc (.refl c)
  | head hm _ ih => exact .head hm (ih hc)

theorem Desc.tail_cases {s : Sys} {a i : Nat} (h : Desc s a i) :
    i = a ∨ ∃ p, Desc s a p ∧ i ∈ (s.ob p).contents := by
  induction h with
  | refl i => exact .inl rfl
  | @head a c i hm hd ih =>
    right
    rcases ih with rfl | ⟨p, hp, hi⟩
    · exact ⟨a, .refl a, hm⟩
    · exact ⟨p, .head hm hp, hi⟩

/-- reached through `contents` from a root -/
def reachable (s : Sys) (i : Nat) : Prop := ∃ r, r ∈ s.roots ∧ Desc s r i

theorem visibleAux_mono (s : Sys) : ∀ f i, visibleAux s f i = true → visibleAux s (f+1) i = true := by
  intro f
  induction f with
  | zero => intro i h; simp [visibleAux] at h
  | succ f ih =>
    intro i h
    rw [visibleAux] at h ⊢
    cases hp : (s.ob i).parent with
    | none => simpa [hp] using h
    | some p =>
      simp only [hp, Bool.and_eq_true] at h ⊢
      exact ⟨h.1, ih p h.2⟩

theorem visible_parent {s : Sys} {c p : Nat} (hp : (s.ob c).parent = some p) (hv : visible s c = true) :
    visible s p = true := by
  unfold visible at hv ⊢
  rw [visibleAux] at hv
  simp only [hp, Bool.and_eq_true] at hv
  exact visibleAux_mono s _ _ hv.2

theorem visible_not_hidden {s : Sys} {c : Nat} (hv : visible s c = true) : (s.ob c).privacy ≠ .hidden := by
  unfold visible at hv
  rw [visibleAux] at hv
  simp only [Bool.and_eq_true, bne_iff_ne, ne_eq] at hv
  exact hv.1

/-! ### what `wf` gives -/

theorem ob_default {s : Sys} {i : Nat} (h : s.n ≤ i) : s.ob i = default := by
  unfold Sys.ob Sys.n at *
  simp [List.getD, List.getElem?_eq_none h]

theorem contents_nil_of_ge {s : Sys} {i : Nat} (h : s.n ≤ i) : (s.ob i).contents = [] := by
  rw [ob_default h]; rfl

theorem lt_of_contents_ne {s : Sys} {i c : Nat} (h : c ∈ (s.ob i).contents) : i < s.n := by
  rcases Nat.lt_or_ge i s.n with h' | h'
  · exact h'
  · rw [contents_nil_of_ge h'] at h; simp at h

theorem visible_lt {s : Sys} {i : Nat} (h : visible s i = true) : i < s.n := by
  rcases Nat.lt_or_ge i s.n with h' | h'
  · exact h'
  · have := visible_not_hidden h
    rw [ob_default h'] at this
    exact absurd rfl this

structure WF (s : Sys) : Prop where
  parent_lt : ∀ i p, i < s.n → (s.ob i).parent = some p → p < i
  parent_page : ∀ i p, i < s.n → (s.ob i).parent = some p → (s.ob i).kind.ownPage = true ∨ (s.ob p).kind.ownPage = true
  orphan_module : ∀ i, i < s.n → (s.ob i).parent = none → (s.ob i).kind.isModule = true
  contents_lt : ∀ i c, c ∈ (s.ob i).contents → c < s.n
  contents_parent : ∀ i c, c ∈ (s.ob i).contents → (s.ob c).parent = some i
  contents_names : ∀ i c d, c ∈ (s.ob i).contents → d ∈ (s.ob i).contents → (s.ob c).name = (s.ob d).name → c = d
  roots_lt : ∀ r, r ∈ s.roots → r < s.n
  roots_parent : ∀ r, r ∈ s.roots → (s.ob r).parent = none
  names : ∀ i j, i < s.n → j < s.n → fullName s i = fullName s j → i = j
  spellings : ∀ i j, i < s.n → j < s.n → (s.ob j).parent ≠ none → (s.ob i).name ≠ fullName s j

theorem wf_iff (s : Sys) (h : wf s = true) : WF s := by
  simp only [wf, Bool.and_eq_true, List.all_eq_true, List.mem_range, decide_eq_true_eq, beq_iff_eq] at h
  obtain ⟨⟨⟨⟨hobj, hroots⟩, _hall⟩, hnames⟩, hsp⟩ := h
  have hobj' : ∀ i, i < s.n → wfObj s i = true := hobj
  have hc : ∀ i c, c ∈ (s.ob i).contents → c < s.n ∧ (s.ob c).parent = some i := by
    intro i c hc
    have hi := lt_of_contents_ne hc
    have := hobj' i hi
    simp only [wfObj, Bool.and_eq_true, List.all_eq_true, decide_eq_true_eq, beq_iff_eq] at this
    exact this.1.2 c hc
  refine ⟨?_, ?_, ?_, fun i c h => (hc i c h).1, fun i c h => (hc i c h).2, ?_, fun r hr => (hroots r hr).1,
    fun r hr => (hroots r hr).2, ?_, ?_⟩
  · intro i p hi hp
    have := hobj' i hi
    simp only [wfObj, hp, Bool.and_eq_true, decide_eq_true_eq] at this
    exact this.1.1.1
  · intro i p hi hp
    have := hobj' i hi
    simp only [wfObj, hp, Bool.and_eq_true, Bool.or_eq_true] at this
    exact this.1.1.2
  · intro i hi hp
    have := hobj' i hi
    simp only [wfObj, hp, Bool.and_eq_true] at this
    exact this.1.1
  · intro i c d hc' hd hn
    have hi := lt_of_contents_ne hc'
    have := hobj' i hi
    simp only [wfObj, Bool.and_eq_true, List.all_eq_true, Bool.or_eq_true, beq_iff_eq, bne_iff_ne, ne_eq] at this
    rcases this.2 c hc' d hd with h | h
    · exact h
    · exact absurd hn h
  · intro i j hi hj hn
    have := hnames
    simp only [namesDistinct, List.all_eq_true, List.mem_range, Bool.or_eq_true, beq_iff_eq, bne_iff_ne, ne_eq] at this
    rcases this i hi j hj with h | h
    · exact h
    · exact absurd hn h
  · intro i j hi hj hp
    have := hsp
    simp only [spellingsApart, List.all_eq_true, List.mem_range, Bool.or_eq_true, beq_iff_eq, bne_iff_ne, ne_eq] at this
    rcases this i hi j hj with h | h
    · exact absurd h hp
    · exact h

/-! ### `_writeDocsFor` visits exactly the visible objects reached through `contents` -/

theorem docsFor_sound (s : Sys) : ∀ f r i, i ∈ docsFor s f r → Desc s r i ∧ visible s i = true := by
  intro f
  induction f with
  | zero => intro r i h; simp [docsFor] at h
  | succ f ih =>
    intro r i h
    rw [docsFor] at h
    split at h
    · rename_i hv
      rcases List.mem_cons.mp h with rfl | h
      · exact ⟨.refl _, hv⟩
      · obtain ⟨c, hc, hi⟩ := List.mem_flatMap.mp h
        obtain ⟨hd, hvi⟩ := ih c i hi
        exact ⟨.head hc hd, hvi⟩
    · simp at h

theorem visible_of_desc {s : Sys} (w : WF s) {a i : Nat} (h : Desc s a i) (hv : visible s i = true) :
    visible s a = true := by
  induction h with
  | refl i => exact hv
  | @head a c i hm _ ih => exact visible_parent (w.contents_parent a c hm) (ih hv)

theorem docsFor_complete {s : Sys} (w : WF s) {r i : Nat} (h : Desc s r i) (hv : visible s i = true) :
    ∀ f, r < s.n → s.n ≤ f + r → i ∈ docsFor s f r := by
  induction h with
  | refl i =>
    intro f hr hf
    cases f with
    | zero => omega
    | succ f => rw [docsFor]; simp [hv]
  | @head a c i hm hd ih =>
    intro f hr hf
    cases f with
    | zero => omega
    | succ f =>
      rw [docsFor]
      have hva := visible_of_desc w (.head hm hd) hv
      simp only [hva, if_true]
      refine List.mem_cons_of_mem _ (List.mem_flatMap.mpr ⟨c, hm, ?_⟩)
      have hlt : a < c := w.parent_lt c a (w.contents_lt a c hm) (w.contents_parent a c hm)
      exact ih hv f (w.contents_lt a c hm) (by omega)

theorem mem_reached_iff {s : Sys} (w : WF s) (i : Nat) :
    i ∈ reached s ↔ reachable s i ∧ visible s i = true := by
  unfold reached reachable
  constructor
  · intro h
    obtain ⟨r, hr, hi⟩ := List.mem_flatMap.mp h
    obtain ⟨hd, hv⟩ := docsFor_sound s _ _ _ hi
    exact ⟨⟨r, hr, hd⟩, hv⟩
  · rintro ⟨⟨r, hr, hd⟩, hv⟩
    exact List.mem_flatMap.mpr ⟨r, hr, docsFor_complete w hd hv s.n (w.roots_lt r hr) (by omega)⟩

theorem mem_pages_iff {s : Sys} (w : WF s) (i : Nat) :
    i ∈ pages s ↔ reachable s i ∧ visible s i = true ∧ (s.ob i).kind.ownPage = true := by
  unfold pages
  rw [List.mem_filter, mem_reached_iff w]
  constructor
  · rintro ⟨⟨a, b⟩, c⟩; exact ⟨a, b, c⟩
  · rintro ⟨a, b, c⟩; exact ⟨⟨a, b⟩, c⟩

theorem visible_of_mem_pages {s : Sys} {i : Nat} (h : i ∈ pages s) : visible s i = true := by
  unfold pages reached at h
  obtain ⟨h, _⟩ := List.mem_filter.mp h
  obtain ⟨r, _, hi⟩ := List.mem_flatMap.mp h
  exact (docsFor_sound s _ _ _ hi).2

theorem reachable_child {s : Sys} {p c : Nat} (h : reachable s p) (hc : c ∈ (s.ob p).contents) : reachable s c := by
  obtain ⟨r, hr, hd⟩ := h
  exact ⟨r, hr, hd.tail hc⟩

theorem reachable_parent {s : Sys} (w : WF s) {i q : Nat} (h : reachable s i) (hp : (s.ob i).parent = some q) :
    reachable s q := by
  obtain ⟨r, hr, hd⟩ := h
  rcases hd.tail_cases with rfl | ⟨p, hdp, hi⟩
  · rw [w.roots_parent _ hr] at hp; cases hp
  · have := w.contents_parent p i hi
    rw [hp] at this
    cases this
    exact ⟨r, hr, hdp⟩

theorem reachable_cases {s : Sys} (w : WF s) {i : Nat} (h : reachable s i) :
    (i ∈ s.roots ∧ (s.ob i).parent = none) ∨ ∃ p, (s.ob i).parent = some p ∧ reachable s p ∧ i ∈ (s.ob p).contents := by
  obtain ⟨r, hr, hd⟩ := h
  rcases hd.tail_cases with rfl | ⟨p, hdp, hi⟩
  · exact .inl ⟨hr, w.roots_parent _ hr⟩
  · exact .inr ⟨p, w.contents_parent p i hi, ⟨r, hr, hdp⟩, hi⟩

/-! ### addresses -/

theorem Kind.ownPage_of_isModule {k : Kind} (h : k.isModule = true) : k.ownPage = true := by
  cases k <;> simp_all [Kind.isModule, Kind.ownPage]

theorem pageFile_inj {s : Sys} (w : WF s) {p q : Nat} (hp : p < s.n) (hq : q < s.n)
    (h : pageFile s p = pageFile s q) : p = q := by
  unfold pageFile at h
  split at h <;> split at h
  · rename_i h1 h2
    rw [h1] at h2
    exact w.names p q hp hq (by simpa using h2)
  · cases h
  · cases h
  · injection h with h
    exact w.names p q hp hq h

theorem pageFile_ne_summary (s : Sys) (p : Nat) (x : SPage) : pageFile s p ≠ .summary x := by
  unfold pageFile; split <;> simp

theorem url_own {s : Sys} {i : Nat} (h : (s.ob i).kind.ownPage = true) : url s i = some ⟨pageFile s i, none⟩ := by
  simp [url, pageObject, h]

theorem url_member {s : Sys} (w : WF s) {i p : Nat} (hi : i < s.n) (h : (s.ob i).kind.ownPage = false)
    (hp : (s.ob i).parent = some p) : url s i = some ⟨pageFile s p, some (s.ob i).name⟩ := by
  have : p ≠ i := Nat.ne_of_lt (w.parent_lt i p hi hp)
  simp [url, pageObject, h, hp, this]

theorem mem_written_iff (s : Sys) (f : File) :
    f ∈ written s ↔ f ∈ summaryFiles s ∨ (∃ p, p ∈ pages s ∧ pageFile s p = f) ∨ f ∈ aliasFiles s := by
  simp [written, pageFiles, or_assoc]

/-- a page file is among the written files only as the page of that very object -/
theorem pageFile_written {s : Sys} (w : WF s) {i : Nat} (hi : i < s.n) (h : pageFile s i ∈ written s) : i ∈ pages s := by
  rcases (mem_written_iff s _).mp h with h | ⟨p, hp, he⟩ | h
  · -- summary files: only `.index` could coincide, and only with several roots
    unfold summaryFiles at h
    simp only [List.mem_append, List.mem_cons, List.mem_singleton, List.not_mem_nil, or_false] at h
    have hne := pageFile_ne_summary s i
    rcases h with (h | h | h | h) | h | h
    · exact absurd h (hne _)
    · exact absurd h (hne _)
    · exact absurd h (hne _)
    · exact absurd h (hne _)
    · split at h
      · rename_i hl
        simp only [List.mem_singleton] at h
        unfold pageFile at h
        split at h
        · rename_i hr; rw [hr] at hl; simp at hl
        · cases h
      · simp at h
    · exact absurd h (hne _)
  · have hpn : p < s.n := visible_lt (visible_of_mem_pages hp)
    have := pageFile_inj w hpn hi he
    exact this ▸ hp
  · unfold aliasFiles at h
    split at h
    · rename_i r hr
      split at h
      · simp only [List.mem_singleton] at h
        unfold pageFile at h
        split at h
        · cases h
        · rename_i hne
          injection h with h
          exact absurd (by rw [hr, h]) hne
      · simp at h
    · simp at h

theorem mem_anchorsOf_page {s : Sys} (w : WF s) {p : Nat} (hp : p < s.n) (a : Name) :
    a ∈ anchorsOf s (pageFile s p) ↔
      p ∈ pages s ∧ ∃ c, c ∈ methods s p ∧ (a = (s.ob c).name ∨ a = fullName s c) := by
  unfold anchorsOf
  have hne : ¬ (pageFile s p = .summary .classIndex) := pageFile_ne_summary s p _
  simp only [hne, if_false, List.append_nil, List.mem_flatMap, List.mem_filter, decide_eq_true_eq,
    List.mem_cons, List.not_mem_nil, or_false]
  constructor
  · rintro ⟨q, ⟨hq, he⟩, c, hc, ha⟩
    have hqn : q < s.n := visible_lt (visible_of_mem_pages hq)
    have := pageFile_inj w hqn hp he
    subst this
    exact ⟨hq, c, hc, ha⟩
  · rintro ⟨hq, c, hc, ha⟩
    exact ⟨p, ⟨hq, rfl⟩, c, hc, ha⟩

theorem mem_methods {s : Sys} {p c : Nat} :
    c ∈ methods s p ↔ c ∈ (s.ob p).contents ∧ (s.ob c).kind.ownPage = false ∧ visible s c = true := by
  simp [methods, List.mem_filter]

theorem resolvesHref_full (s : Sys) (pg : File) (u : Url) :
    resolvesHref s pg ⟨some u.file, u.frag⟩ = true ↔
      u.file ∈ written s ∧ (∀ a, u.frag = some a → a ∈ anchorsOf s u.file) := by
  unfold resolvesHref
  cases hf : u.frag <;> simp [List.contains_iff_mem]

/-- **C11** every visible module, package and class reached through `contents` has its own page at the
address links use for it -/
theorem own_page_exists {s : Sys} (w : WF s) {i : Nat} (hr : reachable s i) (hv : visible s i = true)
    (ho : (s.ob i).kind.ownPage = true) : urlResolves s i = true := by
  have hp : i ∈ pages s := (mem_pages_iff w i).mpr ⟨hr, hv, ho⟩
  unfold urlResolves
  rw [url_own ho]
  simp only
  rw [resolvesHref_full]
  refine ⟨(mem_written_iff s _).mpr (.inr (.inl ⟨i, hp, rfl⟩)), ?_⟩
  intro a h; cases h

/-- **C11** every visible function and variable reached through `contents` has an anchor on its
parent's page, at the address links use for it -/
theorem member_anchor_exists {s : Sys} (w : WF s) {i : Nat} (hr : reachable s i) (hv : visible s i = true)
    (ho : (s.ob i).kind.ownPage = false) : urlResolves s i = true := by
  have hi := visible_lt hv
  rcases reachable_cases w hr with ⟨_, hnone⟩ | ⟨p, hp, hrp, hc⟩
  · have := Kind.ownPage_of_isModule (w.orphan_module i hi hnone)
    rw [ho] at this; cases this
  · have hvp := visible_parent hp hv
    have hop : (s.ob p).kind.ownPage = true := by
      rcases w.parent_page i p hi hp with h | h
      · rw [ho] at h; cases h
      · exact h
    have hpp : p ∈ pages s := (mem_pages_iff w p).mpr ⟨hrp, hvp, hop⟩
    unfold urlResolves
    rw [url_member w hi ho hp]
    simp only
    rw [resolvesHref_full]
    refine ⟨(mem_written_iff s _).mpr (.inr (.inl ⟨p, hpp, rfl⟩)), ?_⟩
    intro a ha
    cases ha
    exact (mem_anchorsOf_page w (visible_lt hvp) _).mpr ⟨hpp, i, mem_methods.mpr ⟨hc, ho, hv⟩, .inl rfl⟩

theorem fullName_of_parent {s : Sys} {i p : Nat} (hp : (s.ob i).parent = some p) :
    fullName s i = List.intercalate ['.'] (pathAux s s.n p ++ [(s.ob i).name]) := by
  unfold fullName
  rw [pathAux]
  simp [hp]

/-- **C11** `url o` leads to a written file (and anchor) **iff** `o` is visible and reached through
`contents` from a root — in particular not for a superseded duplicate `'x 0'`, nor for anything inside one -/
theorem url_resolves_iff {s : Sys} (w : WF s) {i : Nat} (hi : i < s.n) :
    urlResolves s i = true ↔ visible s i = true ∧ reachable s i := by
  constructor
  · intro h
    cases ho : (s.ob i).kind.ownPage with
    | true =>
      unfold urlResolves at h
      rw [url_own ho] at h
      simp only at h
      rw [resolvesHref_full] at h
      have hp := pageFile_written w hi h.1
      have := (mem_pages_iff w i).mp hp
      exact ⟨this.2.1, this.1⟩
    | false =>
      cases hp : (s.ob i).parent with
      | none =>
        have := Kind.ownPage_of_isModule (w.orphan_module i hi hp)
        rw [ho] at this; cases this
      | some p =>
        have hpn : p < s.n := Nat.lt_trans (w.parent_lt i p hi hp) hi
        unfold urlResolves at h
        rw [url_member w hi ho hp] at h
        simp only at h
        rw [resolvesHref_full] at h
        have hpp := pageFile_written w hpn h.1
        obtain ⟨_, c, hc, ha⟩ := (mem_anchorsOf_page w hpn _).mp (h.2 _ rfl)
        obtain ⟨hcc, hco, hcv⟩ := mem_methods.mp hc
        have hcp := w.contents_parent p c hcc
        have hcn := w.contents_lt p c hcc
        rcases ha with ha | ha
        · -- same name, same parent: same qualified name, hence the same object
          have : i = c := w.names i c hi hcn (by rw [fullName_of_parent hp, fullName_of_parent hcp, ha])
          subst this
          exact ⟨hcv, reachable_child ((mem_pages_iff w p).mp hpp).1 hcc⟩
        · exact absurd ha (w.spellings i c hi hcn (by rw [hcp]; simp))
  · rintro ⟨hv, hr⟩
    cases ho : (s.ob i).kind.ownPage with
    | true => exact own_page_exists w hr hv ho
    | false => exact member_anchor_exists w hr hv ho

end Output
