import PdModel.Output
namespace Output

/-- contents-descendant (reflexive, transitive) -/
inductive Desc (s : Sys) : Nat → Nat → Prop
  | refl (i : Nat) : Desc s i i
  | head {a c i : Nat} : c ∈ (s.ob a).contents → Desc s c i → Desc s a i

theorem Desc.tail {s : Sys} {a p c : Nat} (h : Desc s a p) (hc : c ∈ (s.ob p).contents) : Desc s a c := by
  induction h with
  | refl i => exact .head hc (.refl c)
  | head hm _ ih => exact .head hm (ih hc)

theorem Desc.tail_cases {s : Sys} {a i : Nat} (h : Desc s a i) :
    i = a ∨ ∃ p, Desc s a p ∧ i ∈ (s.ob p).contents := by
  induction h with
  | refl i => exact .inl rfl
  | @head a c i hm hd ih =>
    right
    rcases ih with rfl | ⟨p, hp, hi⟩
    · exact ⟨a, .refl a, hm⟩
    · exact ⟨p, .head hm hp, hi⟩

/-- reached through `contents` from a root -/
def reachable (s : Sys) (i : Nat) : Prop := ∃ r, r ∈ s.roots ∧ Desc s r i

theorem visibleAux_mono (s : Sys) : ∀ f i, visibleAux s f i = true → visibleAux s (f+1) i = true := by
  intro f
  induction f with
  | zero => intro i h; simp [visibleAux] at h
  | succ f ih =>
    intro i h
    rw [visibleAux] at h ⊢
    cases hp : (s.ob i).parent with
    | none => simpa [hp] using h
    | some p =>
      simp only [hp, Bool.and_eq_true] at h ⊢
      exact ⟨h.1, ih p h.2⟩

theorem visible_parent {s : Sys} {c p : Nat} (hp : (s.ob c).parent = some p) (hv : visible s c = true) :
    visible s p = true := by
  unfold visible at hv ⊢
  rw [visibleAux] at hv
  simp only [hp, Bool.and_eq_true] at hv
  exact visibleAux_mono s _ _ hv.2

theorem visible_not_hidden {s : Sys} {c : Nat} (hv : visible s c = true) : (s.ob c).privacy ≠ .hidden := by
  unfold visible at hv
  rw [visibleAux] at hv
  simp only [Bool.and_eq_true, bne_iff_ne, ne_eq] at hv
  exact hv.1

/-! ### what `wf` gives -/

theorem ob_default {s : Sys} {i : Nat} (h : s.n ≤ i) : s.ob i = default := by
  unfold Sys.ob Sys.n at *
  simp [List.getD, List.getElem?_eq_none h]

theorem contents_nil_of_ge {s : Sys} {i : Nat} (h : s.n ≤ i) : (s.ob i).contents = [] := by
  rw [ob_default h]; rfl

theorem lt_of_contents_ne {s : Sys} {i c : Nat} (h : c ∈ (s.ob i).contents) : i < s.n := by
  rcases Nat.lt_or_ge i s.n with h' | h'
  · exact h'
  · rw [contents_nil_of_ge h'] at h; simp at h

theorem visible_lt {s : Sys} {i : Nat} (h : visible s i = true) : i < s.n := by
  rcases Nat.lt_or_ge i s.n with h' | h'
  · exact h'
  · have := visible_not_hidden h
    rw [ob_default h'] at this
    exact absurd rfl this

structure WF (s : Sys) : Prop where
  parent_lt : ∀ i p, i < s.n → (s.ob i).parent = some p → p < i
  parent_page : ∀ i p, i < s.n → (s.ob i).parent = some p → (s.ob i).kind.ownPage = true ∨ (s.ob p).kind.ownPage = true
  orphan_module : ∀ i, i < s.n → (s.ob i).parent = none → (s.ob i).kind.isModule = true
  contents_lt : ∀ i c, c ∈ (s.ob i).contents → c < s.n
  contents_parent : ∀ i c, c ∈ (s.ob i).contents → (s.ob c).parent = some i
  contents_names : ∀ i c d, c ∈ (s.ob i).contents → d ∈ (s.ob i).contents → (s.ob c).name = (s.ob d).name → c = d
  roots_lt : ∀ r, r ∈ s.roots → r < s.n
  roots_parent : ∀ r, r ∈ s.roots → (s.ob r).parent = none
  names : ∀ i j, i < s.n → j < s.n → fullName s i = fullName s j → i = j
  spellings : ∀ i j, i < s.n → j < s.n → (s.ob j).parent ≠ none → (s.ob i).name ≠ fullName s j

theorem wf_iff (s : Sys) (h : wf s = true) : WF s := by
  simp only [wf, Bool.and_eq_true, List.all_eq_true, List.mem_range, decide_eq_true_eq, beq_iff_eq] at h
  obtain ⟨⟨⟨⟨hobj, hroots⟩, _hall⟩, hnames⟩, hsp⟩ := h
  have hobj' : ∀ i, i < s.n → wfObj s i = true := hobj
  have hc : ∀ i c, c ∈ (s.ob i).contents → c < s.n ∧ (s.ob c).parent = some i := by
    intro i c hc
    have hi := lt_of_contents_ne hc
    have := hobj' i hi
    simp only [wfObj, Bool.and_eq_true, List.all_eq_true, decide_eq_true_eq, beq_iff_eq] at this
    exact this.1.2 c hc
  refine ⟨?_, ?_, ?_, fun i c h => (hc i c h).1, fun i c h => (hc i c h).2, ?_, fun r hr => (hroots r hr).1,
    fun r hr => (hroots r hr).2, ?_, ?_⟩
  · intro i p hi hp
    have := hobj' i hi
    simp only [wfObj, hp, Bool.and_eq_true, decide_eq_true_eq] at this
    exact this.1.1.1
  · intro i p hi hp
    have := hobj' i hi
    simp only [wfObj, hp, Bool.and_eq_true, Bool.or_eq_true] at this
    exact this.1.1.2
  · intro i hi hp
    have := hobj' i hi
    simp only [wfObj, hp, Bool.and_eq_true] at this
    exact this.1.1
  · intro i c d hc' hd hn
    have hi := lt_of_contents_ne hc'
    have := hobj' i hi
    simp only [wfObj, Bool.and_eq_true, List.all_eq_true, Bool.or_eq_true, beq_iff_eq, bne_iff_ne, ne_eq] at this
    rcases this.2 c hc' d hd with h | h
    · exact h
    · exact absurd hn h
  · intro i j hi hj hn
    have := hnames
    simp only [namesDistinct, List.all_eq_true, List.mem_range, Bool.or_eq_true, beq_iff_eq, bne_iff_ne, ne_eq] at this
    rcases this i hi j hj with h | h
    · exact h
    · exact absurd hn h
  · intro i j hi hj hp
    have := hsp
    simp only [spellingsApart, List.all_eq_true, List.mem_range, Bool.or_eq_true, beq_iff_eq, bne_iff_ne, ne_eq] at this
    rcases this i hi j hj with h | h
    · exact absurd h hp
    · exact h

/-! ### `_writeDocsFor` visits exactly the visible objects reached through `contents` -/

theorem docsFor_sound (s : Sys) : ∀ f r i, i ∈ docsFor s f r → Desc s r i ∧ visible s i = true := by
  intro f
  induction f with
  | zero => intro r i h; simp [docsFor] at h
  | succ f ih =>
    intro r i h
    rw [docsFor] at h
    split at h
    · rename_i hv
      rcases List.mem_cons.mp h with rfl | h
      · exact ⟨.refl _, hv⟩
      · obtain ⟨c, hc, hi⟩ := List.mem_flatMap.mp h
        obtain ⟨hd, hvi⟩ := ih c i hi
        exact ⟨.head hc hd, hvi⟩
    · simp at h

theorem visible_of_desc {s : Sys} (w : WF s) {a i : Nat} (h : Desc s a i) (hv : visible s i = true) :
    visible s a = true := by
  induction h with
  | refl i => exact hv
  | @head a c i hm _ ih => exact visible_parent (w.contents_parent a c hm) (ih hv)

theorem docsFor_complete {s : Sys} (w : WF s) {r i : Nat} (h : Desc s r i) (hv : visible s i = true) :
    ∀ f, r < s.n → s.n ≤ f + r → i ∈ docsFor s f r := by
  induction h with
  | refl i =>
    intro f hr hf
    cases f with
    | zero => omega
    | succ f => rw [docsFor]; simp [hv]
  | @head a c i hm hd ih =>
    intro f hr hf
    cases f with
    | zero => omega
    | succ f =>
      rw [docsFor]
      have hva := visible_of_desc w (.head hm hd) hv
      simp only [hva, if_true]
      refine List.mem_cons_of_mem _ (List.mem_flatMap.mpr ⟨c, hm, ?_⟩)
      have hlt : a < c := w.parent_lt c a (w.contents_lt a c hm) (w.contents_parent a c hm)
      exact ih hv f (w.contents_lt a c hm) (by omega)

theorem mem_reached_iff {s : Sys} (w : WF s) (i : Nat) :
    i ∈ reached s ↔ reachable s i ∧ visible s i = true := by
  unfold reached reachable
  constructor
  · intro h
    obtain ⟨r, hr, hi⟩ := List.mem_flatMap.mp h
    obtain ⟨hd, hv⟩ := docsFor_sound s _ _ _ hi
    exact ⟨⟨r, hr, hd⟩, hv⟩
  · rintro ⟨⟨r, hr, hd⟩, hv⟩
    exact List.mem_flatMap.mpr ⟨r, hr, docsFor_complete w hd hv s.n (w.roots_lt r hr) (by omega)⟩

theorem mem_pages_iff {s : Sys} (w : WF s) (i : Nat) :
    i ∈ pages s ↔ reachable s i ∧ visible s i = true ∧ (s.ob i).kind.ownPage = true := by
  unfold pages
  rw [List.mem_filter, mem_reached_iff w]
  constructor
  · rintro ⟨⟨a, b⟩, c⟩; exact ⟨a, b, c⟩
  · rintro ⟨a, b, c⟩; exact ⟨⟨a, b⟩, c⟩

theorem visible_of_mem_pages {s : Sys} {i : Nat} (h : i ∈ pages s) : visible s i = true := by
  unfold pages reached at h
  obtain ⟨h, _⟩ := List.mem_filter.mp h
  obtain ⟨r, _, hi⟩ := List.mem_flatMap.mp h
  exact (docsFor_sound s _ _ _ hi).2

theorem reachable_child {s : Sys} {p c : Nat} (h : reachable s p) (hc : c ∈ (s.ob p).contents) : reachable s c := by
  obtain ⟨r, hr, hd⟩ := h
  exact ⟨r, hr, hd.tail hc⟩

theorem reachable_parent {s : Sys} (w : WF s) {i q : Nat} (h : reachable s i) (hp : (s.ob i).parent = some q) :
    reachable s q := by
  obtain ⟨r, hr, hd⟩ := h
  rcases hd.tail_cases with rfl | ⟨p, hdp, hi⟩
  · rw [w.roots_parent _ hr] at hp; cases hp
  · have := w.contents_parent p i hi
    rw [hp] at this
    cases this
    exact ⟨r, hr, hdp⟩

theorem reachable_cases {s : Sys} (w : WF s) {i : Nat} (h : reachable s i) :
    (i ∈ s.roots ∧ (s.ob i).parent = none) ∨ ∃ p, (s.ob i).parent = some p ∧ reachable s p ∧ i ∈ (s.ob p).contents := by
  obtain ⟨r, hr, hd⟩ := h
  rcases hd.tail_cases with rfl | ⟨p, hdp, hi⟩
  · exact .inl ⟨hr, w.roots_parent _ hr⟩
  · exact .inr ⟨p, w.contents_parent p i hi, ⟨r, hr, hdp⟩, hi⟩

end Output
