/-
C04, the pydoctor machine (`Imports.run`): registry-level facts about the two state changes the
visitor makes (`setAlias`, `addObj`), the invariant `PdInv` tying every object, alias entry and
`contents` entry of a reachable state to the static project, and its preservation.
-/
import PdProps.C04a

namespace Imports
open Registry

/-! ## registry-level lemmas -/

/-- the part of an object the C02 invariant talks about -/
def ocore (o : Obj) : Name × Option Nat × List (Name × Nat) := (o.name, o.parent, o.contents)

theorem length_eq_of_agree {α β : Type} {f : α → β} {l l' : List α}
    (h : ∀ i : Nat, (l'[i]?).map f = (l[i]?).map f) : l'.length = l.length := by
  have h1 : ¬ l'.length < l.length := by
    intro hlt
    have := h l'.length
    rw [List.getElem?_eq_none (Nat.le_refl _), List.getElem?_eq_getElem hlt] at this
    simp at this
  have h2 : ¬ l.length < l'.length := by
    intro hlt
    have := h l.length
    rw [List.getElem?_eq_none (Nat.le_refl _), List.getElem?_eq_getElem hlt] at this
    simp at this
  omega

theorem agree_get {objs objs' : List Obj} (h : ∀ i : Nat, (objs'[i]?).map ocore = (objs[i]?).map ocore)
    {i : Nat} {o' : Obj} (ho : objs'[i]? = some o') :
    ∃ o, objs[i]? = some o ∧ o'.name = o.name ∧ o'.parent = o.parent ∧ o'.contents = o.contents := by
  have := h i
  rw [ho] at this
  cases hx : objs[i]? with
  | none => rw [hx] at this; simp at this
  | some o =>
    rw [hx] at this
    simp only [Option.map_some, Option.some.injEq, ocore, Prod.mk.injEq] at this
    exact ⟨o, rfl, this.1, this.2.1, this.2.2⟩

theorem agree_symm {objs objs' : List Obj} (h : ∀ i : Nat, (objs'[i]?).map ocore = (objs[i]?).map ocore) :
    ∀ i : Nat, (objs[i]?).map ocore = (objs'[i]?).map ocore := fun i => (h i).symm

theorem agree_okey {objs objs' : List Obj} (h : ∀ i : Nat, (objs'[i]?).map ocore = (objs[i]?).map ocore) :
    ∀ i : Nat, (objs'[i]?).map okey = (objs[i]?).map okey := by
  intro i
  have := h i
  cases h1 : objs'[i]? <;> cases h2 : objs[i]? <;> simp_all [ocore, okey]

/-- the C02 invariant does not look at alias maps or object classes -/
theorem inv_congr {s : State} {objs' : List Obj} (hI : Inv s)
    (h : ∀ i : Nat, (objs'[i]?).map ocore = (s.objs[i]?).map ocore) :
    Inv { s with objs := objs' } := by
  have hlen := length_eq_of_agree h
  have hpath : ∀ i, path { s with objs := objs' } i = path s i := by
    intro i; simp only [path, hlen]; exact pathAux_congr (agree_okey h) _ _
  refine ⟨⟨hI.reg.uniq, fun k i hk => (hpath i).trans (hI.reg.keys k i hk), ?_⟩, ?_, ⟨?_, ?_, ?_, ?_⟩⟩
  · intro i o' q hr ho' hq
    obtain ⟨o, ho, _, hp, _⟩ := agree_get h ho'
    exact hI.reg.up i o q hr ho (hp ▸ hq)
  · intro i hi; exact hI.full i (hlen ▸ hi)
  · intro p po' hpo'
    obtain ⟨po, hpo, _, _, hc⟩ := agree_get h hpo'
    rw [hc]; exact hI.tree.cuniq p po hpo
  · intro p po' k c hpo' hkc
    obtain ⟨po, hpo, _, _, hc⟩ := agree_get h hpo'
    obtain ⟨co, hco, hcp, hcn⟩ := hI.tree.coh p po k c hpo (hc ▸ hkc)
    have := agree_symm h c
    rw [hco] at this
    cases hx : objs'[c]? with
    | none => rw [hx] at this; simp at this
    | some co' =>
      rw [hx] at this
      simp only [Option.map_some, Option.some.injEq, ocore, Prod.mk.injEq] at this
      exact ⟨co', rfl, this.2.1 ▸ hcp, this.1 ▸ hcn⟩
  · intro i o' ho'
    obtain ⟨o, ho, hn, hp, _⟩ := agree_get h ho'
    obtain ⟨l1, l2⟩ := hI.tree.listed i o ho
    refine ⟨fun hpn => l1 (hp ▸ hpn), fun p hpp => ?_⟩
    obtain ⟨po, hpo, hd⟩ := l2 p (hp ▸ hpp)
    have := agree_symm h p
    rw [hpo] at this
    cases hx : objs'[p]? with
    | none => rw [hx] at this; simp at this
    | some po' =>
      rw [hx] at this
      simp only [Option.map_some, Option.some.injEq, ocore, Prod.mk.injEq] at this
      exact ⟨po', rfl, by rw [hn, ← this.2.2]; exact hd⟩
  · intro r hr
    obtain ⟨o, ho, hp⟩ := hI.tree.rootsOk r hr
    have := agree_symm h r
    rw [ho] at this
    cases hx : objs'[r]? with
    | none => rw [hx] at this; simp at this
    | some o' =>
      rw [hx] at this
      simp only [Option.map_some, Option.some.injEq, ocore, Prod.mk.injEq] at this
      exact ⟨o', rfl, this.2.1 ▸ hp⟩

theorem modify_aliases_agree (objs : List Obj) (j : Nat) (g : Obj → List (Name × Path)) :
    ∀ i : Nat, ((objs.modify j (fun o => { o with aliases := g o }))[i]?).map ocore = (objs[i]?).map ocore := by
  intro i
  by_cases h : i = j
  · subst h; rw [getElem?_modify_eq]; cases objs[i]? <;> simp [ocore]
  · rw [getElem?_modify_ne _ h]

theorem path_lt {s : State} {i : Nat} {k : Path} (h : path s i = some k) : i < s.objs.length :=
  (path_sound h).lt

/-- the object list after a fresh `addObject` under parent `p` -/
def objsAfterAdd (s : State) (c : Cls) (name : Name) (p : Nat) : List Obj :=
  (s.objs ++ [(⟨name, some p, c, [], []⟩ : Obj)]).modify p
    (fun po => { po with contents := dset po.contents name s.objs.length })

theorem objsAfterAdd_get_new {s : State} {c : Cls} {name : Name} {p : Nat} (hp : p < s.objs.length) :
    (objsAfterAdd s c name p)[s.objs.length]? = some (⟨name, some p, c, [], []⟩ : Obj) := by
  unfold objsAfterAdd
  rw [get_append_modify _ hp]; simp

theorem objsAfterAdd_get_old {s : State} {c : Cls} {name : Name} {p : Nat} (hp : p < s.objs.length)
    {i : Nat} {o : Obj} (ho : s.objs[i]? = some o) :
    (objsAfterAdd s c name p)[i]? =
      some (if i = p then { o with contents := dset o.contents name s.objs.length } else o) := by
  unfold objsAfterAdd
  have hi := (List.getElem?_eq_some_iff.1 ho).1
  rw [get_append_modify _ hp, ho]
  have : i ≠ s.objs.length := Nat.ne_of_lt hi
  simp only [this, if_false, Option.map_some]

theorem objsAfterAdd_length {s : State} {c : Cls} {name : Name} {p : Nat} :
    (objsAfterAdd s c name p).length = s.objs.length + 1 := by
  simp [objsAfterAdd]

theorem objsAfterAdd_okey {s : State} {c : Cls} {name : Name} {p : Nat} :
    ∀ i : Nat, ((objsAfterAdd s c name p)[i]?).map okey =
      ((s.objs ++ [(⟨name, some p, c, [], []⟩ : Obj)])[i]?).map okey := by
  intro i
  unfold objsAfterAdd
  exact modify_agree_okey _ p (fun po => { po with contents := dset po.contents name s.objs.length }) (fun o => rfl) i

/-- paths of old objects survive `addObject` -/
theorem path_afterAdd_old {s : State} {c : Cls} {name : Name} {p : Nat} {all' : List (Path × Nat)} {roots' : List Nat}
    {i : Nat} {k : Path} (h : path s i = some k) :
    path ⟨objsAfterAdd s c name p, all', roots'⟩ i = some k := by
  simp only [path, objsAfterAdd_length] at h ⊢
  rw [pathAux_congr objsAfterAdd_okey]
  exact pathAux_mono (pathAux_append _ h)

theorem path_afterAdd_new {s : State} {c : Cls} {name : Name} {p : Nat} {all' : List (Path × Nat)} {roots' : List Nat}
    {pp : Path} (h : path s p = some pp) :
    path ⟨objsAfterAdd s c name p, all', roots'⟩ s.objs.length = some (pp ++ [name]) := by
  have hp := path_lt h
  have hold := path_afterAdd_old (c := c) (name := name) (p := p) (all' := all') (roots' := roots') h
  simp only [path, objsAfterAdd_length] at hold ⊢
  rw [pathAux_child (objsAfterAdd_get_new hp) rfl]
  -- one unit of fuel less is still enough for the parent
  have h0 : pathAux (objsAfterAdd s c name p) (s.objs.length + 1) p = some pp := by
    simp only [path] at h
    rw [pathAux_congr objsAfterAdd_okey]
    exact pathAux_append _ h
  rw [h0]; rfl

theorem addObject_fresh {s : State} {c : Cls} {name : Name} {p : Nat} {pp : Path}
    (h : path s p = some pp) (hf : dget s.all (pp ++ [name]) = none) :
    addObject s c name (some p) =
      .ok ⟨objsAfterAdd s c name p, s.all ++ [(pp ++ [name], s.objs.length)], s.roots⟩ := by
  have hp := path_lt h
  unfold addObject place
  simp only [hp, if_true]
  unfold register
  have hn := path_afterAdd_new (c := c) (name := name) (all' := s.all) (roots' := s.roots) h
  simp only [modifyObj]
  have hn' : path { objs := (s.objs ++ [(⟨name, some p, c, [], []⟩ : Obj)]).modify p fun po =>
      { po with contents := dset po.contents name s.objs.length }, all := s.all, roots := s.roots } s.objs.length
      = some (pp ++ [name]) := hn
  rw [hn']
  simp only [hf]
  rfl

/-! ## the invariant -/

def stKind : Stmt → Option (Name × Cls)
  | .classDef n _ _ => some (n, .cls)
  | .funcDef n => some (n, .function)
  | .assign n _ => some (n, .attribute)
  | _ => none

theorem stKind_defName {st : Stmt} {n : Name} {c : Cls} (h : stKind st = some (n, c)) : st.defName = some n := by
  cases st <;> simp_all [stKind, Stmt.defName]

def modCls (proj : Project) (m : Nat) : Cls := if isPkg proj m then .package else .module

/-- object class `c` is what pydoctor creates for the site -/
inductive ObjKind (proj : Project) : Site → Cls → Prop
  | mod {m : Nat} : m < proj.length → ObjKind proj (m, []) (modCls proj m)
  | dfn {m : Nat} {cp : List Name} {b : List Stmt} {st : Stmt} {n : Name} {c : Cls} :
      siteBody proj (m, cp) = some b → st ∈ b → stKind st = some (n, c) → ObjKind proj (m, cp ++ [n]) c

theorem ObjKind.static {proj : Project} {S : Site} {c : Cls} (h : ObjKind proj S c) : StaticSite proj S := by
  cases h with
  | mod hm => exact ⟨hm, Or.inl rfl⟩
  | @dfn m cp b st n c hb hst hk => exact ⟨(siteBody_lt hb : (m, cp).1 < proj.length), Or.inr ⟨cp, n, b, st, rfl, hb, hst, stKind_defName hk⟩⟩

theorem ObjKind.isMod {proj : Project} {S : Site} {c : Cls} (h : ObjKind proj S c) :
    isModuleCls c = true ↔ S.2 = [] := by
  cases h with
  | mod hm => simp only [modCls]; split <;> simp [isModuleCls]
  | @dfn m cp b st n c hb hst hk =>
    cases st <;> simp_all [stKind, isModuleCls]
    all_goals (obtain ⟨_, rfl⟩ := hk; simp)

def HasEntry (s : St) (ctx : Nat) (x : Name) : Prop :=
  ∃ o, s.reg.objs[ctx]? = some o ∧ (dget o.contents x ≠ none ∨ dget o.aliases x ≠ none)

mutual
/-- every binding statement of a visited body left an entry in the scope's object (and every
class statement a class object whose own body is complete) -/
def CompleteStmt (s : St) (ctx : Nat) : Stmt → Prop
  | .classDef n _ body => ∃ c o po, s.reg.objs[ctx]? = some po ∧ dget po.contents n = some c ∧
      s.reg.objs[c]? = some o ∧ o.cls = .cls ∧ CompleteStmts s c body
  | .importMod t a => ∀ x ∈ explicitNames (.importMod t a), HasEntry s ctx x
  | .importFrom _ _ n a => HasEntry s ctx (a.getD n)
  | .importStar _ _ => True
  | .funcDef n => HasEntry s ctx n
  | .assign n _ => HasEntry s ctx n
  | .allAssign _ => True
def CompleteStmts (s : St) (ctx : Nat) : List Stmt → Prop
  | [] => True
  | st :: rest => CompleteStmt s ctx st ∧ CompleteStmts s ctx rest
end

/-- processing states only move forward, and a finished call leaves nothing in `processing` that was not -/
def PsRel (s s' : St) : Prop :=
  ∀ t, (getPs s t = .processing → getPs s' t = .processing) ∧
       (getPs s t = .processed → getPs s' t = .processed) ∧
       (getPs s t = .unprocessed → getPs s' t ≠ .processing)

theorem PsRel.refl (s : St) : PsRel s s := fun t => ⟨id, id, fun h => by rw [h]; simp⟩

theorem PsRel.trans {a b c : St} (h1 : PsRel a b) (h2 : PsRel b c) : PsRel a c := by
  intro t
  obtain ⟨a1, a2, a3⟩ := h1 t
  obtain ⟨b1, b2, b3⟩ := h2 t
  refine ⟨fun h => b1 (a1 h), fun h => b2 (a2 h), fun h => ?_⟩
  have := a3 h
  cases hb : getPs b t with
  | unprocessed => exact b3 hb
  | processing => exact absurd hb this
  | processed => rw [b2 hb]; simp

/-- the later state extends the earlier one: objects, their classes, entries and names persist -/
structure Ext (s s' : St) : Prop where
  objs : ∀ (i : Nat) (o : Obj), s.reg.objs[i]? = some o → ∃ o' : Obj, s'.reg.objs[i]? = some o' ∧ o'.cls = o.cls ∧
    (∀ k c, dget o.contents k = some c → dget o'.contents k = some c) ∧
    (∀ k, dget o.aliases k ≠ none → dget o'.aliases k ≠ none)
  paths : ∀ i k, path s.reg i = some k → path s'.reg i = some k
  ps : PsRel s s'

theorem Ext.refl (s : St) : Ext s s :=
  ⟨fun i o h => ⟨o, h, rfl, fun _ _ h => h, fun _ h => h⟩, fun _ _ h => h, PsRel.refl s⟩

theorem Ext.trans {a b c : St} (h1 : Ext a b) (h2 : Ext b c) : Ext a c := by
  refine ⟨fun i o ho => ?_, fun i k hk => h2.paths i k (h1.paths i k hk), h1.ps.trans h2.ps⟩
  obtain ⟨o1, ho1, c1, d1, e1⟩ := h1.objs i o ho
  obtain ⟨o2, ho2, c2, d2, e2⟩ := h2.objs i o1 ho1
  exact ⟨o2, ho2, c2.trans c1, fun k c h => d2 k c (d1 k c h), fun k h => e2 k (e1 k h)⟩

theorem HasEntry.ext {s s' : St} (h : Ext s s') {ctx : Nat} {x : Name} (he : HasEntry s ctx x) : HasEntry s' ctx x := by
  obtain ⟨o, ho, hx⟩ := he
  obtain ⟨o', ho', _, hc, ha⟩ := h.objs ctx o ho
  refine ⟨o', ho', ?_⟩
  rcases hx with hx | hx
  · left
    cases hd : dget o.contents x with
    | none => exact absurd hd hx
    | some c => rw [hc x c hd]; simp
  · exact Or.inr (ha x hx)

mutual
theorem CompleteStmt.ext {s s' : St} (h : Ext s s') : ∀ {ctx : Nat} (st : Stmt), CompleteStmt s ctx st → CompleteStmt s' ctx st
  | ctx, .classDef n bs body, hc => by
    simp only [CompleteStmt] at hc ⊢
    obtain ⟨c, o, po, hpo, hd, ho, hcl, hb⟩ := hc
    obtain ⟨po', hpo', _, hcc, _⟩ := h.objs ctx po hpo
    obtain ⟨o', ho', hcl', _, _⟩ := h.objs c o ho
    exact ⟨c, o', po', hpo', hcc n c hd, ho', hcl'.trans hcl, CompleteStmts.ext h body hb⟩
  | ctx, .importMod t a, hc => by
    simp only [CompleteStmt] at hc ⊢
    exact fun x hx => (hc x hx).ext h
  | ctx, .importFrom _ _ n a, hc => by simp only [CompleteStmt] at hc ⊢; exact hc.ext h
  | ctx, .importStar _ _, _ => by simp [CompleteStmt]
  | ctx, .funcDef n, hc => by simp only [CompleteStmt] at hc ⊢; exact hc.ext h
  | ctx, .assign n _, hc => by simp only [CompleteStmt] at hc ⊢; exact hc.ext h
  | ctx, .allAssign _, _ => by simp [CompleteStmt]
theorem CompleteStmts.ext {s s' : St} (h : Ext s s') : ∀ {ctx : Nat} (sts : List Stmt), CompleteStmts s ctx sts → CompleteStmts s' ctx sts
  | _, [], _ => by simp [CompleteStmts]
  | ctx, st :: rest, hc => by
    simp only [CompleteStmts] at hc ⊢
    exact ⟨CompleteStmt.ext h st hc.1, CompleteStmts.ext h rest hc.2⟩
end

/-- **the invariant of reachable, well-behaved states** -/
structure PdInv (proj : Project) (s : St) : Prop where
  reg : Inv s.reg
  lens : s.ps.length = proj.length ∧ s.alls.length = proj.length
  mods : ∀ m, m < proj.length → ∃ o, s.reg.objs[m]? = some o ∧ path s.reg m = some (pathOf proj m) ∧ o.cls = modCls proj m
  site : ∀ i o, s.reg.objs[i]? = some o → ∃ S, ObjKind proj S o.cls ∧ path s.reg i = some (sitePath proj S)
  alias : ∀ i o S, s.reg.objs[i]? = some o → path s.reg i = some (sitePath proj S) → StaticSite proj S →
    ∀ x tgt, dget o.aliases x = some tgt → Jpd proj S x tgt
  cont : ∀ m o, m < proj.length → s.reg.objs[m]? = some o → ∀ x c, dget o.contents x = some c →
    x ∈ childNames proj m ∨ ∃ st ∈ bodyOf proj m, st.defName = some x
  alls : ∀ m l, getAll s m = some l → ∀ x ∈ l, x ∈ allNames (bodyOf proj m)
  started : ∀ i S, path s.reg i = some (sitePath proj S) → StaticSite proj S → S.2 ≠ [] → getPs s S.1 ≠ .unprocessed
  cinfo : ∀ c, initialBases s c = []
  complete : ∀ m md, proj[m]? = some md → getPs s m = .processed → CompleteStmts s m md.body

end Imports
