/-
C04, the pydoctor machine (`Imports.run`): registry-level facts about the two state changes the
visitor makes (`setAlias`, `addObj`), the invariant `PdInv` tying every object, alias entry and
`contents` entry of a reachable state to the static project, and its preservation.
-/
import PdProps.C04a

namespace Imports
open Registry

/-! ## registry-level lemmas -/

/-- the part of an object the C02 invariant talks about -/
def ocore (o : Obj) : Name × Option Nat × List (Name × Nat) := (o.name, o.parent, o.contents)

theorem length_eq_of_agree {α β : Type} {f : α → β} {l l' : List α}
    (h : ∀ i : Nat, (l'[i]?).map f = (l[i]?).map f) : l'.length = l.length := by
  have h1 : ¬ l'.length < l.length := by
    intro hlt
    have := h l'.length
    rw [List.getElem?_eq_none (Nat.le_refl _), List.getElem?_eq_getElem hlt] at this
    simp at this
  have h2 : ¬ l.length < l'.length := by
    intro hlt
    have := h l.length
    rw [List.getElem?_eq_none (Nat.le_refl _), List.getElem?_eq_getElem hlt] at this
    simp at this
  omega

theorem agree_get {objs objs' : List Obj} (h : ∀ i : Nat, (objs'[i]?).map ocore = (objs[i]?).map ocore)
    {i : Nat} {o' : Obj} (ho : objs'[i]? = some o') :
    ∃ o, objs[i]? = some o ∧ o'.name = o.name ∧ o'.parent = o.parent ∧ o'.contents = o.contents := by
  have := h i
  rw [ho] at this
  cases hx : objs[i]? with
  | none => rw [hx] at this; simp at this
  | some o =>
    rw [hx] at this
    simp only [Option.map_some, Option.some.injEq, ocore, Prod.mk.injEq] at this
    exact ⟨o, rfl, this.1, this.2.1, this.2.2⟩

theorem agree_symm {objs objs' : List Obj} (h : ∀ i : Nat, (objs'[i]?).map ocore = (objs[i]?).map ocore) :
    ∀ i : Nat, (objs[i]?).map ocore = (objs'[i]?).map ocore := fun i => (h i).symm

theorem agree_okey {objs objs' : List Obj} (h : ∀ i : Nat, (objs'[i]?).map ocore = (objs[i]?).map ocore) :
    ∀ i : Nat, (objs'[i]?).map okey = (objs[i]?).map okey := by
  intro i
  have := h i
  cases h1 : objs'[i]? <;> cases h2 : objs[i]? <;> simp_all [ocore, okey]

/-- the C02 invariant does not look at alias maps or object classes -/
theorem inv_congr {s : State} {objs' : List Obj} (hI : Inv s)
    (h : ∀ i : Nat, (objs'[i]?).map ocore = (s.objs[i]?).map ocore) :
    Inv { s with objs := objs' } := by
  have hlen := length_eq_of_agree h
  have hpath : ∀ i, path { s with objs := objs' } i = path s i := by
    intro i; simp only [path, hlen]; exact pathAux_congr (agree_okey h) _ _
  refine ⟨⟨hI.reg.uniq, fun k i hk => (hpath i).trans (hI.reg.keys k i hk), ?_⟩, ?_, ⟨?_, ?_, ?_, ?_⟩⟩
  · intro i o' q hr ho' hq
    obtain ⟨o, ho, _, hp, _⟩ := agree_get h ho'
    exact hI.reg.up i o q hr ho (hp ▸ hq)
  · intro i hi; exact hI.full i (hlen ▸ hi)
  · intro p po' hpo'
    obtain ⟨po, hpo, _, _, hc⟩ := agree_get h hpo'
    rw [hc]; exact hI.tree.cuniq p po hpo
  · intro p po' k c hpo' hkc
    obtain ⟨po, hpo, _, _, hc⟩ := agree_get h hpo'
    obtain ⟨co, hco, hcp, hcn⟩ := hI.tree.coh p po k c hpo (hc ▸ hkc)
    have := agree_symm h c
    rw [hco] at this
    cases hx : objs'[c]? with
    | none => rw [hx] at this; simp at this
    | some co' =>
      rw [hx] at this
      simp only [Option.map_some, Option.some.injEq, ocore, Prod.mk.injEq] at this
      exact ⟨co', rfl, this.2.1 ▸ hcp, this.1 ▸ hcn⟩
  · intro i o' ho'
    obtain ⟨o, ho, hn, hp, _⟩ := agree_get h ho'
    obtain ⟨l1, l2⟩ := hI.tree.listed i o ho
    refine ⟨fun hpn => l1 (hp ▸ hpn), fun p hpp => ?_⟩
    obtain ⟨po, hpo, hd⟩ := l2 p (hp ▸ hpp)
    have := agree_symm h p
    rw [hpo] at this
    cases hx : objs'[p]? with
    | none => rw [hx] at this; simp at this
    | some po' =>
      rw [hx] at this
      simp only [Option.map_some, Option.some.injEq, ocore, Prod.mk.injEq] at this
      exact ⟨po', rfl, by rw [hn, ← this.2.2]; exact hd⟩
  · intro r hr
    obtain ⟨o, ho, hp⟩ := hI.tree.rootsOk r hr
    have := agree_symm h r
    rw [ho] at this
    cases hx : objs'[r]? with
    | none => rw [hx] at this; simp at this
    | some o' =>
      rw [hx] at this
      simp only [Option.map_some, Option.some.injEq, ocore, Prod.mk.injEq] at this
      exact ⟨o', rfl, this.2.1 ▸ hp⟩

theorem modify_aliases_agree (objs : List Obj) (j : Nat) (g : Obj → List (Name × Path)) :
    ∀ i : Nat, ((objs.modify j (fun o => { o with aliases := g o }))[i]?).map ocore = (objs[i]?).map ocore := by
  intro i
  by_cases h : i = j
  · subst h; rw [getElem?_modify_eq]; cases objs[i]? <;> simp [ocore]
  · rw [getElem?_modify_ne _ h]

theorem path_lt {s : State} {i : Nat} {k : Path} (h : path s i = some k) : i < s.objs.length :=
  (path_sound h).lt

/-- the object list after a fresh `addObject` under parent `p` -/
def objsAfterAdd (s : State) (c : Cls) (name : Name) (p : Nat) : List Obj :=
  (s.objs ++ [(⟨name, some p, c, [], []⟩ : Obj)]).modify p
    (fun po => { po with contents := dset po.contents name s.objs.length })

theorem objsAfterAdd_get_new {s : State} {c : Cls} {name : Name} {p : Nat} (hp : p < s.objs.length) :
    (objsAfterAdd s c name p)[s.objs.length]? = some (⟨name, some p, c, [], []⟩ : Obj) := by
  unfold objsAfterAdd
  rw [get_append_modify _ hp]; simp

theorem objsAfterAdd_get_old {s : State} {c : Cls} {name : Name} {p : Nat} (hp : p < s.objs.length)
    {i : Nat} {o : Obj} (ho : s.objs[i]? = some o) :
    (objsAfterAdd s c name p)[i]? =
      some (if i = p then { o with contents := dset o.contents name s.objs.length } else o) := by
  unfold objsAfterAdd
  have hi := (List.getElem?_eq_some_iff.1 ho).1
  rw [get_append_modify _ hp, ho]
  have : i ≠ s.objs.length := Nat.ne_of_lt hi
  simp only [this, if_false, Option.map_some]

theorem objsAfterAdd_length {s : State} {c : Cls} {name : Name} {p : Nat} :
    (objsAfterAdd s c name p).length = s.objs.length + 1 := by
  simp [objsAfterAdd]

theorem objsAfterAdd_okey {s : State} {c : Cls} {name : Name} {p : Nat} :
    ∀ i : Nat, ((objsAfterAdd s c name p)[i]?).map okey =
      ((s.objs ++ [(⟨name, some p, c, [], []⟩ : Obj)])[i]?).map okey := by
  intro i
  unfold objsAfterAdd
  exact modify_agree_okey _ p (fun po => { po with contents := dset po.contents name s.objs.length }) (fun o => rfl) i

/-- paths of old objects survive `addObject` -/
theorem path_afterAdd_old {s : State} {c : Cls} {name : Name} {p : Nat} {all' : List (Path × Nat)} {roots' : List Nat}
    {i : Nat} {k : Path} (h : path s i = some k) :
    path ⟨objsAfterAdd s c name p, all', roots'⟩ i = some k := by
  simp only [path, objsAfterAdd_length] at h ⊢
  rw [pathAux_congr objsAfterAdd_okey]
  exact pathAux_mono (pathAux_append _ h)

theorem path_afterAdd_new {s : State} {c : Cls} {name : Name} {p : Nat} {all' : List (Path × Nat)} {roots' : List Nat}
    {pp : Path} (h : path s p = some pp) :
    path ⟨objsAfterAdd s c name p, all', roots'⟩ s.objs.length = some (pp ++ [name]) := by
  have hp := path_lt h
  have hold := path_afterAdd_old (c := c) (name := name) (p := p) (all' := all') (roots' := roots') h
  simp only [path, objsAfterAdd_length] at hold ⊢
  rw [pathAux_child (objsAfterAdd_get_new hp) rfl]
  -- one unit of fuel less is still enough for the parent
  have h0 : pathAux (objsAfterAdd s c name p) (s.objs.length + 1) p = some pp := by
    simp only [path] at h
    rw [pathAux_congr objsAfterAdd_okey]
    exact pathAux_append _ h
  rw [h0]; rfl

theorem addObject_fresh {s : State} {c : Cls} {name : Name} {p : Nat} {pp : Path}
    (h : path s p = some pp) (hf : dget s.all (pp ++ [name]) = none) :
    addObject s c name (some p) =
      .ok ⟨objsAfterAdd s c name p, s.all ++ [(pp ++ [name], s.objs.length)], s.roots⟩ := by
  have hp := path_lt h
  unfold addObject place
  simp only [hp, if_true]
  unfold register
  have hn := path_afterAdd_new (c := c) (name := name) (all' := s.all) (roots' := s.roots) h
  simp only [modifyObj]
  have hn' : path { objs := (s.objs ++ [(⟨name, some p, c, [], []⟩ : Obj)]).modify p fun po =>
      { po with contents := dset po.contents name s.objs.length }, all := s.all, roots := s.roots } s.objs.length
      = some (pp ++ [name]) := hn
  rw [hn']
  simp only [hf]
  rfl

/-! ## the invariant -/

def stKind : Stmt → Option (Name × Cls)
  | .classDef n _ _ => some (n, .cls)
  | .funcDef n => some (n, .function)
  | .assign n _ => some (n, .attribute)
  | _ => none

theorem stKind_defName {st : Stmt} {n : Name} {c : Cls} (h : stKind st = some (n, c)) : st.defName = some n := by
  cases st <;> simp_all [stKind, Stmt.defName]

def modCls (proj : Project) (m : Nat) : Cls := if isPkg proj m then .package else .module

/-- object class `c` is what pydoctor creates for the site -/
inductive ObjKind (proj : Project) : Site → Cls → Prop
  | mod {m : Nat} : m < proj.length → ObjKind proj (m, []) (modCls proj m)
  | dfn {m : Nat} {cp : List Name} {b : List Stmt} {st : Stmt} {n : Name} {c : Cls} :
      siteBody proj (m, cp) = some b → st ∈ b → stKind st = some (n, c) → ObjKind proj (m, cp ++ [n]) c

theorem ObjKind.static {proj : Project} {S : Site} {c : Cls} (h : ObjKind proj S c) : StaticSite proj S := by
  cases h with
  | mod hm => exact ⟨hm, Or.inl rfl⟩
  | @dfn m cp b st n c hb hst hk => exact ⟨(siteBody_lt hb : (m, cp).1 < proj.length), Or.inr ⟨cp, n, b, st, rfl, hb, hst, stKind_defName hk⟩⟩

theorem ObjKind.isMod {proj : Project} {S : Site} {c : Cls} (h : ObjKind proj S c) :
    isModuleCls c = true ↔ S.2 = [] := by
  cases h with
  | mod hm => simp only [modCls]; split <;> simp [isModuleCls]
  | @dfn m cp b st n c hb hst hk =>
    cases st <;> simp_all [stKind, isModuleCls]
    all_goals (obtain ⟨_, rfl⟩ := hk; simp)

def HasEntry (s : St) (ctx : Nat) (x : Name) : Prop :=
  ∃ o, s.reg.objs[ctx]? = some o ∧ (dget o.contents x ≠ none ∨ dget o.aliases x ≠ none)

def HasContent (s : St) (ctx : Nat) (x : Name) : Prop :=
  ∃ o c, s.reg.objs[ctx]? = some o ∧ dget o.contents x = some c

theorem HasContent.entry {s : St} {ctx : Nat} {x : Name} (h : HasContent s ctx x) : HasEntry s ctx x := by
  obtain ⟨o, c, ho, hd⟩ := h
  exact ⟨o, ho, Or.inl (by rw [hd]; simp)⟩

mutual
/-- every binding statement of a visited body left an entry in the scope's object (and every
class statement a class object whose own body is complete) -/
def CompleteStmt (s : St) (ctx : Nat) : Stmt → Prop
  | .classDef n _ body => ∃ c o po, s.reg.objs[ctx]? = some po ∧ dget po.contents n = some c ∧
      s.reg.objs[c]? = some o ∧ o.cls = .cls ∧ CompleteStmts s c body
  | .importMod t a => ∀ x ∈ explicitNames (.importMod t a), HasEntry s ctx x
  | .importFrom _ _ n a => HasEntry s ctx (a.getD n)
  | .importStar _ _ => True
  | .funcDef n => HasContent s ctx n
  | .assign n _ => HasContent s ctx n
  | .allAssign _ => True
def CompleteStmts (s : St) (ctx : Nat) : List Stmt → Prop
  | [] => True
  | st :: rest => CompleteStmt s ctx st ∧ CompleteStmts s ctx rest
end

/-- processing states only move forward, and a finished call leaves nothing in `processing` that was not -/
def PsRel (s s' : St) : Prop :=
  ∀ t, (getPs s t = .processing → getPs s' t = .processing) ∧
       (getPs s t = .processed → getPs s' t = .processed) ∧
       (getPs s t = .unprocessed → getPs s' t ≠ .processing)

theorem PsRel.refl (s : St) : PsRel s s := fun t => ⟨id, id, fun h => by rw [h]; simp⟩

theorem PsRel.trans {a b c : St} (h1 : PsRel a b) (h2 : PsRel b c) : PsRel a c := by
  intro t
  obtain ⟨a1, a2, a3⟩ := h1 t
  obtain ⟨b1, b2, b3⟩ := h2 t
  refine ⟨fun h => b1 (a1 h), fun h => b2 (a2 h), fun h => ?_⟩
  have := a3 h
  cases hb : getPs b t with
  | unprocessed => exact b3 hb
  | processing => exact absurd hb this
  | processed => rw [b2 hb]; simp

/-- the later state extends the earlier one: objects, their classes, entries and names persist -/
structure Ext (s s' : St) : Prop where
  objs : ∀ (i : Nat) (o : Obj), s.reg.objs[i]? = some o → ∃ o' : Obj, s'.reg.objs[i]? = some o' ∧ o'.cls = o.cls ∧
    (∀ k c, dget o.contents k = some c → dget o'.contents k = some c) ∧
    (∀ k, dget o.aliases k ≠ none → dget o'.aliases k ≠ none)
  paths : ∀ i k, path s.reg i = some k → path s'.reg i = some k
  ps : PsRel s s'

theorem Ext.refl (s : St) : Ext s s :=
  ⟨fun i o h => ⟨o, h, rfl, fun _ _ h => h, fun _ h => h⟩, fun _ _ h => h, PsRel.refl s⟩

theorem Ext.trans {a b c : St} (h1 : Ext a b) (h2 : Ext b c) : Ext a c := by
  refine ⟨fun i o ho => ?_, fun i k hk => h2.paths i k (h1.paths i k hk), h1.ps.trans h2.ps⟩
  obtain ⟨o1, ho1, c1, d1, e1⟩ := h1.objs i o ho
  obtain ⟨o2, ho2, c2, d2, e2⟩ := h2.objs i o1 ho1
  exact ⟨o2, ho2, c2.trans c1, fun k c h => d2 k c (d1 k c h), fun k h => e2 k (e1 k h)⟩

theorem HasEntry.ext {s s' : St} (h : Ext s s') {ctx : Nat} {x : Name} (he : HasEntry s ctx x) : HasEntry s' ctx x := by
  obtain ⟨o, ho, hx⟩ := he
  obtain ⟨o', ho', _, hc, ha⟩ := h.objs ctx o ho
  refine ⟨o', ho', ?_⟩
  rcases hx with hx | hx
  · left
    cases hd : dget o.contents x with
    | none => exact absurd hd hx
    | some c => rw [hc x c hd]; simp
  · exact Or.inr (ha x hx)

/-- objects, classes and entries persist -/
def ExtObjs (s s' : St) : Prop :=
  ∀ (i : Nat) (o : Obj), s.reg.objs[i]? = some o → ∃ o' : Obj, s'.reg.objs[i]? = some o' ∧ o'.cls = o.cls ∧
    (∀ k c, dget o.contents k = some c → dget o'.contents k = some c) ∧
    (∀ k, dget o.aliases k ≠ none → dget o'.aliases k ≠ none)

theorem HasEntry.extObjs {s s' : St} (h : ExtObjs s s') {ctx : Nat} {x : Name} (he : HasEntry s ctx x) : HasEntry s' ctx x := by
  obtain ⟨o, ho, hx⟩ := he
  obtain ⟨o', ho', _, hc, ha⟩ := h ctx o ho
  refine ⟨o', ho', ?_⟩
  rcases hx with hx | hx
  · left
    cases hd : dget o.contents x with
    | none => exact absurd hd hx
    | some c => rw [hc x c hd]; simp
  · exact Or.inr (ha x hx)

mutual
theorem CompleteStmt.extObjs {s s' : St} (h : ExtObjs s s') : ∀ {ctx : Nat} (st : Stmt), CompleteStmt s ctx st → CompleteStmt s' ctx st
  | ctx, .classDef n bs body, hc => by
    simp only [CompleteStmt] at hc ⊢
    obtain ⟨c, o, po, hpo, hd, ho, hcl, hb⟩ := hc
    obtain ⟨po', hpo', _, hcc, _⟩ := h ctx po hpo
    obtain ⟨o', ho', hcl', _, _⟩ := h c o ho
    exact ⟨c, o', po', hpo', hcc n c hd, ho', hcl'.trans hcl, CompleteStmts.extObjs h body hb⟩
  | ctx, .importMod t a, hc => by
    simp only [CompleteStmt] at hc ⊢
    exact fun x hx => (hc x hx).extObjs h
  | ctx, .importFrom _ _ n a, hc => by simp only [CompleteStmt] at hc ⊢; exact hc.extObjs h
  | ctx, .importStar _ _, _ => by simp [CompleteStmt]
  | ctx, .funcDef n, hc => by
    simp only [CompleteStmt] at hc ⊢
    obtain ⟨o, c, ho, hd⟩ := hc
    obtain ⟨o', ho', _, hcc, _⟩ := h ctx o ho
    exact ⟨o', c, ho', hcc n c hd⟩
  | ctx, .assign n _, hc => by
    simp only [CompleteStmt] at hc ⊢
    obtain ⟨o, c, ho, hd⟩ := hc
    obtain ⟨o', ho', _, hcc, _⟩ := h ctx o ho
    exact ⟨o', c, ho', hcc n c hd⟩
  | ctx, .allAssign _, _ => by simp [CompleteStmt]
theorem CompleteStmts.extObjs {s s' : St} (h : ExtObjs s s') : ∀ {ctx : Nat} (sts : List Stmt), CompleteStmts s ctx sts → CompleteStmts s' ctx sts
  | _, [], _ => by simp [CompleteStmts]
  | ctx, st :: rest, hc => by
    simp only [CompleteStmts] at hc ⊢
    exact ⟨CompleteStmt.extObjs h st hc.1, CompleteStmts.extObjs h rest hc.2⟩
end

theorem CompleteStmt.ext {s s' : St} (h : Ext s s') {ctx : Nat} (st : Stmt) (hc : CompleteStmt s ctx st) :
    CompleteStmt s' ctx st := CompleteStmt.extObjs h.objs st hc

theorem CompleteStmts.ext {s s' : St} (h : Ext s s') {ctx : Nat} (sts : List Stmt) (hc : CompleteStmts s ctx sts) :
    CompleteStmts s' ctx sts := CompleteStmts.extObjs h.objs sts hc

theorem ExtObjs.of_reg {s s' : St} (h : s'.reg = s.reg) : ExtObjs s s' :=
  fun i o ho => ⟨o, by rw [h]; exact ho, rfl, fun _ _ h => h, fun _ h => h⟩

/-- **the invariant of reachable, well-behaved states** -/
structure PdInv (proj : Project) (s : St) : Prop where
  reg : Inv s.reg
  lens : s.ps.length = proj.length ∧ s.alls.length = proj.length
  mods : ∀ m, m < proj.length → ∃ o, s.reg.objs[m]? = some o ∧ path s.reg m = some (pathOf proj m) ∧ o.cls = modCls proj m
  site : ∀ i o, s.reg.objs[i]? = some o → ∃ S, ObjKind proj S o.cls ∧ path s.reg i = some (sitePath proj S)
  alias : ∀ i o S, s.reg.objs[i]? = some o → path s.reg i = some (sitePath proj S) → StaticSite proj S →
    ∀ x tgt, dget o.aliases x = some tgt → Jpd proj S x tgt
  cont : ∀ m o, m < proj.length → s.reg.objs[m]? = some o → ∀ x c, dget o.contents x = some c →
    x ∈ childNames proj m ∨ ∃ st ∈ bodyOf proj m, st.defName = some x
  alls : ∀ m l, getAll s m = some l → ∀ x ∈ l, x ∈ allNames (bodyOf proj m)
  started : ∀ i S, path s.reg i = some (sitePath proj S) → StaticSite proj S → S.2 ≠ [] → getPs s S.1 ≠ .unprocessed
  cinfo : ∀ c ci, dget s.cinfo c = some ci → ci.raw = [] ∧ ci.expanded = [] ∧ ci.objs = []
  complete : ∀ m md, proj[m]? = some md → getPs s m = .processed → CompleteStmts s m md.body

theorem PdInv.initialBases_nil {proj : Project} {s : St} (hI : PdInv proj s) (c : Nat) : initialBases s c = [] := by
  unfold initialBases
  cases hd : dget s.cinfo c with
  | none => rfl
  | some ci => simp [(hI.cinfo c ci hd).2.2]

/-! ## `setAlias` -/

theorem setAlias_get_ne {s : St} {ctx : Nat} {k : Name} {v : Path} {i : Nat} (h : i ≠ ctx) :
    (setAlias s ctx k v).reg.objs[i]? = s.reg.objs[i]? := by
  simp only [setAlias, modifyObj]; exact getElem?_modify_ne _ h

theorem setAlias_get_eq {s : St} {ctx : Nat} {k : Name} {v : Path} :
    (setAlias s ctx k v).reg.objs[ctx]? = (s.reg.objs[ctx]?).map (fun o => { o with aliases := dset o.aliases k v }) := by
  simp only [setAlias, modifyObj]; exact getElem?_modify_eq _ _ _

theorem setAlias_path {s : St} {ctx : Nat} {k : Name} {v : Path} (i : Nat) :
    path (setAlias s ctx k v).reg i = path s.reg i := by
  simp only [setAlias, modifyObj, path, List.length_modify]
  exact pathAux_congr (agree_okey (modify_aliases_agree _ _ _)) _ _

theorem setAlias_ext (s : St) (ctx : Nat) (k : Name) (v : Path) : Ext s (setAlias s ctx k v) := by
  refine ⟨fun i o ho => ?_, fun i p hp => by rw [setAlias_path]; exact hp, PsRel.refl _⟩
  by_cases h : i = ctx
  · subst h
    refine ⟨{ o with aliases := dset o.aliases k v }, by rw [setAlias_get_eq, ho]; rfl, rfl, fun _ _ h => h, ?_⟩
    intro k' hk'
    by_cases hk : k' = k
    · subst hk; rw [dset_get_same]; simp
    · rw [dset_get_other _ _ _ _ hk]; exact hk'
  · exact ⟨o, by rw [setAlias_get_ne h]; exact ho, rfl, fun _ _ h => h, fun _ h => h⟩

theorem setAlias_entry {s : St} {ctx : Nat} {k : Name} {v : Path} {o : Obj} (ho : s.reg.objs[ctx]? = some o) :
    HasEntry (setAlias s ctx k v) ctx k :=
  ⟨_, by rw [setAlias_get_eq, ho]; rfl, Or.inr (by simp [dset_get_same])⟩

theorem pdInv_setAlias {proj : Project} {rank : List Nat} (wf : WFacts proj rank) {s : St} (hI : PdInv proj s)
    {ctx : Nat} {k : Name} {v : Path} {S : Site}
    (hp : path s.reg ctx = some (sitePath proj S)) (hS : StaticSite proj S) (hj : Jpd proj S k v) :
    PdInv proj (setAlias s ctx k v) := by
  have hext := setAlias_ext s ctx k v
  refine
    { reg := ?_, lens := hI.lens, mods := ?_, site := ?_, alias := ?_, cont := ?_, alls := hI.alls, started := ?_,
      cinfo := ?_, complete := ?_ }
  · exact inv_congr hI.reg (modify_aliases_agree _ _ _)
  · intro m hm
    obtain ⟨o, ho, hpm, hc⟩ := hI.mods m hm
    obtain ⟨o', ho', hc', _, _⟩ := hext.objs m o ho
    exact ⟨o', ho', by rw [setAlias_path]; exact hpm, hc'.trans hc⟩
  · intro i o' ho'
    by_cases h : i = ctx
    · subst h
      rw [setAlias_get_eq] at ho'
      cases ho : s.reg.objs[i]? with
      | none => rw [ho] at ho'; simp at ho'
      | some o =>
        rw [ho] at ho'; simp only [Option.map_some, Option.some.injEq] at ho'; subst ho'
        obtain ⟨S', hk', hp'⟩ := hI.site i o ho
        exact ⟨S', hk', by rw [setAlias_path]; exact hp'⟩
    · rw [setAlias_get_ne h] at ho'
      obtain ⟨S', hk', hp'⟩ := hI.site i o' ho'
      exact ⟨S', hk', by rw [setAlias_path]; exact hp'⟩
  · intro i o' S' ho' hp' hS' x tgt hx
    rw [setAlias_path] at hp'
    by_cases h : i = ctx
    · subst h
      rw [setAlias_get_eq] at ho'
      cases ho : s.reg.objs[i]? with
      | none => rw [ho] at ho'; simp at ho'
      | some o =>
        rw [ho] at ho'; simp only [Option.map_some, Option.some.injEq] at ho'; subst ho'
        simp only at hx
        by_cases hk : x = k
        · subst hk
          rw [dset_get_same] at hx; injection hx with hx; subst hx
          have : S' = S := site_unique wf hS' hS (by rw [hp] at hp'; injection hp' with hp'; exact hp'.symm)
          subst this; exact hj
        · rw [dset_get_other _ _ _ _ hk] at hx
          exact hI.alias i o S' ho hp' hS' x tgt hx
    · rw [setAlias_get_ne h] at ho'
      exact hI.alias i o' S' ho' hp' hS' x tgt hx
  · intro m o' hm ho' x c hx
    by_cases h : m = ctx
    · subst h
      rw [setAlias_get_eq] at ho'
      cases ho : s.reg.objs[m]? with
      | none => rw [ho] at ho'; simp at ho'
      | some o =>
        rw [ho] at ho'; simp only [Option.map_some, Option.some.injEq] at ho'; subst ho'
        exact hI.cont m o hm ho x c hx
    · rw [setAlias_get_ne h] at ho'
      exact hI.cont m o' hm ho' x c hx
  · intro i S' hp' hS' hne
    rw [setAlias_path] at hp'
    exact hI.started i S' hp' hS' hne
  · exact hI.cinfo
  · intro m md hm hps
    exact CompleteStmts.ext hext _ (hI.complete m md hm hps)

/-! ## `addObj` -/

theorem addObj_bad {s : St} {c : Cls} {name : Name} {parent : Nat} (h : (addObj s c name parent).bad = false) :
    s.bad = false := by
  unfold addObj at h
  cases ha : addObject s.reg c name (some parent) with
  | error e => simp [ha] at h
  | ok r => simp only [ha, Bool.or_eq_false_iff] at h; exact h.1

/-- what a well-behaved `addObj` does -/
theorem addObj_spec {s : St} {c : Cls} {name : Name} {parent : Nat} {pp : Path}
    (hp : path s.reg parent = some pp) (h : (addObj s c name parent).bad = false) :
    addObj s c name parent =
      { s with reg := ⟨objsAfterAdd s.reg c name parent, s.reg.all ++ [(pp ++ [name], s.reg.objs.length)], s.reg.roots⟩ } ∧
    addObject s.reg c name (some parent) =
      .ok ⟨objsAfterAdd s.reg c name parent, s.reg.all ++ [(pp ++ [name], s.reg.objs.length)], s.reg.roots⟩ := by
  have hb := addObj_bad h
  have hf : dget s.reg.all (pp ++ [name]) = none := by
    unfold addObj at h
    cases ha : addObject s.reg c name (some parent) with
    | error e => simp [ha] at h
    | ok r =>
      simp only [ha, hp, Bool.or_eq_false_iff, dhas] at h
      cases hd : dget s.reg.all (pp ++ [name]) with
      | none => rfl
      | some v => rw [hd] at h; simp at h
  have ha := addObject_fresh (c := c) hp hf
  refine ⟨?_, ha⟩
  unfold addObj
  simp only [ha, hp, dhas, hf, hb]
  rfl

theorem pdInv_addObj {proj : Project} {rank : List Nat} (wf : WFacts proj rank) {s : St} (hI : PdInv proj s)
    {c : Cls} {name : Name} {ctx : Nat} {S : Site} {full : List Stmt} {st : Stmt}
    (hb : (addObj s c name ctx).bad = false)
    (hp : path s.reg ctx = some (sitePath proj S)) (hS : siteBody proj S = some full) (hst : st ∈ full)
    (hk : stKind st = some (name, c)) (hps : getPs s S.1 ≠ .unprocessed) (hSt : StaticSite proj S) :
    PdInv proj (addObj s c name ctx) ∧ Ext s (addObj s c name ctx) ∧
    (addObj s c name ctx).reg.objs.length = s.reg.objs.length + 1 ∧
    (addObj s c name ctx).reg.objs[s.reg.objs.length]? = some (⟨name, some ctx, c, [], []⟩ : Obj) ∧
    path (addObj s c name ctx).reg s.reg.objs.length = some (sitePath proj (S.1, S.2 ++ [name])) ∧
    (∃ po, (addObj s c name ctx).reg.objs[ctx]? = some po ∧ dget po.contents name = some s.reg.objs.length) ∧
    (addObj s c name ctx).ps = s.ps ∧ (addObj s c name ctx).alls = s.alls ∧ (addObj s c name ctx).cinfo = s.cinfo := by
  obtain ⟨he, hok⟩ := addObj_spec hp hb
  have hlt := path_lt hp
  have hinv : Inv (addObj s c name ctx).reg := by rw [he]; exact addObject_inv hI.reg hok
  rw [he]
  have hnewpath : path ⟨objsAfterAdd s.reg c name ctx, s.reg.all ++ [(sitePath proj S ++ [name], s.reg.objs.length)],
      s.reg.roots⟩ s.reg.objs.length = some (sitePath proj (S.1, S.2 ++ [name])) := by
    rw [path_afterAdd_new hp]; simp [sitePath]
  have hold : ∀ i o, s.reg.objs[i]? = some o → (objsAfterAdd s.reg c name ctx)[i]? =
      some (if i = ctx then { o with contents := dset o.contents name s.reg.objs.length } else o) :=
    fun i o ho => objsAfterAdd_get_old hlt ho
  have hcases : ∀ i o', (objsAfterAdd s.reg c name ctx)[i]? = some o' →
      (i = s.reg.objs.length ∧ o' = ⟨name, some ctx, c, [], []⟩) ∨
      (∃ o, s.reg.objs[i]? = some o ∧ o' = (if i = ctx then { o with contents := dset o.contents name s.reg.objs.length } else o)) := by
    intro i o' ho'
    have hil := (List.getElem?_eq_some_iff.1 ho').1
    rw [objsAfterAdd_length] at hil
    by_cases hi : i = s.reg.objs.length
    · subst hi; rw [objsAfterAdd_get_new hlt] at ho'; injection ho' with ho'; exact Or.inl ⟨rfl, ho'.symm⟩
    · have hi' : i < s.reg.objs.length := by omega
      have ho : s.reg.objs[i]? = some s.reg.objs[i] := by simp [hi']
      rw [hold i _ ho] at ho'; injection ho' with ho'
      exact Or.inr ⟨_, ho, ho'.symm⟩
  have hpold : ∀ i k, path s.reg i = some k → path ⟨objsAfterAdd s.reg c name ctx,
      s.reg.all ++ [(sitePath proj S ++ [name], s.reg.objs.length)], s.reg.roots⟩ i = some k :=
    fun i k hk => path_afterAdd_old hk
  have hpback : ∀ i k, i < s.reg.objs.length → path ⟨objsAfterAdd s.reg c name ctx,
      s.reg.all ++ [(sitePath proj S ++ [name], s.reg.objs.length)], s.reg.roots⟩ i = some k → path s.reg i = some k := by
    intro i k hi hk
    obtain ⟨k0, hk0⟩ := hI.reg.full i hi
    have h1 := hI.reg.reg.keys k0 i hk0
    rw [hpold i k0 h1] at hk; injection hk with hk; subst hk; exact h1
  have hext : Ext s { s with reg := ⟨objsAfterAdd s.reg c name ctx,
      s.reg.all ++ [(sitePath proj S ++ [name], s.reg.objs.length)], s.reg.roots⟩ } := by
    refine ⟨fun i o ho => ⟨_, hold i o ho, ?_, ?_, ?_⟩, hpold, PsRel.refl _⟩
    · split <;> rfl
    · intro k' c' hd
      split
      · simp only
        by_cases hk' : k' = name
        · -- a fresh name cannot be in the parent's contents
          exfalso
          rename_i hic; subst hic; subst hk'
          obtain ⟨co, hco, hcp, hcn⟩ := hI.reg.tree.coh i o k' c' ho (mem_of_dget hd)
          have hch : HasPath s.reg.objs c' (sitePath proj S ++ [k']) := by
            rw [← hcn]; exact .child hco hcp (path_sound hp)
          obtain ⟨k0, hk0⟩ := hI.reg.full c' (List.getElem?_eq_some_iff.1 hco).1
          have := (hI.reg.reg.hasPath hk0).func hch
          subst this
          have hreg := dget_of_mem hI.reg.reg.uniq hk0
          have hfresh : dget s.reg.all (sitePath proj S ++ [k']) = none := by
            have hb' := hb
            unfold addObj at hb'
            simp only [hok, hp, Bool.or_eq_false_iff, dhas] at hb'
            cases hd2 : dget s.reg.all (sitePath proj S ++ [k']) with
            | none => rfl
            | some v => rw [hd2] at hb'; simp at hb'
          rw [hfresh] at hreg; cases hreg
        · rw [dset_get_other _ _ _ _ hk']; exact hd
      · exact hd
    · intro k' hk'; split <;> exact hk'
  refine ⟨?_, hext, by simp [objsAfterAdd_length], objsAfterAdd_get_new hlt, hnewpath, ?_, rfl, rfl, rfl⟩
  · refine
      { reg := by rw [he] at hinv; exact hinv, lens := hI.lens, mods := ?_, site := ?_, alias := ?_, cont := ?_,
        alls := hI.alls, started := ?_, cinfo := hI.cinfo, complete := ?_ }
    · intro m hm
      obtain ⟨o, ho, hpm, hc⟩ := hI.mods m hm
      obtain ⟨o', ho', hc', _, _⟩ := hext.objs m o ho
      exact ⟨o', ho', hpold m _ hpm, hc'.trans hc⟩
    · intro i o' ho'
      rcases hcases i o' ho' with ⟨rfl, rfl⟩ | ⟨o, ho, rfl⟩
      · exact ⟨(S.1, S.2 ++ [name]), ObjKind.dfn hS hst hk, hnewpath⟩
      · obtain ⟨S', hk', hp'⟩ := hI.site i o ho
        refine ⟨S', ?_, hpold i _ hp'⟩
        split <;> exact hk'
    · intro i o' S' ho' hp' hS' x tgt hx
      rcases hcases i o' ho' with ⟨rfl, rfl⟩ | ⟨o, ho, rfl⟩
      · simp [dget] at hx
      · have hx' : dget o.aliases x = some tgt := by split at hx <;> exact hx
        exact hI.alias i o S' ho (hpback i _ (List.getElem?_eq_some_iff.1 ho).1 hp') hS' x tgt hx'
    · intro m o' hm ho' x c' hx
      rcases hcases m o' ho' with ⟨rfl, rfl⟩ | ⟨o, ho, rfl⟩
      · simp [dget] at hx
      · split at hx
        · rename_i hmc; subst hmc
          simp only at hx
          by_cases hxn : x = name
          · subst hxn
            right
            obtain ⟨om, _, hpm, _⟩ := hI.mods m hm
            have : S = (m, []) := site_unique wf hSt ⟨hm, Or.inl rfl⟩ (by
              rw [hpm] at hp; injection hp with hp; simpa [sitePath] using hp.symm)
            subst this
            rw [← siteBody_mod hS]
            exact ⟨st, hst, stKind_defName hk⟩
          · rw [dset_get_other _ _ _ _ hxn] at hx
            exact hI.cont m o hm ho x c' hx
        · exact hI.cont m o hm ho x c' hx
    · intro i S' hp' hS' hne
      by_cases hi : i < s.reg.objs.length
      · exact hI.started i S' (hpback i _ hi hp') hS' hne
      · have hil : i < (objsAfterAdd s.reg c name ctx).length := path_lt hp'
        rw [objsAfterAdd_length] at hil
        have : i = s.reg.objs.length := by omega
        subst this
        rw [hnewpath] at hp'; injection hp' with hp'
        have : S' = (S.1, S.2 ++ [name]) :=
          site_unique wf hS' (ObjKind.dfn hS hst hk).static hp'.symm
        subst this; exact hps
    · intro m md hm hps'
      exact CompleteStmts.ext hext _ (hI.complete m md hm hps')
  · obtain ⟨po, hpo⟩ : ∃ po, s.reg.objs[ctx]? = some po := ⟨s.reg.objs[ctx], by simp [hlt]⟩
    refine ⟨_, hold ctx po hpo, ?_⟩
    simp [dset_get_same]

/-! ## `bad` is sticky -/

theorem markBad_bad {s : St} {b : Bool} (h : (markBad s b).bad = false) : b = false ∧ markBad s b = s := by
  unfold markBad at h ⊢
  cases b <;> simp_all

theorem setAlias_bad (s : St) (ctx : Nat) (k : Name) (v : Path) : (setAlias s ctx k v).bad = s.bad := rfl

def Sticky (pm : St → Nat → St) : Prop := ∀ s t, (pm s t).bad = false → s.bad = false

theorem gpm_bad {pm : St → Nat → St} (hpm : Sticky pm) {s : St} {T : Path}
    (h : (getProcessedModule pm s T).1.bad = false) : s.bad = false := by
  unfold getProcessedModule at h
  cases hl : lookupModule s T with
  | mk r crash =>
    rw [hl] at h
    cases r with
    | none =>
      simp only at h
      obtain ⟨_, he⟩ := markBad_bad h
      rw [he] at h; exact h
    | some t =>
      simp only at h
      obtain ⟨_, he⟩ := markBad_bad h
      rw [he] at h
      split at h
      · have := hpm _ _ h
        obtain ⟨_, he2⟩ := markBad_bad this
        rw [he2] at this; exact this
      · obtain ⟨_, he2⟩ := markBad_bad h
        rw [he2] at h; exact h

theorem doMove_bad {s : St} {ctx ob : Nat} {a : Name} (h : (doMove s ctx ob a).1.bad = false) : s.bad = false := by
  unfold doMove at h
  cases hr : reparent s.reg ob ctx a with
  | ok r => simp only [hr, Bool.or_eq_false_iff] at h; exact h.1
  | error e => simp [hr] at h

theorem hre_bad {s : St} {ctx : Nat} {ex : List Name} {o a : Name} {t : Nat}
    (h : (handleReExport s ctx ex o a t).1.bad = false) : s.bad = false := by
  unfold handleReExport at h
  by_cases h1 : (!ex.contains a) = true
  · simp only [h1, if_true] at h; exact h
  · simp only [h1] at h
    cases hc : reexportCandidate s o t with
    | none => simp only [hc] at h; exact h
    | some ob =>
      simp only [hc] at h
      by_cases h2 : moveBlocked s ctx ob = true
      · simp only [h2, if_true] at h; exact h
      · simp only [h2] at h
        by_cases h3 : listedIn s t o = true
        · simp only [h3, if_true] at h; exact h
        · simp only [h3] at h; exact doMove_bad h

theorem starOne_bad {ctx t : Nat} {ex : List Name} {s : St} {x : Name}
    (h : (starOne ctx t ex s x).bad = false) : s.bad = false := by
  unfold starOne at h
  simp only at h
  by_cases h1 : (handleReExport s ctx ex x x t).2 = true
  · simp only [h1, if_true] at h; exact hre_bad h
  · simp only [h1] at h
    cases he : Names.expandName (envOf (handleReExport s ctx ex x x t).1) t [x] with
    | none => simp [he] at h
    | some p => simp only [he, setAlias_bad] at h; exact hre_bad h

theorem foldl_bad {α : Type} {f : St → α → St} (hf : ∀ s x, (f s x).bad = false → s.bad = false) :
    ∀ (l : List α) (s : St), (l.foldl f s).bad = false → s.bad = false
  | [], _, h => h
  | x :: xs, s, h => hf s x (foldl_bad hf xs (f s x) h)

theorem visitImport_bad {ctx : Nat} {t : Path} {a : Option Name} {s : St} (h : (visitImport ctx t a s).bad = false) :
    s.bad = false := by
  unfold visitImport at h
  cases a with
  | some a => exact h
  | none => cases t <;> exact h

theorem visitImportFrom_bad {pm : St → Nat → St} (hpm : Sticky pm) {mod ctx level : Nat} {M : Path} {n : Name}
    {a : Option Name} {s : St} (h : (visitImportFrom pm mod ctx level M n a s).bad = false) : s.bad = false := by
  unfold visitImportFrom at h
  cases hT : absName s mod level M with
  | none => simp only [hT] at h; exact h
  | some T =>
    simp only [hT] at h
    cases ht : (getProcessedModule pm s T).2 with
    | none => simp only [ht, setAlias_bad] at h; exact gpm_bad hpm h
    | some t =>
      simp only [ht] at h
      generalize hs2 : (if isPkgObj (getProcessedModule pm s T).1.reg t = true then
          (getProcessedModule pm (getProcessedModule pm s T).1 (T ++ [n])).1 else (getProcessedModule pm s T).1) = s2 at h
      have h2 : s2.bad = false := by
        by_cases hh : (handleReExport s2 ctx (currentExports (getProcessedModule pm s T).1 ctx) n (a.getD n) t).2 = true
        · simp only [hh, if_true] at h; exact hre_bad h
        · simp only [hh, Bool.false_eq_true, if_false] at h; rw [setAlias_bad] at h; exact hre_bad h
      rw [← hs2] at h2
      split at h2
      · exact gpm_bad hpm (gpm_bad hpm h2)
      · exact gpm_bad hpm h2

theorem visitImportStar_bad {pm : St → Nat → St} (hpm : Sticky pm) {mod ctx level : Nat} {M : Path}
    {s : St} (h : (visitImportStar pm mod ctx level M s).bad = false) : s.bad = false := by
  unfold visitImportStar at h
  cases hT : absName s mod level M with
  | none => simp only [hT] at h; exact h
  | some T =>
    simp only [hT] at h
    cases ht : (getProcessedModule pm s T).2 with
    | none => simp only [ht] at h; exact gpm_bad hpm h
    | some t =>
      simp only [ht] at h
      exact gpm_bad hpm (foldl_bad (fun s x => starOne_bad) _ _ h)

theorem visitAssign_bad {ctx : Nat} {n : Name} {s : St} (h : (visitAssign ctx n s).bad = false) : s.bad = false := by
  unfold visitAssign at h
  cases ho : getObj s.reg ctx with
  | none => simp [ho] at h
  | some o =>
    simp only [ho] at h
    split at h
    · split at h
      · exact h
      · exact addObj_bad h
    · split at h
      · exact h
      · split at h
        · exact h
        · exact addObj_bad h

theorem enterClass_bad {ctx : Nat} {n : Name} {bs : List Path} {s : St} (h : (enterClass ctx n bs s).bad = false) :
    (addObj s .cls n ctx).bad = false := by
  unfold enterClass at h
  simp only at h
  obtain ⟨_, he⟩ := markBad_bad h
  rw [he] at h; exact h

mutual
theorem visitStmt_bad {pm : St → Nat → St} (hpm : Sticky pm) {mod : Nat} :
    ∀ (st : Stmt) (ctx : Nat) (s : St), (visitStmt pm mod ctx st s).bad = false → s.bad = false
  | .importMod target asname, ctx, s, h => by simp only [visitStmt] at h; exact visitImport_bad h
  | .importFrom level modname name asname, ctx, s, h => by
    simp only [visitStmt] at h; exact visitImportFrom_bad hpm h
  | .importStar level modname, ctx, s, h => by simp only [visitStmt] at h; exact visitImportStar_bad hpm h
  | .classDef name bases body, ctx, s, h => by
    simp only [visitStmt] at h
    exact addObj_bad (enterClass_bad (visitStmts_bad hpm body _ _ h))
  | .funcDef name, ctx, s, h => by simp only [visitStmt] at h; exact addObj_bad h
  | .assign name _, ctx, s, h => by simp only [visitStmt] at h; exact visitAssign_bad h
  | .allAssign _, ctx, s, h => by simp only [visitStmt] at h; exact h
theorem visitStmts_bad {pm : St → Nat → St} (hpm : Sticky pm) {mod : Nat} :
    ∀ (sts : List Stmt) (ctx : Nat) (s : St), (visitStmts pm mod ctx sts s).bad = false → s.bad = false
  | [], _, _, h => by simpa [visitStmts] using h
  | st :: rest, ctx, s, h => by
    simp only [visitStmts] at h
    exact visitStmt_bad hpm st ctx s (visitStmts_bad hpm rest ctx _ h)
end

theorem processModule_sticky (proj : Project) : ∀ f, Sticky (processModule proj f)
  | 0 => fun s t h => by simp [processModule] at h
  | f+1 => fun s t h => by
    simp only [processModule] at h
    split at h
    · simp at h
    · split at h
      · simp at h
      · rename_i md _
        have h' : (visitStmts (processModule proj f) t t md.body
            { s with ps := s.ps.set t .processing, alls := s.alls.set t (lastAll md.body) }).bad = false := h
        exact visitStmts_bad (processModule_sticky proj f) _ _
          { s with ps := s.ps.set t .processing, alls := s.alls.set t (lastAll md.body) } h'

/-! ## the visiting context; `getProcessedModule` -/

/-- `ctx` is the object of scope `S` (of module `mod`, which is being processed), whose body is `full` -/
structure Ctx (proj : Project) (s : St) (mod ctx : Nat) (S : Site) (full : List Stmt) : Prop where
  hmod : mod < proj.length
  hS1 : S.1 = mod
  body : siteBody proj S = some full
  pathc : path s.reg ctx = some (sitePath proj S)
  clsc : ∃ o, s.reg.objs[ctx]? = some o ∧ ((S.2 = [] ∧ isModuleCls o.cls = true) ∨ (S.2 ≠ [] ∧ o.cls = .cls))
  ctxmod : S.2 = [] → ctx = mod
  ps : getPs s mod = .processing

theorem Ctx.ext {proj : Project} {s s' : St} {mod ctx : Nat} {S : Site} {full : List Stmt}
    (h : Ctx proj s mod ctx S full) (he : Ext s s') : Ctx proj s' mod ctx S full := by
  obtain ⟨o, ho, hc⟩ := h.clsc
  obtain ⟨o', ho', hc', _, _⟩ := he.objs ctx o ho
  exact ⟨h.hmod, h.hS1, h.body, he.paths _ _ h.pathc, ⟨o', ho', by rw [hc']; exact hc⟩, h.ctxmod, (he.ps mod).1 h.ps⟩

theorem Ctx.static {proj : Project} {s : St} {mod ctx : Nat} {S : Site} {full : List Stmt}
    (hI : PdInv proj s) (h : Ctx proj s mod ctx S full) : StaticSite proj S := by
  obtain ⟨o, ho, _⟩ := h.clsc
  obtain ⟨S', hk, hp⟩ := hI.site ctx o ho
  rw [h.pathc] at hp; injection hp with hp
  -- the site of the object has the same body path; use the object's own site
  have hs' := hk.static
  obtain ⟨m, cp⟩ := S
  refine ⟨siteBody_lt h.body, ?_⟩
  by_cases hcp : cp = []
  · exact Or.inl hcp
  · right
    -- a non-empty chain whose body exists ends in a class statement of the enclosing body
    have hb := siteBody_bodyAt h.body
    simp only at hb
    obtain ⟨cp', n, rfl⟩ : ∃ cp' n, cp = cp' ++ [n] := ⟨cp.dropLast, cp.getLast hcp, (List.dropLast_concat_getLast hcp).symm⟩
    rw [bodyAt_append] at hb
    cases hb1 : bodyAt (bodyOf proj m) cp' with
    | none => simp [hb1] at hb
    | some b1 =>
      simp only [hb1, Option.bind_some, bodyAt] at hb
      cases hf : findClass b1 n with
      | none => simp [hf] at hb
      | some b2 =>
        obtain ⟨bs, hm⟩ := findClass_mem hf
        refine ⟨cp', n, b1, _, rfl, ?_, hm, rfl⟩
        unfold siteBody
        have hlt := siteBody_lt h.body
        simp only at hlt
        have : proj[m]? = some proj[m] := by simp [hlt]
        simp only [this]
        have hbo : bodyOf proj m = proj[m].body := bodyOf_eq this
        rw [← hbo]; exact hb1

def PmOk (proj : Project) (pm : St → Nat → St) : Prop :=
  Sticky pm ∧ ∀ s t, (pm s t).bad = false → PdInv proj s → t < proj.length →
    PdInv proj (pm s t) ∧ Ext s (pm s t) ∧ getPs (pm s t) t = .processed

/-- an object with a module class is one of the project's modules: its id is the module index -/
theorem module_obj {proj : Project} {s : St} (hI : PdInv proj s) {t : Nat} (h : isModuleObj s.reg t = true) :
    t < proj.length := by
  unfold isModuleObj at h
  cases ho : getObj s.reg t with
  | none => simp [ho] at h
  | some o =>
    simp only [ho] at h
    obtain ⟨S, hk, hp⟩ := hI.site t o ho
    have hS2 := hk.isMod.1 h
    have hlt := hk.static.1
    obtain ⟨om, _, hpm, _⟩ := hI.mods S.1 hlt
    have e : sitePath proj S = pathOf proj S.1 := by simp [sitePath, hS2]
    rw [e] at hp
    have h1 := dget_of_path hI.reg hp
    have h2 := dget_of_path hI.reg hpm
    rw [h1] at h2; injection h2 with h2
    rw [h2]; exact hlt

theorem lookupModule_spec {proj : Project} {s : St} (hI : PdInv proj s) {T : Path} {t : Nat} {crash : Bool}
    (h : lookupModule s T = (some t, crash)) :
    t < proj.length ∧ ∀ t', modIdx proj T = some t' → t = t' := by
  unfold lookupModule at h
  simp only at h
  constructor
  · split at h
    · rename_i i hi
      split at h
      · rename_i hm; injection h with h1 _; injection h1 with h1; subst h1; exact module_obj hI hm
      · cases h
    · cases h
  · intro t' ht'
    obtain ⟨hlt, hp⟩ := modIdx_spec ht'
    obtain ⟨om, _, hpm, _⟩ := hI.mods t' hlt
    rw [hp] at hpm
    have hreg : Names.objFor (envOf s) T = some t' := dget_of_path hI.reg hpm
    simp only [hreg] at h
    split at h
    · injection h with h1 _; injection h1 with h1; exact h1.symm
    · cases h

theorem gpm_ok {proj : Project} {pm : St → Nat → St} (hpm : PmOk proj pm) {s : St} {T : Path}
    (hI : PdInv proj s) (hb : (getProcessedModule pm s T).1.bad = false) :
    PdInv proj (getProcessedModule pm s T).1 ∧ Ext s (getProcessedModule pm s T).1 ∧
    ∀ t, (getProcessedModule pm s T).2 = some t → t < proj.length ∧ ∀ t', modIdx proj T = some t' → t = t' := by
  unfold getProcessedModule at hb ⊢
  cases hl : lookupModule s T with
  | mk r crash =>
    rw [hl] at hb
    cases r with
    | none =>
      simp only at hb ⊢
      obtain ⟨_, he⟩ := markBad_bad hb
      rw [he]
      exact ⟨hI, Ext.refl s, fun t ht => by cases ht⟩
    | some t =>
      simp only at hb ⊢
      obtain ⟨_, he⟩ := markBad_bad hb
      rw [he] at hb ⊢
      obtain ⟨hlt, hu⟩ := lookupModule_spec hI hl
      have hrest : ∀ t0, some t = some t0 → t0 < proj.length ∧ ∀ t', modIdx proj T = some t' → t0 = t' :=
        fun t0 ht0 => by injection ht0 with ht0; subst ht0; exact ⟨hlt, hu⟩
      have hin : (markBad s crash).bad = false := by
        split at hb
        · exact hpm.1 _ _ hb
        · exact hb
      obtain ⟨_, hin'⟩ := markBad_bad hin
      rw [hin'] at hb ⊢
      by_cases hu' : getPs s t = .unprocessed
      · simp only [hu', if_true] at hb ⊢
        exact ⟨(hpm.2 s t hb hI hlt).1, (hpm.2 s t hb hI hlt).2.1, hrest⟩
      · simp only [hu', if_false] at hb ⊢
        exact ⟨hI, Ext.refl s, hrest⟩

/-! ## one statement -/

theorem visitImport_ok {proj : Project} {rank : List Nat} (wf : WFacts proj rank) {s : St} (hI : PdInv proj s)
    {mod ctx : Nat} {S : Site} {full : List Stmt} (hc : Ctx proj s mod ctx S full) {t : Path} {a : Option Name}
    (hst : Stmt.importMod t a ∈ full) :
    PdInv proj (visitImport ctx t a s) ∧ Ext s (visitImport ctx t a s) ∧
    CompleteStmt (visitImport ctx t a s) ctx (.importMod t a) := by
  have hS := hc.static hI
  obtain ⟨o, ho, _⟩ := hc.clsc
  unfold visitImport
  cases a with
  | some x =>
    refine ⟨pdInv_setAlias wf hI hc.pathc hS (Jpd.importAs hc.body hst), setAlias_ext .., ?_⟩
    simp only [CompleteStmt, explicitNames, List.mem_singleton]
    intro y hy; subst hy; exact setAlias_entry ho
  | none =>
    cases t with
    | nil => exact ⟨hI, Ext.refl s, by simp [CompleteStmt, explicitNames]⟩
    | cons h r =>
      refine ⟨pdInv_setAlias wf hI hc.pathc hS (Jpd.importTop hc.body hst), setAlias_ext .., ?_⟩
      simp only [CompleteStmt, explicitNames, List.mem_singleton]
      intro y hy; subst hy; exact setAlias_entry ho

theorem hre_noop {s : St} {ctx : Nat} {ex : List Name} {o a : Name} {t : Nat} (h : ex.contains a = false) :
    handleReExport s ctx ex o a t = (s, false) := by
  unfold handleReExport
  have : (!ex.contains a) = true := by rw [h]; rfl
  simp only [this, if_true]

theorem isPkgObj_mod {proj : Project} {s : St} (hI : PdInv proj s) {m : Nat} (hm : m < proj.length) :
    isPkgObj s.reg m = isPkg proj m := by
  obtain ⟨o, ho, _, hc⟩ := hI.mods m hm
  unfold isPkgObj getObj
  simp only [ho, hc, modCls]
  cases isPkg proj m <;> simp

theorem absName_static {proj : Project} {s : St} (hI : PdInv proj s) {mod : Nat} (hm : mod < proj.length)
    {lvl : Nat} {M T : Path} (h : absName s mod lvl M = some T) : pdAbsName proj mod lvl M = some T := by
  obtain ⟨o, ho, hp, hc⟩ := hI.mods mod hm
  unfold absName at h; unfold pdAbsName
  by_cases hl : lvl = 0
  · simp only [hl, if_true] at h ⊢; exact h
  · simp only [hl, if_false, hp, isPkgObj_mod hI hm] at h ⊢; exact h

/-- the names the current module exports are names of its `__all__` assignments -/
theorem exports_sub {proj : Project} {s s1 : St} (hI1 : PdInv proj s1) {mod ctx : Nat} {S : Site} {full : List Stmt}
    (hc : Ctx proj s mod ctx S full) (he : Ext s s1) :
    ∀ x ∈ currentExports s1 ctx, S.2 = [] ∧ x ∈ allNames (bodyOf proj mod) := by
  intro x hx
  unfold currentExports at hx
  obtain ⟨o, ho, hcl⟩ := (hc.ext he).clsc
  have hmo : isModuleObj s1.reg ctx = isModuleCls o.cls := by simp [isModuleObj, getObj, ho]
  rw [hmo] at hx
  rcases hcl with ⟨hS2, hm⟩ | ⟨hS2, hm⟩
  · have hcm := hc.ctxmod hS2; subst hcm
    simp only [hm, if_true] at hx
    cases hg : getAll s1 ctx with
    | none => simp [hg] at hx
    | some l => simp only [hg, Option.getD_some] at hx; exact ⟨hS2, hI1.alls ctx l hg x hx⟩
  · simp [hm, isModuleCls] at hx

theorem absName_eq {proj : Project} {s : St} (hI : PdInv proj s) {mod : Nat} (hm : mod < proj.length)
    (lvl : Nat) (M : Path) : absName s mod lvl M = pdAbsName proj mod lvl M := by
  obtain ⟨o, ho, hp, hc⟩ := hI.mods mod hm
  unfold absName pdAbsName
  by_cases hl : lvl = 0
  · simp [hl]
  · simp only [hl, if_false, hp, isPkgObj_mod hI hm]; rfl

/-- under `WF` the level arithmetic never fails on a statement of the project -/
theorem pdAbs_some {proj : Project} {rank : List Nat} (wf : WFacts proj rank) {S : Site} {full : List Stmt}
    {st : Stmt} {lvl : Nat} {M : Path} (hb : siteBody proj S = some full) (hst : st ∈ full)
    (ht : target proj S.1 lvl M ∈ stmtTargets proj S.1 st) : ∃ T, pdAbsName proj S.1 lvl M = some T := by
  obtain ⟨t', ht', _⟩ := wf.targets hb hst _ ht
  obtain ⟨T', hT', _⟩ := target_spec ht'
  unfold pyAbsName at hT'; unfold pdAbsName
  by_cases hl : lvl = 0
  · simp [hl]
  · simp only [hl, if_false] at hT' ⊢
    rw [Names.relative_level _ _ _ (by omega)]
    cases hr : Names.pythonRelativeBase (pathOf proj S.1) (isPkg proj S.1) lvl with
    | none => simp [hr] at hT'
    | some b => exact ⟨_, rfl⟩

theorem visitImportFrom_ok {proj : Project} {rank : List Nat} (wf : WFacts proj rank) {pm : St → Nat → St}
    (hpm : PmOk proj pm) {s : St} (hI : PdInv proj s) {mod ctx : Nat} {S : Site} {full : List Stmt}
    (hc : Ctx proj s mod ctx S full) {lvl : Nat} {M : Path} {n : Name} {a : Option Name}
    (hst : Stmt.importFrom lvl M n a ∈ full) (hb : (visitImportFrom pm mod ctx lvl M n a s).bad = false) :
    PdInv proj (visitImportFrom pm mod ctx lvl M n a s) ∧ Ext s (visitImportFrom pm mod ctx lvl M n a s) ∧
    CompleteStmt (visitImportFrom pm mod ctx lvl M n a s) ctx (.importFrom lvl M n a) := by
  have hS := hc.static hI
  have hS1 := hc.hS1
  obtain ⟨T, hT⟩ := pdAbs_some (lvl := lvl) (M := M) wf hc.body hst (by simp [stmtTargets])
  rw [hS1] at hT
  have hT' : absName s mod lvl M = some T := by rw [absName_eq hI hc.hmod]; exact hT
  unfold visitImportFrom at hb ⊢
  simp only [hT'] at hb ⊢
  have hjust : Jpd proj S (a.getD n) (T ++ [n]) := Jpd.from hc.body hst (by rw [hS1]; exact hT)
  cases ht : (getProcessedModule pm s T).2 with
  | none =>
    simp only [ht] at hb ⊢
    rw [setAlias_bad] at hb
    obtain ⟨hI1, he1, _⟩ := gpm_ok hpm hI hb
    have hc1 := hc.ext he1
    obtain ⟨o, ho, _⟩ := hc1.clsc
    exact ⟨pdInv_setAlias wf hI1 hc1.pathc hS hjust, he1.trans (setAlias_ext ..), by
      simp only [CompleteStmt]; exact setAlias_entry ho⟩
  | some t =>
    simp only [ht] at hb ⊢
    generalize hs2 : (if isPkgObj (getProcessedModule pm s T).1.reg t = true then
        (getProcessedModule pm (getProcessedModule pm s T).1 (T ++ [n])).1 else (getProcessedModule pm s T).1) = s2 at hb ⊢
    have hb2 : s2.bad = false := by
      by_cases hh : (handleReExport s2 ctx (currentExports (getProcessedModule pm s T).1 ctx) n (a.getD n) t).2 = true
      · simp only [hh, if_true] at hb; exact hre_bad hb
      · simp only [hh, Bool.false_eq_true, if_false] at hb; rw [setAlias_bad] at hb; exact hre_bad hb
    have hb1 : (getProcessedModule pm s T).1.bad = false := by
      rw [← hs2] at hb2
      split at hb2
      · exact gpm_bad hpm.1 hb2
      · exact hb2
    obtain ⟨hI1, he1, _⟩ := gpm_ok hpm hI hb1
    have h2 : PdInv proj s2 ∧ Ext s s2 := by
      rw [← hs2] at hb2 ⊢
      by_cases hpk : isPkgObj (getProcessedModule pm s T).1.reg t = true
      · simp only [hpk, if_true] at hb2 ⊢
        obtain ⟨hI2, he2, _⟩ := gpm_ok hpm hI1 hb2
        exact ⟨hI2, he1.trans he2⟩
      · simp only [hpk, if_false] at hb2 ⊢
        exact ⟨hI1, he1⟩
    obtain ⟨hI2, he2⟩ := h2
    have hnox : (currentExports (getProcessedModule pm s T).1 ctx).contains (a.getD n) = false := by
      cases hcx : (currentExports (getProcessedModule pm s T).1 ctx).contains (a.getD n) with
      | false => rfl
      | true =>
        exfalso
        have hmem : a.getD n ∈ currentExports (getProcessedModule pm s T).1 ctx := by simpa using hcx
        obtain ⟨hS2, hall⟩ := exports_sub hI1 hc he1 _ hmem
        obtain ⟨m, cp⟩ := S
        simp only at hS2 hS1; subst hS2; subst hS1
        exact wf.noreexpFrom hc.body hst hall
    rw [hre_noop hnox] at hb ⊢
    simp only [Bool.false_eq_true, if_false] at hb ⊢
    have hc2 := hc.ext he2
    obtain ⟨o, ho, _⟩ := hc2.clsc
    exact ⟨pdInv_setAlias wf hI2 hc2.pathc hS hjust, he2.trans (setAlias_ext ..), by
      simp only [CompleteStmt]; exact setAlias_entry ho⟩

theorem localName_module {e : Names.Env} {t : Nat} {o : Obj} (ho : getObj e.st t = some o)
    (hm : isModuleCls o.cls = true) (x : Name) :
    Names.localName e (Names.fuelOf e) t x =
      match dget o.contents x with
      | some c => path e.st c
      | none => match dget o.aliases x with
        | some tg => some tg
        | none => some [x] := by
  unfold Names.fuelOf
  rw [Names.localName.eq_def]
  simp only [ho]
  cases hc : o.cls <;> simp_all [isModuleCls] <;> rfl

theorem dget_ne_none_of_key {κ ν : Type} [DecidableEq κ] : ∀ {l : List (κ × ν)} {x : κ}, x ∈ l.map (·.1) → dget l x ≠ none
  | [], _, h => by cases h
  | (k, v) :: l, x, h => by
    simp only [dget]
    split
    · simp
    · rename_i hne
      simp only [List.map_cons, List.mem_cons] at h
      rcases h with h | h
      · exact absurd h.symm hne
      · exact dget_ne_none_of_key h

/-- the qualified name of an entry of `contents` -/
theorem path_child {s : State} (hI : Inv s) {p c : Nat} {po : Obj} {x : Name} {pp : Path}
    (hpo : s.objs[p]? = some po) (hd : dget po.contents x = some c) (hp : path s p = some pp) :
    path s c = some (pp ++ [x]) := by
  obtain ⟨co, hco, hcp, hcn⟩ := hI.tree.coh p po x c hpo (mem_of_dget hd)
  obtain ⟨k0, hk0⟩ := hI.full c (List.getElem?_eq_some_iff.1 hco).1
  have h1 := hI.reg.keys k0 c hk0
  have hch : HasPath s.objs c (pp ++ [x]) := by rw [← hcn]; exact .child hco hcp (path_sound hp)
  rw [h1, (path_sound h1).func hch]

theorem starOne_ok {proj : Project} {rank : List Nat} (wf : WFacts proj rank) {s : St} (hI : PdInv proj s)
    {mod ctx : Nat} {S : Site} {full : List Stmt} (hc : Ctx proj s mod ctx S full) {lvl : Nat} {M T : Path}
    (hst : Stmt.importStar lvl M ∈ full) (hT : pdAbsName proj S.1 lvl M = some T) {t : Nat} (ht : t < proj.length)
    (hu : ∀ t', modIdx proj T = some t' → t = t') {x : Name}
    (hx : starOk proj t x ∧ (x ∈ allNames (bodyOf proj t) ∨ HasEntry s t x))
    (hb : (starOne ctx t [] s x).bad = false) :
    PdInv proj (starOne ctx t [] s x) ∧ Ext s (starOne ctx t [] s x) := by
  have hS := hc.static hI
  unfold starOne at hb ⊢
  rw [hre_noop (by simp)] at hb ⊢
  simp only [Bool.false_eq_true, if_false] at hb ⊢
  obtain ⟨o, ho, hpt, hcl⟩ := hI.mods t ht
  have hmo : isModuleCls o.cls = true := by rw [hcl, modCls]; split <;> rfl
  have hl := localName_module (e := envOf s) (t := t) (o := o) ho hmo x
  rw [Names.expand_single_local, hl] at hb ⊢
  cases hdc : dget o.contents x with
  | some c =>
    simp only [hdc] at hb ⊢
    have hpc := path_child hI.reg ho hdc hpt
    have hpc' : path (envOf s).st c = some (pathOf proj t ++ [x]) := hpc
    rw [hpc'] at hb ⊢
    simp only at hb ⊢
    exact ⟨pdInv_setAlias wf hI hc.pathc hS
      (Jpd.starChild hc.body hst hT hu hx.1 (hI.cont t o ht ho x c hdc)), setAlias_ext ..⟩
  | none =>
    simp only [hdc] at hb ⊢
    cases hda : dget o.aliases x with
    | some tg =>
      simp only [hda] at hb ⊢
      have hj : Jpd proj (t, []) x tg :=
        hI.alias t o (t, []) ho (by simpa [sitePath] using hpt) ⟨ht, Or.inl rfl⟩ x tg hda
      exact ⟨pdInv_setAlias wf hI hc.pathc hS (Jpd.starAlias hc.body hst hT hu hx.1 hj), setAlias_ext ..⟩
    | none =>
      simp only [hda] at hb ⊢
      have hxa : x ∈ allNames (bodyOf proj t) := by
        rcases hx.2 with h | ⟨o', ho', he⟩
        · exact h
        · rw [ho] at ho'; injection ho' with ho'; subst ho'
          rcases he with he | he
          · exact absurd hdc he
          · exact absurd hda he
      exact ⟨pdInv_setAlias wf hI hc.pathc hS (Jpd.starNone hc.body hst hT hu hxa), setAlias_ext ..⟩

theorem starFold_ok {proj : Project} {rank : List Nat} (wf : WFacts proj rank)
    {mod ctx : Nat} {S : Site} {full : List Stmt} {lvl : Nat} {M T : Path}
    (hst : Stmt.importStar lvl M ∈ full) (hT : pdAbsName proj S.1 lvl M = some T) {t : Nat} (ht : t < proj.length)
    (hu : ∀ t', modIdx proj T = some t' → t = t') :
    ∀ (l : List Name) (s : St), PdInv proj s → Ctx proj s mod ctx S full →
      (∀ x ∈ l, starOk proj t x ∧ (x ∈ allNames (bodyOf proj t) ∨ HasEntry s t x)) →
      (l.foldl (starOne ctx t []) s).bad = false →
      PdInv proj (l.foldl (starOne ctx t []) s) ∧ Ext s (l.foldl (starOne ctx t []) s)
  | [], s, hI, _, _, _ => ⟨hI, Ext.refl s⟩
  | x :: xs, s, hI, hc, hx, hb => by
    simp only [List.foldl_cons] at hb ⊢
    have hb1 := foldl_bad (fun s x => starOne_bad) xs _ hb
    obtain ⟨hI1, he1⟩ := starOne_ok wf hI hc hst hT ht hu (hx x (List.mem_cons_self ..)) hb1
    have hx' : ∀ y ∈ xs, starOk proj t y ∧ (y ∈ allNames (bodyOf proj t) ∨ HasEntry (starOne ctx t [] s x) t y) := by
      intro y hy
      obtain ⟨h1, h2⟩ := hx y (List.mem_cons_of_mem _ hy)
      exact ⟨h1, h2.imp id (fun h => h.ext he1)⟩
    obtain ⟨hI2, he2⟩ := starFold_ok wf hst hT ht hu xs _ hI1 (hc.ext he1) hx' hb
    exact ⟨hI2, he1.trans he2⟩

theorem visitImportStar_ok {proj : Project} {rank : List Nat} (wf : WFacts proj rank) {pm : St → Nat → St}
    (hpm : PmOk proj pm) {s : St} (hI : PdInv proj s) {mod ctx : Nat} {S : Site} {full : List Stmt}
    (hc : Ctx proj s mod ctx S full) {lvl : Nat} {M : Path}
    (hst : Stmt.importStar lvl M ∈ full) (hb : (visitImportStar pm mod ctx lvl M s).bad = false) :
    PdInv proj (visitImportStar pm mod ctx lvl M s) ∧ Ext s (visitImportStar pm mod ctx lvl M s) := by
  have hS1 := hc.hS1
  obtain ⟨T, hT⟩ := pdAbs_some (lvl := lvl) (M := M) wf hc.body hst (by simp [stmtTargets])
  have hT' : absName s mod lvl M = some T := by rw [absName_eq hI hc.hmod, ← hS1]; exact hT
  unfold visitImportStar at hb ⊢
  simp only [hT'] at hb ⊢
  cases ht : (getProcessedModule pm s T).2 with
  | none =>
    simp only [ht] at hb ⊢
    obtain ⟨hI1, he1, _⟩ := gpm_ok hpm hI hb
    exact ⟨hI1, he1⟩
  | some t =>
    simp only [ht] at hb ⊢
    have hb1 := foldl_bad (fun s x => starOne_bad) _ _ hb
    obtain ⟨hI1, he1, hsp⟩ := gpm_ok hpm hI hb1
    obtain ⟨htl, hu⟩ := hsp t ht
    -- nothing is exported: a module with star imports has no `__all__`
    have hex : currentExports (getProcessedModule pm s T).1 ctx = [] := by
      cases hce : currentExports (getProcessedModule pm s T).1 ctx with
      | nil => rfl
      | cons y ys =>
        exfalso
        obtain ⟨hS2, hall⟩ := exports_sub hI1 hc he1 y (by rw [hce]; exact List.mem_cons_self ..)
        obtain ⟨m, cp⟩ := S
        simp only at hS2 hS1; subst hS2; subst hS1
        rw [wf.noreexpStar hc.body hst] at hall; cases hall
    rw [hex] at hb ⊢
    have hnames : ∀ x ∈ starNames (getProcessedModule pm s T).1 t,
        starOk proj t x ∧ (x ∈ allNames (bodyOf proj t) ∨ HasEntry (getProcessedModule pm s T).1 t x) := by
      intro x hx
      unfold starNames at hx
      cases hg : getAll (getProcessedModule pm s T).1 t with
      | some l =>
        simp only [hg] at hx
        have := hI1.alls t l hg x hx
        exact ⟨Or.inl this, Or.inl this⟩
      | none =>
        simp only [hg] at hx
        obtain ⟨o, ho, _, _⟩ := hI1.mods t htl
        have ho' : getObj (getProcessedModule pm s T).1.reg t = some o := ho
        simp only [ho', List.mem_filter, List.mem_append] at hx
        refine ⟨Or.inr (by simpa [isPublic] using hx.2), Or.inr ⟨o, ho, ?_⟩⟩
        rcases hx.1 with h | h
        · exact Or.inl (dget_ne_none_of_key h)
        · exact Or.inr (dget_ne_none_of_key h)
    obtain ⟨hI2, he2⟩ := starFold_ok wf hst hT htl hu _ _ hI1 (hc.ext he1) hnames hb
    exact ⟨hI2, he1.trans he2⟩

/-! ## definitions: `def`, `x = <const>`, `class` -/

theorem dget_map_key {α β : Type} (g : Nat → β) : ∀ (l : List (Nat × α)) (c : Nat) (v : β),
    dget (l.map fun e => (e.1, g e.1)) c = some v → v = g c
  | [], _, _, h => by simp [dget] at h
  | (k, _) :: l, c, v, h => by
    simp only [List.map_cons, dget] at h
    split at h
    · rename_i hk; subst hk; injection h with h; exact h.symm
    · exact dget_map_key g l c v h

/-- without base classes, the linearisation used during the AST pass is the class itself -/
theorem mroOf_mid {proj : Project} {s : St} (hI : PdInv proj s) (c : Nat) : Names.mroOf (envOf s) c = [c] := by
  unfold Names.mroOf envOf
  simp only
  cases hd : dget (midMro s) c with
  | none => rfl
  | some v =>
    unfold midMro at hd
    have := dget_map_key (fun c => Mro.allbasesFuel (initialBases s) (fun _ => false) (s.reg.objs.length + 1) c) _ _ _ hd
    simp only [Option.getD_some, this, Mro.allbasesFuel, hI.initialBases_nil c, List.filter_nil, List.flatMap_nil]

theorem classFind_mid {proj : Project} {s : St} (hI : PdInv proj s) {c : Nat} {o : Obj}
    (ho : s.reg.objs[c]? = some o) (x : Name) : Names.classFind (envOf s) c x = dget o.contents x := by
  unfold Names.classFind
  rw [mroOf_mid hI]
  have : getObj (envOf s).st c = some o := ho
  simp only [List.findSome?, this]
  cases dget o.contents x <;> rfl

theorem visitFunc_ok {proj : Project} {rank : List Nat} (wf : WFacts proj rank) {s : St} (hI : PdInv proj s)
    {mod ctx : Nat} {S : Site} {full : List Stmt} (hc : Ctx proj s mod ctx S full) {n : Name}
    (hst : Stmt.funcDef n ∈ full) (hb : (addObj s .function n ctx).bad = false) :
    PdInv proj (addObj s .function n ctx) ∧ Ext s (addObj s .function n ctx) ∧
    CompleteStmt (addObj s .function n ctx) ctx (.funcDef n) := by
  have hps : getPs s S.1 ≠ .unprocessed := by rw [hc.hS1, hc.ps]; simp
  obtain ⟨h1, h2, _, _, _, ⟨po, hpo, hd⟩, _⟩ :=
    pdInv_addObj wf hI hb hc.pathc hc.body hst (st := .funcDef n) rfl hps (hc.static hI)
  exact ⟨h1, h2, by simp only [CompleteStmt]; exact ⟨po, _, hpo, hd⟩⟩

theorem visitAssign_ok {proj : Project} {rank : List Nat} (wf : WFacts proj rank) {s : St} (hI : PdInv proj s)
    {mod ctx : Nat} {S : Site} {full : List Stmt} (hc : Ctx proj s mod ctx S full) {n : Name} {v : Nat}
    (hst : Stmt.assign n v ∈ full) (hb : (visitAssign ctx n s).bad = false) :
    PdInv proj (visitAssign ctx n s) ∧ Ext s (visitAssign ctx n s) ∧
    CompleteStmt (visitAssign ctx n s) ctx (.assign n v) := by
  have hps : getPs s S.1 ≠ .unprocessed := by rw [hc.hS1, hc.ps]; simp
  obtain ⟨o, ho, _⟩ := hc.clsc
  have hgo : getObj s.reg ctx = some o := ho
  have hadd : (addObj s .attribute n ctx).bad = false →
      PdInv proj (addObj s .attribute n ctx) ∧ Ext s (addObj s .attribute n ctx) ∧
      CompleteStmt (addObj s .attribute n ctx) ctx (.assign n v) := by
    intro hb'
    obtain ⟨h1, h2, _, _, _, ⟨po, hpo, hd⟩, _⟩ :=
      pdInv_addObj wf hI hb' hc.pathc hc.body hst (st := .assign n v) rfl hps (hc.static hI)
    exact ⟨h1, h2, by simp only [CompleteStmt]; exact ⟨po, _, hpo, hd⟩⟩
  have hhas : dhas o.contents n = true → CompleteStmt s ctx (.assign n v) := by
    intro h
    simp only [CompleteStmt]
    unfold dhas at h
    cases hd : dget o.contents n with
    | none => simp [hd] at h
    | some c => exact ⟨o, c, ho, hd⟩
  unfold visitAssign at hb ⊢
  simp only [hgo] at hb ⊢
  by_cases hm : isModuleCls o.cls = true
  · simp only [hm, if_true] at hb ⊢
    by_cases hd : dhas o.contents n = true
    · simp only [hd, if_true] at hb ⊢; exact ⟨hI, Ext.refl s, hhas hd⟩
    · simp only [hd] at hb ⊢; exact hadd hb
  · simp only [hm] at hb ⊢
    by_cases hma : maybeAttribute s ctx n = true
    · simp only [hma, Bool.not_true, Bool.false_eq_true, if_false] at hb ⊢
      by_cases hd : dhas o.contents n = true
      · simp only [hd, if_true] at hb ⊢; exact ⟨hI, Ext.refl s, hhas hd⟩
      · simp only [hd] at hb ⊢; exact hadd hb
    · have hma' : maybeAttribute s ctx n = false := by simpa using hma
      simp only [hma', Bool.not_false, if_true] at hb ⊢
      refine ⟨hI, Ext.refl s, hhas ?_⟩
      unfold maybeAttribute at hma'
      rw [classFind_mid hI ho] at hma'
      unfold dhas
      cases hd : dget o.contents n with
      | none => simp [hd] at hma'
      | some c => simp

theorem findClass_some : ∀ {full : List Stmt} {n : Name} {bs : List Path} {body : List Stmt},
    Stmt.classDef n bs body ∈ full → ∃ b', findClass full n = some b'
  | [], _, _, _, h => by cases h
  | st :: rest, n, bs, body, h => by
    rcases List.mem_cons.1 h with rfl | h'
    · exact ⟨body, by simp [findClass]⟩
    · obtain ⟨b', hb'⟩ := findClass_some h'
      cases st with
      | classDef n2 bs2 body2 =>
        simp only [findClass]
        split
        · exact ⟨_, rfl⟩
        · exact ⟨b', hb'⟩
      | _ => exact ⟨b', by simpa [findClass] using hb'⟩

/-- the class statement of a scope that is named `n` is the one `findClass` sees -/
theorem findClass_of_mem {proj : Project} {rank : List Nat} (wf : WFacts proj rank) {S : Site} {full : List Stmt}
    {n : Name} {bs : List Path} {body : List Stmt} (hb : siteBody proj S = some full)
    (hst : Stmt.classDef n bs body ∈ full) : findClass full n = some body := by
  obtain ⟨b', hf⟩ := findClass_some hst
  obtain ⟨bs', hm'⟩ := findClass_mem hf
  have := same_stmt wf hb hst hm' (x := n) (stmtNames_of_explicit (by simp [explicitNames]))
    (stmtNames_of_explicit (by simp [explicitNames]))
  injection this with _ _ h3
  rw [hf, h3]

theorem cinfo_append {s : St} {c : Nat} {ci : ClsInfo} (hci : ci.raw = [] ∧ ci.expanded = [] ∧ ci.objs = [])
    (hold : ∀ c ci, dget s.cinfo c = some ci → ci.raw = [] ∧ ci.expanded = [] ∧ ci.objs = []) :
    ∀ c' ci', dget (s.cinfo ++ [(c, ci)]) c' = some ci' → ci'.raw = [] ∧ ci'.expanded = [] ∧ ci'.objs = [] := by
  intro c' ci' h
  have key : ∀ (l : List (Nat × ClsInfo)), dget (l ++ [(c, ci)]) c' =
      match dget l c' with | some v => some v | none => (if c = c' then some ci else none) := by
    intro l
    induction l with
    | nil => simp [dget]
    | cons e l ih =>
      obtain ⟨k, v⟩ := e
      simp only [List.cons_append, dget]
      split
      · rfl
      · exact ih
  rw [key] at h
  cases hd : dget s.cinfo c' with
  | some v => simp only [hd, Option.some.injEq] at h; subst h; exact hold c' v hd
  | none =>
    simp only [hd] at h
    by_cases hcc : c = c'
    · simp only [hcc, if_true, Option.some.injEq] at h; subst h; exact hci
    · simp [hcc] at h

theorem enterClass_ok {proj : Project} {rank : List Nat} (wf : WFacts proj rank) {s : St} (hI : PdInv proj s)
    {mod ctx : Nat} {S : Site} {full : List Stmt} (hc : Ctx proj s mod ctx S full) {n : Name} {bs : List Path}
    {body : List Stmt} (hst : Stmt.classDef n bs body ∈ full) (hb : (enterClass ctx n bs s).bad = false) :
    PdInv proj (enterClass ctx n bs s) ∧ Ext s (enterClass ctx n bs s) ∧
    Ctx proj (enterClass ctx n bs s) mod s.reg.objs.length (S.1, S.2 ++ [n]) body ∧
    (∃ po, (enterClass ctx n bs s).reg.objs[ctx]? = some po ∧ dget po.contents n = some s.reg.objs.length) := by
  have hps : getPs s S.1 ≠ .unprocessed := by rw [hc.hS1, hc.ps]; simp
  have hbs : bs = [] := wf.nobases hc.body hst
  subst hbs
  have hb1 := enterClass_bad hb
  obtain ⟨h1, h2, hlen, hnew, hpn, ⟨po, hpo, hd⟩, hps', hal', hci'⟩ :=
    pdInv_addObj wf hI hb1 hc.pathc hc.body hst (st := .classDef n [] body) rfl hps (hc.static hI)
  have he : enterClass ctx n [] s =
      { addObj s .cls n ctx with cinfo := (addObj s .cls n ctx).cinfo ++ [(s.reg.objs.length, ⟨ctx, [], [], []⟩)] } := by
    unfold enterClass
    simp [markBad]
  rw [he]
  generalize addObj s .cls n ctx = s1 at *
  have hext1 : Ext s1 { s1 with cinfo := s1.cinfo ++ [(s.reg.objs.length, ⟨ctx, [], [], []⟩)] } :=
    ⟨fun i o h => ⟨o, h, rfl, fun _ _ h => h, fun _ h => h⟩, fun _ _ h => h, fun t => ⟨id, id, fun h => by
      show getPs s1 t ≠ _; rw [h]; simp⟩⟩
  have hI2 : PdInv proj { s1 with cinfo := s1.cinfo ++ [(s.reg.objs.length, ⟨ctx, [], [], []⟩)] } :=
    { reg := h1.reg, lens := h1.lens, mods := h1.mods, site := h1.site, alias := h1.alias, cont := h1.cont,
      alls := h1.alls, started := h1.started, cinfo := cinfo_append ⟨rfl, rfl, rfl⟩ h1.cinfo,
      complete := fun m md hm hp => CompleteStmts.ext hext1 _ (h1.complete m md hm hp) }
  refine ⟨hI2, h2.trans hext1, ?_, ⟨po, hpo, hd⟩⟩
  have hc1 := hc.ext h2
  exact
    { hmod := hc.hmod, hS1 := hc.hS1,
      body := siteBody_snoc hc.body (findClass_of_mem wf hc.body hst),
      pathc := hpn,
      clsc := ⟨_, hnew, Or.inr ⟨by simp, rfl⟩⟩,
      ctxmod := fun h => by simp at h,
      ps := hc1.ps }

/-! ## a body -/

mutual
theorem visitStmt_ok {proj : Project} {rank : List Nat} (wf : WFacts proj rank) {pm : St → Nat → St}
    (hpm : PmOk proj pm) {mod : Nat} :
    ∀ (st : Stmt) (ctx : Nat) (s : St) (S : Site) (full : List Stmt), PdInv proj s → Ctx proj s mod ctx S full →
      st ∈ full → (visitStmt pm mod ctx st s).bad = false →
      PdInv proj (visitStmt pm mod ctx st s) ∧ Ext s (visitStmt pm mod ctx st s) ∧
      CompleteStmt (visitStmt pm mod ctx st s) ctx st
  | .importMod t a, ctx, s, S, full, hI, hc, hst, _ => by
    simp only [visitStmt]; exact visitImport_ok wf hI hc hst
  | .importFrom lvl M n a, ctx, s, S, full, hI, hc, hst, hb => by
    simp only [visitStmt] at hb ⊢; exact visitImportFrom_ok wf hpm hI hc hst hb
  | .importStar lvl M, ctx, s, S, full, hI, hc, hst, hb => by
    simp only [visitStmt] at hb ⊢
    obtain ⟨h1, h2⟩ := visitImportStar_ok wf hpm hI hc hst hb
    exact ⟨h1, h2, by simp [CompleteStmt]⟩
  | .classDef n bs body, ctx, s, S, full, hI, hc, hst, hb => by
    simp only [visitStmt] at hb ⊢
    have hb1 := visitStmts_bad hpm.1 body _ _ hb
    obtain ⟨hI1, he1, hc1, ⟨po, hpo, hd⟩⟩ := enterClass_ok wf hI hc hst hb1
    obtain ⟨hI2, he2, hcomp⟩ := visitStmts_ok wf hpm body _ _ _ body hI1 hc1 (fun _ h => h) hb
    refine ⟨hI2, he1.trans he2, ?_⟩
    simp only [CompleteStmt]
    obtain ⟨po', hpo', _, hcc, _⟩ := he2.objs ctx po hpo
    obtain ⟨o1, ho1, hcl⟩ := hc1.clsc
    obtain ⟨o2, ho2, hcl2, _, _⟩ := he2.objs _ o1 ho1
    refine ⟨s.reg.objs.length, o2, po', hpo', hcc n _ hd, ho2, ?_, hcomp⟩
    rcases hcl with ⟨h0, _⟩ | ⟨_, h0⟩
    · simp at h0
    · rw [hcl2, h0]
  | .funcDef n, ctx, s, S, full, hI, hc, hst, hb => by
    simp only [visitStmt] at hb ⊢; exact visitFunc_ok wf hI hc hst hb
  | .assign n v, ctx, s, S, full, hI, hc, hst, hb => by
    simp only [visitStmt] at hb ⊢; exact visitAssign_ok wf hI hc hst hb
  | .allAssign l, ctx, s, S, full, hI, _, _, _ => by
    simp only [visitStmt]; exact ⟨hI, Ext.refl s, by simp [CompleteStmt]⟩
theorem visitStmts_ok {proj : Project} {rank : List Nat} (wf : WFacts proj rank) {pm : St → Nat → St}
    (hpm : PmOk proj pm) {mod : Nat} :
    ∀ (sts : List Stmt) (ctx : Nat) (s : St) (S : Site) (full : List Stmt), PdInv proj s → Ctx proj s mod ctx S full →
      (∀ st ∈ sts, st ∈ full) → (visitStmts pm mod ctx sts s).bad = false →
      PdInv proj (visitStmts pm mod ctx sts s) ∧ Ext s (visitStmts pm mod ctx sts s) ∧
      CompleteStmts (visitStmts pm mod ctx sts s) ctx sts
  | [], ctx, s, S, full, hI, _, _, _ => by
    simp only [visitStmts]; exact ⟨hI, Ext.refl s, by simp [CompleteStmts]⟩
  | st :: rest, ctx, s, S, full, hI, hc, hsub, hb => by
    simp only [visitStmts] at hb ⊢
    have hb1 := visitStmts_bad hpm.1 rest _ _ hb
    obtain ⟨hI1, he1, hc1⟩ := visitStmt_ok wf hpm st ctx s S full hI hc (hsub st (List.mem_cons_self ..)) hb1
    obtain ⟨hI2, he2, hc2⟩ := visitStmts_ok wf hpm rest ctx _ S full hI1 (hc.ext he1)
      (fun x hx => hsub x (List.mem_cons_of_mem _ hx)) hb
    exact ⟨hI2, he1.trans he2, by simp only [CompleteStmts]; exact ⟨CompleteStmt.ext he2 st hc1, hc2⟩⟩
end

/-! ## a module; the whole run -/

theorem getPs_set {s : St} {m : Nat} {v : PState} (hm : m < s.ps.length) (t : Nat) :
    getPs { s with ps := s.ps.set m v } t = if t = m then v else getPs s t := by
  unfold getPs
  simp only [List.getD_eq_getElem?_getD, List.getElem?_set]
  by_cases h : m = t
  · subst h; simp [hm]
  · simp [h, Ne.symm h]

theorem getAll_set {s : St} {m : Nat} {v : Option (List Name)} (hm : m < s.alls.length) (t : Nat) :
    getAll { s with alls := s.alls.set m v } t = if t = m then v else getAll s t := by
  unfold getAll
  simp only [List.getD_eq_getElem?_getD, List.getElem?_set]
  by_cases h : m = t
  · subst h; simp [hm]
  · simp [h, Ne.symm h]

theorem lastAll_sub : ∀ (body : List Stmt) (l : List Name), lastAll body = some l → ∀ x ∈ l, x ∈ allNames body
  | [], _, h, _, _ => by simp [lastAll] at h
  | st :: rest, l, h, x, hx => by
    cases st with
    | allAssign l0 =>
      simp only [lastAll] at h
      simp only [allNames, List.mem_append]
      cases hr : lastAll rest with
      | none => simp only [hr, Option.some.injEq] at h; subst h; exact Or.inl hx
      | some l' => simp only [hr, Option.some.injEq] at h; subst h; exact Or.inr (lastAll_sub rest _ hr x hx)
    | _ => simp only [lastAll, allNames] at h ⊢; exact lastAll_sub rest l h x hx

theorem processModule_ok {proj : Project} {rank : List Nat} (wf : WFacts proj rank) :
    ∀ f, PmOk proj (processModule proj f)
  | 0 => ⟨processModule_sticky proj 0, fun s t h => by simp [processModule] at h⟩
  | f+1 => by
    refine ⟨processModule_sticky proj (f+1), ?_⟩
    intro s m hb hI hm
    have ih := processModule_ok wf f
    simp only [processModule] at hb ⊢
    by_cases hu : getPs s m = .unprocessed
    · have hne : ¬ (getPs s m ≠ .unprocessed) := by simp [hu]
      simp only [hne, if_false] at hb ⊢
      have hmd : proj[m]? = some proj[m] := by simp [hm]
      simp only [hmd] at hb ⊢
      have hmps : m < s.ps.length := by rw [hI.lens.1]; exact hm
      have hmal : m < s.alls.length := by rw [hI.lens.2]; exact hm
      -- the state in which the body is visited
      generalize hs2 : ({ s with ps := s.ps.set m .processing, alls := s.alls.set m (lastAll proj[m].body) } : St) = s2 at hb ⊢
      have hreg2 : s2.reg = s.reg := by rw [← hs2]
      have hps2 : ∀ t, getPs s2 t = if t = m then .processing else getPs s t := by
        intro t; rw [← hs2]; exact getPs_set (s := { s with alls := _ }) hmps t
      have hal2 : ∀ t, getAll s2 t = if t = m then lastAll proj[m].body else getAll s t := by
        intro t; rw [← hs2]; exact getAll_set (s := { s with ps := _ }) hmal t
      have hbody : bodyOf proj m = proj[m].body := bodyOf_eq hmd
      have hI2 : PdInv proj s2 :=
        { reg := hreg2 ▸ hI.reg
          lens := by rw [← hs2]; simp [hI.lens]
          mods := by rw [hreg2]; exact hI.mods
          site := by rw [hreg2]; exact hI.site
          alias := by rw [hreg2]; exact hI.alias
          cont := by rw [hreg2]; exact hI.cont
          alls := by
            intro t l hl x hx
            rw [hal2] at hl
            by_cases htm : t = m
            · subst htm; simp only [if_true] at hl; rw [hbody]; exact lastAll_sub _ l hl x hx
            · simp only [htm, if_false] at hl; exact hI.alls t l hl x hx
          started := by
            intro i S hp hS hne'
            rw [hps2]
            by_cases htm : S.1 = m
            · simp [htm]
            · simp only [htm, if_false]; exact hI.started i S (hreg2 ▸ hp) hS hne'
          cinfo := by rw [← hs2]; exact hI.cinfo
          complete := by
            intro t md ht hp
            rw [hps2] at hp
            by_cases htm : t = m
            · simp [htm] at hp
            · simp only [htm, if_false] at hp
              exact CompleteStmts.extObjs (ExtObjs.of_reg hreg2) _ (hI.complete t md ht hp) }
      obtain ⟨o, ho, hpm, hcl⟩ := hI.mods m hm
      have hc2 : Ctx proj s2 m m (m, []) proj[m].body :=
        { hmod := hm, hS1 := rfl, body := by rw [siteBody_zero hm, hbody]
          pathc := by rw [hreg2]; simpa [sitePath] using hpm
          clsc := ⟨o, by rw [hreg2]; exact ho, Or.inl ⟨rfl, by rw [hcl, modCls]; split <;> rfl⟩⟩
          ctxmod := fun _ => rfl
          ps := by rw [hps2]; simp }
      have hb3 : (visitStmts (processModule proj f) m m proj[m].body s2).bad = false := hb
      obtain ⟨hI3, he3, hcomp⟩ := visitStmts_ok wf ih proj[m].body m s2 (m, []) proj[m].body hI2 hc2 (fun _ h => h) hb3
      generalize hs3 : visitStmts (processModule proj f) m m proj[m].body s2 = s3 at hb hI3 he3 hcomp ⊢
      have hm3 : m < s3.ps.length := by rw [hI3.lens.1]; exact hm
      have hps4 : ∀ t, getPs { s3 with ps := s3.ps.set m .processed } t = if t = m then .processed else getPs s3 t :=
        fun t => getPs_set hm3 t
      refine ⟨?_, ?_, by rw [hps4]; simp⟩
      · exact
          { reg := hI3.reg
            lens := by simp [hI3.lens]
            mods := hI3.mods, site := hI3.site, alias := hI3.alias, cont := hI3.cont, alls := hI3.alls
            started := by
              intro i S hp hS hne'
              rw [hps4]
              by_cases htm : S.1 = m
              · simp [htm]
              · simp only [htm, if_false]; exact hI3.started i S hp hS hne'
            cinfo := hI3.cinfo
            complete := by
              intro t md ht hp
              rw [hps4] at hp
              by_cases htm : t = m
              · subst htm
                rw [hmd] at ht; injection ht with ht; subst ht
                exact CompleteStmts.extObjs (s := s3) (s' := { s3 with ps := s3.ps.set t .processed }) (ExtObjs.of_reg rfl) _ hcomp
              · simp only [htm, if_false] at hp
                exact CompleteStmts.extObjs (s := s3) (s' := { s3 with ps := s3.ps.set m .processed }) (ExtObjs.of_reg rfl) _
                  (hI3.complete t md ht hp) }
      · refine ⟨fun i o' ho' => ?_, fun i k hk => he3.paths i k (hreg2 ▸ hk), ?_⟩
        · exact he3.objs i o' (hreg2 ▸ ho')
        · intro t
          rw [hps4]
          by_cases htm : t = m
          · subst htm
            simp only [if_true, hu]
            refine ⟨fun h => ?_, fun h => ?_, fun _ => ?_⟩
            · cases h
            · cases h
            · simp
          · simp only [htm, if_false]
            have h3 := he3.ps t
            rw [hps2] at h3
            simp only [htm, if_false] at h3
            exact h3
    · have hne : getPs s m ≠ .unprocessed := hu
      simp [hne] at hb

/-! ## building the system: `initSt` -/

theorem addObject_fresh_root {s : State} {c : Cls} {name : Name} (hc : isModuleCls c = true)
    (hf : dget s.all [name] = none) :
    addObject s c name none =
      .ok ⟨s.objs ++ [(⟨name, none, c, [], []⟩ : Obj)], s.all ++ [([name], s.objs.length)], s.roots ++ [s.objs.length]⟩ := by
  unfold addObject place
  simp only [hc, if_true]
  unfold register
  have hp : path ⟨s.objs ++ [(⟨name, none, c, [], []⟩ : Obj)], s.all, s.roots ++ [s.objs.length]⟩ s.objs.length = some [name] := by
    simp only [path, List.length_append, List.length_singleton]
    exact pathAux_root (o := ⟨name, none, c, [], []⟩) (by simp) rfl
  simp only [hp, hf]

theorem path_append_old {s : State} {new : Obj} {all' : List (Path × Nat)} {roots' : List Nat} {i : Nat} {k : Path}
    (h : path s i = some k) : path ⟨s.objs ++ [new], all', roots'⟩ i = some k := by
  simp only [path, List.length_append, List.length_singleton] at h ⊢
  exact pathAux_mono (pathAux_append _ h)

theorem addModules_bad : ∀ (l : List Module) (s : St), (addModules l s).bad = false → s.bad = false
  | [], _, h => h
  | md :: rest, s, h => by
    simp only [addModules] at h
    split at h
    · have := addModules_bad rest _ h; simp at this
    · split at h
      · have := addModules_bad rest _ h; simp at this
      · split at h
        · have := addModules_bad rest _ h; simp at this
        · have := addModules_bad rest _ h
          simp only [Bool.or_eq_false_iff] at this; exact this.1

/-- the state after the first `k` modules have been created -/
structure InitInv (proj : Project) (k : Nat) (s : St) : Prop where
  reg : Inv s.reg
  len : s.reg.objs.length = k
  mods : ∀ m, m < k → ∃ o, s.reg.objs[m]? = some o ∧ path s.reg m = some (pathOf proj m) ∧ o.cls = modCls proj m ∧
    o.aliases = [] ∧ ∀ x c, dget o.contents x = some c → x ∈ childNames proj m
  ps : s.ps = List.replicate proj.length .unprocessed
  alls : s.alls = List.replicate proj.length none
  cinfo : s.cinfo = []

theorem isPkgObj_eq {s : State} {p : Nat} {o : Obj} (ho : s.objs[p]? = some o) : isPkgObj s p = (o.cls == .package) := by
  simp [isPkgObj, getObj, ho]

theorem addModules_ok {proj : Project} {rank : List Nat} (wf : WFacts proj rank) :
    ∀ (rest : List Module) (k : Nat) (s : St), k ≤ proj.length → proj.drop k = rest → InitInv proj k s →
      (addModules rest s).bad = false → InitInv proj proj.length (addModules rest s)
  | [], k, s, hle, hd, hI, _ => by
    have : proj.length ≤ k := by
      have := congrArg List.length hd; simp at this; omega
    have hk : k = proj.length := by omega
    simp only [addModules]; rw [← hk]; exact hI
  | md :: rest, k, s, hle, hd, hI, hb => by
    have hk : k < proj.length := by
      refine Nat.lt_of_not_le (fun hge => ?_)
      rw [List.drop_eq_nil_of_le hge] at hd; cases hd
    have hmd : proj[k]? = some md := by
      have := congrArg List.head? hd
      simpa [List.head?_drop] using this
    have hpath : pathOf proj k = md.path := by simp [pathOf, hmd]
    have hrest : proj.drop (k+1) = rest := by
      have := congrArg List.tail hd
      simpa [List.tail_drop] using this
    obtain ⟨hne, hpar⟩ := wf.parentOk k hk
    rw [hpath] at hne hpar
    simp only [addModules] at hb ⊢
    have hlast : md.path.getLast? = some (md.path.getLast hne) := List.getLast?_eq_some_getLast hne
    simp only [hlast] at hb ⊢
    have hsplit : md.path.dropLast ++ [md.path.getLast hne] = md.path := List.dropLast_concat_getLast hne
    generalize md.path.getLast hne = nm at hlast hsplit hb ⊢
    have hcm : (if md.isPkg = true then Cls.package else Cls.module) = modCls proj k := by
      simp [modCls, isPkg, hmd]
    have hmc : isModuleCls (modCls proj k) = true := by unfold modCls; split <;> rfl
    by_cases hl : md.path.length ≤ 1
    · -- a root module
      simp only [hl, if_true] at hb ⊢
      have hdup : dhas s.reg.all md.path = false := by
        cases hd' : dhas s.reg.all md.path with
        | false => rfl
        | true =>
          exfalso
          cases ha : addObject s.reg (if md.isPkg = true then Cls.package else Cls.module) nm none with
          | error e => simp only [ha] at hb; have := addModules_bad _ _ hb; simp at this
          | ok r => simp only [ha, hd'] at hb; have := addModules_bad _ _ hb; simp at this
      have hp1 : md.path = [nm] := by
        have : md.path.dropLast = [] := by
          apply List.eq_nil_of_length_eq_zero; simp; omega
        rw [this] at hsplit; exact hsplit.symm
      have hf : dget s.reg.all [nm] = none := by
        rw [← hp1]; unfold dhas at hdup
        cases hx : dget s.reg.all md.path with
        | none => rfl
        | some v => simp [hx] at hdup
      rw [hcm] at hb ⊢
      have ha := addObject_fresh_root (s := s.reg) (c := modCls proj k) (name := nm) hmc hf
      simp only [ha, hdup, Bool.or_false] at hb ⊢
      refine addModules_ok wf rest (k+1) _ hk hrest ?_ hb
      have hinv : Inv (⟨s.reg.objs ++ [(⟨nm, none, modCls proj k, [], []⟩ : Obj)],
          s.reg.all ++ [([nm], s.reg.objs.length)], s.reg.roots ++ [s.reg.objs.length]⟩ : State) :=
        addObject_inv hI.reg ha
      refine ⟨hinv, by simp [hI.len], ?_, hI.ps, hI.alls, hI.cinfo⟩
      intro m hm
      by_cases hmk : m < k
      · obtain ⟨o, ho, hp, hc, ha', hcc⟩ := hI.mods m hmk
        refine ⟨o, ?_, path_append_old hp, hc, ha', hcc⟩
        simp only; rw [List.getElem?_append_left (by rw [hI.len]; exact hmk)]; exact ho
      · have : m = k := by omega
        subst this
        refine ⟨⟨nm, none, modCls proj m, [], []⟩, ?_, ?_, rfl, rfl, fun x c h => by simp [dget] at h⟩
        · simp only; rw [← hI.len]; simp
        · rw [hpath, hp1]
          simp only [path, List.length_append, List.length_singleton]
          rw [← hI.len]
          exact pathAux_root (o := ⟨nm, none, modCls proj s.reg.objs.length, [], []⟩) (by simp) rfl
    · -- a nested module: its parent is an earlier package
      have hl2 : 2 ≤ md.path.length := by omega
      obtain ⟨q, hq, hqk, hqp⟩ := hpar hl2
      obtain ⟨_, hqpath⟩ := modIdx_spec hq
      obtain ⟨qo, hqo, hqpp, hqc, _, _⟩ := hI.mods q hqk
      have hreg : dget s.reg.all md.path.dropLast = some q := by
        rw [← hqpath]; exact dget_of_path hI.reg hqpp
      have hqpk : isPkgObj s.reg q = true := by
        rw [isPkgObj_eq hqo, hqc, modCls, hqp]; rfl
      simp only [hl, if_false, hreg, hqpk, if_true] at hb ⊢
      have hdup : dhas s.reg.all md.path = false := by
        cases hd' : dhas s.reg.all md.path with
        | false => rfl
        | true =>
          exfalso
          cases ha : addObject s.reg (if md.isPkg = true then Cls.package else Cls.module) nm (some q) with
          | error e => simp only [ha] at hb; have := addModules_bad _ _ hb; simp at this
          | ok r => simp only [ha, hd'] at hb; have := addModules_bad _ _ hb; simp at this
      have hqpp' : path s.reg q = some md.path.dropLast := by rw [hqpp, hqpath]
      have hf : dget s.reg.all (md.path.dropLast ++ [nm]) = none := by
        rw [hsplit]; unfold dhas at hdup
        cases hx : dget s.reg.all md.path with
        | none => rfl
        | some v => simp [hx] at hdup
      rw [hcm] at hb ⊢
      have ha := addObject_fresh (c := modCls proj k) hqpp' hf
      simp only [ha, hdup, Bool.or_false] at hb ⊢
      refine addModules_ok wf rest (k+1) _ hk hrest ?_ hb
      have hinv : Inv (⟨objsAfterAdd s.reg (modCls proj k) nm q,
          s.reg.all ++ [(md.path.dropLast ++ [nm], s.reg.objs.length)], s.reg.roots⟩ : State) :=
        addObject_inv hI.reg ha
      have hqlt : q < s.reg.objs.length := by rw [hI.len]; exact hqk
      refine ⟨hinv, by simp [objsAfterAdd_length, hI.len], ?_, hI.ps, hI.alls, hI.cinfo⟩
      intro m hm
      by_cases hmk : m < k
      · obtain ⟨o, ho, hp, hc, ha', hcc⟩ := hI.mods m hmk
        refine ⟨_, objsAfterAdd_get_old hqlt ho, path_afterAdd_old hp, ?_, ?_, ?_⟩
        · split <;> exact hc
        · split <;> exact ha'
        · intro x c hx
          split at hx
          · rename_i hmq; subst hmq
            simp only at hx
            by_cases hxn : x = nm
            · subst hxn
              -- the new module is a child of `m`
              unfold childNames
              rw [List.mem_filterMap]
              refine ⟨md, List.mem_of_getElem? hmd, ?_⟩
              rw [← hqpath]; simp [hlast]
            · rw [dset_get_other _ _ _ _ hxn] at hx; exact hcc x c hx
          · exact hcc x c hx
      · have : m = k := by omega
        subst this
        refine ⟨⟨nm, some q, modCls proj m, [], []⟩, ?_, ?_, rfl, rfl, fun x c h => by simp [dget] at h⟩
        · simp only; rw [← hI.len]; exact objsAfterAdd_get_new hqlt
        · rw [hpath, ← hsplit, ← hI.len]; exact path_afterAdd_new hqpp'

theorem getPs_replicate {s : St} {n : Nat} (h : s.ps = List.replicate n .unprocessed) (t : Nat) :
    getPs s t = if t < n then .unprocessed else .processed := by
  unfold getPs
  rw [h, List.getD_eq_getElem?_getD, List.getElem?_replicate]
  split <;> rfl

theorem initSt_ok {proj : Project} {rank : List Nat} (wf : WFacts proj rank) (hb : (initSt proj).bad = false) :
    PdInv proj (initSt proj) ∧ ∀ t, getPs (initSt proj) t ≠ .processing := by
  unfold initSt at hb ⊢
  have h0 : InitInv proj 0 ⟨Registry.init, List.replicate proj.length .unprocessed, List.replicate proj.length none, [], false⟩ :=
    ⟨inv_holds_init, rfl, fun m hm => by omega, rfl, rfl, rfl⟩
  have hI := addModules_ok wf proj 0 _ (Nat.zero_le _) (by simp) h0 hb
  generalize addModules proj _ = s at hb hI
  have hps := getPs_replicate hI.ps
  have hall : ∀ t, getAll s t = none := by
    intro t; unfold getAll; rw [hI.alls, List.getD_eq_getElem?_getD, List.getElem?_replicate]; split <;> rfl
  refine ⟨?_, fun t => by rw [hps]; split <;> simp⟩
  have hobj : ∀ i o, s.reg.objs[i]? = some o → i < proj.length := by
    intro i o ho; rw [← hI.len]; exact (List.getElem?_eq_some_iff.1 ho).1
  exact
    { reg := hI.reg
      lens := by rw [hI.ps, hI.alls]; simp
      mods := fun m hm => by obtain ⟨o, ho, hp, hc, _⟩ := hI.mods m hm; exact ⟨o, ho, hp, hc⟩
      site := by
        intro i o ho
        have hi := hobj i o ho
        obtain ⟨o', ho', hp, hc, _⟩ := hI.mods i hi
        rw [ho] at ho'; injection ho' with ho'; subst ho'
        exact ⟨(i, []), by rw [hc]; exact ObjKind.mod hi, by simpa [sitePath] using hp⟩
      alias := by
        intro i o S ho _ _ x tgt hx
        obtain ⟨o', ho', _, _, ha, _⟩ := hI.mods i (hobj i o ho)
        rw [ho] at ho'; injection ho' with ho'; subst ho'
        rw [ha] at hx; simp [dget] at hx
      cont := by
        intro m o hm ho x c hx
        obtain ⟨o', ho', _, _, _, hc⟩ := hI.mods m hm
        rw [ho] at ho'; injection ho' with ho'; subst ho'
        exact Or.inl (hc x c hx)
      alls := fun m l hl => by rw [hall] at hl; cases hl
      started := by
        intro i S hp hS hne
        exfalso
        have hi : i < proj.length := by rw [← hI.len]; exact path_lt hp
        obtain ⟨o', _, hp', _⟩ := hI.mods i hi
        rw [hp] at hp'; injection hp' with hp'
        have := site_unique wf hS (⟨hi, Or.inl rfl⟩ : StaticSite proj (i, [])) (by simpa [sitePath] using hp')
        rw [this] at hne; exact hne rfl
      cinfo := fun c ci h => by rw [hI.cinfo] at h; simp [dget] at h
      complete := by
        intro m md hm hp
        have hlt : m < proj.length := (List.getElem?_eq_some_iff.1 hm).1
        rw [hps] at hp; simp [hlt] at hp }

def NoProcessing (s : St) : Prop := ∀ t, getPs s t ≠ .processing

theorem NoProcessing.rel {s s' : St} (h : NoProcessing s) (hr : PsRel s s') : NoProcessing s' := by
  intro t
  obtain ⟨_, r2, r3⟩ := hr t
  cases hp : getPs s t with
  | unprocessed => exact r3 hp
  | processing => exact absurd hp (h t)
  | processed => rw [r2 hp]; simp

theorem process_bad {proj : Project} : ∀ (order : List Nat) (s : St), (process proj order s).bad = false → s.bad = false
  | [], _, h => h
  | m :: rest, s, h => by
    simp only [process, List.foldl_cons] at h
    have := process_bad rest _ h
    split at this
    · exact processModule_sticky proj _ _ _ this
    · exact this

theorem process_ok {proj : Project} {rank : List Nat} (wf : WFacts proj rank) :
    ∀ (order : List Nat) (s : St), PdInv proj s → NoProcessing s → (process proj order s).bad = false →
      PdInv proj (process proj order s) ∧ NoProcessing (process proj order s) ∧
      (∀ m, getPs s m = .processed → getPs (process proj order s) m = .processed) ∧
      (∀ m ∈ order, getPs (process proj order s) m = .processed)
  | [], s, hI, hn, _ => ⟨hI, hn, fun _ h => h, fun _ h => by cases h⟩
  | m :: rest, s, hI, hn, hb => by
    simp only [process, List.foldl_cons] at hb ⊢
    have hb1 := process_bad (proj := proj) rest _ hb
    by_cases hu : getPs s m = .unprocessed
    · simp only [hu, if_true] at hb hb1 ⊢
      have hm : m < proj.length := by
        refine Nat.lt_of_not_le (fun hge => ?_)
        unfold getPs at hu
        rw [List.getD_eq_getElem?_getD, List.getElem?_eq_none (by rw [hI.lens.1]; exact hge)] at hu
        cases hu
      obtain ⟨hI1, he1, hdone⟩ := (processModule_ok wf (proj.length + 1)).2 s m hb1 hI hm
      have hn1 := hn.rel he1.ps
      obtain ⟨hI2, hn2, hkeep, hord⟩ := process_ok wf rest _ hI1 hn1 hb
      refine ⟨hI2, hn2, fun t ht => hkeep t ((he1.ps t).2.1 ht), ?_⟩
      intro t ht
      rcases List.mem_cons.1 ht with rfl | ht'
      · exact hkeep t hdone
      · exact hord t ht'
    · simp only [hu, if_false] at hb hb1 ⊢
      obtain ⟨hI2, hn2, hkeep, hord⟩ := process_ok wf rest _ hI hn hb
      refine ⟨hI2, hn2, hkeep, ?_⟩
      intro t ht
      rcases List.mem_cons.1 ht with rfl | ht'
      · refine hkeep t ?_
        cases hp : getPs s t with
        | processed => rfl
        | processing => exact absurd hp (hn t)
        | unprocessed => exact absurd hp hu
      · exact hord t ht'

theorem run_ok {proj : Project} {rank : List Nat} (wf : WFacts proj rank) (order : List Nat)
    (hb : (run proj order).bad = false) :
    PdInv proj (run proj order) ∧ NoProcessing (run proj order) ∧
    ∀ m ∈ order, getPs (run proj order) m = .processed := by
  unfold run at hb ⊢
  have hb0 := process_bad order _ hb
  obtain ⟨hI0, hn0⟩ := initSt_ok wf hb0
  obtain ⟨h1, h2, _, h4⟩ := process_ok wf order _ hI0 hn0 hb
  exact ⟨h1, h2, h4⟩

/-! ## name resolution on a finished state -/

theorem CompleteStmts.mem {s : St} {ctx : Nat} : ∀ {body : List Stmt} {st : Stmt}, CompleteStmts s ctx body → st ∈ body →
    CompleteStmt s ctx st
  | [], _, _, h => by cases h
  | x :: xs, st, hc, h => by
    simp only [CompleteStmts] at hc
    rcases List.mem_cons.1 h with rfl | h'
    · exact hc.1
    · exact CompleteStmts.mem hc.2 h'

theorem complete_entry {s : St} {ctx : Nat} {st : Stmt} {x : Name} (hc : CompleteStmt s ctx st)
    (hx : x ∈ explicitNames st) : HasEntry s ctx x := by
  cases st with
  | classDef n bs body =>
    simp only [explicitNames, List.mem_singleton] at hx; subst hx
    simp only [CompleteStmt] at hc
    obtain ⟨c, o, po, hpo, hd, _⟩ := hc
    exact ⟨po, hpo, Or.inl (by rw [hd]; simp)⟩
  | importMod t a => simp only [CompleteStmt] at hc; exact hc x hx
  | importFrom l M n a =>
    simp only [explicitNames, List.mem_singleton] at hx; subst hx
    simpa only [CompleteStmt] using hc
  | importStar l M => simp [explicitNames] at hx
  | funcDef n =>
    simp only [explicitNames, List.mem_singleton] at hx; subst hx
    simp only [CompleteStmt] at hc; exact hc.entry
  | assign n v =>
    simp only [explicitNames, List.mem_singleton] at hx; subst hx
    simp only [CompleteStmt] at hc; exact hc.entry
  | allAssign l => simp [explicitNames] at hx

/-- following a chain of class names through complete bodies -/
theorem complete_walk {proj : Project} {s : St} (hI : PdInv proj s) :
    ∀ (cs : List Name) (ctx : Nat) (pp : Path) (body b : List Stmt), CompleteStmts s ctx body →
      path s.reg ctx = some pp → bodyAt body cs = some b →
      ∃ j, path s.reg j = some (pp ++ cs) ∧ CompleteStmts s j b
  | [], ctx, pp, body, b, hc, hp, hb => by
    simp only [bodyAt, Option.some.injEq] at hb; subst hb
    exact ⟨ctx, by simpa using hp, hc⟩
  | c :: cs, ctx, pp, body, b, hc, hp, hb => by
    simp only [bodyAt] at hb
    cases hf : findClass body c with
    | none => simp [hf] at hb
    | some b1 =>
      simp only [hf] at hb
      obtain ⟨bs, hm⟩ := findClass_mem hf
      have h1 := hc.mem hm
      simp only [CompleteStmt] at h1
      obtain ⟨cid, o, po, hpo, hd, _, _, hcb⟩ := h1
      have hpc := path_child hI.reg hpo hd hp
      obtain ⟨j, hj, hcj⟩ := complete_walk hI cs cid (pp ++ [c]) b1 b hcb hpc hb
      exact ⟨j, by simpa using hj, hcj⟩

/-- the object of a class scope holds an entry for every statement of the class body -/
theorem class_complete {proj : Project} {s : St} (hI : PdInv proj s) (hn : NoProcessing s) {i : Nat} {S : Site}
    {b : List Stmt} (hp : path s.reg i = some (sitePath proj S)) (hS : StaticSite proj S) (hne : S.2 ≠ [])
    (hb : siteBody proj S = some b) : CompleteStmts s i b := by
  have hst := hI.started i S hp hS hne
  have hlt := hS.1
  have hmd : proj[S.1]? = some proj[S.1] := by simp [hlt]
  have hproc : getPs s S.1 = .processed := by
    cases h : getPs s S.1 with
    | processed => rfl
    | processing => exact absurd h (hn S.1)
    | unprocessed => exact absurd h hst
  have hc := hI.complete S.1 _ hmd hproc
  obtain ⟨o, ho, hpm, _⟩ := hI.mods S.1 hlt
  have hb' := siteBody_bodyAt hb
  rw [bodyOf_eq hmd] at hb'
  obtain ⟨j, hj, hcj⟩ := complete_walk hI S.2 S.1 _ _ b hc hpm hb'
  have : j = i := by
    have h1 := dget_of_path hI.reg hj
    have h2 := dget_of_path hI.reg hp
    simp only [sitePath] at h2
    rw [h1] at h2; injection h2
  subst this; exact hcj

theorem jpd_ne_nil {proj : Project} {rank : List Nat} (wf : WFacts proj rank) :
    ∀ {S : Site} {x : Name} {tgt : Path}, Jpd proj S x tgt → tgt ≠ [] := by
  intro S x tgt h
  induction h with
  | @importAs S b tgt x hb hst =>
    obtain ⟨t', ht', _⟩ := wf.targets hb hst (modIdx proj tgt) (by simp [stmtTargets])
    obtain ⟨hlt, hp⟩ := modIdx_spec ht'
    rw [← hp]; exact (wf.parentOk t' hlt).1
  | importTop _ _ => simp
  | «from» _ _ _ => simp
  | starChild _ _ _ _ _ _ => simp
  | starAlias _ _ _ _ _ _ ih => exact ih
  | starNone _ _ _ _ _ => simp

end Imports
