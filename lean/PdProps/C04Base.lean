/-
C04, helper layers for Part 2 (`Imports`): static relations and `WF` facts; the invariant of the
pydoctor machine; the invariant of the Python machine; `expandName` / `resolveName` on a finished
state.  The property theorems are in PdProps/C04.lean.
-/
import PdModel.Names
import PdModel.Imports
import PdModel.PyImp
import PdProps.C07

/-! # Part 2, static layer

C04, static layer (lemmas): sites, `WF`, and the two STATIC over-approximations of what the machines can
write: `Jpd` (entries of pydoctor's alias maps) and `Jpy` (entries of Python namespaces, extended to
dotted chains).  The machines are tied to these relations in the next two parts (pydoctor, Python).
-/

namespace Imports
open Registry

/-! ## the static relations -/

/-- `starOk proj t x`: a star import from `t` may take the name `x` -/
def starOk (proj : Project) (t : Nat) (x : Name) : Prop := x ∈ allNames (bodyOf proj t) ∨ isPublic x = true

/-- **Python**: `Jpy S names v` — evaluating the dotted `names` with its first component looked up in
the namespace of scope `S` itself (module `__dict__` / class `__dict__`) and the rest by attribute
access can give `v`.  Over-approximation of every run (each clause is one way a binding can arise). -/
inductive Jpy (proj : Project) : Site → List Name → SVal → Prop
  | dfn {S : Site} {b : List Stmt} {st : Stmt} {n : Name} :
      siteBody proj S = some b → st ∈ b → st.defName = some n → Jpy proj S [n] (.dfn S.1 (S.2 ++ [n]))
  | child {m : Nat} {x : Name} {c : Nat} :
      modIdx proj (pathOf proj m ++ [x]) = some c → Jpy proj (m, []) [x] (.mod c)
  | importTop {S : Site} {b : List Stmt} {h : Name} {r : Path} {top : Nat} :
      siteBody proj S = some b → Stmt.importMod (h :: r) none ∈ b → modIdx proj [h] = some top →
      Jpy proj S [h] (.mod top)
  | importAs1 {S : Site} {b : List Stmt} {h x : Name} {top : Nat} :
      siteBody proj S = some b → Stmt.importMod [h] (some x) ∈ b → modIdx proj [h] = some top →
      Jpy proj S [x] (.mod top)
  | importAs {S : Site} {b : List Stmt} {h y x : Name} {ys : List Name} {top : Nat} {v : SVal} :
      siteBody proj S = some b → Stmt.importMod (h :: y :: ys) (some x) ∈ b → modIdx proj [h] = some top →
      Jpy proj (top, []) (y :: ys) v → Jpy proj S [x] v
  | from {S : Site} {b : List Stmt} {lvl : Nat} {M : Path} {n : Name} {a : Option Name} {t : Nat} {v : SVal} :
      siteBody proj S = some b → Stmt.importFrom lvl M n a ∈ b → target proj S.1 lvl M = some t →
      Jpy proj (t, []) [n] v → Jpy proj S [a.getD n] v
  | star {m : Nat} {b : List Stmt} {lvl : Nat} {M : Path} {t : Nat} {x : Name} {v : SVal} :
      siteBody proj (m, []) = some b → Stmt.importStar lvl M ∈ b → target proj m lvl M = some t →
      starOk proj t x → Jpy proj (t, []) [x] v → Jpy proj (m, []) [x] v
  | cons {S : Site} {x y : Name} {ys : List Name} {w v : SVal} :
      Jpy proj S [x] w → Jpy proj (scopeOf w) (y :: ys) v → Jpy proj S (x :: y :: ys) v

/-- the module a (possibly relative) `from` import names, by pydoctor's level arithmetic -/
def pdAbsName (proj : Project) (m : Nat) (level : Nat) (modname : Path) : Option Path :=
  if level = 0 then some modname else
  match Names.relativeBase (pathOf proj m) (isPkg proj m) level with
  | none => none
  | some b => some (b ++ modname)

/-- **pydoctor**: `Jpd S x tgt` — the alias map of scope `S` can map `x` to the dotted name `tgt`. -/
inductive Jpd (proj : Project) : Site → Name → Path → Prop
  | importAs {S : Site} {b : List Stmt} {tgt : Path} {x : Name} :
      siteBody proj S = some b → Stmt.importMod tgt (some x) ∈ b → Jpd proj S x tgt
  | importTop {S : Site} {b : List Stmt} {h : Name} {r : Path} :
      siteBody proj S = some b → Stmt.importMod (h :: r) none ∈ b → Jpd proj S h [h]
  | from {S : Site} {b : List Stmt} {lvl : Nat} {M : Path} {n : Name} {a : Option Name} {T : Path} :
      siteBody proj S = some b → Stmt.importFrom lvl M n a ∈ b → pdAbsName proj S.1 lvl M = some T →
      Jpd proj S (a.getD n) (T ++ [n])
  | starChild {S : Site} {b : List Stmt} {lvl : Nat} {M : Path} {T : Path} {t : Nat} {x : Name} :
      siteBody proj S = some b → Stmt.importStar lvl M ∈ b → pdAbsName proj S.1 lvl M = some T →
      (∀ t', modIdx proj T = some t' → t = t') → starOk proj t x →
      (x ∈ childNames proj t ∨ ∃ st ∈ bodyOf proj t, st.defName = some x) →
      Jpd proj S x (pathOf proj t ++ [x])
  | starAlias {S : Site} {b : List Stmt} {lvl : Nat} {M : Path} {T : Path} {t : Nat} {x : Name} {tgt : Path} :
      siteBody proj S = some b → Stmt.importStar lvl M ∈ b → pdAbsName proj S.1 lvl M = some T →
      (∀ t', modIdx proj T = some t' → t = t') → starOk proj t x → Jpd proj (t, []) x tgt →
      Jpd proj S x tgt
  | starNone {S : Site} {b : List Stmt} {lvl : Nat} {M : Path} {T : Path} {t : Nat} {x : Name} :
      siteBody proj S = some b → Stmt.importStar lvl M ∈ b → pdAbsName proj S.1 lvl M = some T →
      (∀ t', modIdx proj T = some t' → t = t') → x ∈ allNames (bodyOf proj t) → Jpd proj S x [x]

/-! ## basic facts -/

theorem nodupB_iff {α : Type} [DecidableEq α] (l : List α) : nodupB l = true ↔ l.Nodup := by
  induction l with
  | nil => simp [nodupB]
  | cons x xs ih => simp [nodupB, ih, List.nodup_cons]

theorem modIdx_spec {proj : Project} {p : Path} {m : Nat} (h : modIdx proj p = some m) :
    m < proj.length ∧ pathOf proj m = p := by
  unfold modIdx at h
  have h1 := List.findIdx?_eq_some_iff_getElem.1 h
  obtain ⟨hlt, hp, _⟩ := h1
  refine ⟨hlt, ?_⟩
  unfold pathOf
  simp only [List.getElem?_eq_getElem hlt]
  simpa using hp

theorem modIdx_of_path {proj : Project} (hn : (proj.map (·.path)).Nodup) {m : Nat} (hm : m < proj.length) :
    modIdx proj (pathOf proj m) = some m := by
  unfold modIdx
  rw [List.findIdx?_eq_some_iff_getElem]
  refine ⟨hm, ?_, ?_⟩
  · unfold pathOf; simp [List.getElem?_eq_getElem hm]
  · intro j hj
    unfold pathOf
    simp only [List.getElem?_eq_getElem hm]
    intro hc
    have hc' : proj[j].path = proj[m].path := by simpa using hc
    have hp := List.pairwise_iff_getElem.1 hn j m (by simp; omega) (by simp; omega) hj
    simp only [List.getElem_map] at hp
    exact hp hc'

theorem nodup_map_inj {α β : Type} {f : α → β} : ∀ {l : List α}, (l.map f).Nodup → ∀ {a b}, a ∈ l → b ∈ l →
    f a = f b → a = b
  | [], _, _, _, ha, _, _ => by cases ha
  | x :: xs, hn, a, b, ha, hb, hf => by
    simp only [List.map_cons, List.nodup_cons, List.mem_map, not_exists, not_and] at hn
    rcases List.mem_cons.1 ha with rfl | ha' <;> rcases List.mem_cons.1 hb with rfl | hb'
    · rfl
    · exact absurd hf.symm (hn.1 b hb')
    · exact absurd hf (hn.1 a ha')
    · exact nodup_map_inj hn.2 ha' hb' hf

/-- two statements of a body that can bind the same name are the same statement, when the body's
names are pairwise distinct -/
theorem same_of_nodup_flatMap {α β : Type} {f : α → List β} : ∀ {l : List α}, (l.flatMap f).Nodup →
    ∀ {a b x}, a ∈ l → b ∈ l → x ∈ f a → x ∈ f b → a = b
  | [], _, _, _, _, ha, _, _, _ => by cases ha
  | y :: ys, hn, a, b, x, ha, hb, hxa, hxb => by
    simp only [List.flatMap_cons, List.nodup_append] at hn
    obtain ⟨_, h2, h3⟩ := hn
    rcases List.mem_cons.1 ha with rfl | ha' <;> rcases List.mem_cons.1 hb with rfl | hb'
    · rfl
    · exact absurd rfl (h3 x hxa x (List.mem_flatMap.2 ⟨b, hb', hxb⟩))
    · exact absurd rfl (h3 x hxb x (List.mem_flatMap.2 ⟨a, ha', hxa⟩))
    · exact same_of_nodup_flatMap h2 ha' hb' hxa hxb

/-! ## statements of a scope -/

theorem allStmt_self {P : List Name → Stmt → Bool} {cp : List Name} {st : Stmt}
    (h : allStmt P cp st = true) : P cp st = true := by
  cases st <;> simp_all [allStmt]

theorem allStmts_mem {P : List Name → Stmt → Bool} {cp : List Name} : ∀ {body : List Stmt} {st : Stmt},
    allStmts P cp body = true → st ∈ body → allStmt P cp st = true
  | [], _, _, hm => by cases hm
  | x :: xs, st, h, hm => by
    simp only [allStmts, Bool.and_eq_true] at h
    rcases List.mem_cons.1 hm with rfl | hm'
    · exact h.1
    · exact allStmts_mem h.2 hm'

theorem findClass_mem : ∀ {body : List Stmt} {c : Name} {b' : List Stmt}, findClass body c = some b' →
    ∃ bs, Stmt.classDef c bs b' ∈ body
  | [], _, _, h => by simp [findClass] at h
  | st :: rest, c, b', h => by
    cases st with
    | classDef n bs body =>
      simp only [findClass] at h
      split at h
      · rename_i hn; subst hn; injection h with h; subst h; exact ⟨bs, List.mem_cons_self ..⟩
      · obtain ⟨bs', hm⟩ := findClass_mem h; exact ⟨bs', List.mem_cons_of_mem _ hm⟩
    | _ =>
      simp only [findClass] at h
      obtain ⟨bs', hm⟩ := findClass_mem h; exact ⟨bs', List.mem_cons_of_mem _ hm⟩

theorem allStmts_bodyAt {P : List Name → Stmt → Bool} : ∀ {cs pre : List Name} {body b : List Stmt},
    allStmts P pre body = true → bodyAt body cs = some b → allStmts P (pre ++ cs) b = true
  | [], pre, body, b, h, hb => by
    simp only [bodyAt, Option.some.injEq] at hb; subst hb; simpa using h
  | c :: cs, pre, body, b, h, hb => by
    simp only [bodyAt] at hb
    cases hf : findClass body c with
    | none => simp [hf] at hb
    | some b' =>
      simp only [hf] at hb
      obtain ⟨bs, hm⟩ := findClass_mem hf
      have h1 := allStmts_mem h hm
      simp only [allStmt, Bool.and_eq_true] at h1
      have := allStmts_bodyAt h1.2 hb
      simpa [List.append_assoc] using this

theorem bodyOf_eq {proj : Project} {m : Nat} {md : Module} (h : proj[m]? = some md) : bodyOf proj m = md.body := by
  simp [bodyOf, h]

theorem siteBody_lt {proj : Project} {S : Site} {b : List Stmt} (h : siteBody proj S = some b) : S.1 < proj.length := by
  unfold siteBody at h
  cases hm : proj[S.1]? with
  | none => simp [hm] at h
  | some md => exact (List.getElem?_eq_some_iff.1 hm).1

theorem siteBody_bodyAt {proj : Project} {S : Site} {b : List Stmt} (h : siteBody proj S = some b) :
    bodyAt (bodyOf proj S.1) S.2 = some b := by
  unfold siteBody at h
  cases hm : proj[S.1]? with
  | none => simp [hm] at h
  | some md => simp only [hm] at h; rw [bodyOf_eq hm]; exact h

/-- a property checked by `allProj` holds of every statement of every scope -/
theorem allProj_spec {proj : Project} {P : Nat → List Name → Stmt → Bool} (h : allProj proj P = true)
    {S : Site} {b : List Stmt} {st : Stmt} (hb : siteBody proj S = some b) (hm : st ∈ b) :
    P S.1 S.2 st = true := by
  unfold allProj at h
  have hlt := siteBody_lt hb
  have h1 := List.all_eq_true.1 h S.1 (List.mem_range.2 hlt)
  have h2 := allStmts_bodyAt h1 (siteBody_bodyAt hb)
  simp only [List.nil_append] at h2
  exact allStmt_self (allStmts_mem h2 hm)

theorem classNodup_findClass : ∀ {body : List Stmt} {c : Name} {b' : List Stmt}, classNodupStmts body = true →
    findClass body c = some b' → (b'.flatMap explicitNames).Nodup ∧ classNodupStmts b' = true
  | [], _, _, _, h => by simp [findClass] at h
  | st :: rest, c, b', hn, h => by
    simp only [classNodupStmts, Bool.and_eq_true] at hn
    cases st with
    | classDef n bs body =>
      simp only [findClass] at h
      split at h
      · injection h with h; subst h
        have := hn.1
        simp only [classNodupStmt, Bool.and_eq_true, nodupB_iff] at this
        exact this
      · exact classNodup_findClass hn.2 h
    | _ =>
      simp only [findClass] at h
      exact classNodup_findClass hn.2 h

theorem classNodup_bodyAt : ∀ {cs : List Name} {body b : List Stmt}, classNodupStmts body = true →
    bodyAt body cs = some b → cs ≠ [] → (b.flatMap explicitNames).Nodup ∧ classNodupStmts b = true
  | [], _, _, _, _, hne => absurd rfl hne
  | c :: cs, body, b, hn, hb, _ => by
    simp only [bodyAt] at hb
    cases hf : findClass body c with
    | none => simp [hf] at hb
    | some b' =>
      simp only [hf] at hb
      have h1 := classNodup_findClass hn hf
      cases cs with
      | nil => simp only [bodyAt, Option.some.injEq] at hb; subst hb; exact h1
      | cons c2 cs2 => exact classNodup_bodyAt h1.2 hb (by simp)

/-! ## what `WF` gives -/

structure WFacts (proj : Project) (rank : List Nat) : Prop where
  modNodup : (proj.map (·.path)).Nodup
  parentOk : ∀ m, m < proj.length → pathOf proj m ≠ [] ∧
    (2 ≤ (pathOf proj m).length → ∃ q, modIdx proj (pathOf proj m).dropLast = some q ∧ q < m ∧ isPkg proj q = true)
  pathsNodup : ((entities proj).map (sitePath proj)).Nodup
  targets : ∀ {S b st}, siteBody proj S = some b → st ∈ b → ∀ t ∈ stmtTargets proj S.1 st,
    ∃ t', t = some t' ∧ rankOf rank t' < rankOf rank S.1
  onceMod : ∀ m, m < proj.length → (modNames proj (rankOf rank m + 1) m).Nodup
  onceCls : ∀ {S b}, siteBody proj S = some b → S.2 ≠ [] → (b.flatMap explicitNames).Nodup
  uniqueLast : ((entities proj).map (fun S => (sitePath proj S).getLast?)).Nodup
  basesNe : ∀ {S b n bs body}, siteBody proj S = some b → Stmt.classDef n bs body ∈ b → ∀ p ∈ bs, p ≠ []
  nostar : ∀ {S b lvl M}, siteBody proj S = some b → Stmt.importStar lvl M ∈ b → S.2 = []
  rootsStmt : ∀ {S b st x}, siteBody proj S = some b → st ∈ b → x ∈ explicitNames st → isRootName proj x = true →
    (∃ r, st = .importMod (x :: r) none) ∨ st = .importMod [x] (some x)
  rootsChild : ∀ m, m < proj.length → ∀ x ∈ childNames proj m, isRootName proj x = false
  namesOk : ∀ {S b st n}, siteBody proj S = some b → st ∈ b → st.defName = some n → isSupersededName n = false

theorem wfacts_of {proj : Project} {rank : List Nat} (hmod : modulesOk proj = true) (hpaths : pathsUnique proj = true)
    (himp : importsOk proj rank = true) (honce : boundOnce proj rank = true) (huniq : namesUnique proj = true)
    (hbne : basesNonempty proj = true) (hns : noStarInClass proj = true) (hroots : rootsReserved proj = true)
    (hnames : namesOk proj = true) : WFacts proj rank := by
  simp only [modulesOk, Bool.and_eq_true, nodupB_iff, List.all_eq_true, List.mem_range] at hmod
  refine
    { modNodup := hmod.1, parentOk := ?_, pathsNodup := (nodupB_iff _).1 hpaths, targets := ?_, onceMod := ?_,
      onceCls := ?_, uniqueLast := (nodupB_iff _).1 huniq, basesNe := ?_, nostar := ?_, rootsStmt := ?_,
      rootsChild := ?_, namesOk := ?_ }
  · intro m hm
    have := hmod.2 m hm
    simp only [bne_iff_ne, ne_eq, Bool.or_eq_true, decide_eq_true_eq] at this
    refine ⟨this.1, fun h2 => ?_⟩
    rcases this.2 with h3 | h3
    · omega
    · cases hq : modIdx proj (pathOf proj m).dropLast with
      | none => simp [hq] at h3
      | some q => simp only [hq, Bool.and_eq_true, decide_eq_true_eq] at h3; exact ⟨q, rfl, h3.1, h3.2⟩
  · intro S b st hb hm t ht
    have := allProj_spec himp hb hm
    simp only [List.all_eq_true] at this
    have h1 := this t ht
    cases t with
    | none => simp at h1
    | some t' => exact ⟨t', rfl, by simpa using h1⟩
  · intro m hm
    simp only [boundOnce, List.all_eq_true, List.mem_range, Bool.and_eq_true, nodupB_iff] at honce
    exact (honce m hm).1
  · intro S b hb hne
    simp only [boundOnce, List.all_eq_true, List.mem_range, Bool.and_eq_true, nodupB_iff] at honce
    exact (classNodup_bodyAt (honce S.1 (siteBody_lt hb)).2 (siteBody_bodyAt hb) hne).1
  · intro S b n bs body hb hm p hp
    have := allProj_spec hbne hb hm
    simp only [List.all_eq_true] at this
    have h1 := this p hp
    intro he; subst he; simp at h1
  · intro S b lvl M hb hm
    have := allProj_spec hns hb hm
    simpa using this
  · intro S b st x hb hm hx hr
    simp only [rootsReserved, Bool.and_eq_true] at hroots
    have := allProj_spec hroots.1 hb hm
    simp only [List.all_eq_true] at this
    have h1 := this x hx
    simp only [hr, Bool.not_true, Bool.false_or] at h1
    split at h1
    · rename_i h0 r
      left; exact ⟨r, by simp at h1; subst h1; rfl⟩
    · rename_i h0 a
      right; simp only [Bool.and_eq_true, beq_iff_eq] at h1; obtain ⟨rfl, rfl⟩ := h1; rfl
    · cases h1
  · intro m hm x hx
    simp only [rootsReserved, Bool.and_eq_true, List.all_eq_true, List.mem_range] at hroots
    have := hroots.2 m hm x hx
    simpa using this
  · intro S b st n hb hm hd
    have := allProj_spec hnames hb hm
    simpa [hd] using this

theorem WF.facts {proj : Project} {rank : List Nat} (h : WF proj rank = true) : WFacts proj rank := by
  simp only [WF, Bool.and_eq_true] at h
  obtain ⟨⟨⟨⟨⟨⟨⟨⟨⟨hmod, hpaths⟩, himp⟩, honce⟩, huniq⟩, hbne⟩, hns⟩, hnr⟩, hroots⟩, hnames⟩ := h
  exact wfacts_of hmod hpaths himp honce huniq hbne hns hroots hnames

/-- what the restriction `noReexport` says (used only where `_handleReExport` could move something) -/
structure NoReexpFacts (proj : Project) : Prop where
  noreexpStar : ∀ {m b lvl M}, siteBody proj (m, []) = some b → Stmt.importStar lvl M ∈ b → allNames (bodyOf proj m) = []
  noreexpFrom : ∀ {m b lvl M n a}, siteBody proj (m, []) = some b → Stmt.importFrom lvl M n a ∈ b →
    a.getD n ∉ allNames (bodyOf proj m)

theorem WF.noReexp {proj : Project} {rank : List Nat} (h : WF proj rank = true) : NoReexpFacts proj := by
  simp only [WF, Bool.and_eq_true] at h
  obtain ⟨⟨⟨_, hnr⟩, _⟩, _⟩ := h
  constructor
  · intro m b lvl M hb hm
    have := allProj_spec hnr hb hm
    simpa using this
  · intro m b lvl M n a hb hm
    have := allProj_spec hnr hb hm
    simpa using this

/-! ## names -/

theorem child_mem {proj : Project} {m c : Nat} {x : Name} (h : modIdx proj (pathOf proj m ++ [x]) = some c) :
    x ∈ childNames proj m := by
  obtain ⟨hlt, hp⟩ := modIdx_spec h
  unfold childNames
  rw [List.mem_filterMap]
  refine ⟨proj[c], List.getElem_mem hlt, ?_⟩
  have h1 : pathOf proj c = proj[c].path := by simp [pathOf, List.getElem?_eq_getElem hlt]
  rw [← h1, hp]
  simp

theorem stmtNames_of_explicit {proj : Project} {exp : Nat → List Name} {m : Nat} {st : Stmt} {x : Name}
    (h : x ∈ explicitNames st) : x ∈ stmtNames proj exp m st := by
  cases st <;> simp_all [stmtNames, explicitNames]

theorem explicit_of_stmtNames {proj : Project} {exp : Nat → List Name} {m : Nat} {st : Stmt} {x : Name}
    (hns : ∀ lvl M, st ≠ .importStar lvl M) (h : x ∈ stmtNames proj exp m st) : x ∈ explicitNames st := by
  cases st <;> simp_all [stmtNames, explicitNames]

theorem defName_explicit {st : Stmt} {n : Name} (h : st.defName = some n) : n ∈ explicitNames st := by
  cases st <;> simp_all [Stmt.defName, explicitNames]

theorem mem_exported {proj : Project} {g : Nat → List Name} {t : Nat} {x : Name}
    (hx : x ∈ g t) (hok : starOk proj t x) : x ∈ exported proj g t := by
  unfold exported
  simp only [List.mem_append, List.mem_filter, List.mem_eraseDups]
  by_cases hp : isPublic x = true
  · exact Or.inl ⟨hx, hp⟩
  · rcases hok with ha | ha
    · right; refine ⟨ha, ?_⟩
      simp only [Bool.not_eq_eq_eq_not, Bool.not_true, List.contains_eq_mem, List.mem_filter, decide_eq_false_iff_not,
        not_and]
      intro _; exact hp
    · exact absurd ha hp

theorem modNames_mono {proj : Project} : ∀ {f g : Nat} {m : Nat} {x : Name}, f ≤ g → x ∈ modNames proj f m →
    x ∈ modNames proj g m
  | 0, _, _, _, _, h => by simp [modNames] at h
  | f+1, 0, _, _, hle, _ => by omega
  | f+1, g+1, m, x, hle, h => by
    simp only [modNames, List.mem_append, List.mem_flatMap] at h ⊢
    rcases h with h | ⟨st, hst, hx⟩
    · exact Or.inl h
    · right
      refine ⟨st, hst, ?_⟩
      cases st with
      | importStar lvl M =>
        simp only [stmtNames] at hx ⊢
        cases ht : target proj m lvl M with
        | none => simp [ht] at hx
        | some t =>
          simp only [ht] at hx ⊢
          unfold exported at hx ⊢
          simp only [List.mem_append, List.mem_filter, List.mem_eraseDups] at hx ⊢
          by_cases hp : isPublic x = true
          · rcases hx with hx | hx
            · exact Or.inl ⟨modNames_mono (Nat.le_of_succ_le_succ hle) hx.1, hp⟩
            · by_cases hin : x ∈ modNames proj g t
              · exact Or.inl ⟨hin, hp⟩
              · right
                refine ⟨hx.1, ?_⟩
                simp only [Bool.not_eq_eq_eq_not, Bool.not_true, List.contains_eq_mem, List.mem_filter,
                  decide_eq_false_iff_not, not_and]
                intro h1; exact absurd h1 hin
          · rcases hx with hx | hx
            · exact absurd hx.2 hp
            · right
              refine ⟨hx.1, ?_⟩
              simp only [Bool.not_eq_eq_eq_not, Bool.not_true, List.contains_eq_mem, List.mem_filter,
                decide_eq_false_iff_not, not_and]
              intro _; exact hp
      | _ => simpa [stmtNames] using hx

/-! ## which statement binds a name -/

/-- names statement `st` of scope `S` may bind (star imports expanded with the fuel of `S`'s module) -/
def stmtNamesR (proj : Project) (rank : List Nat) (S : Site) (st : Stmt) : List Name :=
  stmtNames proj (exported proj (modNames proj (rankOf rank S.1))) S.1 st

theorem modNames_succ (proj : Project) (f m : Nat) :
    modNames proj (f+1) m = childNames proj m ++
      (bodyOf proj m).flatMap (stmtNames proj (exported proj (modNames proj f)) m) := rfl

theorem siteBody_mod {proj : Project} {m : Nat} {b : List Stmt} (h : siteBody proj (m, []) = some b) :
    b = bodyOf proj m := by
  have := siteBody_bodyAt h
  simp only [bodyAt, Option.some.injEq] at this
  exact this.symm

/-- each name is bound by at most one statement of a scope -/
theorem same_stmt {proj : Project} {rank : List Nat} (wf : WFacts proj rank) {S : Site} {b : List Stmt}
    {st₁ st₂ : Stmt} {x : Name} (hb : siteBody proj S = some b) (h₁ : st₁ ∈ b) (h₂ : st₂ ∈ b)
    (hx₁ : x ∈ stmtNamesR proj rank S st₁) (hx₂ : x ∈ stmtNamesR proj rank S st₂) : st₁ = st₂ := by
  obtain ⟨m, cp⟩ := S
  by_cases hcp : cp = []
  · subst hcp
    have hbm := siteBody_mod hb
    subst hbm
    have hn := wf.onceMod m (siteBody_lt hb)
    rw [modNames_succ, List.nodup_append] at hn
    exact same_of_nodup_flatMap hn.2.1 h₁ h₂ hx₁ hx₂
  · have hn := wf.onceCls hb hcp
    have e1 : x ∈ explicitNames st₁ :=
      explicit_of_stmtNames (fun lvl M he => hcp (wf.nostar hb (he ▸ h₁))) hx₁
    have e2 : x ∈ explicitNames st₂ :=
      explicit_of_stmtNames (fun lvl M he => hcp (wf.nostar hb (he ▸ h₂))) hx₂
    exact same_of_nodup_flatMap hn h₁ h₂ e1 e2

/-- a submodule's name is bound by no statement of the package -/
theorem child_not_stmt {proj : Project} {rank : List Nat} (wf : WFacts proj rank) {m : Nat} {b : List Stmt}
    {st : Stmt} {x : Name} (hb : siteBody proj (m, []) = some b) (hc : x ∈ childNames proj m) (h₁ : st ∈ b)
    (hx : x ∈ stmtNamesR proj rank (m, []) st) : False := by
  have hbm := siteBody_mod hb
  subst hbm
  have hn := wf.onceMod m (siteBody_lt hb)
  rw [modNames_succ, List.nodup_append] at hn
  exact hn.2.2 x hc x (List.mem_flatMap.2 ⟨st, h₁, hx⟩) rfl

/-- every name Python can bind in a module is among `modNames` -/
theorem jpy_names {proj : Project} {rank : List Nat} (wf : WFacts proj rank) :
    ∀ {S : Site} {ns : List Name} {v : SVal}, Jpy proj S ns v → ∀ m x, S = (m, []) → ns = [x] →
      x ∈ modNames proj (rankOf rank m + 1) m := by
  intro S ns v h
  induction h with
  | @dfn S b st n hb hst hd =>
    intro m x hS hns
    subst hS; injection hns with hns; subst hns
    rw [modNames_succ, ← siteBody_mod hb]
    exact List.mem_append_right _ (List.mem_flatMap.2 ⟨st, hst, stmtNames_of_explicit (defName_explicit hd)⟩)
  | @child m' x' c hc =>
    intro m x hS hns
    injection hS with hS; subst hS; injection hns with hns; subst hns
    rw [modNames_succ]; exact List.mem_append_left _ (child_mem hc)
  | @importTop S b h r top hb hst _ =>
    intro m x hS hns
    subst hS; injection hns with hns; subst hns
    rw [modNames_succ, ← siteBody_mod hb]
    exact List.mem_append_right _ (List.mem_flatMap.2 ⟨_, hst, stmtNames_of_explicit (by simp [explicitNames])⟩)
  | @importAs1 S b h x' top hb hst _ =>
    intro m x hS hns
    subst hS; injection hns with hns; subst hns
    rw [modNames_succ, ← siteBody_mod hb]
    exact List.mem_append_right _ (List.mem_flatMap.2 ⟨_, hst, stmtNames_of_explicit (by simp [explicitNames])⟩)
  | @importAs S b h y x' ys top v hb hst _ _ _ =>
    intro m x hS hns
    subst hS; injection hns with hns; subst hns
    rw [modNames_succ, ← siteBody_mod hb]
    exact List.mem_append_right _ (List.mem_flatMap.2 ⟨_, hst, stmtNames_of_explicit (by simp [explicitNames])⟩)
  | @«from» S b lvl M n a t v hb hst _ _ _ =>
    intro m x hS hns
    subst hS; injection hns with hns; subst hns
    rw [modNames_succ, ← siteBody_mod hb]
    exact List.mem_append_right _ (List.mem_flatMap.2 ⟨_, hst, stmtNames_of_explicit (by simp [explicitNames])⟩)
  | @star m' b lvl M t x' v hb hst ht hok _ ih =>
    intro m x hS hns
    injection hS with hS; subst hS; injection hns with hns; subst hns
    have hx := ih t x' rfl rfl
    obtain ⟨t', ht', hr⟩ := wf.targets hb hst (target proj m' lvl M) (by simp [stmtTargets])
    rw [ht] at ht'; injection ht' with ht'; subst ht'
    have hx' : x' ∈ modNames proj (rankOf rank m') t := modNames_mono (by simp at hr; omega) hx
    rw [modNames_succ, ← siteBody_mod hb]
    refine List.mem_append_right _ (List.mem_flatMap.2 ⟨_, hst, ?_⟩)
    simp only [stmtNames, ht]
    exact mem_exported hx' hok
  | cons _ _ _ _ =>
    intro m x _ hns
    cases hns

/-! ## inversion of `Jpy` on a single name -/

/-- what statement `st` of scope `S` says about the binding of `x` -/
def StmtJ (proj : Project) (S : Site) : Stmt → Name → SVal → Prop
  | .classDef n _ _, x, v => x = n ∧ v = .dfn S.1 (S.2 ++ [n])
  | .funcDef n, x, v => x = n ∧ v = .dfn S.1 (S.2 ++ [n])
  | .assign n _, x, v => x = n ∧ v = .dfn S.1 (S.2 ++ [n])
  | .importMod tgt none, x, v => ∃ r top, tgt = x :: r ∧ modIdx proj [x] = some top ∧ v = .mod top
  | .importMod tgt (some a), x, v => x = a ∧ ∃ h r top, tgt = h :: r ∧ modIdx proj [h] = some top ∧
      ((r = [] ∧ v = .mod top) ∨ (∃ y ys, r = y :: ys ∧ Jpy proj (top, []) (y :: ys) v))
  | .importFrom lvl M n a, x, v => x = a.getD n ∧ ∃ t, target proj S.1 lvl M = some t ∧ Jpy proj (t, []) [n] v
  | .importStar lvl M, x, v => S.2 = [] ∧ ∃ t, target proj S.1 lvl M = some t ∧ starOk proj t x ∧ Jpy proj (t, []) [x] v
  | .allAssign _, _, _ => False

theorem jpy_inv_aux {proj : Project} {rank : List Nat} (wf : WFacts proj rank) :
    ∀ {S : Site} {ns : List Name} {v : SVal}, Jpy proj S ns v → ∀ x, ns = [x] →
    (S.2 = [] ∧ ∃ c, modIdx proj (pathOf proj S.1 ++ [x]) = some c ∧ v = .mod c) ∨
    (∃ b st, siteBody proj S = some b ∧ st ∈ b ∧ x ∈ stmtNamesR proj rank S st ∧ StmtJ proj S st x v) := by
  intro S ns v h
  induction h with
  | @dfn S b st n hb hst hd =>
    intro x hns; injection hns with hns; subst hns
    right
    refine ⟨b, st, hb, hst, stmtNames_of_explicit (defName_explicit hd), ?_⟩
    cases st <;> simp_all [Stmt.defName, StmtJ]
  | @child m x' c hc =>
    intro x hns; injection hns with hns; subst hns
    exact Or.inl ⟨rfl, _, hc, rfl⟩
  | @importTop S b h r top hb hst ht =>
    intro x hns; injection hns with hns; subst hns
    right
    exact ⟨b, _, hb, hst, stmtNames_of_explicit (by simp [explicitNames]), r, top, rfl, ht, rfl⟩
  | @importAs1 S b h x' top hb hst ht =>
    intro x hns; injection hns with hns; subst hns
    right
    exact ⟨b, _, hb, hst, stmtNames_of_explicit (by simp [explicitNames]), rfl, h, [], top, rfl, ht, Or.inl ⟨rfl, rfl⟩⟩
  | @importAs S b h y x' ys top v hb hst ht hj _ =>
    intro x hns; injection hns with hns; subst hns
    right
    exact ⟨b, _, hb, hst, stmtNames_of_explicit (by simp [explicitNames]), rfl, h, y :: ys, top, rfl, ht,
      Or.inr ⟨y, ys, rfl, hj⟩⟩
  | @«from» S b lvl M n a t v hb hst ht hj _ =>
    intro x hns; injection hns with hns; subst hns
    right
    exact ⟨b, _, hb, hst, stmtNames_of_explicit (by simp [explicitNames]), rfl, t, ht, hj⟩
  | @star m b lvl M t x' v hb hst ht hok hj _ =>
    intro x hns; injection hns with hns; subst hns
    right
    refine ⟨b, _, hb, hst, ?_, rfl, t, ht, hok, hj⟩
    have hx := jpy_names wf hj t x' rfl rfl
    obtain ⟨t', ht', hr⟩ := wf.targets hb hst (target proj m lvl M) (by simp [stmtTargets])
    rw [ht] at ht'; injection ht' with ht'; subst ht'
    simp only [stmtNamesR, stmtNames, ht]
    exact mem_exported (modNames_mono (by simp at hr; omega) hx) hok
  | cons _ _ _ _ =>
    intro x hns; cases hns

theorem jpy_inv {proj : Project} {rank : List Nat} (wf : WFacts proj rank) {S : Site} {x : Name} {v : SVal}
    (h : Jpy proj S [x] v) :
    (S.2 = [] ∧ ∃ c, modIdx proj (pathOf proj S.1 ++ [x]) = some c ∧ v = .mod c) ∨
    (∃ b st, siteBody proj S = some b ∧ st ∈ b ∧ x ∈ stmtNamesR proj rank S st ∧ StmtJ proj S st x v) :=
  jpy_inv_aux wf h x rfl

theorem jpy_cons_inv {proj : Project} {S : Site} {x y : Name} {ys : List Name} {v : SVal}
    (h : Jpy proj S (x :: y :: ys) v) : ∃ w, Jpy proj S [x] w ∧ Jpy proj (scopeOf w) (y :: ys) v := by
  generalize hn : x :: y :: ys = ns at h
  induction h with
  | cons h1 h2 _ _ => injection hn with e1 e2; injection e2 with e2 e3; subst e1; subst e2; subst e3; exact ⟨_, h1, h2⟩
  | _ => cases hn

/-- **Python's bindings are functions of the project**: under `WF` a dotted name evaluated in a scope
has at most one possible value. -/
theorem jpy_fun {proj : Project} {rank : List Nat} (wf : WFacts proj rank) :
    ∀ {S : Site} {ns : List Name} {v₁ : SVal}, Jpy proj S ns v₁ → ∀ {v₂ : SVal}, Jpy proj S ns v₂ → v₁ = v₂ := by
  intro S ns v₁ h
  induction h with
  | @dfn S b st n hb hst hd =>
    intro v₂ h₂
    rcases jpy_inv wf h₂ with ⟨hS, c, hc, _⟩ | ⟨b', st', hb', hst', hx', hj'⟩
    · exfalso
      obtain ⟨m, cp⟩ := S; simp only at hS; subst hS
      exact child_not_stmt wf hb (child_mem hc) hst (stmtNames_of_explicit (defName_explicit hd))
    · rw [hb] at hb'; injection hb' with hb'; subst hb'
      have := same_stmt wf hb hst hst' (stmtNames_of_explicit (defName_explicit hd)) hx'
      subst this
      cases st <;> simp_all [Stmt.defName, StmtJ]
  | @child m x c hc =>
    intro v₂ h₂
    rcases jpy_inv wf h₂ with ⟨_, c', hc', hv⟩ | ⟨b', st', hb', hst', hx', _⟩
    · simp only at hc'; rw [hc] at hc'; injection hc' with hc'; subst hc'; exact hv.symm
    · exact (child_not_stmt wf hb' (child_mem hc) hst' hx').elim
  | @importTop S b h r top hb hst ht =>
    intro v₂ h₂
    rcases jpy_inv wf h₂ with ⟨hS, c, hc, _⟩ | ⟨b', st', hb', hst', hx', hj'⟩
    · exfalso
      obtain ⟨m, cp⟩ := S; simp only at hS; subst hS
      exact child_not_stmt wf hb (child_mem hc) hst (stmtNames_of_explicit (by simp [explicitNames]))
    · rw [hb] at hb'; injection hb' with hb'; subst hb'
      have := same_stmt wf hb hst hst' (stmtNames_of_explicit (by simp [explicitNames])) hx'
      subst this
      obtain ⟨r', top', _, ht', hv⟩ := hj'
      rw [ht] at ht'; injection ht' with ht'; subst ht'; exact hv.symm
  | @importAs1 S b h x top hb hst ht =>
    intro v₂ h₂
    rcases jpy_inv wf h₂ with ⟨hS, c, hc, _⟩ | ⟨b', st', hb', hst', hx', hj'⟩
    · exfalso
      obtain ⟨m, cp⟩ := S; simp only at hS; subst hS
      exact child_not_stmt wf hb (child_mem hc) hst (stmtNames_of_explicit (by simp [explicitNames]))
    · rw [hb] at hb'; injection hb' with hb'; subst hb'
      have := same_stmt wf hb hst hst' (stmtNames_of_explicit (by simp [explicitNames])) hx'
      subst this
      obtain ⟨_, h', r', top', htg, ht', hv⟩ := hj'
      injection htg with e1 e2; subst e1; subst e2
      rw [ht] at ht'; injection ht' with ht'; subst ht'
      rcases hv with ⟨_, hv⟩ | ⟨y, ys, hr, _⟩
      · exact hv.symm
      · cases hr
  | @importAs S b h y x ys top v hb hst ht _ ih =>
    intro v₂ h₂
    rcases jpy_inv wf h₂ with ⟨hS, c, hc, _⟩ | ⟨b', st', hb', hst', hx', hj'⟩
    · exfalso
      obtain ⟨m, cp⟩ := S; simp only at hS; subst hS
      exact child_not_stmt wf hb (child_mem hc) hst (stmtNames_of_explicit (by simp [explicitNames]))
    · rw [hb] at hb'; injection hb' with hb'; subst hb'
      have := same_stmt wf hb hst hst' (stmtNames_of_explicit (by simp [explicitNames])) hx'
      subst this
      obtain ⟨_, h', r', top', htg, ht', hv⟩ := hj'
      injection htg with e1 e2; subst e1; subst e2
      rw [ht] at ht'; injection ht' with ht'; subst ht'
      rcases hv with ⟨hr, _⟩ | ⟨y', ys', hr, hj⟩
      · cases hr
      · injection hr with e1 e2; subst e1; subst e2; exact ih hj
  | @«from» S b lvl M n a t v hb hst ht _ ih =>
    intro v₂ h₂
    rcases jpy_inv wf h₂ with ⟨hS, c, hc, _⟩ | ⟨b', st', hb', hst', hx', hj'⟩
    · exfalso
      obtain ⟨m, cp⟩ := S; simp only at hS; subst hS
      exact child_not_stmt wf hb (child_mem hc) hst (stmtNames_of_explicit (by simp [explicitNames]))
    · rw [hb] at hb'; injection hb' with hb'; subst hb'
      have := same_stmt wf hb hst hst' (stmtNames_of_explicit (by simp [explicitNames])) hx'
      subst this
      obtain ⟨_, t', ht', hj⟩ := hj'
      rw [ht] at ht'; injection ht' with ht'; subst ht'
      exact ih hj
  | @star m b lvl M t x v hb hst ht hok hj ih =>
    intro v₂ h₂
    have hxm : x ∈ stmtNamesR proj rank (m, []) (.importStar lvl M) := by
      have hx := jpy_names wf hj t x rfl rfl
      obtain ⟨t', ht', hr⟩ := wf.targets hb hst (target proj m lvl M) (by simp [stmtTargets])
      rw [ht] at ht'; injection ht' with ht'; subst ht'
      simp only [stmtNamesR, stmtNames, ht]
      exact mem_exported (modNames_mono (by simp at hr; omega) hx) hok
    rcases jpy_inv wf h₂ with ⟨_, c, hc, _⟩ | ⟨b', st', hb', hst', hx', hj'⟩
    · exact (child_not_stmt wf hb (child_mem hc) hst hxm).elim
    · rw [hb] at hb'; injection hb' with hb'; subst hb'
      have := same_stmt wf hb hst hst' hxm hx'
      subst this
      obtain ⟨_, t', ht', _, hj2⟩ := hj'
      simp only at ht'
      rw [ht] at ht'; injection ht' with ht'; subst ht'
      exact ih hj2
  | @cons S x y ys w v _ _ ih1 ih2 =>
    intro v₂ h₂
    obtain ⟨w', h1, h2⟩ := jpy_cons_inv h₂
    have := ih1 h1; subst this
    exact ih2 h2

/-! ## root names, chains, canonical derivations -/

/-- a name that is the name of a root module can only be bound to that module -/
theorem jpy_root {proj : Project} {rank : List Nat} (wf : WFacts proj rank) :
    ∀ {S : Site} {ns : List Name} {v : SVal}, Jpy proj S ns v → ∀ x root, ns = [x] → modIdx proj [x] = some root →
      v = .mod root := by
  intro S ns v h
  induction h with
  | @dfn S b st n hb hst hd =>
    intro x root hns hr; injection hns with hns; subst hns
    rcases wf.rootsStmt hb hst (defName_explicit hd) (by simp [isRootName, hr]) with ⟨r, he⟩ | he <;>
      (subst he; simp [Stmt.defName] at hd)
  | @child m x' c hc =>
    intro x root hns hr; injection hns with hns; subst hns
    have hm : m < proj.length ∨ ¬ m < proj.length := Nat.lt_or_ge m proj.length |>.imp id (by omega)
    rcases hm with hm | hm
    · have := wf.rootsChild m hm x' (child_mem hc)
      simp [isRootName, hr] at this
    · have hp : pathOf proj m = [] := by
        simp only [pathOf]; rw [List.getElem?_eq_none (by omega)]
      rw [hp] at hc; simp only [List.nil_append] at hc
      rw [hr] at hc; injection hc with hc; subst hc; rfl
  | @importTop S b h r top hb hst ht =>
    intro x root hns hr; injection hns with hns; subst hns
    rw [hr] at ht; injection ht with ht; subst ht; rfl
  | @importAs1 S b h x' top hb hst ht =>
    intro x root hns hr; injection hns with hns; subst hns
    rcases wf.rootsStmt hb hst (x := x') (by simp [explicitNames]) (by simp [isRootName, hr]) with ⟨r, he⟩ | he
    · cases he
    · injection he with e1 e2; injection e1 with e1 _; subst e1
      rw [hr] at ht; injection ht with ht; subst ht; rfl
  | @importAs S b h y x' ys top v hb hst ht _ _ =>
    intro x root hns hr; injection hns with hns; subst hns
    rcases wf.rootsStmt hb hst (x := x') (by simp [explicitNames]) (by simp [isRootName, hr]) with ⟨r, he⟩ | he
    · cases he
    · injection he with e1 e2; injection e1 with _ e3; cases e3
  | @«from» S b lvl M n a t v hb hst ht _ _ =>
    intro x root hns hr; injection hns with hns; subst hns
    rcases wf.rootsStmt hb hst (x := a.getD n) (by simp [explicitNames]) (by simp [isRootName, hr]) with ⟨r, he⟩ | he <;>
      cases he
  | @star m b lvl M t x' v hb hst ht hok hj ih =>
    intro x root hns hr; injection hns with hns; subst hns
    exact ih x' root rfl hr
  | cons _ _ _ _ => intro x root hns; cases hns

theorem jpy_append {proj : Project} : ∀ {xs : List Name} {S : Site} {w v : SVal} {y : Name} {ys : List Name},
    Jpy proj S xs w → xs ≠ [] → Jpy proj (scopeOf w) (y :: ys) v → Jpy proj S (xs ++ y :: ys) v
  | [], _, _, _, _, _, _, hne, _ => absurd rfl hne
  | [x], _, _, _, _, _, h1, _, h2 => Jpy.cons h1 h2
  | x :: x2 :: xs, S, w, v, y, ys, h1, _, h2 => by
    obtain ⟨w1, ha, hb⟩ := jpy_cons_inv h1
    have := jpy_append (xs := x2 :: xs) hb (by simp) h2
    exact Jpy.cons ha this

/-- the absolute dotted name `p` denotes `v`: its first component is a root module of the project,
the rest an attribute chain from it -/
def AbsDen (proj : Project) (p : Path) (v : SVal) : Prop :=
  ∃ r rest root, p = r :: rest ∧ modIdx proj [r] = some root ∧
    ((rest = [] ∧ v = .mod root) ∨ (rest ≠ [] ∧ Jpy proj (root, []) rest v))

/-- … if its first component is a root module at all -/
def AbsDenW (proj : Project) (p : Path) (v : SVal) : Prop :=
  ∀ r rest root, p = r :: rest → modIdx proj [r] = some root →
    ((rest = [] ∧ v = .mod root) ∨ (rest ≠ [] ∧ Jpy proj (root, []) rest v))

theorem AbsDen.weak {proj : Project} {p : Path} {v : SVal} (h : AbsDen proj p v) : AbsDenW proj p v := by
  obtain ⟨r, rest, root, hp, hr, hv⟩ := h
  intro r' rest' root' hp' hr'
  rw [hp] at hp'; injection hp' with e1 e2; subst e1; subst e2
  rw [hr] at hr'; injection hr' with hr'; subst hr'
  exact hv

theorem AbsDen.ext {proj : Project} {p : Path} {w v : SVal} {y : Name} {ys : List Name}
    (h : AbsDen proj p w) (h2 : Jpy proj (scopeOf w) (y :: ys) v) : AbsDen proj (p ++ y :: ys) v := by
  obtain ⟨r, rest, root, hp, hr, hv⟩ := h
  refine ⟨r, rest ++ y :: ys, root, by simp [hp], hr, Or.inr ⟨by simp, ?_⟩⟩
  rcases hv with ⟨hr0, hw⟩ | ⟨hne, hj⟩
  · subst hr0; subst hw; simpa [scopeOf] using h2
  · exact jpy_append hj hne h2

theorem AbsDenW.ext {proj : Project} {p : Path} {w v : SVal} {y : Name} {ys : List Name}
    (h : AbsDenW proj p w) (hp : p ≠ []) (h2 : Jpy proj (scopeOf w) (y :: ys) v) : AbsDenW proj (p ++ y :: ys) v := by
  intro r rest root he hr
  cases p with
  | nil => exact absurd rfl hp
  | cons r0 rest0 =>
    simp only [List.cons_append] at he
    injection he with e1 e2; subst e1; subst e2
    exact (AbsDen.ext ⟨r0, rest0, root, rfl, hr, h r0 rest0 root rfl hr⟩ h2).weak r0 _ root rfl hr

theorem AbsDen.fun {proj : Project} {rank : List Nat} (wf : WFacts proj rank) {p : Path} {v w : SVal}
    (h1 : AbsDen proj p v) (h2 : AbsDenW proj p w) : v = w := by
  obtain ⟨r, rest, root, hp, hr, hv⟩ := h1
  rcases hv with ⟨h0, hv⟩ | ⟨hne, hj⟩ <;> rcases h2 r rest root hp hr with ⟨h0', hw⟩ | ⟨hne', hj'⟩
  · rw [hv, hw]
  · exact absurd h0 hne'
  · exact absurd h0' hne
  · exact jpy_fun wf hj hj'

theorem canon_mod {proj : Project} {rank : List Nat} (wf : WFacts proj rank) :
    ∀ m, m < proj.length → AbsDen proj (pathOf proj m) (.mod m) := by
  intro m
  induction m using Nat.strongRecOn with
  | _ m ih =>
    intro hm
    obtain ⟨hne, hpar⟩ := wf.parentOk m hm
    have hself := modIdx_of_path wf.modNodup hm
    by_cases hl : 2 ≤ (pathOf proj m).length
    · obtain ⟨q, hq, hqm, _⟩ := hpar hl
      obtain ⟨hqn, hqp⟩ := modIdx_spec hq
      have hsplit : pathOf proj m = pathOf proj q ++ [(pathOf proj m).getLast hne] := by
        rw [hqp]; exact (List.dropLast_concat_getLast hne).symm
      have hc : modIdx proj (pathOf proj q ++ [(pathOf proj m).getLast hne]) = some m := by
        rw [← hsplit]; exact hself
      have := AbsDen.ext (ih q hqm hqn) (show Jpy proj (scopeOf (.mod q)) [_] (.mod m) from Jpy.child hc)
      rw [hsplit]; exact this
    · cases hp : pathOf proj m with
      | nil => exact absurd hp hne
      | cons r rest =>
        cases rest with
        | nil => exact ⟨r, [], m, rfl, by rw [← hp]; exact hself, Or.inl ⟨rfl, rfl⟩⟩
        | cons r2 rest2 => rw [hp] at hl; simp at hl

theorem bodyAt_append : ∀ (xs ys : List Name) (body : List Stmt),
    bodyAt body (xs ++ ys) = (bodyAt body xs).bind (fun b => bodyAt b ys)
  | [], ys, body => by simp [bodyAt]
  | x :: xs, ys, body => by
    simp only [List.cons_append, bodyAt]
    cases findClass body x with
    | none => simp
    | some b' => simp [bodyAt_append xs ys b']

theorem siteBody_snoc {proj : Project} {m : Nat} {cp : List Name} {c : Name} {b b1 : List Stmt}
    (hb : siteBody proj (m, cp) = some b) (hf : findClass b c = some b1) :
    siteBody proj (m, cp ++ [c]) = some b1 := by
  unfold siteBody at hb ⊢
  cases hm : proj[m]? with
  | none => simp [hm] at hb
  | some md =>
    simp only [hm] at hb ⊢
    rw [bodyAt_append, hb]
    simp [bodyAt, hf]

/-- the chain of definitions leading to a definition, as a derivation -/
theorem canon_chain {proj : Project} {m : Nat} : ∀ (cs : List Name) (pre : List Name) (b b' : List Stmt) (st : Stmt) (n : Name),
    siteBody proj (m, pre) = some b → bodyAt b cs = some b' → st ∈ b' → st.defName = some n →
    Jpy proj (m, pre) (cs ++ [n]) (.dfn m (pre ++ (cs ++ [n])))
  | [], pre, b, b', st, n, hb, hat, hst, hd => by
    simp only [bodyAt, Option.some.injEq] at hat; subst hat
    exact Jpy.dfn hb hst hd
  | c :: cs, pre, b, b', st, n, hb, hat, hst, hd => by
    simp only [bodyAt] at hat
    cases hf : findClass b c with
    | none => simp [hf] at hat
    | some b1 =>
      simp only [hf] at hat
      obtain ⟨bs, hm⟩ := findClass_mem hf
      have h1 : Jpy proj (m, pre) [c] (.dfn m (pre ++ [c])) := Jpy.dfn hb hm rfl
      have h2 := canon_chain cs (pre ++ [c]) b1 b' st n (siteBody_snoc hb hf) hat hst hd
      have e : pre ++ [c] ++ (cs ++ [n]) = pre ++ (c :: cs ++ [n]) := by simp
      rw [e] at h2
      generalize hv : SVal.dfn m (pre ++ (c :: cs ++ [n])) = v at h2 ⊢
      cases hcs : cs ++ [n] with
      | nil => simp at hcs
      | cons y ys =>
        rw [hcs] at h2
        simp only [List.cons_append, hcs]
        exact Jpy.cons h1 (by simpa [scopeOf] using h2)

/-- every module and definition is denoted by its own qualified name -/
theorem canon_site {proj : Project} {rank : List Nat} (wf : WFacts proj rank) {S : Site} (h : StaticSite proj S) :
    AbsDen proj (sitePath proj S) (svalOf S) := by
  obtain ⟨m, cp⟩ := S
  obtain ⟨hm, hcp⟩ := h
  simp only at hm hcp
  rcases hcp with hcp | ⟨cp', n, b, st, hcp, hb, hst, hd⟩
  · subst hcp; simpa [sitePath, svalOf] using canon_mod wf m hm
  · subst hcp
    have hb0 : siteBody proj (m, []) = some (bodyOf proj m) := by
      unfold siteBody bodyOf
      cases hx : proj[m]? with
      | none => rw [List.getElem?_eq_none_iff] at hx; omega
      | some md => simp [bodyAt]
    have hat := siteBody_bodyAt hb
    simp only at hat
    have hj := canon_chain cp' [] _ _ st n hb0 hat hst hd
    simp only [List.nil_append] at hj
    have hne : cp' ++ [n] ≠ [] := by simp
    simp only [sitePath, svalOf, hne, if_false]
    cases hcs : cp' ++ [n] with
    | nil => exact absurd hcs hne
    | cons y ys =>
      rw [hcs] at hj
      exact AbsDen.ext (canon_mod wf m hm) hj

theorem scopeOf_svalOf (S : Site) : scopeOf (svalOf S) = S := by
  obtain ⟨m, cp⟩ := S
  unfold svalOf
  by_cases h : cp = []
  · subst h; simp [scopeOf]
  · simp [h, scopeOf]

/-! ## pydoctor's alias targets denote what Python binds -/

theorem abs_eq {proj : Project} {m lvl : Nat} {M T T' : Path} (h1 : pdAbsName proj m lvl M = some T)
    (h2 : pyAbsName proj m lvl M = some T') : T = T' := by
  unfold pdAbsName at h1; unfold pyAbsName at h2
  by_cases hl : lvl = 0
  · simp only [hl, if_true, Option.some.injEq] at h1 h2; rw [← h1, ← h2]
  · simp only [hl, if_false] at h1 h2
    rw [Names.relative_level _ _ _ (by omega)] at h1
    cases hb : Names.pythonRelativeBase (pathOf proj m) (isPkg proj m) lvl with
    | none => simp [hb] at h1
    | some b => simp only [hb, Option.some.injEq] at h1 h2; rw [← h1, ← h2]

theorem target_spec {proj : Project} {m lvl : Nat} {M : Path} {t : Nat} (h : target proj m lvl M = some t) :
    ∃ T, pyAbsName proj m lvl M = some T ∧ modIdx proj T = some t := by
  unfold target at h
  cases hT : pyAbsName proj m lvl M with
  | none => simp [hT] at h
  | some T => simp only [hT] at h; exact ⟨T, rfl, h⟩

/-- the module pydoctor takes for a star import is the one Python imports -/
theorem star_target {proj : Project} {m lvl : Nat} {M T : Path} {t t' : Nat}
    (h1 : pdAbsName proj m lvl M = some T) (hu : ∀ t', modIdx proj T = some t' → t = t')
    (h2 : target proj m lvl M = some t') : t = t' := by
  obtain ⟨T', hT', hm⟩ := target_spec h2
  have := abs_eq h1 hT'; subst this
  exact hu t' hm

theorem mem_exported_all {proj : Project} {g : Nat → List Name} {t : Nat} {x : Name}
    (hx : x ∈ allNames (bodyOf proj t)) : x ∈ exported proj g t := by
  unfold exported
  simp only [List.mem_append, List.mem_filter, List.mem_eraseDups]
  by_cases hp : x ∈ (g t).filter isPublic
  · exact Or.inl (by simpa using hp)
  · right; refine ⟨hx, ?_⟩
    simp only [Bool.not_eq_eq_eq_not, Bool.not_true, List.contains_eq_mem, decide_eq_false_iff_not]
    exact hp

theorem siteBody_zero {proj : Project} {t : Nat} (hlt : t < proj.length) :
    siteBody proj (t, []) = some (bodyOf proj t) := by
  unfold siteBody bodyOf
  cases hx : proj[t]? with
  | none => rw [List.getElem?_eq_none_iff] at hx; omega
  | some md => simp [bodyAt]

/-- a star import of scope `S` from `t` may bind `x` when `x` is among the names of `t` -/
theorem star_mem {proj : Project} {rank : List Nat} (wf : WFacts proj rank) {S : Site} {b : List Stmt}
    {lvl : Nat} {M T : Path} {t : Nat} {x : Name} (hb : siteBody proj S = some b) (hst : Stmt.importStar lvl M ∈ b)
    (hT : pdAbsName proj S.1 lvl M = some T) (hu : ∀ t', modIdx proj T = some t' → t = t')
    (hx : x ∈ allNames (bodyOf proj t) ∨ (starOk proj t x ∧ x ∈ modNames proj (rankOf rank t + 1) t)) :
    target proj S.1 lvl M = some t ∧ t < proj.length ∧ x ∈ stmtNamesR proj rank S (.importStar lvl M) := by
  obtain ⟨t', ht', hr⟩ := wf.targets hb hst (target proj S.1 lvl M) (by simp [stmtTargets])
  have := star_target hT hu ht'; subst this
  obtain ⟨T', _, hm'⟩ := target_spec ht'
  refine ⟨ht', (modIdx_spec hm').1, ?_⟩
  simp only [stmtNamesR, stmtNames, ht']
  rcases hx with hx | ⟨hok, hx⟩
  · exact mem_exported_all hx
  · exact mem_exported (modNames_mono (by omega) hx) hok

/-- every name pydoctor can put into an alias map is bound by a statement of that scope -/
theorem jpd_names {proj : Project} {rank : List Nat} (wf : WFacts proj rank) :
    ∀ {S : Site} {x : Name} {tgt : Path}, Jpd proj S x tgt → ∀ b, siteBody proj S = some b →
      ∃ st ∈ b, x ∈ stmtNamesR proj rank S st := by
  intro S x tgt h
  induction h with
  | @importAs S b tgt x hb hst =>
    intro b' hb'; rw [hb] at hb'; injection hb' with hb'; subst hb'
    exact ⟨_, hst, stmtNames_of_explicit (by simp [explicitNames])⟩
  | @importTop S b h r hb hst =>
    intro b' hb'; rw [hb] at hb'; injection hb' with hb'; subst hb'
    exact ⟨_, hst, stmtNames_of_explicit (by simp [explicitNames])⟩
  | @«from» S b lvl M n a T hb hst _ =>
    intro b' hb'; rw [hb] at hb'; injection hb' with hb'; subst hb'
    exact ⟨_, hst, stmtNames_of_explicit (by simp [explicitNames])⟩
  | @starChild S b lvl M T t x hb hst hT hu hok hx =>
    intro b' hb'; rw [hb] at hb'; injection hb' with hb'; subst hb'
    refine ⟨_, hst, (star_mem wf hb hst hT hu (Or.inr ⟨hok, ?_⟩)).2.2⟩
    rw [modNames_succ]
    rcases hx with hx | ⟨st, hst', hd⟩
    · exact List.mem_append_left _ hx
    · exact List.mem_append_right _ (List.mem_flatMap.2 ⟨st, hst', stmtNames_of_explicit (defName_explicit hd)⟩)
  | @starAlias S b lvl M T t x tgt hb hst hT hu hok hj ih =>
    intro b' hb'; rw [hb] at hb'; injection hb' with hb'; subst hb'
    have hlt : t < proj.length := by
      obtain ⟨t', ht', _⟩ := wf.targets hb hst (target proj S.1 lvl M) (by simp [stmtTargets])
      have := star_target hT hu ht'; subst this
      obtain ⟨T', _, hm'⟩ := target_spec ht'
      exact (modIdx_spec hm').1
    obtain ⟨st', hst', hx'⟩ := ih _ (siteBody_zero hlt)
    refine ⟨_, hst, (star_mem wf hb hst hT hu (Or.inr ⟨hok, ?_⟩)).2.2⟩
    rw [modNames_succ]
    exact List.mem_append_right _ (List.mem_flatMap.2 ⟨st', hst', hx'⟩)
  | @starNone S b lvl M T t x hb hst hT hu hx =>
    intro b' hb'; rw [hb] at hb'; injection hb' with hb'; subst hb'
    exact ⟨_, hst, (star_mem wf hb hst hT hu (Or.inl hx)).2.2⟩

/-- **the alias map agrees with Python**: whatever pydoctor's alias map of a scope says a name
stands for denotes (as an absolute dotted name) what Python binds the name to in that scope -/
theorem jpd_jpy {proj : Project} {rank : List Nat} (wf : WFacts proj rank) :
    ∀ {S : Site} {x : Name} {tgt : Path}, Jpd proj S x tgt → ∀ {w : SVal}, Jpy proj S [x] w → AbsDenW proj tgt w := by
  intro S x tgt h
  induction h with
  | @importAs S b tgt x hb hst =>
    intro w hw
    rcases jpy_inv wf hw with ⟨hS, c, hc, _⟩ | ⟨b', st', hb', hst', hx', hj'⟩
    · exfalso
      obtain ⟨m, cp⟩ := S; simp only at hS; subst hS
      exact child_not_stmt wf hb (child_mem hc) hst (stmtNames_of_explicit (by simp [explicitNames]))
    · rw [hb] at hb'; injection hb' with hb'; subst hb'
      have := same_stmt wf hb hst hst' (stmtNames_of_explicit (by simp [explicitNames])) hx'
      subst this
      obtain ⟨_, h, r, top, htg, ht, hv⟩ := hj'
      subst htg
      intro r' rest root he hr
      injection he with e1 e2; subst e1; subst e2
      rw [ht] at hr; injection hr with hr; subst hr
      rcases hv with ⟨h0, hv⟩ | ⟨y, ys, h0, hj⟩
      · exact Or.inl ⟨h0, hv⟩
      · subst h0; exact Or.inr ⟨by simp, hj⟩
  | @importTop S b h r hb hst =>
    intro w hw
    rcases jpy_inv wf hw with ⟨hS, c, hc, _⟩ | ⟨b', st', hb', hst', hx', hj'⟩
    · exfalso
      obtain ⟨m, cp⟩ := S; simp only at hS; subst hS
      exact child_not_stmt wf hb (child_mem hc) hst (stmtNames_of_explicit (by simp [explicitNames]))
    · rw [hb] at hb'; injection hb' with hb'; subst hb'
      have := same_stmt wf hb hst hst' (stmtNames_of_explicit (by simp [explicitNames])) hx'
      subst this
      obtain ⟨r1, top, _, ht, hv⟩ := hj'
      intro r' rest root he hr
      injection he with e1 e2; subst e1; subst e2
      rw [ht] at hr; injection hr with hr; subst hr
      exact Or.inl ⟨rfl, hv⟩
  | @«from» S b lvl M n a T hb hst hT =>
    intro w hw
    rcases jpy_inv wf hw with ⟨hS, c, hc, _⟩ | ⟨b', st', hb', hst', hx', hj'⟩
    · exfalso
      obtain ⟨m, cp⟩ := S; simp only at hS; subst hS
      exact child_not_stmt wf hb (child_mem hc) hst (stmtNames_of_explicit (by simp [explicitNames]))
    · rw [hb] at hb'; injection hb' with hb'; subst hb'
      have := same_stmt wf hb hst hst' (stmtNames_of_explicit (by simp [explicitNames])) hx'
      subst this
      obtain ⟨_, t, ht, hj⟩ := hj'
      obtain ⟨T', hT', hm⟩ := target_spec ht
      have := abs_eq hT hT'; subst this
      obtain ⟨hlt, hp⟩ := modIdx_spec hm
      have := AbsDen.ext (canon_mod wf t hlt) (show Jpy proj (scopeOf (.mod t)) [n] w from hj)
      rw [hp] at this
      exact this.weak
  | @starChild S b lvl M T t x hb hst hT hu hok hx =>
    intro w hw
    have hm : x ∈ modNames proj (rankOf rank t + 1) t := by
      rw [modNames_succ]
      rcases hx with hx | ⟨st, hst', hd⟩
      · exact List.mem_append_left _ hx
      · exact List.mem_append_right _ (List.mem_flatMap.2 ⟨st, hst', stmtNames_of_explicit (defName_explicit hd)⟩)
    obtain ⟨ht', hlt, hxs⟩ := star_mem wf hb hst hT hu (Or.inr ⟨hok, hm⟩)
    rcases jpy_inv wf hw with ⟨hS, c, hc, _⟩ | ⟨b', st', hb', hst', hx', hj'⟩
    · exfalso
      obtain ⟨m, cp⟩ := S; simp only at hS; subst hS
      exact child_not_stmt wf hb (child_mem hc) hst hxs
    · rw [hb] at hb'; injection hb' with hb'; subst hb'
      have := same_stmt wf hb hst hst' hxs hx'
      subst this
      obtain ⟨_, t2, ht2, _, hj⟩ := hj'
      rw [ht'] at ht2; injection ht2 with ht2; subst ht2
      exact (AbsDen.ext (canon_mod wf t hlt) (show Jpy proj (scopeOf (.mod t)) [x] w from hj)).weak
  | @starAlias S b lvl M T t x tgt hb hst hT hu hok hj ih =>
    intro w hw
    have hlt0 : t < proj.length := by
      obtain ⟨t', ht', _⟩ := wf.targets hb hst (target proj S.1 lvl M) (by simp [stmtTargets])
      have := star_target hT hu ht'; subst this
      obtain ⟨T', _, hm'⟩ := target_spec ht'
      exact (modIdx_spec hm').1
    have hm : x ∈ modNames proj (rankOf rank t + 1) t := by
      obtain ⟨st', hst', hx'⟩ := jpd_names wf hj _ (siteBody_zero hlt0)
      rw [modNames_succ]
      exact List.mem_append_right _ (List.mem_flatMap.2 ⟨st', hst', hx'⟩)
    obtain ⟨ht', hlt, hxs⟩ := star_mem wf hb hst hT hu (Or.inr ⟨hok, hm⟩)
    rcases jpy_inv wf hw with ⟨hS, c, hc, _⟩ | ⟨b', st', hb', hst', hx', hj'⟩
    · exfalso
      obtain ⟨m, cp⟩ := S; simp only at hS; subst hS
      exact child_not_stmt wf hb (child_mem hc) hst hxs
    · rw [hb] at hb'; injection hb' with hb'; subst hb'
      have := same_stmt wf hb hst hst' hxs hx'
      subst this
      obtain ⟨_, t2, ht2, _, hj2⟩ := hj'
      rw [ht'] at ht2; injection ht2 with ht2; subst ht2
      exact ih hj2
  | @starNone S b lvl M T t x hb hst hT hu hx =>
    intro w hw
    intro r rest root he hr
    have h1 : x = r ∧ rest = [] := by injection he with e1 e2; exact ⟨e1, e2.symm⟩
    obtain ⟨rfl, rfl⟩ := h1
    exact Or.inl ⟨rfl, jpy_root wf hw x root rfl hr⟩

/-! ## a qualified name belongs to one site -/

theorem defSites_here {m : Nat} {pre : List Name} : ∀ {body : List Stmt} {st : Stmt} {n : Name},
    st ∈ body → st.defName = some n → (m, pre ++ [n]) ∈ defSites m pre body
  | [], _, _, h, _ => by cases h
  | x :: xs, st, n, h, hd => by
    simp only [defSites, List.mem_append]
    rcases List.mem_cons.1 h with rfl | h'
    · left; cases st <;> simp_all [Stmt.defName, defSitesStmt]
    · right; exact defSites_here h' hd

theorem defSites_class {m : Nat} {pre : List Name} {c : Name} {bs : List Path} {b1 : List Stmt} :
    ∀ {body : List Stmt}, Stmt.classDef c bs b1 ∈ body → ∀ {S}, S ∈ defSites m (pre ++ [c]) b1 → S ∈ defSites m pre body
  | [], h, _, _ => by cases h
  | x :: xs, h, S, hS => by
    simp only [defSites, List.mem_append]
    rcases List.mem_cons.1 h with rfl | h'
    · left; simp only [defSitesStmt, List.mem_cons]; exact Or.inr hS
    · right; exact defSites_class h' hS

theorem defSites_mem {m : Nat} : ∀ {cs pre : List Name} {body b : List Stmt} {st : Stmt} {n : Name},
    bodyAt body cs = some b → st ∈ b → st.defName = some n → (m, pre ++ cs ++ [n]) ∈ defSites m pre body
  | [], pre, body, b, st, n, hb, hst, hd => by
    simp only [bodyAt, Option.some.injEq] at hb; subst hb
    simpa using defSites_here hst hd
  | c :: cs, pre, body, b, st, n, hb, hst, hd => by
    simp only [bodyAt] at hb
    cases hf : findClass body c with
    | none => simp [hf] at hb
    | some b1 =>
      simp only [hf] at hb
      obtain ⟨bs, hm⟩ := findClass_mem hf
      have := defSites_mem (m := m) (pre := pre ++ [c]) hb hst hd
      have e : pre ++ [c] ++ cs ++ [n] = pre ++ c :: cs ++ [n] := by simp
      rw [e] at this
      exact defSites_class hm this

theorem static_mem_entities {proj : Project} {S : Site} (h : StaticSite proj S) : S ∈ entities proj := by
  obtain ⟨m, cp⟩ := S
  obtain ⟨hm, hcp⟩ := h
  simp only at hm hcp
  unfold entities
  rw [List.mem_flatMap]
  refine ⟨m, List.mem_range.2 hm, ?_⟩
  rcases hcp with hcp | ⟨cp', n, b, st, hcp, hb, hst, hd⟩
  · subst hcp; exact List.mem_cons_self ..
  · subst hcp
    refine List.mem_cons_of_mem _ ?_
    have := defSites_mem (m := m) (pre := []) (siteBody_bodyAt hb) hst hd
    simpa using this

theorem site_unique {proj : Project} {rank : List Nat} (wf : WFacts proj rank) {S S' : Site}
    (h : StaticSite proj S) (h' : StaticSite proj S') (hp : sitePath proj S = sitePath proj S') : S = S' :=
  nodup_map_inj wf.pathsNodup (static_mem_entities h) (static_mem_entities h') hp

/-- names are globally unique: a module or definition is determined by its own (last) name -/
theorem site_unique_last {proj : Project} {rank : List Nat} (wf : WFacts proj rank) {S S' : Site}
    (h : StaticSite proj S) (h' : StaticSite proj S')
    (hp : (sitePath proj S).getLast? = (sitePath proj S').getLast?) : S = S' :=
  nodup_map_inj wf.uniqueLast (static_mem_entities h) (static_mem_entities h') hp

/-! ## inversion of `Jpd` -/

/-- what statement `st` of scope `S` says about the alias entry for `x` -/
def StmtD (proj : Project) (S : Site) : Stmt → Name → Path → Prop
  | .importMod t (some a), x, tgt => x = a ∧ tgt = t
  | .importMod t none, x, tgt => (∃ r, t = x :: r) ∧ tgt = [x]
  | .importFrom lvl M n a, x, tgt => x = a.getD n ∧ ∃ T, pdAbsName proj S.1 lvl M = some T ∧ tgt = T ++ [n]
  | .importStar _ _, _, _ => True
  | _, _, _ => False

theorem jpd_inv {proj : Project} {rank : List Nat} (wf : WFacts proj rank) {S : Site} {x : Name} {tgt : Path}
    (h : Jpd proj S x tgt) :
    ∃ b st, siteBody proj S = some b ∧ st ∈ b ∧ x ∈ stmtNamesR proj rank S st ∧ StmtD proj S st x tgt := by
  induction h with
  | @importAs S b tgt x hb hst =>
    exact ⟨b, _, hb, hst, stmtNames_of_explicit (by simp [explicitNames]), rfl, rfl⟩
  | @importTop S b h r hb hst =>
    exact ⟨b, _, hb, hst, stmtNames_of_explicit (by simp [explicitNames]), ⟨r, rfl⟩, rfl⟩
  | @«from» S b lvl M n a T hb hst hT =>
    exact ⟨b, _, hb, hst, stmtNames_of_explicit (by simp [explicitNames]), rfl, T, hT, rfl⟩
  | @starChild S b lvl M T t x hb hst hT hu hok hx =>
    refine ⟨b, _, hb, hst, (star_mem wf hb hst hT hu (Or.inr ⟨hok, ?_⟩)).2.2, trivial⟩
    rw [modNames_succ]
    rcases hx with hx | ⟨st, hst', hd⟩
    · exact List.mem_append_left _ hx
    · exact List.mem_append_right _ (List.mem_flatMap.2 ⟨st, hst', stmtNames_of_explicit (defName_explicit hd)⟩)
  | @starAlias S b lvl M T t x tgt hb hst hT hu hok hj _ =>
    have hlt : t < proj.length := by
      obtain ⟨t', ht', _⟩ := wf.targets hb hst (target proj S.1 lvl M) (by simp [stmtTargets])
      have := star_target hT hu ht'; subst this
      obtain ⟨T', _, hm'⟩ := target_spec ht'
      exact (modIdx_spec hm').1
    obtain ⟨st', hst', hx'⟩ := jpd_names wf hj _ (siteBody_zero hlt)
    refine ⟨b, _, hb, hst, (star_mem wf hb hst hT hu (Or.inr ⟨hok, ?_⟩)).2.2, trivial⟩
    rw [modNames_succ]
    exact List.mem_append_right _ (List.mem_flatMap.2 ⟨st', hst', hx'⟩)
  | @starNone S b lvl M T t x hb hst hT hu hx =>
    exact ⟨b, _, hb, hst, (star_mem wf hb hst hT hu (Or.inl hx)).2.2, trivial⟩

end Imports

/-! # Part 2, the pydoctor machine

C04, the pydoctor machine (`Imports.run`): registry-level facts about the two state changes the
visitor makes (`setAlias`, `addObj`), the invariant `PdInv` tying every object, alias entry and
`contents` entry of a reachable state to the static project, and its preservation.
-/

namespace Imports
open Registry

/-! ## registry-level lemmas -/

/-- the part of an object the C02 invariant talks about -/
def ocore (o : Obj) : Name × Option Nat × List (Name × Nat) := (o.name, o.parent, o.contents)

theorem length_eq_of_agree {α β : Type} {f : α → β} {l l' : List α}
    (h : ∀ i : Nat, (l'[i]?).map f = (l[i]?).map f) : l'.length = l.length := by
  have h1 : ¬ l'.length < l.length := by
    intro hlt
    have := h l'.length
    rw [List.getElem?_eq_none (Nat.le_refl _), List.getElem?_eq_getElem hlt] at this
    simp at this
  have h2 : ¬ l.length < l'.length := by
    intro hlt
    have := h l.length
    rw [List.getElem?_eq_none (Nat.le_refl _), List.getElem?_eq_getElem hlt] at this
    simp at this
  omega

theorem agree_get {objs objs' : List Obj} (h : ∀ i : Nat, (objs'[i]?).map ocore = (objs[i]?).map ocore)
    {i : Nat} {o' : Obj} (ho : objs'[i]? = some o') :
    ∃ o, objs[i]? = some o ∧ o'.name = o.name ∧ o'.parent = o.parent ∧ o'.contents = o.contents := by
  have := h i
  rw [ho] at this
  cases hx : objs[i]? with
  | none => rw [hx] at this; simp at this
  | some o =>
    rw [hx] at this
    simp only [Option.map_some, Option.some.injEq, ocore, Prod.mk.injEq] at this
    exact ⟨o, rfl, this.1, this.2.1, this.2.2⟩

theorem agree_symm {objs objs' : List Obj} (h : ∀ i : Nat, (objs'[i]?).map ocore = (objs[i]?).map ocore) :
    ∀ i : Nat, (objs[i]?).map ocore = (objs'[i]?).map ocore := fun i => (h i).symm

theorem agree_okey {objs objs' : List Obj} (h : ∀ i : Nat, (objs'[i]?).map ocore = (objs[i]?).map ocore) :
    ∀ i : Nat, (objs'[i]?).map okey = (objs[i]?).map okey := by
  intro i
  have := h i
  cases h1 : objs'[i]? <;> cases h2 : objs[i]? <;> simp_all [ocore, okey]

/-- the C02 invariant does not look at alias maps or object classes -/
theorem inv_congr {s : State} {objs' : List Obj} (hI : Inv s)
    (h : ∀ i : Nat, (objs'[i]?).map ocore = (s.objs[i]?).map ocore) :
    Inv { s with objs := objs' } := by
  have hlen := length_eq_of_agree h
  have hpath : ∀ i, path { s with objs := objs' } i = path s i := by
    intro i; simp only [path, hlen]; exact pathAux_congr (agree_okey h) _ _
  refine ⟨⟨hI.reg.uniq, fun k i hk => (hpath i).trans (hI.reg.keys k i hk), ?_⟩, ?_, ⟨?_, ?_, ?_, ?_⟩⟩
  · intro i o' q hr ho' hq
    obtain ⟨o, ho, _, hp, _⟩ := agree_get h ho'
    exact hI.reg.up i o q hr ho (hp ▸ hq)
  · intro i hi; exact hI.full i (hlen ▸ hi)
  · intro p po' hpo'
    obtain ⟨po, hpo, _, _, hc⟩ := agree_get h hpo'
    rw [hc]; exact hI.tree.cuniq p po hpo
  · intro p po' k c hpo' hkc
    obtain ⟨po, hpo, _, _, hc⟩ := agree_get h hpo'
    obtain ⟨co, hco, hcp, hcn⟩ := hI.tree.coh p po k c hpo (hc ▸ hkc)
    have := agree_symm h c
    rw [hco] at this
    cases hx : objs'[c]? with
    | none => rw [hx] at this; simp at this
    | some co' =>
      rw [hx] at this
      simp only [Option.map_some, Option.some.injEq, ocore, Prod.mk.injEq] at this
      exact ⟨co', rfl, this.2.1 ▸ hcp, this.1 ▸ hcn⟩
  · intro i o' ho'
    obtain ⟨o, ho, hn, hp, _⟩ := agree_get h ho'
    obtain ⟨l1, l2⟩ := hI.tree.listed i o ho
    refine ⟨fun hpn => l1 (hp ▸ hpn), fun p hpp => ?_⟩
    obtain ⟨po, hpo, hd⟩ := l2 p (hp ▸ hpp)
    have := agree_symm h p
    rw [hpo] at this
    cases hx : objs'[p]? with
    | none => rw [hx] at this; simp at this
    | some po' =>
      rw [hx] at this
      simp only [Option.map_some, Option.some.injEq, ocore, Prod.mk.injEq] at this
      exact ⟨po', rfl, by rw [hn, ← this.2.2]; exact hd⟩
  · intro r hr
    obtain ⟨o, ho, hp⟩ := hI.tree.rootsOk r hr
    have := agree_symm h r
    rw [ho] at this
    cases hx : objs'[r]? with
    | none => rw [hx] at this; simp at this
    | some o' =>
      rw [hx] at this
      simp only [Option.map_some, Option.some.injEq, ocore, Prod.mk.injEq] at this
      exact ⟨o', rfl, this.2.1 ▸ hp⟩

theorem modify_aliases_agree (objs : List Obj) (j : Nat) (g : Obj → List (Name × Path)) :
    ∀ i : Nat, ((objs.modify j (fun o => { o with aliases := g o }))[i]?).map ocore = (objs[i]?).map ocore := by
  intro i
  by_cases h : i = j
  · subst h; rw [getElem?_modify_eq]; cases objs[i]? <;> simp [ocore]
  · rw [getElem?_modify_ne _ h]

theorem path_lt {s : State} {i : Nat} {k : Path} (h : path s i = some k) : i < s.objs.length :=
  (path_sound h).lt

/-- the object list after a fresh `addObject` under parent `p` -/
def objsAfterAdd (s : State) (c : Cls) (name : Name) (p : Nat) : List Obj :=
  (s.objs ++ [(⟨name, some p, c, [], []⟩ : Obj)]).modify p
    (fun po => { po with contents := dset po.contents name s.objs.length })

theorem objsAfterAdd_get_new {s : State} {c : Cls} {name : Name} {p : Nat} (hp : p < s.objs.length) :
    (objsAfterAdd s c name p)[s.objs.length]? = some (⟨name, some p, c, [], []⟩ : Obj) := by
  unfold objsAfterAdd
  rw [get_append_modify _ hp]; simp

theorem objsAfterAdd_get_old {s : State} {c : Cls} {name : Name} {p : Nat} (hp : p < s.objs.length)
    {i : Nat} {o : Obj} (ho : s.objs[i]? = some o) :
    (objsAfterAdd s c name p)[i]? =
      some (if i = p then { o with contents := dset o.contents name s.objs.length } else o) := by
  unfold objsAfterAdd
  have hi := (List.getElem?_eq_some_iff.1 ho).1
  rw [get_append_modify _ hp, ho]
  have : i ≠ s.objs.length := Nat.ne_of_lt hi
  simp only [this, if_false, Option.map_some]

theorem objsAfterAdd_length {s : State} {c : Cls} {name : Name} {p : Nat} :
    (objsAfterAdd s c name p).length = s.objs.length + 1 := by
  simp [objsAfterAdd]

theorem objsAfterAdd_okey {s : State} {c : Cls} {name : Name} {p : Nat} :
    ∀ i : Nat, ((objsAfterAdd s c name p)[i]?).map okey =
      ((s.objs ++ [(⟨name, some p, c, [], []⟩ : Obj)])[i]?).map okey := by
  intro i
  unfold objsAfterAdd
  exact modify_agree_okey _ p (fun po => { po with contents := dset po.contents name s.objs.length }) (fun o => rfl) i

/-- paths of old objects survive `addObject` -/
theorem path_afterAdd_old {s : State} {c : Cls} {name : Name} {p : Nat} {all' : List (Path × Nat)} {roots' : List Nat}
    {i : Nat} {k : Path} (h : path s i = some k) :
    path ⟨objsAfterAdd s c name p, all', roots'⟩ i = some k := by
  simp only [path, objsAfterAdd_length] at h ⊢
  rw [pathAux_congr objsAfterAdd_okey]
  exact pathAux_mono (pathAux_append _ h)

theorem path_afterAdd_new {s : State} {c : Cls} {name : Name} {p : Nat} {all' : List (Path × Nat)} {roots' : List Nat}
    {pp : Path} (h : path s p = some pp) :
    path ⟨objsAfterAdd s c name p, all', roots'⟩ s.objs.length = some (pp ++ [name]) := by
  have hp := path_lt h
  have hold := path_afterAdd_old (c := c) (name := name) (p := p) (all' := all') (roots' := roots') h
  simp only [path, objsAfterAdd_length] at hold ⊢
  rw [pathAux_child (objsAfterAdd_get_new hp) rfl]
  -- one unit of fuel less is still enough for the parent
  have h0 : pathAux (objsAfterAdd s c name p) (s.objs.length + 1) p = some pp := by
    simp only [path] at h
    rw [pathAux_congr objsAfterAdd_okey]
    exact pathAux_append _ h
  rw [h0]; rfl

theorem addObject_fresh {s : State} {c : Cls} {name : Name} {p : Nat} {pp : Path}
    (h : path s p = some pp) (hf : dget s.all (pp ++ [name]) = none) :
    addObject s c name (some p) =
      .ok ⟨objsAfterAdd s c name p, s.all ++ [(pp ++ [name], s.objs.length)], s.roots⟩ := by
  have hp := path_lt h
  unfold addObject place
  simp only [hp, if_true]
  unfold register
  have hn := path_afterAdd_new (c := c) (name := name) (all' := s.all) (roots' := s.roots) h
  simp only [modifyObj]
  have hn' : path { objs := (s.objs ++ [(⟨name, some p, c, [], []⟩ : Obj)]).modify p fun po =>
      { po with contents := dset po.contents name s.objs.length }, all := s.all, roots := s.roots } s.objs.length
      = some (pp ++ [name]) := hn
  rw [hn']
  simp only [hf]
  rfl

/-! ## the invariant -/

def stKind : Stmt → Option (Name × Cls)
  | .classDef n _ _ => some (n, .cls)
  | .funcDef n => some (n, .function)
  | .assign n _ => some (n, .attribute)
  | _ => none

theorem stKind_defName {st : Stmt} {n : Name} {c : Cls} (h : stKind st = some (n, c)) : st.defName = some n := by
  cases st <;> simp_all [stKind, Stmt.defName]

def modCls (proj : Project) (m : Nat) : Cls := if isPkg proj m then .package else .module

/-- object class `c` is what pydoctor creates for the site -/
inductive ObjKind (proj : Project) : Site → Cls → Prop
  | mod {m : Nat} : m < proj.length → ObjKind proj (m, []) (modCls proj m)
  | dfn {m : Nat} {cp : List Name} {b : List Stmt} {st : Stmt} {n : Name} {c : Cls} :
      siteBody proj (m, cp) = some b → st ∈ b → stKind st = some (n, c) → ObjKind proj (m, cp ++ [n]) c

theorem ObjKind.static {proj : Project} {S : Site} {c : Cls} (h : ObjKind proj S c) : StaticSite proj S := by
  cases h with
  | mod hm => exact ⟨hm, Or.inl rfl⟩
  | @dfn m cp b st n c hb hst hk => exact ⟨(siteBody_lt hb : (m, cp).1 < proj.length), Or.inr ⟨cp, n, b, st, rfl, hb, hst, stKind_defName hk⟩⟩

theorem ObjKind.isMod {proj : Project} {S : Site} {c : Cls} (h : ObjKind proj S c) :
    isModuleCls c = true ↔ S.2 = [] := by
  cases h with
  | mod hm => simp only [modCls]; split <;> simp [isModuleCls]
  | @dfn m cp b st n c hb hst hk =>
    cases st <;> simp_all [stKind, isModuleCls]
    all_goals (obtain ⟨_, rfl⟩ := hk; simp)

def HasEntry (s : St) (ctx : Nat) (x : Name) : Prop :=
  ∃ o, s.reg.objs[ctx]? = some o ∧ (dget o.contents x ≠ none ∨ dget o.aliases x ≠ none)

def HasContent (s : St) (ctx : Nat) (x : Name) : Prop :=
  ∃ o c, s.reg.objs[ctx]? = some o ∧ dget o.contents x = some c

theorem HasContent.entry {s : St} {ctx : Nat} {x : Name} (h : HasContent s ctx x) : HasEntry s ctx x := by
  obtain ⟨o, c, ho, hd⟩ := h
  exact ⟨o, ho, Or.inl (by rw [hd]; simp)⟩

mutual
/-- every binding statement of a visited body left an entry in the scope's object (and every
class statement a class object whose own body is complete) -/
def CompleteStmt (s : St) (ctx : Nat) : Stmt → Prop
  | .classDef n _ body => ∃ c o po, s.reg.objs[ctx]? = some po ∧ dget po.contents n = some c ∧
      s.reg.objs[c]? = some o ∧ o.cls = .cls ∧ CompleteStmts s c body
  | .importMod t a => ∀ x ∈ explicitNames (.importMod t a), HasEntry s ctx x
  | .importFrom _ _ n a => HasEntry s ctx (a.getD n)
  | .importStar _ _ => True
  | .funcDef n => HasContent s ctx n
  | .assign n _ => HasContent s ctx n
  | .allAssign _ => True
def CompleteStmts (s : St) (ctx : Nat) : List Stmt → Prop
  | [] => True
  | st :: rest => CompleteStmt s ctx st ∧ CompleteStmts s ctx rest
end

/-- processing states only move forward, and a finished call leaves nothing in `processing` that was not -/
def PsRel (s s' : St) : Prop :=
  ∀ t, (getPs s t = .processing → getPs s' t = .processing) ∧
       (getPs s t = .processed → getPs s' t = .processed) ∧
       (getPs s t = .unprocessed → getPs s' t ≠ .processing)

theorem PsRel.refl (s : St) : PsRel s s := fun t => ⟨id, id, fun h => by rw [h]; simp⟩

theorem PsRel.trans {a b c : St} (h1 : PsRel a b) (h2 : PsRel b c) : PsRel a c := by
  intro t
  obtain ⟨a1, a2, a3⟩ := h1 t
  obtain ⟨b1, b2, b3⟩ := h2 t
  refine ⟨fun h => b1 (a1 h), fun h => b2 (a2 h), fun h => ?_⟩
  have := a3 h
  cases hb : getPs b t with
  | unprocessed => exact b3 hb
  | processing => exact absurd hb this
  | processed => rw [b2 hb]; simp

/-- the later state extends the earlier one: objects, their classes, entries and names persist -/
structure Ext (s s' : St) : Prop where
  objs : ∀ (i : Nat) (o : Obj), s.reg.objs[i]? = some o → ∃ o' : Obj, s'.reg.objs[i]? = some o' ∧ o'.cls = o.cls ∧
    (∀ k c, dget o.contents k = some c → dget o'.contents k = some c) ∧
    (∀ k, dget o.aliases k ≠ none → dget o'.aliases k ≠ none)
  paths : ∀ i k, path s.reg i = some k → path s'.reg i = some k
  ps : PsRel s s'

theorem Ext.refl (s : St) : Ext s s :=
  ⟨fun i o h => ⟨o, h, rfl, fun _ _ h => h, fun _ h => h⟩, fun _ _ h => h, PsRel.refl s⟩

theorem Ext.trans {a b c : St} (h1 : Ext a b) (h2 : Ext b c) : Ext a c := by
  refine ⟨fun i o ho => ?_, fun i k hk => h2.paths i k (h1.paths i k hk), h1.ps.trans h2.ps⟩
  obtain ⟨o1, ho1, c1, d1, e1⟩ := h1.objs i o ho
  obtain ⟨o2, ho2, c2, d2, e2⟩ := h2.objs i o1 ho1
  exact ⟨o2, ho2, c2.trans c1, fun k c h => d2 k c (d1 k c h), fun k h => e2 k (e1 k h)⟩

theorem HasEntry.ext {s s' : St} (h : Ext s s') {ctx : Nat} {x : Name} (he : HasEntry s ctx x) : HasEntry s' ctx x := by
  obtain ⟨o, ho, hx⟩ := he
  obtain ⟨o', ho', _, hc, ha⟩ := h.objs ctx o ho
  refine ⟨o', ho', ?_⟩
  rcases hx with hx | hx
  · left
    cases hd : dget o.contents x with
    | none => exact absurd hd hx
    | some c => rw [hc x c hd]; simp
  · exact Or.inr (ha x hx)

/-- objects, classes and entries persist -/
def ExtObjs (s s' : St) : Prop :=
  ∀ (i : Nat) (o : Obj), s.reg.objs[i]? = some o → ∃ o' : Obj, s'.reg.objs[i]? = some o' ∧ o'.cls = o.cls ∧
    (∀ k c, dget o.contents k = some c → dget o'.contents k = some c) ∧
    (∀ k, dget o.aliases k ≠ none → dget o'.aliases k ≠ none)

theorem HasEntry.extObjs {s s' : St} (h : ExtObjs s s') {ctx : Nat} {x : Name} (he : HasEntry s ctx x) : HasEntry s' ctx x := by
  obtain ⟨o, ho, hx⟩ := he
  obtain ⟨o', ho', _, hc, ha⟩ := h ctx o ho
  refine ⟨o', ho', ?_⟩
  rcases hx with hx | hx
  · left
    cases hd : dget o.contents x with
    | none => exact absurd hd hx
    | some c => rw [hc x c hd]; simp
  · exact Or.inr (ha x hx)

mutual
theorem CompleteStmt.extObjs {s s' : St} (h : ExtObjs s s') : ∀ {ctx : Nat} (st : Stmt), CompleteStmt s ctx st → CompleteStmt s' ctx st
  | ctx, .classDef n bs body, hc => by
    simp only [CompleteStmt] at hc ⊢
    obtain ⟨c, o, po, hpo, hd, ho, hcl, hb⟩ := hc
    obtain ⟨po', hpo', _, hcc, _⟩ := h ctx po hpo
    obtain ⟨o', ho', hcl', _, _⟩ := h c o ho
    exact ⟨c, o', po', hpo', hcc n c hd, ho', hcl'.trans hcl, CompleteStmts.extObjs h body hb⟩
  | ctx, .importMod t a, hc => by
    simp only [CompleteStmt] at hc ⊢
    exact fun x hx => (hc x hx).extObjs h
  | ctx, .importFrom _ _ n a, hc => by simp only [CompleteStmt] at hc ⊢; exact hc.extObjs h
  | ctx, .importStar _ _, _ => by simp [CompleteStmt]
  | ctx, .funcDef n, hc => by
    simp only [CompleteStmt] at hc ⊢
    obtain ⟨o, c, ho, hd⟩ := hc
    obtain ⟨o', ho', _, hcc, _⟩ := h ctx o ho
    exact ⟨o', c, ho', hcc n c hd⟩
  | ctx, .assign n _, hc => by
    simp only [CompleteStmt] at hc ⊢
    obtain ⟨o, c, ho, hd⟩ := hc
    obtain ⟨o', ho', _, hcc, _⟩ := h ctx o ho
    exact ⟨o', c, ho', hcc n c hd⟩
  | ctx, .allAssign _, _ => by simp [CompleteStmt]
theorem CompleteStmts.extObjs {s s' : St} (h : ExtObjs s s') : ∀ {ctx : Nat} (sts : List Stmt), CompleteStmts s ctx sts → CompleteStmts s' ctx sts
  | _, [], _ => by simp [CompleteStmts]
  | ctx, st :: rest, hc => by
    simp only [CompleteStmts] at hc ⊢
    exact ⟨CompleteStmt.extObjs h st hc.1, CompleteStmts.extObjs h rest hc.2⟩
end

theorem CompleteStmt.ext {s s' : St} (h : Ext s s') {ctx : Nat} (st : Stmt) (hc : CompleteStmt s ctx st) :
    CompleteStmt s' ctx st := CompleteStmt.extObjs h.objs st hc

theorem CompleteStmts.ext {s s' : St} (h : Ext s s') {ctx : Nat} (sts : List Stmt) (hc : CompleteStmts s ctx sts) :
    CompleteStmts s' ctx sts := CompleteStmts.extObjs h.objs sts hc

theorem ExtObjs.of_reg {s s' : St} (h : s'.reg = s.reg) : ExtObjs s s' :=
  fun i o ho => ⟨o, by rw [h]; exact ho, rfl, fun _ _ h => h, fun _ h => h⟩

/-- the bases that were resolved when their class statement was visited are class objects -/
def CBase (s : St) : Prop :=
  ∀ e ∈ s.cinfo, ∀ b, some b ∈ e.2.objs → ∃ o : Obj, s.reg.objs[b]? = some o ∧ o.cls = .cls

theorem CBase.ext {s s' : St} (h : CBase s) (he : Ext s s') (hc : s'.cinfo = s.cinfo) : CBase s' := by
  intro e hm b hb
  rw [hc] at hm
  obtain ⟨o, ho, hcl⟩ := h e hm b hb
  obtain ⟨o', ho', hc', _⟩ := he.objs b o ho
  exact ⟨o', ho', hc'.trans hcl⟩

/-- **the invariant of reachable, well-behaved states** -/
structure PdInv (proj : Project) (s : St) : Prop where
  reg : Inv s.reg
  cbase : CBase s
  lens : s.ps.length = proj.length ∧ s.alls.length = proj.length
  mods : ∀ m, m < proj.length → ∃ o, s.reg.objs[m]? = some o ∧ path s.reg m = some (pathOf proj m) ∧ o.cls = modCls proj m
  site : ∀ i o, s.reg.objs[i]? = some o → ∃ S, ObjKind proj S o.cls ∧ path s.reg i = some (sitePath proj S)
  alias : ∀ i o S, s.reg.objs[i]? = some o → path s.reg i = some (sitePath proj S) → StaticSite proj S →
    ∀ x tgt, dget o.aliases x = some tgt → Jpd proj S x tgt
  cont : ∀ m o, m < proj.length → s.reg.objs[m]? = some o → ∀ x c, dget o.contents x = some c →
    x ∈ childNames proj m ∨ ∃ st ∈ bodyOf proj m, st.defName = some x
  alls : ∀ m l, getAll s m = some l → ∀ x ∈ l, x ∈ allNames (bodyOf proj m)
  started : ∀ i S, path s.reg i = some (sitePath proj S) → StaticSite proj S → S.2 ≠ [] → getPs s S.1 ≠ .unprocessed
  complete : ∀ m md, proj[m]? = some md → getPs s m = .processed → CompleteStmts s m md.body

/-- the invariant does not speak about the `pending` order -/
theorem PdInv.setPending {proj : Project} {s : St} (h : PdInv proj s) (l : List Nat) : PdInv proj { s with pending := l } :=
  { reg := h.reg, cbase := h.cbase, lens := h.lens, mods := h.mods, site := h.site, alias := h.alias, cont := h.cont,
    alls := h.alls, started := h.started,
    complete := fun m md hm hp => by
      have he : ExtObjs s { s with pending := l } := ExtObjs.of_reg rfl
      exact CompleteStmts.extObjs he _ (h.complete m md hm hp) }

/-! ## `setAlias` -/

theorem setAlias_get_ne {s : St} {ctx : Nat} {k : Name} {v : Path} {i : Nat} (h : i ≠ ctx) :
    (setAlias s ctx k v).reg.objs[i]? = s.reg.objs[i]? := by
  simp only [setAlias, modifyObj]; exact getElem?_modify_ne _ h

theorem setAlias_get_eq {s : St} {ctx : Nat} {k : Name} {v : Path} :
    (setAlias s ctx k v).reg.objs[ctx]? = (s.reg.objs[ctx]?).map (fun o => { o with aliases := dset o.aliases k v }) := by
  simp only [setAlias, modifyObj]; exact getElem?_modify_eq _ _ _

theorem setAlias_path {s : St} {ctx : Nat} {k : Name} {v : Path} (i : Nat) :
    path (setAlias s ctx k v).reg i = path s.reg i := by
  simp only [setAlias, modifyObj, path, List.length_modify]
  exact pathAux_congr (agree_okey (modify_aliases_agree _ _ _)) _ _

theorem setAlias_ext (s : St) (ctx : Nat) (k : Name) (v : Path) : Ext s (setAlias s ctx k v) := by
  refine ⟨fun i o ho => ?_, fun i p hp => by rw [setAlias_path]; exact hp, PsRel.refl _⟩
  by_cases h : i = ctx
  · subst h
    refine ⟨{ o with aliases := dset o.aliases k v }, by rw [setAlias_get_eq, ho]; rfl, rfl, fun _ _ h => h, ?_⟩
    intro k' hk'
    by_cases hk : k' = k
    · subst hk; rw [dset_get_same]; simp
    · rw [dset_get_other _ _ _ _ hk]; exact hk'
  · exact ⟨o, by rw [setAlias_get_ne h]; exact ho, rfl, fun _ _ h => h, fun _ h => h⟩

theorem setAlias_entry {s : St} {ctx : Nat} {k : Name} {v : Path} {o : Obj} (ho : s.reg.objs[ctx]? = some o) :
    HasEntry (setAlias s ctx k v) ctx k :=
  ⟨_, by rw [setAlias_get_eq, ho]; rfl, Or.inr (by simp [dset_get_same])⟩

theorem pdInv_setAlias {proj : Project} {rank : List Nat} (wf : WFacts proj rank) {s : St} (hI : PdInv proj s)
    {ctx : Nat} {k : Name} {v : Path} {S : Site}
    (hp : path s.reg ctx = some (sitePath proj S)) (hS : StaticSite proj S) (hj : Jpd proj S k v) :
    PdInv proj (setAlias s ctx k v) := by
  have hext := setAlias_ext s ctx k v
  refine
    { reg := ?_, cbase := hI.cbase.ext hext rfl, lens := hI.lens, mods := ?_, site := ?_, alias := ?_, cont := ?_,
      alls := hI.alls, started := ?_, complete := ?_ }
  · exact inv_congr hI.reg (modify_aliases_agree _ _ _)
  · intro m hm
    obtain ⟨o, ho, hpm, hc⟩ := hI.mods m hm
    obtain ⟨o', ho', hc', _, _⟩ := hext.objs m o ho
    exact ⟨o', ho', by rw [setAlias_path]; exact hpm, hc'.trans hc⟩
  · intro i o' ho'
    by_cases h : i = ctx
    · subst h
      rw [setAlias_get_eq] at ho'
      cases ho : s.reg.objs[i]? with
      | none => rw [ho] at ho'; simp at ho'
      | some o =>
        rw [ho] at ho'; simp only [Option.map_some, Option.some.injEq] at ho'; subst ho'
        obtain ⟨S', hk', hp'⟩ := hI.site i o ho
        exact ⟨S', hk', by rw [setAlias_path]; exact hp'⟩
    · rw [setAlias_get_ne h] at ho'
      obtain ⟨S', hk', hp'⟩ := hI.site i o' ho'
      exact ⟨S', hk', by rw [setAlias_path]; exact hp'⟩
  · intro i o' S' ho' hp' hS' x tgt hx
    rw [setAlias_path] at hp'
    by_cases h : i = ctx
    · subst h
      rw [setAlias_get_eq] at ho'
      cases ho : s.reg.objs[i]? with
      | none => rw [ho] at ho'; simp at ho'
      | some o =>
        rw [ho] at ho'; simp only [Option.map_some, Option.some.injEq] at ho'; subst ho'
        simp only at hx
        by_cases hk : x = k
        · subst hk
          rw [dset_get_same] at hx; injection hx with hx; subst hx
          have : S' = S := site_unique wf hS' hS (by rw [hp] at hp'; injection hp' with hp'; exact hp'.symm)
          subst this; exact hj
        · rw [dset_get_other _ _ _ _ hk] at hx
          exact hI.alias i o S' ho hp' hS' x tgt hx
    · rw [setAlias_get_ne h] at ho'
      exact hI.alias i o' S' ho' hp' hS' x tgt hx
  · intro m o' hm ho' x c hx
    by_cases h : m = ctx
    · subst h
      rw [setAlias_get_eq] at ho'
      cases ho : s.reg.objs[m]? with
      | none => rw [ho] at ho'; simp at ho'
      | some o =>
        rw [ho] at ho'; simp only [Option.map_some, Option.some.injEq] at ho'; subst ho'
        exact hI.cont m o hm ho x c hx
    · rw [setAlias_get_ne h] at ho'
      exact hI.cont m o' hm ho' x c hx
  · intro i S' hp' hS' hne
    rw [setAlias_path] at hp'
    exact hI.started i S' hp' hS' hne
  · intro m md hm hps
    exact CompleteStmts.ext hext _ (hI.complete m md hm hps)

/-! ## `addObj` -/

theorem addObj_bad {s : St} {c : Cls} {name : Name} {parent : Nat} (h : (addObj s c name parent).bad = false) :
    s.bad = false := by
  unfold addObj at h
  cases ha : addObject s.reg c name (some parent) with
  | error e => simp [ha] at h
  | ok r => simp only [ha, Bool.or_eq_false_iff] at h; exact h.1

/-- what a well-behaved `addObj` does -/
theorem addObj_spec {s : St} {c : Cls} {name : Name} {parent : Nat} {pp : Path}
    (hp : path s.reg parent = some pp) (h : (addObj s c name parent).bad = false) :
    addObj s c name parent =
      { s with reg := ⟨objsAfterAdd s.reg c name parent, s.reg.all ++ [(pp ++ [name], s.reg.objs.length)], s.reg.roots⟩ } ∧
    addObject s.reg c name (some parent) =
      .ok ⟨objsAfterAdd s.reg c name parent, s.reg.all ++ [(pp ++ [name], s.reg.objs.length)], s.reg.roots⟩ := by
  have hb := addObj_bad h
  have hf : dget s.reg.all (pp ++ [name]) = none := by
    unfold addObj at h
    cases ha : addObject s.reg c name (some parent) with
    | error e => simp [ha] at h
    | ok r =>
      simp only [ha, hp, Bool.or_eq_false_iff, dhas] at h
      cases hd : dget s.reg.all (pp ++ [name]) with
      | none => rfl
      | some v => rw [hd] at h; simp at h
  have ha := addObject_fresh (c := c) hp hf
  refine ⟨?_, ha⟩
  unfold addObj
  simp only [ha, hp, dhas, hf, hb]
  rfl

theorem pdInv_addObj {proj : Project} {rank : List Nat} (wf : WFacts proj rank) {s : St} (hI : PdInv proj s)
    {c : Cls} {name : Name} {ctx : Nat} {S : Site} {full : List Stmt} {st : Stmt}
    (hb : (addObj s c name ctx).bad = false)
    (hp : path s.reg ctx = some (sitePath proj S)) (hS : siteBody proj S = some full) (hst : st ∈ full)
    (hk : stKind st = some (name, c)) (hps : getPs s S.1 ≠ .unprocessed) (hSt : StaticSite proj S) :
    PdInv proj (addObj s c name ctx) ∧ Ext s (addObj s c name ctx) ∧
    (addObj s c name ctx).reg.objs.length = s.reg.objs.length + 1 ∧
    (addObj s c name ctx).reg.objs[s.reg.objs.length]? = some (⟨name, some ctx, c, [], []⟩ : Obj) ∧
    path (addObj s c name ctx).reg s.reg.objs.length = some (sitePath proj (S.1, S.2 ++ [name])) ∧
    (∃ po, (addObj s c name ctx).reg.objs[ctx]? = some po ∧ dget po.contents name = some s.reg.objs.length) ∧
    (addObj s c name ctx).ps = s.ps ∧ (addObj s c name ctx).alls = s.alls ∧ (addObj s c name ctx).cinfo = s.cinfo := by
  obtain ⟨he, hok⟩ := addObj_spec hp hb
  have hlt := path_lt hp
  have hinv : Inv (addObj s c name ctx).reg := by rw [he]; exact addObject_inv hI.reg hok
  rw [he]
  have hnewpath : path ⟨objsAfterAdd s.reg c name ctx, s.reg.all ++ [(sitePath proj S ++ [name], s.reg.objs.length)],
      s.reg.roots⟩ s.reg.objs.length = some (sitePath proj (S.1, S.2 ++ [name])) := by
    rw [path_afterAdd_new hp]; simp [sitePath]
  have hold : ∀ i o, s.reg.objs[i]? = some o → (objsAfterAdd s.reg c name ctx)[i]? =
      some (if i = ctx then { o with contents := dset o.contents name s.reg.objs.length } else o) :=
    fun i o ho => objsAfterAdd_get_old hlt ho
  have hcases : ∀ i o', (objsAfterAdd s.reg c name ctx)[i]? = some o' →
      (i = s.reg.objs.length ∧ o' = ⟨name, some ctx, c, [], []⟩) ∨
      (∃ o, s.reg.objs[i]? = some o ∧ o' = (if i = ctx then { o with contents := dset o.contents name s.reg.objs.length } else o)) := by
    intro i o' ho'
    have hil := (List.getElem?_eq_some_iff.1 ho').1
    rw [objsAfterAdd_length] at hil
    by_cases hi : i = s.reg.objs.length
    · subst hi; rw [objsAfterAdd_get_new hlt] at ho'; injection ho' with ho'; exact Or.inl ⟨rfl, ho'.symm⟩
    · have hi' : i < s.reg.objs.length := by omega
      have ho : s.reg.objs[i]? = some s.reg.objs[i] := by simp [hi']
      rw [hold i _ ho] at ho'; injection ho' with ho'
      exact Or.inr ⟨_, ho, ho'.symm⟩
  have hpold : ∀ i k, path s.reg i = some k → path ⟨objsAfterAdd s.reg c name ctx,
      s.reg.all ++ [(sitePath proj S ++ [name], s.reg.objs.length)], s.reg.roots⟩ i = some k :=
    fun i k hk => path_afterAdd_old hk
  have hpback : ∀ i k, i < s.reg.objs.length → path ⟨objsAfterAdd s.reg c name ctx,
      s.reg.all ++ [(sitePath proj S ++ [name], s.reg.objs.length)], s.reg.roots⟩ i = some k → path s.reg i = some k := by
    intro i k hi hk
    obtain ⟨k0, hk0⟩ := hI.reg.full i hi
    have h1 := hI.reg.reg.keys k0 i hk0
    rw [hpold i k0 h1] at hk; injection hk with hk; subst hk; exact h1
  have hext : Ext s { s with reg := ⟨objsAfterAdd s.reg c name ctx,
      s.reg.all ++ [(sitePath proj S ++ [name], s.reg.objs.length)], s.reg.roots⟩ } := by
    refine ⟨fun i o ho => ⟨_, hold i o ho, ?_, ?_, ?_⟩, hpold, PsRel.refl _⟩
    · split <;> rfl
    · intro k' c' hd
      split
      · simp only
        by_cases hk' : k' = name
        · -- a fresh name cannot be in the parent's contents
          exfalso
          rename_i hic; subst hic; subst hk'
          obtain ⟨co, hco, hcp, hcn⟩ := hI.reg.tree.coh i o k' c' ho (mem_of_dget hd)
          have hch : HasPath s.reg.objs c' (sitePath proj S ++ [k']) := by
            rw [← hcn]; exact .child hco hcp (path_sound hp)
          obtain ⟨k0, hk0⟩ := hI.reg.full c' (List.getElem?_eq_some_iff.1 hco).1
          have := (hI.reg.reg.hasPath hk0).func hch
          subst this
          have hreg := dget_of_mem hI.reg.reg.uniq hk0
          have hfresh : dget s.reg.all (sitePath proj S ++ [k']) = none := by
            have hb' := hb
            unfold addObj at hb'
            simp only [hok, hp, Bool.or_eq_false_iff, dhas] at hb'
            cases hd2 : dget s.reg.all (sitePath proj S ++ [k']) with
            | none => rfl
            | some v => rw [hd2] at hb'; simp at hb'
          rw [hfresh] at hreg; cases hreg
        · rw [dset_get_other _ _ _ _ hk']; exact hd
      · exact hd
    · intro k' hk'; split <;> exact hk'
  refine ⟨?_, hext, by simp [objsAfterAdd_length], objsAfterAdd_get_new hlt, hnewpath, ?_, rfl, rfl, rfl⟩
  · refine
      { reg := by rw [he] at hinv; exact hinv, cbase := hI.cbase.ext hext rfl, lens := hI.lens, mods := ?_, site := ?_,
        alias := ?_, cont := ?_,
        alls := hI.alls, started := ?_, complete := ?_ }
    · intro m hm
      obtain ⟨o, ho, hpm, hc⟩ := hI.mods m hm
      obtain ⟨o', ho', hc', _, _⟩ := hext.objs m o ho
      exact ⟨o', ho', hpold m _ hpm, hc'.trans hc⟩
    · intro i o' ho'
      rcases hcases i o' ho' with ⟨rfl, rfl⟩ | ⟨o, ho, rfl⟩
      · exact ⟨(S.1, S.2 ++ [name]), ObjKind.dfn hS hst hk, hnewpath⟩
      · obtain ⟨S', hk', hp'⟩ := hI.site i o ho
        refine ⟨S', ?_, hpold i _ hp'⟩
        split <;> exact hk'
    · intro i o' S' ho' hp' hS' x tgt hx
      rcases hcases i o' ho' with ⟨rfl, rfl⟩ | ⟨o, ho, rfl⟩
      · simp [dget] at hx
      · have hx' : dget o.aliases x = some tgt := by split at hx <;> exact hx
        exact hI.alias i o S' ho (hpback i _ (List.getElem?_eq_some_iff.1 ho).1 hp') hS' x tgt hx'
    · intro m o' hm ho' x c' hx
      rcases hcases m o' ho' with ⟨rfl, rfl⟩ | ⟨o, ho, rfl⟩
      · simp [dget] at hx
      · split at hx
        · rename_i hmc; subst hmc
          simp only at hx
          by_cases hxn : x = name
          · subst hxn
            right
            obtain ⟨om, _, hpm, _⟩ := hI.mods m hm
            have : S = (m, []) := site_unique wf hSt ⟨hm, Or.inl rfl⟩ (by
              rw [hpm] at hp; injection hp with hp; simpa [sitePath] using hp.symm)
            subst this
            rw [← siteBody_mod hS]
            exact ⟨st, hst, stKind_defName hk⟩
          · rw [dset_get_other _ _ _ _ hxn] at hx
            exact hI.cont m o hm ho x c' hx
        · exact hI.cont m o hm ho x c' hx
    · intro i S' hp' hS' hne
      by_cases hi : i < s.reg.objs.length
      · exact hI.started i S' (hpback i _ hi hp') hS' hne
      · have hil : i < (objsAfterAdd s.reg c name ctx).length := path_lt hp'
        rw [objsAfterAdd_length] at hil
        have : i = s.reg.objs.length := by omega
        subst this
        rw [hnewpath] at hp'; injection hp' with hp'
        have : S' = (S.1, S.2 ++ [name]) :=
          site_unique wf hS' (ObjKind.dfn hS hst hk).static hp'.symm
        subst this; exact hps
    · intro m md hm hps'
      exact CompleteStmts.ext hext _ (hI.complete m md hm hps')
  · obtain ⟨po, hpo⟩ : ∃ po, s.reg.objs[ctx]? = some po := ⟨s.reg.objs[ctx], by simp [hlt]⟩
    refine ⟨_, hold ctx po hpo, ?_⟩
    simp [dset_get_same]

/-! ## `bad` is sticky -/

theorem markBad_bad {s : St} {b : Bool} (h : (markBad s b).bad = false) : b = false ∧ markBad s b = s := by
  unfold markBad at h ⊢
  cases b <;> simp_all

theorem setAlias_bad (s : St) (ctx : Nat) (k : Name) (v : Path) : (setAlias s ctx k v).bad = s.bad := rfl

def Sticky (pm : St → Nat → St) : Prop := ∀ s t, (pm s t).bad = false → s.bad = false

theorem pmMany_bad {pm : St → Nat → St} (hpm : Sticky pm) :
    ∀ (l : List Nat) (s : St), (pmMany pm l s).bad = false → s.bad = false
  | [], _, h => h
  | m :: r, s, h => by
    simp only [pmMany, List.foldl_cons] at h
    have := pmMany_bad hpm r _ h
    by_cases hu : getPs s m = .unprocessed
    · simp only [hu, if_true] at this; exact hpm _ _ this
    · simp only [hu, if_false] at this; exact this

theorem gpmOne_bad {pm : St → Nat → St} (hpm : Sticky pm) {s : St} {t : Nat}
    (h : (gpmOne pm s t).bad = false) : s.bad = false := by
  unfold gpmOne at h
  simp only at h
  obtain ⟨_, he⟩ := markBad_bad h
  rw [he] at h
  split at h
  · exact hpm _ _ h
  · exact h

theorem gpmAbove_bad {pm : St → Nat → St} (hpm : Sticky pm) {s : St} {t : Nat}
    (h : (gpmAbove pm s t).bad = false) : s.bad = false := by
  unfold gpmAbove at h
  split at h
  · exact pmMany_bad hpm _ _ h
  · exact h

theorem gpm_bad {pm : St → Nat → St} (hpm : Sticky pm) {s : St} {T : Path}
    (h : (getProcessedModule pm s T).1.bad = false) : s.bad = false := by
  unfold getProcessedModule at h
  cases hl : lookupModule s T with
  | mk r crash =>
    rw [hl] at h
    cases r with
    | none =>
      simp only at h
      obtain ⟨_, he⟩ := markBad_bad h
      rw [he] at h; exact h
    | some t =>
      simp only at h
      have h0 := gpmAbove_bad hpm (gpmOne_bad hpm h)
      obtain ⟨_, he2⟩ := markBad_bad h0
      rw [he2] at h0; exact h0

theorem importProcess_bad {pm : St → Nat → St} (hpm : Sticky pm) {T : Path} {s : St}
    (h : (importProcess pm T s).bad = false) : s.bad = false := by
  unfold importProcess at h
  generalize prefixesOf T = l at h
  induction l generalizing s with
  | nil => exact h
  | cons p r ih => exact gpm_bad hpm (ih h)

theorem doMove_bad {s : St} {ctx ob : Nat} {a : Name} (h : (doMove s ctx ob a).1.bad = false) : s.bad = false := by
  unfold doMove at h
  cases hr : reparent s.reg ob ctx a with
  | ok r => simp only [hr, Bool.or_eq_false_iff] at h; exact h.1
  | error e => simp [hr] at h

theorem pbm_bad {pm : St → Nat → St} (hpm : Sticky pm) {s : St} {ob : Nat}
    (h : (processBeforeMove pm s ob).bad = false) : s.bad = false := by
  unfold processBeforeMove at h
  split at h
  · split at h
    · simp only at h
      exact gpm_bad hpm (pmMany_bad hpm _ _ h)
    · simp at h
  · exact h

theorem hre_bad {pm : St → Nat → St} (hpm : Sticky pm) {s : St} {ctx : Nat} {ex : List Name} {o a : Name} {t : Nat}
    (h : (handleReExport pm s ctx ex o a t).1.bad = false) : s.bad = false := by
  unfold handleReExport at h
  by_cases h1 : (!ex.contains a) = true
  · simp only [h1, if_true] at h; exact h
  · simp only [h1] at h
    cases hc : reexportCandidate s o t with
    | none => simp only [hc] at h; exact h
    | some ob =>
      simp only [hc] at h
      by_cases h2 : moveBlocked s ctx ob = true
      · simp only [h2, if_true] at h; exact h
      · simp only [h2] at h
        by_cases h4 : notModuleLevel s ob = true
        · simp only [h4, if_true] at h; exact h
        · simp only [h4] at h
          by_cases h3 : listedIn s t o = true
          · simp only [h3, if_true] at h; exact h
          · simp only [h3] at h; exact pbm_bad hpm (doMove_bad h)

theorem starOne_bad {pm : St → Nat → St} (hpm : Sticky pm) {ctx t : Nat} {ex : List Name} {s : St} {x : Name}
    (h : (starOne pm ctx t ex s x).bad = false) : s.bad = false := by
  unfold starOne at h
  simp only at h
  by_cases h1 : (handleReExport pm s ctx ex x x t).2 = true
  · simp only [h1, if_true] at h; exact hre_bad hpm h
  · simp only [h1] at h
    cases he : Names.expandName (envOf (handleReExport pm s ctx ex x x t).1) t [x] with
    | none => simp [he] at h
    | some p => simp only [he, setAlias_bad] at h; exact hre_bad hpm h

theorem foldl_bad {α : Type} {f : St → α → St} (hf : ∀ s x, (f s x).bad = false → s.bad = false) :
    ∀ (l : List α) (s : St), (l.foldl f s).bad = false → s.bad = false
  | [], _, h => h
  | x :: xs, s, h => hf s x (foldl_bad hf xs (f s x) h)

theorem visitImport_bad {ctx : Nat} {t : Path} {a : Option Name} {s : St} (h : (visitImport ctx t a s).bad = false) :
    s.bad = false := by
  unfold visitImport at h
  cases a with
  | some a => exact h
  | none => cases t <;> exact h

theorem visitImportFrom_bad {pm : St → Nat → St} (hpm : Sticky pm) {mod ctx level : Nat} {M : Path} {n : Name}
    {a : Option Name} {s : St} (h : (visitImportFrom pm mod ctx level M n a s).bad = false) : s.bad = false := by
  unfold visitImportFrom at h
  cases hT : absName s mod level M with
  | none => simp only [hT] at h; exact h
  | some T =>
    simp only [hT] at h
    cases ht : (getProcessedModule pm s T).2 with
    | none => simp only [ht, setAlias_bad] at h; exact gpm_bad hpm h
    | some t =>
      simp only [ht] at h
      generalize hs2 : (if isPkgObj (getProcessedModule pm s T).1.reg t = true then
          (getProcessedModule pm (getProcessedModule pm s T).1 (T ++ [n])).1 else (getProcessedModule pm s T).1) = s2 at h
      have h2 : s2.bad = false := by
        by_cases hh : (handleReExport pm s2 ctx (currentExports (getProcessedModule pm s T).1 ctx) n (a.getD n) t).2 = true
        · simp only [hh, if_true] at h; exact hre_bad hpm h
        · simp only [hh, Bool.false_eq_true, if_false] at h; rw [setAlias_bad] at h; exact hre_bad hpm h
      rw [← hs2] at h2
      split at h2
      · exact gpm_bad hpm (gpm_bad hpm h2)
      · exact gpm_bad hpm h2

theorem visitImportStar_bad {pm : St → Nat → St} (hpm : Sticky pm) {mod ctx level : Nat} {M : Path}
    {s : St} (h : (visitImportStar pm mod ctx level M s).bad = false) : s.bad = false := by
  unfold visitImportStar at h
  cases hT : absName s mod level M with
  | none => simp only [hT] at h; exact h
  | some T =>
    simp only [hT] at h
    cases ht : (getProcessedModule pm s T).2 with
    | none => simp only [ht] at h; exact gpm_bad hpm h
    | some t =>
      simp only [ht] at h
      exact gpm_bad hpm (foldl_bad (fun s x => starOne_bad hpm) _ _ h)

theorem visitAssign_bad {ctx : Nat} {n : Name} {s : St} (h : (visitAssign ctx n s).bad = false) : s.bad = false := by
  unfold visitAssign at h
  cases ho : getObj s.reg ctx with
  | none => simp [ho] at h
  | some o =>
    simp only [ho] at h
    split at h
    · split at h
      · exact h
      · exact addObj_bad h
    · split at h
      · exact h
      · split at h
        · exact h
        · exact addObj_bad h

theorem enterClass_bad {ctx : Nat} {n : Name} {bs : List Path} {s : St} (h : (enterClass ctx n bs s).bad = false) :
    (addObj s .cls n ctx).bad = false := by
  unfold enterClass at h
  simp only at h
  obtain ⟨_, he⟩ := markBad_bad h
  rw [he] at h; exact h

mutual
theorem visitStmt_bad {pm : St → Nat → St} (hpm : Sticky pm) {mod : Nat} :
    ∀ (st : Stmt) (ctx : Nat) (s : St), (visitStmt pm mod ctx st s).bad = false → s.bad = false
  | .importMod target asname, ctx, s, h => by simp only [visitStmt] at h; exact importProcess_bad hpm (visitImport_bad h)
  | .importFrom level modname name asname, ctx, s, h => by
    simp only [visitStmt] at h; exact visitImportFrom_bad hpm h
  | .importStar level modname, ctx, s, h => by simp only [visitStmt] at h; exact visitImportStar_bad hpm h
  | .classDef name bases body, ctx, s, h => by
    simp only [visitStmt] at h
    exact addObj_bad (enterClass_bad (visitStmts_bad hpm body _ _ h))
  | .funcDef name, ctx, s, h => by simp only [visitStmt] at h; exact addObj_bad h
  | .assign name _, ctx, s, h => by simp only [visitStmt] at h; exact visitAssign_bad h
  | .allAssign _, ctx, s, h => by simp only [visitStmt] at h; exact h
theorem visitStmts_bad {pm : St → Nat → St} (hpm : Sticky pm) {mod : Nat} :
    ∀ (sts : List Stmt) (ctx : Nat) (s : St), (visitStmts pm mod ctx sts s).bad = false → s.bad = false
  | [], _, _, h => by simpa [visitStmts] using h
  | st :: rest, ctx, s, h => by
    simp only [visitStmts] at h
    exact visitStmt_bad hpm st ctx s (visitStmts_bad hpm rest ctx _ h)
end

theorem processModule_sticky (proj : Project) : ∀ f, Sticky (processModule proj f)
  | 0 => fun s t h => by simp [processModule] at h
  | f+1 => fun s t h => by
    simp only [processModule] at h
    split at h
    · simp at h
    · split at h
      · simp at h
      · rename_i md _
        have h' : (visitStmts (processModule proj f) t t md.body
            { s with ps := s.ps.set t .processing, alls := s.alls.set t (lastAll md.body) }).bad = false := h
        exact visitStmts_bad (processModule_sticky proj f) _ _
          { s with ps := s.ps.set t .processing, alls := s.alls.set t (lastAll md.body) } h'

/-! ## the visiting context; `getProcessedModule` -/

/-- `ctx` is the object of scope `S` (of module `mod`, which is being processed), whose body is `full` -/
structure Ctx (proj : Project) (s : St) (mod ctx : Nat) (S : Site) (full : List Stmt) : Prop where
  hmod : mod < proj.length
  hS1 : S.1 = mod
  body : siteBody proj S = some full
  pathc : path s.reg ctx = some (sitePath proj S)
  clsc : ∃ o, s.reg.objs[ctx]? = some o ∧ ((S.2 = [] ∧ isModuleCls o.cls = true) ∨ (S.2 ≠ [] ∧ o.cls = .cls))
  ctxmod : S.2 = [] → ctx = mod
  ps : getPs s mod = .processing

theorem Ctx.ext {proj : Project} {s s' : St} {mod ctx : Nat} {S : Site} {full : List Stmt}
    (h : Ctx proj s mod ctx S full) (he : Ext s s') : Ctx proj s' mod ctx S full := by
  obtain ⟨o, ho, hc⟩ := h.clsc
  obtain ⟨o', ho', hc', _, _⟩ := he.objs ctx o ho
  exact ⟨h.hmod, h.hS1, h.body, he.paths _ _ h.pathc, ⟨o', ho', by rw [hc']; exact hc⟩, h.ctxmod, (he.ps mod).1 h.ps⟩

theorem Ctx.static {proj : Project} {s : St} {mod ctx : Nat} {S : Site} {full : List Stmt}
    (hI : PdInv proj s) (h : Ctx proj s mod ctx S full) : StaticSite proj S := by
  obtain ⟨o, ho, _⟩ := h.clsc
  obtain ⟨S', hk, hp⟩ := hI.site ctx o ho
  rw [h.pathc] at hp; injection hp with hp
  -- the site of the object has the same body path; use the object's own site
  have hs' := hk.static
  obtain ⟨m, cp⟩ := S
  refine ⟨siteBody_lt h.body, ?_⟩
  by_cases hcp : cp = []
  · exact Or.inl hcp
  · right
    -- a non-empty chain whose body exists ends in a class statement of the enclosing body
    have hb := siteBody_bodyAt h.body
    simp only at hb
    obtain ⟨cp', n, rfl⟩ : ∃ cp' n, cp = cp' ++ [n] := ⟨cp.dropLast, cp.getLast hcp, (List.dropLast_concat_getLast hcp).symm⟩
    rw [bodyAt_append] at hb
    cases hb1 : bodyAt (bodyOf proj m) cp' with
    | none => simp [hb1] at hb
    | some b1 =>
      simp only [hb1, Option.bind_some, bodyAt] at hb
      cases hf : findClass b1 n with
      | none => simp [hf] at hb
      | some b2 =>
        obtain ⟨bs, hm⟩ := findClass_mem hf
        refine ⟨cp', n, b1, _, rfl, ?_, hm, rfl⟩
        unfold siteBody
        have hlt := siteBody_lt h.body
        simp only at hlt
        have : proj[m]? = some proj[m] := by simp [hlt]
        simp only [this]
        have hbo : bodyOf proj m = proj[m].body := bodyOf_eq this
        rw [← hbo]; exact hb1

def PmOk (proj : Project) (pm : St → Nat → St) : Prop :=
  Sticky pm ∧ ∀ s t, (pm s t).bad = false → PdInv proj s → t < proj.length →
    PdInv proj (pm s t) ∧ Ext s (pm s t) ∧ getPs (pm s t) t = .processed

/-- an object with a module class is one of the project's modules: its id is the module index -/
theorem module_obj {proj : Project} {s : St} (hI : PdInv proj s) {t : Nat} (h : isModuleObj s.reg t = true) :
    t < proj.length := by
  unfold isModuleObj at h
  cases ho : getObj s.reg t with
  | none => simp [ho] at h
  | some o =>
    simp only [ho] at h
    obtain ⟨S, hk, hp⟩ := hI.site t o ho
    have hS2 := hk.isMod.1 h
    have hlt := hk.static.1
    obtain ⟨om, _, hpm, _⟩ := hI.mods S.1 hlt
    have e : sitePath proj S = pathOf proj S.1 := by simp [sitePath, hS2]
    rw [e] at hp
    have h1 := dget_of_path hI.reg hp
    have h2 := dget_of_path hI.reg hpm
    rw [h1] at h2; injection h2 with h2
    rw [h2]; exact hlt

theorem lookupModule_spec {proj : Project} {s : St} (hI : PdInv proj s) {T : Path} {t : Nat} {crash : Bool}
    (h : lookupModule s T = (some t, crash)) :
    t < proj.length ∧ ∀ t', modIdx proj T = some t' → t = t' := by
  unfold lookupModule at h
  simp only at h
  constructor
  · split at h
    · rename_i i hi
      split at h
      · rename_i hm; injection h with h1 _; injection h1 with h1; subst h1; exact module_obj hI hm
      · cases h
    · cases h
  · intro t' ht'
    obtain ⟨hlt, hp⟩ := modIdx_spec ht'
    obtain ⟨om, _, hpm, _⟩ := hI.mods t' hlt
    rw [hp] at hpm
    have hreg : Names.objFor (envOf s) T = some t' := dget_of_path hI.reg hpm
    simp only [hreg] at h
    split at h
    · injection h with h1 _; injection h1 with h1; exact h1.symm
    · cases h

theorem pmMany_ok {proj : Project} {pm : St → Nat → St} (hpm : PmOk proj pm) :
    ∀ (l : List Nat) (s : St), (∀ m ∈ l, m < proj.length) → PdInv proj s → (pmMany pm l s).bad = false →
      PdInv proj (pmMany pm l s) ∧ Ext s (pmMany pm l s)
  | [], s, _, hI, _ => ⟨hI, Ext.refl s⟩
  | m :: r, s, hl, hI, hb => by
    simp only [pmMany, List.foldl_cons] at hb ⊢
    have hb1 := pmMany_bad hpm.1 r _ hb
    by_cases hu : getPs s m = .unprocessed
    · simp only [hu, if_true] at hb hb1 ⊢
      obtain ⟨hI1, he1, _⟩ := hpm.2 s m hb1 hI (hl m List.mem_cons_self)
      obtain ⟨hI2, he2⟩ := pmMany_ok hpm r _ (fun x hx => hl x (List.mem_cons_of_mem _ hx)) hI1 hb
      exact ⟨hI2, he1.trans he2⟩
    · simp only [hu, if_false] at hb ⊢
      exact pmMany_ok hpm r _ (fun x hx => hl x (List.mem_cons_of_mem _ hx)) hI hb

theorem modulesAbove_lt {proj : Project} {s : St} (hI : PdInv proj s) :
    ∀ (f i : Nat), ∀ m ∈ modulesAbove s.reg f i, m < proj.length
  | 0, _, m, h => by simp [modulesAbove] at h
  | f+1, i, m, h => by
    unfold modulesAbove at h
    split at h
    · split at h
      · rename_i par _ hm
        rcases List.mem_cons.1 h with h | h
        · subst h; exact module_obj hI hm
        · exact modulesAbove_lt hI f par m h
      · cases h
    · cases h

theorem gpmAbove_ok {proj : Project} {pm : St → Nat → St} (hpm : PmOk proj pm) {s : St} {t : Nat}
    (hI : PdInv proj s) (hb : (gpmAbove pm s t).bad = false) :
    PdInv proj (gpmAbove pm s t) ∧ Ext s (gpmAbove pm s t) := by
  unfold gpmAbove at hb ⊢
  split
  · rename_i hu
    simp only [hu, if_true] at hb
    unfold processAbove at hb ⊢
    exact pmMany_ok hpm _ _ (fun m hm => modulesAbove_lt hI _ _ m (List.mem_reverse.1 hm)) hI hb
  · exact ⟨hI, Ext.refl s⟩

theorem gpmOne_ok {proj : Project} {pm : St → Nat → St} (hpm : PmOk proj pm) {s : St} {t : Nat}
    (hI : PdInv proj s) (hlt : t < proj.length) (hb : (gpmOne pm s t).bad = false) :
    PdInv proj (gpmOne pm s t) ∧ Ext s (gpmOne pm s t) := by
  unfold gpmOne at hb ⊢
  simp only at hb ⊢
  obtain ⟨_, he⟩ := markBad_bad hb
  rw [he] at hb ⊢
  by_cases hu' : getPs s t = .unprocessed
  · simp only [hu', if_true] at hb ⊢
    exact ⟨(hpm.2 s t hb hI hlt).1, (hpm.2 s t hb hI hlt).2.1⟩
  · simp only [hu', if_false] at hb ⊢
    exact ⟨hI, Ext.refl s⟩

theorem gpm_ok {proj : Project} {pm : St → Nat → St} (hpm : PmOk proj pm) {s : St} {T : Path}
    (hI : PdInv proj s) (hb : (getProcessedModule pm s T).1.bad = false) :
    PdInv proj (getProcessedModule pm s T).1 ∧ Ext s (getProcessedModule pm s T).1 ∧
    ∀ t, (getProcessedModule pm s T).2 = some t → t < proj.length ∧ ∀ t', modIdx proj T = some t' → t = t' := by
  unfold getProcessedModule at hb ⊢
  cases hl : lookupModule s T with
  | mk r crash =>
    rw [hl] at hb
    cases r with
    | none =>
      simp only at hb ⊢
      obtain ⟨_, he⟩ := markBad_bad hb
      rw [he]
      exact ⟨hI, Ext.refl s, fun t ht => by cases ht⟩
    | some t =>
      simp only at hb ⊢
      obtain ⟨hlt, hu⟩ := lookupModule_spec hI hl
      have hrest : ∀ t0, some t = some t0 → t0 < proj.length ∧ ∀ t', modIdx proj T = some t' → t0 = t' :=
        fun t0 ht0 => by injection ht0 with ht0; subst ht0; exact ⟨hlt, hu⟩
      have hbA := gpmOne_bad hpm.1 hb
      have hin := gpmAbove_bad hpm.1 hbA
      obtain ⟨_, hin'⟩ := markBad_bad hin
      rw [hin'] at hb hbA ⊢
      obtain ⟨hIA, heA⟩ := gpmAbove_ok hpm hI hbA
      obtain ⟨hI1, he1⟩ := gpmOne_ok hpm hIA hlt hb
      exact ⟨hI1, heA.trans he1, hrest⟩

theorem importProcess_ok {proj : Project} {pm : St → Nat → St} (hpm : PmOk proj pm) {T : Path} {s : St}
    (hI : PdInv proj s) (hb : (importProcess pm T s).bad = false) :
    PdInv proj (importProcess pm T s) ∧ Ext s (importProcess pm T s) := by
  unfold importProcess at hb ⊢
  generalize prefixesOf T = l at hb ⊢
  induction l generalizing s with
  | nil => exact ⟨hI, Ext.refl s⟩
  | cons p r ih =>
    simp only [List.foldl_cons] at hb ⊢
    have hb1 : (getProcessedModule pm s p).1.bad = false := by
      have := importProcess_bad (T := []) hpm.1 (s := (getProcessedModule pm s p).1)
      clear this
      have hf : ∀ (l : List Path) (st : St), (l.foldl (fun st p => (getProcessedModule pm st p).1) st).bad = false →
          st.bad = false := by
        intro l
        induction l with
        | nil => intro st h; exact h
        | cons q r' ih' => intro st h; exact gpm_bad hpm.1 (ih' _ h)
      exact hf r _ hb
    obtain ⟨hI1, he1, _⟩ := gpm_ok hpm hI hb1
    obtain ⟨hI2, he2⟩ := ih hI1 hb
    exact ⟨hI2, he1.trans he2⟩

/-! ## one statement -/

theorem visitImport_ok {proj : Project} {rank : List Nat} (wf : WFacts proj rank) {s : St} (hI : PdInv proj s)
    {mod ctx : Nat} {S : Site} {full : List Stmt} (hc : Ctx proj s mod ctx S full) {t : Path} {a : Option Name}
    (hst : Stmt.importMod t a ∈ full) :
    PdInv proj (visitImport ctx t a s) ∧ Ext s (visitImport ctx t a s) ∧
    CompleteStmt (visitImport ctx t a s) ctx (.importMod t a) := by
  have hS := hc.static hI
  obtain ⟨o, ho, _⟩ := hc.clsc
  unfold visitImport
  cases a with
  | some x =>
    refine ⟨pdInv_setAlias wf hI hc.pathc hS (Jpd.importAs hc.body hst), setAlias_ext .., ?_⟩
    simp only [CompleteStmt, explicitNames, List.mem_singleton]
    intro y hy; subst hy; exact setAlias_entry ho
  | none =>
    cases t with
    | nil => exact ⟨hI, Ext.refl s, by simp [CompleteStmt, explicitNames]⟩
    | cons h r =>
      refine ⟨pdInv_setAlias wf hI hc.pathc hS (Jpd.importTop hc.body hst), setAlias_ext .., ?_⟩
      simp only [CompleteStmt, explicitNames, List.mem_singleton]
      intro y hy; subst hy; exact setAlias_entry ho

theorem hre_noop {s : St} {ctx : Nat} {ex : List Name} {o a : Name} {t : Nat} (h : ex.contains a = false) :
    handleReExport pm s ctx ex o a t = (s, false) := by
  unfold handleReExport
  have : (!ex.contains a) = true := by rw [h]; rfl
  simp only [this, if_true]

theorem starOne_bad_nil {pm : St → Nat → St} {ctx t : Nat} {s : St} {x : Name}
    (h : (starOne pm ctx t [] s x).bad = false) : s.bad = false := by
  unfold starOne at h
  rw [hre_noop (by simp)] at h
  simp only [Bool.false_eq_true, if_false] at h
  cases he : Names.expandName (envOf s) t [x] with
  | none => simp [he] at h
  | some p => simp only [he, setAlias_bad] at h; exact h

theorem isPkgObj_mod {proj : Project} {s : St} (hI : PdInv proj s) {m : Nat} (hm : m < proj.length) :
    isPkgObj s.reg m = isPkg proj m := by
  obtain ⟨o, ho, _, hc⟩ := hI.mods m hm
  unfold isPkgObj getObj
  simp only [ho, hc, modCls]
  cases isPkg proj m <;> simp

theorem absName_static {proj : Project} {s : St} (hI : PdInv proj s) {mod : Nat} (hm : mod < proj.length)
    {lvl : Nat} {M T : Path} (h : absName s mod lvl M = some T) : pdAbsName proj mod lvl M = some T := by
  obtain ⟨o, ho, hp, hc⟩ := hI.mods mod hm
  unfold absName at h; unfold pdAbsName
  by_cases hl : lvl = 0
  · simp only [hl, if_true] at h ⊢; exact h
  · simp only [hl, if_false, hp, isPkgObj_mod hI hm] at h ⊢; exact h

/-- the names the current module exports are names of its `__all__` assignments -/
theorem exports_sub {proj : Project} {s s1 : St} (hI1 : PdInv proj s1) {mod ctx : Nat} {S : Site} {full : List Stmt}
    (hc : Ctx proj s mod ctx S full) (he : Ext s s1) :
    ∀ x ∈ currentExports s1 ctx, S.2 = [] ∧ x ∈ allNames (bodyOf proj mod) := by
  intro x hx
  unfold currentExports at hx
  obtain ⟨o, ho, hcl⟩ := (hc.ext he).clsc
  have hmo : isModuleObj s1.reg ctx = isModuleCls o.cls := by simp [isModuleObj, getObj, ho]
  rw [hmo] at hx
  rcases hcl with ⟨hS2, hm⟩ | ⟨hS2, hm⟩
  · have hcm := hc.ctxmod hS2; subst hcm
    simp only [hm, if_true] at hx
    cases hg : getAll s1 ctx with
    | none => simp [hg] at hx
    | some l => simp only [hg, Option.getD_some] at hx; exact ⟨hS2, hI1.alls ctx l hg x hx⟩
  · simp [hm, isModuleCls] at hx

theorem absName_eq {proj : Project} {s : St} (hI : PdInv proj s) {mod : Nat} (hm : mod < proj.length)
    (lvl : Nat) (M : Path) : absName s mod lvl M = pdAbsName proj mod lvl M := by
  obtain ⟨o, ho, hp, hc⟩ := hI.mods mod hm
  unfold absName pdAbsName
  by_cases hl : lvl = 0
  · simp [hl]
  · simp only [hl, if_false, hp, isPkgObj_mod hI hm]; rfl

/-- under `WF` the level arithmetic never fails on a statement of the project -/
theorem pdAbs_some {proj : Project} {rank : List Nat} (wf : WFacts proj rank) {S : Site} {full : List Stmt}
    {st : Stmt} {lvl : Nat} {M : Path} (hb : siteBody proj S = some full) (hst : st ∈ full)
    (ht : target proj S.1 lvl M ∈ stmtTargets proj S.1 st) : ∃ T, pdAbsName proj S.1 lvl M = some T := by
  obtain ⟨t', ht', _⟩ := wf.targets hb hst _ ht
  obtain ⟨T', hT', _⟩ := target_spec ht'
  unfold pyAbsName at hT'; unfold pdAbsName
  by_cases hl : lvl = 0
  · simp [hl]
  · simp only [hl, if_false] at hT' ⊢
    rw [Names.relative_level _ _ _ (by omega)]
    cases hr : Names.pythonRelativeBase (pathOf proj S.1) (isPkg proj S.1) lvl with
    | none => simp [hr] at hT'
    | some b => exact ⟨_, rfl⟩

theorem visitImportFrom_ok {proj : Project} {rank : List Nat} (wf : WFacts proj rank) (nr : NoReexpFacts proj) {pm : St → Nat → St}
    (hpm : PmOk proj pm) {s : St} (hI : PdInv proj s) {mod ctx : Nat} {S : Site} {full : List Stmt}
    (hc : Ctx proj s mod ctx S full) {lvl : Nat} {M : Path} {n : Name} {a : Option Name}
    (hst : Stmt.importFrom lvl M n a ∈ full) (hb : (visitImportFrom pm mod ctx lvl M n a s).bad = false) :
    PdInv proj (visitImportFrom pm mod ctx lvl M n a s) ∧ Ext s (visitImportFrom pm mod ctx lvl M n a s) ∧
    CompleteStmt (visitImportFrom pm mod ctx lvl M n a s) ctx (.importFrom lvl M n a) := by
  have hS := hc.static hI
  have hS1 := hc.hS1
  obtain ⟨T, hT⟩ := pdAbs_some (lvl := lvl) (M := M) wf hc.body hst (by simp [stmtTargets])
  rw [hS1] at hT
  have hT' : absName s mod lvl M = some T := by rw [absName_eq hI hc.hmod]; exact hT
  unfold visitImportFrom at hb ⊢
  simp only [hT'] at hb ⊢
  have hjust : Jpd proj S (a.getD n) (T ++ [n]) := Jpd.from hc.body hst (by rw [hS1]; exact hT)
  cases ht : (getProcessedModule pm s T).2 with
  | none =>
    simp only [ht] at hb ⊢
    rw [setAlias_bad] at hb
    obtain ⟨hI1, he1, _⟩ := gpm_ok hpm hI hb
    have hc1 := hc.ext he1
    obtain ⟨o, ho, _⟩ := hc1.clsc
    exact ⟨pdInv_setAlias wf hI1 hc1.pathc hS hjust, he1.trans (setAlias_ext ..), by
      simp only [CompleteStmt]; exact setAlias_entry ho⟩
  | some t =>
    simp only [ht] at hb ⊢
    generalize hs2 : (if isPkgObj (getProcessedModule pm s T).1.reg t = true then
        (getProcessedModule pm (getProcessedModule pm s T).1 (T ++ [n])).1 else (getProcessedModule pm s T).1) = s2 at hb ⊢
    have hb2 : s2.bad = false := by
      by_cases hh : (handleReExport pm s2 ctx (currentExports (getProcessedModule pm s T).1 ctx) n (a.getD n) t).2 = true
      · simp only [hh, if_true] at hb; exact hre_bad hpm.1 hb
      · simp only [hh, Bool.false_eq_true, if_false] at hb; rw [setAlias_bad] at hb; exact hre_bad hpm.1 hb
    have hb1 : (getProcessedModule pm s T).1.bad = false := by
      rw [← hs2] at hb2
      split at hb2
      · exact gpm_bad hpm.1 hb2
      · exact hb2
    obtain ⟨hI1, he1, _⟩ := gpm_ok hpm hI hb1
    have h2 : PdInv proj s2 ∧ Ext s s2 := by
      rw [← hs2] at hb2 ⊢
      by_cases hpk : isPkgObj (getProcessedModule pm s T).1.reg t = true
      · simp only [hpk, if_true] at hb2 ⊢
        obtain ⟨hI2, he2, _⟩ := gpm_ok hpm hI1 hb2
        exact ⟨hI2, he1.trans he2⟩
      · simp only [hpk, if_false] at hb2 ⊢
        exact ⟨hI1, he1⟩
    obtain ⟨hI2, he2⟩ := h2
    have hnox : (currentExports (getProcessedModule pm s T).1 ctx).contains (a.getD n) = false := by
      cases hcx : (currentExports (getProcessedModule pm s T).1 ctx).contains (a.getD n) with
      | false => rfl
      | true =>
        exfalso
        have hmem : a.getD n ∈ currentExports (getProcessedModule pm s T).1 ctx := by simpa using hcx
        obtain ⟨hS2, hall⟩ := exports_sub hI1 hc he1 _ hmem
        obtain ⟨m, cp⟩ := S
        simp only at hS2 hS1; subst hS2; subst hS1
        exact nr.noreexpFrom hc.body hst hall
    rw [hre_noop hnox] at hb ⊢
    simp only [Bool.false_eq_true, if_false] at hb ⊢
    have hc2 := hc.ext he2
    obtain ⟨o, ho, _⟩ := hc2.clsc
    exact ⟨pdInv_setAlias wf hI2 hc2.pathc hS hjust, he2.trans (setAlias_ext ..), by
      simp only [CompleteStmt]; exact setAlias_entry ho⟩

theorem localName_module {e : Names.Env} {t : Nat} {o : Obj} (ho : getObj e.st t = some o)
    (hm : isModuleCls o.cls = true) (x : Name) :
    Names.localName e (Names.fuelOf e) t x =
      match dget o.contents x with
      | some c => path e.st c
      | none => match dget o.aliases x with
        | some tg => some tg
        | none => some [x] := by
  unfold Names.fuelOf
  rw [Names.localName.eq_def]
  simp only [ho]
  cases hc : o.cls <;> simp_all [isModuleCls] <;> rfl

theorem dget_ne_none_of_key {κ ν : Type} [DecidableEq κ] : ∀ {l : List (κ × ν)} {x : κ}, x ∈ l.map (·.1) → dget l x ≠ none
  | [], _, h => by cases h
  | (k, v) :: l, x, h => by
    simp only [dget]
    split
    · simp
    · rename_i hne
      simp only [List.map_cons, List.mem_cons] at h
      rcases h with h | h
      · exact absurd h.symm hne
      · exact dget_ne_none_of_key h

/-- the qualified name of an entry of `contents` -/
theorem path_child {s : State} (hI : Inv s) {p c : Nat} {po : Obj} {x : Name} {pp : Path}
    (hpo : s.objs[p]? = some po) (hd : dget po.contents x = some c) (hp : path s p = some pp) :
    path s c = some (pp ++ [x]) := by
  obtain ⟨co, hco, hcp, hcn⟩ := hI.tree.coh p po x c hpo (mem_of_dget hd)
  obtain ⟨k0, hk0⟩ := hI.full c (List.getElem?_eq_some_iff.1 hco).1
  have h1 := hI.reg.keys k0 c hk0
  have hch : HasPath s.objs c (pp ++ [x]) := by rw [← hcn]; exact .child hco hcp (path_sound hp)
  rw [h1, (path_sound h1).func hch]

theorem starOne_ok {proj : Project} {rank : List Nat} (wf : WFacts proj rank) {s : St} (hI : PdInv proj s)
    {mod ctx : Nat} {S : Site} {full : List Stmt} (hc : Ctx proj s mod ctx S full) {lvl : Nat} {M T : Path}
    (hst : Stmt.importStar lvl M ∈ full) (hT : pdAbsName proj S.1 lvl M = some T) {t : Nat} (ht : t < proj.length)
    (hu : ∀ t', modIdx proj T = some t' → t = t') {x : Name}
    (hx : starOk proj t x ∧ (x ∈ allNames (bodyOf proj t) ∨ HasEntry s t x))
    (hb : (starOne pm ctx t [] s x).bad = false) :
    PdInv proj (starOne pm ctx t [] s x) ∧ Ext s (starOne pm ctx t [] s x) := by
  have hS := hc.static hI
  unfold starOne at hb ⊢
  rw [hre_noop (by simp)] at hb ⊢
  simp only [Bool.false_eq_true, if_false] at hb ⊢
  obtain ⟨o, ho, hpt, hcl⟩ := hI.mods t ht
  have hmo : isModuleCls o.cls = true := by rw [hcl, modCls]; split <;> rfl
  have hl := localName_module (e := envOf s) (t := t) (o := o) ho hmo x
  rw [Names.expand_single_local, hl] at hb ⊢
  cases hdc : dget o.contents x with
  | some c =>
    simp only [hdc] at hb ⊢
    have hpc := path_child hI.reg ho hdc hpt
    have hpc' : path (envOf s).st c = some (pathOf proj t ++ [x]) := hpc
    rw [hpc'] at hb ⊢
    simp only at hb ⊢
    exact ⟨pdInv_setAlias wf hI hc.pathc hS
      (Jpd.starChild hc.body hst hT hu hx.1 (hI.cont t o ht ho x c hdc)), setAlias_ext ..⟩
  | none =>
    simp only [hdc] at hb ⊢
    cases hda : dget o.aliases x with
    | some tg =>
      simp only [hda] at hb ⊢
      have hj : Jpd proj (t, []) x tg :=
        hI.alias t o (t, []) ho (by simpa [sitePath] using hpt) ⟨ht, Or.inl rfl⟩ x tg hda
      exact ⟨pdInv_setAlias wf hI hc.pathc hS (Jpd.starAlias hc.body hst hT hu hx.1 hj), setAlias_ext ..⟩
    | none =>
      simp only [hda] at hb ⊢
      have hxa : x ∈ allNames (bodyOf proj t) := by
        rcases hx.2 with h | ⟨o', ho', he⟩
        · exact h
        · rw [ho] at ho'; injection ho' with ho'; subst ho'
          rcases he with he | he
          · exact absurd hdc he
          · exact absurd hda he
      exact ⟨pdInv_setAlias wf hI hc.pathc hS (Jpd.starNone hc.body hst hT hu hxa), setAlias_ext ..⟩

theorem starFold_ok {proj : Project} {rank : List Nat} (wf : WFacts proj rank)
    {mod ctx : Nat} {S : Site} {full : List Stmt} {lvl : Nat} {M T : Path}
    (hst : Stmt.importStar lvl M ∈ full) (hT : pdAbsName proj S.1 lvl M = some T) {t : Nat} (ht : t < proj.length)
    (hu : ∀ t', modIdx proj T = some t' → t = t') :
    ∀ (l : List Name) (s : St), PdInv proj s → Ctx proj s mod ctx S full →
      (∀ x ∈ l, starOk proj t x ∧ (x ∈ allNames (bodyOf proj t) ∨ HasEntry s t x)) →
      (l.foldl (starOne pm ctx t []) s).bad = false →
      PdInv proj (l.foldl (starOne pm ctx t []) s) ∧ Ext s (l.foldl (starOne pm ctx t []) s)
  | [], s, hI, _, _, _ => ⟨hI, Ext.refl s⟩
  | x :: xs, s, hI, hc, hx, hb => by
    simp only [List.foldl_cons] at hb ⊢
    have hb1 := foldl_bad (fun s x => starOne_bad_nil) xs _ hb
    obtain ⟨hI1, he1⟩ := starOne_ok wf hI hc hst hT ht hu (hx x (List.mem_cons_self ..)) hb1
    have hx' : ∀ y ∈ xs, starOk proj t y ∧ (y ∈ allNames (bodyOf proj t) ∨ HasEntry (starOne pm ctx t [] s x) t y) := by
      intro y hy
      obtain ⟨h1, h2⟩ := hx y (List.mem_cons_of_mem _ hy)
      exact ⟨h1, h2.imp id (fun h => h.ext he1)⟩
    obtain ⟨hI2, he2⟩ := starFold_ok wf hst hT ht hu xs _ hI1 (hc.ext he1) hx' hb
    exact ⟨hI2, he1.trans he2⟩

theorem visitImportStar_ok {proj : Project} {rank : List Nat} (wf : WFacts proj rank) (nr : NoReexpFacts proj) {pm : St → Nat → St}
    (hpm : PmOk proj pm) {s : St} (hI : PdInv proj s) {mod ctx : Nat} {S : Site} {full : List Stmt}
    (hc : Ctx proj s mod ctx S full) {lvl : Nat} {M : Path}
    (hst : Stmt.importStar lvl M ∈ full) (hb : (visitImportStar pm mod ctx lvl M s).bad = false) :
    PdInv proj (visitImportStar pm mod ctx lvl M s) ∧ Ext s (visitImportStar pm mod ctx lvl M s) := by
  have hS1 := hc.hS1
  obtain ⟨T, hT⟩ := pdAbs_some (lvl := lvl) (M := M) wf hc.body hst (by simp [stmtTargets])
  have hT' : absName s mod lvl M = some T := by rw [absName_eq hI hc.hmod, ← hS1]; exact hT
  unfold visitImportStar at hb ⊢
  simp only [hT'] at hb ⊢
  cases ht : (getProcessedModule pm s T).2 with
  | none =>
    simp only [ht] at hb ⊢
    obtain ⟨hI1, he1, _⟩ := gpm_ok hpm hI hb
    exact ⟨hI1, he1⟩
  | some t =>
    simp only [ht] at hb ⊢
    have hb1 := foldl_bad (fun s x => starOne_bad hpm.1) _ _ hb
    obtain ⟨hI1, he1, hsp⟩ := gpm_ok hpm hI hb1
    obtain ⟨htl, hu⟩ := hsp t ht
    -- nothing is exported: a module with star imports has no `__all__`
    have hex : currentExports (getProcessedModule pm s T).1 ctx = [] := by
      cases hce : currentExports (getProcessedModule pm s T).1 ctx with
      | nil => rfl
      | cons y ys =>
        exfalso
        obtain ⟨hS2, hall⟩ := exports_sub hI1 hc he1 y (by rw [hce]; exact List.mem_cons_self ..)
        obtain ⟨m, cp⟩ := S
        simp only at hS2 hS1; subst hS2; subst hS1
        rw [nr.noreexpStar hc.body hst] at hall; cases hall
    rw [hex] at hb ⊢
    have hnames : ∀ x ∈ starNames (getProcessedModule pm s T).1 t,
        starOk proj t x ∧ (x ∈ allNames (bodyOf proj t) ∨ HasEntry (getProcessedModule pm s T).1 t x) := by
      intro x hx
      unfold starNames at hx
      cases hg : getAll (getProcessedModule pm s T).1 t with
      | some l =>
        simp only [hg] at hx
        have := hI1.alls t l hg x hx
        exact ⟨Or.inl this, Or.inl this⟩
      | none =>
        simp only [hg] at hx
        obtain ⟨o, ho, _, _⟩ := hI1.mods t htl
        have ho' : getObj (getProcessedModule pm s T).1.reg t = some o := ho
        simp only [ho', List.mem_filter, List.mem_append] at hx
        refine ⟨Or.inr (by simpa [isPublic] using hx.2), Or.inr ⟨o, ho, ?_⟩⟩
        rcases hx.1 with h | h
        · exact Or.inl (dget_ne_none_of_key h)
        · exact Or.inr (dget_ne_none_of_key h)
    obtain ⟨hI2, he2⟩ := starFold_ok wf hst hT htl hu _ _ hI1 (hc.ext he1) hnames hb
    exact ⟨hI2, he1.trans he2⟩

/-! ## definitions: `def`, `x = <const>`, `class` -/

theorem dget_map_key {α β : Type} (g : Nat → β) : ∀ (l : List (Nat × α)) (c : Nat) (v : β),
    dget (l.map fun e => (e.1, g e.1)) c = some v → v = g c
  | [], _, _, h => by simp [dget] at h
  | (k, _) :: l, c, v, h => by
    simp only [List.map_cons, dget] at h
    split at h
    · rename_i hk; subst hk; injection h with h; exact h.symm
    · exact dget_map_key g l c v h

/-- names are globally unique: an entry called `n` of ANY object — what `Class.find` returns — is the entry
of the scope whose body defines `n` -/
theorem found_is_own {proj : Project} {rank : List Nat} (wf : WFacts proj rank) {s : St} (hI : PdInv proj s)
    {mod ctx : Nat} {S : Site} {full : List Stmt} (hc : Ctx proj s mod ctx S full) {st : Stmt} {n : Name}
    (hst : st ∈ full) (hd : st.defName = some n) {o : Obj} (ho : s.reg.objs[ctx]? = some o)
    {e : Names.Env} (he : e.st = s.reg) {c0 o' : Nat} (hcf : Names.classFind e c0 n = some o') :
    dget o.contents n = some o' := by
  unfold Names.classFind at hcf
  obtain ⟨b, _, hb⟩ := List.exists_of_findSome?_eq_some hcf
  cases hgb : getObj e.st b with
  | none => simp [hgb] at hb
  | some bo =>
    simp only [hgb] at hb
    have hbo : s.reg.objs[b]? = some bo := by rw [← he]; exact hgb
    have hbl := (List.getElem?_eq_some_iff.1 hbo).1
    obtain ⟨kb, hkb⟩ := hI.reg.full b hbl
    have hpb := hI.reg.reg.keys kb b hkb
    have hpo' := path_child hI.reg hbo hb hpb
    obtain ⟨oo', hoo'⟩ : ∃ oo', s.reg.objs[o']? = some oo' := ⟨s.reg.objs[o']'(path_lt hpo'), by simp [path_lt hpo']⟩
    obtain ⟨So, hko, hpso⟩ := hI.site o' oo' hoo'
    have hSt := hc.static hI
    have hplus : StaticSite proj (S.1, S.2 ++ [n]) :=
      ⟨hSt.1, Or.inr ⟨S.2, n, full, st, rfl, hc.body, hst, hd⟩⟩
    have hso : So = (S.1, S.2 ++ [n]) := by
      refine site_unique_last wf hko.static hplus ?_
      rw [hpo'] at hpso; injection hpso with hpso
      rw [← hpso]; simp [sitePath]
    subst hso
    have hpo2 : path s.reg o' = some (sitePath proj S ++ [n]) := by
      rw [hpso]; simp [sitePath]
    have hreg := dget_of_path hI.reg hpo2
    have hne : sitePath proj S ≠ [] := by
      have := (wf.parentOk S.1 hSt.1).1
      simp [sitePath, this]
    cases hdc : dget o.contents n with
    | some c =>
      have hpc := path_child hI.reg ho hdc hc.pathc
      have := dget_of_path hI.reg hpc
      rw [hreg] at this; injection this with this; rw [this]
    | none =>
      exfalso
      -- registered below the scope but not listed in its contents: impossible
      have hmem := mem_of_dget hreg
      have hpj := hI.reg.reg.hasPath hmem
      cases hpar : oo'.parent with
      | none =>
        have := hpj.root_inv hoo' hpar
        have hl := congrArg List.length this
        simp only [List.length_append, List.length_singleton, List.length_cons, List.length_nil] at hl
        exact hne (List.eq_nil_of_length_eq_zero (by omega))
      | some q =>
        obtain ⟨pq, hq, hee⟩ := hpj.child_inv hoo' hpar
        obtain ⟨e1, e2⟩ := List.append_inj' hee (by simp)
        simp only [List.cons.injEq, and_true] at e2
        subst e1
        have hqreg := hI.reg.reg.up o' _ q ⟨_, hmem⟩ hoo' hpar
        have hqc : q = ctx := hI.reg.reg.inj (mem_of_path hI.reg hc.pathc) hqreg hq
        subst hqc
        obtain ⟨_, l2⟩ := hI.reg.tree.listed o' _ hoo'
        obtain ⟨po, hpo, hl⟩ := l2 q hpar
        rw [ho] at hpo; injection hpo with hpo; subst hpo
        rcases hl with hl | hl
        · rw [← e2, hdc] at hl; cases hl
        · rw [← e2, wf.namesOk hc.body hst hd] at hl; cases hl

theorem visitFunc_ok {proj : Project} {rank : List Nat} (wf : WFacts proj rank) {s : St} (hI : PdInv proj s)
    {mod ctx : Nat} {S : Site} {full : List Stmt} (hc : Ctx proj s mod ctx S full) {n : Name}
    (hst : Stmt.funcDef n ∈ full) (hb : (addObj s .function n ctx).bad = false) :
    PdInv proj (addObj s .function n ctx) ∧ Ext s (addObj s .function n ctx) ∧
    CompleteStmt (addObj s .function n ctx) ctx (.funcDef n) := by
  have hps : getPs s S.1 ≠ .unprocessed := by rw [hc.hS1, hc.ps]; simp
  obtain ⟨h1, h2, _, _, _, ⟨po, hpo, hd⟩, _⟩ :=
    pdInv_addObj wf hI hb hc.pathc hc.body hst (st := .funcDef n) rfl hps (hc.static hI)
  exact ⟨h1, h2, by simp only [CompleteStmt]; exact ⟨po, _, hpo, hd⟩⟩

theorem visitAssign_ok {proj : Project} {rank : List Nat} (wf : WFacts proj rank) {s : St} (hI : PdInv proj s)
    {mod ctx : Nat} {S : Site} {full : List Stmt} (hc : Ctx proj s mod ctx S full) {n : Name} {v : Nat}
    (hst : Stmt.assign n v ∈ full) (hb : (visitAssign ctx n s).bad = false) :
    PdInv proj (visitAssign ctx n s) ∧ Ext s (visitAssign ctx n s) ∧
    CompleteStmt (visitAssign ctx n s) ctx (.assign n v) := by
  have hps : getPs s S.1 ≠ .unprocessed := by rw [hc.hS1, hc.ps]; simp
  obtain ⟨o, ho, _⟩ := hc.clsc
  have hgo : getObj s.reg ctx = some o := ho
  have hadd : (addObj s .attribute n ctx).bad = false →
      PdInv proj (addObj s .attribute n ctx) ∧ Ext s (addObj s .attribute n ctx) ∧
      CompleteStmt (addObj s .attribute n ctx) ctx (.assign n v) := by
    intro hb'
    obtain ⟨h1, h2, _, _, _, ⟨po, hpo, hd⟩, _⟩ :=
      pdInv_addObj wf hI hb' hc.pathc hc.body hst (st := .assign n v) rfl hps (hc.static hI)
    exact ⟨h1, h2, by simp only [CompleteStmt]; exact ⟨po, _, hpo, hd⟩⟩
  have hhas : dhas o.contents n = true → CompleteStmt s ctx (.assign n v) := by
    intro h
    simp only [CompleteStmt]
    unfold dhas at h
    cases hd : dget o.contents n with
    | none => simp [hd] at h
    | some c => exact ⟨o, c, ho, hd⟩
  unfold visitAssign at hb ⊢
  simp only [hgo] at hb ⊢
  by_cases hm : isModuleCls o.cls = true
  · simp only [hm, if_true] at hb ⊢
    by_cases hd : dhas o.contents n = true
    · simp only [hd, if_true] at hb ⊢; exact ⟨hI, Ext.refl s, hhas hd⟩
    · simp only [hd] at hb ⊢; exact hadd hb
  · simp only [hm] at hb ⊢
    by_cases hd : dhas o.contents n = true
    · simp only [hd, Bool.and_true, if_true, ite_self] at hb ⊢; exact ⟨hI, Ext.refl s, hhas hd⟩
    · have hd' : dhas o.contents n = false := by simpa using hd
      simp only [hd', Bool.and_false, Bool.false_eq_true, if_false] at hb ⊢; exact hadd hb

theorem findClass_some : ∀ {full : List Stmt} {n : Name} {bs : List Path} {body : List Stmt},
    Stmt.classDef n bs body ∈ full → ∃ b', findClass full n = some b'
  | [], _, _, _, h => by cases h
  | st :: rest, n, bs, body, h => by
    rcases List.mem_cons.1 h with rfl | h'
    · exact ⟨body, by simp [findClass]⟩
    · obtain ⟨b', hb'⟩ := findClass_some h'
      cases st with
      | classDef n2 bs2 body2 =>
        simp only [findClass]
        split
        · exact ⟨_, rfl⟩
        · exact ⟨b', hb'⟩
      | _ => exact ⟨b', by simpa [findClass] using hb'⟩

/-- the class statement of a scope that is named `n` is the one `findClass` sees -/
theorem findClass_of_mem {proj : Project} {rank : List Nat} (wf : WFacts proj rank) {S : Site} {full : List Stmt}
    {n : Name} {bs : List Path} {body : List Stmt} (hb : siteBody proj S = some full)
    (hst : Stmt.classDef n bs body ∈ full) : findClass full n = some body := by
  obtain ⟨b', hf⟩ := findClass_some hst
  obtain ⟨bs', hm'⟩ := findClass_mem hf
  have := same_stmt wf hb hst hm' (x := n) (stmtNames_of_explicit (by simp [explicitNames]))
    (stmtNames_of_explicit (by simp [explicitNames]))
  injection this with _ _ h3
  rw [hf, h3]

theorem enterClass_ok {proj : Project} {rank : List Nat} (wf : WFacts proj rank) {s : St} (hI : PdInv proj s)
    {mod ctx : Nat} {S : Site} {full : List Stmt} (hc : Ctx proj s mod ctx S full) {n : Name} {bs : List Path}
    {body : List Stmt} (hst : Stmt.classDef n bs body ∈ full) (hb : (enterClass ctx n bs s).bad = false) :
    PdInv proj (enterClass ctx n bs s) ∧ Ext s (enterClass ctx n bs s) ∧
    Ctx proj (enterClass ctx n bs s) mod s.reg.objs.length (S.1, S.2 ++ [n]) body ∧
    (∃ po, (enterClass ctx n bs s).reg.objs[ctx]? = some po ∧ dget po.contents n = some s.reg.objs.length) := by
  have hps : getPs s S.1 ≠ .unprocessed := by rw [hc.hS1, hc.ps]; simp
  have hb1 := enterClass_bad hb
  obtain ⟨h1, h2, hlen, hnew, hpn, ⟨po, hpo, hd⟩, hps', hal', hci'⟩ :=
    pdInv_addObj wf hI hb1 hc.pathc hc.body hst (st := .classDef n bs body) rfl hps (hc.static hI)
  -- the class information recorded for the second pass does not matter here
  obtain ⟨ci, he, hci⟩ : ∃ ci : List (Nat × ClsInfo), enterClass ctx n bs s = { addObj s .cls n ctx with cinfo := ci } ∧
      ∀ e ∈ ci, e ∈ (addObj s .cls n ctx).cinfo ∨ ∀ b, some b ∈ e.2.objs → isClassObj s.reg b = true := by
    unfold enterClass at hb ⊢
    simp only at hb ⊢
    obtain ⟨_, hmb⟩ := markBad_bad hb
    refine ⟨_, hmb, ?_⟩
    intro e hm
    rcases List.mem_append.1 hm with hm | hm
    · exact Or.inl hm
    · right
      simp only [List.mem_singleton] at hm; subst hm
      intro b hbm
      simp only [List.mem_map] at hbm
      obtain ⟨x, ⟨bp, _, rfl⟩, hx⟩ := hbm
      cases hxe : Names.expandName (envOf s) ctx bp with
      | none => simp [hxe] at hx
      | some p =>
        simp only [hxe] at hx
        cases hof : Names.objFor (envOf s) p with
        | none => simp [hof] at hx
        | some o =>
          simp only [hof] at hx
          by_cases hcl : isClassObj s.reg o = true
          · simp only [hcl, if_true, Option.some.injEq] at hx; subst hx; exact hcl
          · simp [hcl] at hx
  have hcb2 : CBase { addObj s .cls n ctx with cinfo := ci } := by
    intro e hm b hbm
    rcases hci e hm with hold | hnewc
    · exact h1.cbase e hold b hbm
    · have hcl := hnewc b hbm
      unfold isClassObj at hcl
      cases hg : getObj s.reg b with
      | none => simp [hg] at hcl
      | some o =>
        simp only [hg, beq_iff_eq] at hcl
        obtain ⟨o', ho', hc', _⟩ := h2.objs b o hg
        exact ⟨o', ho', hc'.trans hcl⟩
  clear hci
  rw [he]
  generalize addObj s .cls n ctx = s1 at *
  have hext1 : Ext s1 { s1 with cinfo := ci } :=
    ⟨fun i o h => ⟨o, h, rfl, fun _ _ h => h, fun _ h => h⟩, fun _ _ h => h, fun t => ⟨id, id, fun h => by
      show getPs s1 t ≠ _; rw [h]; simp⟩⟩
  have hI2 : PdInv proj { s1 with cinfo := ci } :=
    { reg := h1.reg, cbase := hcb2, lens := h1.lens, mods := h1.mods, site := h1.site, alias := h1.alias, cont := h1.cont,
      alls := h1.alls, started := h1.started,
      complete := fun m md hm hp => CompleteStmts.ext hext1 _ (h1.complete m md hm hp) }
  refine ⟨hI2, h2.trans hext1, ?_, ⟨po, hpo, hd⟩⟩
  have hc1 := hc.ext h2
  exact
    { hmod := hc.hmod, hS1 := hc.hS1,
      body := siteBody_snoc hc.body (findClass_of_mem wf hc.body hst),
      pathc := hpn,
      clsc := ⟨_, hnew, Or.inr ⟨by simp, rfl⟩⟩,
      ctxmod := fun h => by simp at h,
      ps := hc1.ps }

/-! ## a body -/

mutual
theorem visitStmt_ok {proj : Project} {rank : List Nat} (wf : WFacts proj rank) (nr : NoReexpFacts proj) {pm : St → Nat → St}
    (hpm : PmOk proj pm) {mod : Nat} :
    ∀ (st : Stmt) (ctx : Nat) (s : St) (S : Site) (full : List Stmt), PdInv proj s → Ctx proj s mod ctx S full →
      st ∈ full → (visitStmt pm mod ctx st s).bad = false →
      PdInv proj (visitStmt pm mod ctx st s) ∧ Ext s (visitStmt pm mod ctx st s) ∧
      CompleteStmt (visitStmt pm mod ctx st s) ctx st
  | .importMod t a, ctx, s, S, full, hI, hc, hst, hb => by
    simp only [visitStmt] at hb ⊢
    obtain ⟨hI0, he0⟩ := importProcess_ok hpm hI (visitImport_bad hb)
    obtain ⟨h1, h2, h3⟩ := visitImport_ok wf hI0 (hc.ext he0) hst
    exact ⟨h1, he0.trans h2, h3⟩
  | .importFrom lvl M n a, ctx, s, S, full, hI, hc, hst, hb => by
    simp only [visitStmt] at hb ⊢; exact visitImportFrom_ok wf nr hpm hI hc hst hb
  | .importStar lvl M, ctx, s, S, full, hI, hc, hst, hb => by
    simp only [visitStmt] at hb ⊢
    obtain ⟨h1, h2⟩ := visitImportStar_ok wf nr hpm hI hc hst hb
    exact ⟨h1, h2, by simp [CompleteStmt]⟩
  | .classDef n bs body, ctx, s, S, full, hI, hc, hst, hb => by
    simp only [visitStmt] at hb ⊢
    have hb1 := visitStmts_bad hpm.1 body _ _ hb
    obtain ⟨hI1, he1, hc1, ⟨po, hpo, hd⟩⟩ := enterClass_ok wf hI hc hst hb1
    obtain ⟨hI2, he2, hcomp⟩ := visitStmts_ok wf nr hpm body _ _ _ body hI1 hc1 (fun _ h => h) hb
    refine ⟨hI2, he1.trans he2, ?_⟩
    simp only [CompleteStmt]
    obtain ⟨po', hpo', _, hcc, _⟩ := he2.objs ctx po hpo
    obtain ⟨o1, ho1, hcl⟩ := hc1.clsc
    obtain ⟨o2, ho2, hcl2, _, _⟩ := he2.objs _ o1 ho1
    refine ⟨s.reg.objs.length, o2, po', hpo', hcc n _ hd, ho2, ?_, hcomp⟩
    rcases hcl with ⟨h0, _⟩ | ⟨_, h0⟩
    · simp at h0
    · rw [hcl2, h0]
  | .funcDef n, ctx, s, S, full, hI, hc, hst, hb => by
    simp only [visitStmt] at hb ⊢; exact visitFunc_ok wf hI hc hst hb
  | .assign n v, ctx, s, S, full, hI, hc, hst, hb => by
    simp only [visitStmt] at hb ⊢; exact visitAssign_ok wf hI hc hst hb
  | .allAssign l, ctx, s, S, full, hI, _, _, _ => by
    simp only [visitStmt]; exact ⟨hI, Ext.refl s, by simp [CompleteStmt]⟩
theorem visitStmts_ok {proj : Project} {rank : List Nat} (wf : WFacts proj rank) (nr : NoReexpFacts proj) {pm : St → Nat → St}
    (hpm : PmOk proj pm) {mod : Nat} :
    ∀ (sts : List Stmt) (ctx : Nat) (s : St) (S : Site) (full : List Stmt), PdInv proj s → Ctx proj s mod ctx S full →
      (∀ st ∈ sts, st ∈ full) → (visitStmts pm mod ctx sts s).bad = false →
      PdInv proj (visitStmts pm mod ctx sts s) ∧ Ext s (visitStmts pm mod ctx sts s) ∧
      CompleteStmts (visitStmts pm mod ctx sts s) ctx sts
  | [], ctx, s, S, full, hI, _, _, _ => by
    simp only [visitStmts]; exact ⟨hI, Ext.refl s, by simp [CompleteStmts]⟩
  | st :: rest, ctx, s, S, full, hI, hc, hsub, hb => by
    simp only [visitStmts] at hb ⊢
    have hb1 := visitStmts_bad hpm.1 rest _ _ hb
    obtain ⟨hI1, he1, hc1⟩ := visitStmt_ok wf nr hpm st ctx s S full hI hc (hsub st (List.mem_cons_self ..)) hb1
    obtain ⟨hI2, he2, hc2⟩ := visitStmts_ok wf nr hpm rest ctx _ S full hI1 (hc.ext he1)
      (fun x hx => hsub x (List.mem_cons_of_mem _ hx)) hb
    exact ⟨hI2, he1.trans he2, by simp only [CompleteStmts]; exact ⟨CompleteStmt.ext he2 st hc1, hc2⟩⟩
end

/-! ## a module; the whole run -/

theorem getPs_set {s : St} {m : Nat} {v : PState} (hm : m < s.ps.length) (t : Nat) :
    getPs { s with ps := s.ps.set m v } t = if t = m then v else getPs s t := by
  unfold getPs
  simp only [List.getD_eq_getElem?_getD, List.getElem?_set]
  by_cases h : m = t
  · subst h; simp [hm]
  · simp [h, Ne.symm h]

theorem getAll_set {s : St} {m : Nat} {v : Option (List Name)} (hm : m < s.alls.length) (t : Nat) :
    getAll { s with alls := s.alls.set m v } t = if t = m then v else getAll s t := by
  unfold getAll
  simp only [List.getD_eq_getElem?_getD, List.getElem?_set]
  by_cases h : m = t
  · subst h; simp [hm]
  · simp [h, Ne.symm h]

theorem lastAll_sub : ∀ (body : List Stmt) (l : List Name), lastAll body = some l → ∀ x ∈ l, x ∈ allNames body
  | [], _, h, _, _ => by simp [lastAll] at h
  | st :: rest, l, h, x, hx => by
    cases st with
    | allAssign l0 =>
      simp only [lastAll] at h
      simp only [allNames, List.mem_append]
      cases hr : lastAll rest with
      | none => simp only [hr, Option.some.injEq] at h; subst h; exact Or.inl hx
      | some l' => simp only [hr, Option.some.injEq] at h; subst h; exact Or.inr (lastAll_sub rest _ hr x hx)
    | _ => simp only [lastAll, allNames] at h ⊢; exact lastAll_sub rest l h x hx

theorem processModule_ok {proj : Project} {rank : List Nat} (wf : WFacts proj rank) (nr : NoReexpFacts proj) :
    ∀ f, PmOk proj (processModule proj f)
  | 0 => ⟨processModule_sticky proj 0, fun s t h => by simp [processModule] at h⟩
  | f+1 => by
    refine ⟨processModule_sticky proj (f+1), ?_⟩
    intro s m hb hI hm
    have ih := processModule_ok wf nr f
    simp only [processModule] at hb ⊢
    by_cases hu : getPs s m = .unprocessed
    · have hne : ¬ (getPs s m ≠ .unprocessed) := by simp [hu]
      simp only [hne, if_false] at hb ⊢
      have hmd : proj[m]? = some proj[m] := by simp [hm]
      simp only [hmd] at hb ⊢
      have hmps : m < s.ps.length := by rw [hI.lens.1]; exact hm
      have hmal : m < s.alls.length := by rw [hI.lens.2]; exact hm
      -- the state in which the body is visited
      generalize hs2 : ({ s with ps := s.ps.set m .processing, alls := s.alls.set m (lastAll proj[m].body) } : St) = s2 at hb ⊢
      have hreg2 : s2.reg = s.reg := by rw [← hs2]
      have hps2 : ∀ t, getPs s2 t = if t = m then .processing else getPs s t := by
        intro t; rw [← hs2]; exact getPs_set (s := { s with alls := _ }) hmps t
      have hal2 : ∀ t, getAll s2 t = if t = m then lastAll proj[m].body else getAll s t := by
        intro t; rw [← hs2]; exact getAll_set (s := { s with ps := _ }) hmal t
      have hbody : bodyOf proj m = proj[m].body := bodyOf_eq hmd
      have hI2 : PdInv proj s2 :=
        { reg := hreg2 ▸ hI.reg
          cbase := by
            have := hI.cbase
            rw [← hs2]; exact this
          lens := by rw [← hs2]; simp [hI.lens]
          mods := by rw [hreg2]; exact hI.mods
          site := by rw [hreg2]; exact hI.site
          alias := by rw [hreg2]; exact hI.alias
          cont := by rw [hreg2]; exact hI.cont
          alls := by
            intro t l hl x hx
            rw [hal2] at hl
            by_cases htm : t = m
            · subst htm; simp only [if_true] at hl; rw [hbody]; exact lastAll_sub _ l hl x hx
            · simp only [htm, if_false] at hl; exact hI.alls t l hl x hx
          started := by
            intro i S hp hS hne'
            rw [hps2]
            by_cases htm : S.1 = m
            · simp [htm]
            · simp only [htm, if_false]; exact hI.started i S (hreg2 ▸ hp) hS hne'
          complete := by
            intro t md ht hp
            rw [hps2] at hp
            by_cases htm : t = m
            · simp [htm] at hp
            · simp only [htm, if_false] at hp
              exact CompleteStmts.extObjs (ExtObjs.of_reg hreg2) _ (hI.complete t md ht hp) }
      obtain ⟨o, ho, hpm, hcl⟩ := hI.mods m hm
      have hc2 : Ctx proj s2 m m (m, []) proj[m].body :=
        { hmod := hm, hS1 := rfl, body := by rw [siteBody_zero hm, hbody]
          pathc := by rw [hreg2]; simpa [sitePath] using hpm
          clsc := ⟨o, by rw [hreg2]; exact ho, Or.inl ⟨rfl, by rw [hcl, modCls]; split <;> rfl⟩⟩
          ctxmod := fun _ => rfl
          ps := by rw [hps2]; simp }
      have hb3 : (visitStmts (processModule proj f) m m proj[m].body s2).bad = false := hb
      obtain ⟨hI3, he3, hcomp⟩ := visitStmts_ok wf nr ih proj[m].body m s2 (m, []) proj[m].body hI2 hc2 (fun _ h => h) hb3
      generalize hs3 : visitStmts (processModule proj f) m m proj[m].body s2 = s3 at hb hI3 he3 hcomp ⊢
      have hm3 : m < s3.ps.length := by rw [hI3.lens.1]; exact hm
      have hps4 : ∀ t, getPs { s3 with ps := s3.ps.set m .processed } t = if t = m then .processed else getPs s3 t :=
        fun t => getPs_set hm3 t
      refine ⟨?_, ?_, by rw [hps4]; simp⟩
      · exact
          { reg := hI3.reg
            cbase := hI3.cbase
            lens := by simp [hI3.lens]
            mods := hI3.mods, site := hI3.site, alias := hI3.alias, cont := hI3.cont, alls := hI3.alls
            started := by
              intro i S hp hS hne'
              rw [hps4]
              by_cases htm : S.1 = m
              · simp [htm]
              · simp only [htm, if_false]; exact hI3.started i S hp hS hne'
            complete := by
              intro t md ht hp
              rw [hps4] at hp
              by_cases htm : t = m
              · subst htm
                rw [hmd] at ht; injection ht with ht; subst ht
                exact CompleteStmts.extObjs (s := s3) (s' := { s3 with ps := s3.ps.set t .processed }) (ExtObjs.of_reg rfl) _ hcomp
              · simp only [htm, if_false] at hp
                exact CompleteStmts.extObjs (s := s3) (s' := { s3 with ps := s3.ps.set m .processed }) (ExtObjs.of_reg rfl) _
                  (hI3.complete t md ht hp) }
      · refine ⟨fun i o' ho' => ?_, fun i k hk => he3.paths i k (hreg2 ▸ hk), ?_⟩
        · exact he3.objs i o' (hreg2 ▸ ho')
        · intro t
          rw [hps4]
          by_cases htm : t = m
          · subst htm
            simp only [if_true, hu]
            refine ⟨fun h => ?_, fun h => ?_, fun _ => ?_⟩
            · cases h
            · cases h
            · simp
          · simp only [htm, if_false]
            have h3 := he3.ps t
            rw [hps2] at h3
            simp only [htm, if_false] at h3
            exact h3
    · have hne : getPs s m ≠ .unprocessed := hu
      simp [hne] at hb

/-! ## building the system: `initSt` -/

theorem addObject_fresh_root {s : State} {c : Cls} {name : Name} (hc : isModuleCls c = true)
    (hf : dget s.all [name] = none) :
    addObject s c name none =
      .ok ⟨s.objs ++ [(⟨name, none, c, [], []⟩ : Obj)], s.all ++ [([name], s.objs.length)], s.roots ++ [s.objs.length]⟩ := by
  unfold addObject place
  simp only [hc, if_true]
  unfold register
  have hp : path ⟨s.objs ++ [(⟨name, none, c, [], []⟩ : Obj)], s.all, s.roots ++ [s.objs.length]⟩ s.objs.length = some [name] := by
    simp only [path, List.length_append, List.length_singleton]
    exact pathAux_root (o := ⟨name, none, c, [], []⟩) (by simp) rfl
  simp only [hp, hf]

theorem path_append_old {s : State} {new : Obj} {all' : List (Path × Nat)} {roots' : List Nat} {i : Nat} {k : Path}
    (h : path s i = some k) : path ⟨s.objs ++ [new], all', roots'⟩ i = some k := by
  simp only [path, List.length_append, List.length_singleton] at h ⊢
  exact pathAux_mono (pathAux_append _ h)

theorem addModules_bad : ∀ (l : List Module) (s : St), (addModules l s).bad = false → s.bad = false
  | [], _, h => h
  | md :: rest, s, h => by
    simp only [addModules] at h
    split at h
    · have := addModules_bad rest _ h; simp at this
    · split at h
      · have := addModules_bad rest _ h; simp at this
      · split at h
        · have := addModules_bad rest _ h; simp at this
        · have := addModules_bad rest _ h
          simp only [Bool.or_eq_false_iff] at this; exact this.1

/-- the state after the first `k` modules have been created -/
structure InitInv (proj : Project) (k : Nat) (s : St) : Prop where
  reg : Inv s.reg
  len : s.reg.objs.length = k
  mods : ∀ m, m < k → ∃ o, s.reg.objs[m]? = some o ∧ path s.reg m = some (pathOf proj m) ∧ o.cls = modCls proj m ∧
    o.aliases = [] ∧ ∀ x c, dget o.contents x = some c → x ∈ childNames proj m
  ps : s.ps = List.replicate proj.length .unprocessed
  alls : s.alls = List.replicate proj.length none
  cinfo : s.cinfo = []

theorem isPkgObj_eq {s : State} {p : Nat} {o : Obj} (ho : s.objs[p]? = some o) : isPkgObj s p = (o.cls == .package) := by
  simp [isPkgObj, getObj, ho]

theorem addModules_ok {proj : Project} {rank : List Nat} (wf : WFacts proj rank) :
    ∀ (rest : List Module) (k : Nat) (s : St), k ≤ proj.length → proj.drop k = rest → InitInv proj k s →
      s.bad = false → InitInv proj proj.length (addModules rest s) ∧ (addModules rest s).bad = false
  | [], k, s, hle, hd, hI, hb => by
    have : proj.length ≤ k := by
      have := congrArg List.length hd; simp at this; omega
    have hk : k = proj.length := by omega
    simp only [addModules]; rw [← hk]; exact ⟨hI, hb⟩
  | md :: rest, k, s, hle, hd, hI, hb => by
    have hk : k < proj.length := by
      refine Nat.lt_of_not_le (fun hge => ?_)
      rw [List.drop_eq_nil_of_le hge] at hd; cases hd
    have hmd : proj[k]? = some md := by
      have := congrArg List.head? hd
      simpa [List.head?_drop] using this
    have hpath : pathOf proj k = md.path := by simp [pathOf, hmd]
    have hrest : proj.drop (k+1) = rest := by
      have := congrArg List.tail hd
      simpa [List.tail_drop] using this
    obtain ⟨hne, hpar⟩ := wf.parentOk k hk
    rw [hpath] at hne hpar
    simp only [addModules]
    have hlast : md.path.getLast? = some (md.path.getLast hne) := List.getLast?_eq_some_getLast hne
    simp only [hlast]
    have hsplit : md.path.dropLast ++ [md.path.getLast hne] = md.path := List.dropLast_concat_getLast hne
    generalize md.path.getLast hne = nm at hlast hsplit ⊢
    have hcm : (if md.isPkg = true then Cls.package else Cls.module) = modCls proj k := by
      simp [modCls, isPkg, hmd]
    have hmc : isModuleCls (modCls proj k) = true := by unfold modCls; split <;> rfl
    -- the qualified name of the new module is not taken: the registered names are those of earlier modules
    have hdup : dhas s.reg.all md.path = false := by
      unfold dhas
      cases hx : dget s.reg.all md.path with
      | none => rfl
      | some i =>
        exfalso
        have hpi := hI.reg.reg.keys _ _ (mem_of_dget hx)
        have hik : i < k := by rw [← hI.len]; exact path_lt hpi
        obtain ⟨_, _, hpi', _⟩ := hI.mods i hik
        rw [hpi] at hpi'; injection hpi' with hpi'
        have h1 := modIdx_of_path wf.modNodup (Nat.lt_trans hik hk)
        have h2 := modIdx_of_path wf.modNodup hk
        rw [← hpi', ← hpath, h2] at h1
        injection h1 with h1; omega
    by_cases hl : md.path.length ≤ 1
    · -- a root module
      simp only [hl, if_true]
      have hp1 : md.path = [nm] := by
        have : md.path.dropLast = [] := by
          apply List.eq_nil_of_length_eq_zero; simp; omega
        rw [this] at hsplit; exact hsplit.symm
      have hf : dget s.reg.all [nm] = none := by
        rw [← hp1]; unfold dhas at hdup
        cases hx : dget s.reg.all md.path with
        | none => rfl
        | some v => simp [hx] at hdup
      rw [hcm]
      have ha := addObject_fresh_root (s := s.reg) (c := modCls proj k) (name := nm) hmc hf
      simp only [ha, hdup, Bool.or_false]
      refine addModules_ok wf rest (k+1) _ hk hrest ?_ hb
      have hinv : Inv (⟨s.reg.objs ++ [(⟨nm, none, modCls proj k, [], []⟩ : Obj)],
          s.reg.all ++ [([nm], s.reg.objs.length)], s.reg.roots ++ [s.reg.objs.length]⟩ : State) :=
        addObject_inv hI.reg ha
      refine ⟨hinv, by simp [hI.len], ?_, hI.ps, hI.alls, hI.cinfo⟩
      intro m hm
      by_cases hmk : m < k
      · obtain ⟨o, ho, hp, hc, ha', hcc⟩ := hI.mods m hmk
        refine ⟨o, ?_, path_append_old hp, hc, ha', hcc⟩
        simp only; rw [List.getElem?_append_left (by rw [hI.len]; exact hmk)]; exact ho
      · have : m = k := by omega
        subst this
        refine ⟨⟨nm, none, modCls proj m, [], []⟩, ?_, ?_, rfl, rfl, fun x c h => by simp [dget] at h⟩
        · simp only; rw [← hI.len]; simp
        · rw [hpath, hp1]
          simp only [path, List.length_append, List.length_singleton]
          rw [← hI.len]
          exact pathAux_root (o := ⟨nm, none, modCls proj s.reg.objs.length, [], []⟩) (by simp) rfl
    · -- a nested module: its parent is an earlier package
      have hl2 : 2 ≤ md.path.length := by omega
      obtain ⟨q, hq, hqk, hqp⟩ := hpar hl2
      obtain ⟨_, hqpath⟩ := modIdx_spec hq
      obtain ⟨qo, hqo, hqpp, hqc, _, _⟩ := hI.mods q hqk
      have hreg : dget s.reg.all md.path.dropLast = some q := by
        rw [← hqpath]; exact dget_of_path hI.reg hqpp
      have hqpk : isPkgObj s.reg q = true := by
        rw [isPkgObj_eq hqo, hqc, modCls, hqp]; rfl
      simp only [hl, if_false, hreg, hqpk, if_true]
      have hqpp' : path s.reg q = some md.path.dropLast := by rw [hqpp, hqpath]
      have hf : dget s.reg.all (md.path.dropLast ++ [nm]) = none := by
        rw [hsplit]; unfold dhas at hdup
        cases hx : dget s.reg.all md.path with
        | none => rfl
        | some v => simp [hx] at hdup
      rw [hcm]
      have ha := addObject_fresh (c := modCls proj k) hqpp' hf
      simp only [ha, hdup, Bool.or_false]
      refine addModules_ok wf rest (k+1) _ hk hrest ?_ hb
      have hinv : Inv (⟨objsAfterAdd s.reg (modCls proj k) nm q,
          s.reg.all ++ [(md.path.dropLast ++ [nm], s.reg.objs.length)], s.reg.roots⟩ : State) :=
        addObject_inv hI.reg ha
      have hqlt : q < s.reg.objs.length := by rw [hI.len]; exact hqk
      refine ⟨hinv, by simp [objsAfterAdd_length, hI.len], ?_, hI.ps, hI.alls, hI.cinfo⟩
      intro m hm
      by_cases hmk : m < k
      · obtain ⟨o, ho, hp, hc, ha', hcc⟩ := hI.mods m hmk
        refine ⟨_, objsAfterAdd_get_old hqlt ho, path_afterAdd_old hp, ?_, ?_, ?_⟩
        · split <;> exact hc
        · split <;> exact ha'
        · intro x c hx
          split at hx
          · rename_i hmq; subst hmq
            simp only at hx
            by_cases hxn : x = nm
            · subst hxn
              -- the new module is a child of `m`
              unfold childNames
              rw [List.mem_filterMap]
              refine ⟨md, List.mem_of_getElem? hmd, ?_⟩
              rw [← hqpath]; simp [hlast]
            · rw [dset_get_other _ _ _ _ hxn] at hx; exact hcc x c hx
          · exact hcc x c hx
      · have : m = k := by omega
        subst this
        refine ⟨⟨nm, some q, modCls proj m, [], []⟩, ?_, ?_, rfl, rfl, fun x c h => by simp [dget] at h⟩
        · simp only; rw [← hI.len]; exact objsAfterAdd_get_new hqlt
        · rw [hpath, ← hsplit, ← hI.len]; exact path_afterAdd_new hqpp'

theorem getPs_replicate {s : St} {n : Nat} (h : s.ps = List.replicate n .unprocessed) (t : Nat) :
    getPs s t = if t < n then .unprocessed else .processed := by
  unfold getPs
  rw [h, List.getD_eq_getElem?_getD, List.getElem?_replicate]
  split <;> rfl

theorem initSt_ok {proj : Project} {rank : List Nat} (wf : WFacts proj rank) :
    (initSt proj).bad = false ∧ PdInv proj (initSt proj) ∧ ∀ t, getPs (initSt proj) t ≠ .processing := by
  unfold initSt
  have h0 : InitInv proj 0 ⟨Registry.init, List.replicate proj.length .unprocessed, List.replicate proj.length none, [], false, []⟩ :=
    ⟨inv_holds_init, rfl, fun m hm => by omega, rfl, rfl, rfl⟩
  obtain ⟨hI, hb⟩ := addModules_ok wf proj 0 _ (Nat.zero_le _) (by simp) h0 rfl
  generalize addModules proj _ = s at hb hI
  refine ⟨hb, ?_⟩
  have hps := getPs_replicate hI.ps
  have hall : ∀ t, getAll s t = none := by
    intro t; unfold getAll; rw [hI.alls, List.getD_eq_getElem?_getD, List.getElem?_replicate]; split <;> rfl
  refine ⟨?_, fun t => by rw [hps]; split <;> simp⟩
  have hobj : ∀ i o, s.reg.objs[i]? = some o → i < proj.length := by
    intro i o ho; rw [← hI.len]; exact (List.getElem?_eq_some_iff.1 ho).1
  exact
    { reg := hI.reg
      cbase := by intro e hm; rw [hI.cinfo] at hm; cases hm
      lens := by rw [hI.ps, hI.alls]; simp
      mods := fun m hm => by obtain ⟨o, ho, hp, hc, _⟩ := hI.mods m hm; exact ⟨o, ho, hp, hc⟩
      site := by
        intro i o ho
        have hi := hobj i o ho
        obtain ⟨o', ho', hp, hc, _⟩ := hI.mods i hi
        rw [ho] at ho'; injection ho' with ho'; subst ho'
        exact ⟨(i, []), by rw [hc]; exact ObjKind.mod hi, by simpa [sitePath] using hp⟩
      alias := by
        intro i o S ho _ _ x tgt hx
        obtain ⟨o', ho', _, _, ha, _⟩ := hI.mods i (hobj i o ho)
        rw [ho] at ho'; injection ho' with ho'; subst ho'
        rw [ha] at hx; simp [dget] at hx
      cont := by
        intro m o hm ho x c hx
        obtain ⟨o', ho', _, _, _, hc⟩ := hI.mods m hm
        rw [ho] at ho'; injection ho' with ho'; subst ho'
        exact Or.inl (hc x c hx)
      alls := fun m l hl => by rw [hall] at hl; cases hl
      started := by
        intro i S hp hS hne
        exfalso
        have hi : i < proj.length := by rw [← hI.len]; exact path_lt hp
        obtain ⟨o', _, hp', _⟩ := hI.mods i hi
        rw [hp] at hp'; injection hp' with hp'
        have := site_unique wf hS (⟨hi, Or.inl rfl⟩ : StaticSite proj (i, [])) (by simpa [sitePath] using hp')
        rw [this] at hne; exact hne rfl
      complete := by
        intro m md hm hp
        have hlt : m < proj.length := (List.getElem?_eq_some_iff.1 hm).1
        rw [hps] at hp; simp [hlt] at hp }

def NoProcessing (s : St) : Prop := ∀ t, getPs s t ≠ .processing

theorem NoProcessing.rel {s s' : St} (h : NoProcessing s) (hr : PsRel s s') : NoProcessing s' := by
  intro t
  obtain ⟨_, r2, r3⟩ := hr t
  cases hp : getPs s t with
  | unprocessed => exact r3 hp
  | processing => exact absurd hp (h t)
  | processed => rw [r2 hp]; simp

theorem process_bad {proj : Project} : ∀ (order : List Nat) (s : St), (process proj order s).bad = false → s.bad = false
  | [], _, h => h
  | m :: rest, s, h => by
    simp only [process, List.foldl_cons] at h
    have := process_bad rest _ h
    split at this
    · exact processModule_sticky proj _ _ _ this
    · exact this

theorem process_ok {proj : Project} {rank : List Nat} (wf : WFacts proj rank) (nr : NoReexpFacts proj) :
    ∀ (order : List Nat) (s : St), PdInv proj s → NoProcessing s → (process proj order s).bad = false →
      PdInv proj (process proj order s) ∧ NoProcessing (process proj order s) ∧
      (∀ m, getPs s m = .processed → getPs (process proj order s) m = .processed) ∧
      (∀ m ∈ order, getPs (process proj order s) m = .processed)
  | [], s, hI, hn, _ => ⟨hI, hn, fun _ h => h, fun _ h => by cases h⟩
  | m :: rest, s, hI, hn, hb => by
    simp only [process, List.foldl_cons] at hb ⊢
    have hb1 := process_bad (proj := proj) rest _ hb
    by_cases hu : getPs s m = .unprocessed
    · simp only [hu, if_true] at hb hb1 ⊢
      have hm : m < proj.length := by
        refine Nat.lt_of_not_le (fun hge => ?_)
        unfold getPs at hu
        rw [List.getD_eq_getElem?_getD, List.getElem?_eq_none (by rw [hI.lens.1]; exact hge)] at hu
        cases hu
      obtain ⟨hI1, he1, hdone⟩ := (processModule_ok wf nr (proj.length + 1)).2 s m hb1 hI hm
      have hn1 := hn.rel he1.ps
      obtain ⟨hI2, hn2, hkeep, hord⟩ := process_ok wf nr rest _ hI1 hn1 hb
      refine ⟨hI2, hn2, fun t ht => hkeep t ((he1.ps t).2.1 ht), ?_⟩
      intro t ht
      rcases List.mem_cons.1 ht with rfl | ht'
      · exact hkeep t hdone
      · exact hord t ht'
    · simp only [hu, if_false] at hb hb1 ⊢
      obtain ⟨hI2, hn2, hkeep, hord⟩ := process_ok wf nr rest _ hI hn hb
      refine ⟨hI2, hn2, hkeep, ?_⟩
      intro t ht
      rcases List.mem_cons.1 ht with rfl | ht'
      · refine hkeep t ?_
        cases hp : getPs s t with
        | processed => rfl
        | processing => exact absurd hp (hn t)
        | unprocessed => exact absurd hp hu
      · exact hord t ht'

theorem run_ok {proj : Project} {rank : List Nat} (wf : WFacts proj rank) (nr : NoReexpFacts proj) (order : List Nat)
    (hb : (run proj order).bad = false) :
    PdInv proj (run proj order) ∧ NoProcessing (run proj order) ∧
    ∀ m ∈ order, getPs (run proj order) m = .processed := by
  unfold run at hb ⊢
  have hb0 := process_bad order _ hb
  obtain ⟨_, hI0, hn0⟩ := initSt_ok wf
  obtain ⟨h1, h2, _, h4⟩ := process_ok wf nr order _ (hI0.setPending order) (fun t => hn0 t) hb
  exact ⟨h1, h2, h4⟩

/-! ## name resolution on a finished state -/

theorem CompleteStmts.mem {s : St} {ctx : Nat} : ∀ {body : List Stmt} {st : Stmt}, CompleteStmts s ctx body → st ∈ body →
    CompleteStmt s ctx st
  | [], _, _, h => by cases h
  | x :: xs, st, hc, h => by
    simp only [CompleteStmts] at hc
    rcases List.mem_cons.1 h with rfl | h'
    · exact hc.1
    · exact CompleteStmts.mem hc.2 h'

theorem complete_entry {s : St} {ctx : Nat} {st : Stmt} {x : Name} (hc : CompleteStmt s ctx st)
    (hx : x ∈ explicitNames st) : HasEntry s ctx x := by
  cases st with
  | classDef n bs body =>
    simp only [explicitNames, List.mem_singleton] at hx; subst hx
    simp only [CompleteStmt] at hc
    obtain ⟨c, o, po, hpo, hd, _⟩ := hc
    exact ⟨po, hpo, Or.inl (by rw [hd]; simp)⟩
  | importMod t a => simp only [CompleteStmt] at hc; exact hc x hx
  | importFrom l M n a =>
    simp only [explicitNames, List.mem_singleton] at hx; subst hx
    simpa only [CompleteStmt] using hc
  | importStar l M => simp [explicitNames] at hx
  | funcDef n =>
    simp only [explicitNames, List.mem_singleton] at hx; subst hx
    simp only [CompleteStmt] at hc; exact hc.entry
  | assign n v =>
    simp only [explicitNames, List.mem_singleton] at hx; subst hx
    simp only [CompleteStmt] at hc; exact hc.entry
  | allAssign l => simp [explicitNames] at hx

/-- following a chain of class names through complete bodies -/
theorem complete_walk {proj : Project} {s : St} (hI : PdInv proj s) :
    ∀ (cs : List Name) (ctx : Nat) (pp : Path) (body b : List Stmt), CompleteStmts s ctx body →
      path s.reg ctx = some pp → bodyAt body cs = some b →
      ∃ j, path s.reg j = some (pp ++ cs) ∧ CompleteStmts s j b
  | [], ctx, pp, body, b, hc, hp, hb => by
    simp only [bodyAt, Option.some.injEq] at hb; subst hb
    exact ⟨ctx, by simpa using hp, hc⟩
  | c :: cs, ctx, pp, body, b, hc, hp, hb => by
    simp only [bodyAt] at hb
    cases hf : findClass body c with
    | none => simp [hf] at hb
    | some b1 =>
      simp only [hf] at hb
      obtain ⟨bs, hm⟩ := findClass_mem hf
      have h1 := hc.mem hm
      simp only [CompleteStmt] at h1
      obtain ⟨cid, o, po, hpo, hd, _, _, hcb⟩ := h1
      have hpc := path_child hI.reg hpo hd hp
      obtain ⟨j, hj, hcj⟩ := complete_walk hI cs cid (pp ++ [c]) b1 b hcb hpc hb
      exact ⟨j, by simpa using hj, hcj⟩

/-- the object of a class scope holds an entry for every statement of the class body -/
theorem class_complete {proj : Project} {s : St} (hI : PdInv proj s) (hn : NoProcessing s) {i : Nat} {S : Site}
    {b : List Stmt} (hp : path s.reg i = some (sitePath proj S)) (hS : StaticSite proj S) (hne : S.2 ≠ [])
    (hb : siteBody proj S = some b) : CompleteStmts s i b := by
  have hst := hI.started i S hp hS hne
  have hlt := hS.1
  have hmd : proj[S.1]? = some proj[S.1] := by simp [hlt]
  have hproc : getPs s S.1 = .processed := by
    cases h : getPs s S.1 with
    | processed => rfl
    | processing => exact absurd h (hn S.1)
    | unprocessed => exact absurd h hst
  have hc := hI.complete S.1 _ hmd hproc
  obtain ⟨o, ho, hpm, _⟩ := hI.mods S.1 hlt
  have hb' := siteBody_bodyAt hb
  rw [bodyOf_eq hmd] at hb'
  obtain ⟨j, hj, hcj⟩ := complete_walk hI S.2 S.1 _ _ b hc hpm hb'
  have : j = i := by
    have h1 := dget_of_path hI.reg hj
    have h2 := dget_of_path hI.reg hp
    simp only [sitePath] at h2
    rw [h1] at h2; injection h2
  subst this; exact hcj

theorem jpd_ne_nil {proj : Project} {rank : List Nat} (wf : WFacts proj rank) :
    ∀ {S : Site} {x : Name} {tgt : Path}, Jpd proj S x tgt → tgt ≠ [] := by
  intro S x tgt h
  induction h with
  | @importAs S b tgt x hb hst =>
    obtain ⟨t', ht', _⟩ := wf.targets hb hst (modIdx proj tgt) (by simp [stmtTargets])
    obtain ⟨hlt, hp⟩ := modIdx_spec ht'
    rw [← hp]; exact (wf.parentOk t' hlt).1
  | importTop _ _ => simp
  | «from» _ _ _ => simp
  | starChild _ _ _ _ _ _ => simp
  | starAlias _ _ _ _ _ _ ih => exact ih
  | starNone _ _ _ _ _ => simp

end Imports

/-! # Part 2, the Python machine

C04, the Python machine (`PyImp.run`): every namespace entry of every reachable state is justified by
the static relation `Jpy`; hence what `pyDenotes` answers is a `Jpy` derivation.
-/

namespace Imports
open Registry
open PyImp

/-- the static value a runtime value stands for -/
def svalV (s : PyImp.St) : Val → Option SVal
  | .mod m => some (.mod m)
  | .cls h => (s.heap[h]?).map (fun co => .dfn co.mod co.cp)
  | .obj m cp => some (.dfn m cp)

/-- every entry of the namespace is a possible binding of scope `S` -/
def NsOk (proj : Project) (s : PyImp.St) (S : Site) (ns : Ns) : Prop :=
  ∀ x v, dget ns x = some v → ∃ sv, svalV s v = some sv ∧ Jpy proj S [x] sv

/-- the site of a class statement -/
def IsClassSite (proj : Project) (S : Site) : Prop :=
  ∃ cp n bs body full, S.2 = cp ++ [n] ∧ siteBody proj (S.1, cp) = some full ∧ Stmt.classDef n bs body ∈ full

theorem IsClassSite.ne {proj : Project} {S : Site} (h : IsClassSite proj S) : S.2 ≠ [] := by
  obtain ⟨cp, n, _, _, _, h, _⟩ := h
  rw [h]; simp

structure PyInv (proj : Project) (s : PyImp.St) : Prop where
  mods : ∀ m, NsOk proj s (m, []) (nsOf s m)
  heap : ∀ (h : Nat) (co : ClassObj), s.heap[h]? = some co → NsOk proj s (co.mod, co.cp) co.ns
  alls : ∀ m l, allOf s m = some l → ∀ x ∈ l, x ∈ allNames (bodyOf proj m)
  nobases : noBases proj = true → ∀ (h : Nat) (co : ClassObj), s.heap[h]? = some co → co.bases = []
  cls : ∀ (h : Nat) (co : ClassObj), s.heap[h]? = some co → IsClassSite proj (co.mod, co.cp)

/-- class objects persist -/
def HeapExt (s s' : PyImp.St) : Prop := ∀ (h : Nat) (co : ClassObj), s.heap[h]? = some co → s'.heap[h]? = some co

theorem HeapExt.refl (s : PyImp.St) : HeapExt s s := fun _ _ h => h
theorem HeapExt.trans {a b c : PyImp.St} (h1 : HeapExt a b) (h2 : HeapExt b c) : HeapExt a c :=
  fun h co hh => h2 h co (h1 h co hh)

theorem svalV_ext {s s' : PyImp.St} (he : HeapExt s s') {v : Val} {sv : SVal} (h : svalV s v = some sv) :
    svalV s' v = some sv := by
  cases v with
  | mod m => exact h
  | obj m cp => exact h
  | cls hh =>
    simp only [svalV] at h ⊢
    cases hc : s.heap[hh]? with
    | none => simp [hc] at h
    | some co => rw [he hh co hc]; rw [hc] at h; exact h

theorem NsOk.ext {proj : Project} {s s' : PyImp.St} (he : HeapExt s s') {S : Site} {ns : Ns} (h : NsOk proj s S ns) :
    NsOk proj s' S ns := fun x v hx => by
  obtain ⟨sv, h1, h2⟩ := h x v hx
  exact ⟨sv, svalV_ext he h1, h2⟩

theorem NsOk.dset {proj : Project} {s : PyImp.St} {S : Site} {ns : Ns} (h : NsOk proj s S ns) {k : Name} {v : Val}
    {sv : SVal} (hv : svalV s v = some sv) (hj : Jpy proj S [k] sv) : NsOk proj s S (dset ns k v) := by
  intro x v' hx
  by_cases hk : x = k
  · subst hk; rw [dset_get_same] at hx; injection hx with hx; subst hx; exact ⟨sv, hv, hj⟩
  · rw [dset_get_other _ _ _ _ hk] at hx; exact h x v' hx

theorem NsOk.nil {proj : Project} {s : PyImp.St} {S : Site} : NsOk proj s S [] := fun x v h => by simp [dget] at h

/-! ## state changes -/

theorem nsOf_bindGlobal {s : PyImp.St} {m t : Nat} {k : Name} {v : Val} :
    nsOf (bindGlobal s m k v) t = if t = m ∧ m < s.ns.length then dset (nsOf s m) k v else nsOf s t := by
  unfold nsOf bindGlobal
  simp only [List.getD_eq_getElem?_getD, List.getElem?_set]
  by_cases h : m = t
  · subst h
    by_cases hl : m < s.ns.length
    · simp [hl, nsOf, List.getD_eq_getElem?_getD]
    · simp [hl]
  · have : ¬ (t = m ∧ m < s.ns.length) := fun hh => h hh.1.symm
    simp [h, this]

theorem pyInv_bindGlobal {proj : Project} {s : PyImp.St} (hI : PyInv proj s) {m : Nat} {k : Name} {v : Val}
    {sv : SVal} (hv : svalV s v = some sv) (hj : Jpy proj (m, []) [k] sv) : PyInv proj (bindGlobal s m k v) := by
  have he : HeapExt s (bindGlobal s m k v) := fun _ _ h => h
  refine ⟨fun t => ?_, fun h co hh => ?_, hI.alls, hI.nobases, hI.cls⟩
  · rw [nsOf_bindGlobal]
    split
    · rename_i hc; rw [hc.1]
      exact ((hI.mods m).dset hv hj).ext he
    · exact (hI.mods t).ext he
  · exact (hI.heap h co hh).ext he

/-- `STORE_NAME` of a justified value keeps the invariants (globals, or the class-body locals) -/
theorem bind_ok {proj : Project} {s : PyImp.St} (hI : PyInv proj s) {m : Nat} {cp : Path} {fr : Option Ns}
    (hfr : ∀ l, fr = some l → NsOk proj s (m, cp) l) (hcp : fr = none → cp = []) {k : Name} {v : Val} {sv : SVal}
    (hv : svalV s v = some sv) (hj : Jpy proj (m, cp) [k] sv) :
    PyInv proj (PyImp.bind s m fr k v).1 ∧ HeapExt s (PyImp.bind s m fr k v).1 ∧
    (∀ l, (PyImp.bind s m fr k v).2 = some l → NsOk proj (PyImp.bind s m fr k v).1 (m, cp) l) ∧
    ((PyImp.bind s m fr k v).2 = none ↔ fr = none) := by
  cases fr with
  | none =>
    have := hcp rfl; subst this
    have he : HeapExt s (bindGlobal s m k v) := fun _ _ h => h
    refine ⟨?_, ?_, ?_, ?_⟩
    · exact pyInv_bindGlobal hI hv hj
    · exact he
    · intro l h; simp [PyImp.bind] at h
    · simp [PyImp.bind]
  | some l =>
    refine ⟨?_, ?_, ?_, ?_⟩
    · exact hI
    · exact HeapExt.refl s
    · intro l' h
      simp only [PyImp.bind, Option.some.injEq] at h; subst h
      exact (hfr l rfl).dset hv hj
    · simp [PyImp.bind]

/-! ## reading attributes -/

theorem pathOf_eq {proj : Project} {t : Nat} {md : Module} (h : proj[t]? = some md) : pathOf proj t = md.path := by
  simp [pathOf, h]

theorem importFromAttr_j {proj : Project} {s : PyImp.St} (hI : PyInv proj s) {t : Nat} {y : Name} {v : Val}
    (h : importFromAttr proj s t y = some v) : ∃ sv, svalV s v = some sv ∧ Jpy proj (t, []) [y] sv := by
  unfold importFromAttr at h
  cases hm : modAttr s t y with
  | some v' => simp only [hm, Option.some.injEq] at h; subst h; exact hI.mods t y v' hm
  | none =>
    simp only [hm] at h
    cases hp : proj[t]? with
    | none => simp [hp] at h
    | some md =>
      simp only [hp] at h
      cases hc : modIdx proj (md.path ++ [y]) with
      | none => simp [hc] at h
      | some c =>
        simp only [hc] at h
        split at h
        · injection h with h; subst h
          exact ⟨.mod c, rfl, Jpy.child (by rw [pathOf_eq hp]; exact hc)⟩
        · cases h

theorem importChain_j {proj : Project} {s : PyImp.St} (hI : PyInv proj s) :
    ∀ (ys : List Name) (t : Nat) (v : Val), importChain proj s (.mod t) ys = some v → ys ≠ [] →
      ∃ sv, svalV s v = some sv ∧ Jpy proj (t, []) ys sv
  | [], _, _, _, hne => absurd rfl hne
  | [y], t, v, h, _ => by
    simp only [importChain] at h
    cases ha : importFromAttr proj s t y with
    | none => simp [ha] at h
    | some w =>
      simp only [ha] at h
      cases w <;> simp only [importChain, Option.some.injEq] at h <;> subst h <;> exact importFromAttr_j hI ha
  | y :: y2 :: ys, t, v, h, _ => by
    simp only [importChain] at h
    cases ha : importFromAttr proj s t y with
    | none => simp [ha] at h
    | some w =>
      simp only [ha] at h
      obtain ⟨sw, hsw, hjw⟩ := importFromAttr_j hI ha
      cases w with
      | mod t' =>
        simp only [svalV, Option.some.injEq] at hsw; subst hsw
        obtain ⟨sv, hsv, hj⟩ := importChain_j hI (y2 :: ys) t' v h (by simp)
        exact ⟨sv, hsv, Jpy.cons hjw hj⟩
      | cls hh => simp [importChain] at h
      | obj m' cp' => simp [importChain] at h

/-! ## statements -/

def ImpOk (proj : Project) (imp : PyImp.St → Path → PyImp.St) : Prop :=
  ∀ s p, PyInv proj s → PyInv proj (imp s p) ∧ HeapExt s (imp s p)

def FrOk (proj : Project) (s : PyImp.St) (S : Site) (fr : Option Ns) : Prop :=
  (∀ l, fr = some l → NsOk proj s S l) ∧ (fr = none → S.2 = [])

theorem FrOk.ext {proj : Project} {s s' : PyImp.St} (he : HeapExt s s') {S : Site} {fr : Option Ns}
    (h : FrOk proj s S fr) : FrOk proj s' S fr := ⟨fun l hl => (h.1 l hl).ext he, h.2⟩

/-- the outcome of one statement keeps the invariants -/
def ExecOk (proj : Project) (S : Site) (x x' : PyImp.St × Option Ns) : Prop :=
  PyInv proj x'.1 ∧ HeapExt x.1 x'.1 ∧ FrOk proj x'.1 S x'.2 ∧ (x'.2 = none ↔ x.2 = none)

theorem pyInv_err {proj : Project} {s : PyImp.St} (hI : PyInv proj s) (b : Bool) : PyInv proj { s with err := b } :=
  ⟨hI.mods, hI.heap, hI.alls, hI.nobases, hI.cls⟩

theorem ExecOk.refl {proj : Project} {S : Site} {x : PyImp.St × Option Ns} (hI : PyInv proj x.1)
    (hf : FrOk proj x.1 S x.2) : ExecOk proj S x x := ⟨hI, HeapExt.refl _, hf, Iff.rfl⟩

theorem ExecOk.fail {proj : Project} {S : Site} {x : PyImp.St × Option Ns} {s1 : PyImp.St} (hI : PyInv proj s1)
    (he : HeapExt x.1 s1) (hf : FrOk proj x.1 S x.2) : ExecOk proj S x (fail (s1, x.2)) := by
  refine ⟨pyInv_err hI true, fun h co hh => he h co hh, ?_, Iff.rfl⟩
  exact ⟨fun l hl => ((hf.1 l hl).ext he), hf.2⟩

theorem ExecOk.state {proj : Project} {S : Site} {x : PyImp.St × Option Ns} {s1 : PyImp.St} (hI : PyInv proj s1)
    (he : HeapExt x.1 s1) (hf : FrOk proj x.1 S x.2) : ExecOk proj S x (s1, x.2) :=
  ⟨hI, he, hf.ext he, Iff.rfl⟩

theorem ExecOk.bind {proj : Project} {m : Nat} {cp : Path} {x : PyImp.St × Option Ns} {s1 : PyImp.St}
    (hI : PyInv proj s1) (he : HeapExt x.1 s1) (hf : FrOk proj x.1 (m, cp) x.2) {k : Name} {v : Val} {sv : SVal}
    (hv : svalV s1 v = some sv) (hj : Jpy proj (m, cp) [k] sv) :
    ExecOk proj (m, cp) x (PyImp.bind s1 m x.2 k v) := by
  have hf1 := hf.ext he
  obtain ⟨h1, h2, h3, h4⟩ := bind_ok hI hf1.1 hf1.2 hv hj
  exact ⟨h1, he.trans h2, ⟨h3, fun h => hf.2 (h4.1 h)⟩, h4⟩

theorem execImport_ok {proj : Project} {imp : PyImp.St → Path → PyImp.St} (himp : ImpOk proj imp) {m : Nat}
    {cp : Path} {full : List Stmt} (hb : siteBody proj (m, cp) = some full) {target : Path} {asname : Option Name}
    (hst : Stmt.importMod target asname ∈ full) {x : PyImp.St × Option Ns} (hI : PyInv proj x.1)
    (hf : FrOk proj x.1 (m, cp) x.2) : ExecOk proj (m, cp) x (execImport proj imp m target asname x) := by
  unfold execImport
  by_cases he : x.1.err = true
  · simp only [he, if_true]; exact ExecOk.refl hI hf
  · simp only [he]
    obtain ⟨hI1, hx1⟩ := himp x.1 target hI
    by_cases he1 : (imp x.1 target).err = true
    · simp only [he1, if_true]; exact ExecOk.state hI1 hx1 hf
    · simp only [he1]
      cases target with
      | nil => exact ExecOk.fail hI1 hx1 hf
      | cons h rest =>
        simp only
        cases ht : modIdx proj [h] with
        | none => exact ExecOk.fail hI1 hx1 hf
        | some top =>
          simp only
          cases asname with
          | none => exact ExecOk.bind hI1 hx1 hf rfl (Jpy.importTop hb hst ht)
          | some a =>
            simp only
            cases hc : importChain proj (imp x.1 (h :: rest)) (.mod top) rest with
            | none => exact ExecOk.fail hI1 hx1 hf
            | some v =>
              simp only
              cases rest with
              | nil =>
                simp only [importChain, Option.some.injEq] at hc; subst hc
                exact ExecOk.bind hI1 hx1 hf rfl (Jpy.importAs1 hb hst ht)
              | cons y ys =>
                obtain ⟨sv, hsv, hj⟩ := importChain_j hI1 (y :: ys) top v hc (by simp)
                exact ExecOk.bind hI1 hx1 hf hsv (Jpy.importAs hb hst ht hj)

theorem fromlistOne_ok {proj : Project} {imp : PyImp.St → Path → PyImp.St} (himp : ImpOk proj imp) (T : Path) (t : Nat)
    (s : PyImp.St) (n : Name) (hI : PyInv proj s) :
    PyInv proj (fromlistOne proj imp T t s n) ∧ HeapExt s (fromlistOne proj imp T t s n) := by
  unfold fromlistOne
  split
  · split
    · exact himp s _ hI
    · exact ⟨hI, HeapExt.refl s⟩
  · exact ⟨hI, HeapExt.refl s⟩

theorem fromlistFold_ok {proj : Project} {imp : PyImp.St → Path → PyImp.St} (himp : ImpOk proj imp) (T : Path) (t : Nat) :
    ∀ (l : List Name) (s : PyImp.St), PyInv proj s →
      PyInv proj (l.foldl (fromlistOne proj imp T t) s) ∧ HeapExt s (l.foldl (fromlistOne proj imp T t) s)
  | [], s, hI => ⟨hI, HeapExt.refl s⟩
  | n :: l, s, hI => by
    simp only [List.foldl_cons]
    obtain ⟨h1, e1⟩ := fromlistOne_ok himp T t s n hI
    obtain ⟨h2, e2⟩ := fromlistFold_ok himp T t l _ h1
    exact ⟨h2, e1.trans e2⟩

theorem target_of {proj : Project} {m lvl : Nat} {M T : Path} {t : Nat} (hT : pyAbsName proj m lvl M = some T)
    (ht : modIdx proj T = some t) : target proj m lvl M = some t := by
  simp [target, hT, ht]

theorem execImportFrom_ok {proj : Project} {imp : PyImp.St → Path → PyImp.St} (himp : ImpOk proj imp) {m : Nat}
    {cp : Path} {full : List Stmt} (hb : siteBody proj (m, cp) = some full) {lvl : Nat} {M : Path} {n : Name}
    {a : Option Name} (hst : Stmt.importFrom lvl M n a ∈ full) {x : PyImp.St × Option Ns} (hI : PyInv proj x.1)
    (hf : FrOk proj x.1 (m, cp) x.2) : ExecOk proj (m, cp) x (execImportFrom proj imp m lvl M n a x) := by
  unfold execImportFrom
  by_cases he : x.1.err = true
  · simp only [he, if_true]; exact ExecOk.refl hI hf
  · simp only [he]
    cases hT : pyAbsName proj m lvl M with
    | none => exact ExecOk.fail hI (HeapExt.refl _) hf
    | some T =>
      simp only
      obtain ⟨hI1, hx1⟩ := himp x.1 T hI
      by_cases he1 : (imp x.1 T).err = true
      · simp only [he1, if_true]; exact ExecOk.state hI1 hx1 hf
      · simp only [he1]
        cases ht : modIdx proj T with
        | none => exact ExecOk.fail hI1 hx1 hf
        | some t =>
          simp only
          obtain ⟨hI2, hx2⟩ := fromlistOne_ok himp T t _ n hI1
          by_cases he2 : (fromlistOne proj imp T t (imp x.1 T) n).err = true
          · simp only [he2, if_true]; exact ExecOk.state hI2 (hx1.trans hx2) hf
          · simp only [he2]
            cases hv : importFromAttr proj (fromlistOne proj imp T t (imp x.1 T) n) t n with
            | none => exact ExecOk.fail hI2 (hx1.trans hx2) hf
            | some v =>
              simp only
              obtain ⟨sv, hsv, hj⟩ := importFromAttr_j hI2 hv
              exact ExecOk.bind hI2 (hx1.trans hx2) hf hsv (Jpy.from hb hst (target_of hT ht) hj)

theorem starBind_ok {proj : Project} {m t : Nat} {full : List Stmt} {lvl : Nat} {M : Path}
    (hb : siteBody proj (m, []) = some full) (hst : Stmt.importStar lvl M ∈ full) (ht : target proj m lvl M = some t)
    {s : PyImp.St} {x : Name} (hI : PyInv proj s) (hok : starOk proj t x) :
    PyInv proj (starBind m t s x) ∧ HeapExt s (starBind m t s x) := by
  unfold starBind
  split
  · exact ⟨hI, HeapExt.refl s⟩
  · cases hv : modAttr s t x with
    | none => exact ⟨pyInv_err hI true, fun _ _ h => h⟩
    | some v =>
      obtain ⟨sv, hsv, hj⟩ := hI.mods t x v hv
      exact ⟨pyInv_bindGlobal hI hsv (Jpy.star hb hst ht hok hj), fun _ _ h => h⟩

theorem starFoldPy_ok {proj : Project} {m t : Nat} {full : List Stmt} {lvl : Nat} {M : Path}
    (hb : siteBody proj (m, []) = some full) (hst : Stmt.importStar lvl M ∈ full) (ht : target proj m lvl M = some t) :
    ∀ (l : List Name) (s : PyImp.St), PyInv proj s → (∀ x ∈ l, starOk proj t x) →
      PyInv proj (l.foldl (starBind m t) s) ∧ HeapExt s (l.foldl (starBind m t) s)
  | [], s, hI, _ => ⟨hI, HeapExt.refl s⟩
  | x :: l, s, hI, hok => by
    simp only [List.foldl_cons]
    obtain ⟨h1, e1⟩ := starBind_ok hb hst ht hI (hok x (List.mem_cons_self ..))
    obtain ⟨h2, e2⟩ := starFoldPy_ok hb hst ht l _ h1 (fun y hy => hok y (List.mem_cons_of_mem _ hy))
    exact ⟨h2, e1.trans e2⟩

theorem execImportStar_ok {proj : Project} {imp : PyImp.St → Path → PyImp.St} (himp : ImpOk proj imp) {m : Nat}
    {cp : Path} {full : List Stmt} (hb : siteBody proj (m, cp) = some full) {lvl : Nat} {M : Path}
    (hst : Stmt.importStar lvl M ∈ full) {x : PyImp.St × Option Ns} (hI : PyInv proj x.1)
    (hf : FrOk proj x.1 (m, cp) x.2) : ExecOk proj (m, cp) x (execImportStar proj imp m lvl M x) := by
  unfold execImportStar
  by_cases he : x.1.err = true
  · simp only [he, if_true]; exact ExecOk.refl hI hf
  · simp only [he]
    by_cases hfs : x.2.isSome = true
    · simp only [hfs, if_true]
      have : fail x = fail (x.1, x.2) := rfl
      rw [this]; exact ExecOk.fail hI (HeapExt.refl _) hf
    · simp only [hfs]
      have hnone : x.2 = none := by cases h : x.2 <;> simp_all
      have hcp : cp = [] := hf.2 hnone
      subst hcp
      cases hT : pyAbsName proj m lvl M with
      | none => exact ExecOk.fail hI (HeapExt.refl _) hf
      | some T =>
        simp only
        obtain ⟨hI1, hx1⟩ := himp x.1 T hI
        by_cases he1 : (imp x.1 T).err = true
        · simp only [he1, if_true]; exact ExecOk.state hI1 hx1 hf
        · simp only [he1]
          cases ht : modIdx proj T with
          | none => exact ExecOk.fail hI1 hx1 hf
          | some t =>
            simp only
            have h2 : PyInv proj (starPrep proj imp T t (imp x.1 T)) ∧ HeapExt (imp x.1 T) (starPrep proj imp T t (imp x.1 T)) := by
              unfold starPrep
              cases allOf (imp x.1 T) t with
              | none => exact ⟨hI1, HeapExt.refl _⟩
              | some l => exact fromlistFold_ok himp T t l _ hI1
            obtain ⟨hI2, hx2⟩ := h2
            generalize starPrep proj imp T t (imp x.1 T) = s2 at hI2 hx2 ⊢
            by_cases he2 : s2.err = true
            · simp only [he2, if_true]; exact ExecOk.state hI2 (hx1.trans hx2) hf
            · simp only [he2]
              have hnames : ∀ y ∈ starNamesPy s2 t, starOk proj t y := by
                intro y hy
                unfold starNamesPy at hy
                cases ha : allOf s2 t with
                | some l => simp only [ha] at hy; exact Or.inl (hI2.alls t l ha y hy)
                | none =>
                  simp only [ha, List.mem_filter] at hy
                  exact Or.inr (by simpa [isPublic] using hy.2)
              obtain ⟨hI3, hx3⟩ := starFoldPy_ok hb hst (target_of hT ht) _ s2 hI2 hnames
              exact ExecOk.state hI3 ((hx1.trans hx2).trans hx3) hf

theorem execDef_ok {proj : Project} {m : Nat} {cp : Path} {full : List Stmt} (hb : siteBody proj (m, cp) = some full)
    {st : Stmt} {n : Name} (hst : st ∈ full) (hd : st.defName = some n) {x : PyImp.St × Option Ns}
    (hI : PyInv proj x.1) (hf : FrOk proj x.1 (m, cp) x.2) : ExecOk proj (m, cp) x (execDef m cp n x) := by
  unfold execDef
  by_cases he : x.1.err = true
  · simp only [he, if_true]; exact ExecOk.refl hI hf
  · simp only [he]
    exact ExecOk.bind hI (HeapExt.refl _) hf rfl (Jpy.dfn hb hst hd)

theorem allNames_cons (st : Stmt) (rest : List Stmt) (x : Name) (h : x ∈ allNames rest) : x ∈ allNames (st :: rest) := by
  cases st with
  | allAssign l0 => simp only [allNames, List.mem_append]; exact Or.inr h
  | importMod _ _ => simpa only [allNames] using h
  | importFrom _ _ _ _ => simpa only [allNames] using h
  | importStar _ _ => simpa only [allNames] using h
  | classDef _ _ _ => simpa only [allNames] using h
  | funcDef _ => simpa only [allNames] using h
  | assign _ _ => simpa only [allNames] using h

theorem allNames_mem : ∀ {body : List Stmt} {l : List Name}, Stmt.allAssign l ∈ body → ∀ x ∈ l, x ∈ allNames body
  | [], _, h, _, _ => by cases h
  | st :: rest, l, h, x, hx => by
    rcases List.mem_cons.1 h with rfl | h'
    · simp only [allNames, List.mem_append]; exact Or.inl hx
    · exact allNames_cons st rest x (allNames_mem h' x hx)

theorem allOf_set {s : PyImp.St} {m t : Nat} {v : Option (List Name)} :
    allOf { s with alls := s.alls.set m v } t = if t = m ∧ m < s.alls.length then v else allOf s t := by
  unfold allOf
  simp only [List.getD_eq_getElem?_getD, List.getElem?_set]
  by_cases h : m = t
  · subst h
    by_cases hl : m < s.alls.length
    · simp only [hl, if_true, and_self, Option.getD_some]
    · have : s.alls[m]? = none := List.getElem?_eq_none (Nat.le_of_not_lt hl)
      simp only [hl, and_false, if_false, if_true, this, Option.getD_none]
  · have : ¬ (t = m ∧ m < s.alls.length) := fun hh => h hh.1.symm
    simp only [h, this, if_false]

theorem execAll_ok {proj : Project} {m : Nat} {cp : Path} {full : List Stmt} (hb : siteBody proj (m, cp) = some full)
    {l : List Name} (hst : Stmt.allAssign l ∈ full) {x : PyImp.St × Option Ns}
    (hI : PyInv proj x.1) (hf : FrOk proj x.1 (m, cp) x.2) : ExecOk proj (m, cp) x (execAll m l x) := by
  unfold execAll
  by_cases he : x.1.err = true
  · simp only [he, if_true]; exact ExecOk.refl hI hf
  · have he' : x.1.err = false := by simpa using he
    simp only [he', Bool.false_eq_true, if_false]
    cases hfr : x.2 with
    | some l' => simp only; exact ExecOk.refl hI hf
    | none =>
      simp only
      have hcp : cp = [] := hf.2 hfr
      subst hcp
      have hfull := siteBody_mod hb
      have hheap : HeapExt x.1 { x.1 with alls := x.1.alls.set m (some l), err := false } := fun _ _ h => h
      have hfrok : FrOk proj { x.1 with alls := x.1.alls.set m (some l), err := false } (m, []) none :=
        ⟨fun l' hl' => (by cases hl'), fun _ => rfl⟩
      refine ⟨⟨hI.mods, hI.heap, ?_, hI.nobases, hI.cls⟩, hheap, hfrok, ?_⟩
      · intro t l' hl' y hy
        have hl2 : allOf { x.1 with alls := x.1.alls.set m (some l) } t = some l' := hl'
        rw [allOf_set] at hl2
        split at hl2
        · rename_i hc
          injection hl2 with hl2; subst hl2
          rw [hc.1, ← hfull]; exact allNames_mem hst y hy
        · exact hI.alls t l' hl2 y hy
      · simp only [hfr]

theorem ExecOk.trans {proj : Project} {S : Site} {a b c : PyImp.St × Option Ns} (h1 : ExecOk proj S a b)
    (h2 : ExecOk proj S b c) : ExecOk proj S a c :=
  ⟨h2.1, h1.2.1.trans h2.2.1, h2.2.2.1, h2.2.2.2.trans h1.2.2.2⟩

theorem finishClass_ok {proj : Project} {m : Nat} {cp : Path} {full : List Stmt} (hb : siteBody proj (m, cp) = some full)
    {name : Name} {bs : List Path} {body : List Stmt} (hst : Stmt.classDef name bs body ∈ full)
    {fr : Option Ns} {s1 : PyImp.St} {fr1 : Option Ns} (hs : List Nat) (hhs : noBases proj = true → hs = [])
    (hI : PyInv proj s1) (hfo : FrOk proj s1 (m, cp) fr) (hfi : FrOk proj s1 (m, cp ++ [name]) fr1) :
    PyInv proj (finishClass m cp name hs fr s1 fr1).1 ∧ HeapExt s1 (finishClass m cp name hs fr s1 fr1).1 ∧
    FrOk proj (finishClass m cp name hs fr s1 fr1).1 (m, cp) (finishClass m cp name hs fr s1 fr1).2 ∧
    ((finishClass m cp name hs fr s1 fr1).2 = none ↔ fr = none) := by
  unfold finishClass
  by_cases he : s1.err = true
  · rw [if_pos he]; exact ⟨hI, HeapExt.refl _, hfo, Iff.rfl⟩
  · rw [if_neg he]
    generalize hs2 : ({ s1 with heap := s1.heap ++ [⟨m, cp ++ [name], hs, fr1.getD []⟩] } : PyImp.St) = s2
    have hext : HeapExt s1 s2 := by
      intro h co hh
      rw [← hs2]; simp only
      rw [List.getElem?_append_left (List.getElem?_eq_some_iff.1 hh).1]; exact hh
    have hnew : s2.heap[s1.heap.length]? = some ⟨m, cp ++ [name], hs, fr1.getD []⟩ := by
      rw [← hs2]; simp
    have hns2 : ∀ t, nsOf s2 t = nsOf s1 t := fun t => by rw [← hs2]; rfl
    have hI2 : PyInv proj s2 := by
      refine ⟨fun t => by rw [hns2]; exact (hI.mods t).ext hext, ?_, fun t l hl => hI.alls t l (by rw [← hs2] at hl; exact hl), ?_, ?_⟩
      rotate_left
      rotate_left
      · intro h co hh
        by_cases hlt : h < s1.heap.length
        · have hold : s1.heap[h]? = some co := by
            rw [← hs2] at hh; simp only at hh
            rw [List.getElem?_append_left hlt] at hh; exact hh
          exact hI.cls h co hold
        · have hlen : h < s2.heap.length := (List.getElem?_eq_some_iff.1 hh).1
          have : h = s1.heap.length := by rw [← hs2] at hlen; simp at hlen; omega
          subst this
          rw [hnew] at hh; injection hh with hh; subst hh
          exact ⟨cp, name, bs, body, full, rfl, hb, hst⟩
      rotate_left
      · intro hn h co hh
        by_cases hlt : h < s1.heap.length
        · have hold : s1.heap[h]? = some co := by
            rw [← hs2] at hh; simp only at hh
            rw [List.getElem?_append_left hlt] at hh; exact hh
          exact hI.nobases hn h co hold
        · have hlen : h < s2.heap.length := (List.getElem?_eq_some_iff.1 hh).1
          have : h = s1.heap.length := by rw [← hs2] at hlen; simp at hlen; omega
          subst this
          rw [hnew] at hh; injection hh with hh; subst hh
          exact hhs hn
      intro h co hh
      by_cases hlt : h < s1.heap.length
      · have hold : s1.heap[h]? = some co := by
          rw [← hs2] at hh; simp only at hh
          rw [List.getElem?_append_left hlt] at hh; exact hh
        exact (hI.heap h co hold).ext hext
      · have hlen : h < s2.heap.length := (List.getElem?_eq_some_iff.1 hh).1
        have : h = s1.heap.length := by rw [← hs2] at hlen; simp at hlen; omega
        subst this
        rw [hnew] at hh; injection hh with hh; subst hh
        simp only
        cases hfr1 : fr1 with
        | none => exact NsOk.nil
        | some l => exact (hfi.1 l hfr1).ext hext
    by_cases hm : (PyImp.mroOf s2 s1.heap.length).isNone = true
    · rw [if_pos hm]
      exact ⟨pyInv_err hI2 true, fun h co hh => hext h co hh, ⟨fun l hl => (hfo.1 l hl).ext hext, hfo.2⟩, Iff.rfl⟩
    · rw [if_neg hm]
      have hv : svalV s2 (.cls s1.heap.length) = some (.dfn m (cp ++ [name])) := by simp [svalV, hnew]
      have hfo2 := hfo.ext hext
      obtain ⟨h1, h2, h3, h4⟩ := bind_ok hI2 hfo2.1 hfo2.2 hv (Jpy.dfn hb hst rfl)
      exact ⟨h1, hext.trans h2, ⟨h3, fun h => hfo.2 (h4.1 h)⟩, h4⟩

mutual
theorem execStmt_ok {proj : Project} {rank : List Nat} (wf : WFacts proj rank) {imp : PyImp.St → Path → PyImp.St}
    (himp : ImpOk proj imp) {m : Nat} :
    ∀ (st : Stmt) (cp : Path) (full : List Stmt) (x : PyImp.St × Option Ns), siteBody proj (m, cp) = some full →
      st ∈ full → PyInv proj x.1 → FrOk proj x.1 (m, cp) x.2 → ExecOk proj (m, cp) x (execStmt proj imp m cp st x)
  | .importMod t a, cp, full, x, hb, hst, hI, hf => by simp only [execStmt]; exact execImport_ok himp hb hst hI hf
  | .importFrom l M n a, cp, full, x, hb, hst, hI, hf => by
    simp only [execStmt]; exact execImportFrom_ok himp hb hst hI hf
  | .importStar l M, cp, full, x, hb, hst, hI, hf => by simp only [execStmt]; exact execImportStar_ok himp hb hst hI hf
  | .classDef name bs body, cp, full, x, hb, hst, hI, hf => by
    simp only [execStmt]
    by_cases he : x.1.err = true
    · simp only [he, if_true]; exact ExecOk.refl hI hf
    · simp only [he]
      cases hev : evalBases x.1 m x.2 bs with
      | none =>
        simp only
        have : fail x = fail (x.1, x.2) := rfl
        rw [this]; exact ExecOk.fail hI (HeapExt.refl _) hf
      | some hs =>
        simp only
        have hbi : siteBody proj (m, cp ++ [name]) = some body := siteBody_snoc hb (findClass_of_mem wf hb hst)
        have hfi0 : FrOk proj x.1 (m, cp ++ [name]) (some []) :=
          ⟨fun l hl => by injection hl with hl; subst hl; exact NsOk.nil, fun h => by cases h⟩
        have hin := execStmts_ok wf himp body (cp ++ [name]) body (x.1, some []) hbi (fun _ h => h) hI hfi0
        obtain ⟨hI1, hx1, hfi1, _⟩ := hin
        have hhs : noBases proj = true → hs = [] := by
          intro hn
          have hbs : bs = [] := by
            have := allProj_spec hn hb hst
            simpa using this
          subst hbs
          simp [evalBases] at hev
          exact hev
        have := finishClass_ok hb hst (fr := x.2) hs hhs hI1 (hf.ext hx1) hfi1
        obtain ⟨h1, h2, h3, h4⟩ := this
        exact ⟨h1, HeapExt.trans hx1 h2, h3, h4⟩
  | .funcDef n, cp, full, x, hb, hst, hI, hf => by simp only [execStmt]; exact execDef_ok hb hst rfl hI hf
  | .assign n v, cp, full, x, hb, hst, hI, hf => by simp only [execStmt]; exact execDef_ok hb hst rfl hI hf
  | .allAssign l, cp, full, x, hb, hst, hI, hf => by simp only [execStmt]; exact execAll_ok hb hst hI hf
theorem execStmts_ok {proj : Project} {rank : List Nat} (wf : WFacts proj rank) {imp : PyImp.St → Path → PyImp.St}
    (himp : ImpOk proj imp) {m : Nat} :
    ∀ (sts : List Stmt) (cp : Path) (full : List Stmt) (x : PyImp.St × Option Ns), siteBody proj (m, cp) = some full →
      (∀ st ∈ sts, st ∈ full) → PyInv proj x.1 → FrOk proj x.1 (m, cp) x.2 →
      ExecOk proj (m, cp) x (execStmts proj imp m cp sts x)
  | [], cp, full, x, _, _, hI, hf => by simp only [execStmts]; exact ExecOk.refl hI hf
  | st :: rest, cp, full, x, hb, hsub, hI, hf => by
    simp only [execStmts]
    have h1 := execStmt_ok wf himp st cp full x hb (hsub st (List.mem_cons_self ..)) hI hf
    have h2 := execStmts_ok wf himp rest cp full _ hb (fun y hy => hsub y (List.mem_cons_of_mem _ hy)) h1.1 h1.2.2.1
    exact h1.trans h2
end

/-! ## importing a module; the whole run -/

theorem pyInv_ms {proj : Project} {s : PyImp.St} (hI : PyInv proj s) (ms' : List MState) : PyInv proj { s with ms := ms' } :=
  ⟨hI.mods, hI.heap, hI.alls, hI.nobases, hI.cls⟩

theorem ensure_ok {proj : Project} {rank : List Nat} (wf : WFacts proj rank) : ∀ f, ImpOk proj (ensure proj f)
  | 0 => fun s p hI => by simp only [ensure]; exact ⟨pyInv_err hI true, fun _ _ h => h⟩
  | f+1 => fun s p hI => by
    have ih := ensure_ok wf f
    simp only [ensure]
    by_cases he : s.err = true
    · rw [if_pos he]; exact ⟨hI, HeapExt.refl s⟩
    · rw [if_neg he]
      cases hm : modIdx proj p with
      | none => exact ⟨pyInv_err hI true, fun _ _ h => h⟩
      | some m =>
        simp only
        by_cases hin : inSys s m = true
        · rw [if_pos hin]; exact ⟨hI, HeapExt.refl s⟩
        · rw [if_neg hin]
          generalize hs1 : (if p.length ≤ 1 then s else ensure proj f s p.dropLast) = s1
          have h1 : PyInv proj s1 ∧ HeapExt s s1 := by
            rw [← hs1]; split
            · exact ⟨hI, HeapExt.refl s⟩
            · exact ih s _ hI
          obtain ⟨hI1, hx1⟩ := h1
          by_cases he1 : s1.err = true
          · rw [if_pos he1]; exact ⟨hI1, hx1⟩
          · rw [if_neg he1]
            by_cases hin1 : inSys s1 m = true
            · rw [if_pos hin1]; exact ⟨hI1, hx1⟩
            · rw [if_neg hin1]
              generalize (decide (p.length ≤ 1) || match modIdx proj p.dropLast with
                | some q => isPkg proj q | none => false) = parentOk
              by_cases hpo : (!parentOk) = true
              · rw [if_pos hpo]; exact ⟨pyInv_err hI1 true, fun h co hh => hx1 h co hh⟩
              · rw [if_neg hpo]
                obtain ⟨hlt, hpath⟩ := modIdx_spec hm
                have hmd : proj[m]? = some proj[m] := by simp [hlt]
                simp only [hmd]
                have hbody : siteBody proj (m, []) = some proj[m].body := by
                  rw [siteBody_zero hlt, bodyOf_eq hmd]
                have hI2 := pyInv_ms hI1 (s1.ms.set m .executing)
                have hex := execStmts_ok wf ih proj[m].body [] proj[m].body
                  ({ s1 with ms := s1.ms.set m .executing }, none) hbody (fun _ h => h) hI2
                  ⟨fun l hl => (by cases hl), fun _ => rfl⟩
                obtain ⟨hI3, hx3, _, _⟩ := hex
                generalize (execStmts proj (ensure proj f) m [] proj[m].body
                  ({ s1 with ms := s1.ms.set m .executing }, none)).1 = s3 at hI3 hx3 ⊢
                have hx13 : HeapExt s s3 := hx1.trans (fun h co hh => hx3 h co hh)
                by_cases he3 : s3.err = true
                · rw [if_pos he3]; exact ⟨hI3, hx13⟩
                · rw [if_neg he3]
                  have hI4 := pyInv_ms hI3 (s3.ms.set m .done)
                  by_cases hl : p.length ≤ 1
                  · rw [if_pos hl]; exact ⟨hI4, hx13⟩
                  · rw [if_neg hl]
                    cases hq : modIdx proj p.dropLast with
                    | none => exact ⟨hI4, hx13⟩
                    | some q =>
                      cases hnm : p.getLast? with
                      | none => exact ⟨hI4, hx13⟩
                      | some nm =>
                        simp only
                        have hpne : p ≠ [] := by intro h; subst h; simp at hnm
                        have hsplit : p.dropLast ++ [nm] = p := by
                          have := List.dropLast_concat_getLast hpne
                          rw [List.getLast?_eq_some_getLast hpne] at hnm
                          injection hnm with hnm; rw [← hnm]; exact this
                        have hchild : modIdx proj (pathOf proj q ++ [nm]) = some m := by
                          rw [(modIdx_spec hq).2, hsplit]; exact hm
                        exact ⟨pyInv_bindGlobal hI4 (v := .mod m) rfl (Jpy.child hchild), fun h co hh => hx13 h co hh⟩

theorem run_py_ok {proj : Project} {rank : List Nat} (wf : WFacts proj rank) (order : List Nat) :
    PyInv proj (PyImp.run proj order) := by
  unfold PyImp.run
  have h0 : PyInv proj (PyImp.initSt proj) := by
    refine ⟨fun m x v h => ?_, fun h co hh => ?_, fun m l h => ?_, fun _ h co hh => by simp [PyImp.initSt] at hh,
      fun h co hh => by simp [PyImp.initSt] at hh⟩
    · unfold nsOf PyImp.initSt at h
      simp only [List.getD_eq_getElem?_getD, List.getElem?_replicate] at h
      split at h <;> simp [dget] at h
    · simp [PyImp.initSt] at hh
    · unfold allOf PyImp.initSt at h
      simp only [List.getD_eq_getElem?_getD, List.getElem?_replicate] at h
      split at h <;> simp at h
  generalize PyImp.initSt proj = s0 at h0
  induction order generalizing s0 with
  | nil => exact h0
  | cons m rest ih => exact ih _ (ensure_ok wf _ s0 _ h0).1

/-! ## what `pyDenotes` answers is a `Jpy` derivation -/

theorem pymro_head (bases : Nat → List Nat) : ∀ (f c : Nat) (l : List Nat), PyMro.mroFuel bases f c = some l →
    ∃ t, l = c :: t
  | 0, _, _, h => by simp [PyMro.mroFuel] at h
  | f+1, c, l, h => by
    simp only [PyMro.mroFuel] at h
    cases hm : Mro.mapOpt (PyMro.mroFuel bases f) (bases c) with
    | none => simp [hm] at h
    | some lins =>
      simp only [hm] at h
      split at h
      · injection h with h; exact ⟨_, h.symm⟩
      · split at h
        · cases h
        · cases hp : PyMro.pmerge (lins ++ [bases c]) with
          | none => simp [hp] at h
          | some t => simp only [hp, Option.map_some, Option.some.injEq] at h; exact ⟨t, h.symm⟩

theorem getAttr_j {proj : Project} {s : PyImp.St} (hI : PyInv proj s) {v0 v1 : Val} {sv0 : SVal} {y : Name}
    (hs : svalV s v0 = some sv0) (h : getAttr s v0 y = some v1) (hown : ownAttr s v0 y = true) :
    ∃ sv1, svalV s v1 = some sv1 ∧ Jpy proj (scopeOf sv0) [y] sv1 := by
  cases v0 with
  | mod t =>
    simp only [svalV, Option.some.injEq] at hs; subst hs
    exact hI.mods t y v1 h
  | obj m cp => simp [getAttr] at h
  | cls hh =>
    simp only [svalV] at hs
    cases hc : s.heap[hh]? with
    | none => simp [hc] at hs
    | some co =>
      simp only [hc, Option.map_some, Option.some.injEq] at hs; subst hs
      simp only [ownAttr, hc, dhas] at hown
      cases hx : dget co.ns y with
      | none => simp [hx] at hown
      | some w =>
        simp only [getAttr] at h
        cases hm : PyImp.mroOf s hh with
        | none => simp [hm] at h
        | some l =>
          simp only [hm] at h
          obtain ⟨t, ht⟩ := pymro_head _ _ _ _ hm
          subst ht
          simp only [List.findSome?, hc, hx, Option.some.injEq] at h
          subst h
          exact hI.heap hh co hc y w hx

theorem getAttrs_j {proj : Project} {s : PyImp.St} (hI : PyInv proj s) :
    ∀ (ys : List Name) (v0 v : Val) (sv0 : SVal), svalV s v0 = some sv0 → getAttrs s v0 ys = some v → ys ≠ [] →
      ownAttrs s v0 ys = true → ∃ sv, svalV s v = some sv ∧ Jpy proj (scopeOf sv0) ys sv
  | [], _, _, _, _, _, hne, _ => absurd rfl hne
  | [y], v0, v, sv0, hs, h, _, hown => by
    simp only [getAttrs] at h
    simp only [ownAttrs, Bool.and_eq_true] at hown
    cases ha : getAttr s v0 y with
    | none => simp [ha] at h
    | some w => simp only [ha, getAttrs, Option.some.injEq] at h; subst h; exact getAttr_j hI hs ha hown.1
  | y :: y2 :: ys, v0, v, sv0, hs, h, _, hown => by
    simp only [getAttrs] at h
    simp only [ownAttrs, Bool.and_eq_true] at hown
    cases ha : getAttr s v0 y with
    | none => simp [ha] at h
    | some w =>
      simp only [ha] at h hown
      obtain ⟨sw, hsw, hjw⟩ := getAttr_j hI hs ha hown.1
      obtain ⟨sv, hsv, hj⟩ := getAttrs_j hI (y2 :: ys) w v sw hsw h (by simp) hown.2
      exact ⟨sv, hsv, Jpy.cons hjw hj⟩

theorem denoteIn_j {proj : Project} {s : PyImp.St} (hI : PyInv proj s) {S : Site} {ns : Ns} (hns : NsOk proj s S ns)
    {name : Path} {v : Val} (h : denoteIn s ns name = some v) (hown : ownIn s ns name = true) :
    ∃ sv, svalV s v = some sv ∧ Jpy proj S name sv := by
  cases name with
  | nil => simp [denoteIn] at h
  | cons x rest =>
    simp only [denoteIn] at h
    cases hd : dget ns x with
    | none => simp [hd] at h
    | some v0 =>
      simp only [hd] at h
      obtain ⟨sv0, hs0, hj0⟩ := hns x v0 hd
      cases rest with
      | nil => simp only [getAttrs, Option.some.injEq] at h; subst h; exact ⟨sv0, hs0, hj0⟩
      | cons y ys =>
        simp only [ownIn, hd] at hown
        obtain ⟨sv, hsv, hj⟩ := getAttrs_j hI (y :: ys) v0 v sv0 hs0 h (by simp) hown
        exact ⟨sv, hsv, Jpy.cons hj0 hj⟩

theorem walkNs_j {proj : Project} {s : PyImp.St} (hI : PyInv proj s) :
    ∀ (cp : List Name) (ns ns' : Ns) (S : Site), NsOk proj s S ns → walkNs s ns cp = some ns' →
      ∃ S', NsOk proj s S' ns' ∧ ((cp = [] ∧ S' = S) ∨ (cp ≠ [] ∧ Jpy proj S cp (.dfn S'.1 S'.2)))
  | [], ns, ns', S, hns, h => by
    simp only [walkNs, Option.some.injEq] at h; subst h
    exact ⟨S, hns, Or.inl ⟨rfl, rfl⟩⟩
  | c :: cs, ns, ns', S, hns, h => by
    simp only [walkNs] at h
    cases hd : dget ns c with
    | none => simp [hd] at h
    | some v0 =>
      simp only [hd] at h
      cases v0 with
      | mod t => simp at h
      | obj m cp => simp at h
      | cls hh =>
        simp only at h
        cases hc : s.heap[hh]? with
        | none => simp [hc] at h
        | some co =>
          simp only [hc] at h
          obtain ⟨sv0, hs0, hj0⟩ := hns c _ hd
          simp only [svalV, hc, Option.map_some, Option.some.injEq] at hs0; subst hs0
          obtain ⟨S', hns', hcase⟩ := walkNs_j hI cs co.ns ns' (co.mod, co.cp) (hI.heap hh co hc) h
          refine ⟨S', hns', Or.inr ⟨by simp, ?_⟩⟩
          rcases hcase with ⟨hcs, hS⟩ | ⟨hcs, hj⟩
          · subst hcs; subst hS; exact hj0
          · cases cs with
            | nil => exact absurd rfl hcs
            | cons y ys => exact Jpy.cons hj0 hj

theorem identOf_sval {proj : Project} {s : PyImp.St} {v : Val} {sv : SVal} (h : svalV s v = some sv) :
    PyImp.identOf proj s v = some (identSV proj sv) := by
  cases v with
  | mod m => simp only [svalV, Option.some.injEq] at h; subst h; rfl
  | obj m cp => simp only [svalV, Option.some.injEq] at h; subst h; rfl
  | cls hh =>
    simp only [svalV] at h
    cases hc : s.heap[hh]? with
    | none => simp [hc] at h
    | some co => simp only [hc, Option.map_some, Option.some.injEq] at h; subst h; simp [PyImp.identOf, hc, identSV]

/-- **what Python's run answers is derivable**: the scope reached through the class chain `cp` is a
static site `S` (the module itself, or the class `Jpy` gives for `cp`), and the identity answered
for `name` is that of a value `Jpy` gives for `name` in `S` -/
theorem pyDenotes_j {proj : Project} {rank : List Nat} (wf : WFacts proj rank) {order : List Nat} {m : Nat}
    {cp : List Name} {name : Path} {id : Ident} (h : pyDenotes proj order m cp name = some id)
    (hown : pyOwn proj order m cp name = true) :
    ∃ S sv, ((cp = [] ∧ S = (m, [])) ∨ (cp ≠ [] ∧ Jpy proj (m, []) cp (.dfn S.1 S.2))) ∧
      Jpy proj S name sv ∧ identSV proj sv = id := by
  have hI := run_py_ok wf order
  unfold pyDenotes denoteAt at h
  unfold pyOwn at hown
  simp only at hown
  generalize PyImp.run proj order = s at hI h hown
  split at h
  · cases h
  · cases hw : walkNs s (nsOf s m) cp with
    | none => simp [hw] at h
    | some ns =>
      simp only [hw] at h hown
      cases hd : denoteIn s ns name with
      | none => simp [hd] at h
      | some v =>
        simp only [hd] at h
        obtain ⟨S, hns, hcase⟩ := walkNs_j hI cp _ ns (m, []) (hI.mods m) hw
        obtain ⟨sv, hsv, hj⟩ := denoteIn_j hI hns hd hown
        rw [identOf_sval hsv] at h
        injection h with h
        exact ⟨S, sv, hcase, hj, h⟩

end Imports

namespace Imports
open Registry
open PyImp

/-! ## without base classes every attribute of a class is its own -/

theorem getAttr_own_nb {proj : Project} {s : PyImp.St} (hI : PyInv proj s) (hn : noBases proj = true) {v w : Val}
    {y : Name} (h : getAttr s v y = some w) : ownAttr s v y = true := by
  cases v with
  | mod t => rfl
  | obj m cp => rfl
  | cls hh =>
    simp only [ownAttr]
    cases hc : s.heap[hh]? with
    | none =>
      exfalso
      have hb : basesOf s hh = [] := by simp [basesOf, hc]
      have hm : PyImp.mroOf s hh = some [hh] := by
        unfold PyImp.mroOf
        simp [PyMro.mroFuel, hb, Mro.mapOpt, PyMro.hasDup]
        decide
      simp [getAttr, hm, List.findSome?, hc] at h
    | some co =>
      simp only
      have hb : basesOf s hh = [] := by simp [basesOf, hc, hI.nobases hn hh co hc]
      have hm : PyImp.mroOf s hh = some [hh] := by
        unfold PyImp.mroOf
        simp [PyMro.mroFuel, hb, Mro.mapOpt, PyMro.hasDup]
        decide
      simp only [getAttr, hm, List.findSome?, hc] at h
      unfold dhas
      cases hx : dget co.ns y with
      | none => simp [hx] at h
      | some w' => rfl

theorem ownAttrs_nb {proj : Project} {s : PyImp.St} (hI : PyInv proj s) (hn : noBases proj = true) :
    ∀ (ys : List Name) (v w : Val), getAttrs s v ys = some w → ownAttrs s v ys = true
  | [], _, _, _ => rfl
  | y :: ys, v, w, h => by
    simp only [getAttrs] at h
    cases ha : getAttr s v y with
    | none => simp [ha] at h
    | some u =>
      simp only [ha] at h
      simp only [ownAttrs, ha, Bool.and_eq_true]
      exact ⟨getAttr_own_nb hI hn ha, ownAttrs_nb hI hn ys u w h⟩

/-- in a project without base classes, whatever Python binds is bound without inheritance -/
theorem pyOwn_of_noBases {proj : Project} {rank : List Nat} (wf : WFacts proj rank) (hn : noBases proj = true)
    {order : List Nat} {m : Nat} {cp : List Name} {name : Path} {id : Ident}
    (h : pyDenotes proj order m cp name = some id) : pyOwn proj order m cp name = true := by
  have hI := run_py_ok wf order
  unfold pyDenotes denoteAt at h
  unfold pyOwn
  simp only
  generalize PyImp.run proj order = s at hI h
  split at h
  · cases h
  · cases hw : walkNs s (nsOf s m) cp with
    | none => rfl
    | some ns =>
      simp only [hw] at h ⊢
      cases name with
      | nil => rfl
      | cons x rest =>
        simp only [ownIn]
        cases hd : dget ns x with
        | none => rfl
        | some v =>
          simp only
          cases hg : getAttrs s v rest with
          | none => simp [denoteIn, hd, hg] at h
          | some w => exact ownAttrs_nb hI hn rest v w hg

end Imports

/-! # Part 2, resolution on a finished state

C04: pydoctor's name resolution on a finished, well-behaved state agrees with the static relation
`Jpy` (`expand_sound`, `resolve_sound_state`).
-/

namespace Imports
open Registry

theorem expandLoop_found {e : Names.Env} {i : Nat} {first : Bool} {y : Name} {rest : List Name} {fn : Path}
    (hc : Names.componentName e i first y = some fn) (hne : (decide (fn = [y]) && !first) = false) :
    Names.expandLoop e i first (y :: rest) =
      match Names.objFor e fn with
      | none => some (fn ++ rest)
      | some nxt => match rest with
        | [] => some fn
        | _ :: _ => Names.expandLoop e nxt false rest := by
  rw [Names.expandLoop]
  simp only [hc, hne, Bool.false_eq_true, if_false]
  cases Names.objFor e fn <;> cases rest <;> rfl

theorem expandLoop_notfound {e : Names.Env} {i : Nat} {y : Name} {rest : List Name} {o : Obj} {op : Path}
    (hc : Names.componentName e i false y = some [y]) (ho : getObj e.st i = some o) (hcls : o.cls ≠ .cls)
    (hp : path e.st i = some op) :
    Names.expandLoop e i false (y :: rest) = some (op ++ [y] ++ rest) := by
  rw [Names.expandLoop]
  simp [hc, ho, hcls, hp]

theorem mroFuel_head (bases : Nat → List Nat) : ∀ (f c : Nat) (l : List Nat), Mro.mroFuel bases f c = some l →
    ∃ t, l = c :: t
  | 0, _, _, h => by simp [Mro.mroFuel] at h
  | f+1, c, l, h => by
    simp only [Mro.mroFuel] at h
    split at h
    · injection h with h; exact ⟨[], h.symm⟩
    · cases hm : Mro.mapOpt (Mro.mroFuel bases f) (bases c) with
      | none => simp [hm] at h
      | some lins =>
        simp only [hm] at h
        cases hp : Mro.merge (lins ++ [bases c]) with
        | none => simp [hp] at h
        | some t => simp only [hp, Option.map_some, Option.some.injEq] at h; exact ⟨t, h.symm⟩

/-- the final linearisation of a class starts with the class itself -/
theorem mroOf_final_head (s : St) (c : Nat) : ∃ t, Names.mroOf (finalEnv s) c = c :: t := by
  unfold Names.mroOf finalEnv
  simp only
  cases hd : dget (finalMro s) c with
  | none => exact ⟨[], rfl⟩
  | some v =>
    unfold finalMro at hd
    have := dget_map_key (fun c => match Mro.mroFuel (finalBases s) (s.reg.objs.length + 1) c with
      | some l => l
      | none => Mro.allbasesFuel (finalBases s) (fun _ => false) (s.reg.objs.length + 1) c) _ _ _ hd
    simp only [Option.getD_some, this]
    cases hm : Mro.mroFuel (finalBases s) (s.reg.objs.length + 1) c with
    | some l => simp only; exact mroFuel_head _ _ _ _ hm
    | none => simp only [Mro.allbasesFuel]; exact ⟨_, rfl⟩

/-- inside a class, an alias that maps a name to itself comes from `import y…`: `y` is a root module -/
theorem jpd_self_root_aux {proj : Project} {rank : List Nat} (wf : WFacts proj rank) :
    ∀ {S : Site} {x : Name} {tgt : Path}, Jpd proj S x tgt → tgt = [x] → S.2 ≠ [] →
      ∃ root, modIdx proj [x] = some root := by
  intro S x tgt h
  induction h with
  | @importAs S b tgt x hb hst =>
    intro htg _
    obtain ⟨t', ht', _⟩ := wf.targets hb hst (modIdx proj tgt) (by simp [stmtTargets])
    exact ⟨t', by rw [← htg]; exact ht'⟩
  | @importTop S b h r hb hst =>
    intro _ _
    obtain ⟨t', ht', _⟩ := wf.targets hb hst (modIdx proj (h :: r)) (by simp [stmtTargets])
    obtain ⟨hlt, hp⟩ := modIdx_spec ht'
    obtain ⟨r0, rest, root, hpp, hroot, _⟩ := canon_mod wf t' hlt
    rw [hp] at hpp; injection hpp with e1 _; subst e1
    exact ⟨root, hroot⟩
  | @«from» S b lvl M n a T hb hst hT =>
    intro htg _
    exfalso
    obtain ⟨t', ht', _⟩ := wf.targets hb hst (target proj S.1 lvl M) (by simp [stmtTargets])
    obtain ⟨T', hT', hm⟩ := target_spec ht'
    have := abs_eq hT hT'; subst this
    obtain ⟨hlt, hp⟩ := modIdx_spec hm
    have hne := (wf.parentOk t' hlt).1
    rw [hp] at hne
    have hl := congrArg List.length htg
    simp only [List.length_append, List.length_singleton, List.length_cons, List.length_nil] at hl
    exact hne (List.eq_nil_of_length_eq_zero (by omega))
  | starChild hb hst _ _ _ _ => intro _ hS; exact absurd (wf.nostar hb hst) hS
  | starAlias hb hst _ _ _ _ _ => intro _ hS; exact absurd (wf.nostar hb hst) hS
  | starNone hb hst _ _ _ => intro _ hS; exact absurd (wf.nostar hb hst) hS

theorem jpd_self_root {proj : Project} {rank : List Nat} (wf : WFacts proj rank) {S : Site} {y : Name}
    (h : Jpd proj S y [y]) (hS : S.2 ≠ []) : ∃ root, modIdx proj [y] = some root :=
  jpd_self_root_aux wf h rfl hS

/-- the object pydoctor creates for a `def` / assignment is not a scope Python can look into -/
theorem no_jpy_nonclass {proj : Project} {rank : List Nat} (wf : WFacts proj rank) {S : Site} {c : Cls}
    (hk : ObjKind proj S c) (hc : canContainImports c = false) {y : Name} {w : SVal} : ¬ Jpy proj S [y] w := by
  intro hj
  cases hk with
  | mod hm => unfold modCls at hc; split at hc <;> simp [canContainImports] at hc
  | @dfn m cp b0 st n c hb0 hst hkind =>
    rcases jpy_inv wf hj with ⟨hS, _⟩ | ⟨b, st', hb, _, _, _⟩
    · simp at hS
    · have hb' := siteBody_bodyAt hb
      simp only at hb'
      rw [bodyAt_append] at hb'
      have hb0' := siteBody_bodyAt hb0
      simp only at hb0'
      rw [hb0'] at hb'
      simp only [Option.bind_some, bodyAt] at hb'
      cases hf : findClass b0 n with
      | none => simp [hf] at hb'
      | some b1 =>
        obtain ⟨bs, hm⟩ := findClass_mem hf
        have := same_stmt wf hb0 hst hm (x := n) (stmtNames_of_explicit (defName_explicit (stKind_defName hkind)))
          (stmtNames_of_explicit (by simp [explicitNames]))
        subst this
        simp only [stKind, Option.some.injEq, Prod.mk.injEq] at hkind
        rw [← hkind.2] at hc; simp [canContainImports] at hc

theorem ObjKind.ident {proj : Project} {s : St} {j : Nat} {o : Obj} {S : Site} (hk : ObjKind proj S o.cls)
    (ho : s.reg.objs[j]? = some o) (hp : path s.reg j = some (sitePath proj S)) :
    identOf s.reg j = some (identSV proj (svalOf S)) := by
  unfold identOf
  have : getObj s.reg j = some o := ho
  simp only [this, hp]
  obtain ⟨m, cp⟩ := S
  by_cases hcp : cp = []
  · subst hcp
    have := hk.isMod.2 rfl
    simp [this, svalOf, identSV, sitePath]
  · have : isModuleCls o.cls = false := by
      cases h : isModuleCls o.cls with
      | false => rfl
      | true => exact absurd (hk.isMod.1 h) hcp
    simp [this, svalOf, hcp, identSV, sitePath]

/-- **expandName is sound**: on a finished well-behaved state, the dotted name that `expandName`
returns for `ys` looked up in object `i` (scope `S`) denotes — as an absolute dotted name — whatever
Python gives for `ys` in `S`. -/
theorem expand_sound {proj : Project} {rank : List Nat} (wf : WFacts proj rank) {s : St} (hI : PdInv proj s)
    (hn : NoProcessing s) (e : Names.Env) (he : e.st = s.reg) (hmro : ∀ c, ∃ t, Names.mroOf e c = c :: t) :
    ∀ (ys : List Name) (i : Nat) (first : Bool) (S : Site) (o : Obj) (v : SVal) (p : Path),
      s.reg.objs[i]? = some o → path s.reg i = some (sitePath proj S) → ObjKind proj S o.cls →
      Jpy proj S ys v → Names.expandLoop e i first ys = some p → AbsDenW proj p v
  | [], _, _, _, _, _, _, _, _, _, _, hx => by simp [Names.expandLoop] at hx
  | y :: rest, i, first, S, o, v, p, ho, hp, hk, hj, hx => by
    -- the value of the first component, and what is left
    obtain ⟨w, hw, hrest⟩ : ∃ w, Jpy proj S [y] w ∧
        ((rest = [] ∧ v = w) ∨ (∃ y2 r, rest = y2 :: r ∧ Jpy proj (scopeOf w) (y2 :: r) v)) := by
      cases rest with
      | nil => exact ⟨v, hj, Or.inl ⟨rfl, rfl⟩⟩
      | cons y2 r =>
        obtain ⟨w, h1, h2⟩ := jpy_cons_inv hj
        exact ⟨w, h1, Or.inr ⟨y2, r, rfl, h2⟩⟩
    have hgo : getObj e.st i = some o := by rw [he]; exact ho
    have hpe : path e.st i = some (sitePath proj S) := by rw [he]; exact hp
    have hcanon := canon_site wf hk.static
    have hSne : sitePath proj S ≠ [] := by
      obtain ⟨r, rest', root, hpp, _⟩ := hcanon; rw [hpp]; simp
    -- `S.y` and `S.y.rest` as absolute names
    have hfullW : AbsDenW proj (sitePath proj S ++ y :: rest) v :=
      (AbsDen.ext hcanon (by rw [scopeOf_svalOf]; exact hj)).weak
    -- what happens once the component has been turned into the dotted name `fn`
    have cont : ∀ fn : Path, AbsDenW proj fn w → fn ≠ [] → (decide (fn = [y]) && !first) = false →
        Names.componentName e i first y = some fn → AbsDenW proj p v := by
      intro fn hfw hfne hnb hcn
      rw [expandLoop_found hcn hnb] at hx
      cases hof : Names.objFor e fn with
      | none =>
        simp only [hof, Option.some.injEq] at hx; subst hx
        rcases hrest with ⟨hr, hv⟩ | ⟨y2, r, hr, hjr⟩
        · subst hr; subst hv; simpa using hfw
        · subst hr; exact AbsDenW.ext hfw hfne hjr
      | some nxt =>
        simp only [hof] at hx
        have hreg : dget s.reg.all fn = some nxt := by
          have := hof; unfold Names.objFor at this; rw [he] at this; exact this
        have hpn : path s.reg nxt = some fn := hI.reg.reg.keys fn nxt (mem_of_dget hreg)
        obtain ⟨on, hon⟩ : ∃ on, s.reg.objs[nxt]? = some on := by
          have := path_lt hpn; exact ⟨s.reg.objs[nxt], by simp [this]⟩
        obtain ⟨Sn, hkn, hpn'⟩ := hI.site nxt on hon
        rw [hpn] at hpn'; injection hpn' with hpn'
        have hcn' := canon_site wf hkn.static
        rw [← hpn'] at hcn'
        have hwv : svalOf Sn = w := AbsDen.fun wf hcn' hfw
        rcases hrest with ⟨hr, hv⟩ | ⟨y2, r, hr, hjr⟩
        · subst hr; subst hv
          simp only [Option.some.injEq] at hx; subst hx; exact hfw
        · subst hr
          simp only at hx
          rw [← hwv, scopeOf_svalOf] at hjr
          exact expand_sound wf hI hn e he hmro (y2 :: r) nxt false Sn on v p hon (by rw [hpn, hpn']) hkn hjr hx
    by_cases hcan : canContainImports o.cls = true
    · cases hdc : dget o.contents y with
      | some c =>
        -- an entry of `contents`: the qualified name of the child
        have hcn : Names.componentName e i first y = some (sitePath proj S ++ [y]) := by
          rw [Names.componentName_contents first hgo hdc]
          unfold Names.fuelOf
          rw [Names.localName_contents _ hgo hcan hdc, he]
          exact path_child hI.reg ho hdc hp
        refine cont _ (AbsDen.ext hcanon (by rw [scopeOf_svalOf]; exact hw)).weak (by simp) ?_ hcn
        have : sitePath proj S ++ [y] ≠ [y] := by
          intro h
          have := congrArg List.length h
          simp at this
          exact hSne this
        simp [this]
      | none =>
        cases hda : dget o.aliases y with
        | some tgt =>
          have hjd : Jpd proj S y tgt := hI.alias i o S ho hp hk.static y tgt hda
          have hcn : Names.componentName e i first y = some tgt := by
            rw [Names.componentName_alias first hgo hda]
            unfold Names.fuelOf
            exact Names.localName_alias _ hgo hcan hdc hda
          by_cases hnb : (decide (tgt = [y]) && !first) = false
          · exact cont tgt (jpd_jpy wf hjd hw) (jpd_ne_nil wf hjd) hnb hcn
          · -- the alias maps the name to itself and we are not at the first component: "not found"
            have hnb' : tgt = [y] ∧ first = false := by
              cases first <;> simp_all
            obtain ⟨ht, hf⟩ := hnb'
            subst hf
            rw [ht] at hcn
            by_cases hcl : o.cls = .cls
            · -- a class: the inherited-member step starts with the class itself, whose alias says `[y]` again
              rw [Names.expandLoop] at hx
              have hcl' : Names.classLookup e i y = some [y] := by
                unfold Names.classLookup
                obtain ⟨t, ht'⟩ := hmro i
                rw [ht']
                simp [List.findSome?, hgo, hdc, hda, ht]
              simp [hcn, hgo, hcl, hcl', hpe] at hx
              subst hx
              simpa using hfullW
            · rw [expandLoop_notfound hcn hgo hcl hpe] at hx
              simp only [Option.some.injEq] at hx; subst hx
              simpa using hfullW
        | none =>
          -- neither defined nor imported here
          have hcl : o.cls ≠ .cls := by
            intro hcl
            -- a class scope in which Python binds the name holds an entry for it
            have hS2 : S.2 ≠ [] := by
              intro h0
              have := hk.isMod.2 h0
              rw [hcl] at this; simp [isModuleCls] at this
            rcases jpy_inv wf hw with ⟨h0, _⟩ | ⟨b, st, hb, hst, hxs, _⟩
            · exact hS2 h0
            · have hcomp := class_complete hI hn hp hk.static hS2 hb
              have hex : y ∈ explicitNames st :=
                explicit_of_stmtNames (fun lvl M hst' => hS2 (wf.nostar hb (hst' ▸ hst))) hxs
              obtain ⟨o', ho', hent⟩ := complete_entry (hcomp.mem hst) hex
              rw [ho] at ho'; injection ho' with ho'; subst ho'
              rcases hent with h | h
              · exact h hdc
              · exact h hda
          have hmo : isModuleCls o.cls = true := by
            cases hc : o.cls <;> simp_all [canContainImports, isModuleCls]
          have hcn : Names.componentName e i first y = some [y] := by
            unfold Names.componentName
            simp only [hgo, hcl, decide_false, Bool.and_false, Bool.false_and, Bool.false_eq_true, if_false]
            rw [localName_module hgo hmo]; simp [hdc, hda]
          cases first with
          | true =>
            -- a bare name at the first position: a root module of that name, if there is one
            refine cont [y] ?_ (by simp) (by simp) hcn
            intro r rest' root hpr hroot
            injection hpr with e1 e2; subst e1; subst e2
            exact Or.inl ⟨rfl, jpy_root wf hw y root rfl hroot⟩
          | false =>
            rw [expandLoop_notfound hcn hgo hcl hpe] at hx
            simp only [Option.some.injEq] at hx; subst hx
            simpa using hfullW
    · exact absurd hw (no_jpy_nonclass wf hk (by simpa using hcan))

/-- a registered name that denotes `v` is the name of the object standing for `v` -/
theorem registered_ident {proj : Project} {rank : List Nat} (wf : WFacts proj rank) {s : St} (hI : PdInv proj s)
    {p : Path} {v : SVal} {j : Nat} (hden : AbsDenW proj p v) (hreg : dget s.reg.all p = some j) :
    identOf s.reg j = some (identSV proj v) := by
  have hpj : path s.reg j = some p := hI.reg.reg.keys p j (mem_of_dget hreg)
  obtain ⟨oj, hoj⟩ : ∃ oj, s.reg.objs[j]? = some oj := ⟨s.reg.objs[j]'(path_lt hpj), by simp [path_lt hpj]⟩
  obtain ⟨Sj, hkj, hpj'⟩ := hI.site j oj hoj
  rw [hpj] at hpj'; injection hpj' with hpj'
  have hc := canon_site wf hkj.static
  rw [← hpj'] at hc
  have := AbsDen.fun wf hc hden
  rw [← this]
  exact hkj.ident hoj (by rw [hpj, hpj'])

/-- **resolveName is sound on a finished well-behaved state** -/
theorem resolve_sound_state {proj : Project} {rank : List Nat} (wf : WFacts proj rank) {s : St} (hI : PdInv proj s)
    (hn : NoProcessing s) {i : Nat} {o : Obj} {S : Site} (ho : s.reg.objs[i]? = some o)
    (hp : path s.reg i = some (sitePath proj S)) (hk : ObjKind proj S o.cls) {name : Path} {v : SVal} {j : Nat}
    (hj : Jpy proj S name v) (hr : Names.resolveName (finalEnv s) i name = some j) :
    identOf s.reg j = some (identSV proj v) := by
  have hmro := mroOf_final_head s
  unfold Names.resolveName at hr
  cases hx : Names.expandName (finalEnv s) i name with
  | none => simp [hx] at hr
  | some p =>
    simp only [hx] at hr
    have hden := expand_sound wf hI hn (finalEnv s) rfl hmro name i true S o v p ho hp hk hj hx
    cases hof : Names.objFor (finalEnv s) p with
    | some j' =>
      simp only [hof, Option.some.injEq] at hr; subst hr
      exact registered_ident wf hI hden hof
    | none =>
      simp only [hof] at hr
      cases hfo : Names.findObject (finalEnv s) p with
      | obj j' =>
        simp only [hfo, Option.some.injEq] at hr; subst hr
        have hfo := Names.findObject_old_of_obj hfo
        unfold Names.findObjectOld at hfo
        simp only [hof] at hfo
        cases p with
        | nil => simp at hfo
        | cons r rest =>
          simp only at hfo
          split at hfo
          · cases hfo
          · rename_i ro hfind
            by_cases hrest : rest = []
            · simp [hrest] at hfo
            · simp only [hrest, if_false] at hfo
              cases hx2 : Names.expandName (finalEnv s) ro rest with
              | none => simp [hx2] at hfo
              | some p2 =>
                simp only [hx2] at hfo
                cases hof2 : Names.objFor (finalEnv s) p2 with
                | none => simp [hof2] at hfo
                | some j2 =>
                  simp only [hof2, Names.Found.obj.injEq] at hfo; subst hfo
                  -- the root object found by name
                  have hmem := List.mem_of_find?_eq_some hfind
                  have hpred := List.find?_some hfind
                  obtain ⟨oo, hoo, hpar⟩ := hI.reg.tree.rootsOk ro hmem
                  have hgo : getObj (finalEnv s).st ro = some oo := hoo
                  simp only [hgo, decide_eq_true_eq] at hpred
                  have hpro : path s.reg ro = some [r] := by
                    rw [← hpred]; simp only [path]; exact pathAux_root hoo hpar
                  obtain ⟨Sr, hkr, hpr'⟩ := hI.site ro oo hoo
                  rw [hpro] at hpr'; injection hpr' with hpr'
                  -- it is a root module of the project
                  obtain ⟨m, cp⟩ := Sr
                  have hlt := hkr.static.1
                  simp only at hlt
                  have hne := (wf.parentOk m hlt).1
                  have hcp : cp = [] ∧ pathOf proj m = [r] := by
                    simp only [sitePath] at hpr'
                    cases hpm : pathOf proj m with
                    | nil => exact absurd hpm hne
                    | cons a as =>
                      rw [hpm] at hpr'
                      simp only [List.cons_append, List.cons.injEq] at hpr'
                      obtain ⟨h1, h2⟩ := hpr'
                      have h3 := List.append_eq_nil_iff.1 h2.symm
                      exact ⟨h3.2, by rw [h1, h3.1]⟩
                  obtain ⟨hcp, hpm⟩ := hcp
                  subst hcp
                  have hroot : modIdx proj [r] = some m := by rw [← hpm]; exact modIdx_of_path wf.modNodup hlt
                  rcases hden r rest m rfl hroot with ⟨h0, _⟩ | ⟨_, hjr⟩
                  · exact absurd h0 hrest
                  · have hden2 := expand_sound wf hI hn (finalEnv s) rfl hmro rest ro true (m, []) oo v p2 hoo
                      (by rw [hpro]; simp [sitePath, hpm]) hkr hjr hx2
                    exact registered_ident wf hI hden2 hof2
      | external => simp [hfo] at hr
      | lookupError => simp [hfo] at hr
      | indexError => simp [hfo] at hr
      | crash => simp [hfo] at hr

end Imports
