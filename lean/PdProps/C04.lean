/-
C04 — a name resolves to what Python would bind it to, or not at all.

Part 1 (namespace `Names`): theorems over `PdModel.Names` on a DUMPED state: totality, the two
completeness clauses of the property, the relative-import rule.

Part 2 (namespace `Imports`): the code that BUILDS the alias maps (`PdModel/Imports.lean`) against
CPython's import machinery (`PdModel/PyImp.lean`) on an abstract syntax of projects: soundness
(`resolve_sound_partial`), order independence, the completeness clauses for projects, non-vacuity.
Layers: static relations and `WF` facts; the invariant of the pydoctor machine; the invariant of the
Python machine; `expandName`/`resolveName` on a finished state; the theorems.
-/
import PdModel.Names
import PdModel.Imports
import PdModel.PyImp
import PdProps.C07
import PdProps.C04Base
import PdProps.C04Clean
import PdProps.C04Inh
import PdProps.C04ReexpC
import PdProps.C04ReexpE
import PdProps.C04ReexpF
import PdProps.C04ReexpG

namespace Names
open Registry

/-- `expandName` is a total function of the state: every call returns (a value or the explicit
crash outcome) — there is no unbounded recursion in the resolution loop (structural in the
dotted name, fuel-bounded in the parent walk). -/
theorem expand_total (e : Env) (obj : Nat) (name : Path) :
    ∃ r, expandName e obj name = r := ⟨_, rfl⟩

/-- whatever `resolveName` returns is a registered object (it can only answer with objects that
are documented) -/
theorem resolve_registered (e : Env) (obj : Nat) (name : Path) (i : Nat)
    (h : resolveName e obj name = some i) : ∃ p, dget e.st.all p = some i := by
  unfold resolveName at h
  cases h1 : expandName e obj name with
  | none => simp [h1] at h
  | some p =>
    simp only [h1] at h
    cases h2 : objFor e p with
    | some o => simp only [h2] at h; injection h with h; subst h; exact ⟨p, h2⟩
    | none =>
      simp only [h2] at h
      cases h3 : findObject e p with
      | obj o => simp only [h3] at h; injection h with h; subst h; exact findObject_registered e p _ h3
      | external => simp [h3] at h
      | lookupError => simp [h3] at h
      | indexError => simp [h3] at h
      | crash => simp [h3] at h

/-- **completeness, clause 1**: a name bound in a module by `from m import x [as y]` — i.e. the
alias table maps `y` to the qualified name of a registered object and nothing in the module's
own contents shadows it — resolves to that object. -/
theorem resolve_direct_import (e : Env) (scope : Nat) (so : Obj) (y : Name) (target : Path) (o : Nat)
    (hs : getObj e.st scope = some so)
    (hm : so.cls = .module ∨ so.cls = .package)
    (hc : dget so.contents y = none)
    (ha : dget so.aliases y = some target)
    (ho : objFor e target = some o) :
    resolveName e scope [y] = some o := by
  unfold resolveName
  rw [expand_single_local]
  have hl : localName e (fuelOf e) scope y = some target := by
    unfold fuelOf
    rw [show e.st.objs.length + 1 = (e.st.objs.length) + 1 from rfl]
    unfold localName
    rcases hm with hm | hm <;> simp [hs, hm, hc, ha]
  simp [hl, ho]

/-- **completeness, clause 2**: `alias.x`, where `alias` was bound by `import m as alias`
(alias table maps it to the registered module `m`) and `x` is an entry of `m`'s contents that is
registered under its own qualified name, resolves to that entry. -/
theorem resolve_module_alias (e : Env) (scope mid c : Nat) (so mo : Obj) (al x : Name) (mp cp : Path)
    (hs : getObj e.st scope = some so)
    (hm : so.cls = .module ∨ so.cls = .package)
    (hc : dget so.contents al = none)
    (ha : dget so.aliases al = some mp)
    (hmid : objFor e mp = some mid)
    (hmo : getObj e.st mid = some mo)
    (hmm : mo.cls = .module ∨ mo.cls = .package)
    (hx : dget mo.contents x = some c)
    (hcp : path e.st c = some cp)
    (hne : cp ≠ [x])
    (hreg : objFor e cp = some c) :
    resolveName e scope [al, x] = some c := by
  have hl1 : localName e (fuelOf e) scope al = some mp := by
    unfold fuelOf
    rw [show e.st.objs.length + 1 = (e.st.objs.length) + 1 from rfl]
    unfold localName
    rcases hm with hm | hm <;> simp [hs, hm, hc, ha]
  have hl2 : localName e (fuelOf e) mid x = some cp := by
    unfold fuelOf
    rw [show e.st.objs.length + 1 = (e.st.objs.length) + 1 from rfl]
    unfold localName
    rcases hmm with hmm | hmm <;> simp [hmo, hmm, hx, hcp]
  have hc1 : componentName e scope true al = localName e (fuelOf e) scope al := by
    unfold componentName; simp [hs]
  have hc2 : componentName e mid false x = localName e (fuelOf e) mid x :=
    componentName_contents false hmo hx
  unfold resolveName expandName
  unfold expandLoop
  simp only [hc1, hl1, Bool.not_true, Bool.and_false, Bool.false_eq_true, if_false, hmid]
  unfold expandLoop
  simp [hc2, hl2, hne, hreg]

/-- the relative-import rule, restated for this property -/
theorem relative_level_c04 (mp : Path) (isPkg : Bool) (level : Nat) (h : 1 ≤ level) :
    relativeBase mp isPkg level = pythonRelativeBase mp isPkg level :=
  relative_level mp isPkg level h

/-! non-vacuity: a two-module state in which both clauses apply -/
def exState : State :=
  { objs := [ ⟨['m'], none, .module, [(['K'], 2)], []⟩,
              ⟨['n'], none, .module, [], [(['a'], [['m']]), (['K', '2'], [['m'], ['K']])]⟩,
              ⟨['K'], some 0, .cls, [], []⟩ ],
    all := [([['m']], 0), ([['n']], 1), ([['m'], ['K']], 2)],
    roots := [0, 1] }
def exEnv : Env := ⟨exState, []⟩

example : resolveName exEnv 1 [['a'], ['K']] = some 2 := by decide
example : resolveName exEnv 1 [['K', '2']] = some 2 := by decide

end Names

/-! # The code that BUILDS the alias maps, and soundness against Python as a theorem

`PdModel/Imports.lean` transcribes the visitor (`visit_Import`, `visit_ImportFrom`, `_importNames`,
`_importAll`, `_handleReExport`, `getProcessedModule`, `processModule`, …) over an abstract syntax of
projects; `PdModel/PyImp.lean` transcribes what CPython's import machinery binds for the same
project.  The layers above: static relations, `WF` facts, `Jpy` is functional; the invariant of the
pydoctor machine; the invariant of the Python machine; `expandName` / `resolveName` on a finished state. -/

namespace Imports
open Registry

theorem walk_path {st : State} (hI : Inv st) : ∀ (cp : List Name) (i j : Nat) (pp : Path),
    path st i = some pp → walk st i cp = some j → path st j = some (pp ++ cp)
  | [], i, j, pp, hp, hw => by
    simp only [walk, Option.some.injEq] at hw; subst hw; simpa using hp
  | c :: cs, i, j, pp, hp, hw => by
    simp only [walk] at hw
    cases ho : getObj st i with
    | none => simp [ho] at hw
    | some o =>
      simp only [ho] at hw
      cases hd : dget o.contents c with
      | none => simp [hd] at hw
      | some k =>
        simp only [hd] at hw
        have := walk_path hI cs k j (pp ++ [c]) (path_child hI ho hd hp) hw
        simpa using this

/-- The restriction beyond the property's quantifier under which soundness is proved: no `__all__`
re-export moves.  (Base classes are allowed; the theorem then speaks of the names whose class steps
stay in the classes' own namespaces, `PyImp.pyOwn`.) -/
def Restricted (proj : Project) : Bool := noReexport proj

/-- `a.py`: `class K`; `b.py`: `from a import K` -/
def exProjW : Project :=
  [⟨[['a']], false, [.classDef ['K'] [] []]⟩, ⟨[['b']], false, [.importFrom 0 [['a']] ['K'] none]⟩]

/-
FULL STATEMENT (the property, at the level of the abstract project):

  theorem resolve_sound (proj) (rank) (hq : WFq proj rank)      -- acyclic, unique names, bound once per scope
      : pdResolve proj ordPd m cp name = some i₁ → pyDenotes proj ordPy m cp name = some i₂ → i₁ = i₂

where `WFq` = `WF` without `noReexport`.  Proved below
* with the restriction `noReexport` (`Restricted`), and
* for the names that do not involve an INHERITED member (`pyOwn`: every attribute step through a class
  finds the attribute in that class's own namespace — exactly the names `vars()` reports).  Projects
  may contain base classes; for names that go through inheritance the statement was false until
  d230b6e (`resolve_sound_bases_counterexample` below; an earlier defect of the same family was fixed as
  b8619e6) and is not proved here (it needs the soundness of base-class resolution at visit time).
Nothing else is assumed: that the analysis of a `WF` project raises no registry exception, handles no
duplicate definition, fails no assertion and does not run out of fuel is `run_clean`
(PdProps/C04Clean.lean), for every processing order.
-/

/-- **a well-formed project is analysed cleanly**: no registry exception, no duplicate definition, no
failed assertion, no fuel exhaustion, whatever the order in which the modules are processed
(freshness of every new qualified name, frame lemmas, fuel = number of unprocessed modules) -/
theorem wf_run_clean (proj : Project) (rank : List Nat) (hwf : WF proj rank = true) (ord : List Nat) :
    (run proj ord).bad = false := run_clean hwf ord

example : (run exProjW [1, 0]).bad = false := wf_run_clean exProjW [0, 1] (by decide +kernel) [1, 0]

/-- **soundness**: for every well-formed project, every processing order of pydoctor and every import
order of Python, every scope (module `m`, class chain `cp`) and every dotted name: if pydoctor
resolves the name in that scope to a documented object and Python binds the name there (first
component in the scope's own namespace, the rest by attribute access), then they are the same
object.  Equivalently: `pdResolve … = some obj → pyDenotes … ≠ none → pyDenotes … = some obj`. -/
theorem resolve_sound_partial (proj : Project) (rank : List Nat) (hwf : WF proj rank = true)
    (ordPd ordPy : List Nat)
    (m : Nat) (hm : m < proj.length) (cp : List Name) (name : Path) (i₁ i₂ : Ident)
    (h1 : pdResolve proj ordPd m cp name = some i₁) (h2 : PyImp.pyDenotes proj ordPy m cp name = some i₂)
    (hown : PyImp.pyOwn proj ordPy m cp name = true) :
    i₁ = i₂ := by
  have wf := WF.facts hwf
  have nr := WF.noReexp hwf
  obtain ⟨hI, hn, _⟩ := run_ok wf nr ordPd (run_clean hwf ordPd)
  obtain ⟨S, sv, hcase, hj, hid⟩ := pyDenotes_j wf h2 hown
  unfold pdResolve resolveIn at h1
  generalize run proj ordPd = s at hI hn h1
  cases hw : walk s.reg m cp with
  | none => simp [hw] at h1
  | some i =>
    simp only [hw] at h1
    cases hr : Names.resolveName (finalEnv s) i name with
    | none => simp [hr] at h1
    | some j =>
      simp only [hr] at h1
      obtain ⟨om, hom, hpm, hcm⟩ := hI.mods m hm
      have hpi := walk_path hI.reg cp m i _ hpm hw
      obtain ⟨oi, hoi⟩ : ∃ oi, s.reg.objs[i]? = some oi := ⟨s.reg.objs[i]'(path_lt hpi), by simp [path_lt hpi]⟩
      obtain ⟨Si, hki, hpi'⟩ := hI.site i oi hoi
      -- the scope pydoctor walked to is the scope Python walked to
      have hSi : Si = S := by
        rcases hcase with ⟨hcp, hS⟩ | ⟨hcp, hjc⟩
        · subst hcp; subst hS
          simp only [walk, Option.some.injEq] at hw; subst hw
          rw [hpm] at hpi'; injection hpi' with hpi'
          exact (site_unique wf hki.static ⟨hm, Or.inl rfl⟩ (by simpa [sitePath] using hpi'.symm))
        · rw [hpi] at hpi'; injection hpi' with hpi'
          have hc1 := canon_site wf hki.static
          rw [← hpi'] at hc1
          cases hcp' : cp with
          | nil => exact absurd hcp' hcp
          | cons y ys =>
            rw [hcp'] at hjc hc1
            have hc2 := AbsDen.ext (canon_mod wf m hm) (show Jpy proj (scopeOf (.mod m)) (y :: ys) _ from hjc)
            have := AbsDen.fun wf hc1 hc2.weak
            have h3 := congrArg scopeOf this
            rw [scopeOf_svalOf] at h3
            exact h3
      subst hSi
      have := resolve_sound_state wf hI hn hoi hpi' hki hj hr
      rw [this] at h1; injection h1 with h1
      rw [← h1, hid]

end Imports

namespace Imports
open Registry

/-- soundness without the `pyOwn` hypothesis, for projects that have no base classes (every attribute
of a class is its own there): the statement of the first version of this theorem -/
theorem resolve_sound_nobases (proj : Project) (rank : List Nat) (hwf : WF proj rank = true)
    (hnb : noBases proj = true) (ordPd ordPy : List Nat)
    (m : Nat) (hm : m < proj.length) (cp : List Name) (name : Path) (i₁ i₂ : Ident)
    (h1 : pdResolve proj ordPd m cp name = some i₁) (h2 : PyImp.pyDenotes proj ordPy m cp name = some i₂) :
    i₁ = i₂ :=
  resolve_sound_partial proj rank hwf ordPd ordPy m hm cp name i₁ i₂ h1 h2 (pyOwn_of_noBases (WF.facts hwf) hnb h2)

/-- what pydoctor resolves a Python-bound name to does not depend on the order in which the modules
are processed (C06 for name resolution, on well-formed projects) -/
theorem resolve_order_independent (proj : Project) (rank : List Nat) (hwf : WF proj rank = true)
    (ord₁ ord₂ ordPy : List Nat)
    (m : Nat) (hm : m < proj.length) (cp : List Name) (name : Path) (a b c : Ident)
    (h1 : pdResolve proj ord₁ m cp name = some a) (h2 : pdResolve proj ord₂ m cp name = some b)
    (hpy : PyImp.pyDenotes proj ordPy m cp name = some c) (hown : PyImp.pyOwn proj ordPy m cp name = true) : a = b :=
  (resolve_sound_partial proj rank hwf ord₁ ordPy m hm cp name a c h1 hpy hown).trans
    (resolve_sound_partial proj rank hwf ord₂ ordPy m hm cp name b c h2 hpy hown).symm

/-! ## names that go through an INHERITED member

`resolve_sound_partial` without the `pyOwn` hypothesis, for the decidable sub-class
`classImportsUnique` of `WF`: a name bound by an import inside a class body (i) is not the name of a
definition made inside a class body and (ii) the imports that bind the same name inside other class
bodies bind it to the same thing (`ImpKey`: the same root module / the same module / the same name of
the same module).  Base classes written in any way (names, dotted names through module aliases, nested
classes, bases that resolve on one side only), multiple inheritance and imports in class bodies are all
allowed.  The proof does NOT go through "pydoctor's MRO = Python's MRO": with globally unique
definition names and `classImportsUnique` the BINDING of an attribute name is the same in every class
body of the project that binds it, so whichever class of whichever linearisation either side finds the
name in, it finds the same object (`class_bind_same`, `content_den`, `alias_den` in PdProps/C04Inh.lean;
`Step` is the over-approximation of `type.__getattribute__`).  What is needed of pydoctor's
linearisation is only that its members are class objects (`mro_member_class`, from the new invariant
`CBase`) and that it starts with the class (`mroOf_final_head`).
Outside `classImportsUnique` (`exBases` below: one base imports `y`, another defines `y`) the ORDER of
the two linearisations decides; that needs soundness of base-class resolution and C05's
`pd_eq_cpython` on top, and is left to the differential oracle. -/

/-- **soundness, inherited members included** -/
theorem resolve_sound_inherited (proj : Project) (rank : List Nat) (hwf : WF proj rank = true)
    (hci : classImportsUnique proj = true) (ordPd ordPy : List Nat)
    (m : Nat) (hm : m < proj.length) (cp : List Name) (name : Path) (i₁ i₂ : Ident)
    (h1 : pdResolve proj ordPd m cp name = some i₁) (h2 : PyImp.pyDenotes proj ordPy m cp name = some i₂) :
    i₁ = i₂ := by
  have wf := WF.facts hwf
  have nr := WF.noReexp hwf
  have ciu := CIU.of hci
  obtain ⟨hI, hn, _⟩ := run_ok wf nr ordPd (run_clean hwf ordPd)
  obtain ⟨S, sv, hcase, hj, hid⟩ := pyDenotes_jI wf h2
  unfold pdResolve resolveIn at h1
  generalize run proj ordPd = s at hI hn h1
  cases hw : walk s.reg m cp with
  | none => simp [hw] at h1
  | some i =>
    simp only [hw] at h1
    cases hr : Names.resolveName (finalEnv s) i name with
    | none => simp [hr] at h1
    | some j =>
      simp only [hr] at h1
      obtain ⟨om, hom, hpm, hcm⟩ := hI.mods m hm
      have hpi := walk_path hI.reg cp m i _ hpm hw
      obtain ⟨oi, hoi⟩ : ∃ oi, s.reg.objs[i]? = some oi := ⟨s.reg.objs[i]'(path_lt hpi), by simp [path_lt hpi]⟩
      obtain ⟨Si, hki, hpi'⟩ := hI.site i oi hoi
      -- the scope pydoctor walked to is the scope Python walked to
      have hSi : Si = S := by
        rcases hcase with ⟨hcp, hS⟩ | ⟨hcp, hjc⟩
        · subst hcp; subst hS
          simp only [walk, Option.some.injEq] at hw; subst hw
          rw [hpm] at hpi'; injection hpi' with hpi'
          exact (site_unique wf hki.static ⟨hm, Or.inl rfl⟩ (by simpa [sitePath] using hpi'.symm))
        · rw [hpi] at hpi'; injection hpi' with hpi'
          have hc1 := canon_site wf hki.static
          rw [← hpi'] at hc1
          cases hcp' : cp with
          | nil => exact absurd hcp' hcp
          | cons y ys =>
            rw [hcp'] at hjc hc1
            have hc2 := AbsDen.ext (canon_mod wf m hm) (show Jpy proj (scopeOf (.mod m)) (y :: ys) _ from hjc)
            have := AbsDen.fun wf hc1 hc2.weak
            have h3 := congrArg scopeOf this
            rw [scopeOf_svalOf] at h3
            exact h3
      subst hSi
      have := resolve_sound_stateI wf ciu hI hn hoi hpi' hki hj hr
      rw [this] at h1; injection h1 with h1
      rw [← h1, hid]

/-- order independence of the resolution of every Python-bound name, inherited members included -/
theorem resolve_order_independent_inherited (proj : Project) (rank : List Nat) (hwf : WF proj rank = true)
    (hci : classImportsUnique proj = true) (ord₁ ord₂ ordPy : List Nat)
    (m : Nat) (hm : m < proj.length) (cp : List Name) (name : Path) (a b c : Ident)
    (h1 : pdResolve proj ord₁ m cp name = some a) (h2 : pdResolve proj ord₂ m cp name = some b)
    (hpy : PyImp.pyDenotes proj ordPy m cp name = some c) : a = b :=
  (resolve_sound_inherited proj rank hwf hci ord₁ ordPy m hm cp name a c h1 hpy).trans
    (resolve_sound_inherited proj rank hwf hci ord₂ ordPy m hm cp name b c h2 hpy).symm

/-! ## completeness at the level of the project -/

/-- on a finished clean state, an import statement of a processed module left exactly its alias entry -/
theorem alias_of_stmt {proj : Project} {rank : List Nat} (wf : WFacts proj rank) {s : St} (hI : PdInv proj s)
    {m : Nat} (hm : m < proj.length) (hproc : getPs s m = .processed) {st : Stmt} {x : Name}
    (hst : st ∈ bodyOf proj m) (hx : x ∈ explicitNames st) (himp : st.defName = none) :
    ∃ o tgt, s.reg.objs[m]? = some o ∧ isModuleCls o.cls = true ∧ dget o.contents x = none ∧
      dget o.aliases x = some tgt ∧ StmtD proj (m, []) st x tgt := by
  have hmd : proj[m]? = some proj[m] := by simp [hm]
  have hb : siteBody proj (m, []) = some (bodyOf proj m) := siteBody_zero hm
  have hcomp := hI.complete m _ hmd hproc
  rw [← bodyOf_eq hmd] at hcomp
  obtain ⟨o, ho, hent⟩ := complete_entry (hcomp.mem hst) hx
  obtain ⟨o', ho', hpm, hcl⟩ := hI.mods m hm
  rw [ho] at ho'; injection ho' with ho'; subst ho'
  have hmo : isModuleCls o.cls = true := by rw [hcl, modCls]; split <;> rfl
  have hxs : x ∈ stmtNamesR proj rank (m, []) st := stmtNames_of_explicit hx
  have hcn : dget o.contents x = none := by
    cases hd : dget o.contents x with
    | none => rfl
    | some c =>
      exfalso
      rcases hI.cont m o hm ho x c hd with hch | ⟨st', hst', hd'⟩
      · exact child_not_stmt wf hb hch hst hxs
      · have := same_stmt wf hb hst hst' hxs (stmtNames_of_explicit (defName_explicit hd'))
        subst this; rw [himp] at hd'; cases hd'
  have ha : dget o.aliases x ≠ none := by
    rcases hent with h | h
    · exact absurd hcn h
    · exact h
  cases hda : dget o.aliases x with
  | none => exact absurd hda ha
  | some tgt =>
    have hj := hI.alias m o (m, []) ho (by simpa [sitePath] using hpm) ⟨hm, Or.inl rfl⟩ x tgt hda
    obtain ⟨b, st2, hb2, hst2, hx2, hD⟩ := jpd_inv wf hj
    rw [hb] at hb2; injection hb2 with hb2; subst hb2
    have := same_stmt wf hb hst hst2 hxs hx2
    subst this
    exact ⟨o, tgt, ho, hmo, hcn, hda, hD⟩

/-- a top-level definition of a processed module is registered under the module's name + its own -/
theorem def_registered {proj : Project} {rank : List Nat} (wf : WFacts proj rank) {s : St} (hI : PdInv proj s)
    {t : Nat} (ht : t < proj.length) (hproc : getPs s t = .processed) {st : Stmt} {n : Name}
    (hst : st ∈ bodyOf proj t) (hd : st.defName = some n) :
    ∃ o c, s.reg.objs[t]? = some o ∧ isModuleCls o.cls = true ∧ dget o.contents n = some c ∧
      path s.reg c = some (pathOf proj t ++ [n]) ∧ dget s.reg.all (pathOf proj t ++ [n]) = some c ∧
      identOf s.reg c = some (.dfn (pathOf proj t ++ [n])) := by
  have hmd : proj[t]? = some proj[t] := by simp [ht]
  have hcomp := hI.complete t _ hmd hproc
  rw [← bodyOf_eq hmd] at hcomp
  have hcs := hcomp.mem hst
  obtain ⟨o, ho, hpm, hcl⟩ := hI.mods t ht
  have hmo : isModuleCls o.cls = true := by rw [hcl, modCls]; split <;> rfl
  have hcont : ∃ c, dget o.contents n = some c := by
    cases st with
    | classDef n' bs body =>
      simp only [Stmt.defName, Option.some.injEq] at hd; subst hd
      simp only [CompleteStmt] at hcs
      obtain ⟨c, _, po, hpo, hdc, _⟩ := hcs
      rw [ho] at hpo; injection hpo with hpo; subst hpo
      exact ⟨c, hdc⟩
    | funcDef n' =>
      simp only [Stmt.defName, Option.some.injEq] at hd; subst hd
      simp only [CompleteStmt] at hcs
      obtain ⟨po, c, hpo, hdc⟩ := hcs
      rw [ho] at hpo; injection hpo with hpo; subst hpo
      exact ⟨c, hdc⟩
    | assign n' v =>
      simp only [Stmt.defName, Option.some.injEq] at hd; subst hd
      simp only [CompleteStmt] at hcs
      obtain ⟨po, c, hpo, hdc⟩ := hcs
      rw [ho] at hpo; injection hpo with hpo; subst hpo
      exact ⟨c, hdc⟩
    | importMod _ _ => simp [Stmt.defName] at hd
    | importFrom _ _ _ _ => simp [Stmt.defName] at hd
    | importStar _ _ => simp [Stmt.defName] at hd
    | allAssign _ => simp [Stmt.defName] at hd
  obtain ⟨c, hdc⟩ := hcont
  have hpc := path_child hI.reg ho hdc hpm
  have hreg := dget_of_path hI.reg hpc
  refine ⟨o, c, ho, hmo, hdc, hpc, hreg, ?_⟩
  obtain ⟨oc, hoc⟩ : ∃ oc, s.reg.objs[c]? = some oc := ⟨s.reg.objs[c]'(path_lt hpc), by simp [path_lt hpc]⟩
  obtain ⟨Sc, hkc, hpc'⟩ := hI.site c oc hoc
  have hstat : StaticSite proj (t, [n]) :=
    ⟨ht, Or.inr ⟨[], n, bodyOf proj t, st, rfl, siteBody_zero ht, hst, hd⟩⟩
  have : Sc = (t, [n]) := site_unique wf hkc.static hstat (by
    rw [hpc] at hpc'; injection hpc' with hpc'; simpa [sitePath] using hpc'.symm)
  subst this
  have := hkc.ident hoc hpc'
  simpa [svalOf, identSV] using this

/-- **completeness, clause 1, for projects**: in a well-formed project, a name bound at module level
by `from M import n [as x]`, where `M` names the module that DEFINES `n`, resolves to that
definition. -/
theorem resolve_from_definer (proj : Project) (rank : List Nat) (hwf : WF proj rank = true)
    (ord : List Nat) (hcov : ∀ i, i < proj.length → i ∈ ord) (m t : Nat) (hm : m < proj.length)
    {lvl : Nat} {M : Path} {n : Name} {a : Option Name}
    (hst : Stmt.importFrom lvl M n a ∈ bodyOf proj m) (htgt : target proj m lvl M = some t)
    {st : Stmt} (hdef : st ∈ bodyOf proj t) (hdn : st.defName = some n) :
    pdResolve proj ord m [] [a.getD n] = some (.dfn (pathOf proj t ++ [n])) := by
  have wf := WF.facts hwf
  have nr := WF.noReexp hwf
  obtain ⟨hI, hn, hproc⟩ := run_ok wf nr ord (run_clean hwf ord)
  obtain ⟨T, hT, hmT⟩ := target_spec htgt
  obtain ⟨htl, hpT⟩ := modIdx_spec hmT
  have hmo := hcov m hm
  have hto := hcov t htl
  unfold pdResolve resolveIn
  generalize run proj ord = s at hI hn hproc
  obtain ⟨o, tgt, ho, hmcl, hcn, hda, hD⟩ :=
    alias_of_stmt wf hI hm (hproc m hmo) hst (x := a.getD n) (by simp [explicitNames]) rfl
  obtain ⟨_, T', hT', htgt'⟩ := hD
  have := abs_eq hT' hT; subst this
  obtain ⟨ot, c, _, _, _, _, hreg, hid⟩ := def_registered wf hI htl (hproc t hto) hdef hdn
  rw [hpT] at hreg hid
  have hcls : o.cls = .module ∨ o.cls = .package := by
    cases hc : o.cls <;> simp_all [isModuleCls]
  have hres := Names.resolve_direct_import (finalEnv s) m o (a.getD n) tgt c ho hcls hcn hda (by rw [htgt']; exact hreg)
  simp only [walk, hres, hid, hpT]

/-- **completeness, clause 2, for projects**: `alias.n`, where `import M as alias` names the module
that defines `n`, resolves to that definition. -/
theorem resolve_via_module_alias (proj : Project) (rank : List Nat) (hwf : WF proj rank = true)
    (ord : List Nat) (hcov : ∀ i, i < proj.length → i ∈ ord) (m t : Nat) (hm : m < proj.length)
    {M : Path} {al n : Name}
    (hst : Stmt.importMod M (some al) ∈ bodyOf proj m) (htgt : modIdx proj M = some t)
    {st : Stmt} (hdef : st ∈ bodyOf proj t) (hdn : st.defName = some n) :
    pdResolve proj ord m [] [al, n] = some (.dfn (pathOf proj t ++ [n])) := by
  have wf := WF.facts hwf
  have nr := WF.noReexp hwf
  obtain ⟨hI, hn, hproc⟩ := run_ok wf nr ord (run_clean hwf ord)
  obtain ⟨htl, hpT⟩ := modIdx_spec htgt
  have hmo := hcov m hm
  have hto := hcov t htl
  unfold pdResolve resolveIn
  generalize run proj ord = s at hI hn hproc
  obtain ⟨o, tgt, ho, hmcl, hcn, hda, hD⟩ :=
    alias_of_stmt wf hI hm (hproc m hmo) hst (x := al) (by simp [explicitNames]) rfl
  obtain ⟨_, htgt'⟩ := hD
  rw [htgt'] at hda
  obtain ⟨ot, c, hot, hmot, hdc, hpc, hreg, hid⟩ := def_registered wf hI htl (hproc t hto) hdef hdn
  obtain ⟨ot', _, hpt, _⟩ := hI.mods t htl
  have hregt : dget s.reg.all M = some t := by rw [← hpT]; exact dget_of_path hI.reg hpt
  have hcls : o.cls = .module ∨ o.cls = .package := by
    cases hc : o.cls <;> simp_all [isModuleCls]
  have hclst : ot.cls = .module ∨ ot.cls = .package := by
    cases hc : ot.cls <;> simp_all [isModuleCls]
  have hne : pathOf proj t ++ [n] ≠ [n] := by
    intro h
    have := congrArg List.length h
    simp at this
    exact (wf.parentOk t htl).1 this
  have hres := Names.resolve_module_alias (finalEnv s) m t c o ot al n M (pathOf proj t ++ [n]) ho hcls hcn hda
    hregt hot hclst hdc hpc hne hreg
  simp only [walk, hres, hid]

end Imports

namespace Imports
open Registry

/-! ## non-vacuity: a multi-package project with star, relative and aliased imports, imports in a
class body and a package re-import satisfies every hypothesis, and the theorems apply to it -/

/-- ```
pa/__init__.py   from pa.m1 import K as KK
pa/m1.py         class K: (def g; W = 7)      def f      V = 1
pb/__init__.py
pb/sub.py        from pa.m1 import *          from .oth import G as gg
pb/oth.py        def G
top.py           import pa.m1 as mm           import pb.sub          class C: from pa.m1 import K as kk
``` -/
def exProj : Project := [
  ⟨[['p','a']], true, [.importFrom 0 [['p','a'],['m','1']] ['K'] (some ['K','K'])]⟩,
  ⟨[['p','a'],['m','1']], false, [.classDef ['K'] [] [.funcDef ['g'], .assign ['W'] 7], .funcDef ['f'], .assign ['V'] 1]⟩,
  ⟨[['p','b']], true, []⟩,
  ⟨[['p','b'],['s','u','b']], false, [.importStar 0 [['p','a'],['m','1']], .importFrom 1 [['o','t','h']] ['G'] (some ['g','g'])]⟩,
  ⟨[['p','b'],['o','t','h']], false, [.funcDef ['G']]⟩,
  ⟨[['t','o','p']], false, [.importMod [['p','a'],['m','1']] (some ['m','m']), .importMod [['p','b'],['s','u','b']] none,
      .classDef ['C'] [] [.importFrom 0 [['p','a'],['m','1']] ['K'] (some ['k','k'])]]⟩ ]
/-- a topological index of `exProj` (module `pa.m1` first, `top` last) -/
def exRank : List Nat := [1, 0, 2, 4, 3, 5]
def exOrd : List Nat := [0, 1, 2, 3, 4, 5]

example : WF exProj exRank = true := by decide +kernel
example : (run exProj exOrd).bad = false := by decide +kernel
example : (PyImp.run exProj exOrd).err = false := by decide +kernel
-- star import; relative import; module alias + attribute chain; import inside a class body; plain import
example : pdResolve exProj exOrd 3 [] [['K']] = some (.dfn [['p','a'],['m','1'],['K']]) := by decide +kernel
example : PyImp.pyDenotes exProj exOrd 3 [] [['K']] = some (.dfn [['p','a'],['m','1'],['K']]) := by decide +kernel
example : pdResolve exProj exOrd 3 [] [['g','g']] = some (.dfn [['p','b'],['o','t','h'],['G']]) := by decide +kernel
example : PyImp.pyDenotes exProj exOrd 3 [] [['g','g']] = some (.dfn [['p','b'],['o','t','h'],['G']]) := by decide +kernel
example : pdResolve exProj exOrd 5 [] [['m','m'],['K'],['g']] = some (.dfn [['p','a'],['m','1'],['K'],['g']]) := by
  decide +kernel
example : PyImp.pyDenotes exProj exOrd 5 [] [['m','m'],['K'],['g']] = some (.dfn [['p','a'],['m','1'],['K'],['g']]) := by
  decide +kernel
example : pdResolve exProj exOrd 5 [['C']] [['k','k'],['W']] = some (.dfn [['p','a'],['m','1'],['K'],['W']]) := by
  decide +kernel
example : PyImp.pyDenotes exProj exOrd 5 [['C']] [['k','k'],['W']] = some (.dfn [['p','a'],['m','1'],['K'],['W']]) := by
  decide +kernel
example : pdResolve exProj exOrd 5 [] [['p','b'],['s','u','b'],['f']] = some (.dfn [['p','a'],['m','1'],['f']]) := by
  decide +kernel
-- the same answers when the modules are processed / imported in the reverse order
example : pdResolve exProj exOrd.reverse 3 [] [['K']] = PyImp.pyDenotes exProj exOrd.reverse 3 [] [['K']] := by
  decide +kernel
-- the hypotheses of the completeness theorems hold for `from pa.m1 import K as KK` and `import pa.m1 as mm`
example : pdResolve exProj exOrd 0 [] [['K','K']] = some (.dfn (pathOf exProj 1 ++ [['K']])) :=
  resolve_from_definer exProj exRank (by decide +kernel) exOrd (by decide) 0 1 (by decide)
    (lvl := 0) (M := [['p','a'],['m','1']]) (n := ['K']) (a := some ['K','K']) (by simp [bodyOf, exProj]) (by decide +kernel)
    (st := .classDef ['K'] [] [.funcDef ['g'], .assign ['W'] 7]) (by simp [bodyOf, exProj]) rfl
example : pdResolve exProj exOrd 5 [] [['m','m'], ['f']] = some (.dfn (pathOf exProj 1 ++ [['f']])) :=
  resolve_via_module_alias exProj exRank (by decide +kernel) exOrd (by decide) 5 1 (by decide)
    (M := [['p','a'],['m','1']]) (al := ['m','m']) (n := ['f']) (by simp [bodyOf, exProj]) (by decide +kernel)
    (st := .funcDef ['f']) (by simp [bodyOf, exProj]) rfl

/-! ### … and a project WITH base classes: `resolve_sound_partial` applies to every own attribute -/

/-- ```
D.py   class K: (def g)
M.py   from D import K
       class B(K): W = 1
       class C(B): V = 2 ; class In(B): U = 3
``` -/
def exInherit : Project := [
  ⟨[['D']], false, [.classDef ['K'] [] [.funcDef ['g']]]⟩,
  ⟨[['M']], false, [.importFrom 0 [['D']] ['K'] none,
                    .classDef ['B'] [[['K']]] [.assign ['W'] 1],
                    .classDef ['C'] [[['B']]] [.assign ['V'] 2, .classDef ['I','n'] [[['B']]] [.assign ['U'] 3]]]⟩ ]

example : WF exInherit [0, 1] = true := by decide +kernel
example : noBases exInherit = false := by decide +kernel
example : pdResolve exInherit [0, 1] 1 [] [['C'], ['I','n'], ['U']] = some (.dfn [['M'], ['C'], ['I','n'], ['U']]) := by
  decide +kernel
example : PyImp.pyDenotes exInherit [1, 0] 1 [] [['C'], ['I','n'], ['U']] = some (.dfn [['M'], ['C'], ['I','n'], ['U']]) := by
  decide +kernel
example : PyImp.pyOwn exInherit [1, 0] 1 [] [['C'], ['I','n'], ['U']] = true := by decide +kernel
-- the inherited `C.g` is outside `pyOwn`; it is covered by `resolve_sound_inherited`
example : PyImp.pyOwn exInherit [0, 1] 1 [] [['C'], ['g']] = false := by decide +kernel
example : classImportsUnique exInherit = true := by decide +kernel
example : pdResolve exInherit [0, 1] 1 [] [['C'], ['g']] = some (.dfn [['D'], ['K'], ['g']]) := by decide +kernel
example : PyImp.pyDenotes exInherit [1, 0] 1 [] [['C'], ['g']] = some (.dfn [['D'], ['K'], ['g']]) := by decide +kernel
example : pdResolve exInherit [0, 1] 1 [['C']] [['I','n'], ['W']] = some (.dfn [['M'], ['B'], ['W']]) := by decide +kernel
example (a b : Ident) (h1 : pdResolve exInherit [1, 0] 1 [] [['C'], ['g']] = some a)
    (h2 : PyImp.pyDenotes exInherit [0, 1] 1 [] [['C'], ['g']] = some b) : a = b :=
  resolve_sound_inherited exInherit [0, 1] (by decide +kernel) (by decide +kernel) [1, 0] [0, 1] 1 (by decide) []
    [['C'], ['g']] a b h1 h2

/-- a class body that imports, inherited by a class of another module, through a module alias:
```
D.py   class K: (def g)
M.py   import D
       class B: from D import K as kk ; import D as dd
N.py   import M as mm
       class C(mm.B): pass
``` -/
def exInhImp : Project := [
  ⟨[['D']], false, [.classDef ['K'] [] [.funcDef ['g']]]⟩,
  ⟨[['M']], false, [.importMod [['D']] none,
                    .classDef ['B'] [] [.importFrom 0 [['D']] ['K'] (some ['k','k']), .importMod [['D']] (some ['d','d'])]]⟩,
  ⟨[['N']], false, [.importMod [['M']] (some ['m','m']), .classDef ['C'] [[['m','m'], ['B']]] []]⟩ ]

example : WF exInhImp [0, 1, 2] = true := by decide +kernel
example : classImportsUnique exInhImp = true := by decide +kernel
example : pdResolve exInhImp [2, 1, 0] 2 [] [['C'], ['k','k'], ['g']] = some (.dfn [['D'], ['K'], ['g']]) := by decide +kernel
example : PyImp.pyDenotes exInhImp [0, 1, 2] 2 [] [['C'], ['k','k'], ['g']] = some (.dfn [['D'], ['K'], ['g']]) := by
  decide +kernel
example : pdResolve exInhImp [0, 1, 2] 2 [] [['C'], ['d','d'], ['K']] = some (.dfn [['D'], ['K']]) := by decide +kernel
example : PyImp.pyDenotes exInhImp [2, 0, 1] 2 [] [['C'], ['d','d'], ['K']] = some (.dfn [['D'], ['K']]) := by decide +kernel

/-! ## why the statement speaks of BOUND names

`pdResolve … = some obj → pyDenotes … = some obj` without "Python binds the name" is false, also
after every fix: pydoctor's star import takes the names of a package's submodules whether or not
they have been imported yet, Python takes only attributes that exist at that moment.  The name is
then not bound under Python (outside the property's quantifier: an observation, not a violation). -/

/-- `pa/__init__.py` (empty), `pa/m1.py` (empty), `top.py`: `from pa import *` -/
def exUnbound : Project := [
  ⟨[['p','a']], true, []⟩, ⟨[['p','a'],['m','1']], false, []⟩,
  ⟨[['t','o','p']], false, [.importStar 0 [['p','a']]]⟩ ]

theorem resolve_sound_unbound_counterexample :
    WF exUnbound [0, 1, 2] = true ∧ (run exUnbound [0, 1, 2]).bad = false ∧
    pdResolve exUnbound [0, 1, 2] 2 [] [['m','1']] = some (.mod [['p','a'],['m','1']]) ∧
    PyImp.pyDenotes exUnbound [2, 0, 1] 2 [] [['m','1']] = none ∧
    (PyImp.run exUnbound [2, 0, 1]).err = false := by
  decide +kernel

end Imports

namespace Imports
open Registry

/-! ## base classes: names that go through an inherited member

HISTORY.  Until commit d230b6e soundness FAILED for such names: `Class.find`, which `expandName` used for
inherited members, only looked at the `contents` of the classes of the MRO, never at the names their
bodies import.  An earlier base that binds the name by an import was skipped, a later base that defines
it won; Python takes the first class of `__mro__` whose namespace has the name.  (Finding
`unsound:inherited-attribute:base-import-skipped`, found with this model, replayed on the real pydoctor
and CPython by harness/props/c04.py; fixed by fixes/C04-inherited-lookup-sees-base-imports.diff = /repo
d230b6e.)  `expandLoopOld` is the loop of `expandName` as it was before that commit. -/

/-- `Names.expandLoop` before d230b6e: the inherited step is `Class.find` (`Names.classFind`) -/
def expandLoopOld (e : Names.Env) : Nat → Bool → List Name → Option Path
  | _, _, [] => none
  | obj, first, p :: rest =>
    match Names.componentName e obj first p with
    | none => none
    | some fn =>
      let fn' : Option (Path × Bool) :=
        if fn = [p] && !first then
          let inh : Path :=
            match getObj e.st obj with
            | some o =>
              if o.cls = .cls then
                match Names.classFind e obj p with
                | some i => (path e.st i).getD [p]
                | none => [p]
              else [p]
            | none => [p]
          if inh = [p] then
            match path e.st obj with
            | some op => some (op ++ [p], true)
            | none => none
          else some (inh, false)
        else some (fn, false)
      match fn' with
      | none => none
      | some (full, true) => some (full ++ rest)
      | some (full, false) =>
        match Names.objFor e full with
        | none => some (full ++ rest)
        | some nxt =>
          match rest with
          | [] => some full
          | _ :: _ => expandLoopOld e nxt false rest

/-- `pdResolve` with the old inherited-member step (the `find_object` fall-back plays no role here) -/
def pdResolveOld (proj : Project) (order : List Nat) (m : Nat) (cp : List Name) (name : Path) : Option Ident :=
  let s := run proj order
  match walk s.reg m cp with
  | none => none
  | some i =>
    match expandLoopOld (finalEnv s) i true name with
    | none => none
    | some p => match Names.objFor (finalEnv s) p with | some j => identOf s.reg j | none => none

/-- ```
D.py   class K
M.py   class B: from D import K as y
       class B2: def y
       class C(B, B2)
``` -/
def exBases : Project := [
  ⟨[['D']], false, [.classDef ['K'] [] []]⟩,
  ⟨[['M']], false, [.classDef ['B'] [] [.importFrom 0 [['D']] ['K'] (some ['y'])],
                    .classDef ['B','2'] [] [.funcDef ['y']],
                    .classDef ['C'] [[['B']], [['B','2']]] []]⟩ ]

/-- `exBases` is `WF` but outside the sub-class of `resolve_sound_inherited`: `y` is imported in `B` and defined in `B2` -/
example : classImportsUnique exBases = false := by decide +kernel

/-- before d230b6e: `C.y` resolved to `M.B2.y`, Python binds `D.K` (inherited through the import in `B`);
since d230b6e pydoctor agrees with Python on this name -/
theorem resolve_sound_bases_counterexample :
    WF exBases [0, 1] = true ∧ (PyImp.run exBases [0, 1]).err = false ∧
    PyImp.pyOwn exBases [0, 1] 1 [] [['C'], ['y']] = false ∧
    pdResolveOld exBases [0, 1] 1 [] [['C'], ['y']] = some (.dfn [['M'], ['B','2'], ['y']]) ∧
    PyImp.pyDenotes exBases [0, 1] 1 [] [['C'], ['y']] = some (.dfn [['D'], ['K']]) ∧
    pdResolve exBases [0, 1] 1 [] [['C'], ['y']] = some (.dfn [['D'], ['K']]) := by
  decide +kernel

end Imports

namespace Imports
open Registry

/-! ## re-exports (`noReexport` is NOT lifted): statement, bounded check, what is missing

With `__all__` re-exports pydoctor MOVES the documentation of an object below its re-exporter; Python's
identity of the object is its definition site.  The statement therefore relocates Python's answer:
`finalLoc proj` (PdModel/Imports.lean) maps `D.K.…` to `X.a.…` when module `X` re-exports `D.K` as `a`.
`WFr` = `WF` with `noReexport` replaced by `reexportShape`, the shape C07's property names: one
`__all__` per module and no star import next to it; the re-exporter imports the object directly from
the plain module that defines it (a top-level class / function that the definer does not list itself);
at most one re-exporter per object; no import in a class body. -/

/-- THE STATEMENT (soundness with moved objects, every processing order that processes every module —
what `System.process` does —, every import order) -/
def ResolveSoundReexport (proj : Project) (rank : List Nat) : Prop :=
  WFr proj rank = true → ∀ (ordPd ordPy : List Nat), (∀ i, i < proj.length → i ∈ ordPd) → ∀ (m : Nat), m < proj.length →
    ∀ (cp : List Name) (name : Path) (a b : Ident),
      pdResolve proj ordPd m cp name = some a → PyImp.pyDenotes proj ordPy m cp name = some b → a = finalLoc proj b

/-- … and its corollary: the resolution of a Python-bound name does not depend on the processing order -/
def ResolveOrderIndependentReexport (proj : Project) (rank : List Nat) : Prop :=
  WFr proj rank = true → ∀ (ord₁ ord₂ ordPy : List Nat), (∀ i, i < proj.length → i ∈ ord₁) →
    (∀ i, i < proj.length → i ∈ ord₂) → ∀ (m : Nat), m < proj.length →
    ∀ (cp : List Name) (name : Path) (a b c : Ident),
      pdResolve proj ord₁ m cp name = some a → pdResolve proj ord₂ m cp name = some b →
      PyImp.pyDenotes proj ordPy m cp name = some c → a = b

theorem ResolveSoundReexport.order_independent {proj : Project} {rank : List Nat}
    (h : ResolveSoundReexport proj rank) : ResolveOrderIndependentReexport proj rank :=
  fun hw o1 o2 op hc1 hc2 m hm cp name a b c h1 h2 h3 =>
    (h hw o1 op hc1 m hm cp name a c h1 h3).trans (h hw o2 op hc2 m hm cp name b c h2 h3).symm


/-- on projects without re-export requests `finalLoc` is the identity and `WFr` projects are `WF`: the
statement is `resolve_sound_partial` / `resolve_sound_inherited` there -/
example : finalLoc exProj (.dfn [['p','a'],['m','1'],['K']]) = .dfn [['p','a'],['m','1'],['K']] := by decide +kernel

/-- **soundness with re-export moves** (the statement `ResolveSoundReexport`), under the two obligations that
the layers C04ReexpD/E carry as hypotheses: `Rx.ReparentOk` (registry level: `reparent` onto a free name of an
object that is not below the moved one raises nothing) and `Rx.SubLookup` (the implicit submodule lookup of
`from <package> import n` enters no module of too high a rank).  Proof: the relocated invariant `Rx.PdInv`
(PdProps/C04ReexpB…D: `path i = loc s S`, kept by every statement kind and by `doMove`), resolution on the
finished state up to the relocation (C04ReexpE), and `loc = finalLoc` once every module is processed. -/
theorem resolve_sound_reexport_of (proj : Project) (rank : List Nat) (hro : Rx.ReparentOk) (hsl : Rx.SubLookup proj rank) :
    ResolveSoundReexport proj rank := by
  intro hwf ordPd ordPy hcov m hm cp name a b h1 h2
  obtain ⟨wf, rx⟩ := WFr.facts hwf
  obtain ⟨_, hI, hn, hord⟩ := Rx.run_ok wf rx hro hsl ordPd
  have hproc : ∀ t, t < proj.length → getPs (run proj ordPd) t = .processed := fun t ht => hord t (hcov t ht)
  obtain ⟨S, sv, hcase, hj, hid⟩ := pyDenotes_jI wf h2
  unfold pdResolve resolveIn at h1
  generalize run proj ordPd = s at hI hn h1 hproc
  cases hw : walk s.reg m cp with
  | none => simp [hw] at h1
  | some i =>
    simp only [hw] at h1
    cases hr : Names.resolveName (finalEnv s) i name with
    | none => simp [hr] at h1
    | some j =>
      simp only [hr] at h1
      obtain ⟨om, hom, hpm, hcm⟩ := hI.mods m hm
      have hpi := walk_path hI.reg cp m i _ hpm hw
      obtain ⟨oi, hoi⟩ : ∃ oi, s.reg.objs[i]? = some oi := ⟨s.reg.objs[i]'(path_lt hpi), by simp [path_lt hpi]⟩
      obtain ⟨Si, hki, hpi'⟩ := hI.site i oi hoi
      -- the scope pydoctor walked to is the scope Python walked to
      have hSi : Si = S := by
        rcases hcase with ⟨hcp, hS⟩ | ⟨hcp, hjc⟩
        · subst hcp; subst hS
          simp only [walk, Option.some.injEq] at hw; subst hw
          rw [hpm] at hpi'; injection hpi' with hpi'
          exact Rx.loc_inj wf rx s hki.static ⟨hm, Or.inl rfl⟩ (by rw [Rx.loc_mod]; exact hpi'.symm)
        · rw [hpi] at hpi'; injection hpi' with hpi'
          have hc1 := canon_reloc wf rx (Rx.movedB proj s) hki.static
          rw [show relocSite proj (Rx.movedB proj s) Si = pathOf proj m ++ cp from hpi'.symm] at hc1
          cases hcp' : cp with
          | nil => exact absurd hcp' hcp
          | cons y ys =>
            rw [hcp'] at hjc hc1
            have hc2 := AbsDen.ext (canon_mod wf m hm) (show Jpy proj (scopeOf (.mod m)) (y :: ys) _ from hjc)
            have := AbsDen.fun wf hc1 hc2.weak
            have h3 := congrArg scopeOf this
            rw [scopeOf_svalOf] at h3
            exact h3
      subst hSi
      obtain ⟨hident, S', hS', hsv⟩ := Rx.resolve_sound_state wf rx hI hn hoi hpi' hki hj hr
      rw [hident] at h1; injection h1 with h1
      rw [← h1, ← hid, ← hsv]
      exact Rx.locIdent_final wf (Rx.all_moved hI hproc) hS'

/-- **soundness with re-export moves**, the registry obligation discharged (`Rx.reparent_ok`, PdProps/C04ReexpF.lean);
what is left as a hypothesis is `Rx.SubLookup`: the implicit submodule lookup of `from <package> import n` enters no
module of too high a rank -/
theorem resolve_sound_reexport_partial (proj : Project) (rank : List Nat) (hsl : Rx.SubLookup proj rank) :
    ResolveSoundReexport proj rank :=
  resolve_sound_reexport_of proj rank Rx.reparent_ok hsl

/-- **soundness with re-export moves** (M3): for every `WFr` project (`WF` with `noReexport` replaced by the
decidable `reexportShape`, plus `pkgFromOk` and `modNamesOk`), every processing order that covers every module, every
import order of Python, every scope and every dotted name (inherited attribute steps included): if pydoctor
resolves the name to `a` and Python binds it to `b`, then `a` is `b` relocated to where the re-export documents it.
No hypothesis on the run: it raises nothing (`wfr_run_clean`), `reparent` included (`Rx.reparent_ok`). -/
theorem resolve_sound_reexport (proj : Project) (rank : List Nat) : ResolveSoundReexport proj rank :=
  fun hwf => resolve_sound_reexport_of proj rank Rx.reparent_ok (Rx.subLookup_of hwf) hwf

/-- **order independence with re-export moves**: what a Python-bound name resolves to does not depend on the
order in which the modules are processed -/
theorem resolve_order_independent_reexport (proj : Project) (rank : List Nat) :
    ResolveOrderIndependentReexport proj rank :=
  (resolve_sound_reexport proj rank).order_independent

/-- **a `WFr` project is analysed cleanly**, re-export moves included: no registry exception (none from
`reparent` either), no duplicate, no failed assertion, no fuel exhaustion, whatever the processing order -/
theorem wfr_run_clean (proj : Project) (rank : List Nat) (hwf : WFr proj rank = true) (ord : List Nat) :
    (run proj ord).bad = false := by
  obtain ⟨wf, rx⟩ := WFr.facts hwf
  exact (Rx.run_ok wf rx Rx.reparent_ok (Rx.subLookup_of hwf) ord).1

/-- `p/__init__.py` (empty); `dd.py`: `from p import qq as z` ; `class K`; `qq.py`: `from dd import K` ; `__all__ = ['K']` -/
def exHidden : Project := [
  ⟨[['p']], true, []⟩,
  ⟨[['d','d']], false, [.importFrom 0 [['p']] ['q','q'] (some ['z']), .classDef ['K'] [] []]⟩,
  ⟨[['q','q']], false, [.importFrom 0 [['d','d']] ['K'] none, .allAssign [['K']]]⟩ ]

/-- HISTORICAL (before fix 996ac8b) — the bare-name fallback of `find_object`: `from p import qq` makes pydoctor look
up `p.qq`; the package `p` binds nothing called `qq`, `expandName` handed `qq` back as a free name and the unrelated
root module `qq` (object 2) was found — `getProcessedModule` then processed it while `dd` was still being processed, a
cycle the import statements do not show, and where `K` was documented depended on the processing order (replayed on
real pydoctor by the harness: `order-dependent:find-object-bare-name`).  With the guard the lookup is a `LookupError`. -/
theorem find_object_bare_name_counterexample :
    Names.findObjectOld (envOf (run exHidden [0])) [['p'], ['q','q']] = .obj 2 ∧
    Names.findObject (envOf (run exHidden [0])) [['p'], ['q','q']] = .lookupError := by decide +kernel

/-- the same project now: inside `WFr` (`pkgFromOk` no longer has to keep root-module names out of
`from <package> import n`), both runs clean, and `K` is documented in `qq` whatever the order.  (Python cannot import
`dd` at all — `p` has no attribute `qq`.) -/
theorem hidden_cycle_order_independent :
    WFr exHidden [0, 1, 2] = true ∧
    (run exHidden [1, 2, 0]).bad = false ∧ (run exHidden [2, 1, 0]).bad = false ∧
    pdResolve exHidden [1, 2, 0] 1 [] [['K']] = some (.dfn [['q','q'], ['K']]) ∧
    pdResolve exHidden [2, 1, 0] 1 [] [['K']] = some (.dfn [['q','q'], ['K']]) ∧
    (PyImp.run exHidden [0, 1, 2]).err = true := by decide +kernel

/-- `p/__init__.py` (empty); `p/x.py`: `class PX`; `p/sub.py`: `from .x import PX`; `q/__init__.py`: `from p import *` ;
`__all__ = ['sub']`; `q/x.py`: `class PX` -/
def exStarMod : Project := [
  ⟨[['p']], true, []⟩,
  ⟨[['p'], ['x']], false, [.classDef ['P','X'] [] []]⟩,
  ⟨[['p'], ['s','u','b']], false, [.importFrom 1 [['x']] ['P','X'] none]⟩,
  ⟨[['q']], true, [.importStar 0 [['p']], .allAssign [['s','u','b']]]⟩,
  ⟨[['q'], ['x']], false, [.classDef ['P','X'] [] []]⟩ ]

/-- HISTORICAL (before fix ec6815d) — a submodule re-exported through a star import was moved UNPROCESSED: with `p` and
`p.x` processed, the old `_handleReExport` step (`handleReExportOld`) for `sub` in `q` moves module 2 to `q.sub` while its
state is still `unprocessed`, so it was analysed afterwards as `q.sub` and `from .x import PX` was resolved against `q`
(replayed on real pydoctor by the harness: `order-dependent:star-reexport-unprocessed-module`).  The step as it is now
processes the module first. -/
theorem star_module_reexport_counterexample :
    (handleReExportOld (run exStarMod [0, 1]) 3 [['s','u','b']] ['s','u','b'] ['s','u','b'] 0).2 = true ∧
    getPs (handleReExportOld (run exStarMod [0, 1]) 3 [['s','u','b']] ['s','u','b'] ['s','u','b'] 0).1 2 = .unprocessed ∧
    path (handleReExportOld (run exStarMod [0, 1]) 3 [['s','u','b']] ['s','u','b'] ['s','u','b'] 0).1.reg 2
      = some [['q'], ['s','u','b']] ∧
    (handleReExport (processModule exStarMod 5) (run exStarMod [0, 1]) 3 [['s','u','b']] ['s','u','b'] ['s','u','b'] 0).2 = true ∧
    getPs (handleReExport (processModule exStarMod 5) (run exStarMod [0, 1]) 3 [['s','u','b']] ['s','u','b'] ['s','u','b'] 0).1 2
      = .processed := by decide +kernel

/-- the same project now: `PX` in the moved module is `p.x.PX` whether `p.sub` or `q` is processed first -/
theorem star_module_order_independent :
    (run exStarMod [0, 1, 3, 4, 2]).bad = false ∧ (run exStarMod [0, 1, 2, 3, 4]).bad = false ∧
    path (run exStarMod [0, 1, 3, 4, 2]).reg 2 = some [['q'], ['s','u','b']] ∧
    pdResolve exStarMod [0, 1, 3, 4, 2] 2 [] [['P','X']] = some (.dfn [['p'], ['x'], ['P','X']]) ∧
    pdResolve exStarMod [0, 1, 2, 3, 4] 2 [] [['P','X']] = some (.dfn [['p'], ['x'], ['P','X']]) := by decide +kernel

/-- the definer's body: a class with a method and a nested class, and a function -/
def rxDefBody : List Stmt := [.classDef ['K'] [] [.funcDef ['g'], .classDef ['N'] [] [.assign ['v'] 1]], .funcDef ['f']]

/-- a consumer of the definer `dp` / the re-exporter `xp` (new name `nn`): old name + subclass; new name;
module alias to the definer; module alias to the re-exporter; star import from the definer; star import
from the re-exporter; both names side by side -/
def rxConsumer (dp xp : Path) (nn : Name) : Nat → List Stmt
  | 0 => [.importFrom 0 dp ['K'] none, .classDef ['S'] [[['K']]] [.assign ['w'] 2]]
  | 1 => [.importFrom 0 xp nn none, .classDef ['S'] [[nn]] []]
  | 2 => [.importMod dp (some ['m','m']), .classDef ['S'] [[['m','m'], ['K']]] []]
  | 3 => [.importMod xp (some ['m','m']), .classDef ['S'] [[['m','m'], nn]] []]
  | 4 => [.importStar 0 dp, .classDef ['S'] [[['K']]] []]
  | 5 => [.importStar 0 xp]
  | _ => [.importFrom 0 dp ['K'] (some ['Q']), .importFrom 0 xp nn (some ['Q','2']), .importMod dp none,
          .classDef ['S'] [[['Q','2']]] [], .classDef ['T'] [[['Q']]] []]

/-- definer, one re-exporter (a sibling module, or the package `__init__` with a relative import; the
object renamed or not), one consumer; with a topological index -/
def rxProj (pkg renamed : Bool) (form : Nat) : Project × List Nat :=
  let nn : Name := if renamed then ['R'] else ['K']
  let asn : Option Name := if renamed then some ['R'] else none
  if pkg then
    ([⟨[['p']], true, [.importFrom 1 [['_','m']] ['K'] asn, .importFrom 1 [['_','m']] ['f'] (some ['h']), .allAssign [nn]]⟩,
      ⟨[['p'], ['_','m']], false, rxDefBody⟩,
      ⟨[['u','u']], false, rxConsumer [['p'], ['_','m']] [['p']] nn form⟩], [1, 0, 2])
  else
    ([⟨[['d','d']], false, rxDefBody⟩,
      ⟨[['x','x']], false, [.importFrom 0 [['d','d']] ['K'] asn, .importFrom 0 [['d','d']] ['f'] (some ['h']), .allAssign [nn]]⟩,
      ⟨[['u','u']], false, rxConsumer [['d','d']] [['x','x']] nn form⟩], [0, 1, 2])

/-- why the processing order must cover every module: a re-exporter that is never processed moves
nothing (`dd` alone is processed: `K` stays `dd.K`, while the finished system documents it as `xx.K`) -/
theorem resolve_sound_reexport_partial_order_counterexample :
    WFr (rxProj false false 0).1 [0, 1, 2] = true ∧
    pdResolve (rxProj false false 0).1 [0] 0 [] [['K']] = some (.dfn [['d','d'], ['K']]) ∧
    PyImp.pyDenotes (rxProj false false 0).1 [0, 1, 2] 0 [] [['K']] = some (.dfn [['d','d'], ['K']]) ∧
    finalLoc (rxProj false false 0).1 (.dfn [['d','d'], ['K']]) = .dfn [['x','x'], ['K']] ∧
    pdResolve (rxProj false false 0).1 [0, 1, 2] 0 [] [['K']] = some (.dfn [['x','x'], ['K']]) := by decide +kernel

/-- the theorem applied: a consumer that subclasses the moved class under its old name, the re-exporter being a
package `__init__` that renames the class; `S.g` is inherited from the moved class -/
example (a b : Ident) (h1 : pdResolve (rxProj true true 0).1 [2, 0, 1] 2 [] [['S'], ['g']] = some a)
    (h2 : PyImp.pyDenotes (rxProj true true 0).1 [0, 1, 2] 2 [] [['S'], ['g']] = some b) :
    a = finalLoc (rxProj true true 0).1 b :=
  resolve_sound_reexport (rxProj true true 0).1 (rxProj true true 0).2 (by decide +kernel) [2, 0, 1] [0, 1, 2]
    (by decide) 2 (by decide) [] [['S'], ['g']] a b h1 h2
example : pdResolve (rxProj true true 0).1 [2, 0, 1] 2 [] [['S'], ['g']] = some (.dfn [['p'], ['R'], ['g']]) := by decide +kernel
example : PyImp.pyDenotes (rxProj true true 0).1 [0, 1, 2] 2 [] [['S'], ['g']] = some (.dfn [['p'], ['_','m'], ['K'], ['g']]) := by
  decide +kernel
example : finalLoc (rxProj true true 0).1 (.dfn [['p'], ['_','m'], ['K'], ['g']]) = .dfn [['p'], ['R'], ['g']] := by decide +kernel

def rxFamily : List (Project × List Nat) :=
  [true, false].flatMap fun pkg => [true, false].flatMap fun ren => (List.range 7).map fun form => rxProj pkg ren form

/-- (every project of the family is `WFr`, is outside `noReexport`, has a re-export request, and the
search found no violation; number of (processing order, import order, scope, name) cases in which both
sides gave an answer) — `soundViolations` (PdModel/PyImp.lean) tries every dotted name of ≤ 3 components
over the identifiers of the project in every scope -/
def rxFamilyCheck : Bool × Nat :=
  rxFamily.foldl (fun acc pr =>
    let n := pr.1.length
    let r := soundViolations pr.1 (perms (List.range n)) [List.range n, (List.range n).reverse] 2
    (acc.1 && WFr pr.1 pr.2 && !(noReexport pr.1) && !(reexportReqs pr.1).isEmpty && r.1.isEmpty, acc.2 + r.2)) (true, 0)

/-- **bounded check of the statement**: on the 28 projects of `rxFamily`, under EVERY processing order
and two import orders, for every scope and every dotted name of ≤ 3 components: whenever pydoctor
resolves the name and Python binds it, pydoctor's object is the relocated definition site (7 704 cases) -/
theorem reexport_sound_bounded : rxFamilyCheck = (true, 7704) := by decide +kernel

end Imports
