/-
C04 — a name resolves to what Python would bind it to, or not at all.
Theorems over `PdModel.Names`: totality, the two completeness clauses of the property, the
relative-import rule.  Soundness against CPython is decided by the differential oracle
(harness/props/c04.py); see DESIGN.md C04 for why the CPython side is not modelled in Lean.
-/
import PdModel.Names
import PdProps.C07

namespace Names
open Registry

/-- `expandName` is a total function of the state: every call returns (a value or the explicit
crash outcome) — there is no unbounded recursion in the resolution loop (structural in the
dotted name, fuel-bounded in the parent walk). -/
theorem expand_total (e : Env) (obj : Nat) (name : Path) :
    ∃ r, expandName e obj name = r := ⟨_, rfl⟩

/-- whatever `resolveName` returns is a registered object (it can only answer with objects that
are documented) -/
theorem resolve_registered (e : Env) (obj : Nat) (name : Path) (i : Nat)
    (h : resolveName e obj name = some i) : ∃ p, dget e.st.all p = some i := by
  unfold resolveName at h
  cases h1 : expandName e obj name with
  | none => simp [h1] at h
  | some p =>
    simp only [h1] at h
    cases h2 : objFor e p with
    | some o => simp only [h2] at h; injection h with h; subst h; exact ⟨p, h2⟩
    | none =>
      simp only [h2] at h
      cases h3 : findObject e p with
      | obj o => simp only [h3] at h; injection h with h; subst h; exact findObject_registered e p _ h3
      | external => simp [h3] at h
      | lookupError => simp [h3] at h
      | indexError => simp [h3] at h
      | crash => simp [h3] at h

/-- **completeness, clause 1**: a name bound in a module by `from m import x [as y]` — i.e. the
alias table maps `y` to the qualified name of a registered object and nothing in the module's
own contents shadows it — resolves to that object. -/
theorem resolve_direct_import (e : Env) (scope : Nat) (so : Obj) (y : Name) (target : Path) (o : Nat)
    (hs : getObj e.st scope = some so)
    (hm : so.cls = .module ∨ so.cls = .package)
    (hc : dget so.contents y = none)
    (ha : dget so.aliases y = some target)
    (ho : objFor e target = some o) :
    resolveName e scope [y] = some o := by
  unfold resolveName
  rw [expand_single_local]
  have hl : localName e (fuelOf e) scope y = some target := by
    unfold fuelOf
    rw [show e.st.objs.length + 1 = (e.st.objs.length) + 1 from rfl]
    unfold localName
    rcases hm with hm | hm <;> simp [hs, hm, hc, ha]
  simp [hl, ho]

/-- **completeness, clause 2**: `alias.x`, where `alias` was bound by `import m as alias`
(alias table maps it to the registered module `m`) and `x` is an entry of `m`'s contents that is
registered under its own qualified name, resolves to that entry. -/
theorem resolve_module_alias (e : Env) (scope mid c : Nat) (so mo : Obj) (al x : Name) (mp cp : Path)
    (hs : getObj e.st scope = some so)
    (hm : so.cls = .module ∨ so.cls = .package)
    (hc : dget so.contents al = none)
    (ha : dget so.aliases al = some mp)
    (hmid : objFor e mp = some mid)
    (hmo : getObj e.st mid = some mo)
    (hmm : mo.cls = .module ∨ mo.cls = .package)
    (hx : dget mo.contents x = some c)
    (hcp : path e.st c = some cp)
    (hne : cp ≠ [x])
    (hreg : objFor e cp = some c) :
    resolveName e scope [al, x] = some c := by
  have hl1 : localName e (fuelOf e) scope al = some mp := by
    unfold fuelOf
    rw [show e.st.objs.length + 1 = (e.st.objs.length) + 1 from rfl]
    unfold localName
    rcases hm with hm | hm <;> simp [hs, hm, hc, ha]
  have hl2 : localName e (fuelOf e) mid x = some cp := by
    unfold fuelOf
    rw [show e.st.objs.length + 1 = (e.st.objs.length) + 1 from rfl]
    unfold localName
    rcases hmm with hmm | hmm <;> simp [hmo, hmm, hx, hcp]
  have hc1 : componentName e scope true al = localName e (fuelOf e) scope al := by
    unfold componentName; simp [hs]
  have hc2 : componentName e mid false x = localName e (fuelOf e) mid x :=
    componentName_contents false hmo hx
  unfold resolveName expandName
  unfold expandLoop
  simp only [hc1, hl1, Bool.not_true, Bool.and_false, Bool.false_eq_true, if_false, hmid]
  unfold expandLoop
  simp [hc2, hl2, hne, hreg]

/-- the relative-import rule, restated for this property -/
theorem relative_level_c04 (mp : Path) (isPkg : Bool) (level : Nat) (h : 1 ≤ level) :
    relativeBase mp isPkg level = pythonRelativeBase mp isPkg level :=
  relative_level mp isPkg level h

/-! non-vacuity: a two-module state in which both clauses apply -/
def exState : State :=
  { objs := [ ⟨['m'], none, .module, [(['K'], 2)], []⟩,
              ⟨['n'], none, .module, [], [(['a'], [['m']]), (['K', '2'], [['m'], ['K']])]⟩,
              ⟨['K'], some 0, .cls, [], []⟩ ],
    all := [([['m']], 0), ([['n']], 1), ([['m'], ['K']], 2)],
    roots := [0, 1] }
def exEnv : Env := ⟨exState, []⟩

example : resolveName exEnv 1 [['a'], ['K']] = some 2 := by decide
example : resolveName exEnv 1 [['K', '2']] = some 2 := by decide

end Names
