/-
C19 — Visitor extensions see a balanced, ordered walk whatever the main visitor prunes.

Property theorems over `PdModel.Visitor` (the model of pydoctor/visitor.py and of the
ASTBuilder scope stack).  All statements quantify over every tree, every assignment of pruning
actions and every list of extension timings.
-/
import PdModel.Visitor

namespace Visitor

/-! ## helper lemmas -/

theorem walkabout_stop (exts : List When) (id : Nat) (act : Act) (cs : List Tree) :
    (walkabout exts (.node id act cs)).2 = decide (act = .skipSiblings) := by
  cases act <;> simp [walkabout]

mutual
theorem walkabout_spec (exts : List When) :
    (t : Tree) → (walkabout exts t).1 = specTrace exts (prune t)
  | .node id act cs => by
    cases act <;>
      simp [walkabout, prune, specTrace, specList, walkChildren_spec exts cs]
theorem walkChildren_spec (exts : List When) :
    (ts : List Tree) → walkChildren exts ts = specList exts (pruneList ts)
  | [] => by simp [walkChildren, pruneList, specList]
  | (.node id act cs) :: ts => by
    have h1 := walkabout_spec exts (.node id act cs)
    have h2 := walkChildren_spec exts ts
    by_cases h : act = .skipSiblings
    · subst h
      simp [walkChildren, pruneList, specList, walkabout_stop, h1]
    · simp [walkChildren, pruneList, specList, walkabout_stop, h1, h2, h]
end

/-- filter of one timing class for extension index `e`. -/
theorem filter_extsAux (w : When) (e : Nat) :
    ∀ (xs : List When) (i : Nat),
      (extsAux w xs i).filter (fun j => j = e) =
        if i ≤ e ∧ xs[e - i]? = some w then [e] else []
  | [], i => by simp [extsAux]
  | x :: xs, i => by
    have ih := filter_extsAux w e xs (i+1)
    unfold extsAux
    by_cases hx : x = w
    · simp only [hx, if_true, List.filter_cons]
      by_cases hie : i = e
      · subst hie
        have : ¬ (i + 1 ≤ i) := by omega
        simp [ih, this]
      · simp only [hie, decide_false, ih]
        by_cases hle : i + 1 ≤ e
        · have h1 : i ≤ e := by omega
          have h2 : e - i = (e - (i+1)) + 1 := by omega
          simp [hle, h1, h2]
        · have h1 : ¬ i ≤ e := by omega
          simp [hle, h1]
    · simp only [hx, if_false, ih]
      by_cases hie : i = e
      · subst hie
        have : ¬ (i + 1 ≤ i) := by omega
        simp [this, hx]
      · by_cases hle : i + 1 ≤ e
        · have h1 : i ≤ e := by omega
          have h2 : e - i = (e - (i+1)) + 1 := by omega
          simp [hle, h1, h2]
        · have h1 : ¬ i ≤ e := by omega
          simp [hle, h1]

theorem filter_extsOf (exts : List When) (w : When) (e : Nat) :
    (extsOf exts w).filter (fun j => j = e) = if exts[e]? = some w then [e] else [] := by
  simp [extsOf, filter_extsAux]

theorem restrict_append (w : Who) (a b : List Event) :
    restrict w (a ++ b) = restrict w a ++ restrict w b := by
  simp [restrict]

theorem restrict_evs_ext (e : Nat) (k : Kind) (id : Nat) (l : List Nat) :
    restrict (.ext e) (evs k id l) = (l.filter (fun j => j = e)).map (fun _ => (k, id)) := by
  induction l with
  | nil => simp [restrict, evs]
  | cons x xs ih =>
    simp only [restrict, evs] at ih ⊢
    by_cases h : x = e
    · simp [h, ih]
    · have : ¬ (Who.ext x = Who.ext e) := by intro hh; injection hh; contradiction
      simp [h, this, ih]

theorem restrict_evs_main (k : Kind) (id : Nat) (l : List Nat) :
    restrict .main (evs k id l) = [] := by
  induction l with
  | nil => simp [restrict, evs]
  | cons x xs ih => simp only [restrict, evs] at ih ⊢; simp [ih]

/-- every registered extension sees exactly one `visit` in a node's enter block -/
theorem restrict_visitEvents_ext (exts : List When) (e : Nat) (he : e < exts.length) (id : Nat) :
    restrict (.ext e) (visitEvents exts id) = [(.visit, id)] := by
  have hget : exts[e]? = some exts[e] := by simp [he]
  simp only [visitEvents, restrict_append, restrict_evs_ext, List.filter_append, filter_extsOf, hget]
  cases h : exts[e] <;> simp [restrict]

theorem restrict_departEvents_ext (exts : List When) (e : Nat) (he : e < exts.length) (id : Nat)
    (b : Bool) : restrict (.ext e) (departEvents exts id b) = [(.depart, id)] := by
  have hget : exts[e]? = some exts[e] := by simp [he]
  simp only [departEvents, restrict_append, restrict_evs_ext, List.filter_append, filter_extsOf, hget]
  cases h : exts[e] <;> cases b <;> simp [restrict]

theorem restrict_visitEvents_main (exts : List When) (id : Nat) :
    restrict .main (visitEvents exts id) = [(.visit, id)] := by
  simp only [visitEvents, restrict_append, restrict_evs_main]; simp [restrict]

theorem restrict_departEvents_main (exts : List When) (id : Nat) (b : Bool) :
    restrict .main (departEvents exts id b) = if b then [] else [(.depart, id)] := by
  cases b <;> simp only [departEvents, restrict_append, restrict_evs_main] <;> simp [restrict]

mutual
theorem spec_restrict_ext (exts : List When) (e : Nat) (he : e < exts.length) :
    (p : PTree) → restrict (.ext e) (specTrace exts p) = brackets p
  | .node id md cs => by
    simp [specTrace, brackets, restrict_append, restrict_visitEvents_ext exts e he,
      restrict_departEvents_ext exts e he, spec_restrict_ext_list exts e he cs]
theorem spec_restrict_ext_list (exts : List When) (e : Nat) (he : e < exts.length) :
    (ps : List PTree) → restrict (.ext e) (specList exts ps) = bracketsList ps
  | [] => by simp [specList, bracketsList, restrict]
  | p :: ps => by
    simp [specList, bracketsList, restrict_append, spec_restrict_ext exts e he p,
      spec_restrict_ext_list exts e he ps]
end

mutual
theorem spec_restrict_main (exts : List When) :
    (p : PTree) → restrict .main (specTrace exts p) = mainBrackets p
  | .node id md cs => by
    cases md <;>
    simp [specTrace, mainBrackets, restrict_append, restrict_visitEvents_main,
      restrict_departEvents_main, spec_restrict_main_list exts cs]
theorem spec_restrict_main_list (exts : List When) :
    (ps : List PTree) → restrict .main (specList exts ps) = mainBracketsList ps
  | [] => by simp [specList, mainBracketsList, restrict]
  | p :: ps => by
    simp [specList, mainBracketsList, restrict_append, spec_restrict_main exts p,
      spec_restrict_main_list exts ps]
end

mutual
theorem dyck_brackets : (p : PTree) → ∀ (rest : List (Kind × Nat)) (st : List Nat),
    dyckRun (brackets p ++ rest) st = dyckRun rest st
  | .node id md cs => by
    intro rest st
    simp only [brackets, List.cons_append, List.append_assoc, dyckRun]
    rw [dyck_bracketsList cs]
    simp [dyckRun]
theorem dyck_bracketsList : (ps : List PTree) → ∀ (rest : List (Kind × Nat)) (st : List Nat),
    dyckRun (bracketsList ps ++ rest) st = dyckRun rest st
  | [] => by intro rest st; simp [bracketsList]
  | p :: ps => by
    intro rest st
    simp only [bracketsList, List.append_assoc]
    rw [dyck_brackets p, dyck_bracketsList ps]
end

-- the visit events inside a bracket word are the reached nodes in preorder
mutual
theorem visits_brackets : (p : PTree) →
    ((brackets p).filter (fun x => x.1 = .visit)).map (·.2) = pids p
  | .node id md cs => by
    simp [brackets, pids, visits_bracketsList cs]
theorem visits_bracketsList : (ps : List PTree) →
    ((bracketsList ps).filter (fun x => x.1 = .visit)).map (·.2) = pidsList ps
  | [] => by simp [bracketsList, pidsList]
  | p :: ps => by simp [bracketsList, pidsList, visits_brackets p, visits_bracketsList ps]
end

mutual
theorem pids_sublist : (t : Tree) → (pids (prune t)).Sublist (ids t)
  | .node id act cs => by
    have h := pidsList_sublist cs
    cases act <;> simp [prune, pids, ids, pidsList, h]
theorem pidsList_sublist : (ts : List Tree) → (pidsList (pruneList ts)).Sublist (idsList ts)
  | [] => by simp [pruneList, pidsList, idsList]
  | (.node id act cs) :: ts => by
    have h1 := pids_sublist (.node id act cs)
    have h2 := pidsList_sublist ts
    by_cases h : act = .skipSiblings
    · simp only [pruneList, h, if_true, pidsList, idsList, List.append_nil]
      rw [← h]
      exact List.Sublist.trans h1 (List.sublist_append_left _ _)
    · simp only [pruneList, h, if_false, pidsList, idsList]
      exact List.Sublist.append h1 h2
end

/-! ## Property theorems -/

/-- **prune_meaning**: the walk performed by `walkabout` is exactly the documented walk over the
tree pruned according to the docstrings of the four pruning exceptions; `SkipSiblings` reaches
the caller iff the walked node itself raised it. -/
theorem prune_meaning (exts : List When) (t : Tree) :
    (walkabout exts t).1 = specTrace exts (prune t) :=
  walkabout_spec exts t

theorem escape_iff (exts : List When) (id : Nat) (act : Act) (cs : List Tree) :
    (walkabout exts (.node id act cs)).2 = true ↔ act = .skipSiblings := by
  simp [walkabout_stop]

/-- **nested**: restricted to one registered extension, the trace is the bracket word of the
pruned tree: one enter and one leave per reached node, nested like the tree. -/
theorem nested (exts : List When) (t : Tree) (e : Nat) (he : e < exts.length) :
    restrict (.ext e) (walkabout exts t).1 = brackets (prune t) := by
  rw [prune_meaning, spec_restrict_ext exts e he]

/-- **balanced**: every extension that entered a node also leaves it, properly nested. -/
theorem balanced (exts : List When) (t : Tree) (e : Nat) (he : e < exts.length) :
    isDyck (restrict (.ext e) (walkabout exts t).1) = true := by
  rw [nested exts t e he]
  have := dyck_brackets (prune t) [] []
  simp at this
  simp [isDyck, this, dyckRun]

/-- the main visitor sees the same word minus the departures it asked to skip. -/
theorem main_trace (exts : List When) (t : Tree) :
    restrict .main (walkabout exts t).1 = mainBrackets (prune t) := by
  rw [prune_meaning, spec_restrict_main]

/-- **enter_once**: with distinct nodes, no extension enters a node twice. -/
theorem enter_once (exts : List When) (t : Tree) (e : Nat) (he : e < exts.length)
    (hn : (ids t).Nodup) :
    (((restrict (.ext e) (walkabout exts t).1).filter (fun x => x.1 = .visit)).map (·.2)).Nodup := by
  rw [nested exts t e he, visits_brackets]
  exact List.Sublist.nodup (pids_sublist t) hn

/-- **order** on entry: BEFORE, OUTTER, main, AFTER, INNER. -/
theorem order_visit (exts : List When) (id : Nat) :
    visitEvents exts id =
      evs .visit id (extsOf exts .before) ++ evs .visit id (extsOf exts .outter)
        ++ [⟨.main, .visit, id⟩]
        ++ evs .visit id (extsOf exts .after) ++ evs .visit id (extsOf exts .inner) := by
  simp [visitEvents, evs]

/-- **order** on exit: BEFORE, INNER, main, AFTER, OUTTER. -/
theorem order_depart (exts : List When) (id : Nat) :
    departEvents exts id false =
      evs .depart id (extsOf exts .before) ++ evs .depart id (extsOf exts .inner)
        ++ [⟨.main, .depart, id⟩]
        ++ evs .depart id (extsOf exts .after) ++ evs .depart id (extsOf exts .outter) := by
  simp [departEvents, evs]

/-! ### the builder's scope stack -/

mutual
/-- the actions `ModuleVistor` can raise (only SkipNode, before pushing), recorded per node id -/
def consistent (skips : Nat → Bool) : Tree → Prop
  | .node id act cs =>
    ((act = .none ∧ skips id = false) ∨ (act = .skipNode ∧ skips id = true)) ∧ consistentList skips cs
def consistentList (skips : Nat → Bool) : List Tree → Prop
  | [] => True
  | t :: ts => consistent skips t ∧ consistentList skips ts
end

theorem stackRun_append (scope skips : Nat → Bool) (a b : List Event) (st : List Nat) :
    stackRun scope skips (a ++ b) st = (stackRun scope skips a st).bind (stackRun scope skips b) := by
  induction a generalizing st with
  | nil => simp [stackRun]
  | cons e a ih =>
    obtain ⟨who, kind, node⟩ := e
    cases who <;> cases kind <;> simp only [List.cons_append, stackRun]
    · split <;> simp [ih]
    · split
      · split
        · split <;> simp [ih]
        · simp
      · simp [ih]
    · simp [ih]
    · simp [ih]

theorem stackRun_evs (scope skips : Nat → Bool) (k : Kind) (id : Nat) (l : List Nat) (st : List Nat) :
    stackRun scope skips (evs k id l) st = some st := by
  induction l with
  | nil => simp [evs, stackRun]
  | cons x xs ih => simp only [evs, List.map_cons] at ih ⊢; cases k <;> simp [stackRun, ih]

mutual
theorem stack_walkabout (scope skips : Nat → Bool) (exts : List When) :
    (t : Tree) → consistent skips t → ∀ st, stackRun scope skips (walkabout exts t).1 st = some st
  | .node id act cs => by
    intro h st
    simp only [consistent] at h
    obtain ⟨hact, hcs⟩ := h
    have ihc := stack_walkChildren scope skips exts cs hcs
    rcases hact with ⟨ha, hs⟩ | ⟨ha, hs⟩
    · subst ha
      by_cases hsc : scope id
      · simp [walkabout, visitEvents, departEvents, stackRun_append, stackRun_evs, stackRun, hs, hsc, ihc]
      · simp [walkabout, visitEvents, departEvents, stackRun_append, stackRun_evs, stackRun, hs, hsc, ihc]
    · subst ha
      simp [walkabout, visitEvents, departEvents, stackRun_append, stackRun_evs, stackRun, hs]
theorem stack_walkChildren (scope skips : Nat → Bool) (exts : List When) :
    (ts : List Tree) → consistentList skips ts → ∀ st, stackRun scope skips (walkChildren exts ts) st = some st
  | [] => by intro _ st; simp [walkChildren, stackRun]
  | t :: ts => by
    intro h st
    simp only [consistentList] at h
    have h1 := stack_walkabout scope skips exts t h.1
    have h2 := stack_walkChildren scope skips exts ts h.2
    simp only [walkChildren]
    split
    · exact h1 st
    · simp [stackRun_append, h1, h2]
end

/-- **builder_stack_empty**: after `walkabout` over any module tree whose prunings are those
`ModuleVistor` raises, the scope stack is back to what it was (empty at top level), and no `pop`
ever met an empty stack or the wrong object. -/
theorem builder_stack_empty (scope skips : Nat → Bool) (exts : List When) (t : Tree)
    (h : consistent skips t) : stackRun scope skips (walkabout exts t).1 [] = some [] :=
  stack_walkabout scope skips exts t h []

/-! ## the general walk: pruning raised by `depart_*`, nodes visited from inside a `visit_*`

`walkaboutG inl dact` is what the code does when the main visitor's `depart_*` of node `n` raises `dact n`
and its `visit_*` of node `n` visits the nodes `inl n` itself (`NodeVisitor.generic_visit`).

Since 97d973e the statements hold for EVERY `dact` (`general_walk`, `balanced_general`, `escape_general`); what
the code did before is kept as `walkaboutGOld` with the historical counterexamples `old_departure_prune_unbalanced`,
`old_departure_prune_escape`.  Nodes visited by a `visit_*` method itself are entered and never left — that is
what `generic_visit` does, today as before (`inline_visit_unbalanced_counterexample`,
`inline_visit_order_counterexample`); since 090633d the AST builder does not do it any more (`visit_Expr` does not
call `generic_visit`), so the hypothesis `NoInline` is true of every walk pydoctor performs; the full statement
without it,

    ∀ inl dact exts t e, e < exts.length → isDyck (restrict (.ext e) (walkaboutG inl dact exts t).1) = true

stays false. -/

/-- no `visit_*` of a node of the tree visits other nodes itself -/
def NoInline (inl : Nat → List Nat) (l : List Nat) : Prop := ∀ n ∈ l, inl n = []

instance (inl : Nat → List Nat) (l : List Nat) : Decidable (NoInline inl l) := by
  unfold NoInline; exact inferInstance

/-- no `depart_*` of a node of `t` raises, no `visit_*` of a node of `t` visits other nodes itself -/
def Plain (inl : Nat → List Nat) (dact : Nat → Act) (l : List Nat) : Prop :=
  ∀ n ∈ l, inl n = [] ∧ dact n = .none

instance (inl : Nat → List Nat) (dact : Nat → Act) (l : List Nat) : Decidable (Plain inl dact l) := by
  unfold Plain; exact inferInstance

def excOf (b : Bool) : Option Act := if b then some .skipSiblings else none

theorem visitEventsG_plain (inl : Nat → List Nat) (exts : List When) (id : Nat) (h : inl id = []) :
    visitEventsG inl exts id = visitEvents exts id := by
  simp [visitEventsG, visitEvents, h]

/-- the tail of `walkabout`: everybody leaves; SkipSiblings goes on if the visit raised it, or the
departure did (and ran) -/
theorem finishG_eq (dact : Nat → Act) (exts : List When) (id : Nat) (act : Act) (tr : List Event)
    (extOnly : Bool) :
    finishG dact exts id act tr extOnly =
      (tr ++ departEvents exts id extOnly,
        excOf (act == .skipSiblings || (!extOnly && dact id == .skipSiblings))) := by
  cases extOnly <;> cases h : dact id <;> cases act <;>
    simp [finishG, departEventsG, departEvents, excOf, h]

mutual
theorem walkaboutG_spec (inl : Nat → List Nat) (dact : Nat → Act) (exts : List When) :
    (t : Tree) → NoInline inl (ids t) →
      walkaboutF (finishG dact exts) inl exts t =
        (specTrace exts (pruneG dact t),
          match t with | .node id act _ => excOf (stopsG dact id act))
  | .node id act cs => by
    intro h
    have hid : inl id = [] := h id (by simp [ids])
    have hcs : NoInline inl (idsList cs) := fun n hn => h n (by simp [ids, hn])
    obtain ⟨k1, k2⟩ := walkChildrenG_spec inl dact exts cs hcs
    cases act <;>
      rcases k2 with k2 | k2 <;>
      simp [walkaboutF, pruneG, specTrace, specList, excOf, k1, k2, finishG_eq, visitEventsG_plain, hid,
        stopsG, mainDeparts]
theorem walkChildrenG_spec (inl : Nat → List Nat) (dact : Nat → Act) (exts : List When) :
    (ts : List Tree) → NoInline inl (idsList ts) →
      (walkChildrenF (finishG dact exts) inl exts ts).1 = specList exts (pruneListG dact ts) ∧
      ((walkChildrenF (finishG dact exts) inl exts ts).2 = none ∨
        (walkChildrenF (finishG dact exts) inl exts ts).2 = some .skipSiblings)
  | [] => by intro _; simp [walkChildrenF, pruneListG, specList]
  | (.node id act cs) :: ts => by
    intro h
    have h1 := walkaboutG_spec inl dact exts (.node id act cs) (fun n hn => h n (by simp [idsList, hn]))
    obtain ⟨k1, k2⟩ := walkChildrenG_spec inl dact exts ts (fun n hn => h n (by simp [idsList, hn]))
    cases hb : stopsG dact id act <;>
      simp [walkChildrenF, pruneListG, specList, h1, hb, excOf, k1, k2]
end

/-- **general_walk**: whatever the main visitor's `depart_*` methods raise, the walk is the documented walk over
the tree pruned by the visit actions and by the SkipSiblings of the departures that ran. -/
theorem general_walk (inl : Nat → List Nat) (dact : Nat → Act) (exts : List When) (t : Tree)
    (h : NoInline inl (ids t)) :
    (walkaboutG inl dact exts t).1 = specTrace exts (pruneG dact t) := by
  simp [walkaboutG, walkaboutG_spec inl dact exts t h]

/-- **escape_general**: nothing but a SkipSiblings of the walked node itself (raised by its visit, or by its
departure if that ran) leaves `walkabout`. -/
theorem escape_general (inl : Nat → List Nat) (dact : Nat → Act) (exts : List When) (id : Nat) (act : Act)
    (cs : List Tree) (h : NoInline inl (ids (.node id act cs))) :
    (walkaboutG inl dact exts (.node id act cs)).2 = excOf (stopsG dact id act) := by
  simp [walkaboutG, walkaboutG_spec inl dact exts (.node id act cs) h]

/-- **balanced_general**: every extension that entered a node leaves it, nested like the pruned tree — also
when departures raise. -/
theorem balanced_general (inl : Nat → List Nat) (dact : Nat → Act) (exts : List When) (t : Tree)
    (h : NoInline inl (ids t)) (e : Nat) (he : e < exts.length) :
    restrict (.ext e) (walkaboutG inl dact exts t).1 = brackets (pruneG dact t) ∧
    isDyck (restrict (.ext e) (walkaboutG inl dact exts t).1) = true := by
  rw [general_walk inl dact exts t h, spec_restrict_ext exts e he]
  have := dyck_brackets (pruneG dact t) [] []
  simp at this
  simp [isDyck, this, dyckRun]

mutual
theorem pruneG_plain (dact : Nat → Act) : (t : Tree) → (∀ n ∈ ids t, dact n = .none) → pruneG dact t = prune t
  | .node id act cs => by
    intro h
    have hcs := pruneListG_plain dact cs (fun n hn => h n (by simp [ids, hn]))
    cases act <;> simp [pruneG, prune, hcs]
theorem pruneListG_plain (dact : Nat → Act) :
    (ts : List Tree) → (∀ n ∈ idsList ts, dact n = .none) → pruneListG dact ts = pruneList ts
  | [] => by intro _; simp [pruneListG, pruneList]
  | (.node id act cs) :: ts => by
    intro h
    have hid : dact id = .none := h id (by simp [idsList, ids])
    have h1 := pruneG_plain dact (.node id act cs) (fun n hn => h n (by simp [idsList, hn]))
    have h2 := pruneListG_plain dact ts (fun n hn => h n (by simp [idsList, hn]))
    cases act <;> simp [pruneListG, pruneList, stopsG, mainDeparts, hid, h1, h2]
end

/-- **general_walk_plain**: when no `depart_*` raises and no `visit_*` visits nodes itself, the general walk is
`walkabout` — `prune_meaning`, `nested`, `enter_once`, `main_trace`, `builder_stack_empty` speak about it. -/
theorem general_walk_plain (inl : Nat → List Nat) (dact : Nat → Act) (exts : List When) (t : Tree)
    (h : Plain inl dact (ids t)) :
    (walkaboutG inl dact exts t).1 = (walkabout exts t).1 := by
  rw [general_walk inl dact exts t (fun n hn => (h n hn).1), prune_meaning,
    pruneG_plain dact t (fun n hn => (h n hn).2)]

def exTree3 : Tree := .node 0 .none [.node 1 .none [], .node 2 .none []]

example : Plain (fun _ => []) (fun _ => .none) (ids exTree3) := by decide
example : NoInline (fun _ => []) (ids exTree3) := by decide

/-- today: `SkipSiblings` raised by the main visitor's departure of node 1 skips node 2 and every extension
leaves node 1 -/
theorem new_departure_prune_balanced :
    restrict (.ext 0) (walkaboutG (fun _ => []) (fun n => if n = 1 then .skipSiblings else .none)
      [.after] exTree3).1 = [(.visit, 0), (.visit, 1), (.depart, 1), (.depart, 0)]
    ∧ (walkaboutG (fun _ => []) (fun n => if n = 1 then .skipNode else .none) [.before] exTree3).2 = none := by
  decide

/-- HISTORICAL (before 97d973e): `SkipSiblings` raised by the main visitor's departure of node 1: node 2 was
skipped as asked, but the AFTER (and OUTTER) extension entered node 1 and never left it. -/
theorem old_departure_prune_unbalanced :
    isDyck (restrict (.ext 0) (walkaboutGOld (fun _ => []) (fun n => if n = 1 then .skipSiblings else .none)
      [.after] exTree3).1) = false
    ∧ isDyck (restrict (.ext 0) (walkaboutGOld (fun _ => []) (fun n => if n = 1 then .skipSiblings else .none)
      [.outter] exTree3).1) = false
    ∧ (restrict (.ext 0) (walkaboutGOld (fun _ => []) (fun n => if n = 1 then .skipSiblings else .none)
      [.before] exTree3).1).contains (.visit, 2) = false := by decide

/-- HISTORICAL (before 97d973e): `SkipNode` raised by the main visitor's departure of node 1 left every enclosing
`walkabout`: the root was entered and never left, by the main visitor and by every extension. -/
theorem old_departure_prune_escape :
    (walkaboutGOld (fun _ => []) (fun n => if n = 1 then .skipNode else .none) [.before] exTree3).2 = some .skipNode
    ∧ isDyck (restrict (.ext 0) (walkaboutGOld (fun _ => []) (fun n => if n = 1 then .skipNode else .none)
      [.before] exTree3).1) = false := by decide

/-- what `generic_visit` called from a `visit_*` method does (the AST builder's `visit_Expr` did, for
`Module(body=[Expr(value=Call)])` = nodes 0, 1 and (inline) 2, until 090633d): every extension enters the inline
node and never leaves it … -/
theorem inline_visit_unbalanced_counterexample :
    isDyck (restrict (.ext 0) (walkaboutG (fun n => if n = 1 then [2] else []) (fun _ => .none) [.before]
      (.node 0 .none [.node 1 .none []])).1) = false := by decide

/-- … and an AFTER extension enters it (2) before the node (1) it belongs to. -/
theorem inline_visit_order_counterexample :
    restrict (.ext 0) (walkaboutG (fun n => if n = 1 then [2] else []) (fun _ => .none) [.after]
      (.node 0 .none [.node 1 .none []])).1
      = [(.visit, 0), (.visit, 2), (.visit, 1), (.depart, 1), (.depart, 0)] := by decide

/-! ## non-vacuity and the pre-fix counterexample -/

def exTree : Tree :=
  .node 0 .none [.node 1 .skipSiblings [.node 2 .none []], .node 3 .none []]

example : (ids exTree).Nodup ∧ (1 : Nat) < [When.before, When.inner].length := by decide

example : consistent (fun n => n == 2)
    (.node 0 .none [.node 1 .none [], .node 2 .skipNode [.node 3 .none []]]) := by
  simp [consistent, consistentList]

/-- The walk as pydoctor implemented it before the `fix:` commit was *not* balanced: with a
SkipSiblings raised by the main visitor, an extension entered node 1 and never left it. -/
theorem old_unbalanced :
    isDyck (restrict (.ext 0) (walkaboutOld [.before] exTree).1) = false := by decide

/-- … and the child of the SkipSiblings node was not visited although the docstring says the
current node's children are not affected. -/
theorem old_skips_children :
    (restrict (.ext 0) (walkaboutOld [.before] exTree).1).contains (.visit, 2) = false := by decide

theorem new_visits_children :
    (restrict (.ext 0) (walkabout [.before] exTree).1).contains (.visit, 2) = true := by decide

end Visitor

/-! ## handler dispatch (`_BaseVisitor.visit` / `depart`) -/
namespace Visitor

/-- **dispatch_same_family**: a node is left through the same handler family it was entered through
(the method written for its class name, the lower-case spelling, or the generic handler), for
every visitor that defines its handlers in pairs -/
theorem dispatch_same_family (defined : List String) (cls : String) (h : Paired defined cls) :
    (dispatch defined "visit_" cls).family = (dispatch defined "depart_" cls).family := by
  obtain ⟨h1, h2⟩ := h
  unfold dispatch
  by_cases a : ("visit_" ++ cls) ∈ defined
  · have b := h1.mp a
    simp [a, b, Handler.family]
  · have b : ("depart_" ++ cls) ∉ defined := fun hb => a (h1.mpr hb)
    by_cases c : lowerAscii ("visit_" ++ cls) ∈ defined
    · have d := h2.mp c
      simp [a, b, c, d, Handler.family]
    · have d : lowerAscii ("depart_" ++ cls) ∉ defined := fun hd => c (h2.mpr hd)
      simp [a, b, c, d, Handler.family]

/-- the pairing hypothesis is needed: a visitor with `visit_N` but no `depart_N` enters through the
specific handler and leaves through the generic one -/
theorem dispatch_unpaired_counterexample :
    (dispatch ["visit_N"] "visit_" "N").family = .exact ∧ (dispatch ["visit_N"] "depart_" "N").family = .unknown := by
  decide

example : Paired ["visit_N", "depart_N", "visit_low", "depart_low"] "Low" := by
  unfold Paired; decide
example : (dispatch ["visit_N", "depart_N", "visit_low", "depart_low"] "visit_" "Low") = .lower "visit_low" := by decide
example : (dispatch ["visit_N", "depart_N"] "visit_" "SubN") = .unknown := by decide

end Visitor

/-! ## the departure-less traversal `Visitor.walk`

The theorems above prove the property for `Visitor.walkabout` (the traversal pydoctor's AST builder uses).
`visitor.py` has a second public traversal, `Visitor.walk`, which calls `visit()` only; the docstring says it is
"similar, except" for the departures.  The statements below make "similar" exact, for every tree, every
assignment of pruning actions and every list of extension timings:

* `walk_is_walkabout_visits` — the trace of `walk` is the trace of `walkabout` with the departure events
  erased, and `SkipSiblings` reaches the caller in the same cases;
* `walk_meaning` — it is the documented enter-only walk over the tree pruned as the four docstrings say
  (`SkipDeparture` "not applicable; ignore");
* `walk_visits_only`, `walk_enter_once`, `walk_ext_preorder`, `walk_main_preorder` — no departure is ever
  called, no extension (nor the main visitor) enters a node twice, and each of them sees the reached nodes in
  preorder;
* `walk_same_nodes_as_walkabout` — every extension enters under `walk` exactly the nodes it enters under
  `walkabout`, in the same order.
-/

namespace Visitor

/-- an event is an entry (`visit_*`), not a departure -/
def isVisit (e : Event) : Bool := e.kind == .visit

theorem filter_isVisit_evs_visit (id : Nat) (l : List Nat) :
    (evs .visit id l).filter isVisit = evs .visit id l := by
  induction l with
  | nil => simp [evs]
  | cons x xs ih =>
    simp only [evs, List.map_cons] at ih ⊢
    simp [isVisit, ih]

theorem filter_isVisit_evs_depart (id : Nat) (l : List Nat) :
    (evs .depart id l).filter isVisit = [] := by
  induction l with
  | nil => simp [evs]
  | cons x xs ih =>
    simp only [evs, List.map_cons] at ih ⊢
    simp [isVisit, ih]

theorem filter_isVisit_visitEvents (exts : List When) (id : Nat) :
    (visitEvents exts id).filter isVisit = visitEvents exts id := by
  simp [visitEvents, List.filter_append, filter_isVisit_evs_visit, isVisit]

theorem filter_isVisit_departEvents (exts : List When) (id : Nat) (b : Bool) :
    (departEvents exts id b).filter isVisit = [] := by
  cases b <;> simp [departEvents, List.filter_append, filter_isVisit_evs_depart, isVisit]

theorem walk_stop (exts : List When) (id : Nat) (act : Act) (cs : List Tree) :
    (walk exts (.node id act cs)).2 = decide (act = .skipSiblings) := by
  cases act <;> simp [walk]

mutual
theorem walk_filter (exts : List When) :
    (t : Tree) → (walk exts t).1 = (walkabout exts t).1.filter isVisit
  | .node id act cs => by
    cases act <;>
      simp [walk, walkabout, List.filter_append, filter_isVisit_visitEvents, filter_isVisit_departEvents,
        walkKids_filter exts cs]
theorem walkKids_filter (exts : List When) :
    (ts : List Tree) → walkKids exts ts = (walkChildren exts ts).filter isVisit
  | [] => by simp [walkKids, walkChildren]
  | (.node id act cs) :: ts => by
    have h1 := walk_filter exts (.node id act cs)
    have h2 := walkKids_filter exts ts
    by_cases h : act = .skipSiblings
    · subst h
      simp [walkKids, walkChildren, walk_stop, walkabout_stop, h1]
    · simp [walkKids, walkChildren, walk_stop, walkabout_stop, h1, h2, h, List.filter_append]
end

/-! ## the enter-only documented walk -/

mutual
/-- the documented walk without departures over a pruned tree: enter block, then the children left to right -/
def specVisits (exts : List When) : PTree → List Event
  | .node id _ cs => visitEvents exts id ++ specVisitsList exts cs
def specVisitsList (exts : List When) : List PTree → List Event
  | [] => []
  | t :: ts => specVisits exts t ++ specVisitsList exts ts
end

mutual
theorem specTrace_filter (exts : List When) :
    (p : PTree) → (specTrace exts p).filter isVisit = specVisits exts p
  | .node id md cs => by
    simp [specTrace, specVisits, List.filter_append, filter_isVisit_visitEvents, filter_isVisit_departEvents,
      specList_filter exts cs]
theorem specList_filter (exts : List When) :
    (ps : List PTree) → (specList exts ps).filter isVisit = specVisitsList exts ps
  | [] => by simp [specList, specVisitsList]
  | p :: ps => by
    simp [specList, specVisitsList, List.filter_append, specTrace_filter exts p, specList_filter exts ps]
end

theorem restrict_filter_isVisit (w : Who) (tr : List Event) :
    restrict w (tr.filter isVisit) = (restrict w tr).filter (fun x => x.1 = .visit) := by
  unfold restrict
  rw [List.filter_map, List.filter_filter, List.filter_filter]
  congr 1
  apply List.filter_congr
  intro e _
  cases hk : e.kind <;> simp [isVisit, hk]

-- the main visitor's bracket word: its entries are the reached nodes in preorder as well
mutual
theorem visits_mainBrackets : (p : PTree) →
    ((mainBrackets p).filter (fun x => x.1 = .visit)).map (·.2) = pids p
  | .node id md cs => by
    cases md <;> simp [mainBrackets, pids, visits_mainBracketsList cs]
theorem visits_mainBracketsList : (ps : List PTree) →
    ((mainBracketsList ps).filter (fun x => x.1 = .visit)).map (·.2) = pidsList ps
  | [] => by simp [mainBracketsList, pidsList]
  | p :: ps => by simp [mainBracketsList, pidsList, visits_mainBrackets p, visits_mainBracketsList ps]
end

/-! ## Property theorems for `Visitor.walk` -/

/-- **walk_is_walkabout_visits**: `walk` is `walkabout` with every departure erased — same entries, same order,
same pruning — and `SkipSiblings` reaches the caller in exactly the same cases. -/
theorem walk_is_walkabout_visits (exts : List When) (t : Tree) :
    walk exts t = ((walkabout exts t).1.filter isVisit, (walkabout exts t).2) := by
  cases t with
  | node id act cs =>
    apply Prod.ext
    · exact walk_filter exts _
    · simp [walk_stop, walkabout_stop]

/-- **walk_meaning**: the walk performed by `walk` is the documented enter-only walk over the pruned tree. -/
theorem walk_meaning (exts : List When) (t : Tree) :
    (walk exts t).1 = specVisits exts (prune t) := by
  rw [walk_filter, prune_meaning, specTrace_filter]

theorem walk_escape_iff (exts : List When) (id : Nat) (act : Act) (cs : List Tree) :
    (walk exts (.node id act cs)).2 = true ↔ act = .skipSiblings := by
  simp [walk_stop]

/-- **walk_visits_only**: `walk` never calls a departure, of the main visitor or of an extension. -/
theorem walk_visits_only (exts : List When) (t : Tree) :
    ∀ e ∈ (walk exts t).1, e.kind = .visit := by
  intro e he
  rw [walk_filter] at he
  have := (List.mem_filter.mp he).2
  simpa [isVisit] using this

/-- **walk_ext_preorder**: one registered extension sees, under `walk`, the reached nodes in preorder. -/
theorem walk_ext_preorder (exts : List When) (t : Tree) (e : Nat) (he : e < exts.length) :
    (restrict (.ext e) (walk exts t).1).map (·.2) = pids (prune t) := by
  rw [walk_filter, restrict_filter_isVisit, nested exts t e he, visits_brackets]

/-- the main visitor sees the same nodes in the same order -/
theorem walk_main_preorder (exts : List When) (t : Tree) :
    (restrict .main (walk exts t).1).map (·.2) = pids (prune t) := by
  rw [walk_filter, restrict_filter_isVisit, main_trace, visits_mainBrackets]

/-- **walk_enter_once**: with distinct nodes, no extension enters a node twice under `walk`. -/
theorem walk_enter_once (exts : List When) (t : Tree) (e : Nat) (he : e < exts.length)
    (hn : (ids t).Nodup) :
    ((restrict (.ext e) (walk exts t).1).map (·.2)).Nodup := by
  rw [walk_ext_preorder exts t e he]
  exact List.Sublist.nodup (pids_sublist t) hn

/-- **walk_same_nodes_as_walkabout**: an extension enters, under `walk`, exactly the nodes it enters under
`walkabout`, in the same order. -/
theorem walk_same_nodes_as_walkabout (exts : List When) (t : Tree) (e : Nat) :
    restrict (.ext e) (walk exts t).1
      = (restrict (.ext e) (walkabout exts t).1).filter (fun x => x.1 = .visit) := by
  rw [walk_filter, restrict_filter_isVisit]

/-- the entry order inside one node is the documented one under `walk` too: the trace of a leaf is
`visitEvents` (BEFORE, OUTTER, main, AFTER, INNER — `order_visit`). -/
theorem walk_leaf (exts : List When) (id : Nat) (act : Act) :
    (walk exts (.node id act [])).1 = visitEvents exts id := by
  cases act <;> simp [walk, walkKids]

/-! ## non-vacuity -/

example : (ids exTree).Nodup ∧ (0 : Nat) < [When.after].length := by decide
example : restrict (.ext 0) (walk [.after] exTree).1 = [(.visit, 0), (.visit, 1), (.visit, 2)] := by decide
example : (walk [.after] (.node 1 .skipSiblings [])).2 = true := by decide

end Visitor

/-! ## extensions registered later (`ExtList.add` on a live visitor)

`ExtList.add` appends the new instances to the per-timing lists, so the registration list of the second walk is
`exts ++ late`.  Registering more extensions changes nothing for those already there, nor for the main visitor. -/
namespace Visitor

theorem extsAux_append (w : When) : ∀ (a b : List When) (i : Nat),
    extsAux w (a ++ b) i = extsAux w a i ++ extsAux w b (i + a.length)
  | [], b, i => by simp [extsAux]
  | x :: xs, b, i => by
    have ih := extsAux_append w xs b (i + 1)
    have e : i + 1 + xs.length = i + (xs.length + 1) := by omega
    by_cases h : x = w <;> simp [extsAux, h, ih, e]

/-- **extsOf_append**: within one timing class the extensions run in registration order, the ones added later
after the ones already registered. -/
theorem extsOf_append (a b : List When) (w : When) :
    extsOf (a ++ b) w = extsOf a w ++ extsAux w b a.length := by
  simp [extsOf, extsAux_append]

/-- **late_add_ext_view**: what an already registered extension sees of a walk is not changed by registering
further extensions (`ExtList.add` / `attach_visitor` on a live visitor). -/
theorem late_add_ext_view (a b : List When) (t : Tree) (e : Nat) (he : e < a.length) :
    restrict (.ext e) (walkabout (a ++ b) t).1 = restrict (.ext e) (walkabout a t).1 := by
  rw [nested (a ++ b) t e (by simp; omega), nested a t e he]

/-- … nor what the main visitor sees. -/
theorem late_add_main_view (a b : List When) (t : Tree) :
    restrict .main (walkabout (a ++ b) t).1 = restrict .main (walkabout a t).1 := by
  rw [main_trace, main_trace]

/-- … and the newcomers see the same balanced walk as everybody else. -/
theorem late_add_new_view (a b : List When) (t : Tree) (e : Nat) (he : e < (a ++ b).length) :
    restrict (.ext e) (walkabout (a ++ b) t).1 = brackets (prune t) :=
  nested (a ++ b) t e he

example : extsOf ([.before, .after] ++ [.before]) .before = [0, 2] := by decide

end Visitor

/-! ## the main visitor and the extensions enter the same nodes -/
namespace Visitor

/-- **main_enter_once**: with distinct nodes the main visitor enters no node twice either. -/
theorem main_enter_once (exts : List When) (t : Tree) (hn : (ids t).Nodup) :
    (((restrict .main (walkabout exts t).1).filter (fun x => x.1 = .visit)).map (·.2)).Nodup := by
  rw [main_trace, visits_mainBrackets]
  exact List.Sublist.nodup (pids_sublist t) hn

/-- **same_nodes_entered**: every registered extension enters exactly the nodes the main visitor enters, in the
same order — also the nodes whose departure or children the main visitor skips. -/
theorem same_nodes_entered (exts : List When) (t : Tree) (e : Nat) (he : e < exts.length) :
    ((restrict (.ext e) (walkabout exts t).1).filter (fun x => x.1 = .visit)).map (·.2)
      = ((restrict .main (walkabout exts t).1).filter (fun x => x.1 = .visit)).map (·.2) := by
  rw [nested exts t e he, main_trace, visits_brackets, visits_mainBrackets]

example : ((restrict .main (walkabout [.inner] exTree).1).filter (fun x => x.1 = .visit)).map (·.2) = [0, 1, 2] := by decide

end Visitor

namespace Visitor

/-- **order** on exit when the main visitor's departure is skipped (`SkipNode` / `SkipDeparture`, i.e.
`depart(ob, extensions_only=True)`): the extensions still leave in the documented order BEFORE, INNER, AFTER, OUTTER. -/
theorem order_depart_ext_only (exts : List When) (id : Nat) :
    departEvents exts id true =
      evs .depart id (extsOf exts .before) ++ evs .depart id (extsOf exts .inner)
        ++ evs .depart id (extsOf exts .after) ++ evs .depart id (extsOf exts .outter) := by
  simp [departEvents, evs]

/-- the main visitor's departure is the only difference between the two exit blocks -/
theorem depart_ext_only_is_filter (exts : List When) (id : Nat) :
    departEvents exts id true = (departEvents exts id false).filter (fun e => !decide (e.who = Who.main)) := by
  have h : ∀ l : List Nat, (evs .depart id l).filter (fun e => !decide (e.who = Who.main)) = evs .depart id l := by
    intro l
    induction l with
    | nil => simp [evs]
    | cons x xs ih => simp only [evs, List.map_cons] at ih ⊢; simp
  simp only [departEvents, List.filter_append, h]
  simp

end Visitor
