/-
C06 / C01 — the module scheduler: every schedule drains, every module is processed exactly once,
no `assert` of processModule/getProcessedModule can fail, and the final processing state of a
module does not depend on the schedule.  Theorems over `PdModel.Schedule`.
-/
import PdModel.Schedule

namespace Schedule

/-! ## helpers -/

def noAssert (l : List Event) : Prop := ∀ m, Event.assertFail m ∉ l

/-- the state a module ends in: PROCESSED if its file parses, PROCESSING (reported) otherwise -/
def final (mods : List Mod) (k : Nat) : PState :=
  match mods[k]? with
  | some md => if md.parses then .processed else .processing
  | none => .processing

def starts (l : List Event) (m : Nat) : Nat := l.count (Event.start m)

structure Inv (n : Nat) (s : State) : Prop where
  len : s.st.length = n
  nodup : s.unprocessed.Nodup
  iff : ∀ m, (m ∈ s.unprocessed ↔ getSt s m = .unprocessed)
  noassert : noAssert s.log
  once : ∀ m, starts s.log m = if m ∈ s.unprocessed then 0 else (if m < n then 1 else 0)

theorem getSt_lt {n : Nat} {s : State} (h : Inv n s) {m : Nat} (hm : getSt s m = .unprocessed) : m < n := by
  by_cases hlt : m < n
  · exact hlt
  · exfalso
    have : s.st.length ≤ m := by rw [h.len]; omega
    simp [getSt, List.getD_eq_getElem?_getD, List.getElem?_eq_none this] at hm

theorem getD_set (l : List PState) (i j : Nat) (v d : PState) :
    (l.set i v).getD j d = if i = j ∧ i < l.length then v else l.getD j d := by
  simp only [List.getD_eq_getElem?_getD, List.getElem?_set]
  by_cases hij : i = j
  · subst hij
    by_cases hl : i < l.length
    · simp [hl]
    · simp [hl, List.getElem?_eq_none (Nat.le_of_not_lt hl)]
  · simp [hij]

theorem starts_append (l l' : List Event) (m : Nat) : starts (l ++ l') m = starts l m + starts l' m := by
  simp [starts, List.count_append]

theorem noAssert_append {l l' : List Event} (h : noAssert l) (h' : noAssert l') : noAssert (l ++ l') := by
  intro m hm
  rcases List.mem_append.mp hm with h1 | h1
  · exact h m h1
  · exact h' m h1

/-- what one call (of `processModule` or `visitBody`) guarantees about the state it returns -/
structure Step (mods : List Mod) (n : Nat) (s s' : State) : Prop where
  inv : Inv n s'
  sub : s'.unprocessed.Sublist s.unprocessed
  frame : ∀ k, k ∉ s.unprocessed → getSt s' k = getSt s k
  done : ∀ k, k ∈ s.unprocessed → k ∉ s'.unprocessed → getSt s' k = final mods k

theorem Step.refl {mods : List Mod} {n : Nat} {s : State} (h : Inv n s) : Step mods n s s :=
  ⟨h, List.Sublist.refl _, fun _ _ => rfl, fun _ h1 h2 => absurd h1 h2⟩

theorem Step.trans {mods : List Mod} {n : Nat} {s s1 s2 : State}
    (h1 : Step mods n s s1) (h2 : Step mods n s1 s2) : Step mods n s s2 := by
  refine ⟨h2.inv, h2.sub.trans h1.sub, ?_, ?_⟩
  · intro k hk
    have hk1 : k ∉ s1.unprocessed := fun h => hk (h1.sub.subset h)
    rw [h2.frame k hk1, h1.frame k hk]
  · intro k hk hk2
    by_cases hk1 : k ∈ s1.unprocessed
    · exact h2.done k hk1 hk2
    · rw [h2.frame k hk1]; exact h1.done k hk hk1

/-- appending non-`start`, non-`assertFail` events keeps everything -/
theorem Step.log {mods : List Mod} {n : Nat} {s s' : State} (h : Step mods n s s') (evs : List Event)
    (hs : ∀ m, starts evs m = 0) (ha : noAssert evs) :
    Step mods n s { s' with log := s'.log ++ evs } := by
  refine ⟨⟨h.inv.len, h.inv.nodup, h.inv.iff, noAssert_append h.inv.noassert ha, ?_⟩, h.sub, h.frame, h.done⟩
  intro m
  rw [starts_append, hs m, Nat.add_zero]
  exact h.inv.once m

def PMspec (mods : List Mod) (n : Nat) (f : Nat) : Prop :=
  ∀ s m, Inv n s → m ∈ s.unprocessed → s.unprocessed.length ≤ f →
    Step mods n s (processModule mods f s m) ∧ m ∉ (processModule mods f s m).unprocessed

def VBspec (mods : List Mod) (n : Nat) (f : Nat) : Prop :=
  ∀ ts s m, Inv n s → s.unprocessed.length ≤ f → Step mods n s (visitBody mods f s m ts)

theorem vb_of_pm (mods : List Mod) (n f : Nat) (hpm : PMspec mods n f) : VBspec mods n f := by
  intro ts
  induction ts with
  | nil => intro s m h _; simp only [visitBody]; exact Step.refl h
  | cons t ts ih =>
    intro s m h hf
    simp only [visitBody]
    by_cases ht : getSt s t = .unprocessed
    · have hmem : t ∈ s.unprocessed := (h.iff t).mpr ht
      have hp := (hpm s t h hmem hf).1
      simp only [ht, if_true]
      have hlog := Step.log (mods := mods) hp [Event.sees m t (getSt (processModule mods f s t) t)]
        (by intro k; simp [starts]) (by intro k; simp)
      have hlen : (processModule mods f s t).unprocessed.length ≤ f :=
        Nat.le_trans hp.sub.length_le hf
      exact Step.trans hlog (ih _ m hlog.inv hlen)
    · simp only [ht, if_false]
      have hlog := Step.log (mods := mods) (Step.refl h) [Event.sees m t (getSt s t)]
        (by intro k; simp [starts]) (by intro k; simp)
      exact Step.trans hlog (ih _ m hlog.inv hf)

theorem mem_erase_iff_of_nodup {l : List Nat} (hn : l.Nodup) (k m : Nat) :
    k ∈ l.erase m ↔ k ≠ m ∧ k ∈ l := by
  rw [hn.mem_erase_iff]

def enter (s : State) (m : Nat) : State :=
  { st := setSt s.st m .processing, unprocessed := s.unprocessed.erase m, log := s.log ++ [.start m] }

def addLog (s : State) (evs : List Event) : State := { s with log := s.log ++ evs }

def leave (s : State) (m : Nat) : State :=
  { s with st := setSt s.st m .processed, log := s.log ++ [.finish m] }

theorem processModule_eq (mods : List Mod) (f : Nat) (s : State) (m : Nat)
    (h1 : getSt s m = .unprocessed) (h2 : m ∈ s.unprocessed) :
    processModule mods (f+1) s m =
      match mods[m]? with
      | none => enter s m
      | some md =>
        if md.parses then leave (visitBody mods f (addLog (enter s m) [.visit m]) m md.imports) m
        else addLog (enter s m) [.parseError m] := by
  have hc : s.unprocessed.contains m = true := by simpa using h2
  unfold processModule
  simp only [h1, hc, ne_eq, not_true_eq_false, Bool.not_eq_true, Bool.true_eq_false, or_self, if_false]
  cases mods[m]? with
  | none => rfl
  | some md => cases hp : md.parses <;> simp [enter, addLog, leave, hp]

theorem getSt_enter {n : Nat} {s : State} (h : Inv n s) {m : Nat} (hmn : m < n) (k : Nat) :
    getSt (enter s m) k = if k = m then .processing else getSt s k := by
  simp only [getSt, enter, setSt, getD_set]
  by_cases hk : m = k
  · subst hk; simp [h.len, hmn]
  · have : ¬ k = m := fun e => hk e.symm
    simp [hk, this]

theorem getSt_leave {n : Nat} {s : State} (h : Inv n s) {m : Nat} (hmn : m < n) (k : Nat) :
    getSt (leave s m) k = if k = m then .processed else getSt s k := by
  simp only [getSt, leave, setSt, getD_set]
  by_cases hk : m = k
  · subst hk; simp [h.len, hmn]
  · have : ¬ k = m := fun e => hk e.symm
    simp [hk, this]

theorem mem_enter {s : State} (hn : s.unprocessed.Nodup) (k m : Nat) :
    k ∈ (enter s m).unprocessed ↔ k ≠ m ∧ k ∈ s.unprocessed := mem_erase_iff_of_nodup hn k m

theorem inv_enter {n : Nat} {s : State} (h : Inv n s) {m : Nat} (hm : m ∈ s.unprocessed) (hmn : m < n) :
    Inv n (enter s m) := by
  refine ⟨by simp [enter, setSt, h.len], h.nodup.erase m, ?_, ?_, ?_⟩
  · intro k
    rw [getSt_enter h hmn k, mem_enter h.nodup]
    by_cases hk : k = m
    · simp [hk]
    · simp [hk, h.iff k]
  · exact noAssert_append h.noassert (by intro k; simp)
  · intro k
    show starts (s.log ++ [Event.start m]) k = if k ∈ (enter s m).unprocessed then 0 else _
    rw [starts_append, h.once k]
    by_cases hk : k = m
    · subst hk
      have : k ∉ (enter s k).unprocessed := by rw [mem_enter h.nodup]; simp
      simp [hm, hmn, starts, this]
    · have hne : ¬ m = k := fun e => hk e.symm
      have hiff : (k ∈ (enter s m).unprocessed) ↔ k ∈ s.unprocessed := by
        rw [mem_enter h.nodup]; simp [hk]
      by_cases hku : k ∈ s.unprocessed
      · simp [hku, hiff.mpr hku, starts, hne]
      · have : k ∉ (enter s m).unprocessed := fun hh => hku (hiff.mp hh)
        simp [hku, this, starts, hne]

theorem inv_addLog {n : Nat} {s : State} (h : Inv n s) (evs : List Event)
    (hs : ∀ m, starts evs m = 0) (ha : noAssert evs) : Inv n (addLog s evs) := by
  refine ⟨h.len, h.nodup, h.iff, noAssert_append h.noassert ha, ?_⟩
  intro m
  show starts (s.log ++ evs) m = _
  rw [starts_append, hs m, Nat.add_zero]
  exact h.once m

/-- entering a module whose final state is PROCESSING (no file / parse error) is a complete step -/
theorem step_enter_stay (mods : List Mod) {n : Nat} {s : State} (h : Inv n s) {m : Nat}
    (hm : m ∈ s.unprocessed) (hmn : m < n) (evs : List Event)
    (hs : ∀ k, starts evs k = 0) (ha : noAssert evs) (hfin : final mods m = .processing) :
    Step mods n s (addLog (enter s m) evs) := by
  refine ⟨inv_addLog (inv_enter h hm hmn) evs hs ha, List.erase_sublist .., ?_, ?_⟩
  · intro k hk
    show getSt (enter s m) k = _
    rw [getSt_enter h hmn k]
    have : k ≠ m := fun e => hk (e ▸ hm)
    simp [this]
  · intro k hk hk1
    have hkm : k = m := by
      by_cases hne : k = m
      · exact hne
      · exact absurd ((mem_enter h.nodup k m).mpr ⟨hne, hk⟩) hk1
    subst hkm
    show getSt (enter s k) k = _
    rw [getSt_enter h hmn k, hfin]; simp

theorem pm_succ_of_vb (mods : List Mod) (n f : Nat) (hvb : VBspec mods n f) : PMspec mods n (f+1) := by
  intro s m h hm hf
  have hst : getSt s m = .unprocessed := (h.iff m).mp hm
  have hmn : m < n := getSt_lt h hst
  have hm1 : m ∉ (enter s m).unprocessed := by rw [mem_enter h.nodup]; simp
  rw [processModule_eq mods f s m hst hm]
  cases hmd : mods[m]? with
  | none =>
    have hfin : final mods m = .processing := by simp [final, hmd]
    have := step_enter_stay mods h hm hmn [] (by intro k; simp [starts]) (by intro k; simp) hfin
    simp only [addLog, List.append_nil] at this
    exact ⟨this, hm1⟩
  | some md =>
    simp only
    by_cases hp : md.parses = true
    · simp only [hp, if_true]
      have hinv1v : Inv n (addLog (enter s m) [.visit m]) :=
        inv_addLog (inv_enter h hm hmn) _ (by intro k; simp [starts]) (by intro k; simp)
      have hlen1 : (addLog (enter s m) [.visit m]).unprocessed.length ≤ f := by
        show (s.unprocessed.erase m).length ≤ f
        rw [List.length_erase_of_mem hm]; omega
      have hvs := hvb md.imports _ m hinv1v hlen1
      generalize visitBody mods f (addLog (enter s m) [Event.visit m]) m md.imports = s2 at hvs
      have hsub1 : (addLog (enter s m) [Event.visit m]).unprocessed.Sublist s.unprocessed :=
        List.erase_sublist ..
      have hm2 : m ∉ s2.unprocessed := fun hh => hm1 (hvs.sub.subset hh)
      refine ⟨⟨⟨by simp [leave, setSt, hvs.inv.len], hvs.inv.nodup, ?_, ?_, ?_⟩, hvs.sub.trans hsub1, ?_, ?_⟩, hm2⟩
      · intro k
        rw [getSt_leave hvs.inv hmn k]
        by_cases hk : k = m
        · subst hk; simp [leave, hm2]
        · simp only [hk, if_false]; exact hvs.inv.iff k
      · exact noAssert_append hvs.inv.noassert (by intro k; simp)
      · intro k
        show starts (s2.log ++ [Event.finish m]) k = _
        rw [starts_append]
        have : starts [Event.finish m] k = 0 := by simp [starts]
        rw [this, Nat.add_zero]
        exact hvs.inv.once k
      · intro k hk
        rw [getSt_leave hvs.inv hmn k]
        have hkm : k ≠ m := fun e => hk (e ▸ hm)
        have hk1 : k ∉ (addLog (enter s m) [Event.visit m]).unprocessed := fun hh => hk (hsub1.subset hh)
        simp only [hkm, if_false]
        rw [hvs.frame k hk1]
        show getSt (enter s m) k = _
        rw [getSt_enter h hmn k]; simp [hkm]
      · intro k hk hk3
        rw [getSt_leave hvs.inv hmn k]
        by_cases hkm : k = m
        · subst hkm; simp [final, hmd, hp]
        · simp only [hkm, if_false]
          have hk1 : k ∈ (addLog (enter s m) [Event.visit m]).unprocessed :=
            (mem_enter h.nodup k m).mpr ⟨hkm, hk⟩
          exact hvs.done k hk1 hk3
    · have hp' : md.parses = false := by simpa using hp
      simp only [hp', Bool.false_eq_true, if_false]
      have hfin : final mods m = .processing := by simp [final, hmd, hp']
      exact ⟨step_enter_stay mods h hm hmn [Event.parseError m] (by intro k; simp [starts]) (by intro k; simp) hfin, hm1⟩

theorem pm_zero (mods : List Mod) (n : Nat) : PMspec mods n 0 := by
  intro s m _ hm hf
  have : 0 < s.unprocessed.length := List.length_pos_of_mem hm
  omega

theorem pm_all (mods : List Mod) (n : Nat) : ∀ f, PMspec mods n f
  | 0 => pm_zero mods n
  | f+1 => pm_succ_of_vb mods n f (vb_of_pm mods n f (pm_all mods n f))

/-- the top-level loop -/
theorem process_spec (mods : List Mod) (n : Nat) :
    ∀ f s, Inv n s → s.unprocessed.length ≤ f → s.unprocessed.length ≤ mods.length + 1 →
      Step mods n s (process mods f s) ∧ (process mods f s).unprocessed = [] := by
  intro f
  induction f with
  | zero =>
    intro s h hf _
    have : s.unprocessed = [] := List.eq_nil_of_length_eq_zero (by omega)
    simp [process, this, Step.refl h]
  | succ f ih =>
    intro s h hf hb
    unfold process
    cases hu : s.unprocessed with
    | nil => simp [hu, Step.refl h]
    | cons m rest =>
      simp only
      have hm : m ∈ s.unprocessed := by simp [hu]
      have hp := pm_all mods n (mods.length + 1) s m h hm hb
      have hlt : (processModule mods (mods.length + 1) s m).unprocessed.length < s.unprocessed.length := by
        have hsub := hp.1.sub
        have hne : m ∉ (processModule mods (mods.length + 1) s m).unprocessed := hp.2
        rcases Nat.lt_or_ge (processModule mods (mods.length + 1) s m).unprocessed.length s.unprocessed.length with h1 | h1
        · exact h1
        · have := hsub.eq_of_length_le h1
          rw [this] at hne; exact absurd hm hne
      have := ih _ hp.1.inv (by omega) (by omega)
      exact ⟨Step.trans hp.1 this.1, this.2⟩

/-! ## Property theorems -/

theorem inv_init (n : Nat) (order : List Nat) (hperm : order.Perm (List.range n)) :
    Inv n (initState n order) := by
  have hnd : order.Nodup := hperm.nodup_iff.mpr List.nodup_range
  have hmem : ∀ m, m ∈ order ↔ m < n := by
    intro m; rw [hperm.mem_iff]; simp
  refine ⟨by simp [initState], hnd, ?_, by intro m; simp [initState], ?_⟩
  · intro m
    show m ∈ order ↔ _
    rw [hmem m]
    simp only [getSt, initState, List.getD_eq_getElem?_getD]
    by_cases hm : m < n
    · simp [hm, List.getElem?_replicate]
    · simp [hm, List.getElem?_replicate]
  · intro m
    show starts [] m = if m ∈ order then 0 else _
    by_cases hm : m < n
    · simp [starts, (hmem m).mpr hm]
    · have : m ∉ order := fun hh => hm ((hmem m).mp hh)
      simp [starts, this, hm]

/-- **process_terminates_drains** (C01, C06): for every project (any import graph, cycles
included, any set of unparsable files) and every initial order of `unprocessed_modules`,
`process` ends with nothing left to process, no module UNPROCESSED, no failed `assert`, every
module entered exactly once, every parsable module PROCESSED and every unparsable one left
PROCESSING (reported). -/
theorem process_terminates_drains (mods : List Mod) (order : List Nat)
    (hperm : order.Perm (List.range mods.length)) :
    (run mods order).unprocessed = [] ∧ noAssert (run mods order).log ∧
    (∀ m, m < mods.length → starts (run mods order).log m = 1) ∧
    (∀ m, m < mods.length → getSt (run mods order) m = final mods m) := by
  unfold run
  have h0 := inv_init mods.length order hperm
  have hlen : (initState mods.length order).unprocessed.length = mods.length := by
    show order.length = _
    rw [hperm.length_eq]; simp
  have hs := process_spec mods mods.length (mods.length + 1) _ h0 (by omega) (by omega)
  refine ⟨hs.2, hs.1.inv.noassert, ?_, ?_⟩
  · intro m hm
    have := hs.1.inv.once m
    rw [hs.2] at this
    simpa [hm] using this
  · intro m hm
    have hin : m ∈ (initState mods.length order).unprocessed := by
      show m ∈ order
      rw [hperm.mem_iff]; simpa using hm
    have hout : m ∉ (process mods (mods.length + 1) (initState mods.length order)).unprocessed := by
      rw [hs.2]; simp
    exact hs.1.done m hin hout

/-- **state_order_independent** (C06): the processing state every module ends in is the same for
every two schedules. -/
theorem state_order_independent (mods : List Mod) (o1 o2 : List Nat)
    (h1 : o1.Perm (List.range mods.length)) (h2 : o2.Perm (List.range mods.length)) (m : Nat)
    (hm : m < mods.length) : getSt (run mods o1) m = getSt (run mods o2) m := by
  rw [(process_terminates_drains mods o1 h1).2.2.2 m hm, (process_terminates_drains mods o2 h2).2.2.2 m hm]

/-- **one_bad_file** (C01): whether a module ends PROCESSED depends only on whether its own file
parses, never on the other files. -/
theorem one_bad_file (mods : List Mod) (order : List Nat) (hperm : order.Perm (List.range mods.length))
    (m : Nat) (md : Mod) (hm : mods[m]? = some md) :
    getSt (run mods order) m = if md.parses then .processed else .processing := by
  have hlt : m < mods.length := by
    rcases List.getElem?_eq_some_iff.mp hm with ⟨h, _⟩; exact h
  rw [(process_terminates_drains mods order hperm).2.2.2 m hlt]
  simp [final, hm]

/-- exit status of `driver.main` is one of the documented values, decided as documented -/
theorem exit_status_range (w : Bool) (v p : Nat) :
    exitStatus w v p = 0 ∨ exitStatus w v p = 2 ∨ exitStatus w v p = 3 := by
  unfold exitStatus
  split
  · simp
  · split <;> simp

theorem exit_status_three_iff (w : Bool) (v p : Nat) :
    exitStatus w v p = 3 ↔ (w = true ∧ 0 < v) := by
  unfold exitStatus
  by_cases hw : w = true <;> by_cases hv : 0 < v <;> simp [hw, hv] <;> split <;> simp

theorem exit_status_two_iff (v p : Nat) : exitStatus false v p = 2 ↔ 0 < p := by
  unfold exitStatus; simp; omega

/-! non-vacuity: a three-module project with a cycle and an unparsable file -/
def exMods : List Mod := [⟨true, [1]⟩, ⟨true, [2, 0]⟩, ⟨false, []⟩]
example : [2, 0, 1].Perm (List.range exMods.length) := by decide
example : (run exMods [2, 0, 1]).unprocessed = [] :=
  (process_terminates_drains exMods [2, 0, 1] (by decide)).1

end Schedule
