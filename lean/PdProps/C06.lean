/-
C06 / C01 — the module scheduler: every schedule drains, every module is processed exactly once,
no `assert` of processModule/getProcessedModule can fail, and the final processing state of a
module does not depend on the schedule.  Theorems over `PdModel.Schedule`.
-/
import PdModel.Schedule
import PdModel.PostProcess

namespace Schedule

/-! ## helpers -/

def noAssert (l : List Event) : Prop := ∀ m, Event.assertFail m ∉ l

/-- the state a module ends in: PROCESSED if its file parses, PROCESSING (reported) otherwise -/
def final (mods : List Mod) (k : Nat) : PState :=
  match mods[k]? with
  | some md => if md.parses then .processed else .processing
  | none => .processing

def starts (l : List Event) (m : Nat) : Nat := l.count (Event.start m)

structure Inv (n : Nat) (s : State) : Prop where
  len : s.st.length = n
  nodup : s.unprocessed.Nodup
  iff : ∀ m, (m ∈ s.unprocessed ↔ getSt s m = .unprocessed)
  noassert : noAssert s.log
  once : ∀ m, starts s.log m = if m ∈ s.unprocessed then 0 else (if m < n then 1 else 0)

theorem getSt_lt {n : Nat} {s : State} (h : Inv n s) {m : Nat} (hm : getSt s m = .unprocessed) : m < n := by
  by_cases hlt : m < n
  · exact hlt
  · exfalso
    have : s.st.length ≤ m := by rw [h.len]; omega
    simp [getSt, List.getD_eq_getElem?_getD, List.getElem?_eq_none this] at hm

theorem getD_set (l : List PState) (i j : Nat) (v d : PState) :
    (l.set i v).getD j d = if i = j ∧ i < l.length then v else l.getD j d := by
  simp only [List.getD_eq_getElem?_getD, List.getElem?_set]
  by_cases hij : i = j
  · subst hij
    by_cases hl : i < l.length
    · simp [hl]
    · simp [hl, List.getElem?_eq_none (Nat.le_of_not_lt hl)]
  · simp [hij]

theorem starts_append (l l' : List Event) (m : Nat) : starts (l ++ l') m = starts l m + starts l' m := by
  simp [starts, List.count_append]

theorem noAssert_append {l l' : List Event} (h : noAssert l) (h' : noAssert l') : noAssert (l ++ l') := by
  intro m hm
  rcases List.mem_append.mp hm with h1 | h1
  · exact h m h1
  · exact h' m h1

/-- what one call (of `processModule` or `visitBody`) guarantees about the state it returns -/
structure Step (mods : List Mod) (n : Nat) (s s' : State) : Prop where
  inv : Inv n s'
  sub : s'.unprocessed.Sublist s.unprocessed
  frame : ∀ k, k ∉ s.unprocessed → getSt s' k = getSt s k
  done : ∀ k, k ∈ s.unprocessed → k ∉ s'.unprocessed → getSt s' k = final mods k

theorem Step.refl {mods : List Mod} {n : Nat} {s : State} (h : Inv n s) : Step mods n s s :=
  ⟨h, List.Sublist.refl _, fun _ _ => rfl, fun _ h1 h2 => absurd h1 h2⟩

theorem Step.trans {mods : List Mod} {n : Nat} {s s1 s2 : State}
    (h1 : Step mods n s s1) (h2 : Step mods n s1 s2) : Step mods n s s2 := by
  refine ⟨h2.inv, h2.sub.trans h1.sub, ?_, ?_⟩
  · intro k hk
    have hk1 : k ∉ s1.unprocessed := fun h => hk (h1.sub.subset h)
    rw [h2.frame k hk1, h1.frame k hk]
  · intro k hk hk2
    by_cases hk1 : k ∈ s1.unprocessed
    · exact h2.done k hk1 hk2
    · rw [h2.frame k hk1]; exact h1.done k hk hk1

/-- appending non-`start`, non-`assertFail` events keeps everything -/
theorem Step.log {mods : List Mod} {n : Nat} {s s' : State} (h : Step mods n s s') (evs : List Event)
    (hs : ∀ m, starts evs m = 0) (ha : noAssert evs) :
    Step mods n s { s' with log := s'.log ++ evs } := by
  refine ⟨⟨h.inv.len, h.inv.nodup, h.inv.iff, noAssert_append h.inv.noassert ha, ?_⟩, h.sub, h.frame, h.done⟩
  intro m
  rw [starts_append, hs m, Nat.add_zero]
  exact h.inv.once m

def PMspec (mods : List Mod) (n : Nat) (f : Nat) : Prop :=
  ∀ s m, Inv n s → m ∈ s.unprocessed → s.unprocessed.length ≤ f →
    Step mods n s (processModule mods f s m) ∧ m ∉ (processModule mods f s m).unprocessed

def VBspec (mods : List Mod) (n : Nat) (f : Nat) : Prop :=
  ∀ ts s m, Inv n s → s.unprocessed.length ≤ f → Step mods n s (visitBody mods f s m ts)

theorem vb_of_pm (mods : List Mod) (n f : Nat) (hpm : PMspec mods n f) : VBspec mods n f := by
  intro ts
  induction ts with
  | nil => intro s m h _; simp only [visitBody]; exact Step.refl h
  | cons t ts ih =>
    intro s m h hf
    simp only [visitBody]
    by_cases ht : getSt s t = .unprocessed
    · have hmem : t ∈ s.unprocessed := (h.iff t).mpr ht
      have hp := (hpm s t h hmem hf).1
      simp only [ht, if_true]
      have hlog := Step.log (mods := mods) hp [Event.sees m t (getSt (processModule mods f s t) t)]
        (by intro k; simp [starts]) (by intro k; simp)
      have hlen : (processModule mods f s t).unprocessed.length ≤ f :=
        Nat.le_trans hp.sub.length_le hf
      exact Step.trans hlog (ih _ m hlog.inv hlen)
    · simp only [ht, if_false]
      have hlog := Step.log (mods := mods) (Step.refl h) [Event.sees m t (getSt s t)]
        (by intro k; simp [starts]) (by intro k; simp)
      exact Step.trans hlog (ih _ m hlog.inv hf)

theorem mem_erase_iff_of_nodup {l : List Nat} (hn : l.Nodup) (k m : Nat) :
    k ∈ l.erase m ↔ k ≠ m ∧ k ∈ l := by
  rw [hn.mem_erase_iff]

def enter (s : State) (m : Nat) : State :=
  { st := setSt s.st m .processing, unprocessed := s.unprocessed.erase m, log := s.log ++ [.start m] }

def addLog (s : State) (evs : List Event) : State := { s with log := s.log ++ evs }

def leave (s : State) (m : Nat) : State :=
  { s with st := setSt s.st m .processed, log := s.log ++ [.finish m] }

theorem processModule_eq (mods : List Mod) (f : Nat) (s : State) (m : Nat)
    (h1 : getSt s m = .unprocessed) (h2 : m ∈ s.unprocessed) :
    processModule mods (f+1) s m =
      match mods[m]? with
      | none => enter s m
      | some md =>
        if md.parses then leave (visitBody mods f (addLog (enter s m) [.visit m]) m md.imports) m
        else addLog (enter s m) [.parseError m] := by
  have hc : s.unprocessed.contains m = true := by simpa using h2
  unfold processModule
  simp only [h1, hc, ne_eq, not_true_eq_false, Bool.not_eq_true, Bool.true_eq_false, or_self, if_false]
  cases mods[m]? with
  | none => rfl
  | some md => cases hp : md.parses <;> simp [enter, addLog, leave, hp]

theorem getSt_enter {n : Nat} {s : State} (h : Inv n s) {m : Nat} (hmn : m < n) (k : Nat) :
    getSt (enter s m) k = if k = m then .processing else getSt s k := by
  simp only [getSt, enter, setSt, getD_set]
  by_cases hk : m = k
  · subst hk; simp [h.len, hmn]
  · have : ¬ k = m := fun e => hk e.symm
    simp [hk, this]

theorem getSt_leave {n : Nat} {s : State} (h : Inv n s) {m : Nat} (hmn : m < n) (k : Nat) :
    getSt (leave s m) k = if k = m then .processed else getSt s k := by
  simp only [getSt, leave, setSt, getD_set]
  by_cases hk : m = k
  · subst hk; simp [h.len, hmn]
  · have : ¬ k = m := fun e => hk e.symm
    simp [hk, this]

theorem mem_enter {s : State} (hn : s.unprocessed.Nodup) (k m : Nat) :
    k ∈ (enter s m).unprocessed ↔ k ≠ m ∧ k ∈ s.unprocessed := mem_erase_iff_of_nodup hn k m

theorem inv_enter {n : Nat} {s : State} (h : Inv n s) {m : Nat} (hm : m ∈ s.unprocessed) (hmn : m < n) :
    Inv n (enter s m) := by
  refine ⟨by simp [enter, setSt, h.len], h.nodup.erase m, ?_, ?_, ?_⟩
  · intro k
    rw [getSt_enter h hmn k, mem_enter h.nodup]
    by_cases hk : k = m
    · simp [hk]
    · simp [hk, h.iff k]
  · exact noAssert_append h.noassert (by intro k; simp)
  · intro k
    show starts (s.log ++ [Event.start m]) k = if k ∈ (enter s m).unprocessed then 0 else _
    rw [starts_append, h.once k]
    by_cases hk : k = m
    · subst hk
      have : k ∉ (enter s k).unprocessed := by rw [mem_enter h.nodup]; simp
      simp [hm, hmn, starts, this]
    · have hne : ¬ m = k := fun e => hk e.symm
      have hiff : (k ∈ (enter s m).unprocessed) ↔ k ∈ s.unprocessed := by
        rw [mem_enter h.nodup]; simp [hk]
      by_cases hku : k ∈ s.unprocessed
      · simp [hku, hiff.mpr hku, starts, hne]
      · have : k ∉ (enter s m).unprocessed := fun hh => hku (hiff.mp hh)
        simp [hku, this, starts, hne]

theorem inv_addLog {n : Nat} {s : State} (h : Inv n s) (evs : List Event)
    (hs : ∀ m, starts evs m = 0) (ha : noAssert evs) : Inv n (addLog s evs) := by
  refine ⟨h.len, h.nodup, h.iff, noAssert_append h.noassert ha, ?_⟩
  intro m
  show starts (s.log ++ evs) m = _
  rw [starts_append, hs m, Nat.add_zero]
  exact h.once m

/-- entering a module whose final state is PROCESSING (no file / parse error) is a complete step -/
theorem step_enter_stay (mods : List Mod) {n : Nat} {s : State} (h : Inv n s) {m : Nat}
    (hm : m ∈ s.unprocessed) (hmn : m < n) (evs : List Event)
    (hs : ∀ k, starts evs k = 0) (ha : noAssert evs) (hfin : final mods m = .processing) :
    Step mods n s (addLog (enter s m) evs) := by
  refine ⟨inv_addLog (inv_enter h hm hmn) evs hs ha, List.erase_sublist .., ?_, ?_⟩
  · intro k hk
    show getSt (enter s m) k = _
    rw [getSt_enter h hmn k]
    have : k ≠ m := fun e => hk (e ▸ hm)
    simp [this]
  · intro k hk hk1
    have hkm : k = m := by
      by_cases hne : k = m
      · exact hne
      · exact absurd ((mem_enter h.nodup k m).mpr ⟨hne, hk⟩) hk1
    subst hkm
    show getSt (enter s k) k = _
    rw [getSt_enter h hmn k, hfin]; simp

theorem pm_succ_of_vb (mods : List Mod) (n f : Nat) (hvb : VBspec mods n f) : PMspec mods n (f+1) := by
  intro s m h hm hf
  have hst : getSt s m = .unprocessed := (h.iff m).mp hm
  have hmn : m < n := getSt_lt h hst
  have hm1 : m ∉ (enter s m).unprocessed := by rw [mem_enter h.nodup]; simp
  rw [processModule_eq mods f s m hst hm]
  cases hmd : mods[m]? with
  | none =>
    have hfin : final mods m = .processing := by simp [final, hmd]
    have := step_enter_stay mods h hm hmn [] (by intro k; simp [starts]) (by intro k; simp) hfin
    simp only [addLog, List.append_nil] at this
    exact ⟨this, hm1⟩
  | some md =>
    simp only
    by_cases hp : md.parses = true
    · simp only [hp, if_true]
      have hinv1v : Inv n (addLog (enter s m) [.visit m]) :=
        inv_addLog (inv_enter h hm hmn) _ (by intro k; simp [starts]) (by intro k; simp)
      have hlen1 : (addLog (enter s m) [.visit m]).unprocessed.length ≤ f := by
        show (s.unprocessed.erase m).length ≤ f
        rw [List.length_erase_of_mem hm]; omega
      have hvs := hvb md.imports _ m hinv1v hlen1
      generalize visitBody mods f (addLog (enter s m) [Event.visit m]) m md.imports = s2 at hvs
      have hsub1 : (addLog (enter s m) [Event.visit m]).unprocessed.Sublist s.unprocessed :=
        List.erase_sublist ..
      have hm2 : m ∉ s2.unprocessed := fun hh => hm1 (hvs.sub.subset hh)
      refine ⟨⟨⟨by simp [leave, setSt, hvs.inv.len], hvs.inv.nodup, ?_, ?_, ?_⟩, hvs.sub.trans hsub1, ?_, ?_⟩, hm2⟩
      · intro k
        rw [getSt_leave hvs.inv hmn k]
        by_cases hk : k = m
        · subst hk; simp [leave, hm2]
        · simp only [hk, if_false]; exact hvs.inv.iff k
      · exact noAssert_append hvs.inv.noassert (by intro k; simp)
      · intro k
        show starts (s2.log ++ [Event.finish m]) k = _
        rw [starts_append]
        have : starts [Event.finish m] k = 0 := by simp [starts]
        rw [this, Nat.add_zero]
        exact hvs.inv.once k
      · intro k hk
        rw [getSt_leave hvs.inv hmn k]
        have hkm : k ≠ m := fun e => hk (e ▸ hm)
        have hk1 : k ∉ (addLog (enter s m) [Event.visit m]).unprocessed := fun hh => hk (hsub1.subset hh)
        simp only [hkm, if_false]
        rw [hvs.frame k hk1]
        show getSt (enter s m) k = _
        rw [getSt_enter h hmn k]; simp [hkm]
      · intro k hk hk3
        rw [getSt_leave hvs.inv hmn k]
        by_cases hkm : k = m
        · subst hkm; simp [final, hmd, hp]
        · simp only [hkm, if_false]
          have hk1 : k ∈ (addLog (enter s m) [Event.visit m]).unprocessed :=
            (mem_enter h.nodup k m).mpr ⟨hkm, hk⟩
          exact hvs.done k hk1 hk3
    · have hp' : md.parses = false := by simpa using hp
      simp only [hp', Bool.false_eq_true, if_false]
      have hfin : final mods m = .processing := by simp [final, hmd, hp']
      exact ⟨step_enter_stay mods h hm hmn [Event.parseError m] (by intro k; simp [starts]) (by intro k; simp) hfin, hm1⟩

theorem pm_zero (mods : List Mod) (n : Nat) : PMspec mods n 0 := by
  intro s m _ hm hf
  have : 0 < s.unprocessed.length := List.length_pos_of_mem hm
  omega

theorem pm_all (mods : List Mod) (n : Nat) : ∀ f, PMspec mods n f
  | 0 => pm_zero mods n
  | f+1 => pm_succ_of_vb mods n f (vb_of_pm mods n f (pm_all mods n f))

/-- the top-level loop -/
theorem process_spec (mods : List Mod) (n : Nat) :
    ∀ f s, Inv n s → s.unprocessed.length ≤ f → s.unprocessed.length ≤ mods.length + 1 →
      Step mods n s (process mods f s) ∧ (process mods f s).unprocessed = [] := by
  intro f
  induction f with
  | zero =>
    intro s h hf _
    have : s.unprocessed = [] := List.eq_nil_of_length_eq_zero (by omega)
    simp [process, this, Step.refl h]
  | succ f ih =>
    intro s h hf hb
    unfold process
    cases hu : s.unprocessed with
    | nil => simp [hu, Step.refl h]
    | cons m rest =>
      simp only
      have hm : m ∈ s.unprocessed := by simp [hu]
      have hp := pm_all mods n (mods.length + 1) s m h hm hb
      have hlt : (processModule mods (mods.length + 1) s m).unprocessed.length < s.unprocessed.length := by
        have hsub := hp.1.sub
        have hne : m ∉ (processModule mods (mods.length + 1) s m).unprocessed := hp.2
        rcases Nat.lt_or_ge (processModule mods (mods.length + 1) s m).unprocessed.length s.unprocessed.length with h1 | h1
        · exact h1
        · have := hsub.eq_of_length_le h1
          rw [this] at hne; exact absurd hm hne
      have := ih _ hp.1.inv (by omega) (by omega)
      exact ⟨Step.trans hp.1 this.1, this.2⟩

/-! ## Property theorems -/

theorem inv_init (n : Nat) (order : List Nat) (hperm : order.Perm (List.range n)) :
    Inv n (initState n order) := by
  have hnd : order.Nodup := hperm.nodup_iff.mpr List.nodup_range
  have hmem : ∀ m, m ∈ order ↔ m < n := by
    intro m; rw [hperm.mem_iff]; simp
  refine ⟨by simp [initState], hnd, ?_, by intro m; simp [initState], ?_⟩
  · intro m
    show m ∈ order ↔ _
    rw [hmem m]
    simp only [getSt, initState, List.getD_eq_getElem?_getD]
    by_cases hm : m < n
    · simp [hm, List.getElem?_replicate]
    · simp [hm, List.getElem?_replicate]
  · intro m
    show starts [] m = if m ∈ order then 0 else _
    by_cases hm : m < n
    · simp [starts, (hmem m).mpr hm]
    · have : m ∉ order := fun hh => hm ((hmem m).mp hh)
      simp [starts, this, hm]

/-- **process_terminates_drains** (C01, C06): for every project (any import graph, cycles
included, any set of unparsable files) and every initial order of `unprocessed_modules`,
`process` ends with nothing left to process, no module UNPROCESSED, no failed `assert`, every
module entered exactly once, every parsable module PROCESSED and every unparsable one left
PROCESSING (reported). -/
theorem process_terminates_drains (mods : List Mod) (order : List Nat)
    (hperm : order.Perm (List.range mods.length)) :
    (run mods order).unprocessed = [] ∧ noAssert (run mods order).log ∧
    (∀ m, m < mods.length → starts (run mods order).log m = 1) ∧
    (∀ m, m < mods.length → getSt (run mods order) m = final mods m) := by
  unfold run
  have h0 := inv_init mods.length order hperm
  have hlen : (initState mods.length order).unprocessed.length = mods.length := by
    show order.length = _
    rw [hperm.length_eq]; simp
  have hs := process_spec mods mods.length (mods.length + 1) _ h0 (by omega) (by omega)
  refine ⟨hs.2, hs.1.inv.noassert, ?_, ?_⟩
  · intro m hm
    have := hs.1.inv.once m
    rw [hs.2] at this
    simpa [hm] using this
  · intro m hm
    have hin : m ∈ (initState mods.length order).unprocessed := by
      show m ∈ order
      rw [hperm.mem_iff]; simpa using hm
    have hout : m ∉ (process mods (mods.length + 1) (initState mods.length order)).unprocessed := by
      rw [hs.2]; simp
    exact hs.1.done m hin hout

/-- **state_order_independent** (C06): the processing state every module ends in is the same for
every two schedules. -/
theorem state_order_independent (mods : List Mod) (o1 o2 : List Nat)
    (h1 : o1.Perm (List.range mods.length)) (h2 : o2.Perm (List.range mods.length)) (m : Nat)
    (hm : m < mods.length) : getSt (run mods o1) m = getSt (run mods o2) m := by
  rw [(process_terminates_drains mods o1 h1).2.2.2 m hm, (process_terminates_drains mods o2 h2).2.2.2 m hm]

/-- **one_bad_file** (C01): whether a module ends PROCESSED depends only on whether its own file
parses, never on the other files. -/
theorem one_bad_file (mods : List Mod) (order : List Nat) (hperm : order.Perm (List.range mods.length))
    (m : Nat) (md : Mod) (hm : mods[m]? = some md) :
    getSt (run mods order) m = if md.parses then .processed else .processing := by
  have hlt : m < mods.length := by
    rcases List.getElem?_eq_some_iff.mp hm with ⟨h, _⟩; exact h
  rw [(process_terminates_drains mods order hperm).2.2.2 m hlt]
  simp [final, hm]

/-- exit status of `driver.main` is one of the documented values, decided as documented -/
theorem exit_status_range (w : Bool) (v p : Nat) :
    exitStatus w v p = 0 ∨ exitStatus w v p = 2 ∨ exitStatus w v p = 3 := by
  unfold exitStatus
  split
  · simp
  · split <;> simp

theorem exit_status_three_iff (w : Bool) (v p : Nat) :
    exitStatus w v p = 3 ↔ (w = true ∧ 0 < v) := by
  unfold exitStatus
  by_cases hw : w = true <;> by_cases hv : 0 < v <;> simp [hw, hv] <;> split <;> simp

theorem exit_status_two_iff (v p : Nat) : exitStatus false v p = 2 ↔ 0 < p := by
  unfold exitStatus; simp; omega

/-! non-vacuity: a three-module project with a cycle and an unparsable file -/
def exMods : List Mod := [⟨true, [1]⟩, ⟨true, [2, 0]⟩, ⟨false, []⟩]
example : [2, 0, 1].Perm (List.range exMods.length) := by decide
example : (run exMods [2, 0, 1]).unprocessed = [] :=
  (process_terminates_drains exMods [2, 0, 1] (by decide)).1

/-! ## acyclic projects: every import observes its target in its final state, in every order -/

/-- the import graph is acyclic (`r` ranks every module above the modules its body asks for) and
only names known modules -/
structure Ranked (mods : List Mod) (r : Nat → Nat) : Prop where
  lt : ∀ (m : Nat) (md : Mod) (t : Nat), mods[m]? = some md → t ∈ md.imports → r t < r m
  known : ∀ (m : Nat) (md : Mod) (t : Nat), mods[m]? = some md → t ∈ md.imports → t < mods.length

/-- every `sees` event reports the imported module in the state it ends in -/
def SeesFinal (mods : List Mod) (l : List Event) : Prop :=
  ∀ m t st, Event.sees m t st ∈ l → st = final mods t

/-- still being analysed: PROCESSING although the file parses (the modules on the call stack) -/
def Busy (mods : List Mod) (s : State) (k : Nat) : Prop :=
  getSt s k = .processing ∧ final mods k = .processed

/-- PROCESSED is only ever the state of a module whose file parses -/
def Settled (mods : List Mod) (n : Nat) (s : State) : Prop :=
  ∀ k, k < n → getSt s k = .processed → final mods k = .processed

theorem final_cases (mods : List Mod) (k : Nat) : final mods k = .processed ∨ final mods k = .processing := by
  unfold final
  cases mods[k]? with
  | none => simp
  | some md => cases md.parses <;> simp

theorem seesFinal_append {mods : List Mod} {l l' : List Event} (h : SeesFinal mods l) (h' : SeesFinal mods l') :
    SeesFinal mods (l ++ l') := by
  intro m t st hm
  rcases List.mem_append.mp hm with h1 | h1
  · exact h m t st h1
  · exact h' m t st h1

theorem busy_of_step {mods : List Mod} {n : Nat} {s s' : State} (h : Step mods n s s') {k : Nat}
    (hb : Busy mods s' k) : Busy mods s k := by
  by_cases hk : k ∈ s.unprocessed
  · exfalso
    by_cases hk' : k ∈ s'.unprocessed
    · have := (h.inv.iff k).mp hk'
      rw [hb.1] at this; cases this
    · have := h.done k hk hk'
      rw [hb.1, hb.2] at this; cases this
  · exact ⟨(h.frame k hk) ▸ hb.1, hb.2⟩

theorem settled_of_step {mods : List Mod} {n : Nat} {s s' : State} (h : Step mods n s s')
    (hs : Settled mods n s) : Settled mods n s' := by
  intro k hkn hk
  by_cases hku : k ∈ s.unprocessed
  · by_cases hk' : k ∈ s'.unprocessed
    · have := (h.inv.iff k).mp hk'
      rw [hk] at this; cases this
    · have := h.done k hku hk'
      rw [hk] at this; exact this.symm
  · rw [h.frame k hku] at hk
    exact hs k hkn hk

def PMsees (mods : List Mod) (r : Nat → Nat) (f : Nat) : Prop :=
  ∀ s m, Inv mods.length s → m ∈ s.unprocessed → s.unprocessed.length ≤ f → Settled mods mods.length s →
    (∀ k, Busy mods s k → r m < r k) → SeesFinal mods s.log →
    SeesFinal mods (processModule mods f s m).log

def VBsees (mods : List Mod) (r : Nat → Nat) (f : Nat) : Prop :=
  ∀ ts s m, Inv mods.length s → s.unprocessed.length ≤ f → Settled mods mods.length s →
    (∀ k, Busy mods s k → k = m ∨ r m < r k) → (∀ t ∈ ts, r t < r m ∧ t < mods.length) →
    SeesFinal mods s.log → SeesFinal mods (visitBody mods f s m ts).log

theorem vbsees_of_pmsees (mods : List Mod) (r : Nat → Nat) (f : Nat) (hpm : PMsees mods r f) :
    VBsees mods r f := by
  intro ts
  induction ts with
  | nil => intro s m _ _ _ _ _ hl; simpa only [visitBody] using hl
  | cons t ts ih =>
    intro s m h hf hset hbusy hts hl
    obtain ⟨hrt, htn⟩ := hts t List.mem_cons_self
    have hts' : ∀ u ∈ ts, r u < r m ∧ u < mods.length := fun u hu => hts u (List.mem_cons_of_mem _ hu)
    simp only [visitBody]
    by_cases ht : getSt s t = .unprocessed
    · have hmem : t ∈ s.unprocessed := (h.iff t).mpr ht
      have hp := pm_all mods mods.length f s t h hmem hf
      have hl1 := hpm s t h hmem hf hset
        (fun k hk => by
          rcases hbusy k hk with e | e
          · rw [e]; exact hrt
          · exact Nat.lt_trans hrt e) hl
      simp only [ht, if_true]
      have hfin : getSt (processModule mods f s t) t = final mods t := hp.1.done t hmem hp.2
      have hlog := Step.log (mods := mods) hp.1 [Event.sees m t (getSt (processModule mods f s t) t)]
        (by intro k; simp [starts]) (by intro k; simp)
      have hlen : (processModule mods f s t).unprocessed.length ≤ f :=
        Nat.le_trans hp.1.sub.length_le hf
      refine ih _ m hlog.inv hlen (settled_of_step hlog hset)
        (fun k hk => hbusy k (busy_of_step hlog hk)) hts' ?_
      refine seesFinal_append hl1 ?_
      intro a b st hm
      simp only [List.mem_singleton, Event.sees.injEq] at hm
      obtain ⟨_, rfl, rfl⟩ := hm
      exact hfin
    · simp only [ht, if_false]
      have hlog := Step.log (mods := mods) (Step.refl h) [Event.sees m t (getSt s t)]
        (by intro k; simp [starts]) (by intro k; simp)
      refine ih _ m hlog.inv hf (settled_of_step hlog hset)
        (fun k hk => hbusy k (busy_of_step hlog hk)) hts' ?_
      refine seesFinal_append hl ?_
      intro a b st hm
      simp only [List.mem_singleton, Event.sees.injEq] at hm
      obtain ⟨_, rfl, rfl⟩ := hm
      cases hst : getSt s b with
      | unprocessed => exact absurd hst ht
      | processed => exact (hset b htn hst).symm
      | processing =>
        rcases final_cases mods b with hf' | hf'
        · exfalso
          rcases hbusy b ⟨hst, hf'⟩ with e | e
          · rw [e] at hrt; exact Nat.lt_irrefl _ hrt
          · exact Nat.lt_irrefl _ (Nat.lt_trans hrt e)
        · exact hf'.symm

theorem pmsees_succ_of_vbsees (mods : List Mod) (r : Nat → Nat) (hr : Ranked mods r) (f : Nat)
    (hvb : VBsees mods r f) : PMsees mods r (f+1) := by
  intro s m h hm hf hset hbusy hl
  have hst : getSt s m = .unprocessed := (h.iff m).mp hm
  have hmn : m < mods.length := getSt_lt h hst
  rw [processModule_eq mods f s m hst hm]
  have hstart : SeesFinal mods (s.log ++ [Event.start m]) :=
    seesFinal_append hl (by intro a b st hh; simp at hh)
  cases hmd : mods[m]? with
  | none => exact hstart
  | some md =>
    simp only
    by_cases hp : md.parses = true
    · simp only [hp, if_true]
      have hinv1v : Inv mods.length (addLog (enter s m) [.visit m]) :=
        inv_addLog (inv_enter h hm hmn) _ (by intro k; simp [starts]) (by intro k; simp)
      have hlen1 : (addLog (enter s m) [.visit m]).unprocessed.length ≤ f := by
        show (s.unprocessed.erase m).length ≤ f
        rw [List.length_erase_of_mem hm]; omega
      have hget : ∀ k, getSt (addLog (enter s m) [.visit m]) k = if k = m then .processing else getSt s k :=
        fun k => getSt_enter h hmn k
      have hset1 : Settled mods mods.length (addLog (enter s m) [.visit m]) := by
        intro k hkn hk
        rw [hget k] at hk
        by_cases hkm : k = m
        · simp [hkm] at hk
        · simp only [hkm, if_false] at hk; exact hset k hkn hk
      have hbusy1 : ∀ k, Busy mods (addLog (enter s m) [.visit m]) k → k = m ∨ r m < r k := by
        intro k hk
        by_cases hkm : k = m
        · exact .inl hkm
        · refine .inr (hbusy k ⟨?_, hk.2⟩)
          have := hk.1
          rw [hget k] at this
          simpa [hkm] using this
      have hl1 : SeesFinal mods (addLog (enter s m) [.visit m]).log :=
        seesFinal_append hstart (by intro a b st hh; simp at hh)
      have := hvb md.imports _ m hinv1v hlen1 hset1 hbusy1
        (fun t ht => ⟨hr.lt m md t hmd ht, hr.known m md t hmd ht⟩) hl1
      exact seesFinal_append this (by intro a b st hh; simp at hh)
    · have hp' : md.parses = false := by simpa using hp
      simp only [hp', Bool.false_eq_true, if_false]
      exact seesFinal_append hstart (by intro a b st hh; simp at hh)

theorem pmsees_all (mods : List Mod) (r : Nat → Nat) (hr : Ranked mods r) : ∀ f, PMsees mods r f
  | 0 => by
    intro s m _ hm hf
    have : 0 < s.unprocessed.length := List.length_pos_of_mem hm
    omega
  | f+1 => pmsees_succ_of_vbsees mods r hr f (vbsees_of_pmsees mods r f (pmsees_all mods r hr f))

theorem process_sees (mods : List Mod) (r : Nat → Nat) (hr : Ranked mods r) :
    ∀ f s, Inv mods.length s → s.unprocessed.length ≤ mods.length + 1 → Settled mods mods.length s →
      (∀ k, ¬ Busy mods s k) → SeesFinal mods s.log → SeesFinal mods (process mods f s).log := by
  intro f
  induction f with
  | zero => intro s _ _ _ _ hl; simpa [process] using hl
  | succ f ih =>
    intro s h hb hset hbusy hl
    unfold process
    cases hu : s.unprocessed with
    | nil => simpa [hu] using hl
    | cons m rest =>
      simp only
      have hm : m ∈ s.unprocessed := by simp [hu]
      have hp := pm_all mods mods.length (mods.length + 1) s m h hm hb
      have hl1 := pmsees_all mods r hr (mods.length + 1) s m h hm hb hset
        (fun k hk => absurd hk (hbusy k)) hl
      exact ih _ hp.1.inv (Nat.le_trans hp.1.sub.length_le hb) (settled_of_step hp.1 hset)
        (fun k hk => hbusy k (busy_of_step hp.1 hk)) hl1

/-- **acyclic_sees_final** (C06): in a project whose import graph is acyclic, whatever the order in
which the modules are taken up, every import statement obtains its target module in the state that
module ENDS in — fully analysed (PROCESSED), or reported as unparsable. No module body ever looks
into a half-analysed module, which is why what it computes from its imports cannot depend on the
order. (With an import cycle this is false: `cyclic_sees_unfinished` below.) -/
theorem acyclic_sees_final (mods : List Mod) (r : Nat → Nat) (hr : Ranked mods r) (order : List Nat)
    (hperm : order.Perm (List.range mods.length)) : SeesFinal mods (run mods order).log := by
  unfold run
  have h0 := inv_init mods.length order hperm
  have hlen : (initState mods.length order).unprocessed.length = mods.length := by
    show order.length = _
    rw [hperm.length_eq]; simp
  have hget : ∀ k, k < mods.length → getSt (initState mods.length order) k = .unprocessed := by
    intro k hk
    simp [getSt, initState, List.getD_eq_getElem?_getD, List.getElem?_replicate, hk]
  refine process_sees mods r hr _ _ h0 (by omega) ?_ ?_ (by intro a b st hh; simp [initState] at hh)
  · intro k hk hp; rw [hget k hk] at hp; cases hp
  · intro k hb
    by_cases hk : k < mods.length
    · have := hb.1; rw [hget k hk] at this; cases this
    · have := hb.1
      simp [getSt, initState, List.getD_eq_getElem?_getD, List.getElem?_replicate, hk] at this

/-- non-vacuity: an acyclic three-module project with an unparsable file, two orders -/
def exAcyclic : List Mod := [⟨true, [1, 2]⟩, ⟨true, [2]⟩, ⟨false, []⟩]
def exRank : Nat → Nat := fun m => 3 - m
theorem exAcyclic_ranked : Ranked exAcyclic exRank := by
  refine ⟨?_, ?_⟩ <;> intro m md t hm ht <;>
    (match m, hm with
     | 0, hm => simp [exAcyclic] at hm; subst hm; simp at ht; rcases ht with rfl | rfl <;> simp [exRank, exAcyclic]
     | 1, hm => simp [exAcyclic] at hm; subst hm; simp at ht; subst ht; simp [exRank, exAcyclic]
     | 2, hm => simp [exAcyclic] at hm; subst hm; simp at ht
     | n+3, hm => simp [exAcyclic] at hm)
example : SeesFinal exAcyclic (run exAcyclic [1, 0, 2]).log :=
  acyclic_sees_final exAcyclic exRank exAcyclic_ranked [1, 0, 2] (by decide)
example : Event.sees 0 2 .processing ∈ (run exAcyclic [1, 0, 2]).log := by
  simp [run, process, processModule, visitBody, initState, getSt, setSt, exAcyclic]

/-- with an import cycle a body does look into a half-analysed module, and which one does depends on
the order: in `exMods` (0 → 1 → {2, 0}) module 1 sees module 0 PROCESSING when 0 is taken up first,
while module 0 sees module 1 PROCESSING when 1 is taken up first -/
theorem cyclic_sees_unfinished :
    Event.sees 1 0 .processing ∈ (run exMods [0, 1, 2]).log ∧ final exMods 0 = .processed ∧
    Event.sees 0 1 .processing ∈ (run exMods [1, 0, 2]).log ∧ final exMods 1 = .processed := by
  refine ⟨?_, by decide, ?_, by decide⟩ <;>
    simp [run, process, processModule, visitBody, initState, getSt, setSt, exMods]

/-! ## what a module body observes is the same in every order -/

/-- the `sees` events of importer `m`, in log order -/
def seesOf (m : Nat) (l : List Event) : List Event :=
  l.filter fun e => match e with | .sees a _ _ => a == m | _ => false

/-- what the body of `m` observes in an acyclic project: each import, in source order, in its final state -/
def view (mods : List Mod) (m : Nat) : List Event :=
  match mods[m]? with
  | some md => if md.parses then md.imports.map (fun t => Event.sees m t (final mods t)) else []
  | none => []

theorem seesOf_append (m : Nat) (l l' : List Event) : seesOf m (l ++ l') = seesOf m l ++ seesOf m l' := by
  simp [seesOf]

/-- contribution of one call to the `sees` events of `m`: its whole view if the call analysed `m` -/
def contrib (mods : List Mod) (m : Nat) (s s' : State) : List Event :=
  if m ∈ s.unprocessed ∧ m ∉ s'.unprocessed then view mods m else []

def PMview (mods : List Mod) (r : Nat → Nat) (f : Nat) : Prop :=
  ∀ s k, Inv mods.length s → k ∈ s.unprocessed → s.unprocessed.length ≤ f → Settled mods mods.length s →
    (∀ j, Busy mods s j → r k < r j) →
    ∀ m, seesOf m (processModule mods f s k).log = seesOf m s.log ++ contrib mods m s (processModule mods f s k)

def VBview (mods : List Mod) (r : Nat → Nat) (f : Nat) : Prop :=
  ∀ ts s m0, Inv mods.length s → s.unprocessed.length ≤ f → Settled mods mods.length s →
    m0 ∉ s.unprocessed →
    (∀ j, Busy mods s j → j = m0 ∨ r m0 < r j) → (∀ t ∈ ts, r t < r m0 ∧ t < mods.length) →
    ∀ m, seesOf m (visitBody mods f s m0 ts).log = seesOf m s.log ++
      (if m = m0 then ts.map (fun t => Event.sees m0 t (final mods t))
       else contrib mods m s (visitBody mods f s m0 ts))

theorem seesOf_single (m a t : Nat) (st : PState) :
    seesOf m [Event.sees a t st] = if m = a then [Event.sees a t st] else [] := by
  by_cases h : a = m
  · subst h; simp [seesOf]
  · have h' : ¬ m = a := fun e => h e.symm
    simp [seesOf, h, h']

theorem vbview_of_pmview (mods : List Mod) (r : Nat → Nat) (f : Nat) (hpm : PMview mods r f) :
    VBview mods r f := by
  intro ts
  induction ts with
  | nil =>
    intro s m0 _ _ _ _ _ _ m
    simp only [visitBody, List.map_nil]
    by_cases hm : m = m0
    · simp [hm]
    · simp [hm, contrib]
  | cons t ts ih =>
    intro s m0 h hf hset hm0 hbusy hts m
    obtain ⟨hrt, htn⟩ := hts t List.mem_cons_self
    have hts' : ∀ u ∈ ts, r u < r m0 ∧ u < mods.length := fun u hu => hts u (List.mem_cons_of_mem _ hu)
    simp only [visitBody]
    by_cases ht : getSt s t = .unprocessed
    · have hmem : t ∈ s.unprocessed := (h.iff t).mpr ht
      have hp := pm_all mods mods.length f s t h hmem hf
      have hv1 := hpm s t h hmem hf hset
        (fun j hj => by
          rcases hbusy j hj with e | e
          · rw [e]; exact hrt
          · exact Nat.lt_trans hrt e) m
      simp only [ht, if_true]
      have hfin : getSt (processModule mods f s t) t = final mods t := hp.1.done t hmem hp.2
      have hlog := Step.log (mods := mods) hp.1 [Event.sees m0 t (getSt (processModule mods f s t) t)]
        (by intro k; simp [starts]) (by intro k; simp)
      have hlen : (processModule mods f s t).unprocessed.length ≤ f :=
        Nat.le_trans hp.1.sub.length_le hf
      have hm0' : m0 ∉ (processModule mods f s t).unprocessed := fun hh => hm0 (hp.1.sub.subset hh)
      have hrest := ih _ m0 hlog.inv hlen (settled_of_step hlog hset) hm0'
        (fun j hj => hbusy j (busy_of_step hlog hj)) hts' m
      rw [hrest]
      show seesOf m ((processModule mods f s t).log ++ [Event.sees m0 t (getSt (processModule mods f s t) t)]) ++ _ = _
      rw [seesOf_append, hv1, hfin, seesOf_single]
      generalize hS' : visitBody mods f
        { (processModule mods f s t) with log := (processModule mods f s t).log ++ [Event.sees m0 t (final mods t)] } m0 ts = S'
      have hsub' : S'.unprocessed.Sublist (processModule mods f s t).unprocessed := by
        have := (vb_of_pm mods mods.length f (pm_all mods mods.length f) ts _ m0 hlog.inv hlen).sub
        rw [hfin] at this; rw [← hS']; exact this
      by_cases hm : m = m0
      · subst hm
        have : contrib mods m s (processModule mods f s t) = [] := by simp [contrib, hm0]
        simp [this]
      · simp only [hm, if_false, List.append_nil]
        simp only [contrib]
        by_cases h1 : m ∈ s.unprocessed
        · by_cases h2 : m ∈ (processModule mods f s t).unprocessed
          · simp [h1, h2]
          · have h3 : m ∉ S'.unprocessed := fun hh => h2 (hsub'.subset hh)
            simp [h1, h2, h3]
        · have h2 : m ∉ (processModule mods f s t).unprocessed := fun hh => h1 (hp.1.sub.subset hh)
          simp [h1, h2]
    · simp only [ht, if_false]
      have hlog := Step.log (mods := mods) (Step.refl h) [Event.sees m0 t (getSt s t)]
        (by intro k; simp [starts]) (by intro k; simp)
      have hfin : getSt s t = final mods t := by
        cases hst : getSt s t with
        | unprocessed => exact absurd hst ht
        | processed => exact (hset t htn hst).symm
        | processing =>
          rcases final_cases mods t with hf' | hf'
          · exfalso
            rcases hbusy t ⟨hst, hf'⟩ with e | e
            · rw [e] at hrt; exact Nat.lt_irrefl _ hrt
            · exact Nat.lt_irrefl _ (Nat.lt_trans hrt e)
          · exact hf'.symm
      have hrest := ih _ m0 hlog.inv hf (settled_of_step hlog hset) hm0
        (fun j hj => hbusy j (busy_of_step hlog hj)) hts' m
      rw [hrest]
      show seesOf m (s.log ++ [Event.sees m0 t (getSt s t)]) ++ _ = _
      rw [seesOf_append, hfin, seesOf_single]
      by_cases hm : m = m0
      · subst hm; simp
      · simp only [hm, if_false, List.append_nil]
        rfl

theorem pmview_succ_of_vbview (mods : List Mod) (r : Nat → Nat) (hr : Ranked mods r) (f : Nat)
    (hvb : VBview mods r f) : PMview mods r (f+1) := by
  intro s k h hk hf hset hbusy m
  have hst : getSt s k = .unprocessed := (h.iff k).mp hk
  have hkn : k < mods.length := getSt_lt h hst
  have hk1 : k ∉ (enter s k).unprocessed := by rw [mem_enter h.nodup]; simp
  rw [processModule_eq mods f s k hst hk]
  have hnostart : seesOf m (s.log ++ [Event.start k]) = seesOf m s.log := by
    rw [seesOf_append]; simp [seesOf]
  cases hmd : mods[k]? with
  | none =>
    show seesOf m (s.log ++ [Event.start k]) = _
    rw [hnostart]
    simp only [contrib]
    by_cases hmk : m = k
    · subst hmk; simp [view, hmd]
    · have : ¬ (m ∈ s.unprocessed ∧ m ∉ (enter s k).unprocessed) := by
        rw [mem_enter h.nodup]; simp [hmk]
      simp [this]
  | some md =>
    simp only
    by_cases hp : md.parses = true
    · simp only [hp, if_true]
      have hinv1v : Inv mods.length (addLog (enter s k) [.visit k]) :=
        inv_addLog (inv_enter h hk hkn) _ (by intro j; simp [starts]) (by intro j; simp)
      have hlen1 : (addLog (enter s k) [.visit k]).unprocessed.length ≤ f := by
        show (s.unprocessed.erase k).length ≤ f
        rw [List.length_erase_of_mem hk]; omega
      have hget : ∀ j, getSt (addLog (enter s k) [.visit k]) j = if j = k then .processing else getSt s j :=
        fun j => getSt_enter h hkn j
      have hset1 : Settled mods mods.length (addLog (enter s k) [.visit k]) := by
        intro j hjn hj
        rw [hget j] at hj
        by_cases hjk : j = k
        · simp [hjk] at hj
        · simp only [hjk, if_false] at hj; exact hset j hjn hj
      have hbusy1 : ∀ j, Busy mods (addLog (enter s k) [.visit k]) j → j = k ∨ r k < r j := by
        intro j hj
        by_cases hjk : j = k
        · exact .inl hjk
        · refine .inr (hbusy j ⟨?_, hj.2⟩)
          have := hj.1
          rw [hget j] at this
          simpa [hjk] using this
      have hv := hvb md.imports _ k hinv1v hlen1 hset1 hk1 hbusy1
        (fun t ht => ⟨hr.lt k md t hmd ht, hr.known k md t hmd ht⟩) m
      show seesOf m ((visitBody mods f (addLog (enter s k) [.visit k]) k md.imports).log ++ [Event.finish k]) = _
      rw [seesOf_append, hv]
      have h0 : seesOf m (addLog (enter s k) [.visit k]).log = seesOf m s.log := by
        show seesOf m ((s.log ++ [Event.start k]) ++ [Event.visit k]) = _
        rw [seesOf_append, hnostart]; simp [seesOf]
      rw [h0]
      have hfinish : seesOf m [Event.finish k] = [] := by simp [seesOf]
      rw [hfinish, List.append_nil]
      congr 1
      generalize hS2 : visitBody mods f (addLog (enter s k) [.visit k]) k md.imports = s2
      have hsub2 : s2.unprocessed.Sublist (enter s k).unprocessed := by
        have := (vb_of_pm mods mods.length f (pm_all mods mods.length f) md.imports _ k hinv1v hlen1).sub
        rw [← hS2]; exact this
      by_cases hmk : m = k
      · subst hmk
        have hk2 : m ∉ s2.unprocessed := fun hh => hk1 (hsub2.subset hh)
        simp [contrib, leave, hk, hk2, view, hmd, hp]
      · simp only [hmk, if_false, contrib]
        have hiff : m ∈ (addLog (enter s k) [.visit k]).unprocessed ↔ m ∈ s.unprocessed := by
          show m ∈ (enter s k).unprocessed ↔ _
          rw [mem_enter h.nodup]; simp [hmk]
        by_cases hc : m ∈ s.unprocessed ∧ m ∉ s2.unprocessed
        · have hc' : m ∈ (addLog (enter s k) [.visit k]).unprocessed ∧ m ∉ (leave s2 k).unprocessed :=
            ⟨hiff.mpr hc.1, hc.2⟩
          have hc'' : m ∈ (addLog (enter s k) [.visit k]).unprocessed ∧ m ∉ s2.unprocessed := ⟨hiff.mpr hc.1, hc.2⟩
          rw [if_pos hc'', if_pos (show m ∈ s.unprocessed ∧ m ∉ (leave s2 k).unprocessed from hc)]
        · have hc'' : ¬ (m ∈ (addLog (enter s k) [.visit k]).unprocessed ∧ m ∉ s2.unprocessed) :=
            fun hh => hc ⟨hiff.mp hh.1, hh.2⟩
          rw [if_neg hc'', if_neg (show ¬ (m ∈ s.unprocessed ∧ m ∉ (leave s2 k).unprocessed) from hc)]
    · have hp' : md.parses = false := by simpa using hp
      simp only [hp', Bool.false_eq_true, if_false]
      show seesOf m ((s.log ++ [Event.start k]) ++ [Event.parseError k]) = _
      rw [seesOf_append, hnostart]
      have : seesOf m [Event.parseError k] = [] := by simp [seesOf]
      rw [this, List.append_nil]
      simp only [contrib]
      by_cases hmk : m = k
      · subst hmk; simp [view, hmd, hp']
      · have : ¬ (m ∈ s.unprocessed ∧ m ∉ (addLog (enter s k) [Event.parseError k]).unprocessed) := by
          show ¬ (m ∈ s.unprocessed ∧ m ∉ (enter s k).unprocessed)
          rw [mem_enter h.nodup]; simp [hmk]
        simp [this]

theorem pmview_all (mods : List Mod) (r : Nat → Nat) (hr : Ranked mods r) : ∀ f, PMview mods r f
  | 0 => by
    intro s k _ hk hf
    have : 0 < s.unprocessed.length := List.length_pos_of_mem hk
    omega
  | f+1 => pmview_succ_of_vbview mods r hr f (vbview_of_pmview mods r f (pmview_all mods r hr f))

theorem process_view (mods : List Mod) (r : Nat → Nat) (hr : Ranked mods r) :
    ∀ f s, Inv mods.length s → s.unprocessed.length ≤ f → s.unprocessed.length ≤ mods.length + 1 →
      Settled mods mods.length s → (∀ k, ¬ Busy mods s k) →
      ∀ m, seesOf m (process mods f s).log = seesOf m s.log ++ (if m ∈ s.unprocessed then view mods m else []) := by
  intro f
  induction f with
  | zero =>
    intro s _ hf _ _ _ m
    have : s.unprocessed = [] := List.eq_nil_of_length_eq_zero (by omega)
    simp [process, this]
  | succ f ih =>
    intro s h hf hb hset hbusy m
    unfold process
    cases hu : s.unprocessed with
    | nil => simp
    | cons k rest =>
      simp only
      have hk : k ∈ s.unprocessed := by simp [hu]
      have hp := pm_all mods mods.length (mods.length + 1) s k h hk hb
      have hv := pmview_all mods r hr (mods.length + 1) s k h hk hb hset
        (fun j hj => absurd hj (hbusy j)) m
      have hlt : (processModule mods (mods.length + 1) s k).unprocessed.length < s.unprocessed.length := by
        rcases Nat.lt_or_ge (processModule mods (mods.length + 1) s k).unprocessed.length s.unprocessed.length with h1 | h1
        · exact h1
        · have := hp.1.sub.eq_of_length_le h1
          have hne := hp.2
          rw [this] at hne; exact absurd hk hne
      have hrest := ih _ hp.1.inv (by omega) (by omega) (settled_of_step hp.1 hset)
        (fun j hj => hbusy j (busy_of_step hp.1 hj)) m
      rw [hrest, hv, List.append_assoc]
      congr 1
      have hmem : (m ∈ k :: rest) ↔ m ∈ s.unprocessed := by rw [hu]
      simp only [contrib]
      by_cases h1 : m ∈ s.unprocessed
      · by_cases h2 : m ∈ (processModule mods (mods.length + 1) s k).unprocessed
        · simp [h1, h2, hmem.mpr h1]
        · simp [h1, h2, hmem.mpr h1]
      · have h2 : m ∉ (processModule mods (mods.length + 1) s k).unprocessed := fun hh => h1 (hp.1.sub.subset hh)
        have h3 : ¬ (m ∈ k :: rest) := fun hh => h1 (hmem.mp hh)
        simp [h1, h2, h3]

/-- **body_view_acyclic** (C06): in an acyclic project, under every order, the sequence of things the
body of module `m` obtains from its import statements is exactly: each imported module, in source
order, in its final state -/
theorem body_view_acyclic (mods : List Mod) (r : Nat → Nat) (hr : Ranked mods r) (order : List Nat)
    (hperm : order.Perm (List.range mods.length)) (m : Nat) (hm : m < mods.length) :
    seesOf m (run mods order).log = view mods m := by
  unfold run
  have h0 := inv_init mods.length order hperm
  have hlen : (initState mods.length order).unprocessed.length = mods.length := by
    show order.length = _
    rw [hperm.length_eq]; simp
  have hget : ∀ k, k < mods.length → getSt (initState mods.length order) k = .unprocessed := by
    intro k hk
    simp [getSt, initState, List.getD_eq_getElem?_getD, List.getElem?_replicate, hk]
  have hin : m ∈ (initState mods.length order).unprocessed := by
    show m ∈ order
    rw [hperm.mem_iff]; simpa using hm
  have := process_view mods r hr (mods.length + 1) _ h0 (by omega) (by omega)
    (by intro k hk hp; rw [hget k hk] at hp; cases hp)
    (by
      intro k hb
      by_cases hk : k < mods.length
      · have := hb.1; rw [hget k hk] at this; cases this
      · have := hb.1
        simp [getSt, initState, List.getD_eq_getElem?_getD, List.getElem?_replicate, hk] at this) m
  rw [this]
  have hin' : m ∈ order := hin
  simp [hin', initState, seesOf]

/-- **body_view_order_independent** (C06): what each module body observes through its imports does not
depend on the order in which the modules of an acyclic project are taken up -/
theorem body_view_order_independent (mods : List Mod) (r : Nat → Nat) (hr : Ranked mods r)
    (o1 o2 : List Nat) (h1 : o1.Perm (List.range mods.length)) (h2 : o2.Perm (List.range mods.length))
    (m : Nat) (hm : m < mods.length) :
    seesOf m (run mods o1).log = seesOf m (run mods o2).log := by
  rw [body_view_acyclic mods r hr o1 h1 m hm, body_view_acyclic mods r hr o2 h2 m hm]

example : seesOf 0 (run exAcyclic [1, 0, 2]).log = [Event.sees 0 1 .processed, Event.sees 0 2 .processing] := by
  rw [body_view_acyclic exAcyclic exRank exAcyclic_ranked [1, 0, 2] (by decide) 0 (by decide)]
  decide

/-! ## nothing makes the scheduler enter a package before its sub-modules (hunter finding 3)

`getProcessedModule(t)` processes `t` itself, not the packages above it.  Python always runs `pkg/__init__.py` before
`pkg/core.py`; here a root that is taken up first and asks for `pkg.core` enters `pkg.core` first, and the package's
`__init__` — pulled in by `from . import util` inside `pkg.core` — then finds its own sub-module half analysed.  The
theorems above are about the scheduler as it is (drain, once, final states, what a body observes in an acyclic import
graph) and stay true; what the package's body then makes of the half-analysed sub-module (a re-export that finds
nothing) is the open finding `order-dependent:submodule-analysed-before-its-package` of the direct oracle.

The full statement that does NOT hold of the current code:
  `∀ mods parent order, Reachable parent order → ∀ m p, parent m = some p →
     startPos (run mods order).log p < startPos (run mods order).log m`. -/

/-- position of `start m` in a log (its length when `m` is never entered) -/
def startPos (l : List Event) (m : Nat) : Nat := l.idxOf (Event.start m)

/-- hunt/C06/3: 0 = app.py (`from pkg.core import Base`), 1 = pkg/__init__.py (`from .core import Base`),
2 = pkg/core.py (`from . import util`: asks for `pkg`, then for `pkg.util`), 3 = pkg/util.py -/
def exPkg : List Mod := [⟨true, [2]⟩, ⟨true, [2]⟩, ⟨true, [1, 3]⟩, ⟨true, []⟩]

theorem exPkg_log_root_first : (run exPkg [0, 1, 2, 3]).log =
    [.start 0, .visit 0, .start 2, .visit 2, .start 1, .visit 1, .sees 1 2 .processing, .finish 1, .sees 2 1 .processed,
     .start 3, .visit 3, .finish 3, .sees 2 3 .processed, .finish 2, .sees 0 2 .processed, .finish 0] := by
  simp [run, process, processModule, visitBody, initState, getSt, setSt, exPkg]

theorem exPkg_log_package_first : (run exPkg [1, 2, 3, 0]).log =
    [.start 1, .visit 1, .start 2, .visit 2, .sees 2 1 .processing, .start 3, .visit 3, .finish 3, .sees 2 3 .processed,
     .finish 2, .sees 1 2 .processed, .finish 1, .start 0, .visit 0, .sees 0 2 .processed, .finish 0] := by
  simp [run, process, processModule, visitBody, initState, getSt, setSt, exPkg]

/-- **submodule_before_package_counterexample** (C06): both orders are reachable (package 1 before its modules 2, 3;
the root 0 before or after the package).  With the package first it is entered before its sub-module and obtains it
in its final state; with the root first the sub-module is entered BEFORE its package, and the package's body obtains
its own sub-module while that is still being analysed. -/
theorem submodule_before_package_counterexample :
    startPos (run exPkg [1, 2, 3, 0]).log 1 < startPos (run exPkg [1, 2, 3, 0]).log 2 ∧
    Event.sees 1 2 .processed ∈ (run exPkg [1, 2, 3, 0]).log ∧
    startPos (run exPkg [0, 1, 2, 3]).log 2 < startPos (run exPkg [0, 1, 2, 3]).log 1 ∧
    Event.sees 1 2 .processing ∈ (run exPkg [0, 1, 2, 3]).log := by
  rw [exPkg_log_root_first, exPkg_log_package_first]; decide

end Schedule

/-! ## `_inherits_instance_variable_kind`: the kinds computed by the post-processing pass do not depend
on the order in which the attributes are visited -/
namespace PostProcess

/-- well-formedness of the member table and the linearisations (what pydoctor's registry and a
consistent hierarchy give): a class has one member per name; a linearisation starts with its class,
which does not occur again; the linearisation of every class in it is contained in it -/
structure WF (w : World) : Prop where
  uniq : ∀ i j, i < w.n → j < w.n → w.cls i = w.cls j → w.name i = w.name j → i = j
  head : ∀ c, ∃ t, w.mro c = c :: t ∧ c ∉ t
  mono : ∀ c b, b ∈ w.mro c → ∀ x, x ∈ w.mro b → x ∈ w.mro c

theorem mem_inherited {w : World} (h : WF w) {i j : Nat} :
    j ∈ inherited w i ↔ j < w.n ∧ w.cls j ∈ (w.mro (w.cls i)).tail ∧ w.name j = w.name i := by
  unfold inherited
  rw [List.mem_filterMap]
  constructor
  · rintro ⟨b, hb, hf⟩
    have := List.find?_some hf
    simp only [Bool.and_eq_true, beq_iff_eq] at this
    have hm := List.mem_of_find?_eq_some hf
    exact ⟨by simpa using hm, this.1 ▸ hb, this.2⟩
  · rintro ⟨hj, hc, hn⟩
    refine ⟨w.cls j, hc, ?_⟩
    have hex : ∃ x ∈ List.range w.n, (w.cls x == w.cls j && w.name x == w.name i) = true :=
      ⟨j, by simpa using hj, by simp [hn]⟩
    cases hf : (List.range w.n).find? (fun x => w.cls x == w.cls j && w.name x == w.name i) with
    | none =>
      rw [List.find?_eq_none] at hf
      obtain ⟨x, hx, hp⟩ := hex
      exact absurd hp (hf x hx)
    | some x =>
      have hp := List.find?_some hf
      simp only [Bool.and_eq_true, beq_iff_eq] at hp
      have hx : x < w.n := by simpa using List.mem_of_find?_eq_some hf
      rw [h.uniq x j hx hj hp.1 (hp.2.trans hn.symm)]

/-- the invariant of the pass: a kind only ever changes from class variable to instance variable, and
only where the specification says so -/
def Ok (w : World) (k : Nat → Kind) : Prop :=
  ∀ i, k i = w.orig i ∨ (w.orig i = .classVar ∧ k i = .instVar ∧ spec w i = .instVar)

theorem spec_inst_of_witness {w : World} {i j : Nat} (hi : w.orig i = .classVar) (hj : j ∈ inherited w i)
    (hk : w.orig j = .instVar) : spec w i = .instVar := by
  unfold spec
  have : (inherited w i).any (fun j => w.orig j == .instVar) = true := by
    rw [List.any_eq_true]; exact ⟨j, hj, by simp [hk]⟩
  simp [hi, this]

/-- a member inherited by an inherited member is inherited -/
theorem inherited_trans {w : World} (h : WF w) {i j l : Nat} (hin : i < w.n) (hj : j ∈ inherited w i)
    (hl : l ∈ inherited w j) (hne : w.orig i ≠ w.orig l) : l ∈ inherited w i := by
  rw [mem_inherited h] at hj hl ⊢
  obtain ⟨hjn, hjc, hjname⟩ := hj
  obtain ⟨hln, hlc, hlname⟩ := hl
  refine ⟨hln, ?_, hlname.trans hjname⟩
  obtain ⟨t, ht, hnt⟩ := h.head (w.cls i)
  have hjm : w.cls j ∈ w.mro (w.cls i) := List.mem_of_mem_tail hjc
  have hlm : w.cls l ∈ w.mro (w.cls i) := h.mono _ _ hjm _ (List.mem_of_mem_tail hlc)
  rw [ht] at hlm ⊢
  simp only [List.tail_cons]
  rcases List.mem_cons.mp hlm with e | e
  · exfalso
    have : l = i := h.uniq l i hln hin e (hlname.trans hjname)
    exact hne (this ▸ rfl)
  · exact e

theorem ok_step {w : World} (h : WF w) {k : Nat → Kind} (hk : Ok w k) {i : Nat} (hin : i < w.n) :
    Ok w (step w k i) := by
  unfold step
  split
  · rename_i hc
    obtain ⟨hci, hany⟩ := hc
    intro x
    by_cases hx : x = i
    · subst hx
      simp only [if_true]
      have hoi : w.orig x = .classVar := by
        rcases hk x with e | ⟨_, e, _⟩
        · rw [← e]; exact hci
        · rw [hci] at e; cases e
      refine .inr ⟨hoi, by simp, ?_⟩
      rw [List.any_eq_true] at hany
      obtain ⟨j, hj, hkj⟩ := hany
      have hkj' : k j = .instVar := by simpa using hkj
      rcases hk j with e | ⟨hoj, _, hsj⟩
      · exact spec_inst_of_witness hoi hj (e ▸ hkj')
      · -- j was converted: it has a witness of its own, which x inherits too
        unfold spec at hsj
        split at hsj
        · rename_i hcj
          have hanyj := hcj.2
          rw [List.any_eq_true] at hanyj
          obtain ⟨l, hl, hol⟩ := hanyj
          have hol' : w.orig l = .instVar := by simpa using hol
          exact spec_inst_of_witness hoi (inherited_trans h hin hj hl (by rw [hoi, hol']; decide)) hol'
        · rw [hoj] at hsj; cases hsj
    · simp only [hx, if_false]; exact hk x
  · exact hk

theorem ok_pass {w : World} (h : WF w) : ∀ (order : List Nat) (k : Nat → Kind), Ok w k →
    (∀ i ∈ order, i < w.n) → Ok w (order.foldl (step w) k)
  | [], k, hk, _ => hk
  | i :: rest, k, hk, hlt =>
    ok_pass h rest _ (ok_step h hk (hlt i List.mem_cons_self)) (fun j hj => hlt j (List.mem_cons_of_mem _ hj))

/-- an instance variable stays one; a step only touches the member it is applied to -/
theorem step_inst {w : World} {k : Nat → Kind} {i x : Nat} (hx : k x = .instVar) : step w k i x = .instVar := by
  unfold step; split
  · by_cases e : x = i <;> simp [e, hx]
  · exact hx

theorem pass_inst {w : World} : ∀ (order : List Nat) (k : Nat → Kind) (x : Nat), k x = .instVar →
    order.foldl (step w) k x = .instVar
  | [], _, _, hx => hx
  | _ :: rest, _, x, hx => pass_inst rest _ x (step_inst hx)

/-- once member `i` has been visited, it carries the kind the specification gives it, whatever is
visited afterwards -/
theorem pass_complete {w : World} (h : WF w) : ∀ (order : List Nat) (k : Nat → Kind), Ok w k →
    (∀ i ∈ order, i < w.n) → ∀ i ∈ order, spec w i = .instVar → order.foldl (step w) k i = .instVar
  | [], _, _, _, _, hi, _ => by cases hi
  | a :: rest, k, hk, hlt, i, hi, hs => by
    simp only [List.foldl_cons]
    have hlt' : ∀ j ∈ rest, j < w.n := fun j hj => hlt j (List.mem_cons_of_mem _ hj)
    have hok' := ok_step h hk (hlt a List.mem_cons_self)
    by_cases hia : i = a
    · subst hia
      -- the step at i converts it (or it is an instance variable already)
      have : step w k i i = .instVar := by
        unfold spec at hs
        split at hs
        · rename_i hc
          obtain ⟨hoi, hany⟩ := hc
          rw [List.any_eq_true] at hany
          obtain ⟨j, hj, hoj⟩ := hany
          have hoj' : w.orig j = .instVar := by simpa using hoj
          have hkj : k j = .instVar := by
            rcases hk j with e | ⟨e, _, _⟩
            · rw [e]; exact hoj'
            · rw [hoj'] at e; cases e
          rcases hk i with e | ⟨_, e, _⟩
          · unfold step
            have hany' : (inherited w i).any (fun j => k j == .instVar) = true := by
              rw [List.any_eq_true]; exact ⟨j, hj, by simp [hkj]⟩
            simp [e, hoi, hany']
          · exact step_inst e
        · rcases hk i with e | ⟨_, e, _⟩
          · exact step_inst (e.trans hs)
          · exact step_inst e
      exact pass_inst rest _ i this
    · rcases List.mem_cons.mp hi with e | e
      · exact absurd e hia
      · exact pass_complete h rest _ hok' hlt' i e hs

/-- **kind_pass_spec** (C06, C02): whatever the order in which the attributes are visited — as long as
every one of them is — the pass leaves member `i` with the kind the specification names: an instance
variable iff it was one, or was a class variable with an instance variable of its name up the
linearisation of its class. -/
theorem kind_pass_spec (w : World) (h : WF w) (order : List Nat) (hlt : ∀ i ∈ order, i < w.n)
    (i : Nat) (hi : i ∈ order) : kindPass w order i = spec w i := by
  unfold kindPass
  have hok : Ok w w.orig := fun _ => .inl rfl
  by_cases hs : spec w i = .instVar
  · rw [hs]; exact pass_complete h order _ hok hlt i hi hs
  · rcases ok_pass h order _ hok hlt i with e | ⟨_, _, e⟩
    · rw [e]
      unfold spec at hs ⊢
      split
      · rename_i hc; simp [hc] at hs
      · rfl
    · exact absurd e hs

/-- **kind_pass_order_independent** (C06): two visiting orders of the same attributes give the same kinds -/
theorem kind_pass_order_independent (w : World) (h : WF w) (o1 o2 : List Nat)
    (h1 : ∀ i ∈ o1, i < w.n) (h2 : ∀ i ∈ o2, i < w.n) (i : Nat) (hi1 : i ∈ o1) (hi2 : i ∈ o2) :
    kindPass w o1 i = kindPass w o2 i := by
  rw [kind_pass_spec w h o1 h1 i hi1, kind_pass_spec w h o2 h2 i hi2]

/-- a three-class chain top ← mid ← bot with the attribute an instance variable at the top and a class
variable in both subclasses -/
def exW : World where
  n := 3
  cls := fun i => i
  name := fun _ => 0
  mro := fun c => if c = 1 then [1, 0] else if c = 2 then [2, 1, 0] else [c]
  orig := fun i => if i = 0 then .instVar else .classVar

theorem exW_wf : WF exW := by
  refine ⟨?_, ?_, ?_⟩
  · intro i j _ _ hc _; exact hc
  · intro c
    by_cases h1 : c = 1
    · subst h1; exact ⟨[0], by simp [exW], by simp⟩
    · by_cases h2 : c = 2
      · subst h2; exact ⟨[1, 0], by simp [exW], by simp⟩
      · exact ⟨[], by simp [exW, h1, h2], by simp⟩
  · intro c b hb x hx
    by_cases h1 : c = 1
    · subst h1
      simp [exW] at hb
      rcases hb with rfl | rfl
      · exact hx
      · simp [exW] at hx; subst hx; simp [exW]
    · by_cases h2 : c = 2
      · subst h2
        simp [exW] at hb
        rcases hb with rfl | rfl | rfl
        · exact hx
        · simp [exW] at hx; rcases hx with rfl | rfl <;> simp [exW]
        · simp [exW] at hx; subst hx; simp [exW]
      · simp [exW, h1, h2] at hb; subst hb; exact hx

/-- non-vacuity: bottom first or middle first, both end as instance variables -/
example : kindPass exW [2, 1, 0] 2 = .instVar ∧ kindPass exW [1, 2, 0] 2 = .instVar ∧ kindPass exW [2, 1, 0] 1 = .instVar := by
  refine ⟨?_, ?_, ?_⟩ <;> (rw [kind_pass_spec exW exW_wf _ (by decide) _ (by decide)]; decide)

/-- the early-stop variant (a seeded change) IS order dependent on the same chain: visiting the bottom
attribute before the middle one leaves it a class variable -/
theorem early_stop_order_dependent :
    [2, 1, 0].foldl (stepEarlyStop exW) exW.orig 2 = .classVar ∧
    [1, 2, 0].foldl (stepEarlyStop exW) exW.orig 2 = .instVar := by decide

end PostProcess
